import StorageModel.C16.Lemmas
import StorageModel.C16.LoadLemmas
import StorageModel.Generated.C16Setters
/-
  C16 — System entities can only be changed from a system context.

  "An entity created with the system flag can be created, updated and deleted only through a
  system mutate context; the same attempts from an ordinary context fail and leave the entity
  unchanged.  The flag is fixed at creation - no update from any context turns an ordinary entity
  into a system entity or back - and ordinary entities are unaffected by the constraint."

  The theorems are about the executable model in StorageModel/C16/Model.lean: a universe of three
  stores — the constrained store S, a second store O that S refers to through a cascade-delete
  foreign key and a link collection, and a child store C of S — with checkOperation on the STORED
  flag (ProcessBeforeUpdate for updates — the error lands in the bucket before PersistEntity runs —,
  ProcessAfterUpdate for creates — the entity is already written when the check fails —,
  ProcessBeforeDelete), SetBaseValues / CreateBaseValues / UpdateBaseValues of boltz/base.go branch
  by branch, and **every indirect path**: the cascaded `DeleteById` of the referrers when an owner is
  deleted (with the context `fkDeleteCascadeConstraint` hands on), `DeleteWhere`, create / update /
  delete through the child store (a child create over an existing parent re-runs `CreateBaseValues`
  on the parent's bucket), link clean-up, nested `Db.Update` with a system context (= the
  per-operation context flag).  **Where the constraint is registered — on S, on the child store C
  only, on both — is a parameter of the schema (`St.reg`)**: S's constraints run on every operation
  that touches the entity, C's only on operations that go through C's indexing context (C.Create /
  C.Update, and S.Update / S.DeleteById of an entity WITH child data, via `HandleUpdate` / the child
  store's `processDeleteConstraints`); the theorems are stated for every registration about the
  entities it protects (`Ent.protectedBy`) and read off per registration
  (`…_parent_registration`, `…_child_registration`: with the constraint on C only the property can be
  claimed for the entities that have child data).  `Vals` is the complete in-memory entity; every theorem quantifies
  over all of it.  A history is a list of `Db.Update` bodies, each with a mode: the body aborts at
  the first error, or the caller ignores the errors that were raised before anything was written
  (and commits anyway).
-/
set_option linter.unusedSectionVars false
set_option linter.unusedSimpArgs false
set_option linter.unnecessarySimpa false

namespace StorageModel.Properties.C16
open StorageModel StorageModel.C16

section
variable {K N T : Type} [DecidableEq K] [DecidableEq N] [KeyOrd K]

/-! ## refusal from an ordinary context -/

theorem mem_refs {s : St K N T} {id o : K} {e : Ent K N T} (hg : s.ents.get id = some e) (ho : e.owner = some o) :
    id ∈ refs s o := by
  unfold refs
  rw [mem_sortKeys]
  refine List.mem_map.mpr ⟨(id, e), ?_, rfl⟩
  exact List.mem_filter.mpr ⟨Map.get_some_mem hg, by simp [ho]⟩

theorem mem_matching {s : St K N T} {id : K} {e : Ent K N T} {q : Query K N} (hg : s.ents.get id = some e)
    (hq : q.eval e = true) : id ∈ matching s q := by
  unfold matching
  rw [mem_sortKeys]
  refine List.mem_map.mpr ⟨(id, e), ?_, rfl⟩
  exact List.mem_filter.mpr ⟨Map.get_some_mem hg, hq⟩

theorem any_refused_of_mem {s : St K N T} {ids : List K} {id : K} {e : Ent K N T} (hm : id ∈ ids)
    (hg : s.ents.get id = some e) (hp : e.protectedBy s.reg = true) : ids.any (fun y => refused s y false) = true := by
  rw [List.any_eq_true]
  exact ⟨id, hm, by rw [refused_of_get hg, hp]; rfl⟩

/-- the bucket a create through the child store writes is looked at by a constraint on either store -/
theorem protectedBy_mkEnt_child {reg : Reg} (hr : (reg.onS || reg.onC) = true) (v : Vals K N T) (l : N) (e : Ent K N T)
    (hs : (v.flag || e.isSystem) = true) : (mkEnt v (some l) e).protectedBy reg = true := by
  rw [protectedBy_eq, guarded_mkEnt_child, mkEnt_isSystem, hr, hs]; rfl

theorem protectedBy_split {reg : Reg} {e : Ent K N T} (hp : e.protectedBy reg = true) :
    guarded reg e = true ∧ e.isSystem = true := by
  rw [protectedBy_eq] at hp
  cases h1 : guarded reg e <;> cases h2 : e.isSystem <;> simp_all

/-- extending a protected entity through the child store gives a protected entity -/
theorem protectedBy_mkEnt_child_of {reg : Reg} {e : Ent K N T} (hp : e.protectedBy reg = true) (v : Vals K N T) (l : N) :
    (mkEnt v (some l) e).protectedBy reg = true :=
  protectedBy_mkEnt_child (guarded_some_reg (protectedBy_split hp).1) v l e (by rw [(protectedBy_split hp).2]; simp)

/-- **create / update / delete of a system entity from an ordinary context fail** — directly,
    through the child store, through the cascade of a foreign key and through a delete by query;
    the refused update and delete do not even touch the uncommitted state.  Stated for ANY
    registration of the constraint (`s.reg`): about the entities that registration looks at
    (`Ent.protectedBy`: system entities, and with the constraint on the child store only those of
    them that have child data); the two theorems below read it off per registration. -/
theorem system_needs_system_ctx (s : St K N T) (id : K) :
    -- create with the system flag (id fresh, not blank), whatever else the entity carries: through
    -- S when the constraint is on S, through the child store when it is on either store
    (∀ v : Vals K N T, v.flag = true → s.ents.get id = none →
        (s.reg.onS = true →
          ((step s (.create false id false v)).err = some .sysCreate ∨
            (step s (.create false id false v)).err = some .noOwner)) ∧
        ((s.reg.onS || s.reg.onC) = true →
          ∀ lvl, ((step s (.ccreate false id false v lvl)).err = some .sysCreate ∨
            (step s (.ccreate false id false v lvl)).err = some .noOwner))) ∧
    -- every operation that reaches a protected entity (STORED flag set, a registered constraint looks at it)
    (∀ e, s.ents.get id = some e → e.protectedBy s.reg = true →
        -- update, whatever the update carries, through S …
        (∀ (v : Vals K N T) sn st so, step s (.update false id v sn st so) = { st := s, err := some .sysUpdate }) ∧
        -- … or through the child store (not found when there is no child data)
        (∀ (v : Vals K N T) sn st so sl lvl, ∃ err, step s (.cupdate false id v sn st so sl lvl) = { st := s, err := some err }) ∧
        -- delete through S or through the child store
        step s (.delete false id) = { st := s, err := some .sysDelete } ∧
        step s (.cdelete false id) = { st := s, err := some .sysDelete } ∧
        -- extending it through the child store, whatever the in-memory entity says about the flag
        (∀ (v : Vals K N T) lvl, (step s (.ccreate false id false v lvl)).err ≠ none) ∧
        -- deleting the owner it refers to
        (∀ o, e.owner = some o → o ∈ s.owners → (step s (.odelete false o)).err = some .viaSysDelete) ∧
        -- deleting by a query that matches it
        (∀ q : Query K N, q.eval e = true → (step s (.deleteWhere false q)).err = some .viaSysDelete)) := by
  refine ⟨?_, ?_⟩
  · intro v hv hg
    refine ⟨?_, ?_⟩
    · intro hS
      have hp : (mkEnt v none (blankEnt v.name : Ent K N T)).protectedBy s.reg = true := by
        rw [protectedBy_eq, guarded_mkEnt_fresh, mkEnt_isSystem, hS, hv]; rfl
      rw [step_create_new hg, createOn_eq, hp]
      cases ownerOk s v.owner <;> simp
    · intro hr lvl
      have hp := protectedBy_mkEnt_child hr v lvl (blankEnt v.name : Ent K N T) (by rw [hv]; rfl)
      rw [step_ccreate_new hg, createOn_eq, hp]
      cases ownerOk s v.owner <;> simp
  · intro e hg hp
    refine ⟨?_, ?_, ?_, ?_, ?_, ?_, ?_⟩
    · intro v sn st so; rw [step_update_found hg, updateOn_eq hg, hp]; simp
    · intro v sn st so sl lvl
      rw [step_cupdate_found hg]
      cases e.level.isNone with
      | true => exact ⟨.notFound, by simp⟩
      | false => rw [updateOn_eq hg, hp]; exact ⟨.sysUpdate, by simp⟩
    · rw [step_delete, deleteOne_found hg, hp]; simp
    · rw [step_cdelete, deleteOne_found hg, hp]; simp
    · intro v lvl
      rw [step_ccreate_found hg]
      cases e.level.isSome with
      | true => simp
      | false =>
        have hgd : guarded s.reg e = true := by
          rw [protectedBy_eq] at hp; cases h : guarded s.reg e <;> simp_all
        have hsy : e.isSystem = true := by
          rw [protectedBy_eq] at hp; cases h : e.isSystem <;> simp_all
        have hp' := protectedBy_mkEnt_child (guarded_some_reg hgd) v lvl e (by rw [hsy]; simp)
        rw [createOn_eq, hp']
        cases ownerOk s v.owner <;> simp
    · intro o ho hm
      rw [step_odelete_found hm, any_refused_of_mem (mem_refs hg ho) hg hp]; simp
    · intro q hq
      rw [step_deleteWhere, any_refused_of_mem (mem_matching hg hq) hg hp]; simp

/-- **constraint registered on the parent store S** (alone or together with one on C): every system
    entity is protected, with or without child data -/
theorem system_needs_system_ctx_parent_registration (s : St K N T) (hS : s.reg.onS = true) (id : K) (e : Ent K N T)
    (hg : s.ents.get id = some e) (hs : e.isSystem = true) :
    (∀ (v : Vals K N T) sn st so, step s (.update false id v sn st so) = { st := s, err := some .sysUpdate }) ∧
    (∀ (v : Vals K N T) sn st so sl lvl, ∃ err, step s (.cupdate false id v sn st so sl lvl) = { st := s, err := some err }) ∧
    step s (.delete false id) = { st := s, err := some .sysDelete } ∧
    step s (.cdelete false id) = { st := s, err := some .sysDelete } ∧
    (∀ (v : Vals K N T) lvl, (step s (.ccreate false id false v lvl)).err ≠ none) ∧
    (∀ o, e.owner = some o → o ∈ s.owners → (step s (.odelete false o)).err = some .viaSysDelete) ∧
    (∀ q : Query K N, q.eval e = true → (step s (.deleteWhere false q)).err = some .viaSysDelete) :=
  (system_needs_system_ctx s id).2 e hg (protectedBy_of (guarded_onS hS e) hs)

/-- **constraint registered on the child store C only (or also)**: the property can be claimed for
    the system entities that HAVE child data — for them update and delete through EITHER store
    (operations through S reach C's constraints through `HandleUpdate` / the child store's
    `processDeleteConstraints`), the cascade and the delete by query are refused from an ordinary
    context, and so is every create through the child store that carries the flag or extends a
    system entity.  A system entity WITHOUT child data is beyond the reach of a constraint on C:
    operations on it through S run S's constraints only (examples below: they succeed). -/
theorem system_needs_system_ctx_child_registration (s : St K N T) (hC : s.reg.onC = true) (id : K) :
    (∀ e, s.ents.get id = some e → e.isSystem = true → e.level.isSome = true →
      (∀ (v : Vals K N T) sn st so, step s (.update false id v sn st so) = { st := s, err := some .sysUpdate }) ∧
      (∀ (v : Vals K N T) sn st so sl lvl, step s (.cupdate false id v sn st so sl lvl) = { st := s, err := some .sysUpdate }) ∧
      step s (.delete false id) = { st := s, err := some .sysDelete } ∧
      step s (.cdelete false id) = { st := s, err := some .sysDelete } ∧
      (∀ o, e.owner = some o → o ∈ s.owners → (step s (.odelete false o)).err = some .viaSysDelete) ∧
      (∀ q : Query K N, q.eval e = true → (step s (.deleteWhere false q)).err = some .viaSysDelete)) ∧
    -- creates through the child store: a fresh entity carrying the flag, and any extension of a
    -- system entity that has no child data yet (it gets child data by this very create)
    (∀ (v : Vals K N T) lvl, s.ents.get id = none → v.flag = true → (step s (.ccreate false id false v lvl)).err ≠ none) ∧
    (∀ e (v : Vals K N T) lvl, s.ents.get id = some e → (v.flag || e.isSystem) = true →
      (step s (.ccreate false id false v lvl)).err ≠ none) := by
  have hr : (s.reg.onS || s.reg.onC) = true := by rw [hC]; simp
  refine ⟨?_, ?_, ?_⟩
  · intro e hg hs hl
    have hp : e.protectedBy s.reg = true := protectedBy_of (guarded_onC hC hl) hs
    obtain ⟨h1, _, h3, h4, _, h6, h7⟩ := (system_needs_system_ctx s id).2 e hg hp
    refine ⟨h1, ?_, h3, h4, h6, h7⟩
    intro v sn st so sl lvl
    have hn : e.level.isNone = false := by cases h : e.level <;> simp_all
    rw [step_cupdate_found hg, hn, updateOn_eq hg, hp]; simp
  · intro v lvl hg hv
    rcases ((system_needs_system_ctx s id).1 v hv hg).2 hr lvl with h | h <;> rw [h] <;> simp
  · intro e v lvl hg hvs
    rw [step_ccreate_found hg]
    cases e.level.isSome with
    | true => simp
    | false =>
      rw [createOn_eq, protectedBy_mkEnt_child hr v lvl e hvs]
      cases ownerOk s v.owner <;> simp

/-- … **and leave the entity unchanged**: a transaction in which such an attempt is reached
    commits nothing if its body aborts on errors; if the caller ignores the error of a refused
    update or delete and commits anyway, that operation has changed nothing (previous theorem);
    every failure that leaves partial writes (refused create, refused cascade, …) aborts the body
    in either mode. -/
theorem refused_tx_unchanged (s : St K N T) (k : Bool) (ops : List (Op K N T)) (h : (runOps k s ops).2 = true) :
    commitTx s (k, ops) = s := commitTx_failed h

theorem refused_aborts (k : Bool) (s : St K N T) (op : Op K N T) (rest : List (Op K N T)) (e : Err)
    (he : (step s op).err = some e) (hk : k = false ∨ e.ignorable = false) :
    (runOps k s (op :: rest)).2 = true := by
  rw [runOps_cons_err he]
  rcases hk with rfl | h
  · simp
  · simp [h]

/-- runs compose: a failure anywhere in an aborting body fails the body -/
theorem runOps_append_failed (k : Bool) (s : St K N T) (pre post : List (Op K N T))
    (h : (runOps k (runOps k s pre).1 post).2 = true) (hpre : (runOps k s pre).2 = false) :
    (runOps k s (pre ++ post)).2 = true := by
  induction pre generalizing s with
  | nil => simpa [runOps] using h
  | cons op pre ih =>
    cases he : (step s op).err with
    | none =>
      rw [List.cons_append, runOps_cons_ok he]
      rw [runOps_cons_ok he] at h hpre
      exact ih _ h hpre
    | some e =>
      rw [List.cons_append, runOps_cons_err he]
      rw [runOps_cons_err he] at h hpre
      split
      · next hk => rw [if_pos hk] at h hpre; exact ih _ h hpre
      · rfl

/-- the full statement at the level of a transaction: wherever in the body the refused attempt on
    a system entity sits, an aborting transaction commits nothing -/
theorem system_needs_system_ctx_tx (s : St K N T) (pre rest : List (Op K N T)) (op : Op K N T) (e : Err)
    (hpre : (runOps false s pre).2 = false)
    (he : (step (runOps false s pre).1 op).err = some e) :
    commitTx s (false, pre ++ op :: rest) = s := by
  apply commitTx_failed
  apply runOps_append_failed _ _ _ _ _ hpre
  exact refused_aborts false _ op rest e he (Or.inl rfl)

/-! ## no operation issued from an ordinary context — directly or indirectly — changes or deletes a
    system entity -/

/-- the operation is issued from an ordinary context (link operations, creating an owner and reads
    involve no context at all: they count as ordinary) -/
def ordinaryOp : Op K N T → Bool
  | .create sys .. => !sys
  | .update sys .. => !sys
  | .delete sys _ => !sys
  | .ccreate sys .. => !sys
  | .cupdate sys .. => !sys
  | .cdelete sys _ => !sys
  | .odelete sys _ => !sys
  | .deleteWhere sys _ => !sys
  | .ocreate .. => true
  | .link .. => true
  | .unlink .. => true
  | .read _ => true

/-- `e'` is `e` up to the link set (link collections take a bare transaction: no context is
    involved, the constraint does not apply to them) -/
def SameButLinks (e e' : Ent K N T) : Prop := e' = { e with peers := e'.peers }

theorem sameButLinks_refl (e : Ent K N T) : SameButLinks e e := rfl

theorem sameButLinks_trans {e e1 e2 : Ent K N T} (h1 : SameButLinks e e1) (h2 : SameButLinks e1 e2) : SameButLinks e e2 := by
  unfold SameButLinks at *
  rw [h2, h1]

theorem sameButLinks_isSystem {e e' : Ent K N T} (h : SameButLinks e e') : e'.isSystem = e.isSystem := by
  unfold SameButLinks at h; rw [h]; rfl

theorem sameButLinks_protectedBy {e e' : Ent K N T} (h : SameButLinks e e') (reg : Reg) :
    e'.protectedBy reg = e.protectedBy reg := by
  unfold SameButLinks at h; rw [h]; rfl

/-- **one successful operation from an ordinary context — on whatever entity, through whatever
    store — leaves every protected system entity in place and unchanged** (flag, name, tags,
    timestamps, owner, child data); protected = system entity a registered constraint looks at:
    all of them with the constraint on S, those with child data with the constraint on C only -/
theorem ordinary_step_preserves_system (s : St K N T) (op : Op K N T) (ho : ordinaryOp op = true)
    (hok : (step s op).err = none) (x : K) (e : Ent K N T) (hg : s.ents.get x = some e) (hp : e.protectedBy s.reg = true) :
    ∃ e', (step s op).st.ents.get x = some e' ∧ SameButLinks e e' := by
  have keep : ∀ (id : K) (e1 : Ent K N T), id ≠ x → ∃ e', (s.putEnt id e1).ents.get x = some e' ∧ SameButLinks e e' := by
    intro id e1 hne
    exact ⟨e, by rw [putEnt_ents, Map.get_put]; simp [hne, hg], rfl⟩
  cases op with
  | create sys id blank v =>
    cases blank with
    | true => rw [step_create_blank] at hok; cases hok
    | false =>
      cases hgi : s.ents.get id with
      | some e0 => rw [step_create_exists hgi] at hok; cases hok
      | none =>
        rw [step_create_new hgi] at hok ⊢
        rw [(createOn_ok hok).1]
        exact keep id _ (by intro h; subst h; rw [hg] at hgi; cases hgi)
  | ccreate sys id blank v lvl =>
    simp only [ordinaryOp, Bool.not_eq_true'] at ho
    subst ho
    cases blank with
    | true => rw [step_ccreate_blank] at hok; cases hok
    | false =>
      cases hgi : s.ents.get id with
      | some e0 =>
        rw [step_ccreate_found hgi] at hok ⊢
        split at hok
        · cases hok
        · rename_i hl
          simp only [hl, if_false]
          have h3 := (createOn_ok hok).2.2
          rw [(createOn_ok hok).1]
          refine keep id _ ?_
          intro h; subst h
          rw [hg] at hgi; cases hgi
          rw [protectedBy_mkEnt_child_of hp] at h3; simp at h3
      | none =>
        rw [step_ccreate_new hgi] at hok ⊢
        rw [(createOn_ok hok).1]
        exact keep id _ (by intro h; subst h; rw [hg] at hgi; cases hgi)
  | update sys id v sn st so =>
    simp only [ordinaryOp, Bool.not_eq_true'] at ho
    subst ho
    cases hgi : s.ents.get id with
    | none => rw [step_update_missing hgi] at hok; cases hok
    | some e0 =>
      rw [step_update_found hgi] at hok ⊢
      have h2 := (updateOn_ok hgi hok).2
      rw [(updateOn_ok hgi hok).1]
      refine keep id _ ?_
      intro h; subst h
      rw [hg] at hgi; cases hgi
      rw [hp] at h2; simp at h2
  | cupdate sys id v sn st so sl lvl =>
    simp only [ordinaryOp, Bool.not_eq_true'] at ho
    subst ho
    cases hgi : s.ents.get id with
    | none => rw [step_cupdate_missing hgi] at hok; cases hok
    | some e0 =>
      rw [step_cupdate_found hgi] at hok ⊢
      split at hok
      · cases hok
      · rename_i hl
        simp only [hl, if_false]
        have h2 := (updateOn_ok hgi hok).2
        rw [(updateOn_ok hgi hok).1]
        refine keep id _ ?_
        intro h; subst h
        rw [hg] at hgi; cases hgi
        rw [hp] at h2; simp at h2
  | delete sys id =>
    simp only [ordinaryOp, Bool.not_eq_true'] at ho
    subst ho
    rw [step_delete] at hok ⊢
    obtain ⟨e0, hgi, h2, hd⟩ := deleteOne_ok hok
    rw [hd]
    refine ⟨e, ?_, rfl⟩
    rw [delEnt_ents, Map.get_del]
    have : id ≠ x := by
      intro h; subst h
      rw [hg] at hgi; cases hgi
      rw [hp] at h2; simp at h2
    simp [this, hg]
  | cdelete sys id =>
    simp only [ordinaryOp, Bool.not_eq_true'] at ho
    subst ho
    rw [step_cdelete] at hok ⊢
    obtain ⟨e0, hgi, h2, hd⟩ := deleteOne_ok hok
    rw [hd]
    refine ⟨e, ?_, rfl⟩
    rw [delEnt_ents, Map.get_del]
    have : id ≠ x := by
      intro h; subst h
      rw [hg] at hgi; cases hgi
      rw [hp] at h2; simp at h2
    simp [this, hg]
  | ocreate id blank =>
    rw [step_ocreate]
    split
    · exact ⟨e, hg, rfl⟩
    · split
      · exact ⟨e, hg, rfl⟩
      · exact ⟨e, hg, rfl⟩
  | odelete sys o =>
    simp only [ordinaryOp, Bool.not_eq_true'] at ho
    subst ho
    by_cases hm : o ∈ s.owners
    · rw [step_odelete_found hm] at hok ⊢
      split at hok
      · cases hok
      · rename_i ha
        rw [if_neg ha]
        have hx : x ∉ refs s o := by
          intro hx
          exact ha (any_refused_of_mem hx hg hp)
        refine ⟨unlinkEnt o e, ?_, rfl⟩
        rw [get_unlinkAll, Map.get_delAll]
        simp [hx, hg]
    · rw [step_odelete_missing hm] at hok; cases hok
  | deleteWhere sys q =>
    simp only [ordinaryOp, Bool.not_eq_true'] at ho
    subst ho
    rw [step_deleteWhere] at hok ⊢
    split at hok
    · cases hok
    · rename_i ha
      rw [if_neg ha]
      have hx : x ∉ matching s q := by
        intro hx
        exact ha (any_refused_of_mem hx hg hp)
      refine ⟨e, ?_, rfl⟩
      rw [Map.get_delAll]
      simp [hx, hg]
  | link sid oid =>
    cases hgi : s.ents.get sid with
    | none => rw [step_link_missing hgi] at hok; cases hok
    | some e0 =>
      rw [step_link_found hgi] at hok ⊢
      split at hok
      · rename_i hm
        simp only [hm, if_true]
        by_cases hx : sid = x
        · subst hx
          rw [hg] at hgi; cases hgi
          exact ⟨{ e with peers := oid :: e.peers.filter (· ≠ oid) }, by rw [putEnt_ents, Map.get_put]; simp, rfl⟩
        · exact keep sid _ hx
      · cases hok
  | unlink sid oid =>
    cases hgi : s.ents.get sid with
    | none => rw [step_unlink_missing hgi] at hok; cases hok
    | some e0 =>
      rw [step_unlink_found hgi]
      by_cases hx : sid = x
      · subst hx
        rw [hg] at hgi; cases hgi
        exact ⟨unlinkEnt oid e, by rw [putEnt_ents, Map.get_put]; simp, rfl⟩
      · exact keep sid _ hx
  | read id => exact ⟨e, hg, rfl⟩

/-- … and a cascade or a delete by query never removes a protected system entity on behalf of an
    ordinary context, **not even in the partial state a refused batch leaves in the open transaction** -/
theorem cascade_never_deletes_system (s : St K N T) (ids : List K) (x : K) (e : Ent K N T)
    (hg : s.ents.get x = some e) (hp : e.protectedBy s.reg = true) :
    (delMany false s ids).1.ents.get x = some e := delMany_keeps_system s ids hg hp

/-! the registration is part of the schema: no operation changes it -/

theorem delMany_reg (sys : Bool) (s : St K N T) (ids : List K) : (delMany sys s ids).1.reg = s.reg := by
  induction ids generalizing s with
  | nil => rfl
  | cons id ids ih =>
    rw [delMany_cons]
    split
    · rfl
    · rw [ih]; rfl

theorem step_reg (s : St K N T) (op : Op K N T) : (step s op).st.reg = s.reg := by
  have hc : ∀ (sys : Bool) (id : K) (v : Vals K N T) (lvl : Option N) (e0 : Ent K N T),
      (createOn s sys id v lvl e0).st.reg = s.reg := by
    intro sys id v lvl e0
    rw [createOn_eq]
    split
    · rfl
    · split <;> rfl
  have hu : ∀ (sys : Bool) (id : K) (v : Vals K N T) (sn st so : Bool) (l : Option (Bool × N)) (e : Ent K N T),
      s.ents.get id = some e → (updateOn s sys id v sn st so l e).st.reg = s.reg := by
    intro sys id v sn st so l e hg
    rw [updateOn_eq hg]
    split
    · rfl
    · split <;> rfl
  have hd : ∀ (sys : Bool) (id : K), (deleteOne s sys id).st.reg = s.reg := by
    intro sys id
    cases hg : s.ents.get id with
    | none => rw [deleteOne_missing hg]
    | some e => rw [deleteOne_found hg]; split <;> rfl
  cases op with
  | create sys id blank v =>
    cases blank with
    | true => rw [step_create_blank]
    | false =>
      cases hg : s.ents.get id with
      | some e => rw [step_create_exists hg]
      | none => rw [step_create_new hg]; exact hc ..
  | ccreate sys id blank v lvl =>
    cases blank with
    | true => rw [step_ccreate_blank]
    | false =>
      cases hg : s.ents.get id with
      | some e => rw [step_ccreate_found hg]; split; · rfl
                  · exact hc ..
      | none => rw [step_ccreate_new hg]; exact hc ..
  | update sys id v sn st so =>
    cases hg : s.ents.get id with
    | none => rw [step_update_missing hg]
    | some e => rw [step_update_found hg]; exact hu _ _ _ _ _ _ _ _ hg
  | cupdate sys id v sn st so sl lvl =>
    cases hg : s.ents.get id with
    | none => rw [step_cupdate_missing hg]
    | some e => rw [step_cupdate_found hg]; split; · rfl
                · exact hu _ _ _ _ _ _ _ _ hg
  | delete sys id => rw [step_delete]; exact hd ..
  | cdelete sys id => rw [step_cdelete]; exact hd ..
  | ocreate id blank => rw [step_ocreate]; split; · rfl
                        · split <;> rfl
  | odelete sys o =>
    by_cases hm : o ∈ s.owners
    · rw [step_odelete_found hm]; split
      · exact delMany_reg ..
      · rfl
    · rw [step_odelete_missing hm]
  | deleteWhere sys q =>
    rw [step_deleteWhere]; split
    · exact delMany_reg ..
    · rfl
  | link sid oid =>
    cases hg : s.ents.get sid with
    | none => rw [step_link_missing hg]
    | some e => rw [step_link_found hg]; split <;> rfl
  | unlink sid oid =>
    cases hg : s.ents.get sid with
    | none => rw [step_unlink_missing hg]
    | some e => rw [step_unlink_found hg]; rfl
  | read id => rfl

theorem runOps_reg (k : Bool) (s : St K N T) (ops : List (Op K N T)) : (runOps k s ops).1.reg = s.reg := by
  induction ops generalizing s with
  | nil => rfl
  | cons op ops ih =>
    cases he : (step s op).err with
    | none => rw [runOps_cons_ok he, ih, step_reg]
    | some e =>
      rw [runOps_cons_err he]
      split
      · rw [ih, step_reg]
      · exact step_reg s op

theorem commitTx_reg (s : St K N T) (tx : Bool × List (Op K N T)) : (commitTx s tx).reg = s.reg := by
  unfold commitTx
  simp only
  split
  · rfl
  · exact runOps_reg ..

theorem runHist_reg (s : St K N T) (txs : List (Bool × List (Op K N T))) : (runHist s txs).reg = s.reg := by
  induction txs generalizing s with
  | nil => rfl
  | cons tx txs ih =>
    unfold runHist at ih ⊢
    rw [List.foldl_cons, ih, commitTx_reg]

theorem ordinary_runOps_preserves_system (k : Bool) (s : St K N T) (ops : List (Op K N T))
    (ho : ∀ op ∈ ops, ordinaryOp op = true) (hok : (runOps k s ops).2 = false)
    (x : K) (e e0 : Ent K N T) (hg : s.ents.get x = some e0) (hsim : SameButLinks e e0)
    (hp : e.protectedBy s.reg = true) :
    ∃ e', (runOps k s ops).1.ents.get x = some e' ∧ SameButLinks e e' := by
  induction ops generalizing s e0 with
  | nil => exact ⟨e0, hg, hsim⟩
  | cons op ops ih =>
    have ho' : ∀ op' ∈ ops, ordinaryOp op' = true := fun o h => ho o (List.mem_cons_of_mem _ h)
    have hp0 : e0.protectedBy s.reg = true := by rw [sameButLinks_protectedBy hsim]; exact hp
    cases he : (step s op).err with
    | none =>
      rw [runOps_cons_ok he] at hok ⊢
      obtain ⟨e1, hg1, hsim1⟩ := ordinary_step_preserves_system s op (ho op (List.mem_cons_self ..)) he x e0 hg hp0
      exact ih _ ho' hok e1 hg1 (sameButLinks_trans hsim hsim1) (by rw [step_reg]; exact hp)
    | some err =>
      rw [runOps_cons_err he] at hok ⊢
      by_cases hk : (k && err.ignorable) = true
      · rw [if_pos hk] at hok ⊢
        simp only [Bool.and_eq_true] at hk
        have hst := step_err_state he hk.2
        rw [hst] at hok ⊢
        exact ih s ho' hok e0 hg hsim hp
      · rw [if_neg hk] at hok; simp at hok

/-- **no transaction whose operations are all issued from ordinary contexts — in either mode, with
    failing, ignored and indirect operations in any order — changes or deletes a protected system
    entity or its flag**: after `Db.Update` it is still there with the same flag, name, tags,
    timestamps, owner and child data.  Under every registration: with the constraint on S that is
    every system entity, with the constraint on C only every system entity that has child data. -/
theorem ordinary_tx_preserves_system (s : St K N T) (k : Bool) (ops : List (Op K N T))
    (ho : ∀ op ∈ ops, ordinaryOp op = true) (x : K) (e : Ent K N T) (hg : s.ents.get x = some e)
    (hp : e.protectedBy s.reg = true) :
    ∃ e', (commitTx s (k, ops)).ents.get x = some e' ∧ SameButLinks e e' := by
  cases hf : (runOps k s ops).2 with
  | true => rw [commitTx_failed hf]; exact ⟨e, hg, rfl⟩
  | false =>
    rw [commitTx_ok hf]
    exact ordinary_runOps_preserves_system k s ops ho hf x e e hg rfl hp

/-- the same for every history of such transactions -/
theorem ordinary_history_preserves_system (txs : List (Bool × List (Op K N T))) (s : St K N T)
    (ho : ∀ tx ∈ txs, ∀ op ∈ tx.2, ordinaryOp op = true) (x : K) (e : Ent K N T) (hg : s.ents.get x = some e)
    (hp : e.protectedBy s.reg = true) :
    ∃ e', (runHist s txs).ents.get x = some e' ∧ SameButLinks e e' := by
  induction txs generalizing s e with
  | nil => exact ⟨e, hg, rfl⟩
  | cons tx txs ih =>
    obtain ⟨e1, hg1, hsim1⟩ := ordinary_tx_preserves_system s tx.1 tx.2 (ho tx (List.mem_cons_self ..)) x e hg hp
    have hp1 : e1.protectedBy (commitTx s tx).reg = true := by
      rw [commitTx_reg, sameButLinks_protectedBy hsim1]; exact hp
    obtain ⟨e2, hg2, hsim2⟩ := ih (commitTx s tx) (fun t ht => ho t (List.mem_cons_of_mem _ ht)) e1 hg1 hp1
    exact ⟨e2, hg2, sameButLinks_trans hsim1 hsim2⟩

/-- read off per registration: constraint on S — every system entity; constraint on C — every system
    entity with child data -/
theorem ordinary_history_preserves_system_parent_registration (txs : List (Bool × List (Op K N T))) (s : St K N T)
    (hS : s.reg.onS = true) (ho : ∀ tx ∈ txs, ∀ op ∈ tx.2, ordinaryOp op = true) (x : K) (e : Ent K N T)
    (hg : s.ents.get x = some e) (hs : e.isSystem = true) :
    ∃ e', (runHist s txs).ents.get x = some e' ∧ SameButLinks e e' :=
  ordinary_history_preserves_system txs s ho x e hg (protectedBy_of (guarded_onS hS e) hs)

theorem ordinary_history_preserves_system_child_registration (txs : List (Bool × List (Op K N T))) (s : St K N T)
    (hC : s.reg.onC = true) (ho : ∀ tx ∈ txs, ∀ op ∈ tx.2, ordinaryOp op = true) (x : K) (e : Ent K N T)
    (hg : s.ents.get x = some e) (hs : e.isSystem = true) (hl : e.level.isSome = true) :
    ∃ e', (runHist s txs).ents.get x = some e' ∧ SameButLinks e e' :=
  ordinary_history_preserves_system txs s ho x e hg (protectedBy_of (guarded_onC hC hl) hs)

/-! ## the shape of the constrained store; updates that change nothing -/

/-- **an update that changes nothing is refused all the same**: handing `Update` the entity exactly as
    it is stored (loaded and written back), with the nil checker, the empty checker or a checker
    naming only fields whose values are unchanged, from an ordinary context, on a protected system
    entity — `ENTITY_CAN_NOT_BE_UPDATED`, state untouched.  (An instance of `system_needs_system_ctx`,
    which quantifies over every in-memory entity; stated because "nothing would change" is exactly
    the case an implementation is tempted to short-cut before the constraints run.) -/
theorem unchanged_update_refused (s : St K N T) (id : K) (e : Ent K N T) (hg : s.ents.get id = some e)
    (hp : e.protectedBy s.reg = true) (v : Vals K N T)
    (_hsame : v.flag = e.isSystem ∧ v.name = e.name ∧ v.tags = e.tags ∧ v.owner = e.owner) (sn st so : Bool) :
    step s (.update false id v sn st so) = { st := s, err := some .sysUpdate } :=
  ((system_needs_system_ctx s id).2 e hg hp).1 v sn st so

/-- … while from a context that may update it, the write-back goes through the full update path:
    it succeeds and `updatedAt` is the clock's (nothing else of the entity changes) -/
theorem unchanged_update_allowed (s : St K N T) (id : K) (e : Ent K N T) (hg : s.ents.get id = some e)
    (v : Vals K N T) (hsame : v.name = e.name ∧ v.tags = e.tags ∧ v.owner = e.owner) (sn st so : Bool) :
    step s (.update true id v sn st so) = { st := s.putEnt id { e with updated := .now } } := by
  rw [step_update_found hg, updateOn_eq hg]
  have he : updEnt v sn st so none e = { e with updated := .now } := by
    obtain ⟨h1, h2, h3⟩ := hsame
    unfold updEnt persist setBaseValues updateBaseValues
    cases sn <;> cases st <;> cases so <;> simp [h1, h2, h3]
  rw [he]
  simp

/-! ### round 9: the setters of the entity strategy (the bucket's error holder) -/

/-- **a bucket whose error holder is set is never written** — by any `PersistEntity`: any sequence of
    setter calls of any kind (`SetString`, `SetRequiredString`, `SetStringP`, `GetAndSetString`,
    `SetBool`, `SetInt32/64`, `SetFloat64`, `SetTime(P)`, `PutMap`, `PutList`, `SetStringList`,
    `GetAndSetStringList`, `SetLinkedIds`), in any order, with any checker: content, error and the
    "anything was Put" mark are what they were. -/
theorem errored_bucket_never_written (ws : List (Write K N T)) (b : Bkt K N T) (h : b.err.isSome = true) :
    runWrites ws b = b := runWrites_errored ws h

/-- **a refused update writes nothing, whatever setters the entity strategy is made of**: `Update` of
    a protected entity from an ordinary context, for EVERY strategy `ws` (schema parameter: which
    setters `PersistEntity` calls, on which fields, in which order, under which checker — including a
    `SetRequiredString` handed a blank or a non-blank value): `ProcessBeforeUpdate` puts
    `ENTITY_CAN_NOT_BE_UPDATED` into the bucket's error holder, no setter proceeds, nothing is `Put`,
    `ProcessAfterUpdate` is skipped and that very error is returned (no later setter replaces or
    clears it).  The stores of the universe are the instance `ws = stratWrites …`
    (`update_runs_strategy`); the harness runs the plain (`SetString`) and the wide (every setter)
    strategies against the same model. -/
theorem refused_update_any_strategy (ws : List (Write K N T)) (s : St K N T) (id : K) (e : Ent K N T)
    (hg : s.ents.get id = some e) (hp : e.protectedBy s.reg = true) :
    updateWith ws s false id e = { st := s, err := some .sysUpdate } := by
  unfold updateWith
  rw [refused_of_get hg]
  have h0 : runWrites ws ({ ent := e, err := some .sysUpdate } : Bkt K N T) = { ent := e, err := some .sysUpdate } :=
    runWrites_errored _ rfl
  simp [hp, h0]

/-- **every setter of the code is a gated write of the model** (tie by extraction): each of the
    persistence setters of `*TypedBucket` (those taking a `FieldChecker`) and `*PersistContext` in
    the current source has a shape the model has a meaning for (`SetterShape.write`: a `Write.set` or,
    for `SetRequiredString`, a `Write.require`), both `ProceedWithSet` functions are
    `bucket.Err == nil && (checker == nil || checker.IsUpdated(name))`, and the setters the harness's
    strategies call are among them.  So ANY `PersistEntity` written with these setters is a
    `List Write`, to which `refused_update_any_strategy` applies. -/
theorem every_setter_is_a_gated_write :
    Generated.c16GateOk = true ∧ (∀ p ∈ Generated.c16Setters, p.2.modelled = true) ∧
    (∀ n ∈ ["PersistContext.SetString", "PersistContext.SetRequiredString", "PersistContext.SetStringP",
            "PersistContext.GetAndSetString", "PersistContext.SetInt32", "PersistContext.SetInt64",
            "PersistContext.SetBool", "PersistContext.SetTimeP", "PersistContext.SetStringList",
            "PersistContext.GetAndSetStringList", "PersistContext.SetMap", "PersistContext.SetLinkedIds",
            "TypedBucket.SetTime", "TypedBucket.SetTimeP", "TypedBucket.SetFloat64", "TypedBucket.PutList",
            "TypedBucket.PutMap", "TypedBucket.SetBool"],
      (Generated.c16Setters.lookup n).isSome = true) := by decide

/-- `S.Update` / `C.Update` of the model ARE `updateWith` the universe's strategy -/
theorem update_runs_strategy (s : St K N T) (id : K) (e : Ent K N T) (hg : s.ents.get id = some e) (sys : Bool)
    (v : Vals K N T) (sn st so : Bool) :
    step s (.update sys id v sn st so) = updateWith (stratWrites v sn st so none) s sys id e ∧
    ∀ (sl : Bool) (lvl : N), e.level.isSome = true →
      step s (.cupdate sys id v sn st so sl lvl) = updateWith (stratWrites v sn st so (some (sl, lvl))) s sys id e := by
  refine ⟨by rw [step_update_found hg]; rfl, ?_⟩
  intro sl lvl hl
  have hn : e.level.isNone = false := by cases h : e.level <;> simp_all
  rw [step_cupdate_found hg, hn]; rfl

/-- where nothing refuses (ordinary entity, or a system context) a strategy of plain setters under a
    nil checker writes all its fields: the gate is the error holder, nothing else -/
theorem allowed_update_writes (fs : List (Ent K N T → Ent K N T)) (b : Bkt K N T) (h : b.err = none) :
    (runWrites (fs.map (Write.set true)) b).ent = fs.foldl (fun e f => f e) b.ent ∧
    (runWrites (fs.map (Write.set true)) b).err = none := by
  induction fs generalizing b with
  | nil => exact ⟨rfl, h⟩
  | cons f fs ih =>
    have hr : (Write.set true f).run b = { b with ent := f b.ent, wrote := true } := by
      simp [Write.run, Bkt.proceedWithSet, h]
    show (runWrites (fs.map (Write.set true)) ((Write.set true f).run b)).ent = _ ∧
      (runWrites (fs.map (Write.set true)) ((Write.set true f).run b)).err = none
    rw [hr]
    exact ih _ h

/-- no bucket has child data -/
def NoKids (s : St K N T) : Prop := ∀ p ∈ s.ents, p.2.level = none

theorem noKids_put {s : St K N T} (hn : NoKids s) (id : K) (e : Ent K N T) (he : e.level = none) : NoKids (s.putEnt id e) := by
  intro p hp
  rcases Map.mem_put hp with h | h
  · rw [h]; exact he
  · exact hn p h

/-- an operation that does not go through the child store never creates child data -/
theorem step_noKids {s : St K N T} (hn : NoKids s) (op : Op K N T) (hv : op.viaChild = false)
    (he : (step s op).err = none) : NoKids (step s op).st := by
  have hget : ∀ {id : K} {e : Ent K N T}, s.ents.get id = some e → e.level = none :=
    fun hg => hn _ (Map.get_some_mem hg)
  cases op with
  | create sys id blank v =>
    cases blank with
    | true => rw [step_create_blank] at he; cases he
    | false =>
      cases hg : s.ents.get id with
      | some e0 => rw [step_create_exists hg] at he; cases he
      | none =>
        rw [step_create_new hg] at he ⊢
        rw [(createOn_ok he).1]
        exact noKids_put hn _ _ (by rw [mkEnt_level]; rfl)
  | ccreate sys id blank v lvl => cases hv
  | cupdate sys id v sn st so sl lvl => cases hv
  | cdelete sys id => cases hv
  | update sys id v sn st so =>
    cases hg : s.ents.get id with
    | none => rw [step_update_missing hg] at he; cases he
    | some e0 =>
      rw [step_update_found hg] at he ⊢
      rw [(updateOn_ok hg he).1]
      refine noKids_put hn _ _ ?_
      unfold updEnt; simp only
      rw [persist_update_level]; exact hget hg
  | delete sys id =>
    rw [step_delete] at he ⊢
    obtain ⟨e0, _, _, hd⟩ := deleteOne_ok he
    rw [hd]
    intro p hp; exact hn p (Map.mem_del hp)
  | ocreate id blank =>
    rw [step_ocreate]
    split
    · exact hn
    · split <;> exact hn
  | odelete sys o =>
    by_cases ho : o ∈ s.owners
    · rw [step_odelete_found ho] at he ⊢
      split at he
      · cases he
      · rename_i ha
        rw [if_neg ha]
        intro p hp
        simp only [unlinkAll] at hp
        obtain ⟨q, hq, rfl⟩ := List.mem_map.mp hp
        exact hn q (Map.mem_delAll hq)
    · rw [step_odelete_missing ho] at he; cases he
  | deleteWhere sys q =>
    rw [step_deleteWhere] at he ⊢
    split at he
    · cases he
    · rename_i ha
      rw [if_neg ha]
      intro p hp; exact hn p (Map.mem_delAll hp)
  | link sid oid =>
    cases hg : s.ents.get sid with
    | none => rw [step_link_missing hg] at he; cases he
    | some e0 =>
      rw [step_link_found hg] at he ⊢
      split at he
      · rename_i hm
        rw [if_pos hm]
        exact noKids_put hn _ _ (show e0.level = none from hget hg)
      · cases he
  | unlink sid oid =>
    cases hg : s.ents.get sid with
    | none => rw [step_unlink_missing hg] at he; cases he
    | some e0 =>
      rw [step_unlink_found hg]
      exact noKids_put hn _ _ (show e0.level = none from hget hg)
  | read id => exact hn

theorem runOps_noKids (k : Bool) {s : St K N T} (hn : NoKids s) (ops : List (Op K N T))
    (hv : ∀ op ∈ ops, op.viaChild = false) (hok : (runOps k s ops).2 = false) : NoKids (runOps k s ops).1 := by
  induction ops generalizing s with
  | nil => exact hn
  | cons op ops ih =>
    have hv' : ∀ o ∈ ops, o.viaChild = false := fun o h => hv o (List.mem_cons_of_mem _ h)
    cases he : (step s op).err with
    | none =>
      rw [runOps_cons_ok he] at hok ⊢
      exact ih (step_noKids hn op (hv op (List.mem_cons_self ..)) he) hv' hok
    | some e =>
      rw [runOps_cons_err he] at hok ⊢
      by_cases hk : (k && e.ignorable) = true
      · rw [if_pos hk] at hok ⊢
        simp only [Bool.and_eq_true] at hk
        rw [step_err_state he hk.2] at hok ⊢
        exact ih hn hv' hok
      · rw [if_neg hk] at hok; simp at hok

/-- **the plain shape**: in a schema without a child store (`reg.childStore = false`) the histories
    contain no operation through C (`Op.fits`), and then no bucket ever has child data — the branches
    of the model that look at child data are never taken, the constrained store behaves as a store
    without parent and without child stores -/
theorem plain_shape_no_child_data (reg : Reg) (hshape : reg.childStore = false) (h : List (Bool × List (Op K N T)))
    (hfit : ∀ tx ∈ h, ∀ op ∈ tx.2, op.fits reg = true) :
    NoKids (runHist (St.empty reg : St K N T) h) := by
  have hv : ∀ tx ∈ h, ∀ op ∈ tx.2, op.viaChild = false := by
    intro tx htx op hop
    have := hfit tx htx op hop
    unfold Op.fits at this
    rw [hshape] at this
    cases hvc : op.viaChild <;> simp_all
  have key : ∀ (s : St K N T), NoKids s → NoKids (runHist s h) := by
    induction h with
    | nil => intro s hn; exact hn
    | cons tx txs ih =>
      intro s hn
      unfold runHist
      rw [List.foldl_cons]
      refine ih (fun t ht o ho => hfit t (List.mem_cons_of_mem _ ht) o ho)
        (fun t ht o ho => hv t (List.mem_cons_of_mem _ ht) o ho) (commitTx s tx) ?_
      cases hf : (runOps tx.1 s tx.2).2 with
      | true => rw [show commitTx s tx = s from commitTx_failed (k := tx.1) (ops := tx.2) hf]; exact hn
      | false =>
        rw [show commitTx s tx = (runOps tx.1 s tx.2).1 from commitTx_ok (k := tx.1) (ops := tx.2) hf]
        exact runOps_noKids tx.1 hn tx.2 (hv tx (List.mem_cons_self ..)) hf
  exact key _ (by intro p hp; cases hp)

/-- the property in the plain shape (constraint on the store itself): after ANY history of that
    shape every system entity is refused update — whatever the update carries, in particular the
    stored values themselves, with any checker — and delete from an ordinary context, directly, by
    cascade and by query -/
theorem system_needs_system_ctx_plain_shape (reg : Reg) (hshape : reg.childStore = false) (hS : reg.onS = true)
    (h : List (Bool × List (Op K N T))) (_hfit : ∀ tx ∈ h, ∀ op ∈ tx.2, op.fits reg = true)
    (id : K) (e : Ent K N T) (hg : (runHist (St.empty reg : St K N T) h).ents.get id = some e) (hs : e.isSystem = true) :
    e.level = none ∧
    (∀ (v : Vals K N T) sn st so, step (runHist (St.empty reg) h) (.update false id v sn st so) =
        { st := runHist (St.empty reg) h, err := some .sysUpdate }) ∧
    step (runHist (St.empty reg) h) (.delete false id) = { st := runHist (St.empty reg) h, err := some .sysDelete } ∧
    (∀ o, e.owner = some o → o ∈ (runHist (St.empty reg : St K N T) h).owners →
        (step (runHist (St.empty reg) h) (.odelete false o)).err = some .viaSysDelete) ∧
    (∀ q : Query K N, q.eval e = true → (step (runHist (St.empty reg) h) (.deleteWhere false q)).err = some .viaSysDelete) := by
  have hreg : (runHist (St.empty reg : St K N T) h).reg = reg := runHist_reg _ _
  have hS' : (runHist (St.empty reg : St K N T) h).reg.onS = true := by rw [hreg]; exact hS
  obtain ⟨h1, _, h3, _, _, h6, h7⟩ := system_needs_system_ctx_parent_registration _ hS' id e hg hs
  exact ⟨plain_shape_no_child_data reg hshape h _hfit _ (Map.get_some_mem hg), h1, h3, h6, h7⟩

/-! ## a system context may do everything -/

/-- **from a system context create, update and delete of a system entity succeed** and do what
    they say; so does the delete of an owner that system entities refer to -/
theorem system_ctx_allowed (s : St K N T) (id : K) :
    (∀ v : Vals K N T, s.ents.get id = none → ownerOk s v.owner = true →
        (step s (.create true id false v)).err = none ∧
        ((step s (.create true id false v)).st.ents.get id).map Ent.isSystem = some v.flag ∧
        ((step s (.create true id false v)).st.ents.get id).map Ent.name = some v.name) ∧
    (∀ e (v : Vals K N T), s.ents.get id = some e →
        (step s (.update true id v true true false)).err = none ∧
        ((step s (.update true id v true true false)).st.ents.get id).map Ent.name = some v.name ∧
        ((step s (.update true id v true true false)).st.ents.get id).map Ent.flag = some e.flag) ∧
    (∀ e, s.ents.get id = some e →
        (step s (.delete true id)).err = none ∧ (step s (.delete true id)).st.ents.get id = none) ∧
    (∀ o, o ∈ s.owners → (step s (.odelete true o)).err = none ∧
        ∀ y ∈ refs s o, (step s (.odelete true o)).st.ents.get y = none) := by
  have hany : ∀ ids : List K, ids.any (fun y => refused s y true) = false := by
    intro ids
    induction ids with
    | nil => rfl
    | cons a l _ => simp [refused_sys]
  refine ⟨?_, ?_, ?_, ?_⟩
  · intro v hg ho
    rw [step_create_new hg, createOn_eq, ho]
    simp only [Bool.not_true, Bool.and_false, Bool.false_eq_true, if_false, putEnt_ents, Map.get_put, if_true,
      Option.map_some, mkEnt_isSystem, blankEnt_isSystem, Bool.or_false, true_and]
    unfold mkEnt persist; simp
  · intro e v hg
    rw [step_update_found hg, updateOn_eq hg]
    have hown : (updEnt v true true false none e).owner = e.owner := by rw [updEnt_owner]; simp
    simp only [hown, Bool.not_true, Bool.and_false, Bool.false_eq_true, if_false, putEnt_ents, Map.get_put, if_true,
      Option.map_some, updEnt_flag, true_and, and_true, ne_eq, not_true_eq_false, decide_false, Bool.false_and]
    unfold updEnt persist; simp
  · intro e hg
    rw [step_delete, deleteOne_found hg]
    simp [Map.get_del]
  · intro o ho
    rw [step_odelete_found ho, hany]
    simp only [Bool.false_eq_true, if_false, true_and]
    intro y hy
    rw [get_unlinkAll, Map.get_delAll]
    simp [hy]

/-! ## the flag is fixed at creation -/

/-- **For every history** — any mix of contexts, several operations per transaction, updates
    carrying a flipped flag with any field checker, operations through the child store, cascades,
    deletes by query, failing and ignored operations — every entity that exists at the end reads
    back exactly the IsSystem flag on record for it: the flag its creating `Create` call carried
    (`runHistG` runs the same history while recording, for each existing entity, the flag of the
    call that created it, a child-store `Create` over an existing parent adding its flag to the one
    on record; `runHistG_fst` shows it computes the same states).  Which calls can change the record
    of an existing entity at all: `flag_change_needs_system_child_create`. -/
theorem flag_immutable (reg : Reg) (h : List (Bool × List (Op K N T))) (id : K) :
    ((runHist (St.empty reg : St K N T) h).ents.get id).map Ent.isSystem =
      (runHistG ((St.empty reg : St K N T), ([] : Map K Bool)) h).2.get id := by
  have := runHistG_flagInv (flagInv_nil (K := K) (N := N) (T := T) reg) h id
  rw [runHistG_fst] at this
  exact this

/-- **the only successful operation after which an existing entity reads back another flag** is a
    `Create` through the child store, over that entity, carrying `IsSystem = true`, **from a system
    context** — it re-runs `CreateBaseValues` on the parent's bucket and so turns an ordinary
    entity into a system one.  Nothing turns a system entity back, and nothing an ordinary context
    does changes any flag. -/
theorem flag_change_needs_system_child_create (s : St K N T) (hreg : (s.reg.onS || s.reg.onC) = true)
    (op : Op K N T) (hok : (step s op).err = none)
    (x : K) (e e' : Ent K N T) (hg : s.ents.get x = some e) (hg' : (step s op).st.ents.get x = some e') :
    e'.isSystem = e.isSystem ∨
      (∃ v lvl, op = .ccreate true x false v lvl ∧ v.flag = true ∧ e.isSystem = false ∧ e'.isSystem = true) := by
  have keep : ∀ (id : K) (e1 : Ent K N T), (s.putEnt id e1).ents.get x = some e' → id ≠ x → e'.isSystem = e.isSystem := by
    intro id e1 h hne
    rw [putEnt_ents, Map.get_put] at h
    simp only [hne, if_false] at h
    rw [hg] at h; cases h; rfl
  have same : ∀ (e1 : Ent K N T), (s.putEnt x e1).ents.get x = some e' → e1.isSystem = e.isSystem → e'.isSystem = e.isSystem := by
    intro e1 h hs
    rw [putEnt_ents, Map.get_put] at h
    simp only [if_true] at h
    cases h; exact hs
  cases op with
  | create sys id blank v =>
    left
    cases blank with
    | true => rw [step_create_blank] at hok; cases hok
    | false =>
      cases hgi : s.ents.get id with
      | some e0 => rw [step_create_exists hgi] at hok; cases hok
      | none =>
        rw [step_create_new hgi] at hok hg'
        rw [(createOn_ok hok).1] at hg'
        exact keep id _ hg' (by intro h; subst h; rw [hg] at hgi; cases hgi)
  | ccreate sys id blank v lvl =>
    cases blank with
    | true => rw [step_ccreate_blank] at hok; cases hok
    | false =>
      cases hgi : s.ents.get id with
      | some e0 =>
        rw [step_ccreate_found hgi] at hok hg'
        split at hok
        · cases hok
        · rename_i hl
          rw [if_neg hl] at hg'
          have h3 := (createOn_ok hok).2.2
          rw [(createOn_ok hok).1] at hg'
          by_cases hx : id = x
          · subst hx
            rw [hg] at hgi; cases hgi
            rw [putEnt_ents, Map.get_put] at hg'
            simp only [if_true] at hg'
            cases hg'
            rw [mkEnt_isSystem]
            cases hf : v.flag with
            | false => left; simp
            | true =>
              cases hes : e.isSystem with
              | true => left; simp
              | false =>
                right
                rw [protectedBy_mkEnt_child hreg v lvl e (by rw [hf]; rfl)] at h3
                have hsys : sys = true := by cases sys <;> simp_all
                subst hsys
                exact ⟨v, lvl, rfl, hf, rfl, by simp⟩
          · left; exact keep id _ hg' hx
      | none =>
        left
        rw [step_ccreate_new hgi] at hok hg'
        rw [(createOn_ok hok).1] at hg'
        exact keep id _ hg' (by intro h; subst h; rw [hg] at hgi; cases hgi)
  | update sys id v sn st so =>
    left
    cases hgi : s.ents.get id with
    | none => rw [step_update_missing hgi] at hok; cases hok
    | some e0 =>
      rw [step_update_found hgi] at hok hg'
      rw [(updateOn_ok hgi hok).1] at hg'
      by_cases hx : id = x
      · subst hx
        rw [hg] at hgi; cases hgi
        exact same _ hg' (updEnt_isSystem ..)
      · exact keep id _ hg' hx
  | cupdate sys id v sn st so sl lvl =>
    left
    cases hgi : s.ents.get id with
    | none => rw [step_cupdate_missing hgi] at hok; cases hok
    | some e0 =>
      rw [step_cupdate_found hgi] at hok hg'
      split at hok
      · cases hok
      · rename_i hl
        rw [if_neg hl] at hg'
        rw [(updateOn_ok hgi hok).1] at hg'
        by_cases hx : id = x
        · subst hx
          rw [hg] at hgi; cases hgi
          exact same _ hg' (updEnt_isSystem ..)
        · exact keep id _ hg' hx
  | delete sys id =>
    left
    rw [step_delete] at hok hg'
    obtain ⟨e0, _, _, hd⟩ := deleteOne_ok hok
    rw [hd, delEnt_ents, Map.get_del] at hg'
    by_cases hx : id = x
    · simp [hx] at hg'
    · simp only [hx, if_false] at hg'; rw [hg] at hg'; cases hg'; rfl
  | cdelete sys id =>
    left
    rw [step_cdelete] at hok hg'
    obtain ⟨e0, _, _, hd⟩ := deleteOne_ok hok
    rw [hd, delEnt_ents, Map.get_del] at hg'
    by_cases hx : id = x
    · simp [hx] at hg'
    · simp only [hx, if_false] at hg'; rw [hg] at hg'; cases hg'; rfl
  | ocreate id blank =>
    left
    rw [step_ocreate] at hg'
    split at hg'
    · rw [hg] at hg'; cases hg'; rfl
    · split at hg'
      · rw [hg] at hg'; cases hg'; rfl
      · rw [hg] at hg'; cases hg'; rfl
  | odelete sys o =>
    left
    by_cases hm : o ∈ s.owners
    · rw [step_odelete_found hm] at hok hg'
      split at hok
      · cases hok
      · rename_i ha
        rw [if_neg ha] at hg'
        rw [get_unlinkAll, Map.get_delAll] at hg'
        by_cases hx : x ∈ refs s o
        · simp [hx] at hg'
        · simp only [hx, if_false, hg, Option.map_some] at hg'; cases hg'; rfl
    · rw [step_odelete_missing hm] at hok; cases hok
  | deleteWhere sys q =>
    left
    rw [step_deleteWhere] at hok hg'
    split at hok
    · cases hok
    · rename_i ha
      rw [if_neg ha] at hg'
      rw [Map.get_delAll] at hg'
      by_cases hx : x ∈ matching s q
      · simp [hx] at hg'
      · simp only [hx, if_false, hg] at hg'; cases hg'; rfl
  | link sid oid =>
    left
    cases hgi : s.ents.get sid with
    | none => rw [step_link_missing hgi] at hok; cases hok
    | some e0 =>
      rw [step_link_found hgi] at hok hg'
      split at hok
      · rename_i hm
        rw [if_pos hm] at hg'
        by_cases hx : sid = x
        · subst hx
          rw [hg] at hgi; cases hgi
          exact same _ hg' rfl
        · exact keep sid _ hg' hx
      · cases hok
  | unlink sid oid =>
    left
    cases hgi : s.ents.get sid with
    | none => rw [step_unlink_missing hgi] at hok; cases hok
    | some e0 =>
      rw [step_unlink_found hgi] at hg'
      by_cases hx : sid = x
      · subst hx
        rw [hg] at hgi; cases hgi
        exact same _ hg' rfl
      · exact keep sid _ hg' hx
  | read id => left; rw [step_read] at hg'; rw [hg] at hg'; cases hg'; rfl

/-- the single step behind it: **no update — through S or through the child store, from any
    context, whatever `IsSystem`, `Migrate`, timestamps, tags, name and owner the in-memory entity
    carries (`v` is the whole of it), with any field checker, failing or not — changes the stored
    flag of any entity** -/
theorem update_never_changes_flag (s : St K N T) (sys : Bool) (id : K) (v : Vals K N T) (sn st so sl : Bool)
    (lvl : N) (x : K) :
    ((step s (.update sys id v sn st so)).st.ents.get x).map Ent.flag = (s.ents.get x).map Ent.flag ∧
    ((step s (.cupdate sys id v sn st so sl lvl)).st.ents.get x).map Ent.flag = (s.ents.get x).map Ent.flag := by
  have key : ∀ (e : Ent K N T) (l : Option (Bool × N)), s.ents.get id = some e →
      ((updateOn s sys id v sn st so l e).st.ents.get x).map Ent.flag = (s.ents.get x).map Ent.flag := by
    intro e l hg
    rw [updateOn_eq hg]
    have hput : ((s.putEnt id (updEnt v sn st so l e)).ents.get x).map Ent.flag = (s.ents.get x).map Ent.flag := by
      rw [putEnt_ents, Map.get_put]
      by_cases hx : id = x
      · subst hx; simp [hg, updEnt_flag]
      · simp [hx]
    split
    · rfl
    · split
      · exact hput
      · exact hput
  cases hg : s.ents.get id with
  | none => rw [step_update_missing hg, step_cupdate_missing hg]; exact ⟨rfl, rfl⟩
  | some e =>
    rw [step_update_found hg, step_cupdate_found hg]
    refine ⟨key e none hg, ?_⟩
    split
    · rfl
    · exact key e _ hg

/-- the code path behind *that*: on an update `SetBaseValues` takes the `UpdateBaseValues` branch
    (it looks at `ctx.IsCreate` only, never at the entity's `Migrate`), and that branch does not
    touch `isSystem` nor `createdAt` -/
theorem setBaseValues_update_keeps (v : Vals K N T) (st : Bool) (e : Ent K N T) :
    (setBaseValues false v st e).flag = e.flag ∧ (setBaseValues false v st e).created = e.created ∧
    (setBaseValues false v st e).name = e.name := ⟨rfl, rfl, rfl⟩

/-- and on a create `CreateBaseValues` writes the key only when the entity carries the flag: re-run
    on an existing bucket it never clears a stored flag -/
theorem createBaseValues_never_clears (v : Vals K N T) (lvl : Option N) (e : Ent K N T) (h : e.isSystem = true) :
    (mkEnt v lvl e).isSystem = true := by
  rw [mkEnt_isSystem, h]; simp

/-! ## ordinary entities are unaffected -/

/-- the same operation issued from the other kind of context -/
def withCtx (sys : Bool) : Op K N T → Op K N T
  | .create _ id blank v => .create sys id blank v
  | .update _ id v sn st so => .update sys id v sn st so
  | .delete _ id => .delete sys id
  | .ccreate _ id blank v lvl => .ccreate sys id blank v lvl
  | .cupdate _ id v sn st so sl lvl => .cupdate sys id v sn st so sl lvl
  | .cdelete _ id => .cdelete sys id
  | .odelete _ o => .odelete sys o
  | .deleteWhere _ q => .deleteWhere sys q
  | .ocreate id blank => .ocreate id blank
  | .link a b => .link a b
  | .unlink a b => .unlink a b
  | .read id => .read id

/-- the operation concerns ordinary entities only: it does not create with the flag set and every
    entity it addresses or reaches (cascade, query) is stored without the flag -/
def Ordinary (s : St K N T) : Op K N T → Prop
  | .create _ _ _ v => v.flag = false
  | .ccreate _ id _ v _ => v.flag = false ∧ ∀ e, s.ents.get id = some e → e.isSystem = false
  | .update _ id _ _ _ _ => ∀ e, s.ents.get id = some e → e.isSystem = false
  | .cupdate _ id _ _ _ _ _ _ => ∀ e, s.ents.get id = some e → e.isSystem = false
  | .delete _ id => ∀ e, s.ents.get id = some e → e.isSystem = false
  | .cdelete _ id => ∀ e, s.ents.get id = some e → e.isSystem = false
  | .odelete _ o => ∀ y ∈ refs s o, ∀ e, s.ents.get y = some e → e.isSystem = false
  | .deleteWhere _ q => ∀ y ∈ matching s q, ∀ e, s.ents.get y = some e → e.isSystem = false
  | _ => True

/-- **ordinary entities are unaffected by the constraint**: on them every operation — direct,
    through the child store, cascading or by query — behaves the same from an ordinary and from a
    system context (same error, same resulting state) -/
theorem ordinary_unaffected (s : St K N T) (op : Op K N T) (h : Ordinary s op) (c1 c2 : Bool) :
    step s (withCtx c1 op) = step s (withCtx c2 op) := by
  have hcreate : ∀ (id : K) (v : Vals K N T) (lvl : Option N) (e0 : Ent K N T), v.flag = false → e0.isSystem = false →
      createOn s c1 id v lvl e0 = createOn s c2 id v lvl e0 := by
    intro id v lvl e0 hv he
    have hp : (mkEnt v lvl e0).protectedBy s.reg = false :=
      protectedBy_of_not_system _ (by rw [mkEnt_isSystem, hv, he]; rfl)
    rw [createOn_eq, createOn_eq, hp]; simp
  have hupdate : ∀ (id : K) (v : Vals K N T) (sn st so : Bool) (l : Option (Bool × N)) (e : Ent K N T),
      s.ents.get id = some e → e.isSystem = false →
      updateOn s c1 id v sn st so l e = updateOn s c2 id v sn st so l e := by
    intro id v sn st so l e hg he
    rw [updateOn_eq hg, updateOn_eq hg, protectedBy_of_not_system _ he]; simp
  have hdelete : ∀ id : K, (∀ e, s.ents.get id = some e → e.isSystem = false) → deleteOne s c1 id = deleteOne s c2 id := by
    intro id hh
    cases hg : s.ents.get id with
    | none => rw [deleteOne_missing hg, deleteOne_missing hg]
    | some e => rw [deleteOne_found hg, deleteOne_found hg, protectedBy_of_not_system _ (hh e hg)]; simp
  cases op with
  | create sys id blank v =>
    simp only [Ordinary] at h
    simp only [withCtx]
    cases blank with
    | true => rw [step_create_blank, step_create_blank]
    | false =>
      cases hg : s.ents.get id with
      | some e => rw [step_create_exists hg, step_create_exists hg]
      | none => rw [step_create_new hg, step_create_new hg]; exact hcreate id v none _ h rfl
  | ccreate sys id blank v lvl =>
    simp only [Ordinary] at h
    simp only [withCtx]
    cases blank with
    | true => rw [step_ccreate_blank, step_ccreate_blank]
    | false =>
      cases hg : s.ents.get id with
      | some e =>
        rw [step_ccreate_found hg, step_ccreate_found hg]
        split
        · rfl
        · exact hcreate id v _ e h.1 (h.2 e hg)
      | none => rw [step_ccreate_new hg, step_ccreate_new hg]; exact hcreate id v _ _ h.1 rfl
  | update sys id v sn st so =>
    simp only [withCtx]
    cases hg : s.ents.get id with
    | none => rw [step_update_missing hg, step_update_missing hg]
    | some e => rw [step_update_found hg, step_update_found hg]; exact hupdate id v sn st so none e hg (h e hg)
  | cupdate sys id v sn st so sl lvl =>
    simp only [withCtx]
    cases hg : s.ents.get id with
    | none => rw [step_cupdate_missing hg, step_cupdate_missing hg]
    | some e =>
      rw [step_cupdate_found hg, step_cupdate_found hg]
      split
      · rfl
      · exact hupdate id v sn st so _ e hg (h e hg)
  | delete sys id => simp only [withCtx, step_delete]; exact hdelete id h
  | cdelete sys id => simp only [withCtx, step_cdelete]; exact hdelete id h
  | odelete sys o =>
    simp only [withCtx, step, cascadeCtx]
    rw [delMany_ctx_irrelevant s (refs s o) h c1 c2]
  | deleteWhere sys q =>
    simp only [withCtx, step]
    rw [delMany_ctx_irrelevant s (matching s q) h c1 c2]
  | ocreate id blank => rfl
  | link a b => rfl
  | unlink a b => rfl
  | read id => rfl

/-! ## the model refines the specification, for every history -/

/-- the spec's reading of a transaction body: a failing operation changes nothing; in keep-going
    mode the caller carries on after an ignorable failure -/
def srunOps (k : Bool) : SSt K N T → List (Op K N T) → SSt K N T × Bool
  | s, [] => (s, false)
  | s, op :: ops =>
    match sstep s op with
    | .ok s' => srunOps k s' ops
    | .fail ignorable => if k && ignorable then srunOps k s ops else (s, true)

def scommitTx (s : SSt K N T) (tx : Bool × List (Op K N T)) : SSt K N T :=
  let r := srunOps tx.1 s tx.2
  if r.2 then s else r.1

def srunHist (s : SSt K N T) (txs : List (Bool × List (Op K N T))) : SSt K N T := txs.foldl scommitTx s

theorem runOps_refines (k : Bool) (s : St K N T) (hw : WF s) (ops : List (Op K N T)) :
    (runOps k s ops).2 = (srunOps k (abs s) ops).2 ∧
    ((runOps k s ops).2 = false → abs (runOps k s ops).1 = (srunOps k (abs s) ops).1 ∧ WF (runOps k s ops).1) := by
  induction ops generalizing s with
  | nil => exact ⟨rfl, fun _ => ⟨rfl, hw⟩⟩
  | cons op ops ih =>
    have href := step_refines s hw op
    cases he : (step s op).err with
    | none =>
      rw [he] at href; simp only at href
      rw [runOps_cons_ok he]
      simp only [srunOps, href]
      exact ih _ (step_wf hw op he)
    | some e =>
      rw [he] at href; simp only at href
      rw [runOps_cons_err he]
      simp only [srunOps, href]
      cases hi : e.ignorable with
      | false => simp
      | true =>
        rw [step_err_state he hi]
        cases k with
        | false => simp
        | true => simpa using ih s hw

theorem commitTx_refines (s : St K N T) (hw : WF s) (tx : Bool × List (Op K N T)) :
    abs (commitTx s tx) = scommitTx (abs s) tx ∧ WF (commitTx s tx) := by
  obtain ⟨h1, h2⟩ := runOps_refines tx.1 s hw tx.2
  unfold commitTx scommitTx
  simp only [← h1]
  cases hf : (runOps tx.1 s tx.2).2 with
  | true => simp [hw]
  | false => simp only [Bool.false_eq_true, if_false]; exact h2 hf

/-- **for every history the committed state of the model is the state the specification
    prescribes** (entities, their system flag, names, tags, timestamps, owners, child data; the
    owners) -/
theorem model_refines_spec (reg : Reg) (h : List (Bool × List (Op K N T))) :
    abs (runHist (St.empty reg : St K N T) h) = srunHist (SSt.empty reg : SSt K N T) h := by
  have : ∀ (s : St K N T), WF s → abs (runHist s h) = srunHist (abs s) h := by
    induction h with
    | nil => intro s _; rfl
    | cons tx txs ih =>
      intro s hw
      unfold runHist srunHist
      simp only [List.foldl_cons]
      have := ih (commitTx s tx) (commitTx_refines s hw tx).2
      unfold runHist srunHist at this
      rw [this, (commitTx_refines s hw tx).1]
  exact this (St.empty reg) (by intro p hp; cases hp)

end

/-! ## non-vacuity (ids, names, timestamps = Nat) -/

instance : KeyOrd Nat := ⟨fun a b => decide (a ≤ b)⟩

/-- the constraint registered on the parent store / on the child store only -/
def regS : Reg := { onS := true, onC := false }
def regC : Reg := { onS := false, onC := true }

def vals (flag migrate : Bool) (name : Nat) (owner : Option Nat := none) : Vals Nat Nat Nat :=
  { flag := flag, migrate := migrate, cAt := 1000, uAt := 2000, tags := some name, name := name, owner := owner }

/-- system ctx creates owner 7, system entity 1 (migrated: carries its own timestamps) referring to
    it and ordinary entity 2 referring to it too; an ordinary transaction tries to update 1 with a
    flipped flag (ignored error, committed), updates 2 carrying IsSystem = true AND Migrate = true,
    tries to delete 1; a system transaction renames 1 -/
def demoHist : List (Bool × List (Op Nat Nat Nat)) :=
  [(false, [.ocreate 7 false, .create true 1 false (vals true true 10 (some 7)),
            .create false 2 false (vals false false 20 (some 7))]),
   (true, [.update false 1 (vals false false 11) true true false, .update false 2 (vals true true 21) true false false,
           .delete false 1]),
   (false, [.update true 1 (vals false true 12) true true false])]

example : (runHist (St.empty regS) demoHist).ents.get 1 =
    some { flag := some true, name := 12, tags := some 12, created := .given 1000, updated := .now,
           owner := some 7, level := none, peers := [] } := by decide
example : (runHist (St.empty regS) demoHist).ents.get 2 =
    some { flag := none, name := 21, tags := some 20, created := .now, updated := .now, owner := some 7,
           level := none, peers := [] } := by decide
example : (runHistG ((St.empty regS), []) demoHist).2.get 1 = some true ∧ (runHistG ((St.empty regS), []) demoHist).2.get 2 = some false := by
  decide
example : (step (runHist (St.empty regS) demoHist) (.delete false 1)).err = some .sysDelete := by decide
example : (step (runHist (St.empty regS) demoHist) (.create false 3 false (vals true false 30))).err = some .sysCreate := by decide

/-- the indirect paths on the same state: deleting owner 7 from an ordinary context is refused
    because system entity 1 refers to it (it is the first referrer in id order, so nothing has been
    deleted when the cascade stops); `DeleteWhere(true)`, a child-store create over 1, a
    child-store delete: refused; a keep-going ordinary transaction of such attempts commits nothing;
    from a system context the cascade goes through and removes both referrers -/
example : (step (runHist (St.empty regS) demoHist) (.odelete false 7)).err = some .viaSysDelete := by decide
example : (step (runHist (St.empty regS) demoHist) (.deleteWhere false .all)).err = some .viaSysDelete := by decide
example : (step (runHist (St.empty regS) demoHist) (.ccreate false 1 false (vals false false 5) 9)).err = some .sysCreate := by decide
example : (step (runHist (St.empty regS) demoHist) (.cdelete false 1)).err = some .sysDelete := by decide
example : (commitTx (runHist (St.empty regS) demoHist) (true, [.odelete false 7, .deleteWhere false .all,
    .ccreate false 1 false (vals false false 5) 9])).ents.get 1 = (runHist (St.empty regS) demoHist).ents.get 1 := by decide
example : ((step (runHist (St.empty regS) demoHist) (.odelete true 7)).st.ents.get 1,
    (step (runHist (St.empty regS) demoHist) (.odelete true 7)).st.ents.get 2,
    (step (runHist (St.empty regS) demoHist) (.odelete true 7)).st.owners) = (none, none, []) := by decide
/-- the promotion `flag_change_needs_system_child_create` describes: a child-store create carrying
    the flag over ordinary entity 2, from a system context, makes 2 a system entity; from an
    ordinary context it is refused -/
example : ((step (runHist (St.empty regS) demoHist) (.ccreate true 2 false (vals true false 5 (some 7)) 9)).st.ents.get 2).map Ent.isSystem
    = some true := by decide
example : (step (runHist (St.empty regS) demoHist) (.ccreate false 2 false (vals true false 5 (some 7)) 9)).err = some .sysCreate := by
  decide
/-- and the cascade stops being safe the moment the nested delete runs under another context than
    the caller's: with the referrers deleted from a system context the system entity is gone -/
example : ((delMany true (runHist (St.empty regS) demoHist) (refs (runHist (St.empty regS) demoHist) 7)).1.ents.get 1) = none := by decide
example : Ordinary (runHist (St.empty regS) demoHist) (.update false 2 (vals true true 5) true true true) := by
  intro e he
  have : (runHist (St.empty regS) demoHist).ents.get 2 =
      some { flag := none, name := 21, tags := some 20, created := .now, updated := .now, owner := some 7,
             level := none, peers := [] } := by decide
  rw [this] at he; cases he; rfl

/-! ### the constraint registered on the child store only -/

/-- a system context creates system entity 1 THROUGH THE CHILD STORE (child data) and system entity 2
    through S (no child data) -/
def demoHistC : List (Bool × List (Op Nat Nat Nat)) :=
  [(false, [.ocreate 7 false, .ccreate true 1 false (vals true false 10 (some 7)) 5,
            .create true 2 false (vals true false 20)])]

/-- entity 1 has child data: update and delete through EITHER store, the cascade of its owner and a
    delete by query are refused from an ordinary context … -/
example : (step (runHist (St.empty regC) demoHistC) (.delete false 1)).err = some .sysDelete := by decide
example : (step (runHist (St.empty regC) demoHistC) (.cdelete false 1)).err = some .sysDelete := by decide
example : (step (runHist (St.empty regC) demoHistC) (.update false 1 (vals false false 11) true true false)).err
    = some .sysUpdate := by decide
example : (step (runHist (St.empty regC) demoHistC) (.cupdate false 1 (vals false false 11) true true false true 6)).err
    = some .sysUpdate := by decide
example : (step (runHist (St.empty regC) demoHistC) (.odelete false 7)).err = some .viaSysDelete := by decide
example : (step (runHist (St.empty regC) demoHistC) (.deleteWhere false .all)).err = some .viaSysDelete := by decide
/-- … **entity 2 has none: a constraint on the child store never sees operations on it through S**
    (they succeed from an ordinary context: the property cannot be claimed for it — the hypothesis
    `e.level.isSome` of `system_needs_system_ctx_child_registration` is necessary), but extending it
    through the child store is refused -/
example : (step (runHist (St.empty regC) demoHistC) (.delete false 2)).err = none := by decide
example : (step (runHist (St.empty regC) demoHistC) (.update false 2 (vals false false 21) true true false)).err = none := by
  decide
example : (step (runHist (St.empty regC) demoHistC) (.create false 3 false (vals true false 30))).err = none := by decide
example : (step (runHist (St.empty regC) demoHistC) (.ccreate false 2 false (vals false false 21) 9)).err = some .sysCreate := by
  decide
example : (step (runHist (St.empty regC) demoHistC) (.ccreate false 3 false (vals true false 30) 9)).err = some .sysCreate := by
  decide
/-- the plain shape (no child store): after a history of that shape the write-back of system entity 2
    exactly as stored — nil checker, empty checker — is refused from an ordinary context and goes
    through (touching `updatedAt` only) from a system context -/
def regP : Reg := { onS := true, onC := false, childStore := false }
def demoHistP : List (Bool × List (Op Nat Nat Nat)) :=
  [(false, [.create true 2 false (vals true true 20)])]
example : ∀ tx ∈ demoHistP, ∀ op ∈ tx.2, op.fits regP = true := by decide
example : (step (runHist (St.empty regP) demoHistP) (.update false 2 (vals true false 20) true true true)).err =
    some .sysUpdate := by decide
example : (step (runHist (St.empty regP) demoHistP) (.update false 2 (vals true false 20) false false false)).err =
    some .sysUpdate := by decide
example : ((step (runHist (St.empty regP) demoHistP) (.update true 2 (vals true false 20) true true true)).st.ents.get 2) =
    some { flag := some true, name := 20, tags := some 20, created := .given 1000, updated := .now, owner := none,
           level := none, peers := [] } := by decide
/-- with the constraint on S the same operations on entity 2 are refused -/
example : (step (runHist (St.empty regS) demoHistC) (.delete false 2)).err = some .sysDelete := by decide

/-- round 9, non-vacuity: a strategy made of a `SetRequiredString` and two plain setters on system
    entity 1 — refused from an ordinary context with the state untouched, run in full from a system
    context (the required setter handed a blank value raises its own error after the first write) -/
def demoWrites (blank : Bool) : List (Write Nat Nat Nat) :=
  [.set true (fun e => { e with tags := some 5 }), .require true blank .blank (fun e => { e with name := 99 }),
   .set true (fun e => { e with owner := none })]
def demoEnt1 : Ent Nat Nat Nat :=
  { flag := some true, name := 12, tags := some 12, created := .given 1000, updated := .now, owner := some 7,
    level := none, peers := [] }
example : (updateWith (demoWrites false) (runHist (St.empty regS) demoHist) false 1 demoEnt1).err = some .sysUpdate ∧
    (updateWith (demoWrites false) (runHist (St.empty regS) demoHist) false 1 demoEnt1).st.ents.get 1 = some demoEnt1 := by
  decide
example : (updateWith (demoWrites false) (runHist (St.empty regS) demoHist) true 1 demoEnt1).err = none ∧
    (updateWith (demoWrites false) (runHist (St.empty regS) demoHist) true 1 demoEnt1).st.ents.get 1 =
      some { demoEnt1 with tags := some 5, name := 99, owner := none } := by decide
example : (updateWith (demoWrites true) (runHist (St.empty regS) demoHist) true 1 demoEnt1).err = some .blank ∧
    (updateWith (demoWrites true) (runHist (St.empty regS) demoHist) true 1 demoEnt1).st.ents.get 1 =
      some { demoEnt1 with tags := some 5 } := by decide

/-! ## round 14 — entities whose stored data the entity strategy cannot load (`C16/Load.lean`)

  `lstep σ` = `step` with the load failures of boltz/store_crud.go in front of / behind it; `σ.fillFails`
  (which stored forms of the required field make `FillEntity` fail) is a parameter of the strategy. -/
section
variable {K N T : Type} [DecidableEq K] [DecidableEq N] [KeyOrd K]

/-- **system entities need a system context — also those the strategy cannot load.**  For a
    protected entity whose stored data cannot be loaded, from an ORDINARY context: `Update` (S and C),
    `DeleteById` (S and C) fail with the state untouched (the load error comes before the constraint
    pass — it must not be "tolerated" into a success); deleting the owner it refers to and a
    `DeleteWhere` matching it fail and the entity is still there, as it was. -/
theorem system_needs_system_ctx_unloadable (σ : Strat N) (s : St K N T) (id : K) (e : Ent K N T)
    (hg : s.ents.get id = some e) (_hp : e.protectedBy s.reg = true) (hu : σ.fillFails e.name = true) :
    (∀ v sn st so, (lstep σ s (.base (.update false id v sn st so))).err = some .load ∧
        (lstep σ s (.base (.update false id v sn st so))).st = s) ∧
    (∀ v sn st so sl lvl, (lstep σ s (.base (.cupdate false id v sn st so sl lvl))).err.isSome = true ∧
        (lstep σ s (.base (.cupdate false id v sn st so sl lvl))).st = s) ∧
    ((lstep σ s (.base (.delete false id))).err = some .load ∧ (lstep σ s (.base (.delete false id))).st = s) ∧
    ((lstep σ s (.base (.cdelete false id))).err = some .load ∧ (lstep σ s (.base (.cdelete false id))).st = s) ∧
    (∀ o, e.owner = some o → o ∈ s.owners →
        (lstep σ s (.base (.odelete false o))).err.isSome = true ∧
        (lstep σ s (.base (.odelete false o))).st.ents.get id = some e) ∧
    (∀ q : Query K N, q.eval e = true →
        (lstep σ s (.base (.deleteWhere false q))).err.isSome = true ∧
        (lstep σ s (.base (.deleteWhere false q))).st.ents.get id = some e) := by
  have hun : unloadable σ s id = true := by rw [unloadable_of_get hg]; exact hu
  refine ⟨?_, ?_, ?_, ?_, ?_, ?_⟩
  · intro v sn st so; simp [lstep, hun]
  · intro v sn st so sl lvl
    simp only [lstep, hg]
    cases hl : e.level.isNone with
    | true =>
      simp only [if_true, lift_st, lift_err]
      rw [step_cupdate_found hg, hl]; simp
    | false => simp [hu]
  · simp [lstep, hun]
  · simp [lstep, hun]
  · intro o ho hm
    have hmem : id ∈ refs s o := mem_refs hg ho
    obtain ⟨h1, h2⟩ := ldelMany_unloadable_mem σ (cascadeCtx false) s (refs s o) hmem hun
    simp only [lstep, hm, if_true]
    cases hr : (ldelMany σ (cascadeCtx false) s (refs s o)).2 with
    | none => rw [hr] at h1; cases h1
    | some er => simp only []; exact ⟨rfl, by rw [h2, hg]⟩
  · intro q hq
    have hmem : id ∈ matching s q := mem_matching hg hq
    obtain ⟨h1, h2⟩ := ldelMany_unloadable_mem σ false s (matching s q) hmem hun
    simp only [lstep]
    cases hr : (ldelMany σ false s (matching s q)).2 with
    | none => rw [hr] at h1; cases h1
    | some er => simp only []; exact ⟨rfl, by rw [h2, hg]⟩

/-- **what a SYSTEM context can do with an entity the strategy cannot load** (whatever its flag):
    nothing that loads it first — `Update`, `DeleteById` through either store and `FindById` return the
    load error with the state untouched; deleting its owner and a `DeleteWhere` matching it fail (the
    batch stops at it) and the entity stays.  (What repairs it: a child-store `Create` over it — no
    load precedes `PersistEntity`, which rewrites the field — or a raw write: `rawName_repairs`.) -/
theorem system_ctx_unloadable (σ : Strat N) (s : St K N T) (sys : Bool) (id : K) (e : Ent K N T)
    (hg : s.ents.get id = some e) (hu : σ.fillFails e.name = true) :
    (∀ v sn st so, (lstep σ s (.base (.update sys id v sn st so))).err = some .load ∧
        (lstep σ s (.base (.update sys id v sn st so))).st = s) ∧
    ((lstep σ s (.base (.delete sys id))).err = some .load ∧ (lstep σ s (.base (.delete sys id))).st = s) ∧
    ((lstep σ s (.base (.cdelete sys id))).err = some .load ∧ (lstep σ s (.base (.cdelete sys id))).st = s) ∧
    ((lstep σ s (.base (.read id))).err = some .load) ∧
    (∀ o, e.owner = some o → o ∈ s.owners →
        (lstep σ s (.base (.odelete sys o))).err.isSome = true ∧
        (lstep σ s (.base (.odelete sys o))).st.ents.get id = some e) ∧
    (∀ q : Query K N, q.eval e = true →
        (lstep σ s (.base (.deleteWhere sys q))).err.isSome = true ∧
        (lstep σ s (.base (.deleteWhere sys q))).st.ents.get id = some e) := by
  have hun : unloadable σ s id = true := by rw [unloadable_of_get hg]; exact hu
  refine ⟨?_, ?_, ?_, ?_, ?_, ?_⟩
  · intro v sn st so; simp [lstep, hun]
  · simp [lstep, hun]
  · simp [lstep, hun]
  · simp [lstep, hun]
  · intro o ho hm
    have hmem : id ∈ refs s o := mem_refs hg ho
    obtain ⟨h1, h2⟩ := ldelMany_unloadable_mem σ (cascadeCtx sys) s (refs s o) hmem hun
    simp only [lstep, hm, if_true]
    cases hr : (ldelMany σ (cascadeCtx sys) s (refs s o)).2 with
    | none => rw [hr] at h1; cases h1
    | some er => simp only []; exact ⟨rfl, by rw [h2, hg]⟩
  · intro q hq
    have hmem : id ∈ matching s q := mem_matching hg hq
    obtain ⟨h1, h2⟩ := ldelMany_unloadable_mem σ sys s (matching s q) hmem hun
    simp only [lstep]
    cases hr : (ldelMany σ sys s (matching s q)).2 with
    | none => rw [hr] at h1; cases h1
    | some er => simp only []; exact ⟨rfl, by rw [h2, hg]⟩

/-- a raw write of a loadable form makes the entity loadable again (and one of an unloadable form
    makes it unloadable): no context is involved -/
theorem rawName_repairs (σ : Strat N) (s : St K N T) (id : K) (e : Ent K N T) (n : N)
    (hg : s.ents.get id = some e) :
    (lstep σ s (.rawName id n)).err = none ∧
    unloadable σ (lstep σ s (.rawName id n)).st id = σ.fillFails n := by
  simp only [lstep, hg]
  refine ⟨trivial, ?_⟩
  rw [unloadable_of_get (e := { e with name := n })]
  rw [putEnt_ents, Map.get_put]; simp

/-- operations an ordinary context issues; raw writes on OTHER entities may occur anywhere in the
    history (they make other entities unloadable or loadable again) -/
def lordinaryFor (x : K) : LOp K N T → Bool
  | .base op => ordinaryOp op
  | .rawName id _ => decide (id ≠ x)

/-- **one successful operation from an ordinary context leaves every protected system entity —
    loadable or not — in place and unchanged**, whatever else in the store cannot be loaded -/
theorem lordinary_step_preserves_system (σ : Strat N) (s : St K N T) (x : K) (lop : LOp K N T)
    (ho : lordinaryFor x lop = true) (hok : (lstep σ s lop).err = none) (e : Ent K N T)
    (hg : s.ents.get x = some e) (hp : e.protectedBy s.reg = true) :
    ∃ e', (lstep σ s lop).st.ents.get x = some e' ∧ SameButLinks e e' := by
  have viaStep : ∀ op : Op K N T, ordinaryOp op = true → (step s op).err = none →
      ∃ e', (step s op).st.ents.get x = some e' ∧ SameButLinks e e' :=
    fun op h1 h2 => ordinary_step_preserves_system s op h1 h2 x e hg hp
  cases lop with
  | rawName id n =>
    simp only [lordinaryFor, decide_eq_true_eq] at ho
    cases hgi : s.ents.get id with
    | none => simp [lstep, hgi] at hok
    | some e0 =>
      simp only [lstep, hgi]
      exact ⟨e, by rw [putEnt_ents, Map.get_put]; simp [ho, hg], rfl⟩
  | base op =>
    simp only [lordinaryFor] at ho
    cases op with
    | create sys id blank v =>
      cases blank with
      | true => simp only [lstep, if_true] at hok ⊢; exact viaStep _ ho (lift_err_none.mp hok)
      | false =>
        cases hgi : s.ents.get id with
        | some e0 =>
          simp only [lstep, Bool.false_eq_true, if_false, hgi] at hok ⊢
          exact viaStep _ ho (lift_err_none.mp hok)
        | none =>
          simp only [lstep, Bool.false_eq_true, if_false, hgi] at hok ⊢
          rw [afterLoad_st]; exact viaStep _ ho (afterLoad_ok hok)
    | ccreate sys id blank v lvl =>
      cases blank with
      | true => simp only [lstep, if_true] at hok ⊢; exact viaStep _ ho (lift_err_none.mp hok)
      | false =>
        cases hgi : s.ents.get id with
        | some e0 =>
          cases hl : e0.level.isSome with
          | true =>
            simp only [lstep, Bool.false_eq_true, if_false, hgi, hl, if_true] at hok ⊢
            exact viaStep _ ho (lift_err_none.mp hok)
          | false =>
            simp only [lstep, Bool.false_eq_true, if_false, hgi, hl] at hok ⊢
            rw [afterLoad_st]; exact viaStep _ ho (afterLoad_ok hok)
        | none =>
          simp only [lstep, Bool.false_eq_true, if_false, hgi] at hok ⊢
          rw [afterLoad_st]; exact viaStep _ ho (afterLoad_ok hok)
    | update sys id v sn st so =>
      cases hu : unloadable σ s id with
      | true => simp [lstep, hu] at hok
      | false =>
        simp only [lstep, hu, Bool.false_eq_true, if_false] at hok ⊢
        rw [afterLoad_st]; exact viaStep _ ho (afterLoad_ok hok)
    | cupdate sys id v sn st so sl lvl =>
      cases hgi : s.ents.get id with
      | none => simp only [lstep, hgi] at hok ⊢; exact viaStep _ ho (lift_err_none.mp hok)
      | some e0 =>
        cases hl : e0.level.isNone with
        | true => simp only [lstep, hgi, hl, if_true] at hok ⊢; exact viaStep _ ho (lift_err_none.mp hok)
        | false =>
          cases hf : σ.fillFails e0.name with
          | true => simp [lstep, hgi, hl, hf] at hok
          | false =>
            simp only [lstep, hgi, hl, hf, Bool.false_eq_true, if_false] at hok ⊢
            rw [afterLoad_st]; exact viaStep _ ho (afterLoad_ok hok)
    | delete sys id =>
      cases hu : unloadable σ s id with
      | true => simp [lstep, hu] at hok
      | false =>
        simp only [lstep, hu, Bool.false_eq_true, if_false] at hok ⊢
        exact viaStep _ ho (lift_err_none.mp hok)
    | cdelete sys id =>
      cases hu : unloadable σ s id with
      | true => simp [lstep, hu] at hok
      | false =>
        simp only [lstep, hu, Bool.false_eq_true, if_false] at hok ⊢
        exact viaStep _ ho (lift_err_none.mp hok)
    | odelete sys o =>
      simp only [ordinaryOp, Bool.not_eq_true'] at ho
      subst ho
      by_cases hm : o ∈ s.owners
      · simp only [lstep, hm, if_true, cascadeCtx] at hok ⊢
        have hk := ldelMany_keeps_system σ s (refs s o) hg hp
        cases hr : (ldelMany σ false s (refs s o)).2 with
        | some er => rw [hr] at hok; cases hok
        | none =>
          simp only []
          refine ⟨unlinkEnt o e, ?_, rfl⟩
          rw [get_unlinkAll, hk]; rfl
      · have : (lstep σ s (.base (.odelete false o))) = (step s (.odelete false o)).lift := by
          simp [lstep, hm]
        rw [this] at hok ⊢
        exact viaStep _ rfl (lift_err_none.mp hok)
    | deleteWhere sys q =>
      simp only [ordinaryOp, Bool.not_eq_true'] at ho
      subst ho
      simp only [lstep] at hok ⊢
      have hk := ldelMany_keeps_system σ s (matching s q) hg hp
      cases hr : (ldelMany σ false s (matching s q)).2 with
      | some er => rw [hr] at hok; cases hok
      | none => simp only []; exact ⟨e, hk, rfl⟩
    | read id =>
      cases hu : unloadable σ s id with
      | true => simp [lstep, hu] at hok
      | false =>
        simp only [lstep, hu, Bool.false_eq_true, if_false]
        exact ⟨e, hg, rfl⟩
    | ocreate id blank => exact viaStep _ ho (lift_err_none.mp hok)
    | link sid oid => exact viaStep _ ho (lift_err_none.mp hok)
    | unlink sid oid => exact viaStep _ ho (lift_err_none.mp hok)

end

end StorageModel.Properties.C16

#print axioms StorageModel.Properties.C16.every_setter_is_a_gated_write
#print axioms StorageModel.Properties.C16.errored_bucket_never_written
#print axioms StorageModel.Properties.C16.refused_update_any_strategy
#print axioms StorageModel.Properties.C16.update_runs_strategy
#print axioms StorageModel.Properties.C16.allowed_update_writes
#print axioms StorageModel.Properties.C16.system_needs_system_ctx
#print axioms StorageModel.Properties.C16.system_needs_system_ctx_parent_registration
#print axioms StorageModel.Properties.C16.system_needs_system_ctx_child_registration
#print axioms StorageModel.Properties.C16.system_needs_system_ctx_plain_shape
#print axioms StorageModel.Properties.C16.plain_shape_no_child_data
#print axioms StorageModel.Properties.C16.unchanged_update_refused
#print axioms StorageModel.Properties.C16.unchanged_update_allowed
#print axioms StorageModel.Properties.C16.system_needs_system_ctx_tx
#print axioms StorageModel.Properties.C16.ordinary_step_preserves_system
#print axioms StorageModel.Properties.C16.ordinary_tx_preserves_system
#print axioms StorageModel.Properties.C16.ordinary_history_preserves_system
#print axioms StorageModel.Properties.C16.ordinary_history_preserves_system_child_registration
#print axioms StorageModel.Properties.C16.cascade_never_deletes_system
#print axioms StorageModel.Properties.C16.system_ctx_allowed
#print axioms StorageModel.Properties.C16.flag_immutable
#print axioms StorageModel.Properties.C16.flag_change_needs_system_child_create
#print axioms StorageModel.Properties.C16.update_never_changes_flag
#print axioms StorageModel.Properties.C16.ordinary_unaffected
#print axioms StorageModel.Properties.C16.model_refines_spec
