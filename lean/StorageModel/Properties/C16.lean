import StorageModel.C16.Lemmas
/-
  C16 — System entities can only be changed from a system context.

  "An entity created with the system flag can be created, updated and deleted only through a
  system mutate context; the same attempts from an ordinary context fail and leave the entity
  unchanged.  The flag is fixed at creation - no update from any context turns an ordinary entity
  into a system entity or back - and ordinary entities are unaffected by the constraint."

  The theorems are about the executable model in StorageModel/C16/Model.lean (checkOperation on the
  STORED flag; ProcessBeforeUpdate for updates — the error lands in the bucket before PersistEntity
  runs —, ProcessAfterUpdate for creates — the entity is already written when the check fails —,
  ProcessBeforeDelete; SetBaseValues / CreateBaseValues / UpdateBaseValues of boltz/base.go branch by
  branch: CreateBaseValues writes the flag and — steered by the entity's `Migrate` field — either the
  clock or the entity's own timestamps; UpdateBaseValues writes `updatedAt` and the tags and nothing
  else, whatever `IsSystem` / `Migrate` / timestamps the in-memory entity carries).  `Vals` is the
  complete in-memory entity; every theorem quantifies over all of it.  A history is
  a list of `Db.Update` bodies, each with a mode: the body aborts at the first error, or the caller
  ignores errors (except a refused create) and commits anyway.
-/
namespace StorageModel.Properties.C16
open StorageModel StorageModel.C16

section
variable {K N T : Type} [DecidableEq K]

/-! ## refusal from an ordinary context -/

/-- **create / update / delete of a system entity from an ordinary context fail**; the refused
    update and delete do not even touch the uncommitted state. -/
theorem system_needs_system_ctx (s : St K N T) (id : K) :
    -- create with the system flag (id fresh, not blank), whatever else the entity carries
    (∀ v : Vals N T, v.flag = true → s.get id = none → (step s (.create false id false v)).err = some .sysCreate) ∧
    -- update of an entity whose STORED flag is set, whatever the update carries
    (∀ e (v : Vals N T) sn st, s.get id = some e → e.isSystem = true →
        step s (.update false id v sn st) = { st := s, err := some .sysUpdate }) ∧
    -- delete
    (∀ e, s.get id = some e → e.isSystem = true →
        step s (.delete false id) = { st := s, err := some .sysDelete }) := by
  refine ⟨?_, ?_, ?_⟩
  · intro v hv hg; rw [step_create_new hg, hv]; simp
  · intro e v sn st hg hs; rw [step_update_found hg, hs]; simp
  · intro e hg hs; rw [step_delete_found hg, hs]; simp

/-- … **and leave the entity unchanged**: a transaction in which such an attempt is reached
    commits nothing if its body aborts on errors; if the caller ignores the error of a refused
    update or delete and commits anyway, that operation has changed nothing (previous theorem);
    a refused create aborts the body in either mode. -/
theorem refused_tx_unchanged (s : St K N T) (k : Bool) (ops : List (Op K N T)) (h : (runOps k s ops).2 = true) :
    commitTx s (k, ops) = s := commitTx_failed h

theorem refused_aborts (k : Bool) (s : St K N T) (op : Op K N T) (rest : List (Op K N T)) (e : Err)
    (he : (step s op).err = some e) (hk : k = false ∨ e = .sysCreate) :
    (runOps k s (op :: rest)).2 = true := by
  rw [runOps_cons_err he]
  rcases hk with rfl | rfl <;> simp

/-- runs compose: a failure anywhere in an aborting body fails the body -/
theorem runOps_append_failed (k : Bool) (s : St K N T) (pre post : List (Op K N T))
    (h : (runOps k (runOps k s pre).1 post).2 = true) (hpre : (runOps k s pre).2 = false) :
    (runOps k s (pre ++ post)).2 = true := by
  induction pre generalizing s with
  | nil => simpa [runOps] using h
  | cons op pre ih =>
    cases he : (step s op).err with
    | none =>
      rw [List.cons_append, runOps_cons_ok he]
      rw [runOps_cons_ok he] at h hpre
      exact ih _ h hpre
    | some e =>
      rw [List.cons_append, runOps_cons_err he]
      rw [runOps_cons_err he] at h hpre
      split
      · next hk => rw [if_pos hk] at h hpre; exact ih _ h hpre
      · rfl

/-- the full statement at the level of a transaction: wherever in the body the refused attempt on
    a system entity sits, an aborting transaction commits nothing -/
theorem system_needs_system_ctx_tx (s : St K N T) (pre rest : List (Op K N T)) (op : Op K N T) (e : Err)
    (hpre : (runOps false s pre).2 = false)
    (he : (step (runOps false s pre).1 op).err = some e) :
    commitTx s (false, pre ++ op :: rest) = s := by
  apply commitTx_failed
  apply runOps_append_failed _ _ _ _ _ hpre
  exact refused_aborts false _ op rest e he (Or.inl rfl)

/-! ## a system context may do everything -/

/-- **from a system context create, update and delete of a system entity succeed** and do what
    they say -/
theorem system_ctx_allowed (s : St K N T) (id : K) :
    (∀ v : Vals N T, s.get id = none →
        (step s (.create true id false v)).err = none ∧
        ((step s (.create true id false v)).st.get id).map Ent.isSystem = some v.flag ∧
        ((step s (.create true id false v)).st.get id).map Ent.name = some v.name) ∧
    (∀ e (v : Vals N T), s.get id = some e →
        (step s (.update true id v true true)).err = none ∧
        ((step s (.update true id v true true)).st.get id).map Ent.name = some v.name ∧
        ((step s (.update true id v true true)).st.get id).map Ent.flag = some e.flag) ∧
    (∀ e, s.get id = some e →
        (step s (.delete true id)).err = none ∧ (step s (.delete true id)).st.get id = none) := by
  refine ⟨?_, ?_, ?_⟩
  · intro v hg
    rw [step_create_new hg]
    simp only [Bool.not_true, Bool.and_false, Bool.false_eq_true, if_false, Map.get_put, if_true, Option.map_some,
      newEnt_isSystem, true_and]
    unfold newEnt persist; simp
  · intro e v hg
    rw [step_update_found hg]
    simp only [Bool.not_true, Bool.and_false, Bool.false_eq_true, if_false, Map.get_put, if_true, Option.map_some,
      persist_update_flag, true_and, and_true]
    unfold persist; simp
  · intro e hg
    rw [step_delete_found hg]
    simp [Map.get_del]

/-! ## the flag is fixed at creation -/

/-- **For every history** — any mix of contexts, several operations per transaction, updates
    carrying a flipped flag with any field checker, failing and ignored operations — every entity
    that exists at the end reads back exactly the IsSystem flag its creating `Create` call carried
    (`runHistG` runs the same history while recording, for each existing entity, the flag of the
    call that created it; `runHistG_fst` shows it computes the same states). -/
theorem flag_immutable (h : List (Bool × List (Op K N T))) (id : K) :
    ((runHist ([] : St K N T) h).get id).map Ent.isSystem = (runHistG (([] : St K N T), ([] : Map K Bool)) h).2.get id := by
  have := runHistG_flagInv (flagInv_nil (K := K) (N := N)) h id
  rw [runHistG_fst] at this
  exact this

/-- the single step behind it: **no update — from any context, whatever `IsSystem`, `Migrate`,
    timestamps, tags and name the in-memory entity carries (`v` is the whole of it), with any field
    checker — changes the stored flag of any entity** -/
theorem update_never_changes_flag (s : St K N T) (sys : Bool) (id : K) (v : Vals N T) (sn st : Bool) (x : K) :
    ((step s (.update sys id v sn st)).st.get x).map Ent.flag = (s.get x).map Ent.flag := by
  cases hg : s.get id with
  | none => rw [step_update_missing hg]
  | some e =>
    rw [step_update_found hg]
    cases hc : (e.isSystem && !sys) with
    | true => simp
    | false =>
      simp only [Bool.false_eq_true, if_false]
      rw [Map.get_put]
      by_cases hx : id = x
      · subst hx; simp [hg, persist_update_flag]
      · simp [hx]

/-- the code path behind *that*: on an update `SetBaseValues` takes the `UpdateBaseValues` branch
    (it looks at `ctx.IsCreate` only, never at the entity's `Migrate`), and that branch does not
    touch `isSystem` nor `createdAt` -/
theorem setBaseValues_update_keeps (v : Vals N T) (st : Bool) (e : Ent N T) :
    (setBaseValues false v st e).flag = e.flag ∧ (setBaseValues false v st e).created = e.created ∧
    (setBaseValues false v st e).name = e.name := ⟨rfl, rfl, rfl⟩

/-! ## ordinary entities are unaffected -/

/-- the same operation issued from the other kind of context -/
def withCtx (sys : Bool) : Op K N T → Op K N T
  | .create _ id blank v => .create sys id blank v
  | .update _ id v sn st => .update sys id v sn st
  | .delete _ id => .delete sys id
  | .read id => .read id

/-- the operation concerns an ordinary entity: it does not create with the flag set and the
    entity it addresses (if any) is stored without the flag -/
def Ordinary (s : St K N T) : Op K N T → Prop
  | .create _ _ _ v => v.flag = false
  | .update _ id _ _ _ => ∀ e, s.get id = some e → e.isSystem = false
  | .delete _ id => ∀ e, s.get id = some e → e.isSystem = false
  | .read _ => True

/-- **ordinary entities are unaffected by the constraint**: on them every operation behaves the
    same from an ordinary and from a system context (same error, same resulting state) -/
theorem ordinary_unaffected (s : St K N T) (op : Op K N T) (h : Ordinary s op) (c1 c2 : Bool) :
    step s (withCtx c1 op) = step s (withCtx c2 op) := by
  cases op with
  | create sys id blank v =>
    simp only [Ordinary] at h
    simp only [withCtx]
    cases blank with
    | true => rw [step_create_blank, step_create_blank]
    | false =>
      cases hg : s.get id with
      | some e => rw [step_create_exists hg, step_create_exists hg]
      | none => rw [step_create_new hg, step_create_new hg, h]; simp
  | update sys id v sn st =>
    simp only [withCtx]
    cases hg : s.get id with
    | none => rw [step_update_missing hg, step_update_missing hg]
    | some e =>
      have := h e hg
      rw [step_update_found hg, step_update_found hg, this]; simp
  | delete sys id =>
    simp only [withCtx]
    cases hg : s.get id with
    | none => rw [step_delete_missing hg, step_delete_missing hg]
    | some e =>
      have := h e hg
      rw [step_delete_found hg, step_delete_found hg, this]; simp
  | read id => rfl

/-! ## the model refines the specification, for every history -/

/-- a `Create` the spec refuses because of the flag (and for no other reason) -/
def refusedCreate (s : SSt K N T) : Op K N T → Bool
  | .create sys id blank v => !blank && (s.get id).isNone && v.flag && !sys
  | _ => false

/-- the spec's reading of a transaction body: a failing operation changes nothing; in keep-going
    mode the caller carries on unless a create was refused -/
def srunOps (k : Bool) : SSt K N T → List (Op K N T) → SSt K N T × Bool
  | s, [] => (s, false)
  | s, op :: ops =>
    match sstep s op with
    | some s' => srunOps k s' ops
    | none => if k && !refusedCreate s op then srunOps k s ops else (s, true)

def scommitTx (s : SSt K N T) (tx : Bool × List (Op K N T)) : SSt K N T :=
  let r := srunOps tx.1 s tx.2
  if r.2 then s else r.1

def srunHist (s : SSt K N T) (txs : List (Bool × List (Op K N T))) : SSt K N T := txs.foldl scommitTx s

theorem err_sysCreate_iff (s : St K N T) (op : Op K N T) :
    (step s op).err = some .sysCreate ↔ refusedCreate (abs s) op = true := by
  cases op with
  | create sys id blank v =>
    cases blank with
    | true => rw [step_create_blank]; simp [refusedCreate]
    | false =>
      cases hg : s.get id with
      | some e => rw [step_create_exists hg]; simp [refusedCreate, get_abs, hg]
      | none =>
        rw [step_create_new hg]
        cases hc : (v.flag && !sys) with
        | true =>
          simp only [if_true, true_iff, refusedCreate, get_abs, hg]
          simp only [Bool.and_eq_true] at hc ⊢
          simp [hc.1, hc.2]
        | false =>
          simp only [Bool.false_eq_true, if_false, refusedCreate, get_abs, hg]
          cases hf : v.flag <;> cases sys <;> simp_all
  | update sys id v sn st =>
    cases hg : s.get id with
    | none => rw [step_update_missing hg]; simp [refusedCreate]
    | some e =>
      rw [step_update_found hg]
      cases hc : (e.isSystem && !sys) <;> simp [refusedCreate]
  | delete sys id =>
    cases hg : s.get id with
    | none => rw [step_delete_missing hg]; simp [refusedCreate]
    | some e =>
      rw [step_delete_found hg]
      cases hc : (e.isSystem && !sys) <;> simp [refusedCreate]
  | read id => simp [step, refusedCreate]

theorem runOps_refines (k : Bool) (s : St K N T) (ops : List (Op K N T)) :
    (runOps k s ops).2 = (srunOps k (abs s) ops).2 ∧
    ((runOps k s ops).2 = false → abs (runOps k s ops).1 = (srunOps k (abs s) ops).1) := by
  induction ops generalizing s with
  | nil => exact ⟨rfl, fun _ => rfl⟩
  | cons op ops ih =>
    have href := step_refines s op
    cases he : (step s op).err with
    | none =>
      rw [he] at href; simp only at href
      rw [runOps_cons_ok he]
      simp only [srunOps, href]
      exact ih _
    | some e =>
      rw [he] at href; simp only at href
      rw [runOps_cons_err he]
      simp only [srunOps, href]
      have hiff := err_sysCreate_iff s op
      rw [he] at hiff
      by_cases hc : e = .sysCreate
      · subst hc
        have : refusedCreate (abs s) op = true := hiff.mp rfl
        simp [this]
      · have hn : refusedCreate (abs s) op = false := by
          cases hr : refusedCreate (abs s) op with
          | false => rfl
          | true => exact absurd (Option.some.inj (hiff.mpr hr)) hc
        have hst := step_err_state he hc
        rw [hn, hst]
        cases k with
        | false => simp
        | true => simp [hc]; exact ih s

theorem commitTx_refines (s : St K N T) (tx : Bool × List (Op K N T)) :
    abs (commitTx s tx) = scommitTx (abs s) tx := by
  obtain ⟨h1, h2⟩ := runOps_refines tx.1 s tx.2
  unfold commitTx scommitTx
  simp only [← h1]
  cases hf : (runOps tx.1 s tx.2).2 with
  | true => simp
  | false => simp only [Bool.false_eq_true, if_false]; exact h2 hf

/-- **for every history the committed state of the model is the state the specification
    prescribes** (entities, their system flag, their names) -/
theorem model_refines_spec (h : List (Bool × List (Op K N T))) :
    abs (runHist ([] : St K N T) h) = srunHist ([] : SSt K N T) h := by
  have : ∀ (s : St K N T), abs (runHist s h) = srunHist (abs s) h := by
    induction h with
    | nil => intro s; rfl
    | cons tx txs ih =>
      intro s
      unfold runHist srunHist
      simp only [List.foldl_cons]
      have := ih (commitTx s tx)
      unfold runHist srunHist at this
      rw [this, commitTx_refines]
  exact this []

end

/-! ## non-vacuity (ids, names, timestamps = Nat) -/

def vals (flag migrate : Bool) (name : Nat) : Vals Nat Nat :=
  { flag := flag, migrate := migrate, cAt := 1000, uAt := 2000, tags := some name, name := name }

/-- system ctx creates system entity 1 (migrated: carries its own timestamps) and ordinary entity 2;
    an ordinary transaction tries to update 1 with a flipped flag (ignored error, committed),
    updates 2 carrying IsSystem = true AND Migrate = true, tries to delete 1; a system transaction
    renames 1 -/
def demoHist : List (Bool × List (Op Nat Nat Nat)) :=
  [(false, [.create true 1 false (vals true true 10), .create false 2 false (vals false false 20)]),
   (true, [.update false 1 (vals false false 11) true true, .update false 2 (vals true true 21) true false,
           .delete false 1]),
   (false, [.update true 1 (vals false true 12) true true])]

example : (runHist [] demoHist).get 1 =
    some { flag := some true, name := 12, tags := some 12, created := .given 1000, updated := .now } := by decide
example : (runHist [] demoHist).get 2 =
    some { flag := none, name := 21, tags := some 20, created := .now, updated := .now } := by decide
example : (runHistG ([], []) demoHist).2.get 1 = some true ∧ (runHistG ([], []) demoHist).2.get 2 = some false := by decide
example : (step (runHist [] demoHist) (.delete false 1)).err = some .sysDelete := by decide
example : (step (runHist [] demoHist) (.create false 3 false (vals true false 30))).err = some .sysCreate := by decide
example : Ordinary (runHist [] demoHist) (.update false 2 (vals true true 5) true true) := by
  intro e he
  have : (runHist [] demoHist).get 2 =
      some { flag := none, name := 21, tags := some 20, created := .now, updated := .now } := by decide
  rw [this] at he; cases he; rfl

end StorageModel.Properties.C16

#print axioms StorageModel.Properties.C16.system_needs_system_ctx
#print axioms StorageModel.Properties.C16.system_needs_system_ctx_tx
#print axioms StorageModel.Properties.C16.system_ctx_allowed
#print axioms StorageModel.Properties.C16.flag_immutable
#print axioms StorageModel.Properties.C16.update_never_changes_flag
#print axioms StorageModel.Properties.C16.ordinary_unaffected
#print axioms StorageModel.Properties.C16.model_refines_spec
