import StorageModel.C16.Lemmas
/-
  C16 — System entities can only be changed from a system context.

  "An entity created with the system flag can be created, updated and deleted only through a
  system mutate context; the same attempts from an ordinary context fail and leave the entity
  unchanged.  The flag is fixed at creation - no update from any context turns an ordinary entity
  into a system entity or back - and ordinary entities are unaffected by the constraint."

  The theorems are about the executable model in StorageModel/C16/Model.lean (checkOperation on the
  STORED flag; ProcessBeforeUpdate for updates — the error lands in the bucket before PersistEntity
  runs —, ProcessAfterUpdate for creates — the entity is already written when the check fails —,
  ProcessBeforeDelete; CreateBaseValues writes the flag, UpdateBaseValues never does).  A history is
  a list of `Db.Update` bodies, each with a mode: the body aborts at the first error, or the caller
  ignores errors (except a refused create) and commits anyway.
-/
namespace StorageModel.Properties.C16
open StorageModel StorageModel.C16

section
variable {K N : Type} [DecidableEq K]

/-! ## refusal from an ordinary context -/

/-- **create / update / delete of a system entity from an ordinary context fail**; the refused
    update and delete do not even touch the uncommitted state. -/
theorem system_needs_system_ctx (s : St K N) (id : K) :
    -- create with the system flag (id fresh, not blank)
    (∀ name, s.get id = none → (step s (.create false id false true name)).err = some .sysCreate) ∧
    -- update of an entity whose STORED flag is set, whatever the update carries
    (∀ e flag name sn, s.get id = some e → e.isSystem = true →
        step s (.update false id flag name sn) = { st := s, err := some .sysUpdate }) ∧
    -- delete
    (∀ e, s.get id = some e → e.isSystem = true →
        step s (.delete false id) = { st := s, err := some .sysDelete }) := by
  refine ⟨?_, ?_, ?_⟩
  · intro name hg; rw [step_create_new hg]; simp
  · intro e flag name sn hg hs; rw [step_update_found hg, hs]; simp
  · intro e hg hs; rw [step_delete_found hg, hs]; simp

/-- … **and leave the entity unchanged**: a transaction in which such an attempt is reached
    commits nothing if its body aborts on errors; if the caller ignores the error of a refused
    update or delete and commits anyway, that operation has changed nothing (previous theorem);
    a refused create aborts the body in either mode. -/
theorem refused_tx_unchanged (s : St K N) (k : Bool) (ops : List (Op K N)) (h : (runOps k s ops).2 = true) :
    commitTx s (k, ops) = s := commitTx_failed h

theorem refused_aborts (k : Bool) (s : St K N) (op : Op K N) (rest : List (Op K N)) (e : Err)
    (he : (step s op).err = some e) (hk : k = false ∨ e = .sysCreate) :
    (runOps k s (op :: rest)).2 = true := by
  rw [runOps_cons_err he]
  rcases hk with rfl | rfl <;> simp

/-- runs compose: a failure anywhere in an aborting body fails the body -/
theorem runOps_append_failed (k : Bool) (s : St K N) (pre post : List (Op K N))
    (h : (runOps k (runOps k s pre).1 post).2 = true) (hpre : (runOps k s pre).2 = false) :
    (runOps k s (pre ++ post)).2 = true := by
  induction pre generalizing s with
  | nil => simpa [runOps] using h
  | cons op pre ih =>
    cases he : (step s op).err with
    | none =>
      rw [List.cons_append, runOps_cons_ok he]
      rw [runOps_cons_ok he] at h hpre
      exact ih _ h hpre
    | some e =>
      rw [List.cons_append, runOps_cons_err he]
      rw [runOps_cons_err he] at h hpre
      split
      · next hk => rw [if_pos hk] at h hpre; exact ih _ h hpre
      · rfl

/-- the full statement at the level of a transaction: wherever in the body the refused attempt on
    a system entity sits, an aborting transaction commits nothing -/
theorem system_needs_system_ctx_tx (s : St K N) (pre rest : List (Op K N)) (op : Op K N) (e : Err)
    (hpre : (runOps false s pre).2 = false)
    (he : (step (runOps false s pre).1 op).err = some e) :
    commitTx s (false, pre ++ op :: rest) = s := by
  apply commitTx_failed
  apply runOps_append_failed _ _ _ _ _ hpre
  exact refused_aborts false _ op rest e he (Or.inl rfl)

/-! ## a system context may do everything -/

/-- **from a system context create, update and delete of a system entity succeed** and do what
    they say -/
theorem system_ctx_allowed (s : St K N) (id : K) :
    (∀ flag name, s.get id = none →
        (step s (.create true id false flag name)).err = none ∧
        ((step s (.create true id false flag name)).st.get id).map Ent.isSystem = some flag ∧
        ((step s (.create true id false flag name)).st.get id).map Ent.name = some name) ∧
    (∀ e flag name, s.get id = some e →
        (step s (.update true id flag name true)).err = none ∧
        (step s (.update true id flag name true)).st.get id = some { e with name := name }) ∧
    (∀ e, s.get id = some e →
        (step s (.delete true id)).err = none ∧ (step s (.delete true id)).st.get id = none) := by
  refine ⟨?_, ?_, ?_⟩
  · intro flag name hg
    rw [step_create_new hg]
    simp only [Bool.not_true, Bool.and_false, Bool.false_eq_true, if_false, Map.get_put, if_true, Option.map_some,
      newEnt_isSystem, true_and]
    rfl
  · intro e flag name hg
    rw [step_update_found hg]
    simp [Map.get_put]
  · intro e hg
    rw [step_delete_found hg]
    simp [Map.get_del]

/-! ## the flag is fixed at creation -/

/-- **For every history** — any mix of contexts, several operations per transaction, updates
    carrying a flipped flag with any field checker, failing and ignored operations — every entity
    that exists at the end reads back exactly the IsSystem flag its creating `Create` call carried
    (`runHistG` runs the same history while recording, for each existing entity, the flag of the
    call that created it; `runHistG_fst` shows it computes the same states). -/
theorem flag_immutable (h : List (Bool × List (Op K N))) (id : K) :
    ((runHist ([] : St K N) h).get id).map Ent.isSystem = (runHistG (([] : St K N), ([] : Map K Bool)) h).2.get id := by
  have := runHistG_flagInv (flagInv_nil (K := K) (N := N)) h id
  rw [runHistG_fst] at this
  exact this

/-- the single step behind it: no update, from any context, with any flag, changes the stored flag
    of any entity -/
theorem update_never_changes_flag (s : St K N) (sys : Bool) (id : K) (flag : Bool) (name : N) (sn : Bool) (x : K) :
    ((step s (.update sys id flag name sn)).st.get x).map Ent.flag = (s.get x).map Ent.flag := by
  cases hg : s.get id with
  | none => rw [step_update_missing hg]
  | some e =>
    rw [step_update_found hg]
    cases hc : (e.isSystem && !sys) with
    | true => simp
    | false =>
      cases sn with
      | false => simp
      | true =>
        simp only [Bool.false_eq_true, if_false, if_true]
        rw [Map.get_put]
        by_cases hx : id = x
        · subst hx; simp [hg]
        · simp [hx]

/-! ## ordinary entities are unaffected -/

/-- the same operation issued from the other kind of context -/
def withCtx (sys : Bool) : Op K N → Op K N
  | .create _ id blank flag name => .create sys id blank flag name
  | .update _ id flag name sn => .update sys id flag name sn
  | .delete _ id => .delete sys id
  | .read id => .read id

/-- the operation concerns an ordinary entity: it does not create with the flag set and the
    entity it addresses (if any) is stored without the flag -/
def Ordinary (s : St K N) : Op K N → Prop
  | .create _ _ _ flag _ => flag = false
  | .update _ id _ _ _ => ∀ e, s.get id = some e → e.isSystem = false
  | .delete _ id => ∀ e, s.get id = some e → e.isSystem = false
  | .read _ => True

/-- **ordinary entities are unaffected by the constraint**: on them every operation behaves the
    same from an ordinary and from a system context (same error, same resulting state) -/
theorem ordinary_unaffected (s : St K N) (op : Op K N) (h : Ordinary s op) (c1 c2 : Bool) :
    step s (withCtx c1 op) = step s (withCtx c2 op) := by
  cases op with
  | create sys id blank flag name =>
    simp only [Ordinary] at h; subst h
    simp only [withCtx]
    cases blank with
    | true => rw [step_create_blank, step_create_blank]
    | false =>
      cases hg : s.get id with
      | some e => rw [step_create_exists hg, step_create_exists hg]
      | none => rw [step_create_new hg, step_create_new hg]; simp
  | update sys id flag name sn =>
    simp only [withCtx]
    cases hg : s.get id with
    | none => rw [step_update_missing hg, step_update_missing hg]
    | some e =>
      have := h e hg
      rw [step_update_found hg, step_update_found hg, this]; simp
  | delete sys id =>
    simp only [withCtx]
    cases hg : s.get id with
    | none => rw [step_delete_missing hg, step_delete_missing hg]
    | some e =>
      have := h e hg
      rw [step_delete_found hg, step_delete_found hg, this]; simp
  | read id => rfl

/-! ## the model refines the specification, for every history -/

/-- a `Create` the spec refuses because of the flag (and for no other reason) -/
def refusedCreate (s : SSt K N) : Op K N → Bool
  | .create sys id blank flag _ => !blank && (s.get id).isNone && flag && !sys
  | _ => false

/-- the spec's reading of a transaction body: a failing operation changes nothing; in keep-going
    mode the caller carries on unless a create was refused -/
def srunOps (k : Bool) : SSt K N → List (Op K N) → SSt K N × Bool
  | s, [] => (s, false)
  | s, op :: ops =>
    match sstep s op with
    | some s' => srunOps k s' ops
    | none => if k && !refusedCreate s op then srunOps k s ops else (s, true)

def scommitTx (s : SSt K N) (tx : Bool × List (Op K N)) : SSt K N :=
  let r := srunOps tx.1 s tx.2
  if r.2 then s else r.1

def srunHist (s : SSt K N) (txs : List (Bool × List (Op K N))) : SSt K N := txs.foldl scommitTx s

theorem err_sysCreate_iff (s : St K N) (op : Op K N) :
    (step s op).err = some .sysCreate ↔ refusedCreate (abs s) op = true := by
  cases op with
  | create sys id blank flag name =>
    cases blank with
    | true => rw [step_create_blank]; simp [refusedCreate]
    | false =>
      cases hg : s.get id with
      | some e => rw [step_create_exists hg]; simp [refusedCreate, get_abs, hg]
      | none =>
        rw [step_create_new hg]
        cases hc : (flag && !sys) with
        | true =>
          simp only [if_true, true_iff, refusedCreate, get_abs, hg]
          simp only [Bool.and_eq_true] at hc ⊢
          simp [hc.1, hc.2]
        | false =>
          simp only [Bool.false_eq_true, if_false, refusedCreate, get_abs, hg]
          cases flag <;> cases sys <;> simp_all
  | update sys id flag name sn =>
    cases hg : s.get id with
    | none => rw [step_update_missing hg]; simp [refusedCreate]
    | some e =>
      rw [step_update_found hg]
      cases hc : (e.isSystem && !sys) <;> simp [refusedCreate]
  | delete sys id =>
    cases hg : s.get id with
    | none => rw [step_delete_missing hg]; simp [refusedCreate]
    | some e =>
      rw [step_delete_found hg]
      cases hc : (e.isSystem && !sys) <;> simp [refusedCreate]
  | read id => simp [step, refusedCreate]

theorem runOps_refines (k : Bool) (s : St K N) (ops : List (Op K N)) :
    (runOps k s ops).2 = (srunOps k (abs s) ops).2 ∧
    ((runOps k s ops).2 = false → abs (runOps k s ops).1 = (srunOps k (abs s) ops).1) := by
  induction ops generalizing s with
  | nil => exact ⟨rfl, fun _ => rfl⟩
  | cons op ops ih =>
    have href := step_refines s op
    cases he : (step s op).err with
    | none =>
      rw [he] at href; simp only at href
      rw [runOps_cons_ok he]
      simp only [srunOps, href]
      exact ih _
    | some e =>
      rw [he] at href; simp only at href
      rw [runOps_cons_err he]
      simp only [srunOps, href]
      have hiff := err_sysCreate_iff s op
      rw [he] at hiff
      by_cases hc : e = .sysCreate
      · subst hc
        have : refusedCreate (abs s) op = true := hiff.mp rfl
        simp [this]
      · have hn : refusedCreate (abs s) op = false := by
          cases hr : refusedCreate (abs s) op with
          | false => rfl
          | true => exact absurd (Option.some.inj (hiff.mpr hr)) hc
        have hst := step_err_state he hc
        rw [hn, hst]
        cases k with
        | false => simp
        | true => simp [hc]; exact ih s

theorem commitTx_refines (s : St K N) (tx : Bool × List (Op K N)) :
    abs (commitTx s tx) = scommitTx (abs s) tx := by
  obtain ⟨h1, h2⟩ := runOps_refines tx.1 s tx.2
  unfold commitTx scommitTx
  simp only [← h1]
  cases hf : (runOps tx.1 s tx.2).2 with
  | true => simp
  | false => simp only [Bool.false_eq_true, if_false]; exact h2 hf

/-- **for every history the committed state of the model is the state the specification
    prescribes** (entities, their system flag, their names) -/
theorem model_refines_spec (h : List (Bool × List (Op K N))) :
    abs (runHist ([] : St K N) h) = srunHist ([] : SSt K N) h := by
  have : ∀ (s : St K N), abs (runHist s h) = srunHist (abs s) h := by
    induction h with
    | nil => intro s; rfl
    | cons tx txs ih =>
      intro s
      unfold runHist srunHist
      simp only [List.foldl_cons]
      have := ih (commitTx s tx)
      unfold runHist srunHist at this
      rw [this, commitTx_refines]
  exact this []

end

/-! ## non-vacuity (ids and names = Nat) -/

/-- system ctx creates system entity 1 and ordinary entity 2; an ordinary transaction tries to
    update 1 with a flipped flag (ignored error, committed), updates 2 carrying IsSystem = true,
    tries to delete 1; a system transaction renames 1 -/
def demoHist : List (Bool × List (Op Nat Nat)) :=
  [(false, [.create true 1 false true 10, .create false 2 false false 20]),
   (true, [.update false 1 false 11 true, .update false 2 true 21 true, .delete false 1]),
   (false, [.update true 1 false 12 true])]

example : (runHist [] demoHist).get 1 = some { flag := some true, name := 12 } := by decide
example : (runHist [] demoHist).get 2 = some { flag := none, name := 21 } := by decide
example : (runHistG ([], []) demoHist).2.get 1 = some true ∧ (runHistG ([], []) demoHist).2.get 2 = some false := by decide
example : (step (runHist [] demoHist) (.delete false 1)).err = some .sysDelete := by decide
example : (step (runHist [] demoHist) (.create false 3 false true 30)).err = some .sysCreate := by decide
example : Ordinary (runHist [] demoHist) (.update false 2 true 5 true) := by
  intro e he
  have : (runHist [] demoHist).get 2 = some { flag := none, name := 21 } := by decide
  rw [this] at he; cases he; rfl

end StorageModel.Properties.C16

#print axioms StorageModel.Properties.C16.system_needs_system_ctx
#print axioms StorageModel.Properties.C16.system_needs_system_ctx_tx
#print axioms StorageModel.Properties.C16.system_ctx_allowed
#print axioms StorageModel.Properties.C16.flag_immutable
#print axioms StorageModel.Properties.C16.ordinary_unaffected
#print axioms StorageModel.Properties.C16.model_refines_spec
