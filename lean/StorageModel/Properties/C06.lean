import StorageModel.C06.Recreate
/-
  C06 — A committed delete leaves no trace of the entity's id.

  "After an entity is deleted and the transaction commits, its id no longer occurs anywhere in
  the database: not as an entity, not as child-store data, and not in any unique, set or
  foreign-key index, link set or back-reference list of any other entity.  The id can afterwards
  be created again and behaves as if it had never existed."

  Model: StorageModel/C06/Model.lean — store A (unique, nullable unique, set index, nullable fk
  index, link collection), its plain child store A1 (own unique index) and store B (nullable
  unique index, back-references, link collection); `Render` is the bucket dump that is diffed
  against `boltz.Traverse` after every transaction.
-/
namespace StorageModel.Properties.C06
open StorageModel StorageModel.C06
open StorageModel.C03 (Map Id Err setOf Line)

theorem inv_init : C06.Inv State.empty := inv_empty

/-- every operation kind (accepted or rejected, in its own transaction) preserves the invariant —
    including `A1.Create` over an existing plain parent (re-indexed since fix 8269ce9) -/
theorem inv_step {s : State} (op : Op) (h : C06.Inv s) : C06.Inv (step s op).1 := inv_txStep [op] h

theorem inv_tx {s : State} (ops : List Op) (h : C06.Inv s) : C06.Inv (txStep s ops).1 := inv_txStep ops h

/-- all finite histories of transactions -/
theorem inv_reachable (txs : List (List Op)) : C06.Inv (run txs) := inv_foldTxs txs inv_init

/-- **No trace, store A** (also when the delete goes through the child store): after a committed
    delete no line of the bucket dump mentions the id — as path element, key or value, plain or
    typed. -/
theorem delete_no_trace {s s' : State} {id : Id} (hi : C06.Inv s) (h : step s (.deleteA id) = (s', .ok))
    (hc : NoClash id s') (hb : s'.b.lookup id = none) :
    ∀ line, line ∈ Render s' → ¬ Mentions id line := by
  have hraw : deleteA s id = .ok s' := by
    simp only [step, txStep, applyOps, stepRaw] at h
    cases hd : deleteA s id with
    | error e => simp [hd] at h
    | ok t => simp only [hd] at h; cases h; rfl
  exact no_trace_of_absent (inv_deleteA hi hraw) hc (deleteA_absent hi hraw).1 hb

/-- **No trace, store B.** -/
theorem delete_no_trace_owner {s s' : State} {id : Id} (hi : C06.Inv s) (h : step s (.deleteB id) = (s', .ok))
    (hc : NoClash id s') (ha : s'.a.lookup id = none) :
    ∀ line, line ∈ Render s' → ¬ Mentions id line := by
  have hraw : deleteB s id = .ok s' := by
    simp only [step, txStep, applyOps, stepRaw] at h
    cases hd : deleteB s id with
    | error e => simp [hd] at h
    | ok t => simp only [hd] at h; cases h; rfl
  exact no_trace_of_absent (inv_deleteB hi hraw) hc ha (deleteB_absent hi hraw).1

/-- the same for a delete anywhere inside a committed transaction, provided the id is not
    re-created later in it: in *every* consistent state an id that is no entity occurs nowhere -/
theorem absent_no_trace {s : State} {id : Id} (hi : C06.Inv s) (hc : NoClash id s)
    (ha : s.a.lookup id = none) (hb : s.b.lookup id = none) :
    ∀ line, line ∈ Render s → ¬ Mentions id line :=
  no_trace_of_absent hi hc ha hb

/-- after the delete the id is gone from every index, back-reference and link map of the model -/
theorem delete_forgets {s s' : State} {id : Id} (hi : C06.Inv s) (h : stepRaw s (.deleteA id) = .ok s')
    (hb : s.b.lookup id = none) :
    (∀ v, s'.uName.lookup v ≠ some id) ∧ (∀ v, s'.uAlias.lookup v ≠ some id) ∧ (∀ v, s'.uCode.lookup v ≠ some id) ∧
    (∀ v, s'.uLabel.lookup v ≠ some id) ∧ (∀ v, id ∉ (s'.sRoles.lookup v).getD []) ∧
    (∀ b, id ∉ (s'.thg.lookup b).getD []) ∧ (∀ b, id ∉ (s'.mem.lookup b).getD []) ∧
    (∀ j, id ∉ (s'.grp.lookup j).getD []) ∧
    s'.grp.lookup id = none ∧ s'.mem.lookup id = none ∧ s'.thg.lookup id = none := by
  have h' : deleteA s id = .ok s' := h
  obtain ⟨h1, h2⟩ := deleteA_absent hi h'
  exact absent_everywhere (inv_deleteA hi h') h1 (by rw [h2]; exact hb)

/-- **Re-creation.**  Creating the id again after the delete yields a consistent state in which
    the entity is exactly what was written and every index / back-reference entry for the id is
    determined by the *new* values alone. -/
theorem recreate_fresh {s s' s'' : State} {id : Id} {v : ValsA} (hi : C06.Inv s)
    (hd : stepRaw s (.deleteA id) = .ok s') (hc : stepRaw s' (.createA id v) = .ok s'') :
    C06.Inv s'' ∧
    s''.a.lookup id = some ⟨v.name, v.alias, setOf v.roles, v.owner, none⟩ ∧
    (∀ w, s''.uName.lookup w = some id ↔ w = v.name) ∧
    (∀ w, s''.uAlias.lookup w = some id ↔ (w ≠ [] ∧ w = v.alias.getD [])) ∧
    (∀ w, s''.uCode.lookup w ≠ some id) ∧
    (∀ w, id ∈ (s''.sRoles.lookup w).getD [] ↔ w ∈ setOf v.roles) ∧
    (∀ b, id ∈ (s''.thg.lookup b).getD [] ↔ (b ≠ [] ∧ v.owner.getD [] = b)) := by
  have hd' : deleteA s id = .ok s' := hd
  have hc' : createA s' id v = .ok s'' := hc
  have hi' := inv_deleteA hi hd'
  have hi'' := inv_createA hi' hc'
  have hent : s''.a.lookup id = some ⟨v.name, v.alias, setOf v.roles, v.owner, none⟩ := by
    rw [(createA_entity hi' hc').1]; simp
  refine ⟨hi'', hent, ?_, ?_, ?_, ?_, ?_⟩
  · intro w
    constructor
    · intro h; obtain ⟨_, e, he, rfl⟩ := (hi''.uName w id).1 h; rw [hent] at he; cases he; rfl
    · rintro rfl; exact (hi''.uName _ id).2 ⟨hi''.namesNonEmpty id _ hent, _, hent, rfl⟩
  · intro w
    constructor
    · intro h; obtain ⟨hne, e, he, rfl⟩ := (hi''.uAlias w id).1 h; rw [hent] at he; cases he; exact ⟨hne, rfl⟩
    · rintro ⟨hne, rfl⟩; exact (hi''.uAlias _ id).2 ⟨hne, _, hent, rfl⟩
  · intro w h; obtain ⟨hne, e, he, hw⟩ := (hi''.uCode w id).1 h; rw [hent] at he; cases he; exact hne hw.symm
  · intro w
    constructor
    · intro h; obtain ⟨e, he, hw⟩ := (hi''.sRoles w id).1 h; rw [hent] at he; cases he; exact hw
    · intro hw; exact (hi''.sRoles w id).2 ⟨_, hent, hw⟩
  · intro b
    constructor
    · intro h; obtain ⟨hne, e, he, hw⟩ := (hi''.br b id).1 h; rw [hent] at he; cases he; exact ⟨hne, hw⟩
    · rintro ⟨hne, hw⟩; exact (hi''.br b id).2 ⟨hne, _, hent, hw⟩


/-- **Re-creation, acceptance.**  Whether the re-creation is accepted is decided by the other
    entities alone (`AcceptableA`: name non-empty and not held by another entity, alias likewise,
    no empty role, groups and owner exist) … -/
theorem recreate_accepted_iff {s s' : State} {id : Id} (v : ValsA) (hi : C06.Inv s)
    (hd : stepRaw s (.deleteA id) = .ok s') :
    (∃ s'', stepRaw s' (.createA id v) = .ok s'') ↔ AcceptableA s' id v := by
  have hd' : deleteA s id = .ok s' := hd
  exact createA_accepts_iff (inv_deleteA hi hd') (deleteA_stages hi hd').1 (deleteA_absent hi hd').1

/-- … hence exactly as in *any* consistent state with the same entity tables in which the id is
    absent — for instance one reached by a history that never used the id: "as if it had never
    existed". -/
theorem recreate_as_if_never_existed {s s' t : State} {id : Id} (v : ValsA) (hi : C06.Inv s)
    (hd : stepRaw s (.deleteA id) = .ok s') (ht : C06.Inv t)
    (ha : ∀ j, t.a.lookup j = s'.a.lookup j) (hb : ∀ j, t.b.lookup j = s'.b.lookup j) :
    (∃ s'', stepRaw s' (.createA id v) = .ok s'') ↔ (∃ t'', stepRaw t (.createA id v) = .ok t'') := by
  have hd' : deleteA s id = .ok s' := hd
  have hid := (deleteA_stages hi hd').1
  have hna := (deleteA_absent hi hd').1
  rw [recreate_accepted_iff v hi hd]
  have : (∃ t'', createA t id v = .ok t'') ↔ AcceptableA t id v :=
    createA_accepts_iff ht hid (by rw [ha]; exact hna)
  exact ((acceptableA_congr ha hb).symm.trans this.symm)

/-! ### `A1.Create` over an existing plain parent (DESIGN §7 #17, repaired in /repo by 8269ce9)

  Before the repair the parent's old unique / set / fk entries stayed behind and survived the
  delete of the id.  The model follows the repaired code: the old entries are replaced, and the
  scenario that used to leave three traces leaves none. -/

def exOwner : Op := .createB [112] none
def exPlain : Op := .createA [97] ⟨[120], none, [[109]], some [112], [[112]]⟩
def exChildOver : Op := .createA1 [97] ⟨[121], none, [[110]], none, []⟩ [122]
def exDelete : Op := .deleteA [97]

def exTrace : State := run [[exOwner], [exPlain], [exChildOver], [exDelete]]

/-- after the child-store create the parent's indexes hold the new values only … -/
theorem child_create_over_parent_reindexes :
    let s := run [[exOwner], [exPlain], [exChildOver]]
    s.uName.lookup [120] = none ∧ s.uName.lookup [121] = some [97] ∧ s.sRoles.lookup [109] = none ∧
    s.sRoles.lookup [110] = some [[97]] ∧ s.thg.lookup [112] = some [] ∧ s.uCode.lookup [122] = some [97] := by
  decide

/-- … and after the delete nothing mentions the id -/
theorem child_create_over_parent_no_trace :
    exTrace.a.lookup [97] = none ∧ (Render exTrace).filter (fun l => decide (Mentions [97] l)) = [] := by
  decide

/-! ### non-vacuity -/

def exState : State := run [[exOwner], [exPlain], [.createA1 [98] ⟨[121], some [120], [[109]], some [112], [[112]]⟩ [122]]]

example : (step exState (.deleteA [98])).2 = .ok := by decide
/-- `NoClash` holds in the harness universe (ids a, b / p; values x, y, z, m): the hypotheses of
    `delete_no_trace` are satisfiable -/
example : NoClash [98] (step exState (.deleteA [98])).1 := noClash_of_check (by decide)
example : (step exState (.deleteA [98])).1.b.lookup [98] = none := by decide
example : ((Render (step exState (.deleteA [98])).1).any fun l => decide (Mentions [98] l)) = false := by decide
example : ((Render exState).any fun l => decide (Mentions [98] l)) = true := by decide

end StorageModel.Properties.C06

#print axioms StorageModel.Properties.C06.inv_reachable
#print axioms StorageModel.Properties.C06.delete_no_trace
#print axioms StorageModel.Properties.C06.recreate_fresh
#print axioms StorageModel.Properties.C06.child_create_over_parent_no_trace
