import StorageModel.C06.Fuel
import StorageModel.C06.Depth
/-
  C06 — A committed delete leaves no trace of the entity's id.

  "After an entity is deleted and the transaction commits, its id no longer occurs anywhere in
  the database: not as an entity, not as child-store data, and not in any unique, set or
  foreign-key index, link set or back-reference list of any other entity.  The id can afterwards
  be created again and behaves as if it had never existed."

  Model: StorageModel/C06/Model.lean — store A (unique, nullable unique, set index, nullable fk
  index with back-references, nullable fk constraint → B with cascade delete, nullable fk constraint
  → A itself (`boss`) with cascade delete over transitive referrers and cycles, nullable fk constraint
  → A itself (`chief`) with RESTRICT (`CascadeNone`), link collection,
  ref-counted link collection), its plain child store A1 (own unique index, a link collection
  declared on the child store), its EXTENDED child store A2 (own nullable unique index; creates,
  updates and deletes through it) and store B (nullable unique index, fk delete restriction, the
  other sides of all links); `Render` is the bucket dump that is diffed against
  `boltz.Traverse` after every transaction.
-/
namespace StorageModel.Properties.C06
open StorageModel StorageModel.C06
open StorageModel.C03 (Map Id Err setOf Line)

theorem inv_init : C06.Inv State.empty := inv_empty

/-- every operation kind (accepted or rejected, in its own transaction) preserves the invariant:
    creates through either store (also over an existing plain parent), updates, patches, deletes
    through either store, cascading deletes of owners, ref-count increments / decrements / sets -/
theorem inv_step {s : State} (op : Op) (h : C06.Inv s) : C06.Inv (step s op).1 := inv_txStep [op] h

theorem inv_tx {s : State} (ops : List Op) (h : C06.Inv s) : C06.Inv (txStep s ops).1 := inv_txStep ops h

/-- all finite histories of transactions -/
theorem inv_reachable (txs : List (List Op)) : C06.Inv (run txs) := inv_foldTxs txs inv_init

/-- **No trace.**  In every consistent state — in particular after any committed transaction — an
    id that is an entity of neither store is mentioned by no line of the bucket dump: not as a path
    element, key or value, plain or typed.  This covers ids deleted directly, through the child
    store, and by a cascade. -/
theorem absent_no_trace {nm : Names} {s : State} {id : Id} (hi : C06.Inv s) (hc : NoClash nm id s)
    (ha : s.a.lookup id = none) (hb : s.b.lookup id = none) :
    ∀ line, line ∈ Render nm s → ¬ Mentions id line :=
  no_trace_of_absent hi hc ha hb

theorem stepRaw_of_step_ok {s s' : State} {op : Op} (h : step s op = (s', .ok)) : stepRaw s op = .ok s' := by
  simp only [step, txStep, applyOps] at h
  cases hd : stepRaw s op with
  | error e => simp [hd] at h
  | ok t => simp only [hd] at h; cases h; rfl

/-- **No trace, store A** (also when the delete goes through the child store) -/
theorem delete_no_trace {nm : Names} {s s' : State} {id : Id} (hi : C06.Inv s) (h : step s (.deleteA id) = (s', .ok))
    (hc : NoClash nm id s') (hb : s'.b.lookup id = none) :
    ∀ line, line ∈ Render nm s' → ¬ Mentions id line := by
  have hraw : deleteATop s id = .ok s' := stepRaw_of_step_ok h
  exact no_trace_of_absent (inv_deleteA hi hraw) hc (deleteA_absent hi hraw).1 hb

/-- **No trace, store B** -/
theorem delete_no_trace_owner {nm : Names} {s s' : State} {id : Id} (hi : C06.Inv s) (h : step s (.deleteB id) = (s', .ok))
    (hc : NoClash nm id s') (ha : s'.a.lookup id = none) :
    ∀ line, line ∈ Render nm s' → ¬ Mentions id line := by
  have hraw : deleteB s id = .ok s' := stepRaw_of_step_ok h
  exact no_trace_of_absent (inv_deleteB hi hraw) hc ha (deleteB_absent hraw)

/-- **No trace, cascade.**  The dependants of a deleted owner (entities whose `dep` names it) are
    gone after the delete, and nothing mentions them either. -/
theorem cascade_no_trace {nm : Names} {s s' : State} {id j : Id} {e : EntA} (hi : C06.Inv s)
    (h : step s (.deleteB id) = (s', .ok)) (hj : s.a.lookup j = some e) (hd : e.dep.getD [] = id)
    (hc : NoClash nm j s') (hb : s'.b.lookup j = none) :
    s'.a.lookup j = none ∧ ∀ line, line ∈ Render nm s' → ¬ Mentions j line := by
  have hraw : deleteB s id = .ok s' := stepRaw_of_step_ok h
  obtain ⟨_, eb, s1, _, _, hcas, rfl⟩ := deleteB_ok hraw
  obtain ⟨_, _, _, _, _, _, cgone⟩ := deleteAll_spec (core_congr_uLabel hi.toInvCore _)
    (bossOK_congr (s' := { s with uLabel := C03.uniqueBeforeDelete (eb.label.getD []) s.uLabel }) hi.boss rfl) hcas
  have hgone : s1.a.lookup j = none := cgone j ((mem_dependants s id j).2 ⟨e, hj, hd⟩)
  exact ⟨hgone, no_trace_of_absent (inv_deleteB hi hraw) hc hgone hb⟩

/-- **No trace, self-reference cascade.**  Every transitive referrer of the deleted entity through
    `boss` (`Reports`: one or more steps, cycles included) is removed by the delete, and no line of
    the dump mentions it afterwards. -/
theorem boss_cascade_no_trace {nm : Names} {s s' : State} {id j : Id} (hi : C06.Inv s) (h : step s (.deleteA id) = (s', .ok))
    (hr : Reports s id j) (hc : NoClash nm j s') (hb : s'.b.lookup j = none) :
    s'.a.lookup j = none ∧ ∀ line, line ∈ Render nm s' → ¬ Mentions j line := by
  have hraw : deleteATop s id = .ok s' := stepRaw_of_step_ok h
  have hgone := boss_cascade_removes hi hraw hr
  exact ⟨hgone, no_trace_of_absent (inv_deleteA hi hraw) hc hgone hb⟩

/-- **Restrict.**  While some `chief` field names an entity — its own included — `A.DeleteById` of
    it is refused with a reference error (the check of `fkDeleteCascadeConstraint` with `CascadeNone`
    looks at ALL referrers, the entity itself is one of them). -/
theorem restrict_refuses {s : State} {id j : Id} {e0 e : EntA} (hi : C06.Inv s) (h0 : s.a.lookup id = some e0)
    (hj : s.a.lookup j = some e) (hc : e.chief.getD [] = id) : stepRaw s (.deleteA id) = .error .refExists := by
  have hid : id ≠ [] := by rintro rfl; rw [hi.idA] at h0; cases h0
  have hcc : chiefCheck s id = .error .refExists := by
    cases hx : chiefCheck s id with
    | ok u => exact absurd hc ((chiefCheck_ok_iff s id).1 hx j e hj)
    | error x =>
      unfold chiefCheck at hx
      split at hx
      · cases hx; rfl
      · cases hx
  show deleteATop s id = _
  unfold deleteATop deleteA
  simp only [hid, if_false, h0, bind, Except.bind, pure, Except.pure]
  cases e0.code <;> simp [hcc]

/-- **No foreign-key field names an absent id** — in particular not after a committed delete: not
    `owner` / `dep` (→ B), not the cascading self reference `boss`, not the restricting one `chief`. -/
theorem no_fk_names_absent {s : State} {id : Id} (hi : C06.Inv s) (hid : id ≠ []) (ha : s.a.lookup id = none)
    (hb : s.b.lookup id = none) {j : Id} {e : EntA} (hj : s.a.lookup j = some e) :
    e.owner.getD [] ≠ id ∧ e.dep.getD [] ≠ id ∧ e.boss.getD [] ≠ id ∧ e.chief.getD [] ≠ id := by
  refine ⟨?_, ?_, ?_, ?_⟩
  · intro h; have := hi.ownerExists j e hj (by rw [h]; exact hid); simp [State.bEx, h, hb] at this
  · intro h; have := hi.depExists j e hj (by rw [h]; exact hid); simp [State.bEx, h, hb] at this
  · intro h; have := hi.boss.boss j e hj (by rw [h]; exact hid) (by simp); simp [State.aEx, h, ha] at this
  · intro h; have := hi.boss.chief j e hj (by rw [h]; exact hid); simp [State.aEx, h, ha] at this

/-- **The cascade terminates.**  The model bounds the recursion of the cascading delete by a fuel of
    (number of A entities + 1) and answers `panic` when it runs out (the stack overflow of the code
    before fix bda5470).  In every consistent state a delete never does — on chains, self references
    and reference cycles alike: every nested delete marks one more existing entity as in progress. -/
theorem delete_terminates {s : State} (id : Id) (hi : C06.Inv s) : stepRaw s (.deleteA id) ≠ .error .panic :=
  deleteATop_noPanic id hi.toInvCore hi.boss

/-- **Whatever a committed transaction removed** — by a direct delete, through a child store, or by
    any cascade, anywhere in the transaction — is mentioned by no line of the dump afterwards. -/
theorem tx_removed_no_trace {nm : Names} {s : State} (ops : List Op) {j : Id} (hi : C06.Inv s)
    (ha : (txStep s ops).1.a.lookup j = none) (hb : (txStep s ops).1.b.lookup j = none)
    (hc : NoClash nm j (txStep s ops).1) :
    ∀ line, line ∈ Render nm (txStep s ops).1 → ¬ Mentions j line :=
  no_trace_of_absent (inv_txStep ops hi) hc ha hb

/-- after the delete the id is gone from every index, back-reference, link and ref-count map -/
theorem delete_forgets {s s' : State} {id : Id} (hi : C06.Inv s) (h : stepRaw s (.deleteA id) = .ok s')
    (hb : s.b.lookup id = none) :
    (∀ v, s'.uName.lookup v ≠ some id) ∧ (∀ v, s'.uAlias.lookup v ≠ some id) ∧ (∀ v, s'.uCode.lookup v ≠ some id) ∧
    (∀ v, s'.uLabel.lookup v ≠ some id) ∧ (∀ v, id ∉ (s'.sRoles.lookup v).getD []) ∧
    (∀ b, id ∉ (s'.thg.lookup b).getD []) ∧
    (∀ b, id ∉ (s'.g.bwd.lookup b).getD []) ∧ (∀ j, id ∉ (s'.g.fwd.lookup j).getD []) ∧
    (∀ b, id ∉ (s'.p.bwd.lookup b).getD []) ∧ (∀ j, id ∉ (s'.p.fwd.lookup j).getD []) ∧
    (∀ b, cnt s'.rc.bwd b id = none) ∧ (∀ j, cnt s'.rc.fwd j id = none) ∧
    s'.g.fwd.lookup id = none ∧ s'.g.bwd.lookup id = none ∧ s'.p.fwd.lookup id = none ∧ s'.p.bwd.lookup id = none ∧
    s'.rc.fwd.lookup id = none ∧ s'.rc.bwd.lookup id = none ∧ s'.thg.lookup id = none ∧
    (∀ v, s'.uColour.lookup v ≠ some id) ∧
    s'.pe.lookup id = none ∧ (∀ j, id ∉ (s'.pe.lookup j).getD []) ∧
    s'.mt.fwd.lookup id = none ∧ s'.mt.bwd.lookup id = none ∧
    (∀ j, id ∉ (s'.mt.fwd.lookup j).getD []) ∧ (∀ j, id ∉ (s'.mt.bwd.lookup j).getD []) := by
  have h' : deleteATop s id = .ok s' := h
  obtain ⟨h1, h2⟩ := deleteA_absent hi h'
  exact absent_everywhere (inv_deleteA hi h') h1 (by rw [h2]; exact hb)

/-- **Re-creation, resulting state.**  Creating the id again after the delete yields a consistent
    state in which the entity is exactly what was written and every index / back-reference entry
    for the id is determined by the *new* values alone; no ref-count or child-store data survives. -/
theorem recreate_fresh {s s' s'' : State} {id : Id} {v : ValsA} (hi : C06.Inv s) (hb : s.b.lookup id = none)
    (hd : stepRaw s (.deleteA id) = .ok s') (hc : stepRaw s' (.createA id v) = .ok s'') :
    C06.Inv s'' ∧
    s''.a.lookup id = some ⟨v.name, v.alias, setOf v.roles, v.owner, v.dep, v.boss, v.chief, none, none⟩ ∧
    (∀ w, s''.uName.lookup w = some id ↔ w = v.name) ∧
    (∀ w, s''.uAlias.lookup w = some id ↔ (w ≠ [] ∧ w = v.alias.getD [])) ∧
    (∀ w, s''.uCode.lookup w ≠ some id) ∧
    (∀ w, id ∈ (s''.sRoles.lookup w).getD [] ↔ w ∈ setOf v.roles) ∧
    (∀ b, id ∈ (s''.thg.lookup b).getD [] ↔ (b ≠ [] ∧ v.owner.getD [] = b)) ∧
    (∀ b, cnt s''.rc.bwd b id = none) ∧ s''.p.fwd.lookup id = none ∧ (∀ w, s''.uColour.lookup w ≠ some id) ∧
    s''.pe.lookup id = none ∧ s''.mt.fwd.lookup id = none ∧ s''.mt.bwd.lookup id = none := by
  have hd' : deleteATop s id = .ok s' := hd
  have hc' : createA s' id v = .ok s'' := hc
  have hi' := inv_deleteA hi hd'
  have hi'' := inv_createA hi' hc'
  have hent : s''.a.lookup id = some ⟨v.name, v.alias, setOf v.roles, v.owner, v.dep, v.boss, v.chief, none, none⟩ := by
    rw [(createA_entity hc').1]; simp
  have habs := absent_everywhere hi' (deleteA_absent hi hd').1 (by rw [(deleteA_absent hi hd').2]; exact hb)
  refine ⟨hi'', hent, ?_, ?_, ?_, ?_, ?_, ?_, ?_, ?_, ?_, ?_, ?_⟩
  · intro w
    constructor
    · intro h; obtain ⟨_, e, he, rfl⟩ := (hi''.uName w id).1 h; rw [hent] at he; cases he; rfl
    · rintro rfl; exact (hi''.uName _ id).2 ⟨hi''.namesNonEmpty id _ hent, _, hent, rfl⟩
  · intro w
    constructor
    · intro h; obtain ⟨hne, e, he, rfl⟩ := (hi''.uAlias w id).1 h; rw [hent] at he; cases he; exact ⟨hne, rfl⟩
    · rintro ⟨hne, rfl⟩; exact (hi''.uAlias _ id).2 ⟨hne, _, hent, rfl⟩
  · intro w h; obtain ⟨hne, e, he, hw⟩ := (hi''.uCode w id).1 h; rw [hent] at he; cases he; exact hne hw.symm
  · intro w
    constructor
    · intro h; obtain ⟨e, he, hw⟩ := (hi''.sRoles w id).1 h; rw [hent] at he; cases he; exact hw
    · intro hw; exact (hi''.sRoles w id).2 ⟨_, hent, hw⟩
  · intro b
    constructor
    · intro h; obtain ⟨hne, e, he, hw⟩ := (hi''.br b id).1 h; rw [hent] at he; cases he; exact ⟨hne, hw⟩
    · rintro ⟨hne, hw⟩; exact (hi''.br b id).2 ⟨hne, _, hent, hw⟩
  · -- the create touches no ref-count bucket; after the delete there was none for the id
    intro b
    rw [(createA_rc hc').1]
    exact (absent_everywhere hi' (deleteA_absent hi hd').1 (by rw [(deleteA_absent hi hd').2]; exact hb)).2.2.2.2.2.2.2.2.2.2.1 b
  · cases hl : s''.p.fwd.lookup id with
    | none => rfl
    | some l => have := hi''.p.fwdDom id l hl; simp [State.cEx, hent] at this
  · intro w h; obtain ⟨hne, e, he, hw⟩ := (hi''.uColour w id).1 h; rw [hent] at he; cases he; exact hne hw.symm
  · rw [(createA_self hc').1]; exact habs.2.2.2.2.2.2.2.2.2.2.2.2.2.2.2.2.2.2.2.2.1
  · rw [(createA_self hc').2]; exact habs.2.2.2.2.2.2.2.2.2.2.2.2.2.2.2.2.2.2.2.2.2.2.1
  · rw [(createA_self hc').2]; exact habs.2.2.2.2.2.2.2.2.2.2.2.2.2.2.2.2.2.2.2.2.2.2.2.1

end StorageModel.Properties.C06

namespace StorageModel.Properties.C06
open StorageModel StorageModel.C06
open StorageModel.C03 (Map Id Err setOf Line)

/-- **Re-creation, acceptance.**  Whether the re-creation is accepted is decided by the other
    entities alone (`AcceptableA`: name non-empty and not held by another entity, alias likewise,
    no empty role, groups / owner / dep exist) … -/
theorem recreate_accepted_iff {s s' : State} {id : Id} (v : ValsA) (hi : C06.Inv s)
    (hd : stepRaw s (.deleteA id) = .ok s') :
    (∃ s'', stepRaw s' (.createA id v) = .ok s'') ↔ AcceptableA s' id v := by
  have hd' : deleteATop s id = .ok s' := hd
  exact createA_accepts_iff (inv_deleteA hi hd') (deleteATop_id_ne hd') (deleteA_absent hi hd').1

/-- … hence exactly as in *any* consistent state with the same entity tables in which the id is
    absent — for instance one reached by a history that never used the id: "as if it had never
    existed". -/
theorem recreate_as_if_never_existed {s s' t : State} {id : Id} (v : ValsA) (hi : C06.Inv s)
    (hd : stepRaw s (.deleteA id) = .ok s') (ht : C06.Inv t)
    (ha : ∀ j, t.a.lookup j = s'.a.lookup j) (hb : ∀ j, t.b.lookup j = s'.b.lookup j) :
    (∃ s'', stepRaw s' (.createA id v) = .ok s'') ↔ (∃ t'', stepRaw t (.createA id v) = .ok t'') := by
  have hd' : deleteATop s id = .ok s' := hd
  have hid := deleteATop_id_ne hd'
  have hna := (deleteA_absent hi hd').1
  rw [recreate_accepted_iff v hi hd]
  have : (∃ t'', createA t id v = .ok t'') ↔ AcceptableA t id v :=
    createA_accepts_iff ht hid (by rw [ha]; exact hna)
  exact ((acceptableA_congr ha hb).symm.trans this.symm)

/-- **Re-creation of anything that is gone** (deleted directly, through a child store, or as the
    victim of a cascade): in every consistent state the create of an absent id is accepted iff
    `AcceptableA` — a condition on the other entities — holds; nothing of the id's past matters. -/
theorem recreate_absent_accepted_iff {s : State} {id : Id} (v : ValsA) (hi : C06.Inv s) (hid : id ≠ [])
    (hna : s.a.lookup id = none) : (∃ s', stepRaw s (.createA id v) = .ok s') ↔ AcceptableA s id v :=
  createA_accepts_iff hi hid hna

/-- the non-nullable unique index of the *parent* store refuses an empty value also when the
    create comes through the child store (the parent's indexing context is a create context) -/
theorem child_create_empty_name_rejected {s : State} {id : Id} {v : ValsA} {code : Bytes} {pals : List Id}
    (hv : v.name = []) : ∀ s', createA1 s id v code pals ≠ .ok s' := by
  intro s' h
  unfold createA1 at h
  split at h
  · cases h
  · split at h
    · cases h
    · simp only [bind, Except.bind] at h
      split at h
      · cases h
      · next s2 hsl =>
        obtain ⟨g', _, rfl⟩ := setGroups_ok hsl
        split at h
        · cases h
        · next s2' hsp =>
          obtain ⟨p', _, rfl⟩ := setPals_ok hsp
          split at h
          · cases h
          · next s3 hs3 =>
            obtain ⟨un, ua, sr, hun, _⟩ := afterUpdateA_ok hs3
            simp only [Map.lookup_insert, if_true, evName] at hun
            exact C03.uniqueAfter_true_nonempty hun hv

/-! ### witnesses (all by evaluation of the model)

  ids: a = [97], b = [98]; owners p = [112], q = [113]; values x y z m n. -/

def vA : ValsA := ⟨[120], none, [[109]], some [112], none, [[112]], none, none⟩

/-- former open item #17 (repaired by 8269ce9): child-store create over an existing plain parent
    re-indexes the parent; after the delete nothing mentions the id -/
def exOver : State := run [[.createB [112] none], [.createA [97] vA],
  [.createA1 [97] ⟨[121], none, [[110]], none, none, [], none, none⟩ [122] [[112]]]]

theorem child_create_over_parent_reindexes :
    exOver.uName.lookup [120] = none ∧ exOver.uName.lookup [121] = some [97] ∧ exOver.sRoles.lookup [109] = none ∧
    exOver.sRoles.lookup [110] = some [[97]] ∧ exOver.thg.lookup [112] = some [] ∧ exOver.uCode.lookup [122] = some [97] ∧
    exOver.p.bwd.lookup [112] = some [[97]] := by
  decide

theorem child_create_over_parent_no_trace :
    (step exOver (.deleteA [97])).2 = .ok ∧
    (Render Names.std (step exOver (.deleteA [97])).1).filter (fun l => decide (Mentions [97] l)) = [] := by
  decide

/-- a ref-counted link with count 3 and a link owned by the child store: both are gone after the delete -/
def exRc : State := run [[.createB [112] none], [.createA1 [97] vA [122] [[112]]],
  [.rcInc [97] [112], .rcInc [97] [112], .rcInc [97] [112]]]

theorem rc_and_child_links_no_trace :
    cnt exRc.rc.bwd [112] [97] = some 3 ∧ exRc.p.bwd.lookup [112] = some [[97]] ∧
    (Render Names.std exRc).any (fun l => decide (Mentions [97] l)) = true ∧
    (Render Names.std (step exRc (.deleteA [97])).1).filter (fun l => decide (Mentions [97] l)) = [] := by
  decide

/-- a cascading delete: deleting owner q removes its dependant b, and neither id is mentioned afterwards -/
def exCascade : State := run [[.createB [112] none, .createB [113] none],
  [.createA [98] ⟨[121], none, [], some [112], some [113], [[113]], none, none⟩], [.rcSet [98] [113] 2]]

theorem cascade_witness :
    (step exCascade (.deleteB [113])).2 = .ok ∧ (step exCascade (.deleteB [113])).1.a.lookup [98] = none ∧
    (Render Names.std (step exCascade (.deleteB [113])).1).filter (fun l => decide (Mentions [98] l) || decide (Mentions [113] l)) = [] := by
  decide

/-- a reference cycle a → b → a with a further referrer c → a and a self reference d → d: deleting a
    removes a, b and c (the cascade terminates), d stays; nothing mentions the removed ids -/
def exCycle : State := run [[.createA [97] ⟨[120], none, [], none, none, [], none, none⟩],
  [.createA [98] ⟨[121], none, [], none, none, [], some [97], none⟩, .createA [99] ⟨[122], none, [[109]], none, none, [], some [97], none⟩],
  [.updateA [97] ⟨[120], none, [], none, none, [], some [98], none⟩ none],
  [.createA [100] ⟨[119], none, [], none, none, [], some [100], none⟩]]

theorem cycle_witness :
    (exCycle.a.lookup [97]).map (·.boss) = some (some [98]) ∧ (exCycle.a.lookup [98]).map (·.boss) = some (some [97]) ∧
    (step exCycle (.deleteA [97])).2 = .ok ∧
    Map.keys (step exCycle (.deleteA [97])).1.a = [[100]] ∧
    (Render Names.std (step exCycle (.deleteA [97])).1).filter
      (fun l => decide (Mentions [97] l) || decide (Mentions [98] l) || decide (Mentions [99] l)) = [] ∧
    (step (step exCycle (.deleteA [97])).1 (.deleteA [100])).2 = .ok ∧
    (step (step exCycle (.deleteA [97])).1 (.deleteA [100])).1.a = [] := by
  decide

/-- the hypotheses of `boss_cascade_no_trace` are satisfiable: c reports to a in two ways (directly), b through the cycle -/
example : Reports exCycle [97] [99] := .direct (e := ⟨[122], none, [[109]], none, none, some [97], none, none, none⟩) (by decide) rfl
example : Reports exCycle [97] [97] :=
  .step (k := [98]) (e := ⟨[120], none, [], none, none, some [98], none, none, none⟩) (by decide) rfl
    (.direct (e := ⟨[121], none, [], none, none, some [97], none, none, none⟩) (by decide) rfl)
example : NoClash Names.std [99] (step exCycle (.deleteA [97])).1 := noClash_of_check (by decide)

/-- the extended child store: created through A2 over an existing parent that has A1 data, colour
    and name changed through A2 (old index entries replaced), deleted through A2: nothing is left -/
def exExt : State := run [[.createB [112] none], [.createA1 [97] vA [122] [[112]]],
  [.createA2 [97] ⟨[121], none, [[110]], none, none, [[112]], none, none⟩ [119]],
  [.updateA2 [97] ⟨[120], none, [], some [112], none, [], none, none⟩ [118] (some ⟨true, false, false, true, false, false, false, false⟩) true]]

theorem extended_child_witness :
    exExt.uColour.lookup [119] = none ∧ exExt.uColour.lookup [118] = some [97] ∧ exExt.uName.lookup [121] = none ∧
    exExt.uName.lookup [120] = some [97] ∧ exExt.uCode.lookup [122] = some [97] ∧ exExt.thg.lookup [112] = some [[97]] ∧
    (exExt.a.lookup [97]).map (·.colour) = some (some [118]) ∧
    (step exExt (.deleteA [97])).2 = .ok ∧
    (Render Names.std (step exExt (.deleteA [97])).1).filter (fun l => decide (Mentions [97] l)) = [] ∧
    (step exExt (.updateA2 [98] vA [118] none true)).2 = .err .notFound := by
  decide

/-- store A linked with itself: a is linked to itself and to b and c through `peers` (one symbol) and
    through `mentors` (two symbols); in ONE transaction a's peers bucket is written and a is deleted:
    b and c forget a in all three bucket families, nothing mentions a -/
def exSelf : State := run [[.createA [97] ⟨[120], none, [], none, none, [], none, none⟩,
  .createA [98] ⟨[121], none, [], none, none, [], none, none⟩, .createA [99] ⟨[122], none, [], none, none, [], none, none⟩],
  [.addPeers [97] [[97], [98], [99]], .setMentors [97] [[99], [97]], .setMentors [98] [[97]]]]

theorem self_link_witness :
    exSelf.pe.lookup [97] = some [[97], [98], [99]] ∧ exSelf.pe.lookup [99] = some [[97]] ∧
    exSelf.mt.bwd.lookup [97] = some [[97], [98]] ∧
    (txStep exSelf [.removePeers [97] [[98]], .deleteA [97]]).2 = .ok ∧
    (txStep exSelf [.removePeers [97] [[98]], .deleteA [97]]).1.pe = [([99], []), ([98], [])] ∧
    (Render Names.std (txStep exSelf [.removePeers [97] [[98]], .deleteA [97]]).1).filter (fun l => decide (Mentions [97] l)) = [] := by
  decide

/-- the same under the other naming variant of the schema (symbol ≠ stored key for `name` and `alias`):
    the dump names the index buckets after the symbols and the fields after their keys; nothing mentions
    the deleted id either -/
theorem naming_variant_witness :
    Line.bucket [C03.bU, C03.bIndexes, C03.bThings, [110, 105, 99, 107]] ∈ Render Names.alt exExt ∧
    Line.kv [C03.bU, C03.bThings, [97]] [110, 109] (C03.typed [120]) ∈ Render Names.alt exExt ∧
    (Render Names.alt (step exExt (.deleteA [97])).1).filter (fun l => decide (Mentions [97] l)) = [] := by
  decide

example : NoClash Names.alt [97] (step exExt (.deleteA [97])).1 := noClash_of_check (by decide)

/-- the restricting self reference: a names itself as chief and so does c (sorting after a); b names
    nobody.  Deleting a is refused — also when a is its own only referrer; after the chief fields are
    cleared it goes, and nothing mentions it -/
def exChief : State := run [[.createA [97] ⟨[120], none, [], none, none, [], none, some [97]⟩,
  .createA [98] ⟨[121], none, [], none, none, [], none, none⟩, .createA [99] ⟨[122], none, [], none, none, [], none, some [97]⟩]]

theorem chief_witness :
    (step exChief (.deleteA [97])).2 = .err .refExists ∧
    (step (step exChief (.deleteA [99])).1 (.deleteA [97])).2 = .err .refExists ∧
    (step exChief (.deleteA [98])).2 = .ok ∧
    (txStep exChief [.updateA [97] ⟨[120], none, [], none, none, [], none, none⟩ none,
                     .updateA [99] ⟨[122], none, [], none, none, [], none, none⟩ (some ⟨false, false, false, false, false, false, false, true⟩),
                     .deleteA [97]]).2 = .ok ∧
    (Render Names.std (txStep exChief [.updateA [97] ⟨[120], none, [], none, none, [], none, none⟩ none,
                     .updateA [99] ⟨[122], none, [], none, none, [], none, none⟩ (some ⟨false, false, false, false, false, false, false, true⟩),
                     .deleteA [97]]).1).filter (fun l => decide (Mentions [97] l)) = [] := by
  decide

/-- `NoClash` holds in the harness universe: the hypotheses of the no-trace theorems are satisfiable -/
example : NoClash Names.std [97] (step exRc (.deleteA [97])).1 := noClash_of_check (by decide)
example : (step exRc (.deleteA [97])).1.b.lookup [97] = none := by decide
example : NoClash Names.std [98] (step exCascade (.deleteB [113])).1 := noClash_of_check (by decide)

/-! ### unique indexes over non-string symbols (schema variant `h2`) -/

/-- **Index keys are the stored bytes, whatever the symbol's type.**  In every consistent state and for
    every schema variant (every choice of `FieldType` bytes for `alias`, `code`, `colour`, `label`): an
    entry `k ↦ i` of the unique index over `alias` sits next to the entity line
    `u/things/i/<aliasKey> = <type byte> k` of the dump — the index is keyed by the raw stored bytes of the
    field (for an int64 symbol the 8-byte encoding, never its decimal rendering), so the key the delete
    has to remove is the one `symbol.Eval` returns. -/
theorem alias_index_key_is_stored_bytes {nm : Names} {s : State} (hi : C06.Inv s) {k i : Bytes}
    (h : s.uAlias.lookup k = some i) :
    ∃ e, s.a.lookup i = some e ∧ e.alias = some k ∧
      Line.kv (pathA i) nm.aliasKey (tagged nm.aliasTy k) ∈ Render nm s ∧
      Line.kv (idxPathA nm.aliasSym) k i ∈ Render nm s := by
  obtain ⟨hne, e, he, hv⟩ := (hi.uAlias k i).1 h
  have ha : e.alias = some k := by
    cases ha : e.alias with
    | none => simp [ha] at hv; exact absurd hv hne
    | some a => simp [ha] at hv; rw [hv]
  refine ⟨e, he, ha, ?_, ?_⟩
  · have : Line.kv (pathA i) nm.aliasKey (tagged nm.aliasTy k) ∈ s.a.entries.flatMap (renderA nm s) := by
      simp only [List.mem_flatMap, Prod.exists, C03.Map.mem_entries_iff]
      exact ⟨i, e, he, by simp [renderA, optFieldT, ha]⟩
    simp [Render, this]
  · have : Line.kv (idxPathA nm.aliasSym) k i ∈ s.uAlias.entries.flatMap (renderUnique (idxPathA nm.aliasSym)) := by
      simp only [List.mem_flatMap, Prod.exists, C03.Map.mem_entries_iff]
      exact ⟨k, i, h, by simp [renderUnique]⟩
    simp [Render, this]

/-- the same for the child stores' indexes (`code` of A1, `colour` of the extended A2) and B's `label` -/
theorem code_index_key_is_stored_bytes {nm : Names} {s : State} (hi : C06.Inv s) {k i : Bytes}
    (h : s.uCode.lookup k = some i) :
    ∃ e, s.a.lookup i = some e ∧ e.code = some k ∧
      Line.kv (pathA i ++ [bExt1]) bCode (tagged nm.codeTy k) ∈ Render nm s := by
  obtain ⟨hne, e, he, hv⟩ := (hi.uCode k i).1 h
  have ha : e.code = some k := by
    cases ha : e.code with
    | none => simp [ha] at hv; exact absurd hv hne
    | some a => simp [ha] at hv; rw [hv]
  refine ⟨e, he, ha, ?_⟩
  have : Line.kv (pathA i ++ [bExt1]) bCode (tagged nm.codeTy k) ∈ s.a.entries.flatMap (renderA nm s) := by
    simp only [List.mem_flatMap, Prod.exists, C03.Map.mem_entries_iff]
    exact ⟨i, e, he, by simp [renderA, ha]⟩
  simp [Render, this]

/-- the typed variant of the schema (`Names.typedV`: alias int64, code int32, colour float64, label
    int32; values in their fixed-width little-endian form).  b `p` has label 120; a is created through A1
    with alias 121 and code 122, gets colour 119 through A2, then its alias is patched to 120. -/
def exTyped : State := run [[.createB [112] (some (padTo 4 [120]))],
  [.createA1 [97] ⟨[120], some (padTo 8 [121]), [[109]], some [112], none, [[112]], none, none⟩ (padTo 4 [122]) [[112]]],
  [.createA2 [97] ⟨[120], some (padTo 8 [121]), [[109]], some [112], none, [[112]], none, none⟩ (padTo 8 [119])],
  [.updateA [97] ⟨[120], some (padTo 8 [120]), [], none, none, [], none, none⟩ (some ⟨false, true, false, false, false, false, false, false⟩)]]

/-- unique indexes over non-string symbols: the entries are keyed by the 8- / 4-byte encodings, the
    fields carry their own type bytes (3 int64, 2 int32, 4 float64); the patch moved the alias entry; the
    delete of a (and then of p) removes every entry and nothing mentions the ids; the value the deleted
    entity held is free for another entity -/
theorem typed_variant_witness :
    exTyped.uAlias.lookup [120, 0, 0, 0, 0, 0, 0, 0] = some [97] ∧ exTyped.uAlias.lookup [121, 0, 0, 0, 0, 0, 0, 0] = none ∧
    exTyped.uAlias.lookup [49, 50, 48] = none ∧
    exTyped.uCode.lookup [122, 0, 0, 0] = some [97] ∧ exTyped.uColour.lookup [119, 0, 0, 0, 0, 0, 0, 0] = some [97] ∧
    exTyped.uLabel.lookup [120, 0, 0, 0] = some [112] ∧
    Line.kv [C03.bU, C03.bThings, [97]] C03.bAlias [3, 120, 0, 0, 0, 0, 0, 0, 0] ∈ Render Names.typedV exTyped ∧
    Line.kv [C03.bU, C03.bThings, [97], bExt1] bCode [2, 122, 0, 0, 0] ∈ Render Names.typedV exTyped ∧
    Line.kv [C03.bU, C03.bThings, [97], bExt2] bColour [4, 119, 0, 0, 0, 0, 0, 0, 0] ∈ Render Names.typedV exTyped ∧
    Line.kv [C03.bU, bOwners, [112]] bLabel [2, 120, 0, 0, 0] ∈ Render Names.typedV exTyped ∧
    Line.kv [C03.bU, C03.bIndexes, C03.bThings, C03.bAlias] [120, 0, 0, 0, 0, 0, 0, 0] [97] ∈ Render Names.typedV exTyped ∧
    (step exTyped (.deleteA [97])).2 = .ok ∧
    (step exTyped (.deleteA [97])).1.uAlias = [] ∧ (step exTyped (.deleteA [97])).1.uCode = [] ∧
    (step exTyped (.deleteA [97])).1.uColour = [] ∧
    (Render Names.typedV (step exTyped (.deleteA [97])).1).filter (fun l => decide (Mentions [97] l)) = [] ∧
    (step (step exTyped (.deleteA [97])).1 (.createA [98] ⟨[121], some (padTo 8 [120]), [], none, none, [], none, none⟩)).2 = .ok ∧
    (Render Names.typedV (txStep exTyped [.deleteA [97], .deleteB [112]]).1).filter
      (fun l => decide (Mentions [97] l) || decide (Mentions [112] l)) = [] := by
  decide

example : NoClash Names.typedV [97] (step exTyped (.deleteA [97])).1 := noClash_of_check (by decide)
example : NoClash Names.typedV [112] (txStep exTyped [.deleteA [97], .deleteB [112]]).1 := noClash_of_check (by decide)

/-! ## Layering depth: the delete orchestration over a tree of stores of any depth (`C06/Depth.lean`) -/
section DepthSection
open StorageModel.C06.Depth

/-- the FULL statement: in every configuration the library accepts, a committed delete through any store
    leaves nothing of the id.  It is FALSE at depth 3 (`grandchild_delete_leaves_trace`): the root fans out
    over its own registered strategies only, so a store registered with a CHILD is never visited. -/
def delete_no_trace_fullStatement : Prop :=
  ∀ (cfg : Cfg) (s s' : DState) (k : Nat) (id : Id),
    rootOf cfg k = 0 → Sound cfg s → deleteById cfg s k id = .ok s' → NoTrace s' id

/-- proved part: every configuration in which every declaring store is the root or registered with the
    root (any depth, any number of stores; all depth ≤ 2 configurations are of this kind); the state stays
    sound, so the statement composes over histories of deletes.  Missing for the full statement: stores
    registered below the root - there the code leaves their entries behind. -/
theorem delete_no_trace_partial {cfg : Cfg} {s s' : DState} {k : Nat} {id : Id}
    (hr : AllDeclaringStoresReachable cfg) (h0 : rootOf cfg k = 0) (hs : Sound cfg s)
    (hd : deleteById cfg s k id = .ok s') : NoTrace s' id ∧ Sound cfg s' :=
  ⟨delete_no_trace_reachable hr h0 hs hd, sound_after_delete hr h0 hs hd⟩

def allDecl (p : Option Nat) (r : List Nat) (path : List Bytes) (tag : UInt8) : StoreCfg :=
  { parent := p, regWith := r, path := path, tag := tag, uniq := true, set := true, link := true, fk := true }

/-- A → C → G, G registered with C (the library accepts it) -/
def cfg3 : Cfg := [allDecl none [] [] 48, allDecl (some 0) [0] [[101, 120, 116]] 49,
  allDecl (some 1) [1] [[101, 120, 116], [103]] 50]
/-- the same chain with G registered with the root as well -/
def cfg3r : Cfg := [allDecl none [] [] 48, allDecl (some 0) [0] [[101, 120, 116]] 49,
  allDecl (some 1) [1, 0] [[101, 120, 116], [103]] 50]

def vs3 : Nat → Vals
  | 0 => { u := some [120], s := [[109]], l := [[112]], f := some [113] }
  | 1 => { u := some [121], s := [[110]], l := [[112]], f := some [113] }
  | _ => { u := some [122], s := [[111]], l := [[112]], f := some [113] }

def stateOf (r : Except Err DState) : DState := match r with
  | .ok t => t
  | .error _ => {}

def s3 : DState := stateOf (createThrough cfg3 {} 2 [97] vs3)
def s3d : DState := stateOf (deleteById cfg3 s3 0 [97])
def s3r : DState := stateOf (createThrough cfg3r {} 2 [97] vs3)

example : AllDeclaringStoresReachable cfg3r := reachable_of_B (by decide)
example : ¬ AllDeclaringStoresReachable cfg3 := fun h => by have := h 2 (by decide); revert this; decide
example : Sound cfg3r s3r ∧ rootOf cfg3r 2 = 0 ∧ okB (deleteById cfg3r s3r 2 [97]) = true := by decide
example : NoTrace (stateOf (deleteById cfg3r s3r 2 [97])) [97] := by decide

/-- **the model follows the code**: three-level chain, entity created through G, deleted through the root:
    exactly G's own unique / set / link / fk entries stay behind -/
theorem grandchild_delete_leaves_trace : ¬ delete_no_trace_fullStatement := by
  intro h
  have := h cfg3 s3 s3d 0 [97] (by decide) (by decide) rfl
  revert this; decide

example : s3d.data = [] ∧ s3d.idx = [⟨.u, 2, [122], [97]⟩, ⟨.s, 2, [111], [97]⟩, ⟨.f, 2, [113], [97]⟩, ⟨.l, 2, [112], [97]⟩] := by decide

def recreate_fresh_fullStatement : Prop :=
  ∀ (cfg : Cfg) (s s' : DState) (k : Nat) (id : Id) (k' : Nat) (vs : Nat → Vals),
    rootOf cfg k = 0 → Sound cfg s → deleteById cfg s k id = .ok s' →
    createThrough cfg s' k' id vs = createThrough cfg (purge s' id) k' id vs

/-- after a committed delete a creation of the id sees a state that holds nothing of it (it behaves as in the
    state with everything of the id purged) - for the reachable configurations -/
theorem recreate_fresh_partial {cfg : Cfg} {s s' : DState} {k : Nat} {id : Id}
    (hr : AllDeclaringStoresReachable cfg) (h0 : rootOf cfg k = 0) (hs : Sound cfg s)
    (hd : deleteById cfg s k id = .ok s') (k' : Nat) (vs : Nat → Vals) :
    createThrough cfg s' k' id vs = createThrough cfg (purge s' id) k' id vs := by
  rw [purge_of_noTrace (delete_no_trace_reachable hr h0 hs hd)]

/-- at depth 3 the re-creation meets G's stale unique entry: duplicate-value error -/
theorem grandchild_recreate_meets_stale_entry : ¬ recreate_fresh_fullStatement := by
  intro h
  have e := h cfg3 s3 s3d 0 [97] 2 vs3 (by decide) (by decide) rfl
  have : okB (createThrough cfg3 s3d 2 [97] vs3) = okB (createThrough cfg3 (purge s3d [97]) 2 [97] vs3) := by rw [e]
  revert this; decide

end DepthSection

end StorageModel.Properties.C06

#print axioms StorageModel.Properties.C06.inv_reachable
#print axioms StorageModel.Properties.C06.absent_no_trace
#print axioms StorageModel.Properties.C06.cascade_no_trace
#print axioms StorageModel.Properties.C06.boss_cascade_no_trace
#print axioms StorageModel.Properties.C06.tx_removed_no_trace
#print axioms StorageModel.Properties.C06.delete_terminates
#print axioms StorageModel.Properties.C06.restrict_refuses
#print axioms StorageModel.Properties.C06.no_fk_names_absent
#print axioms StorageModel.Properties.C06.recreate_fresh
#print axioms StorageModel.Properties.C06.recreate_as_if_never_existed
#print axioms StorageModel.Properties.C06.alias_index_key_is_stored_bytes
#print axioms StorageModel.Properties.C06.code_index_key_is_stored_bytes
