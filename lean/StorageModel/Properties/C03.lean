import StorageModel.C03.Reject
/-
  C03 — Unique and set indexes mirror entity state; uniqueness is enforced.

  "After any sequence of committed creates, full updates, field-restricted updates and deletes, a
  unique index maps each non-empty indexed value to exactly the one entity currently holding it,
  and a set index maps each value to exactly the set of entities whose set field currently
  contains it, with no entries for deleted entities or stale values and no empty index keys left
  behind.  A create or update that would give two entities the same unique value, or an empty
  value in a non-nullable unique index, fails with the corresponding error and changes nothing."

  Model: StorageModel/C03/Model.lean (boltz Create / Update / DeleteById with the
  capture-old / apply-new IndexingContext protocol, one explicit map per index bucket).
  Spec:  StorageModel/C03/Spec.lean (entity table only, indexes derived).
  All theorems quantify over every state / operation / finite history of transactions.
-/
namespace StorageModel.Properties.C03
open StorageModel StorageModel.C03

/-- the invariant holds for the freshly initialised database -/
theorem inv_init : Inv State.empty := inv_empty

/-- every operation kind, accepted or rejected, run in its own transaction, preserves it -/
theorem inv_step {s : State} (op : Op) (h : Inv s) : Inv (step s op).1 := inv_txStep [op] h

/-- so does every transaction of several operations (committed, or rolled back at the first error) -/
theorem inv_tx {s : State} (ops : List Op) (h : Inv s) : Inv (txStep s ops).1 := inv_txStep ops h

/-- **all finite histories**: the invariant holds after any sequence of transactions -/
theorem inv_reachable (txs : List (List Op)) : Inv (run txs) := by
  unfold run
  suffices ∀ s, C03.Inv s → C03.Inv (txs.foldl (fun s ops => (txStep s ops).1) s) from this _ inv_init
  induction txs with
  | nil => intro s h; exact h
  | cons ops rest ih => intro s h; exact ih _ (inv_tx ops h)

/-- unique index = image of the entity table, in every reachable state (non-nullable `name`) -/
theorem unique_index_exact (txs : List (List Op)) (v : Bytes) (id : Id) :
    (run txs).uName.lookup v = some id ↔ (v ≠ [] ∧ ∃ e, (run txs).ents.lookup id = some e ∧ e.name = v) :=
  (inv_reachable txs).uName v id

/-- the same for the nullable index on `alias` (nil and empty are not indexed) -/
theorem nullable_unique_index_exact (txs : List (List Op)) (v : Bytes) (id : Id) :
    (run txs).uAlias.lookup v = some id ↔
      (v ≠ [] ∧ ∃ e, (run txs).ents.lookup id = some e ∧ e.alias.getD [] = v) :=
  (inv_reachable txs).uAlias v id

/-- set index = exactly the entities whose set field contains the value, in every reachable state -/
theorem set_index_exact (txs : List (List Op)) (v : Bytes) (id : Id) :
    id ∈ ((run txs).sRoles.lookup v).getD [] ↔ ∃ e, (run txs).ents.lookup id = some e ∧ v ∈ e.roles :=
  (inv_reachable txs).sRoles v id

/-- no empty index keys are left behind -/
theorem no_empty_keys (txs : List (List Op)) (v : Bytes) (ids : List Id)
    (h : (run txs).sRoles.lookup v = some ids) : ids ≠ [] :=
  (inv_reachable txs).noEmptyKeys v ids h

/-- "exactly the one entity": an entity is found under one value only … -/
theorem uniq_injective {s : State} (hi : Inv s) {v v' : Bytes} {a : Id}
    (h : s.uName.lookup v = some a) (h' : s.uName.lookup v' = some a) : v = v' := by
  obtain ⟨_, e, he, rfl⟩ := (hi.uName v a).1 h
  obtain ⟨_, e', he', rfl⟩ := (hi.uName v' a).1 h'
  rw [he] at he'; cases he'; rfl

/-- … and two entities never hold the same (non-empty) unique value -/
theorem unique_holder {s : State} (hi : Inv s) {a b : Id} {e e' : Ent}
    (ha : s.ents.lookup a = some e) (hb : s.ents.lookup b = some e') (h : e.name = e'.name) : a = b := by
  have hne := hi.namesNonEmpty a e ha
  have h1 := (hi.uName e.name a).2 ⟨hne, e, ha, rfl⟩
  have h2 := (hi.uName e.name b).2 ⟨hne, e', hb, h.symm⟩
  rw [h1] at h2; cases h2; rfl

/-- a write that would give two entities the same unique value fails with the duplicate error
    and changes nothing -/
theorem dup_rejected {s : State} {op : Op} (hi : Inv s) (hw : WouldDuplicate s op) :
    step s op = (s, .err .dup) := by
  simp [step, txStep, applyOps, stepRaw_dup hi hw]

/-- an empty value for the non-nullable unique index fails with the null-not-allowed error and
    changes nothing -/
theorem empty_rejected {s : State} {op : Op} (hi : Inv s) (hw : WouldBeEmpty s op) :
    step s op = (s, .err .nullNotAllowed) := by
  simp [step, txStep, applyOps, stepRaw_empty hi hw]

/-- a transaction that ends in an error leaves the state unchanged (this is the modelled bbolt
    rollback: true by construction of `txStep`, listed so that the assumption is visible) -/
theorem error_changes_nothing (s : State) (ops : List Op) (h : (txStep s ops).2 ≠ .ok) : (txStep s ops).1 = s := by
  unfold txStep at h ⊢
  split
  · next s' hs => rw [hs] at h; exact absurd rfl h
  · rfl

/-- **refinement**: on a consistent state the engine model and the spec (entity table only;
    refuse exactly the writes that would break a constraint against the other entities) agree on
    every operation — both succeed with the same entity table, or both fail and the engine's error
    is among those the spec allows -/
theorem step_refines_spec {s : State} (hi : Inv s) (op : Op) :
    match stepRaw s op, Spec.step (abs s) op with
    | .ok s', .ok t' => abs s' = t'
    | .error e, .error es => e ∈ es
    | _, _ => False :=
  stepRaw_refines hi op

/-- the bucket dump of a consistent state is the dump derived from the entity table alone -/
theorem render_eq_spec {s : State} (hi : Inv s) (l : Line) : l ∈ Render s ↔ l ∈ Spec.render (abs s) :=
  render_eq_spec_lines hi l

/-- the nil dereference in `setIndex.ProcessAfterUpdate/ProcessBeforeDelete` (an empty old value)
    is unreachable from consistent states -/
theorem no_panic {s : State} (hi : Inv s) (op : Op) : stepRaw s op ≠ .error .panic := stepRaw_no_panic hi

/-! ### non-vacuity -/

def exA : Vals := ⟨[120], some [121], [[114], [115]]⟩
def exB : Vals := ⟨[121], none, [[114]]⟩
/-- a reachable state with two entities sharing a role -/
def exState : State := run [[.create [97] exA, .create [98] exB]]

example : exState.uName.lookup [120] = some [97] ∧ exState.uName.lookup [121] = some [98] ∧
    exState.sRoles.lookup [114] = some [[97], [98]] := by decide
example : Inv exState := inv_reachable _
/-- `WouldDuplicate` is satisfiable: b takes a's name -/
example : WouldDuplicate exState (.update [98] ⟨[120], none, []⟩ (some ⟨true, false, false⟩)) :=
  ⟨[98], ⟨[120], none, [[114]]⟩, by decide, by decide, Or.inl ⟨[97], ⟨[120], some [121], [[114], [115]]⟩, by decide, by decide, rfl⟩⟩
example : (step exState (.update [98] ⟨[120], none, []⟩ (some ⟨true, false, false⟩))).2 = .err .dup := by decide
/-- `WouldBeEmpty` is satisfiable -/
example : WouldBeEmpty exState (.create [99] ⟨[], none, []⟩) := ⟨[99], ⟨[], none, []⟩, by decide, rfl⟩
example : (step exState (.create [99] ⟨[], none, []⟩)).2 = .err .nullNotAllowed := by decide
/-- hand-over inside one transaction: a releases x, b takes it -/
example : ((txStep exState [.update [97] ⟨[122], none, []⟩ (some ⟨true, false, false⟩),
                            .update [98] ⟨[120], none, []⟩ (some ⟨true, false, false⟩)]).1.uName.lookup [120]) = some [98] := by decide
/-- the last holder of a role leaves: the index key disappears -/
example : (step exState (.update [97] ⟨[120], none, [[114]]⟩ (some ⟨false, false, true⟩))).1.sRoles.lookup [115] = none := by decide

end StorageModel.Properties.C03

#print axioms StorageModel.Properties.C03.inv_reachable
#print axioms StorageModel.Properties.C03.step_refines_spec
#print axioms StorageModel.Properties.C03.render_eq_spec
#print axioms StorageModel.Properties.C03.dup_rejected
