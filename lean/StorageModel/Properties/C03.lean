import StorageModel.C03.LayeredReject
import StorageModel.C03.ChainInv
/-
  C03 — Unique and set indexes mirror entity state; uniqueness is enforced.

  "After any sequence of committed creates, full updates, field-restricted updates and deletes, a
  unique index maps each non-empty indexed value to exactly the one entity currently holding it,
  and a set index maps each value to exactly the set of entities whose set field currently
  contains it, with no entries for deleted entities or stale values and no empty index keys left
  behind.  A create or update that would give two entities the same unique value, or an empty
  value in a non-nullable unique index, fails with the corresponding error and changes nothing."

  Model: StorageModel/C03/Model.lean (boltz Create / Update / DeleteById with the
  capture-old / apply-new IndexingContext protocol, one explicit map per index bucket) and
  StorageModel/C03/Layered.lean, which puts a plain CHILD store on top of the indexed store
  (creates through the child store — also over an existing plain parent entity —, updates through
  either store, deletes through either store with the parent's `ProcessBeforeDelete` running once
  per store that holds the entity) and a SCHEMA: the store's base path (any number of elements;
  entities under `<basePath>/things`, index buckets under `<basePath>/indexes/things/<symbol>`),
  for every field a symbol name, a stored key and a caller-side (FieldChecker) name (patches name
  fields by the caller-side name), and which of the three indexes are registered, in which order.
  Spec:  StorageModel/C03/LayeredSpec.lean over StorageModel/C03/Spec.lean (entity table only,
  indexes derived).
  All theorems quantify over every schema / state / operation / finite history of transactions.
-/
namespace StorageModel.Properties.C03
open StorageModel StorageModel.C03.Layered
open StorageModel.C03 (Map Id Ent Vals Err Line bAlias bRoles)

/-- the invariant holds for the freshly initialised database -/
theorem inv_init (sch : Schema) : Inv sch State.empty := inv_empty sch

/-- every operation kind through either store, accepted or rejected, run in its own transaction,
    preserves it -/
theorem inv_step (sch : Schema) {s : State} (op : Op) (h : Inv sch s) : Inv sch (step sch s op).1 := inv_txStep [op] h

/-- so does every transaction of several operations (committed, or rolled back at the first error) -/
theorem inv_tx (sch : Schema) {s : State} (ops : List Op) (h : Inv sch s) : Inv sch (txStep sch s ops).1 := inv_txStep ops h

/-- **all finite histories**: the invariant holds after any sequence of transactions -/
theorem inv_reachable (sch : Schema) (txs : List (List Op)) : Inv sch (run sch txs) := by
  unfold run
  suffices ∀ s, C03.Layered.Inv sch s → C03.Layered.Inv sch (txs.foldl (fun s ops => (txStep sch s ops).1) s) from this _ (inv_init sch)
  induction txs with
  | nil => intro s h; exact h
  | cons ops rest ih => intro s h; exact ih _ (inv_tx sch ops h)

/-- unique index = image of the entity table, in every reachable state (non-nullable `name`; an
    index that is not registered sees no value and stays empty: `Spec.vName`) -/
theorem unique_index_exact (sch : Schema) (txs : List (List Op)) (v : Bytes) (id : Id) :
    (run sch txs).base.uName.lookup v = some id ↔
      (v ≠ [] ∧ ∃ e, (run sch txs).base.ents.lookup id = some e ∧ Spec.vName sch e = v) :=
  (inv_reachable sch txs).base.uName v id

/-- the same for the nullable index on `alias` (nil and empty are not indexed) -/
theorem nullable_unique_index_exact (sch : Schema) (txs : List (List Op)) (v : Bytes) (id : Id) :
    (run sch txs).base.uAlias.lookup v = some id ↔
      (v ≠ [] ∧ ∃ e, (run sch txs).base.ents.lookup id = some e ∧ Spec.vAlias sch e = v) :=
  (inv_reachable sch txs).base.uAlias v id

/-- set index = exactly the entities whose set field contains the value, in every reachable state -/
theorem set_index_exact (sch : Schema) (txs : List (List Op)) (v : Bytes) (id : Id) :
    id ∈ ((run sch txs).base.sRoles.lookup v).getD [] ↔
      ∃ e, (run sch txs).base.ents.lookup id = some e ∧ v ∈ Spec.vRoles sch e :=
  (inv_reachable sch txs).base.sRoles v id

/-- … in the registered case these are the fields themselves -/
theorem registered_values (sch : Schema) (e : Ent) :
    (sch.regName = true → Spec.vName sch e = e.name) ∧ (sch.regAlias = true → Spec.vAlias sch e = e.alias.getD []) ∧
    (sch.regRoles = true → Spec.vRoles sch e = e.roles) := by
  refine ⟨?_, ?_, ?_⟩ <;> intro h <;> simp [Spec.vName, Spec.vAlias, Spec.vRoles, h]

/-- **the path function**: distinct symbols have distinct index buckets, for every base path -/
theorem index_paths_distinct (sch : Schema) (a b : Bytes) (h : a ≠ b) : idxPath sch a ≠ idxPath sch b :=
  fun he => h (idxPath_injective sch a b he)

/-- so the three index buckets of a schema with pairwise distinct symbol names are pairwise distinct … -/
theorem schema_index_paths_distinct (sch : Schema) (h1 : sch.name.sym ≠ sch.alias.sym) (h2 : sch.name.sym ≠ sch.roles.sym)
    (h3 : sch.alias.sym ≠ sch.roles.sym) :
    idxPath sch sch.name.sym ≠ idxPath sch sch.alias.sym ∧ idxPath sch sch.name.sym ≠ idxPath sch sch.roles.sym ∧
    idxPath sch sch.alias.sym ≠ idxPath sch sch.roles.sym :=
  ⟨index_paths_distinct sch _ _ h1, index_paths_distinct sch _ _ h2, index_paths_distinct sch _ _ h3⟩

/-- … and nothing at or below an index bucket is at or below an entity bucket -/
theorem index_paths_off_entities (sch : Schema) (sym : Bytes) (p : List Bytes) (id : Id) (q : List Bytes) :
    idxPath sch sym ++ p ≠ entPath sch id ++ q := by
  unfold idxPath entPath
  simp only [List.append_assoc, List.cons_append, List.nil_append]
  exact idx_side_ne_ent_side sch _ _

/-- no empty index keys are left behind -/
theorem no_empty_keys (sch : Schema) (txs : List (List Op)) (v : Bytes) (ids : List Id)
    (h : (run sch txs).base.sRoles.lookup v = some ids) : ids ≠ [] :=
  (inv_reachable sch txs).base.noEmptyKeys v ids h

/-- child data exists only inside an existing entity bucket -/
theorem child_data_inside_entity (sch : Schema) (txs : List (List Op)) (id : Id) (t : Bytes)
    (h : (run sch txs).ext.lookup id = some t) : ((run sch txs).base.ents.lookup id).isSome = true :=
  (inv_reachable sch txs).extIn id t h

/-- "exactly the one entity": an entity is found under one value only … -/
theorem uniq_injective {sch : Schema} {s : State} (hi : Inv sch s) {v v' : Bytes} {a : Id}
    (h : s.base.uName.lookup v = some a) (h' : s.base.uName.lookup v' = some a) : v = v' := by
  obtain ⟨_, e, he, rfl⟩ := (hi.base.uName v a).1 h
  obtain ⟨_, e', he', rfl⟩ := (hi.base.uName v' a).1 h'
  rw [he] at he'; cases he'; rfl

/-- … and (the unique index on `name` registered) two entities never hold the same unique value -/
theorem unique_holder {sch : Schema} {s : State} (hi : Inv sch s) (hreg : sch.regName = true) {a b : Id} {e e' : Ent}
    (ha : s.base.ents.lookup a = some e) (hb : s.base.ents.lookup b = some e') (h : e.name = e'.name) : a = b := by
  have hne := hi.base.namesNonEmpty hreg a e ha
  have hv : ∀ x : Ent, Spec.vName sch x = x.name := fun x => by simp [Spec.vName, hreg]
  have h1 := (hi.base.uName e.name a).2 ⟨hne, e, ha, hv e⟩
  have h2 := (hi.base.uName e.name b).2 ⟨hne, e', hb, (hv e').trans h.symm⟩
  rw [h1] at h2; cases h2; rfl

/-- a write — through either store — whose one fault is to give two entities the same unique value
    fails with the duplicate error and changes nothing -/
theorem dup_rejected {sch : Schema} {s : State} {op : Op} (hi : Inv sch s) (hw : WouldDuplicate sch s op) :
    step sch s op = (s, .err .dup) := by
  simp [step, txStep, applyOps, stepRaw_dup hi hw]

/-- a write whose one fault is an empty value for the (registered) non-nullable unique index fails
    with the null-not-allowed error and changes nothing -/
theorem empty_rejected {sch : Schema} {s : State} {op : Op} (hi : Inv sch s) (hw : WouldBeEmpty sch s op) :
    step sch s op = (s, .err .nullNotAllowed) := by
  simp [step, txStep, applyOps, stepRaw_empty hi hw]

/-- a transaction that ends in an error leaves the state unchanged (this is the modelled bbolt
    rollback: true by construction of `txStep`, listed so that the assumption is visible) -/
theorem error_changes_nothing (sch : Schema) (s : State) (ops : List Op) (h : (txStep sch s ops).2 ≠ .ok) :
    (txStep sch s ops).1 = s := by
  unfold txStep at h ⊢
  split
  · next s' hs => rw [hs] at h; exact absurd rfl h
  · rfl

/-- **key-size boundary**: in every reachable state every indexed unique value fits bbolt's key
    limit (a longer one is refused — `step_refines_spec` — and nothing changes) -/
theorem indexed_values_fit (sch : Schema) (txs : List (List Op)) (id : Id) (e : Ent)
    (h : (run sch txs).base.ents.lookup id = some e) :
    (Spec.vName sch e).length ≤ maxKeySize ∧ (Spec.vAlias sch e).length ≤ maxKeySize :=
  (inv_reachable sch txs).base.keysFit id e h

/-- a write through either store whose one fault is an indexed unique value longer than bbolt's key
    limit fails with bbolt's error (enum `other`) and changes nothing -/
theorem oversize_rejected {sch : Schema} {s : State} {op : Op} (hi : Inv sch s) (hw : WouldOverflow sch s op) :
    step sch s op = (s, .err .other) := by
  simp [step, txStep, applyOps, stepRaw_overflow hi hw]

/-- **refinement**: on a consistent state the engine model and the spec (entity table and child
    data only; refuse exactly the writes that would break a constraint of a registered index against
    the other entities) agree on every operation through either store, whatever the registration
    order — both succeed with the same entity table, or both fail and the engine's error is among
    those the spec allows (so with several faults ANY registration order reports one of them) -/
theorem step_refines_spec {sch : Schema} {s : State} (hi : Inv sch s) (op : Op) :
    match stepRaw sch s op, Spec.step sch (abs s) op with
    | .ok s', .ok t' => abs s' = t'
    | .error e, .error es => e ∈ es
    | _, _ => False :=
  stepRaw_refines hi op

/-- the bucket dump of a consistent state is the dump derived from the entity table alone -/
theorem render_eq_spec {sch : Schema} {s : State} (hi : Inv sch s) (l : Line) :
    l ∈ Render sch s ↔ l ∈ Spec.render sch (abs s) :=
  render_eq_spec_lines hi l

/-- the nil dereference in `setIndex.ProcessAfterUpdate/ProcessBeforeDelete` (an empty old value)
    is unreachable from consistent states -/
theorem no_panic {sch : Schema} {s : State} (hi : Inv sch s) (op : Op) : stepRaw sch s op ≠ .error .panic :=
  stepRaw_no_panic hi

/-! ### non-vacuity -/

def exA : Vals := ⟨[120], some [121], [[114], [115]]⟩
def exB : Vals := ⟨[121], none, [[114]]⟩
/-- a schema with a three-element base path, in which symbol name, stored key and caller-side name of
    `name` all differ, all three indexes registered in the order roles, alias, name -/
def exSch : Schema :=
  ⟨[[112], [113], [114]], ⟨[110], [107], [100]⟩, ⟨bAlias, bAlias, [113]⟩, ⟨bRoles, bRoles, [97, 116]⟩, bTag, bTag, true, true, true, .ran⟩
/-- the same without the index on `alias` -/
def exSch2 : Schema := { exSch with regAlias := false }
/-- a reachable state: a (with child data) and b (plain) share role r -/
def exState : State := run exSch [[.create .child [97] exA [116], .create .parent [98] exB []]]

example : exState.base.uName.lookup [120] = some [97] ∧ exState.base.uName.lookup [121] = some [98] ∧
    exState.base.sRoles.lookup [114] = some [[97], [98]] ∧ exState.ext.lookup [97] = some [116] := by decide
example : Inv exSch exState := inv_reachable _ _
/-- `WouldDuplicate` is satisfiable: b takes a's name, the patch naming the field by its caller-side name -/
example : WouldDuplicate exSch exState (.update .parent [98] ⟨[120], none, []⟩ [] (some [[100]])) :=
  ⟨[98], ⟨[120], none, [[114]]⟩, by decide,
    Or.inl ⟨by decide, [97], ⟨[120], some [121], [[114], [115]]⟩, by decide, by decide, by decide⟩, by decide, by decide,
    by decide, by decide⟩
example : (step exSch exState (.update .parent [98] ⟨[120], none, []⟩ [] (some [[100]]))).2 = .err .dup := by decide
/-- … whereas the symbol name or the stored key in the checker selects nothing -/
example : (step exSch exState (.update .parent [98] ⟨[120], none, []⟩ [] (some [[110], [107]]))).1.base.ents.lookup [98]
    = some ⟨[121], none, [[114]]⟩ := by decide
/-- `WouldBeEmpty` is satisfiable, also for a child-store create over the existing plain parent b -/
example : WouldBeEmpty exSch exState (.create .child [98] ⟨[], none, []⟩ [116]) :=
  ⟨[98], ⟨[], none, []⟩, by decide, rfl, rfl, fun h => h.1 (by decide), by decide, by decide⟩
example : (step exSch exState (.create .child [98] ⟨[], none, []⟩ [116])).2 = .err .nullNotAllowed := by decide
/-- two faults at once: the registration order decides (roles before name: `other`; the plain order: `null`) -/
example : (step exSch exState (.create .parent [99] ⟨[], none, [[]]⟩ [])).2 = .err .other ∧
    (step { exSch with perm := .nar } exState (.create .parent [99] ⟨[], none, [[]]⟩ [])).2 = .err .nullNotAllowed := by decide
/-- hand-over inside one transaction: a releases x (update through the parent store, delegated to
    the child store), b takes it -/
example : ((txStep exSch exState [.update .parent [97] ⟨[122], none, []⟩ [] (some [[100]]),
                                  .update .parent [98] ⟨[120], none, []⟩ [] (some [[100]])]).1.base.uName.lookup [120]) = some [98] := by decide
/-- the last holder of a role leaves: the index key disappears -/
example : (step exSch exState (.update .child [97] ⟨[120], none, [[114]]⟩ [116] (some [[97, 116]]))).1.base.sRoles.lookup [115] = none := by decide
/-- deleting a (child data: two passes of the parent's `ProcessBeforeDelete`) leaves b's entry under the shared role -/
example : (step exSch exState (.delete .child [97])).1.base.sRoles.lookup [114] = some [[98]] ∧
    (step exSch exState (.delete .child [97])).1.ext.lookup [97] = none := by decide
/-- a child-store create over the plain parent b replaces b's index entries -/
example : (step exSch exState (.create .child [98] ⟨[122], none, [[115]]⟩ [116])).1.base.uName.lookup [121] = none ∧
    (step exSch exState (.create .child [98] ⟨[122], none, [[115]]⟩ [116])).1.base.sRoles.lookup [114] = some [[97]] := by decide
/-- without the index on `alias` two entities may share an alias, and its bucket stays empty -/
example : (run exSch2 [[.create .parent [97] exA [], .create .parent [98] ⟨[122], some [121], []⟩ []]]).base.uAlias = [] ∧
    ((run exSch2 [[.create .parent [97] exA [], .create .parent [98] ⟨[122], some [121], []⟩ []]]).base.ents.lookup [98]).isSome = true := by decide
/-- the index buckets of `exSch` sit below its three-element base path -/
example : idxPath exSch exSch.name.sym = [[112], [113], [114], StorageModel.C03.bIndexes, StorageModel.C03.bThings, [110]] := by decide

end StorageModel.Properties.C03

/-! ## Store chains of any depth (root → child → grandchild → …; StorageModel/C03/C03.Chain.lean)

  Every level declares a unique and a set index of its own; create / full update / patch through level k
  run the capture-old / apply-new protocol at levels 0, 1, …, k exactly as `IndexingContext` recurses
  through its `Parent` contexts; a delete visits the constraints of levels 0 and 1 only (the root fans
  out to the stores registered with it).  All theorems: every depth, every level j, every history. -/
namespace StorageModel.Properties.C03
open StorageModel StorageModel.C03.Chain
open StorageModel.C03 (Map Id Err Res UI SI NEK)

/-- every level of the freshly initialised chain, whatever its depth -/
theorem chain_inv_init (depth : Nat) : C03.Chain.Inv (C03.Chain.State.empty depth) := C03.Chain.inv_empty depth

/-- one operation (own transaction) through any level keeps level j's invariant, provided it is `Safe`
    for level j: updates and patches always are; a create is when the immediate parent level holds
    the id (then every level below is captured) or level j does not hold the id yet; a delete is for
    j < 2, and for deeper levels when they do not hold the id -/
theorem chain_inv_step {s : C03.Chain.State} {j : Nat} (op : C03.Chain.Op) (hs : Safe s j op) (h : LInvAt s j) :
    LInvAt (C03.Chain.step s op).1 j :=
  inv_txStep_at [op] ⟨hs, by cases C03.Chain.stepRaw s op <;> trivial⟩ h

theorem chain_inv_tx {s : C03.Chain.State} {j : Nat} (ops : List C03.Chain.Op) (hs : SafeOps j s ops) (h : LInvAt s j) :
    LInvAt (C03.Chain.txStep s ops).1 j := inv_txStep_at ops hs h

/-- **all chain depths, all finite histories**: level j's invariant after any history whose operations
    are safe for level j -/
theorem chain_inv_reachable (depth : Nat) (txs : List (List C03.Chain.Op)) (j : Nat)
    (hs : SafeTxs j (C03.Chain.State.empty depth) txs) : LInvAt (C03.Chain.run depth txs) j :=
  inv_fold_at txs _ hs (C03.Chain.inv_empty depth j)

/-- the delete clause for the levels the code cleans: EVERY delete keeps the root's and the child
    level's invariant (both passes of the root's constraints included) -/
theorem chain_delete_cleans_root_and_child {s : C03.Chain.State} {j : Nat} (id : Id) (hj : j < 2) (h : LInvAt s j) :
    LInvAt (C03.Chain.step s (.delete id)).1 j := chain_inv_step _ (Or.inl hj) h

/-- the full delete clause (every level) is what the property asks; it does NOT hold (witness below) -/
def chain_delete_fullStatement : Prop :=
  ∀ (s : C03.Chain.State) (j : Nat) (id : Id), LInvAt s j → LInvAt (C03.Chain.step s (.delete id)).1 j

/-- proved part: the levels the code visits, and every level that does not hold the id -/
theorem chain_delete_partial {s : C03.Chain.State} {j : Nat} (id : Id) (hj : j < 2 ∨ Absent s j id) (h : LInvAt s j) :
    LInvAt (C03.Chain.step s (.delete id)).1 j := chain_inv_step _ hj h

/-- the property's wording at level j of a reachable state -/
theorem chain_unique_index_exact (depth : Nat) (txs : List (List C03.Chain.Op)) (j : Nat)
    (hs : SafeTxs j (C03.Chain.State.empty depth) txs) (L : Level) (hL : (C03.Chain.run depth txs).levels[j]? = some L)
    (v : Bytes) (id : Id) : L.uniq.lookup v = some id ↔ (v ≠ [] ∧ ∃ r, L.data.lookup id = some r ∧ r.u = v) :=
  (chain_inv_reachable depth txs j hs L hL).uniq v id

theorem chain_set_index_exact (depth : Nat) (txs : List (List C03.Chain.Op)) (j : Nat)
    (hs : SafeTxs j (C03.Chain.State.empty depth) txs) (L : Level) (hL : (C03.Chain.run depth txs).levels[j]? = some L)
    (v : Bytes) (id : Id) : id ∈ (L.set.lookup v).getD [] ↔ ∃ r, L.data.lookup id = some r ∧ v ∈ r.s :=
  (chain_inv_reachable depth txs j hs L hL).set v id

theorem chain_no_empty_keys (depth : Nat) (txs : List (List C03.Chain.Op)) (j : Nat)
    (hs : SafeTxs j (C03.Chain.State.empty depth) txs) (L : Level) (hL : (C03.Chain.run depth txs).levels[j]? = some L)
    (v : Bytes) (ids : List Id) (h : L.set.lookup v = some ids) : ids ≠ [] :=
  (chain_inv_reachable depth txs j hs L hL).noEmptyKeys v ids h

/-- a create through level `recs.length - 1` whose first fault in level order is a unique value of
    level j (any level of the chain — the ROOT's included, offered through the deepest store) held by
    another entity -/
structure CreateDupAt (s : C03.Chain.State) (id : Id) (recs : List Rec) (j : Nat) : Prop where
  idNonBlank : id ≠ []
  fits : ¬ (recs = [] ∨ s.levels.length < recs.length)
  fresh : levelHas s.levels (recs.length - 1) id = false
  safe : Safe s j (.create id recs)
  lowerOk : ∀ k, k < j → ∀ L r, s.levels[k]? = some L → recs[k]? = some r →
    ∃ L', createLevel (capOf s recs.length id) id k L r = .ok L'
  held : ∃ L r other r', s.levels[j]? = some L ∧ recs[j]? = some r ∧ r.u ≠ [] ∧ other ≠ id ∧
    L.data.lookup other = some r' ∧ r'.u = r.u

/-- … fails with the duplicate error and changes nothing -/
theorem chain_dup_rejected {s : C03.Chain.State} {id : Id} {recs : List Rec} {j : Nat} (hi : LInvAt s j)
    (hw : CreateDupAt s id recs j) : C03.Chain.step s (.create id recs) = (s, .err .dup) := by
  obtain ⟨L, r, other, r', hL, hr, hne, hoid, hlo, hu⟩ := hw.held
  have hput : createLevel (capOf s recs.length id) id (0 + j) L r = .error .dup := by
    unfold createLevel
    refine put_dup (hi L hL) ?_ hne hlo hoid hu
    rcases hw.safe with hcap | habs
    · simp [hcap]
    · simp [habs L hL]
  have hm := mapPrefix_error j s.levels recs 0 (by simpa using hw.lowerOk) L r hL hr hput
  have : C03.Chain.create s id recs = .error .dup := by
    unfold C03.Chain.create
    simp only [hw.idNonBlank, if_false, hw.fits, hw.fresh, Bool.false_eq_true]
    simp only [capOf] at hm
    simp [hm]
  simp [C03.Chain.step, C03.Chain.txStep, C03.Chain.applyOps, C03.Chain.stepRaw, this]

/-- the same with an empty value for level j's (non-nullable) unique index -/
structure CreateEmptyAt (s : C03.Chain.State) (id : Id) (recs : List Rec) (j : Nat) : Prop where
  idNonBlank : id ≠ []
  fits : ¬ (recs = [] ∨ s.levels.length < recs.length)
  fresh : levelHas s.levels (recs.length - 1) id = false
  safe : Safe s j (.create id recs)
  lowerOk : ∀ k, k < j → ∀ L r, s.levels[k]? = some L → recs[k]? = some r →
    ∃ L', createLevel (capOf s recs.length id) id k L r = .ok L'
  empty : ∃ L r, s.levels[j]? = some L ∧ recs[j]? = some r ∧ r.u = []

theorem chain_empty_rejected {s : C03.Chain.State} {id : Id} {recs : List Rec} {j : Nat} (hi : LInvAt s j)
    (hw : CreateEmptyAt s id recs j) : C03.Chain.step s (.create id recs) = (s, .err .nullNotAllowed) := by
  obtain ⟨L, r, hL, hr, he⟩ := hw.empty
  have hput : createLevel (capOf s recs.length id) id (0 + j) L r = .error .nullNotAllowed := by
    unfold createLevel
    refine put_empty (hi L hL) ?_ (by simp) he
    rcases hw.safe with hcap | habs
    · simp [hcap]
    · simp [habs L hL]
  have hm := mapPrefix_error j s.levels recs 0 (by simpa using hw.lowerOk) L r hL hr hput
  have : C03.Chain.create s id recs = .error .nullNotAllowed := by
    unfold C03.Chain.create
    simp only [hw.idNonBlank, if_false, hw.fits, hw.fresh, Bool.false_eq_true]
    simp only [capOf] at hm
    simp [hm]
  simp [C03.Chain.step, C03.Chain.txStep, C03.Chain.applyOps, C03.Chain.stepRaw, this]

/-- an update / patch ending at level `recs.length - 1` (after the hand-over to the deepest store
    holding the id) whose first fault in level order is level j's new unique value held by another entity -/
structure UpdateDupAt (s : C03.Chain.State) (id : Id) (recs : List Rec) (chk : Option (List Sel)) (j : Nat) : Prop where
  idNonBlank : id ≠ []
  fits : ¬ (recs = [] ∨ s.levels.length < recs.length)
  found : levelHas s.levels (recs.length - 1) id = true
  lowerOk : ∀ k, k < j → ∀ L r, s.levels[k]? = some L → recs[k]? = some r → ∃ L', updateLevel chk id k L r = .ok L'
  held : ∃ L r o other r', s.levels[j]? = some L ∧ recs[j]? = some r ∧ L.data.lookup id = some o ∧
    (persist o r (selAt chk j)).u ≠ [] ∧ other ≠ id ∧ L.data.lookup other = some r' ∧ r'.u = (persist o r (selAt chk j)).u

theorem chain_update_dup_rejected {s : C03.Chain.State} {id : Id} {recs : List Rec} {chk : Option (List Sel)} {j : Nat}
    (hi : LInvAt s j) (hw : UpdateDupAt s id recs chk j) : C03.Chain.updateAt s id recs chk = .error .dup := by
  obtain ⟨L, r, o, other, r', hL, hr, ho, hne, hoid, hlo, hu⟩ := hw.held
  have hput : updateLevel chk id (0 + j) L r = .error .dup := by
    unfold updateLevel
    simp only [ho, Nat.zero_add]
    exact put_dup (hi L hL) ho.symm hne hlo hoid hu
  have hm := mapPrefix_error j s.levels recs 0 (by simpa using hw.lowerOk) L r hL hr hput
  unfold C03.Chain.updateAt
  simp only [hw.idNonBlank, if_false, hw.fits, hw.found, Bool.not_true, Bool.false_eq_true]
  simp [hm]

/-- a transaction that ends in an error leaves the chain unchanged (modelled rollback) -/
theorem chain_error_changes_nothing (s : C03.Chain.State) (ops : List C03.Chain.Op) (h : (C03.Chain.txStep s ops).2 ≠ .ok) :
    (C03.Chain.txStep s ops).1 = s := by
  unfold C03.Chain.txStep at h ⊢
  split
  · next h' => simp [h'] at h
  · rfl

/-! non-vacuity on a three-level chain: a (through the grandchild store), b (root only) -/
def cA : List Rec := [⟨[120], [[114]]⟩, ⟨[121], [[115]]⟩, ⟨[122], [[116]]⟩]
def cState : C03.Chain.State := C03.Chain.run 3 [[.create [97] cA], [.create [98] [⟨[119], [[114]]⟩]]]

example : (cState.levels.map (·.uniq)) = [[([119], [98]), ([120], [97])], [([121], [97])], [([122], [97])]] := by decide
/-- a duplicate of the ROOT's unique value offered through the grandchild store is refused, nothing changes -/
example : C03.Chain.step cState (.create [99] [⟨[120], []⟩, ⟨[112], []⟩, ⟨[113], []⟩]) = (cState, .err .dup) := by decide
example : CreateDupAt cState [99] [⟨[120], []⟩, ⟨[112], []⟩, ⟨[113], []⟩] 0 :=
  ⟨by decide, by decide, by decide, Or.inr (by
    intro L hL
    have h0 : (cState.levels[0]?).map (fun L => L.data.lookup [99]) = some none := by decide
    rw [hL] at h0; simpa using h0), fun k hk => by omega,
   ⟨_, ⟨[120], []⟩, [97], ⟨[120], [[114]]⟩, rfl, rfl, by decide, by decide, by decide, rfl⟩⟩
/-- a duplicate of the GRANDCHILD level's value (root and child values fine) -/
example : C03.Chain.step cState (.create [99] [⟨[112], []⟩, ⟨[113], []⟩, ⟨[122], []⟩]) = (cState, .err .dup) := by decide
/-- an empty value for the child level's unique index, through the grandchild store -/
example : C03.Chain.step cState (.create [99] [⟨[112], []⟩, ⟨[], []⟩, ⟨[113], []⟩]) = (cState, .err .nullNotAllowed) := by decide
/-- a patch through the ROOT store of an entity held down to the grandchild level: handed over twice, all
    three levels re-indexed -/
example : ((C03.Chain.step cState (.update [97] [⟨[110], [[114]]⟩] none)).1.levels.map (·.uniq)) =
    [[([110], [97]), ([119], [98])], [([121], [97])], [([122], [97])]] := by decide
/-- grandchild create over root + child data: every level below is captured, entries replaced -/
example : ((C03.Chain.run 3 [[.create [97] [⟨[120], []⟩, ⟨[121], []⟩]], [.create [97] [⟨[110], []⟩, ⟨[111], []⟩, ⟨[112], []⟩]]]).levels.map (·.uniq)) =
    [[([110], [97])], [([111], [97])], [([112], [97])]] := by decide
/-- `SafeTxs` is satisfiable: a create through the grandchild store on the empty chain, any level -/
example (j : Nat) : SafeTxs j (C03.Chain.State.empty 3) [[.create [97] cA]] := by
  refine ⟨⟨Or.inr ?_, by split <;> trivial⟩, trivial⟩
  intro L hL
  have : L ∈ List.replicate 3 Level.empty := List.mem_of_getElem? hL
  rw [List.eq_of_mem_replicate this]; rfl

/-- **witness (the code as it is)**: a committed delete leaves the grandchild level's index entries of the
    deleted entity behind — `chain_delete_fullStatement` is false -/
theorem deep_delete_leaves_entries :
    let s := C03.Chain.run 3 [[.create [97] cA], [.delete [97]]]
    s.levels.map (·.data) = [[], [], []] ∧ s.levels.map (·.uniq) = [[], [], [([122], [97])]] ∧
    s.levels.map (·.set) = [[], [], [([116], [[97]])]] := by decide

/-- **witness**: a create through the grandchild store over an entity the root holds and the child does
    not captures nothing (only the immediate parent is asked): the root's old entry stays -/
theorem uncovered_create_breaks_root :
    ((C03.Chain.run 3 [[.create [97] [⟨[120], []⟩]], [.create [97] [⟨[110], []⟩, ⟨[111], []⟩, ⟨[112], []⟩]]]).levels.map (·.uniq)) =
    [[([110], [97]), ([120], [97])], [([111], [97])], [([112], [97])]] := by decide

end StorageModel.Properties.C03

#print axioms StorageModel.Properties.C03.chain_inv_reachable
#print axioms StorageModel.Properties.C03.chain_dup_rejected

#print axioms StorageModel.Properties.C03.inv_reachable
#print axioms StorageModel.Properties.C03.step_refines_spec
#print axioms StorageModel.Properties.C03.render_eq_spec
#print axioms StorageModel.Properties.C03.dup_rejected
#print axioms StorageModel.Properties.C03.index_paths_distinct
