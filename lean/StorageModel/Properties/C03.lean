import StorageModel.C03.LayeredReject
/-
  C03 — Unique and set indexes mirror entity state; uniqueness is enforced.

  "After any sequence of committed creates, full updates, field-restricted updates and deletes, a
  unique index maps each non-empty indexed value to exactly the one entity currently holding it,
  and a set index maps each value to exactly the set of entities whose set field currently
  contains it, with no entries for deleted entities or stale values and no empty index keys left
  behind.  A create or update that would give two entities the same unique value, or an empty
  value in a non-nullable unique index, fails with the corresponding error and changes nothing."

  Model: StorageModel/C03/Model.lean (boltz Create / Update / DeleteById with the
  capture-old / apply-new IndexingContext protocol, one explicit map per index bucket) and
  StorageModel/C03/Layered.lean, which puts a plain CHILD store on top of the indexed store
  (creates through the child store — also over an existing plain parent entity —, updates through
  either store, deletes through either store with the parent's `ProcessBeforeDelete` running once
  per store that holds the entity) and a SCHEMA giving every field a symbol name, a stored key and
  a caller-side (FieldChecker) name; patches name fields by the caller-side name.
  Spec:  StorageModel/C03/LayeredSpec.lean over StorageModel/C03/Spec.lean (entity table only,
  indexes derived).
  All theorems quantify over every schema / state / operation / finite history of transactions.
-/
namespace StorageModel.Properties.C03
open StorageModel StorageModel.C03.Layered
open StorageModel.C03 (Map Id Ent Vals Err Line bAlias bRoles)

/-- the invariant holds for the freshly initialised database -/
theorem inv_init : Inv State.empty := inv_empty

/-- every operation kind through either store, accepted or rejected, run in its own transaction,
    preserves it -/
theorem inv_step (sch : Schema) {s : State} (op : Op) (h : Inv s) : Inv (step sch s op).1 := inv_txStep [op] h

/-- so does every transaction of several operations (committed, or rolled back at the first error) -/
theorem inv_tx (sch : Schema) {s : State} (ops : List Op) (h : Inv s) : Inv (txStep sch s ops).1 := inv_txStep ops h

/-- **all finite histories**: the invariant holds after any sequence of transactions -/
theorem inv_reachable (sch : Schema) (txs : List (List Op)) : Inv (run sch txs) := by
  unfold run
  suffices ∀ s, C03.Layered.Inv s → C03.Layered.Inv (txs.foldl (fun s ops => (txStep sch s ops).1) s) from this _ inv_init
  induction txs with
  | nil => intro s h; exact h
  | cons ops rest ih => intro s h; exact ih _ (inv_tx sch ops h)

/-- unique index = image of the entity table, in every reachable state (non-nullable `name`) -/
theorem unique_index_exact (sch : Schema) (txs : List (List Op)) (v : Bytes) (id : Id) :
    (run sch txs).base.uName.lookup v = some id ↔
      (v ≠ [] ∧ ∃ e, (run sch txs).base.ents.lookup id = some e ∧ e.name = v) :=
  (inv_reachable sch txs).base.uName v id

/-- the same for the nullable index on `alias` (nil and empty are not indexed) -/
theorem nullable_unique_index_exact (sch : Schema) (txs : List (List Op)) (v : Bytes) (id : Id) :
    (run sch txs).base.uAlias.lookup v = some id ↔
      (v ≠ [] ∧ ∃ e, (run sch txs).base.ents.lookup id = some e ∧ e.alias.getD [] = v) :=
  (inv_reachable sch txs).base.uAlias v id

/-- set index = exactly the entities whose set field contains the value, in every reachable state -/
theorem set_index_exact (sch : Schema) (txs : List (List Op)) (v : Bytes) (id : Id) :
    id ∈ ((run sch txs).base.sRoles.lookup v).getD [] ↔
      ∃ e, (run sch txs).base.ents.lookup id = some e ∧ v ∈ e.roles :=
  (inv_reachable sch txs).base.sRoles v id

/-- no empty index keys are left behind -/
theorem no_empty_keys (sch : Schema) (txs : List (List Op)) (v : Bytes) (ids : List Id)
    (h : (run sch txs).base.sRoles.lookup v = some ids) : ids ≠ [] :=
  (inv_reachable sch txs).base.noEmptyKeys v ids h

/-- child data exists only inside an existing entity bucket -/
theorem child_data_inside_entity (sch : Schema) (txs : List (List Op)) (id : Id) (t : Bytes)
    (h : (run sch txs).ext.lookup id = some t) : ((run sch txs).base.ents.lookup id).isSome = true :=
  (inv_reachable sch txs).extIn id t h

/-- "exactly the one entity": an entity is found under one value only … -/
theorem uniq_injective {s : State} (hi : Inv s) {v v' : Bytes} {a : Id}
    (h : s.base.uName.lookup v = some a) (h' : s.base.uName.lookup v' = some a) : v = v' := by
  obtain ⟨_, e, he, rfl⟩ := (hi.base.uName v a).1 h
  obtain ⟨_, e', he', rfl⟩ := (hi.base.uName v' a).1 h'
  rw [he] at he'; cases he'; rfl

/-- … and two entities never hold the same (non-empty) unique value -/
theorem unique_holder {s : State} (hi : Inv s) {a b : Id} {e e' : Ent}
    (ha : s.base.ents.lookup a = some e) (hb : s.base.ents.lookup b = some e') (h : e.name = e'.name) : a = b := by
  have hne := hi.base.namesNonEmpty a e ha
  have h1 := (hi.base.uName e.name a).2 ⟨hne, e, ha, rfl⟩
  have h2 := (hi.base.uName e.name b).2 ⟨hne, e', hb, h.symm⟩
  rw [h1] at h2; cases h2; rfl

/-- a write — through either store — that would give two entities the same unique value fails with
    the duplicate error and changes nothing -/
theorem dup_rejected {sch : Schema} {s : State} {op : Op} (hi : Inv s) (hw : WouldDuplicate sch s op) :
    step sch s op = (s, .err .dup) := by
  simp [step, txStep, applyOps, stepRaw_dup hi hw]

/-- an empty value for the non-nullable unique index fails with the null-not-allowed error and
    changes nothing -/
theorem empty_rejected {sch : Schema} {s : State} {op : Op} (hi : Inv s) (hw : WouldBeEmpty sch s op) :
    step sch s op = (s, .err .nullNotAllowed) := by
  simp [step, txStep, applyOps, stepRaw_empty hi hw]

/-- a transaction that ends in an error leaves the state unchanged (this is the modelled bbolt
    rollback: true by construction of `txStep`, listed so that the assumption is visible) -/
theorem error_changes_nothing (sch : Schema) (s : State) (ops : List Op) (h : (txStep sch s ops).2 ≠ .ok) :
    (txStep sch s ops).1 = s := by
  unfold txStep at h ⊢
  split
  · next s' hs => rw [hs] at h; exact absurd rfl h
  · rfl

/-- **refinement**: on a consistent state the engine model and the spec (entity table and child
    data only; refuse exactly the writes that would break a constraint against the other entities)
    agree on every operation through either store — both succeed with the same entity table, or
    both fail and the engine's error is among those the spec allows -/
theorem step_refines_spec {sch : Schema} {s : State} (hi : Inv s) (op : Op) :
    match stepRaw sch s op, Spec.step sch (abs s) op with
    | .ok s', .ok t' => abs s' = t'
    | .error e, .error es => e ∈ es
    | _, _ => False :=
  stepRaw_refines hi op

/-- the bucket dump of a consistent state is the dump derived from the entity table alone -/
theorem render_eq_spec {sch : Schema} {s : State} (hi : Inv s) (l : Line) :
    l ∈ Render sch s ↔ l ∈ Spec.render sch (abs s) :=
  render_eq_spec_lines hi l

/-- the nil dereference in `setIndex.ProcessAfterUpdate/ProcessBeforeDelete` (an empty old value)
    is unreachable from consistent states -/
theorem no_panic {sch : Schema} {s : State} (hi : Inv s) (op : Op) : stepRaw sch s op ≠ .error .panic :=
  stepRaw_no_panic hi

/-! ### non-vacuity -/

def exA : Vals := ⟨[120], some [121], [[114], [115]]⟩
def exB : Vals := ⟨[121], none, [[114]]⟩
/-- a schema in which symbol name, stored key and caller-side name of `name` all differ -/
def exSch : Schema := ⟨⟨[110], [107], [100]⟩, ⟨bAlias, bAlias, [113]⟩, ⟨bRoles, bRoles, [97, 116]⟩, bTag, bTag⟩
/-- a reachable state: a (with child data) and b (plain) share role r -/
def exState : State := run exSch [[.create .child [97] exA [116], .create .parent [98] exB []]]

example : exState.base.uName.lookup [120] = some [97] ∧ exState.base.uName.lookup [121] = some [98] ∧
    exState.base.sRoles.lookup [114] = some [[97], [98]] ∧ exState.ext.lookup [97] = some [116] := by decide
example : Inv exState := inv_reachable _ _
/-- `WouldDuplicate` is satisfiable: b takes a's name, the patch naming the field by its caller-side name -/
example : WouldDuplicate exSch exState (.update .parent [98] ⟨[120], none, []⟩ [] (some [[100]])) :=
  ⟨[98], ⟨[120], none, [[114]]⟩, by decide, by decide, Or.inl ⟨[97], ⟨[120], some [121], [[114], [115]]⟩, by decide, by decide, rfl⟩⟩
example : (step exSch exState (.update .parent [98] ⟨[120], none, []⟩ [] (some [[100]]))).2 = .err .dup := by decide
/-- … whereas the symbol name or the stored key in the checker selects nothing -/
example : (step exSch exState (.update .parent [98] ⟨[120], none, []⟩ [] (some [[110], [107]]))).1.base.ents.lookup [98]
    = some ⟨[121], none, [[114]]⟩ := by decide
/-- `WouldBeEmpty` is satisfiable, also for a child-store create over the existing plain parent b -/
example : WouldBeEmpty exSch exState (.create .child [98] ⟨[], none, []⟩ [116]) := ⟨[98], ⟨[], none, []⟩, by decide, rfl⟩
example : (step exSch exState (.create .child [98] ⟨[], none, []⟩ [116])).2 = .err .nullNotAllowed := by decide
/-- hand-over inside one transaction: a releases x (update through the parent store, delegated to
    the child store), b takes it -/
example : ((txStep exSch exState [.update .parent [97] ⟨[122], none, []⟩ [] (some [[100]]),
                                  .update .parent [98] ⟨[120], none, []⟩ [] (some [[100]])]).1.base.uName.lookup [120]) = some [98] := by decide
/-- the last holder of a role leaves: the index key disappears -/
example : (step exSch exState (.update .child [97] ⟨[120], none, [[114]]⟩ [116] (some [[97, 116]]))).1.base.sRoles.lookup [115] = none := by decide
/-- deleting a (child data: two passes of the parent's `ProcessBeforeDelete`) leaves b's entry under the shared role -/
example : (step exSch exState (.delete .child [97])).1.base.sRoles.lookup [114] = some [[98]] ∧
    (step exSch exState (.delete .child [97])).1.ext.lookup [97] = none := by decide
/-- a child-store create over the plain parent b replaces b's index entries -/
example : (step exSch exState (.create .child [98] ⟨[122], none, [[115]]⟩ [116])).1.base.uName.lookup [121] = none ∧
    (step exSch exState (.create .child [98] ⟨[122], none, [[115]]⟩ [116])).1.base.sRoles.lookup [114] = some [[97]] := by decide

end StorageModel.Properties.C03

#print axioms StorageModel.Properties.C03.inv_reachable
#print axioms StorageModel.Properties.C03.step_refines_spec
#print axioms StorageModel.Properties.C03.render_eq_spec
#print axioms StorageModel.Properties.C03.dup_rejected
