/-
  Bytes: Go strings / []byte are modelled as `List UInt8`.
  Hex helpers are used only by the driver (line protocol), never by a proof.
-/
namespace StorageModel

abbrev Bytes := List UInt8

namespace Bytes

def hexDigit (n : Nat) : Char :=
  if n < 10 then Char.ofNat (48 + n) else Char.ofNat (87 + n)

def toHex (b : Bytes) : String :=
  String.ofList (b.flatMap fun x => [hexDigit (x.toNat / 16), hexDigit (x.toNat % 16)])

def hexVal (c : Char) : Option Nat :=
  if '0' ≤ c ∧ c ≤ '9' then some (c.toNat - 48)
  else if 'a' ≤ c ∧ c ≤ 'f' then some (c.toNat - 87)
  else if 'A' ≤ c ∧ c ≤ 'F' then some (c.toNat - 55)
  else none

def ofHexChars : List Char → Option Bytes
  | [] => some []
  | [_] => none
  | a :: b :: rest => do
    let x ← hexVal a
    let y ← hexVal b
    let r ← ofHexChars rest
    pure (UInt8.ofNat (x * 16 + y) :: r)

/-- "-" denotes the empty byte string on the wire (so that fields never vanish). -/
def ofHex (s : String) : Option Bytes :=
  if s = "-" then some [] else ofHexChars s.toList

def toWire (b : Bytes) : String := if b.isEmpty then "-" else toHex b

def ofString (s : String) : Bytes := s.toUTF8.toList

end Bytes
end StorageModel
