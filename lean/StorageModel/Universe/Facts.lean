import StorageModel.Universe.Oracle
import StorageModel.Properties.C09
/-
  Universe stream — what a clean verdict of the oracle means, and witnesses that every predicate can fail.

  `clean_is_consistent`: a dump on which the oracle finds nothing denotes a state of the integrity model
  without inconsistencies (`C09.Inv` for the schema read off the description), hence — `C09.check_sound`,
  `check_readonly` — the MODEL of `CheckIntegrity(fix=false)` reports nothing on it and returns it unchanged.
  The stream compares exactly that with what the REAL `CheckIntegrity` says about the database the dump was
  taken from (checks/universe.py, class C09).

  Build (not part of any check's critical path):
    cd /verif/lean && flock /verif/.build/lock lake build StorageModel.Universe.Facts
-/
namespace StorageModel.Universe
open StorageModel StorageModel.C09

/-- nothing found ⇒ every unique index, set index, back-reference set and link set of the dump is the image of
    its entity tables -/
theorem clean_is_consistent (S : USchema) (d : Dump) (h : (judge S d).fails = []) :
    C09.Inv (toC09 S) (readSt S d) := by
  unfold judge at h
  simp only [List.append_eq_nil_iff, List.map_eq_nil_iff] at h
  exact h.1.1.1.1

/-- … and the number the stream compares with the real checker's report count is 0 -/
theorem clean_inc_zero (S : USchema) (d : Dump) (h : (judge S d).fails = []) : (judge S d).inc = 0 := by
  have := clean_is_consistent S d h
  unfold C09.Inv at this
  simp [judge, this]

/-- on such a dump the model of the integrity checker is silent and read-only (C09 `check_sound`,
    `check_readonly`); `WF` is what bbolt gives (distinct keys per bucket) -/
theorem clean_checker_silent (S : USchema) (d : Dump) (hwf : (readSt S d).WF) (h : (judge S d).fails = []) :
    (checkAll (toC09 S) false (readSt S d)).2 = [] ∧ (checkAll (toC09 S) false (readSt S d)).1 = readSt S d :=
  ⟨StorageModel.Properties.C09.check_sound _ _ hwf (clean_is_consistent S d h),
   (StorageModel.Properties.C09.check_readonly _ _).1⟩

/-! ### witnesses: a parent store with a re-keyed unique field, an extended child store with a set-indexed
    list, a ref-counted collection of the store with itself through two symbols -/

def wS : USchema :=
  { stores := [⟨"A", "alphas", none, false, ["u", "v"]⟩, ⟨"A1", "alphas", some "A", true, ["x", "a"]⟩]
    fields := [⟨"A", "sa", "Ksa", ["p"], "Csa", false, none⟩, ⟨"A1", "lb", "lb", [], "lb", true, none⟩]
    cons := [.ux "A" "sa" false, .sx "A1" "lb"]
    links := [⟨"L0", true, ⟨"A", "ma", "ma", []⟩, ⟨"A", "mb", "Kmb", ["refs"]⟩⟩]
    ids := [("A", [bs "e1", bs "e2"])] }

def eA : Path := bsl ["u", "v", "alphas"]
def iA : Path := bsl ["u", "v", "indexes", "alphas"]

/-- e1 with child data (list value r1), linked to itself with count 2 -/
def wGood : Dump :=
  [ .bucket (bsl ["u"]), .bucket (bsl ["u", "v"]), .bucket eA, .bucket (bsl ["u", "v", "indexes"]), .bucket iA,
    .bucket (iA ++ [bs "sa"]), .bucket (iA ++ [bs "lb"]),
    .bucket (eA ++ [bs "e1"]), .bucket (eA ++ bsl ["e1", "p"]), .kv (eA ++ bsl ["e1", "p"]) (bs "Ksa") (5 :: bs "v1"),
    .bucket (eA ++ bsl ["e1", "x"]), .bucket (eA ++ bsl ["e1", "x", "a"]), .bucket (eA ++ bsl ["e1", "x", "a", "lb"]),
    .kv (eA ++ bsl ["e1", "x", "a", "lb"]) (5 :: bs "r1") [],
    .bucket (eA ++ bsl ["e1", "ma"]), .kv (eA ++ bsl ["e1", "ma"]) (5 :: bs "e1") [2, 2, 0, 0, 0],
    .bucket (eA ++ bsl ["e1", "refs"]), .bucket (eA ++ bsl ["e1", "refs", "Kmb"]),
    .kv (eA ++ bsl ["e1", "refs", "Kmb"]) (5 :: bs "e1") [2, 2, 0, 0, 0],
    .kv (iA ++ [bs "sa"]) (bs "v1") (bs "e1"),
    .bucket (iA ++ [bs "lb", bs "r1"]), .kv (iA ++ [bs "lb", bs "r1"]) (5 :: bs "e1") [] ]

example : (judge wS wGood).fails = [] := by decide +kernel

def classesOf (v : Verdict) : List String := (v.fails.flatMap (·.cls)).eraseDups
def predsOf (v : Verdict) : List String := (v.fails.map (·.pred)).eraseDups

/-- the unique entry is missing: C03 (and C15: the entity has child data) -/
example : classesOf (judge wS (wGood.erase (.kv (iA ++ [bs "sa"]) (bs "v1") (bs "e1")))) = ["C03", "C15"] := by
  decide +kernel

/-- a stale unique entry for the absent id e2: C03, C06 (a trace), found structurally and by the byte scan -/
example : predsOf (judge wS (wGood ++ [.kv (iA ++ [bs "sa"]) (bs "v2") (bs "e2")])) = ["uniqueExact", "noTrace"] ∧
    classesOf (judge wS (wGood ++ [.kv (iA ++ [bs "sa"]) (bs "v2") (bs "e2")])) = ["C03", "C06"] := by decide +kernel

/-- the two sides of the ref-counted collection disagree: C05 -/
example : predsOf (judge wS (wGood.map fun e =>
    if e = .kv (eA ++ bsl ["e1", "ma"]) (5 :: bs "e1") [2, 2, 0, 0, 0] then .kv (eA ++ bsl ["e1", "ma"]) (5 :: bs "e1") [2, 1, 0, 0, 0]
    else e)) = ["rcAgree"] := by decide +kernel

/-- the shared field written one level too low (into the child path's intermediate bucket): not of the schema, C15 -/
example : classesOf (judge wS (wGood ++ [.kv (eA ++ bsl ["e1", "x"]) (bs "Ksa") (5 :: bs "v1")])) = ["C15", "C06"] := by
  decide +kernel

/-- an emptied value bucket left in the child store's set index: C03 `no_empty_keys` -/
example : predsOf (judge wS (wGood ++ [.bucket (iA ++ [bs "lb", bs "r2"])])) = ["noEmptyKeys"] := by decide +kernel

end StorageModel.Universe
