import StorageModel.C09.Spec
import StorageModel.C09.Universe
/-
  Universe stream — the schema family and the database dump (harness/shared_universe.go, notes/UNIVERSE.md).

  A schema is data: root stores with base paths, child stores (plain / extended) with data paths, fields in
  their naming variants (symbol name, stored key, bucket prefix, caller-side checker name), unique / set /
  fk indexes, fk constraints, plain and ref-counted link collections between any two stores.  The dump is
  what `boltz.Traverse` visits: buckets and key/value pairs with their bucket paths.  Everything here is
  executable and core-only; nothing is assumed about HOW the database was produced.
-/
namespace StorageModel.Universe
open StorageModel StorageModel.C09

abbrev Path := List Bytes

structure UStore where
  name : Name
  etype : Name
  parent : Option Name
  ext : Bool
  /-- root store: `BasePath`; child store: the data path inside the parent's entity bucket -/
  path : List Name
  deriving Repr, DecidableEq

structure UField where
  store : Name
  sym : Name
  key : Name
  pre : List Name
  chk : Name
  isList : Bool
  linked : Option Name
  deriving Repr, DecidableEq

structure UBack where
  store : Name
  sym : Name
  referrer : Name
  deriving Repr, DecidableEq

inductive UCons
  | ux (st f : Name) (nullable : Bool)
  | sx (st f : Name)
  | fi (st f : Name) (nullable cascade : Bool) (tgt back : Name)
  | fc (st f : Name) (nullable cascade : Bool) (tgt : Name)
  deriving Repr, DecidableEq

structure UEnd where
  store : Name
  sym : Name
  key : Name
  pre : List Name
  deriving Repr, DecidableEq

structure ULink where
  name : Name
  rc : Bool
  a : UEnd
  b : UEnd
  deriving Repr, DecidableEq

def ULink.selfSame (l : ULink) : Bool := l.a.store == l.b.store && l.a.sym == l.b.sym

structure USchema where
  stores : List UStore := []
  fields : List UField := []
  backs : List UBack := []
  cons : List UCons := []
  links : List ULink := []
  /-- per root store: the ids the history speaks about (scanned for traces when absent) -/
  ids : List (Name × List Bytes) := []
  /-- root stores with the bool field `isSystem` and the system entity constraint -/
  sys : List Name := []
  deriving Repr

def USchema.store? (S : USchema) (n : Name) : Option UStore := S.stores.find? fun s => s.name == n

def USchema.rootOf (S : USchema) (st : UStore) : UStore :=
  match st.parent with
  | none => st
  | some p => (S.store? p).getD st

def USchema.roots (S : USchema) : List UStore := S.stores.filter fun s => s.parent.isNone

def USchema.childrenOf (S : USchema) (root : UStore) : List UStore :=
  S.stores.filter fun s => s.parent == some root.name

def USchema.family (S : USchema) (root : UStore) : List UStore := root :: S.childrenOf root

def bs (s : String) : Bytes := Bytes.ofString s
def bsl (l : List String) : Path := l.map bs

/-- the entities bucket of a family: `BasePath ++ [EntityType]` of the ROOT store -/
def USchema.entitiesPath (S : USchema) (st : UStore) : Path :=
  let r := S.rootOf st
  bsl (r.path ++ [r.etype])

/-- `Indexer.getIndexPath`: root path ++ "indexes" ++ entity type of the symbol's store ++ symbol NAME -/
def USchema.indexPath (S : USchema) (st : UStore) (sym : Name) : Path :=
  let r := S.rootOf st
  bsl (r.path ++ ["indexes", st.etype, sym])

/-- where a store's record of an entity lives inside the ROOT entity bucket: `[]` for a root store, the
    data path for a child store (`GetEntityBucket` = `entityBucket.GetPath(store.entityPath...)`) -/
def UStore.area (st : UStore) : List Name := if st.parent.isSome then st.path else []

/-! ### the dump -/

inductive Entry
  /-- a bucket, with its full path (own key last) -/
  | bucket (path : Path)
  /-- a key/value pair inside the bucket `dir` -/
  | kv (dir : Path) (key val : Bytes)
  deriving Repr, DecidableEq

abbrev Dump := List Entry

def Dump.hasBucket (d : Dump) (p : Path) : Bool := d.any fun e => e == .bucket p

/-- keys of the sub-buckets of `dir`, in dump order -/
def Dump.subBuckets (d : Dump) (dir : Path) : List Bytes :=
  d.filterMap fun e =>
    match e with
    | .bucket p => if p.dropLast == dir then p.getLast? else none
    | _ => none

def Dump.kvs (d : Dump) (dir : Path) : List (Bytes × Bytes) :=
  d.filterMap fun e =>
    match e with
    | .kv p k v => if p == dir then some (k, v) else none
    | _ => none

def Dump.get (d : Dump) (dir : Path) (key : Bytes) : Option Bytes :=
  (d.kvs dir).lookup key

/-- `GetTypeAndValue`: first byte = field type, the rest the value -/
def untype (b : Bytes) : Bytes := b.drop 1

/-- a stored scalar as `symbol.Eval` sees it: missing key / empty / `TypeNil` (7) ↦ nil, else the value -/
def fvalOf : Option Bytes → FVal
  | none => .nil
  | some [] => .nil
  | some (t :: rest) => if t = 7 then .nil else .str rest

/-! ### parsing the line protocol (driver only) -/

def splitC (s : String) : List String := s.splitOn ":"

def pathOf (s : String) : List String := if s = "-" ∨ s = "" then [] else s.splitOn "."

def optName (s : String) : Option Name := if s = "-" ∨ s = "" then none else some s

def parseToken (S : USchema) (t : String) : Option USchema :=
  match splitC t with
  | ["st", name, etype, parent, ext, path, _] =>
    let par := optName parent
    let et := match par.bind S.store? with
      | some p => p.etype
      | none => etype
    some { S with stores := S.stores ++ [⟨name, et, par, ext == "1", pathOf path⟩] }
  | ["f", store, sym, key, pre, chk, kind, linked] =>
    some { S with fields := S.fields ++ [⟨store, sym, key, pathOf pre, chk, kind == "l", optName linked⟩] }
  | ["bk", store, sym, ref] => some { S with backs := S.backs ++ [⟨store, sym, ref⟩] }
  | ["ux", st, f, n] => some { S with cons := S.cons ++ [.ux st f (n == "1")] }
  | ["sx", st, f] => some { S with cons := S.cons ++ [.sx st f] }
  | ["fi", st, f, n, c, tgt, back] => some { S with cons := S.cons ++ [.fi st f (n == "1") (c == "1") tgt back] }
  | ["fc", st, f, n, c, tgt] => some { S with cons := S.cons ++ [.fc st f (n == "1") (c == "d") tgt] }
  | ["lk", name, k, sa, fa, ka, pa, sb, fb, kb, pb] =>
    some { S with links := S.links ++ [⟨name, k == "r", ⟨sa, fa, ka, pathOf pa⟩, ⟨sb, fb, kb, pathOf pb⟩⟩] }
  | ["ids", root, l] =>
    match ((l.splitOn ",").filter (· ≠ "")).mapM Bytes.ofHex with
    | some ids => some { S with ids := S.ids ++ [(root, ids)] }
    | none => none
  | ["sy", st] => some { S with sys := S.sys ++ [st] }
  | "cx" :: _ => some S
  | _ => none

def parseSchema (toks : List String) : Option USchema :=
  toks.foldlM parseToken {}

def parsePath (s : String) : Option Path := (s.splitOn ".").mapM Bytes.ofHex

def parseEntry (t : String) : Option Entry :=
  if t.startsWith "b" then (parsePath (t.drop 1).toString).map .bucket
  else if t.startsWith "k" then
    match (t.drop 1).toString.splitOn "=" with
    | [p, v] => do
      let path ← parsePath p
      let val ← Bytes.ofHex v
      let key ← path.getLast?
      pure (.kv path.dropLast key val)
    | _ => none
  else none

def parseDump (toks : List String) : Option Dump :=
  if toks = ["-"] then some [] else toks.mapM parseEntry

end StorageModel.Universe
