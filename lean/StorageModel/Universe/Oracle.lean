import StorageModel.Universe.Schema
/-
  Universe stream — the ORACLE: given a schema and a whole-database dump it decides the state predicates
  that the store-level properties establish, by theorem, for every reachable state of THEIR models:

  | predicate (this file)        | established for the property's model by                                   | class |
  |------------------------------|----------------------------------------------------------------------------|-------|
  | `uniqueExact` / `notNull`    | C03 `unique_index_exact`, `nullable_unique_index_exact`, `empty_rejected`  | C03   |
  | `setExact`                   | C03 `set_index_exact`                                                      | C03   |
  | `noEmptyKeys`                | C03 `no_empty_keys` (no empty value bucket, no plain key in a set index)   | C03   |
  | `fkExact`                    | C04 `fk_inv_reachable` (`FullInv`: back-references = referrers, targets    | C04   |
  |                              | exist, no nil in a non-nullable reference), `fk_target_exists`             |       |
  | `linksSymmetric`             | C05 `schema_links_symmetric`, `schema_links_point_to_existing`             | C05   |
  | `rcAgree`                    | C05 `schema_rc_agree` (same count on both sides, 0 < count), `schema_coherent` | C05 |
  | `noTrace` / `explained`      | C06 `tx_removed_no_trace`, `absent_no_trace` (no line of the dump mentions | C06   |
  |                              | an absent id), `no_fk_names_absent`                                        |       |
  | `childInside`, `parentCovers`| C15 `invariant_for_every_path`, `parent_constraints_apply_to_child_entities`, | C15 |
  |                              | `parent_and_child_parts_disjoint`, C03 `child_data_inside_entity`          |       |
  | `noSystem`                   | C16 `ordinary_history_preserves_system`: a history of ordinary contexts    | C16   |
  |                              | leaves no system entity (every context of the stream is ordinary)          |       |
  | `inconsistencies = []`       | C09 `check_sound` / `check_clean_iff` / `layered_check_sound`: on such a    | C09   |
  |                              | state `CheckIntegrity(fix=false)` reports nothing (`check_readonly`: and   |       |
  |                              | writes nothing) — compared with the REAL checker's answer by checks/universe.py |   |

  The index / back-reference / link predicates are not re-invented: the dump is read into the generic
  state of the integrity model (`C09.St`), the schema into a `C09.Schema`, and the predicates are the
  members of `C09.inconsistencies` — the symmetric difference between every unique index / set index /
  back-reference set / link set and the image of the entity table (C09/Spec.lean).  A child store is one
  more store name whose table is the entities that have its data bucket (`C09.PSt.view`, Layered.lean).
  Added here: ref-counted collections (the integrity checker does not visit them), "nothing in the dump is
  unexplained", the byte-level scan for absent ids, and the attribution of a discrepancy to the properties.
-/
namespace StorageModel.Universe
open StorageModel StorageModel.C09

/-! ### reading the dump as a state of the integrity model -/

/-- the ids of a store: sub-buckets of the family's entities bucket (a child store: those that contain its
    data path) -/
def storeIds (S : USchema) (d : Dump) (st : UStore) : List Id :=
  let ep := S.entitiesPath st
  (d.subBuckets ep).filter fun id => st.parent.isNone || d.hasBucket (ep ++ [id] ++ bsl st.path)

/-- names and bucket locations (inside the store's area) of the list-like symbols of a store: string-list
    fields, fk back-reference sets, ends of PLAIN link collections -/
def listSyms (S : USchema) (st : UStore) : List (Name × List Name) :=
  ((S.fields.filter fun f => f.store == st.name && f.isList).map fun f => (f.sym, f.pre ++ [f.key]))
  ++ ((S.backs.filter fun b => b.store == st.name).map fun b => (b.sym, [b.sym]))
  ++ (S.links.filter fun l => !l.rc).flatMap fun l =>
      (if l.a.store == st.name then [(l.a.sym, l.a.pre ++ [l.a.key])] else [])
      ++ (if l.b.store == st.name && !l.selfSame then [(l.b.sym, l.b.pre ++ [l.b.key])] else [])

def readEnt (S : USchema) (d : Dump) (st : UStore) (id : Id) : Id × Ent :=
  let dir := S.entitiesPath st ++ [id] ++ bsl st.area
  let fields := (S.fields.filter fun f => f.store == st.name && !f.isList).map fun f =>
    (f.sym, fvalOf (d.get (dir ++ bsl f.pre) (bs f.key)))
  let sets := (listSyms S st).map fun (n, loc) => (n, (d.kvs (dir ++ bsl loc)).map fun kv => untype kv.1)
  (id, mkEnt fields sets)

def uniqueIdxs (S : USchema) : List (Name × Name) :=
  S.cons.filterMap fun c => match c with
    | .ux st f _ => some (st, f)
    | _ => none

def setIdxs (S : USchema) : List (Name × Name) :=
  S.cons.filterMap fun c => match c with
    | .sx st f => some (st, f)
    | _ => none

def readSetx (d : Dump) (p : Path) : List (Bytes × SVal) :=
  ((d.subBuckets p).map fun k => (k, SVal.ids ((d.kvs (p ++ [k])).map fun kv => untype kv.1)))
  ++ (d.kvs p).map fun kv => (kv.1, SVal.junk)

/-- **the state of the integrity model that the dump denotes** -/
def readSt (S : USchema) (d : Dump) : St :=
  let ents := S.stores.map fun st => (st.name, (storeIds S d st).map (readEnt S d st))
  let uniq := (uniqueIdxs S).filterMap fun (st, f) =>
    (S.store? st).map fun s => ((st, f), d.kvs (S.indexPath s f))
  let setx := (setIdxs S).filterMap fun (st, f) =>
    (S.store? st).map fun s => ((st, f), readSetx d (S.indexPath s f))
  mkSt ents uniq setx

/-- **the schema as the integrity model's schema** (`BaseStore.CheckIntegrity`: link collections, then the
    constraints in registration order) -/
def toC09 (S : USchema) : C09.Schema :=
  S.stores.map fun st =>
    { name := st.name
      links := (S.links.filter fun l => !l.rc).flatMap fun l =>
        (if l.a.store == st.name then [⟨l.a.store, l.a.sym, l.b.store, l.b.sym⟩] else [])
        ++ (if l.b.store == st.name && !l.selfSame then [⟨l.b.store, l.b.sym, l.a.store, l.a.sym⟩] else [])
      constraints := S.cons.filterMap fun c => match c with
        | .ux s f n => if s == st.name then some (.unique s f n) else none
        | .sx s f => if s == st.name then some (.setIdx s f) else none
        | .fi s f n _ tgt back => if s == st.name then some (.fkIndex s f n tgt back) else none
        | .fc s f n _ tgt => if s == st.name then some (.fkCons s f n tgt) else none }

/-! ### failures and their attribution -/

structure Fail where
  cls : List String
  pred : String
  detail : String
  deriving Repr

def hx (b : Bytes) : String := Bytes.toWire b

def isChild (S : USchema) (st : Name) : Bool :=
  match S.store? st with
  | some s => s.parent.isSome
  | none => false

/-- does the root entity `id` of `st`'s family carry data of some child store -/
def hasChildData (S : USchema) (s : St) (st : Name) (id : Id) : Bool :=
  match S.store? st with
  | some u => (S.childrenOf (S.rootOf u)).any fun c => s.present c.name id
  | none => false

/-- C15 takes part when the discrepancy is about a child store's own constraint, or about a parent-store
    constraint on an entity that has child data ("parent indexes cover child entities") -/
def c15 (S : USchema) (s : St) (st : Name) (id : Id) : List String :=
  if isChild S st || hasChildData S s st id then ["C15"] else []

/-- an emptied value bucket names no entity; in a family with child stores the double delete pass of an entity
    with child data is one way to leave it behind (C15 `delete_fans_out_to_every_child_store`), so C15 takes part -/
def famHasChildren (S : USchema) (st : Name) : Bool :=
  match S.store? st with
  | some u => !(S.childrenOf (S.rootOf u)).isEmpty
  | none => false

/-- C06 takes part when the discrepancy mentions an id that is no entity ("a trace") -/
def c06 (s : St) (st : Name) (id : Id) : List String := if s.present st id then [] else ["C06"]

def consKind (S : USchema) (st f : Name) : String :=
  match S.cons.find? (fun c => match c with
    | .ux s g _ => s == st && g == f
    | .sx s g => s == st && g == f
    | .fi s g _ _ _ _ => s == st && g == f
    | .fc s g _ _ _ => s == st && g == f) with
  | some (.ux ..) => "C03"
  | some (.sx ..) => "C03"
  | _ => "C04"

/-- one member of `C09.inconsistencies` as a failed predicate of the owning properties:

    * `uqExtra` / `uqMissing` — **uniqueExact**: C03 `unique_index_exact`, `nullable_unique_index_exact` (index entry
      `v ↦ id` iff `v ≠ ""` and entity `id` holds `v`); two holders of one value show as a missing entry (`uniq_injective`);
    * `sxExtra` / `sxMissing` — **setExact**: C03 `set_index_exact`;
    * `sxEmptyKey` / `sxJunkKey` — **noEmptyKeys**: C03 `no_empty_keys`;
    * `fkBackExtra` / `fkBackMissing` / `fkDangling` — **fkExact**: C04 `fk_inv_reachable` (`FullInv`), `fk_target_exists`,
      `delete_clears_all_backrefs`, `restrict_never_orphans`, `cascade_exact`;
    * `null` — **notNull**: C03 `empty_rejected` (unique index) / C04 `null_rejected_when_not_nullable` (fk);
    * `lkDangling` / `lkOneSided` — **linksSymmetric**: C05 `schema_links_symmetric`, `schema_self_links_symmetric`,
      `schema_links_point_to_existing`, `schema_delete_unlinks`;
    * every one of them, on a child store's constraint or about an entity with child data — **parentCovers**: C15
      `parent_constraints_apply_to_child_entities`, `invariant_for_every_path`;
    * every one of them that names an id that is no entity — also a trace: C06 `tx_removed_no_trace`. -/
def discFail (S : USchema) (s : St) : Disc → Fail
  | .uqExtra st f k id => ⟨["C03"] ++ c15 S s st id ++ c06 s st id, "uniqueExact", s!"stale {st}.{f} {hx k}->{hx id}"⟩
  | .uqMissing st f v id => ⟨["C03"] ++ c15 S s st id, "uniqueExact", s!"missing {st}.{f} {hx v}->{hx id}"⟩
  | .sxExtra st f k id => ⟨["C03"] ++ c15 S s st id ++ c06 s st id, "setExact", s!"stale {st}.{f} {hx k}:{hx id}"⟩
  | .sxMissing st f v id => ⟨["C03"] ++ c15 S s st id, "setExact", s!"missing {st}.{f} {hx v}:{hx id}"⟩
  | .sxEmptyKey st f k => ⟨["C03"] ++ (if famHasChildren S st then ["C15"] else []), "noEmptyKeys", s!"empty value bucket {st}.{f} {hx k}"⟩
  | .sxJunkKey st f k => ⟨["C03"], "noEmptyKeys", s!"plain key in set index {st}.{f} {hx k}"⟩
  | .fkBackExtra st f t src => ⟨["C04"] ++ c15 S s st src ++ c06 s st src, "fkExact", s!"stale back-reference {st}.{f} {hx t}<-{hx src}"⟩
  | .fkBackMissing st f src t => ⟨["C04"] ++ c15 S s st src, "fkExact", s!"missing back-reference {st}.{f} {hx src}->{hx t}"⟩
  | .fkDangling st f src t => ⟨["C04", "C06"] ++ c15 S s st src, "fkExact", s!"dangling {st}.{f} {hx src}->{hx t}"⟩
  | .null st f id => ⟨[consKind S st f] ++ c15 S s st id, "notNull", s!"nil or empty in non-nullable {st}.{f} of {hx id}"⟩
  | .lkDangling st f id l => ⟨["C05", "C06"] ++ c15 S s st id, "linksSymmetric", s!"dangling link {st}.{f} {hx id}->{hx l}"⟩
  | .lkOneSided st f id l => ⟨["C05"] ++ c15 S s st id, "linksSymmetric", s!"one-sided link {st}.{f} {hx id}->{hx l}"⟩
  | .lkNoInverse st f => ⟨["C05"], "linksSymmetric", s!"no inverse collection for {st}.{f}"⟩

/-! ### ref-counted collections — **rcAgree**: C05 `schema_rc_agree` (`rcOf … (.A, a) b = rcOf … (.B, b) a`, `0 < c`),
    `schema_coherent` (counts only inside existing entities), `schema_delete_unlinks_rc` -/

/-- little-endian int32 behind the type byte 2 (`Int32ToBytes`) -/
def int32Of (v : Bytes) : Option Int :=
  match v with
  | [2, a, b, c, e] =>
    let n : Nat := a.toNat + 256 * b.toNat + 65536 * c.toNat + 16777216 * e.toNat
    some (if n < 2147483648 then (n : Int) else (n : Int) - 4294967296)
  | _ => none

def rcMap (S : USchema) (d : Dump) (e : UEnd) (id : Id) : List (Id × Option Int) :=
  match S.store? e.store with
  | some st =>
    (d.kvs (S.entitiesPath st ++ [id] ++ bsl (st.area ++ e.pre ++ [e.key]))).map fun kv => (untype kv.1, int32Of kv.2)
  | none => []

def rcSide (S : USchema) (d : Dump) (s : St) (l : ULink) (me other : UEnd) : List Fail :=
  (s.ids me.store).flatMap fun id =>
    (rcMap S d me id).filterMap fun (k, n) =>
      let cls := ["C05"] ++ c15 S s me.store id
      match n with
      | none => some ⟨cls, "rcAgree", s!"{l.name} {me.store}.{me.sym} {hx id}->{hx k}: not a count"⟩
      | some c =>
        if c ≤ 0 then some ⟨cls, "rcAgree", s!"{l.name} {me.store}.{me.sym} {hx id}->{hx k}: count {c} not positive"⟩
        else if !s.present other.store k then
          some ⟨cls ++ ["C06"], "rcAgree", s!"{l.name} {me.store}.{me.sym} {hx id}->{hx k}: counted entity does not exist"⟩
        else match (rcMap S d other k).lookup id with
          | some (some c') =>
            if c' = c then none
            else some ⟨cls, "rcAgree", s!"{l.name} {me.store}.{me.sym} {hx id}->{hx k}: {c} here, {c'} on the other side"⟩
          | _ => some ⟨cls, "rcAgree", s!"{l.name} {me.store}.{me.sym} {hx id}->{hx k}: {c} here, nothing on the other side"⟩

def rcFails (S : USchema) (d : Dump) (s : St) : List Fail :=
  (S.links.filter (·.rc)).flatMap fun l => rcSide S d s l l.a l.b ++ rcSide S d s l l.b l.a

/-! ### **explained**: nothing unexplained — the dump is what `Render` of the entity tables would print, empty buckets
    aside (C06 `absent_no_trace` speaks about every line of `Render`; C15 `parent_and_child_parts_disjoint`,
    `layering_shape_irrelevant`: shared fields in the entity bucket, child fields in the child's data bucket, nothing in
    the intermediate buckets of a multi-segment data path; C03 `index_paths_distinct`, `index_paths_off_entities`) -/

def isPrefix : Path → Path → Bool
  | [], _ => true
  | _ :: _, [] => false
  | a :: as, b :: bs => a == b && isPrefix as bs

/-- bucket locations inside a ROOT entity bucket of the family that hold list entries (any key) -/
def famListLocs (S : USchema) (root : UStore) : List Path :=
  (S.family root).flatMap fun st =>
    ((listSyms S st).map fun (_, loc) => bsl (st.area ++ loc))
    ++ (S.links.filter (·.rc)).flatMap fun l =>
        (if l.a.store == st.name then [bsl (st.area ++ l.a.pre ++ [l.a.key])] else [])
        ++ (if l.b.store == st.name then [bsl (st.area ++ l.b.pre ++ [l.b.key])] else [])

/-- (bucket, key) locations of the scalar fields -/
def famScalarLocs (S : USchema) (root : UStore) : List (Path × Bytes) :=
  (if S.sys.contains root.name then [([], bs "isSystem")] else [])
  ++ (S.family root).flatMap fun st =>
    (S.fields.filter fun f => f.store == st.name && !f.isList).map fun f => (bsl (st.area ++ f.pre), bs f.key)

/-- every bucket path that may exist inside a root entity bucket -/
def famDirs (S : USchema) (root : UStore) : List Path :=
  famListLocs S root ++ (famScalarLocs S root).map (·.1) ++ (S.childrenOf root).map fun c => bsl c.path

def underChildPath (S : USchema) (root : UStore) (rel : Path) : Bool :=
  (S.childrenOf root).any fun c => match (bsl c.path).head?, rel.head? with
    | some a, some b => a == b
    | _, _ => false

def famIndexPaths (S : USchema) (root : UStore) : List (Path × Bool) :=
  (S.family root).flatMap fun st =>
    S.cons.filterMap fun c => match c with
      | .ux s f _ => if s == st.name then some (S.indexPath st f, false) else none
      | .sx s f => if s == st.name then some (S.indexPath st f, true) else none
      | _ => none

/-- why an entry is unexplained (`none`: it is explained by the schema) -/
def unexplained (S : USchema) (e : Entry) : Option Fail :=
  let roots := S.roots
  let within := fun (r : UStore) (p : Path) => isPrefix (S.entitiesPath r) p && p.length > (S.entitiesPath r).length
  match e with
  | .bucket p =>
    if roots.any (fun r => isPrefix p (S.entitiesPath r) || (famIndexPaths S r).any fun ip => isPrefix p ip.1) then none
    else match roots.find? (fun r => within r p) with
      | some r =>
        let rel := p.drop ((S.entitiesPath r).length + 1)
        if rel.isEmpty || (famDirs S r).any (fun q => isPrefix rel q) then none
        else some ⟨if underChildPath S r rel then ["C15", "C06"] else ["C06"], "explained",
          s!"bucket {".".intercalate (p.map hx)} inside an entity of {r.name} is not of the schema"⟩
      | none =>
        if roots.any (fun r => (famIndexPaths S r).any fun ip => ip.2 && p.dropLast == ip.1) then none
        else some ⟨["C03"], "explained", s!"bucket {".".intercalate (p.map hx)} is not of the schema"⟩
  | .kv dir k _ =>
    match roots.find? (fun r => within r dir) with
    | some r =>
      let rel := dir.drop ((S.entitiesPath r).length + 1)
      if (famListLocs S r).contains rel || (famScalarLocs S r).contains (rel, k) then none
      else some ⟨if underChildPath S r rel then ["C15", "C06"] else ["C06"], "explained",
        s!"key {hx k} in {".".intercalate (dir.map hx)} inside an entity of {r.name} is not of the schema"⟩
    | none =>
      if roots.any (fun r => (famIndexPaths S r).any fun ip =>
          (!ip.2 && dir == ip.1) || (ip.2 && (dir == ip.1 || dir.dropLast == ip.1))) then none
      else some ⟨["C03"], "explained", s!"key {hx k} in {".".intercalate (dir.map hx)} is not of the schema"⟩

/-! ### **noTrace**: no path element, key or value — plain or behind a type byte — is an absent id (C06
    `tx_removed_no_trace`, `absent_no_trace`, `delete_no_trace`, `boss_cascade_no_trace`; `Mentions` of C06/NoTrace.lean
    is this comparison; `NoClash` holds by construction: pool ids differ from every name, value and path segment) -/

def mentions (id : Bytes) : Entry → Bool
  | .bucket p => p.any fun x => x == id || untype x == id
  | .kv dir k v => dir.any (fun x => x == id || untype x == id) || k == id || untype k == id || v == id || untype v == id

/-- the ids of the pools that are entities of no family whose pool lists them -/
def absentIds (S : USchema) (s : St) : List Bytes :=
  let all := (S.ids.flatMap (·.2)).eraseDups
  all.filter fun id => S.ids.all fun (root, pool) => !pool.contains id || !s.present root id

def traceFails (S : USchema) (d : Dump) (s : St) : List Fail :=
  (absentIds S s).filterMap fun id =>
    (d.find? (mentions id)).map fun e =>
      ⟨["C06"], "noTrace", s!"absent id {hx id} is mentioned: " ++ (match e with
        | .bucket p => "bucket " ++ ".".intercalate (p.map hx)
        | .kv dir k v => ".".intercalate (dir.map hx) ++ " " ++ hx k ++ "=" ++ hx v)⟩

/-! ### no system entity (C16): every context of the stream is an ordinary one -/

def systemFails (S : USchema) (d : Dump) (s : St) : List Fail :=
  S.sys.flatMap fun r =>
    match S.store? r with
    | some st => (s.ids r).filterMap fun id =>
        -- `SetBool`: type byte 1, value byte 1
        if d.get (S.entitiesPath st ++ [id]) (bs "isSystem") == some [1, 1] then
          some ⟨["C16"] ++ c15 S s r id, "noSystem", s!"{r} {hx id} is a system entity"⟩
        else none
    | none => []

/-! ### the verdict -/

structure Verdict where
  /-- members of `C09.inconsistencies` — what the integrity checker has to report, by `check_complete`, and
      the only thing it may report, by `check_sound_reports` -/
  inc : Nat
  fails : List Fail

def judge (S : USchema) (d : Dump) : Verdict :=
  let s := readSt S d
  let discs := inconsistencies (toC09 S) s
  { inc := discs.length
    fails := discs.map (discFail S s) ++ rcFails S d s ++ d.filterMap (unexplained S) ++ traceFails S d s
      ++ systemFails S d s }

def renderVerdict (v : Verdict) : String :=
  if v.fails.isEmpty then s!"ok inc={v.inc}"
  else s!"FAIL inc={v.inc} | " ++ " | ".intercalate ((v.fails.take 12).map fun f =>
    ",".intercalate f.cls.eraseDups ++ " " ++ f.pred ++ " " ++ f.detail)

end StorageModel.Universe
