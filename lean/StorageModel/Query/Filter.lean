import StorageModel.Query.Compare
/-
  The filter fragment the C02 / C19 checks use (the filter language as a whole belongs to
  C01): `true`, a comparison of a symbol with a constant of the symbol's own type, `= null`,
  `!= null`, and their closure under `and`, `or`, `not`.  Evaluation follows ast/node_expr.go (`Binary*ExprNode.EvalBool`, `IsNilExprNode`)
  over an `ast.Symbols` implementation, of which there are two: boltz `rowCursorImpl` and objectz
  `ObjectCursor`.
-/
namespace StorageModel.Query
open StorageModel

inductive CmpOp where
  | eq | ne | lt | le | gt | ge
  deriving Repr, DecidableEq, Inhabited

inductive Filter where
  | tt
  | cmpBool (name : String) (op : CmpOp) (v : Bool)
  | cmpInt (name : String) (op : CmpOp) (v : Int)
  | cmpFloat (name : String) (op : CmpOp) (bits : Nat)
  | cmpStr (name : String) (op : CmpOp) (v : Bytes)
  | cmpTime (name : String) (op : CmpOp) (ns : Int)
  | isNull (name : String)
  | notNull (name : String)
  | and (a b : Filter)
  | or (a b : Filter)
  | not (a : Filter)
  deriving Repr, DecidableEq, Inhabited

/-- `ast.Symbols`, the part these filters use -/
structure Symbols where
  evalBool : String → Option Bool
  evalString : String → Option Bytes
  evalInt64 : String → Option Int
  evalFloat64 : String → Option Nat
  evalDatetime : String → Option Int
  isNil : String → Bool

def fEq (a b : Nat) : Bool := !fIsNaN a && !fIsNaN b && decide (fOrd a = fOrd b)
def fLe (a b : Nat) : Bool := !fIsNaN a && !fIsNaN b && decide (fOrd a ≤ fOrd b)

/-- the `switch node.op` of the numeric / string / datetime binary nodes, both operands non-nil -/
def opOn {κ : Type} (eq lt le : κ → κ → Bool) (op : CmpOp) (l r : κ) : Bool :=
  match op with
  | .eq => eq l r
  | .ne => !eq l r
  | .lt => lt l r
  | .le => le l r
  | .gt => lt r l
  | .ge => le r l

/-- `if leftResult == nil || rightResult == nil { if op == NEQ { return leftResult != rightResult }; return false }`
    with a constant (never nil) on the right -/
def cmpNullable {κ : Type} (eq lt le : κ → κ → Bool) (op : CmpOp) (l : Option κ) (r : κ) : Bool :=
  match l with
  | none => op == .ne
  | some l => opOn eq lt le op l r

def evalFilter (s : Symbols) : Filter → Bool
  | .tt => true
  -- BinaryBoolExprNode over BoolSymbolNode (`result != nil && *result`) and BoolConstNode; only = and !=
  | .cmpBool name op v =>
    let l := (s.evalBool name).getD false
    match op with
    | .eq => l == v
    | .ne => l != v
    | _ => false
  | .cmpInt name op v => cmpNullable (fun a b => decide (a = b)) (fun a b => decide (a < b)) (fun a b => decide (a ≤ b)) op (s.evalInt64 name) v
  | .cmpFloat name op v => cmpNullable fEq fLt fLe op (s.evalFloat64 name) v
  | .cmpStr name op v =>
    cmpNullable (fun a b => cmpBytes a b == .eq) (fun a b => cmpBytes a b == .lt) (fun a b => cmpBytes a b != .gt) op (s.evalString name) v
  | .cmpTime name op v => cmpNullable (fun a b => decide (a = b)) (fun a b => decide (a < b)) (fun a b => decide (a ≤ b)) op (s.evalDatetime name) v
  | .isNull name => s.isNil name
  | .notNull name => !s.isNil name
  -- AndExprNode / OrExprNode / NotExprNode (short-circuit evaluation of pure operands)
  | .and a b => evalFilter s a && evalFilter s b
  | .or a b => evalFilter s a || evalFilter s b
  | .not a => !evalFilter s a

/-- boltz `rowCursorImpl` positioned on a row -/
def boltSymbols (r : Row) : Symbols where
  evalBool name := fieldToBool (evalSym name r)
  evalString name := fieldToString (evalSym name r)
  evalInt64 name := fieldToInt64 (evalSym name r)
  evalFloat64 name := fieldToFloat64 (evalSym name r)
  evalDatetime name := fieldToDatetime (evalSym name r)
  isNil name := evalSym name r == .nil          -- fieldType == TypeNil

/-- **specification**: what a filter of this fragment means for a row whose field has the given
    value (`none` = null).  Comparisons with null are false except `!=`; a null bool reads as false. -/
def satValue (f : Filter) (b : Option Bool) (i : Option Int) (x : Option Nat) (s : Option Bytes) (t : Option Int)
    (isNull : Bool) : Bool :=
  match f with
  | .tt => true
  | .cmpBool _ .eq v => b.getD false == v
  | .cmpBool _ .ne v => b.getD false != v
  | .cmpBool _ _ _ => false
  | .cmpInt _ op v => match i with | none => op == .ne | some l => opOn (fun a b => decide (a = b)) (fun a b => decide (a < b)) (fun a b => decide (a ≤ b)) op l v
  | .cmpFloat _ op v => match x with | none => op == .ne | some l => opOn fEq fLt fLe op l v
  | .cmpStr _ op v => match s with
    | none => op == .ne
    | some l => opOn (fun a b => cmpBytes a b == .eq) (fun a b => cmpBytes a b == .lt) (fun a b => cmpBytes a b != .gt) op l v
  | .cmpTime _ op v => match t with | none => op == .ne | some l => opOn (fun a b => decide (a = b)) (fun a b => decide (a < b)) (fun a b => decide (a ≤ b)) op l v
  | .isNull _ => isNull
  | .notNull _ => !isNull
  | .and _ _ | .or _ _ | .not _ => false     -- not atoms

/-- the symbol an atom is about -/
def Filter.symbol : Filter → Option String
  | .tt | .and _ _ | .or _ _ | .not _ => none
  | .cmpBool n _ _ | .cmpInt n _ _ | .cmpFloat n _ _ | .cmpStr n _ _ | .cmpTime n _ _ | .isNull n | .notNull n => some n

/-- every symbol the filter mentions -/
def Filter.symbols : Filter → List String
  | .and a b | .or a b => a.symbols ++ b.symbols
  | .not a => a.symbols
  | .tt => []
  | .cmpBool n _ _ | .cmpInt n _ _ | .cmpFloat n _ _ | .cmpStr n _ _ | .cmpTime n _ _ | .isNull n | .notNull n => [n]

/-- the row satisfies the atom -/
def satAtom (r : Row) (f : Filter) : Bool :=
  match f.symbol with
  | none => true
  | some n =>
    let v := evalSym n r
    satValue f (fieldToBool v) (fieldToInt64 v) (fieldToFloat64 v) (fieldToString v) (fieldToDatetime v) (v == .nil)

/-- the row satisfies the filter -/
def sat (r : Row) : Filter → Bool
  | .and a b => sat r a && sat r b
  | .or a b => sat r a || sat r b
  | .not a => !sat r a
  | .tt => true
  | .cmpBool n op v => satAtom r (.cmpBool n op v)
  | .cmpInt n op v => satAtom r (.cmpInt n op v)
  | .cmpFloat n op v => satAtom r (.cmpFloat n op v)
  | .cmpStr n op v => satAtom r (.cmpStr n op v)
  | .cmpTime n op v => satAtom r (.cmpTime n op v)
  | .isNull n => satAtom r (.isNull n)
  | .notNull n => satAtom r (.notNull n)

theorem bolt_eval_sat (r : Row) (f : Filter) : evalFilter (boltSymbols r) f = sat r f := by
  induction f with
  | and a b iha ihb => simp only [evalFilter, sat, iha, ihb]
  | or a b iha ihb => simp only [evalFilter, sat, iha, ihb]
  | not a iha => simp only [evalFilter, sat, iha]
  | tt => rfl
  | cmpBool n op v => simp only [evalFilter, sat, satAtom, Filter.symbol, satValue, boltSymbols]; cases op <;> rfl
  | cmpInt n op v =>
    simp only [evalFilter, sat, satAtom, Filter.symbol, satValue, boltSymbols, cmpNullable]
    cases fieldToInt64 (evalSym n r) <;> rfl
  | cmpFloat n op v =>
    simp only [evalFilter, sat, satAtom, Filter.symbol, satValue, boltSymbols, cmpNullable]
    cases fieldToFloat64 (evalSym n r) <;> rfl
  | cmpStr n op v =>
    simp only [evalFilter, sat, satAtom, Filter.symbol, satValue, boltSymbols, cmpNullable]
    cases fieldToString (evalSym n r) <;> rfl
  | cmpTime n op v =>
    simp only [evalFilter, sat, satAtom, Filter.symbol, satValue, boltSymbols, cmpNullable]
    cases fieldToDatetime (evalSym n r) <;> rfl
  | isNull n => simp only [evalFilter, sat, satAtom, Filter.symbol, satValue, boltSymbols]
  | notNull n => simp only [evalFilter, sat, satAtom, Filter.symbol, satValue, boltSymbols]

end StorageModel.Query
