import StorageModel.Query.Paging
import StorageModel.Query.Spec
/-
  Refinement lemmas: each scanner of Query/Paging.lean, run with the expected paging arithmetic,
  computes `page` / `total` of Query/Spec.lean.  The property theorems in Properties/C02.lean and
  Properties/C19.lean are instances of these.
-/
namespace StorageModel.Query

variable {ρ : Type}

/-- the query's skip and limit are int64 values -/
def Paging.InRange (q : Paging) : Prop :=
  (∀ s, q.skip = some s → InI64 s) ∧ (∀ l, q.limit = some l → InI64 l)

/-- what `setPaging` computes, in one line each -/
def targetOf (q : Paging) : Target :=
  ⟨max (q.skip.getD 0) 0, match q.limit with | none => maxI64 | some l => if l < 0 then maxI64 else l⟩

theorem setPaging_target (q : Paging) : (setPaging expectedPaging q).2 = targetOf q := by
  rcases q with ⟨skip, limit⟩
  cases skip <;> cases limit <;> simp only [setPaging, targetOf, expectedPaging, Option.getD, Bool.true_and]
  · simp
  · rename_i l; by_cases h : l < 0 <;> simp [h]
  · rename_i s; by_cases h : s < 0 <;> simp [h] <;> omega
  · rename_i s l; by_cases h : s < 0 <;> by_cases h2 : l < 0 <;> simp [h, h2] <;> omega

/-- the query object after `setPaging`: absent skip became 0, absent / negative limit became MaxInt64;
    a negative skip stays as it is (only the scanner's copy is clamped) -/
theorem setPaging_writeback (q : Paging) :
    (setPaging expectedPaging q).1 =
      ⟨some (q.skip.getD 0), some (match q.limit with | none => maxI64 | some l => if l < 0 then maxI64 else l)⟩ := by
  rcases q with ⟨skip, limit⟩
  cases skip <;> cases limit <;> simp only [setPaging, Option.getD]
  · rename_i l; by_cases h : l < 0 <;> simp [h]
  · rename_i s l; by_cases h : l < 0 <;> simp [h]

/-- running the same query object again changes nothing more -/
theorem setPaging_idempotent (q : Paging) :
    setPaging expectedPaging (setPaging expectedPaging q).1 = setPaging expectedPaging q := by
  rcases q with ⟨skip, limit⟩
  cases skip <;> cases limit <;> simp only [setPaging, Option.getD]
  · simp [maxI64]
  · rename_i l; by_cases h : l < 0 <;> simp [h, maxI64]
  · simp [maxI64]
  · rename_i s l; by_cases h : l < 0 <;> simp [h, maxI64]

theorem targetOf_range {q : Paging} (h : q.InRange) :
    0 ≤ (targetOf q).offset ∧ (targetOf q).offset ≤ maxI64 ∧ 0 ≤ (targetOf q).limit ∧ (targetOf q).limit ≤ maxI64 := by
  rcases q with ⟨skip, limit⟩
  obtain ⟨hs, hl⟩ := h
  simp only [targetOf]
  refine ⟨by omega, ?_, ?_, ?_⟩
  · cases skip with
    | none => simp [maxI64]
    | some s => have := hs s rfl; simp only [InI64, maxI64, minI64, Option.getD] at *; omega
  · cases limit with
    | none => simp [maxI64]
    | some l => by_cases h : l < 0 <;> simp [h, maxI64]; omega
  · cases limit with
    | none => simp
    | some l => have := hl l rfl; by_cases h : l < 0 <;> simp [h]; simp only [InI64, maxI64, minI64] at *; omega

/-- `page` written with the scanner's targets -/
theorem page_eq_target (c : Cmp ρ) (q : Paging) (xs : List ρ) (hlen : (xs.length : Int) ≤ maxI64) :
    page c q.skip q.limit xs = ((sort c xs).drop (targetOf q).offset.toNat).take (targetOf q).limit.toNat := by
  rcases q with ⟨skip, limit⟩
  have hl : (sort c xs).length = xs.length := length_sort c xs
  simp only [page, skipRows, targetOf]
  cases limit with
  | none =>
    simp only [limitRows]
    rw [List.take_of_length_le]
    simp only [List.length_drop, hl]; omega
  | some l =>
    by_cases h : l < 0
    · simp only [limitRows, h, if_true]
      rw [List.take_of_length_le]
      simp only [List.length_drop, hl]; omega
    · simp [limitRows, h]

/-! ### index scanner -/

theorem idxLoop_spec (tg : Target) (env : ScanEnv ρ)
    (h1 : tg.offset ≤ maxI64) (h2 : tg.limit ≤ maxI64) :
    ∀ (cur : List ρ) (st : IdxSt ρ), 0 ≤ st.offset → st.offset ≤ tg.offset → 0 ≤ st.collected →
      st.collected ≤ tg.limit → 0 ≤ st.count → st.count + ((matching env cur).length : Int) ≤ maxI64 →
      (idxLoop tg env st cur).result =
        st.result ++ (((matching env cur).drop (tg.offset - st.offset).toNat).take (tg.limit - st.collected).toNat) ∧
      (idxLoop tg env st cur).count = st.count + (matching env cur).length := by
  simp only [maxI64] at h1 h2 ⊢
  intro cur
  induction cur with
  | nil => intro st _ _ _ _ _ _; simp [idxLoop, matching]
  | cons x rest ih =>
    intro st a1 a2 a3 a4 a5 a6
    by_cases hx : env.admits x
    · have hm : matching env (x :: rest) = x :: matching env rest := by simp [matching, hx]
      rw [hm] at a6 ⊢
      simp only [List.length_cons, Int.natCast_add, Int.natCast_one] at a6 ⊢
      have hcnt : add64 st.count 1 = st.count + 1 := add64_succ a5 (by omega)
      simp only [idxLoop, hx, if_true, idxBody]
      by_cases hoff : st.offset < tg.offset
      · have hadd : add64 st.offset 1 = st.offset + 1 := add64_succ a1 (by omega)
        simp only [hoff, if_true, hadd, hcnt]
        have := ih { st with offset := st.offset + 1, count := st.count + 1 } (by simp only; omega) (by simp only; omega) a3 a4
          (by simp only; omega) (by simp only; omega)
        simp only at this
        rw [this.1, this.2]
        have e : (tg.offset - st.offset).toNat = (tg.offset - (st.offset + 1)).toNat + 1 := by omega
        rw [e, List.drop_succ_cons]
        constructor
        · rfl
        · omega
      · simp only [hoff, if_false]
        by_cases hcol : st.collected < tg.limit
        · have hadd : add64 st.collected 1 = st.collected + 1 := add64_succ a3 (by omega)
          simp only [hcol, if_true, hadd, hcnt]
          have := ih { st with result := st.result ++ [x], collected := st.collected + 1, count := st.count + 1 }
            a1 a2 (by simp only; omega) (by simp only; omega) (by simp only; omega) (by simp only; omega)
          simp only at this
          rw [this.1, this.2]
          have e0 : (tg.offset - st.offset).toNat = 0 := by omega
          have e : (tg.limit - st.collected).toNat = (tg.limit - (st.collected + 1)).toNat + 1 := by omega
          rw [e0, e]
          constructor
          · simp only [List.drop_zero, List.take_succ_cons, List.append_assoc, List.singleton_append]
          · omega
        · simp only [hcol, if_false, hcnt]
          have := ih { st with count := st.count + 1 } a1 a2 a3 a4 (by simp only; omega) (by simp only; omega)
          simp only at this
          rw [this.1, this.2]
          have e : (tg.limit - st.collected).toNat = 0 := by omega
          constructor
          · simp only [e, List.take_zero]
          · omega
    · have hm : matching env (x :: rest) = matching env rest := by simp [matching, hx]
      rw [hm] at a6 ⊢
      simp only [idxLoop, hx]
      exact ih st a1 a2 a3 a4 a5 a6

/-- the index scanner returns the matching rows in cursor order, paged, and their total number -/
theorem idxScan_spec (env : ScanEnv ρ) (q : Paging) (cur : List ρ) (hq : q.InRange)
    (hlen : ((matching env cur).length : Int) ≤ maxI64) :
    idxScan expectedPaging env q (some cur) =
      (((matching env cur).drop (targetOf q).offset.toNat).take (targetOf q).limit.toNat, total (matching env cur)) := by
  obtain ⟨r1, r2, r3, r4⟩ := targetOf_range hq
  simp only [idxScan, setPaging_target]
  have := idxLoop_spec (targetOf q) env r2 r4 cur {} (by simp) (by simpa using r1) (by simp) (by simpa using r3)
    (by simp) (by simpa using hlen)
  rw [this.1, this.2]
  simp [total]

/-! ### paged cursor -/

theorem nextGo_all (tg : Target) (env : ScanEnv ρ) (all rest : List ρ) (off col : Int) :
    (nextGo tg env all rest off col).all = all := by
  induction rest generalizing off col with
  | nil => rfl
  | cons x rest ih =>
    simp only [nextGo]
    split
    · rfl
    · split
      · split
        · exact ih _ _
        · rfl
      · exact ih _ _

theorem drain_next_spec (tg : Target) (env : ScanEnv ρ) (all : List ρ)
    (h1 : tg.offset ≤ maxI64) (h2 : tg.limit ≤ maxI64) :
    ∀ (rest : List ρ) (off col : Int) (fuel : Nat), 0 ≤ off → off ≤ tg.offset → 0 ≤ col → rest.length + 1 ≤ fuel →
      drain tg env fuel (nextGo tg env all rest off col) =
        ((matching env rest).drop (tg.offset - off).toNat).take (tg.limit - col).toNat := by
  simp only [maxI64] at h1 h2
  intro rest
  induction rest with
  | nil =>
    intro off col fuel _ _ _ hf
    cases fuel with
    | zero => omega
    | succ f => simp [nextGo, drain, matching]
  | cons x rest ih =>
    intro off col fuel a1 a2 a3 hf
    cases fuel with
    | zero => omega
    | succ f =>
      simp only [List.length_cons] at hf
      simp only [nextGo]
      by_cases hcol : col ≥ tg.limit
      · have e : (tg.limit - col).toNat = 0 := by omega
        simp [hcol, drain, e]
      · simp only [hcol, if_false]
        by_cases hx : env.admits x
        · have hm : matching env (x :: rest) = x :: matching env rest := by simp [matching, hx]
          simp only [hx, if_true, hm]
          by_cases hoff : off < tg.offset
          · have hadd : add64 off 1 = off + 1 := add64_succ a1 (by omega)
            simp only [hoff, if_true, hadd]
            rw [ih (off + 1) col (f + 1) (by omega) (by omega) a3 (by omega)]
            have e : (tg.offset - off).toNat = (tg.offset - (off + 1)).toNat + 1 := by omega
            rw [e, List.drop_succ_cons]
          · have hadd : add64 col 1 = col + 1 := add64_succ a3 (by omega)
            simp only [hoff, if_false, hadd, drain, PagedCursor.next]
            rw [ih off (col + 1) f a1 a2 (by omega) (by omega)]
            have e0 : (tg.offset - off).toNat = 0 := by omega
            have e : (tg.limit - col).toNat = (tg.limit - (col + 1)).toNat + 1 := by omega
            rw [e0, e]
            simp
        · have hm : matching env (x :: rest) = matching env rest := by simp [matching, hx]
          simp only [hx, hm]
          exact ih off col (f + 1) a1 a2 a3 (by omega)

/-- iterating the paged cursor yields the matching rows in cursor order, paged -/
theorem iterate_spec (env : ScanEnv ρ) (q : Paging) (cur : List ρ) (hq : q.InRange) :
    iterate expectedPaging env (some q) cur =
      ((matching env cur).drop (targetOf q).offset.toNat).take (targetOf q).limit.toNat := by
  obtain ⟨r1, r2, r3, r4⟩ := targetOf_range hq
  simp only [iterate, openPaged, setPaging_target, PagedCursor.next]
  rw [drain_next_spec (targetOf q) env cur r2 r4 cur 0 0 _ (by omega) r1 (by omega) (by omega)]
  simp

/-- a cursor opened with a plain filter (not a query) is unpaged -/
theorem iterate_unpaged (env : ScanEnv ρ) (cur : List ρ) (hlen : (cur.length : Int) ≤ maxI64) :
    iterate expectedPaging env none cur = matching env cur := by
  simp only [iterate, openPaged, PagedCursor.next]
  rw [drain_next_spec ⟨0, maxI64⟩ env cur (by simp [maxI64]) (by simp) cur 0 0 _ (by omega) (by simp) (by omega) (by omega)]
  simp only [Int.sub_zero, Int.toNat_zero, List.drop_zero]
  apply List.take_of_length_le
  have : (matching env cur).length ≤ cur.length := List.length_filter_le ..
  omega

/-- `Seek(v)` on the unpaged cursor, then iterating: the matching rows from the first row that is
    not `before` the sought key on (for the sorted id bucket: the matching ids ≥ v) -/
theorem seek_spec (env : ScanEnv ρ) (before : ρ → Bool) (c : PagedCursor ρ)
    (ho : 0 ≤ c.offset) (hc : 0 ≤ c.collected) (hlen : c.collected + (c.all.length : Int) < maxI64) :
    drain ⟨0, maxI64⟩ env (c.all.length + 1) (c.seek ⟨0, maxI64⟩ env before) =
      matching env (c.all.dropWhile before) := by
  simp only [PagedCursor.seek, PagedCursor.next]
  have hle : (c.all.dropWhile before).length ≤ c.all.length := by
    exact (List.dropWhile_sublist before (l := c.all)).length_le
  -- the offset counter is irrelevant once targetOffset = 0: generalise it away
  have key : ∀ (rest : List ρ) (off col : Int) (fuel : Nat), 0 ≤ off → 0 ≤ col → rest.length + 1 ≤ fuel →
      col + (rest.length : Int) < 9223372036854775807 →
      drain ⟨0, maxI64⟩ env fuel (nextGo ⟨0, maxI64⟩ env c.all rest off col) = matching env rest := by
    intro rest
    induction rest with
    | nil => intro off col fuel _ _ hf _; cases fuel with
      | zero => omega
      | succ f => simp [nextGo, drain, matching]
    | cons x rest ih =>
      intro off col fuel a0 a3 hf hl
      cases fuel with
      | zero => omega
      | succ f =>
        simp only [List.length_cons, Int.natCast_add, Int.natCast_one] at hf hl
        simp only [nextGo, maxI64]
        have hcol : ¬ col ≥ 9223372036854775807 := by omega
        simp only [hcol, if_false]
        by_cases hx : env.admits x
        · have hm : matching env (x :: rest) = x :: matching env rest := by simp [matching, hx]
          simp only [hx, if_true, hm]
          have ho : ¬ off < 0 := by omega
          simp only [ho, if_false, drain, PagedCursor.next]
          have hadd : add64 col 1 = col + 1 := add64_succ a3 (by omega)
          rw [hadd]
          have := ih off (col + 1) f a0 (by omega) (by omega) (by omega)
          simp only [maxI64] at this
          rw [this]
        · have hm : matching env (x :: rest) = matching env rest := by simp [matching, hx]
          simp only [hx, hm]
          have := ih off col (f + 1) a0 a3 (by omega) (by omega)
          simp only [maxI64] at this
          exact this
  simp only [maxI64] at hlen
  exact key _ c.offset c.collected _ ho hc (by omega) (by omega)

/-! ### sorting scanner -/

theorem length_tins_noTie {c : Cmp ρ} {x : ρ} {l : List ρ} (h : ∀ y ∈ l, c x y ≠ .eq) :
    (tins c x l).length = l.length + 1 := by
  rw [tins_eq_oins h, (oins_perm c x l).length_eq]; rfl

theorem sortLoop_eq_foldl (c : Cmp ρ) (env : ScanEnv ρ) (mr : Int) (st : SortSt ρ) (cur : List ρ) :
    sortLoop expectedPaging c env mr st cur = (matching env cur).foldl (sortBody expectedPaging c mr) st := by
  induction cur generalizing st with
  | nil => rfl
  | cons x rest ih =>
    by_cases hx : env.admits x
    · simp [sortLoop, matching, hx, ih]
    · simp [sortLoop, matching, hx, ih]

/-- **the bounded tree**: inserting each matching row, counting, and deleting the maximum once the
    count exceeds `maxResults` leaves the first `maxResults` rows of the unbounded tree -/
theorem sortBody_fold (c : Cmp ρ) (mr : Int) (h0 : 0 ≤ mr) :
    ∀ (xs : List ρ) (t : List ρ) (cnt : Int), cnt = t.length → cnt + (xs.length : Int) ≤ maxI64 →
      (∀ x ∈ xs, ∀ y ∈ t, c x y ≠ .eq) → xs.Pairwise (fun a b => c b a ≠ .eq) →
      (xs.foldl (sortBody expectedPaging c mr) ⟨t.take mr.toNat, cnt⟩).tree =
          (xs.foldl (fun t x => tins c x t) t).take mr.toNat ∧
      (xs.foldl (sortBody expectedPaging c mr) ⟨t.take mr.toNat, cnt⟩).count = cnt + xs.length := by
  simp only [maxI64]
  intro xs
  induction xs with
  | nil => intro t cnt _ _ _ _; simp
  | cons x xs ih =>
    intro t cnt hcnt hlen hne hpw
    simp only [List.length_cons, Int.natCast_add, Int.natCast_one] at hlen
    have hcnt0 : 0 ≤ cnt := by omega
    have hadd : add64 cnt 1 = cnt + 1 := add64_succ hcnt0 (by omega)
    have hnt : ∀ y ∈ t, c x y ≠ .eq := hne x (List.mem_cons_self ..)
    have hl1 : (tins c x t).length = t.length + 1 := length_tins_noTie hnt
    have hl2 : (tins c x (t.take mr.toNat)).length = (t.take mr.toNat).length + 1 :=
      length_tins_noTie fun y hy => hnt y (List.mem_of_mem_take hy)
    have hstep : sortBody expectedPaging c mr ⟨t.take mr.toNat, cnt⟩ x = ⟨(tins c x t).take mr.toNat, cnt + 1⟩ := by
      simp only [sortBody, expectedPaging, if_true, hadd]
      by_cases hev : cnt + 1 > mr
      · simp only [hev, decide_true, if_true]
        congr 1
        rw [List.dropLast_eq_take, hl2, ← tins_take c x t mr.toNat]
        have : (t.take mr.toNat).length = mr.toNat := by
          rw [List.length_take]; omega
        rw [this]; rfl
      · simp only [hev, decide_false]
        have e1 : t.take mr.toNat = t := List.take_of_length_le (by omega)
        have e2 : (tins c x t).take mr.toNat = tins c x t := List.take_of_length_le (by omega)
        simp [e1, e2]
    simp only [List.foldl_cons, hstep]
    have hpw' := List.pairwise_cons.1 hpw
    have := ih (tins c x t) (cnt + 1) (by rw [hl1]; omega) (by omega)
      (by
        intro x' hx' y hy
        rcases mem_tins hy with rfl | hy
        · exact hpw'.1 x' hx'
        · exact hne x' (List.mem_cons_of_mem _ hx') y hy)
      hpw'.2
    rw [this.1, this.2]
    refine ⟨rfl, ?_⟩
    simp only [List.length_cons, Int.natCast_add, Int.natCast_one]; omega

theorem walk_eq_drop (tOff : Int) (h : tOff ≤ maxI64) :
    ∀ (t : List ρ) (off : Int), 0 ≤ off → off ≤ tOff → walk tOff off t = t.drop (tOff - off).toNat := by
  simp only [maxI64] at h
  intro t
  induction t with
  | nil => intro off _ _; simp [walk]
  | cons x t ih =>
    intro off a1 a2
    simp only [walk]
    by_cases ho : off < tOff
    · simp only [ho, if_true]
      rw [add64_succ a1 (by omega), ih (off + 1) (by omega) (by omega)]
      have e : (tOff - off).toNat = (tOff - (off + 1)).toNat + 1 := by omega
      rw [e, List.drop_succ_cons]
    · simp only [ho, if_false]
      have e : (tOff - off).toNat = 0 := by omega
      rw [ih off a1 a2, e]; simp

/-- `maxResults` with the overflow guard: the sum, saturating at MaxInt64 -/
theorem maxResultsOf_expected {tg : Target} (h1 : 0 ≤ tg.offset) (h2 : tg.offset ≤ maxI64) (h3 : 0 ≤ tg.limit)
    (h4 : tg.limit ≤ maxI64) : maxResultsOf expectedPaging tg = min (tg.offset + tg.limit) maxI64 := by
  have := add64_nonneg_overflow h1 h3 h2 h4
  simp only [maxResultsOf, expectedPaging, Bool.true_and]
  rw [Int.min_def]
  by_cases h : add64 tg.offset tg.limit < 0
  · have h' := this.1.1 h
    simp only [h, decide_true, if_true]
    have : ¬ tg.offset + tg.limit ≤ maxI64 := by omega
    simp [this]
  · have h' := this.2 h
    have h'' : ¬ maxI64 < tg.offset + tg.limit := fun hh => h (this.1.2 hh)
    simp only [h, decide_false]
    have : tg.offset + tg.limit ≤ maxI64 := by omega
    simp [this, h']

/-- the sorting scanner returns the matching rows sorted by the comparator, paged, and their
    total number -/
theorem sortScan_spec {P : ρ → Prop} {c : Cmp ρ} (hc : StrictTotalOn P c) (env : ScanEnv ρ) (q : Paging)
    (cur : List ρ) (hq : q.InRange) (hP : ∀ a ∈ cur, P a) (hnd : cur.Nodup)
    (hlen : ((matching env cur).length : Int) ≤ maxI64) :
    sortScan expectedPaging c env q (some cur) =
      (page c q.skip q.limit (matching env cur), total (matching env cur)) := by
  obtain ⟨r1, r2, r3, r4⟩ := targetOf_range hq
  have hPm : ∀ a ∈ matching env cur, P a := fun a ha => hP a (List.mem_filter.1 ha).1
  have hndm : (matching env cur).Nodup := hnd.sublist List.filter_sublist
  have hmr := maxResultsOf_expected r1 r2 r3 r4
  have hmr0 : 0 ≤ maxResultsOf expectedPaging (targetOf q) := by rw [hmr]; simp only [maxI64] at *; omega
  have hpw : (matching env cur).Pairwise (fun a b => c b a ≠ .eq) := by
    refine List.Pairwise.imp_of_mem ?_ hndm
    intro a b ha hb hab heq
    exact hab (hc.eq_imp b a (hPm b hb) (hPm a ha) heq).symm
  have hfold := sortBody_fold c _ hmr0 (matching env cur) [] 0 (by simp) (by simpa using hlen) (by simp) hpw
  obtain ⟨hsort, hlen'⟩ := foldl_tins_eq_sort hc hPm hndm
  simp only [sortScan, setPaging_target, sortLoop_eq_foldl]
  have h0 : ({} : SortSt ρ) = ⟨([] : List ρ).take (maxResultsOf expectedPaging (targetOf q)).toNat, 0⟩ := by simp
  rw [h0, hfold.1, hfold.2, hsort, walk_eq_drop _ r2 _ 0 (by omega) r1, page_eq_target c q _ hlen, hmr]
  simp only [total, Int.sub_zero, Int.zero_add]
  congr 1
  -- ((sort M).take (min (off+lim) max)).drop off = ((sort M).drop off).take lim
  have hl : (sort c (matching env cur)).length = (matching env cur).length := length_sort ..
  rw [List.drop_take]
  simp only [maxI64] at *
  by_cases hov : (targetOf q).offset + (targetOf q).limit ≤ 9223372036854775807
  · have : (min ((targetOf q).offset + (targetOf q).limit) 9223372036854775807).toNat - (targetOf q).offset.toNat
        = (targetOf q).limit.toNat := by omega
    rw [this]
  · rw [List.take_of_length_le (by simp only [List.length_drop, hl]; omega),
      List.take_of_length_le (by simp only [List.length_drop, hl]; omega)]

end StorageModel.Query
