import StorageModel.Query.BoltProofs
/-
  The cursor providers a caller can hand to `QueryWithCursorC` (everything in the library that has
  the type `ast.SetCursorProvider`, or becomes one by fixing arguments), as the mechanisms they are:

    bucket          TypedBucket.OpenCursor                      (entities bucket, either direction)
    value v         setIndex.OpenValueCursor(tx, v, forward)     (typed bolt cursor over one index bucket)
    empty           ast.OpenEmptyCursor
    allOfMany       ast.NewFilteredCursor(OpenValueCursor(values[0]), ContainsAll(EvalStringList(id), values[1:]))
    anyOfMany       ast.NewTreeSet(forward) filled by setIndex.Read for every value, ToCursor()
    related         Store.GetRelatedEntitiesCursor(tx, id, field, forward)   (list bucket under an entity:
                    the back-reference list an fk index maintains, or any string-list field)
    nilCursor       a provider that returns nil

  `iteratorMatchingAllOf` / `iteratorMatchingAnyOf` are `BaseStore.IteratorMatchingAllOf/AnyOf`
  (0 values → empty, 1 value → the value cursor, more → filtered cursor / tree set), and
  `subQueryCursor` is `newCursorScanner` (the cursor `OpenSetCursorForQuery` returns).

  Ids that a provider yields are turned into rows the way the scanners do it: `rowCursor.NextRow(id)`
  and every symbol then reads the entity bucket of that id (`rowOf`: an id without entity reads nil
  everywhere).
-/
namespace StorageModel.Query
open StorageModel

variable {α : Type}

/-- what the providers read besides the entities bucket -/
structure Indexes where
  /-- `symbol.EvalStringList(tx, id)` of the indexed set symbol: the entity's own list -/
  valuesOf : Bytes → List Bytes
  /-- the set index: value ↦ ids in the value's index bucket, in key order; absent = no bucket -/
  index : List (Bytes × List Bytes)
  /-- list buckets below entities of a (linked) store: (entity id, field) ↦ ids in key order;
      absent = no such entity or no such list bucket -/
  related : List ((Bytes × String) × List Bytes)

/-- a bolt cursor opened forward (First/Next) or in reverse (Last/Prev) -/
def dirList (l : List α) (fwd : Bool) : List α := if fwd then l else l.reverse

/-- `setIndex.OpenValueCursor` -/
def openValueCursor (ix : Indexes) (v : Bytes) (fwd : Bool) : List Bytes :=
  match ix.index.lookup v with
  | none => []                      -- ast.OpenEmptyCursor
  | some ids => dirList ids fwd

/-- `setIndex.Read(tx, key, f)`: always First/Next -/
def readIndex (ix : Indexes) (v : Bytes) : List Bytes := (ix.index.lookup v).getD []

/-! ### ast.filteredCursor -/

/-- `filteredCursor.Next` on the rows the wrapped cursor still has (head = `wrapped.Current()`):
    `for wrapped.IsValid() { wrapped.Next(); if wrapped.IsValid() && filter(wrapped.Current()) { return } }` -/
def fcNext (f : α → Bool) : List α → List α
  | [] => []
  | _ :: t => t.dropWhile (fun x => !f x)

/-- `ast.NewFilteredCursor`: an invalid wrapped cursor gives the empty cursor; otherwise `Next()` once
    if the first element does not pass -/
def fcOpen (f : α → Bool) : List α → List α
  | [] => []
  | x :: t => if f x then x :: t else fcNext f (x :: t)

/-- what a consumer's `for c.IsValid() { use(c.Current()); c.Next() }` sees of a cursor whose state is
    the list of rows it still has (fuel = an upper bound of the number of rounds) -/
def consume (next : List α → List α) : Nat → List α → List α
  | 0, _ => []
  | _ + 1, [] => []
  | n + 1, x :: t => x :: consume next n (next (x :: t))

theorem consume_dropWhile (f : α → Bool) : ∀ (l : List α) (n : Nat), l.length < n →
    consume (fcNext f) n (l.dropWhile (fun x => !f x)) = l.filter f := by
  intro l
  induction l with
  | nil => intro n hn; cases n with
    | zero => cases hn
    | succ n => rfl
  | cons x t ih =>
    intro n hn
    cases n with
    | zero => cases hn
    | succ n =>
      by_cases hx : f x = true
      · simp only [List.dropWhile, hx, Bool.not_true, List.filter_cons_of_pos, consume, fcNext]
        rw [ih n (by simp only [List.length_cons] at hn; omega)]
      · have hx' : f x = false := by simpa using hx
        simp only [List.dropWhile, hx', Bool.not_false, List.filter_cons, Bool.false_eq_true, if_false]
        exact ih (n + 1) (by simp only [List.length_cons] at hn; omega)

theorem fcOpen_eq (f : α → Bool) (l : List α) : fcOpen f l = l.dropWhile (fun x => !f x) := by
  cases l with
  | nil => rfl
  | cons x t =>
    by_cases hx : f x = true
    · simp [fcOpen, hx, List.dropWhile]
    · have hx' : f x = false := by simpa using hx
      simp [fcOpen, fcNext, hx', List.dropWhile]

/-- a filtered cursor yields exactly the elements of the wrapped cursor that pass, in its order -/
theorem consume_filtered (f : α → Bool) (l : List α) :
    consume (fcNext f) (l.length + 1) (fcOpen f l) = l.filter f := by
  rw [fcOpen_eq]; exact consume_dropWhile f l _ (Nat.lt_succ_self _)

/-! ### ast.TreeSet -/

/-- `byteArrayComparable.Compare` / `reverseByteArrayComparable.Compare` -/
def cmpDir (fwd : Bool) : Cmp Bytes := fun a b => if fwd then cmpBytes a b else cmpBytes b a

/-- `TreeSet.Add` for every id `Read` reports for every value, then `ToCursor()` (in-order walk) -/
def anyOfCursor (ix : Indexes) (vs : List Bytes) (fwd : Bool) : List Bytes :=
  (vs.flatMap (readIndex ix)).foldl (fun t x => tins (cmpDir fwd) x t) []

/-! ### the providers -/

inductive Provider where
  | bucket
  | nilCursor
  | empty
  | value (v : Bytes)
  | allOfMany (v : Bytes) (rest : List Bytes)
  | anyOfMany (vs : List Bytes)
  | related (id : Bytes) (field : String)
  deriving Repr, DecidableEq, Inhabited

/-- `BaseStore.IteratorMatchingAllOf(readIndex, values)` -/
def iteratorMatchingAllOf : List Bytes → Provider
  | [] => .empty
  | [v] => .value v
  | v :: rest => .allOfMany v rest

/-- `BaseStore.IteratorMatchingAnyOf(readIndex, values)` -/
def iteratorMatchingAnyOf : List Bytes → Provider
  | [] => .empty
  | [v] => .value v
  | vs => .anyOfMany vs

def hasValue (ix : Indexes) (id : Bytes) (v : Bytes) : Bool := (ix.valuesOf id).contains v

/-- `stringz.ContainsAll(EvalStringList(tx, id), rest...)` -/
def hasAll (ix : Indexes) (rest : List Bytes) (id : Bytes) : Bool := rest.all (hasValue ix id)

/-- the ids the provider's cursor yields when opened in the given direction (`none` = nil cursor) -/
def Provider.ids (ix : Indexes) (bucket : List Row) : Provider → Bool → Option (List Bytes)
  | .bucket, fwd => some (dirList (bucket.map (·.id)) fwd)
  | .nilCursor, _ => none
  | .empty, _ => some []
  | .value v, fwd => some (openValueCursor ix v fwd)
  | .allOfMany v rest, fwd =>
    let cur := openValueCursor ix v fwd
    some (consume (fcNext (hasAll ix rest)) (cur.length + 1) (fcOpen (hasAll ix rest) cur))
  | .anyOfMany vs, fwd => some (anyOfCursor ix vs fwd)
  | .related id field, fwd =>
    match ix.related.lookup (id, field) with
    | none => some []                         -- ast.NewEmptyCursor
    | some ids => some (dirList ids fwd)      -- TypedBucket.OpenTypedCursor

/-- `rowCursor.NextRow(id)`: the row whose fields the symbols then read; an id without entity reads
    nil everywhere -/
def rowOf (bucket : List Row) (id : Bytes) : Row := (bucket.find? (fun r => r.id == id)).getD ⟨id, []⟩

/-- the provider as the scanners see it -/
def Provider.cursor (ix : Indexes) (bucket : List Row) (p : Provider) (fwd : Bool) : Option (List Row) :=
  (p.ids ix bucket fwd).map (·.map (rowOf bucket))

/-- **specification**: the entities a provider selects -/
def Provider.selects (ix : Indexes) : Provider → Row → Bool
  | .bucket, _ => true
  | .nilCursor, _ => false
  | .empty, _ => false
  | .value v, r => hasValue ix r.id v
  | .allOfMany v rest, r => hasValue ix r.id v && hasAll ix rest r.id
  | .anyOfMany vs, r => vs.any (hasValue ix r.id)
  | .related id field, r => ((ix.related.lookup (id, field)).getD []).contains r.id

/-- `newCursorScanner(tx, linkedStore, setCursor, query)` drained by its consumer: the paged cursor of
    Query/Paging.lean over the set symbol's cursor (`OpenSetCursorForQuery`) -/
def subQueryCursor (pf : PagingFacts) (linked : BoltStore) (q : Query) (setCursor : List Row) : List Row :=
  iterate pf (linked.env q.filter) (some q.paging) setCursor

/-! ### the index tables mirror the entities (C03 / C04 prove that the code keeps it so) -/

def IdLt (a b : Bytes) : Prop := cmpBytes a b = .lt

structure IndexesMirror (ix : Indexes) (rows : List Row) : Prop where
  index : ∀ v, (ix.index.lookup v).getD [] = (rows.filter fun r => hasValue ix r.id v).map (·.id)
  related : ∀ k ids, ix.related.lookup k = some ids → ids.Pairwise IdLt ∧ ∀ i ∈ ids, ∃ r ∈ rows, r.id = i

/-! ### lemmas -/

theorem dirList_map {β : Type} (f : α → β) (l : List α) (fwd : Bool) : (dirList l fwd).map f = dirList (l.map f) fwd := by
  cases fwd <;> simp [dirList]

theorem dirList_filter (f : α → Bool) (l : List α) (fwd : Bool) : (dirList l fwd).filter f = dirList (l.filter f) fwd := by
  cases fwd <;> simp [dirList, List.filter_reverse]

theorem dirList_nil (fwd : Bool) : dirList ([] : List α) fwd = [] := by cases fwd <;> rfl

theorem bucketCursor_eq_dirList (rows : List Row) (fwd : Bool) : bucketCursor rows fwd = dirList rows fwd := rfl

theorem rowOf_self {rows : List Row} (hd : DistinctIds rows) {r : Row} (hr : r ∈ rows) : rowOf rows r.id = r := by
  unfold rowOf
  cases hf : rows.find? (fun x => x.id == r.id) with
  | none =>
    have := List.find?_eq_none.1 hf r hr
    simp at this
  | some x =>
    have hx := List.mem_of_find?_eq_some hf
    have hp := List.find?_some hf
    simp only [beq_iff_eq] at hp
    simp only [Option.getD_some]
    exact eq_of_id_eq hd hx hr hp

theorem rowOf_map_ids {rows : List Row} (hd : DistinctIds rows) (sel : Row → Bool) :
    ((rows.filter sel).map (·.id)).map (rowOf rows) = rows.filter sel := by
  rw [List.map_map]
  conv => rhs; rw [← List.map_id (rows.filter sel)]
  apply List.map_congr_left
  intro r hr
  exact rowOf_self hd (List.mem_filter.1 hr).1

theorem ids_ordered {rows : List Row} (hord : BucketOrdered rows) (sel : Row → Bool) :
    ((rows.filter sel).map (·.id)).Pairwise IdLt := by
  rw [List.pairwise_map]
  exact List.Pairwise.sublist List.filter_sublist hord

/-- two ascending id lists with the same members are the same list -/
theorem idLt_ext {l1 l2 : List Bytes} (h1 : l1.Pairwise IdLt) (h2 : l2.Pairwise IdLt)
    (hm : ∀ a, a ∈ l1 ↔ a ∈ l2) : l1 = l2 := by
  have nd : ∀ {l : List Bytes}, l.Pairwise IdLt → l.Nodup := by
    intro l h
    refine List.Pairwise.imp ?_ h
    intro a b hab heq
    unfold IdLt at hab
    rw [heq, cmpBytes_refl] at hab
    cases hab
  have hperm : l1.Perm l2 := (List.perm_ext_iff_of_nodup (nd h1) (nd h2)).2 hm
  refine List.Perm.eq_of_pairwise (le := IdLt) ?_ h1 h2 hperm
  intro a b _ _ hab hba
  unfold IdLt at hab hba
  rw [cmpBytes_swap, hab] at hba
  cases hba

theorem strict_flip {ρ : Type} {P : ρ → Prop} {c : Cmp ρ} (hc : StrictTotalOn P c) :
    StrictTotalOn P (fun a b => c b a) := by
  refine ⟨⟨?_, ?_, ?_⟩, ?_⟩
  · intro a b ha hb; exact hc.swap b a hb ha
  · intro a b d ha hb hd h1 h2; exact hc.trans_lt d b a hd hb ha h2 h1
  · intro a b d ha hb hd h
    show c d a = c d b
    have e := hc.eq_congr b a d hb ha hd h
    rw [hc.swap a d ha hd, hc.swap b d hb hd, e]
  · intro a b ha hb h; exact (hc.eq_imp b a hb ha h).symm

theorem cmpDir_strict (fwd : Bool) : StrictTotalOn (fun _ => True) (cmpDir fwd) := by
  cases fwd
  · exact strict_flip cmpBytes_strict
  · exact cmpBytes_strict

/-- llrb `Insert` into a strictly sorted tree keeps it strictly sorted (an equal element is replaced
    by itself) and adds exactly the inserted element -/
theorem tins_sorted_mem {ρ : Type} {c : Cmp ρ} (hc : StrictTotalOn (fun _ => True) c) (x : ρ) :
    ∀ l : List ρ, Sorted c l → Sorted c (tins c x l) ∧ ∀ z, z ∈ tins c x l ↔ z = x ∨ z ∈ l := by
  intro l
  induction l with
  | nil => intro _; simp [tins, Sorted]
  | cons y t ih =>
    intro hs
    have hs' : Sorted c t := (List.pairwise_cons.1 hs).2
    have hyt : ∀ z ∈ t, c y z = .lt := (List.pairwise_cons.1 hs).1
    obtain ⟨ih1, ih2⟩ := ih hs'
    simp only [tins]
    cases hxy : c x y with
    | lt =>
      simp only
      refine ⟨List.pairwise_cons.2 ⟨?_, hs⟩, by intro z; simp⟩
      intro z hz
      rcases List.mem_cons.1 hz with rfl | hz
      · exact hxy
      · exact hc.trans_lt x y z trivial trivial trivial hxy (hyt z hz)
    | eq =>
      have := hc.eq_imp x y trivial trivial hxy
      subst this
      simp only
      exact ⟨hs, by intro z; simp⟩
    | gt =>
      simp only
      refine ⟨List.pairwise_cons.2 ⟨?_, ih1⟩, ?_⟩
      · intro z hz
        rcases (ih2 z).1 hz with rfl | hz
        · rw [hc.swap z y trivial trivial, hxy]; rfl
        · exact hyt z hz
      · intro z
        simp only [List.mem_cons, ih2 z]
        constructor
        · rintro (h | h | h)
          · exact .inr (.inl h)
          · exact .inl h
          · exact .inr (.inr h)
        · rintro (h | h | h)
          · exact .inr (.inl h)
          · exact .inl h
          · exact .inr (.inr h)

theorem foldl_tins_sorted_mem {ρ : Type} {c : Cmp ρ} (hc : StrictTotalOn (fun _ => True) c) :
    ∀ (xs t : List ρ), Sorted c t →
      Sorted c (xs.foldl (fun t x => tins c x t) t) ∧ ∀ z, z ∈ xs.foldl (fun t x => tins c x t) t ↔ z ∈ xs ∨ z ∈ t := by
  intro xs
  induction xs with
  | nil => intro t hs; simp [hs]
  | cons x xs ih =>
    intro t hs
    obtain ⟨h1, h2⟩ := tins_sorted_mem hc x t hs
    obtain ⟨i1, i2⟩ := ih (tins c x t) h1
    refine ⟨i1, ?_⟩
    intro z
    simp only [List.foldl_cons, i2 z, h2 z, List.mem_cons]
    constructor
    · rintro (h | h | h)
      · exact .inl (.inr h)
      · exact .inl (.inl h)
      · exact .inr h
    · rintro ((h | h) | h)
      · exact .inr (.inl h)
      · exact .inl h
      · exact .inr (.inr h)

/-- the tree set of `IteratorMatchingAnyOf`, walked, is the ascending (descending) list of the ids
    found under any of the values, each once -/
theorem anyOfCursor_eq {ix : Indexes} {rows : List Row} (hord : BucketOrdered rows) (hm : IndexesMirror ix rows)
    (vs : List Bytes) (fwd : Bool) :
    anyOfCursor ix vs fwd = dirList ((rows.filter fun r => vs.any (hasValue ix r.id)).map (·.id)) fwd := by
  obtain ⟨hs, hmem⟩ := foldl_tins_sorted_mem (cmpDir_strict fwd) (vs.flatMap (readIndex ix)) [] (by simp [Sorted])
  have hmem' : ∀ z, z ∈ anyOfCursor ix vs fwd ↔ z ∈ (rows.filter fun r => vs.any (hasValue ix r.id)).map (·.id) := by
    intro z
    unfold anyOfCursor
    rw [hmem z]
    simp only [List.not_mem_nil, or_false, List.mem_flatMap, readIndex, hm.index, List.mem_map, List.mem_filter,
      List.any_eq_true]
    constructor
    · rintro ⟨v, hv, r, ⟨hr, hrv⟩, rfl⟩
      exact ⟨r, ⟨hr, v, hv, hrv⟩, rfl⟩
    · rintro ⟨r, ⟨hr, v, hv, hrv⟩, rfl⟩
      exact ⟨v, hv, r, ⟨hr, hrv⟩, rfl⟩
  have htarget := ids_ordered hord (fun r => vs.any (hasValue ix r.id))
  cases fwd with
  | true =>
    simp only [dirList, if_true]
    refine idLt_ext ?_ htarget hmem'
    exact hs
  | false =>
    simp only [dirList, Bool.false_eq_true, if_false]
    have hrev : (anyOfCursor ix vs false).reverse.Pairwise IdLt := by
      rw [List.pairwise_reverse]
      exact hs
    have := idLt_ext hrev htarget (by intro a; rw [List.mem_reverse]; exact hmem' a)
    rw [← this, List.reverse_reverse]

theorem openValueCursor_eq {ix : Indexes} {rows : List Row} (hm : IndexesMirror ix rows) (v : Bytes) (fwd : Bool) :
    openValueCursor ix v fwd = dirList ((rows.filter fun r => hasValue ix r.id v).map (·.id)) fwd := by
  rw [← hm.index v]
  unfold openValueCursor
  cases ix.index.lookup v with
  | none => simp [dirList_nil]
  | some ids => rfl

/-- an ascending list of ids of the bucket is the bucket filtered by membership in it -/
theorem related_eq_filter {rows : List Row} (hord : BucketOrdered rows) {ids : List Bytes}
    (h1 : ids.Pairwise IdLt) (h2 : ∀ i ∈ ids, ∃ r ∈ rows, r.id = i) :
    ids = (rows.filter fun r => ids.contains r.id).map (·.id) := by
  refine idLt_ext h1 (ids_ordered hord _) ?_
  intro a
  simp only [List.mem_map, List.mem_filter, List.contains_iff_mem]
  constructor
  · intro ha
    obtain ⟨r, hr, rfl⟩ := h2 a ha
    exact ⟨r, ⟨hr, ha⟩, rfl⟩
  · rintro ⟨r, ⟨_, hr⟩, rfl⟩
    exact hr

/-- **every provider except the nil one yields the entities it selects, in key order (reversed when
    opened in reverse)** -/
theorem provider_cursor_eq {ix : Indexes} {rows : List Row} (hord : BucketOrdered rows) (hm : IndexesMirror ix rows)
    (p : Provider) (hp : p ≠ .nilCursor) (fwd : Bool) :
    p.cursor ix rows fwd = some (bucketCursor (rows.filter (p.selects ix)) fwd) := by
  have hd := hord.distinct
  simp only [Provider.cursor, bucketCursor_eq_dirList]
  cases p with
  | nilCursor => exact absurd rfl hp
  | bucket =>
    have hs : rows.filter (Provider.selects ix .bucket) = rows.filter (fun _ => true) := rfl
    have hall : rows.filter (fun _ => true) = rows := List.filter_eq_self.2 (fun _ _ => rfl)
    have := rowOf_map_ids hd (fun _ => true)
    rw [hall] at this
    simp only [Provider.ids, Option.map_some, dirList_map, hs, hall, this]
  | empty =>
    have hs : rows.filter (Provider.selects ix .empty) = [] := List.filter_eq_nil_iff.2 (fun _ _ => by simp [Provider.selects])
    simp [Provider.ids, hs, dirList_nil]
  | value v =>
    have hs : rows.filter (Provider.selects ix (.value v)) = rows.filter (fun r => hasValue ix r.id v) := rfl
    simp only [Provider.ids, Option.map_some, hs, openValueCursor_eq hm, dirList_map, rowOf_map_ids hd]
  | allOfMany v rest =>
    have hs : rows.filter (Provider.selects ix (.allOfMany v rest)) =
        rows.filter (fun r => hasValue ix r.id v && hasAll ix rest r.id) := rfl
    simp only [Provider.ids, Option.map_some, hs, consume_filtered, openValueCursor_eq hm, dirList_filter,
      dirList_map, List.filter_map, List.filter_filter]
    have : (rows.filter fun r => (hasAll ix rest ∘ fun (x : Row) => x.id) r && hasValue ix r.id v) =
        rows.filter fun r => hasValue ix r.id v && hasAll ix rest r.id := by
      apply List.filter_congr; intro r _; simp [Bool.and_comm]
    rw [this, rowOf_map_ids hd]
  | anyOfMany vs =>
    have hs : rows.filter (Provider.selects ix (.anyOfMany vs)) = rows.filter (fun r => vs.any (hasValue ix r.id)) := rfl
    simp only [Provider.ids, Option.map_some, hs, anyOfCursor_eq hord hm, dirList_map, rowOf_map_ids hd]
  | related id field =>
    have hs : rows.filter (Provider.selects ix (.related id field)) =
        rows.filter (fun r => ((ix.related.lookup (id, field)).getD []).contains r.id) := rfl
    simp only [Provider.ids, hs]
    cases hl : ix.related.lookup (id, field) with
    | none =>
      have : rows.filter (fun _ => false) = [] := List.filter_eq_nil_iff.2 (fun _ _ => by simp)
      simp [this, dirList_nil]
    | some ids =>
      obtain ⟨h1, h2⟩ := hm.related _ _ hl
      simp only [Option.map_some, Option.getD_some, dirList_map]
      conv => lhs; rw [related_eq_filter hord h1 h2]
      rw [rowOf_map_ids hd]

/-- what `IteratorMatchingAllOf` selects: the entities holding every value — and NOTHING for an
    empty value list (the code returns the empty cursor for it) -/
theorem iteratorMatchingAllOf_selects (ix : Indexes) (vs : List Bytes) (r : Row) :
    (iteratorMatchingAllOf vs).selects ix r = (!vs.isEmpty && vs.all (hasValue ix r.id)) := by
  match vs with
  | [] => rfl
  | [v] => simp [iteratorMatchingAllOf, Provider.selects]
  | v :: w :: rest => simp [iteratorMatchingAllOf, Provider.selects, hasAll]

/-- what `IteratorMatchingAnyOf` selects: the entities holding at least one of the values -/
theorem iteratorMatchingAnyOf_selects (ix : Indexes) (vs : List Bytes) (r : Row) :
    (iteratorMatchingAnyOf vs).selects ix r = vs.any (hasValue ix r.id) := by
  match vs with
  | [] => rfl
  | [v] => simp [iteratorMatchingAnyOf, Provider.selects]
  | v :: w :: rest => simp [iteratorMatchingAnyOf, Provider.selects]

theorem iteratorMatching_ne_nil (vs : List Bytes) :
    iteratorMatchingAllOf vs ≠ .nilCursor ∧ iteratorMatchingAnyOf vs ≠ .nilCursor := by
  match vs with
  | [] => exact ⟨by simp [iteratorMatchingAllOf], by simp [iteratorMatchingAnyOf]⟩
  | [v] => exact ⟨by simp [iteratorMatchingAllOf], by simp [iteratorMatchingAnyOf]⟩
  | v :: w :: rest => exact ⟨by simp [iteratorMatchingAllOf], by simp [iteratorMatchingAnyOf]⟩

end StorageModel.Query
