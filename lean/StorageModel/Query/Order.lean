/-
  Comparators as the Go code has them (`Compare` returning -1 / 0 / 1, here `Ordering`), the
  algebra the row comparator is built from (direction flip, nulls first, first-non-zero
  chaining) and what it means for such a comparator to order a set of rows.

  `WeakOrdOn P c`   : on rows satisfying `P`, `c` is a strict weak order (ties allowed)
  `StrictTotalOn P c`: additionally a tie means the two rows are the same row
-/
namespace StorageModel.Query

abbrev Cmp (ρ : Type) := ρ → ρ → Ordering

/-- `if c.forward { return result }; return -result` -/
def dir (fwd : Bool) (o : Ordering) : Ordering := if fwd then o else o.swap

/-- the nil tests every symbol comparator starts with: nil before non-nil -/
def nullsFirst {κ : Type} (c : κ → κ → Ordering) : Option κ → Option κ → Ordering
  | none, none => .eq
  | none, some _ => .lt
  | some _, none => .gt
  | some a, some b => c a b

/-- `rowComparatorImpl.Compare`: the first comparator with a non-zero result decides -/
def chain {ρ : Type} : List (Cmp ρ) → Cmp ρ
  | [], _, _ => .eq
  | c :: rest, a, b =>
    match c a b with
    | .eq => chain rest a b
    | r => r

structure WeakOrdOn {ρ : Type} (P : ρ → Prop) (c : Cmp ρ) : Prop where
  swap : ∀ a b, P a → P b → c b a = (c a b).swap
  trans_lt : ∀ a b d, P a → P b → P d → c a b = .lt → c b d = .lt → c a d = .lt
  eq_congr : ∀ a b d, P a → P b → P d → c a b = .eq → c a d = c b d

structure StrictTotalOn {ρ : Type} (P : ρ → Prop) (c : Cmp ρ) : Prop extends WeakOrdOn P c where
  eq_imp : ∀ a b, P a → P b → c a b = .eq → a = b

theorem WeakOrdOn.refl {ρ : Type} {P : ρ → Prop} {c : Cmp ρ} (h : WeakOrdOn P c) (a : ρ) (ha : P a) :
    c a a = .eq := by
  have := h.swap a a ha ha
  cases hc : c a a <;> simp_all [Ordering.swap]

theorem WeakOrdOn.mono {ρ : Type} {P Q : ρ → Prop} {c : Cmp ρ} (h : WeakOrdOn P c) (hq : ∀ a, Q a → P a) :
    WeakOrdOn Q c :=
  ⟨fun a b ha hb => h.swap a b (hq a ha) (hq b hb),
   fun a b d ha hb hd => h.trans_lt a b d (hq a ha) (hq b hb) (hq d hd),
   fun a b d ha hb hd => h.eq_congr a b d (hq a ha) (hq b hb) (hq d hd)⟩

/-- the constant-tie comparator (an empty chain) -/
theorem weakOrd_const {ρ : Type} (P : ρ → Prop) : WeakOrdOn P (fun _ _ => Ordering.eq) :=
  ⟨fun _ _ _ _ => rfl, fun _ _ _ _ _ _ h _ => (by cases h), fun _ _ _ _ _ _ _ => rfl⟩

/-- first-non-zero chaining of two weak orders is a weak order -/
theorem weakOrd_lex {ρ : Type} {P : ρ → Prop} {c1 c2 : Cmp ρ} (h1 : WeakOrdOn P c1) (h2 : WeakOrdOn P c2) :
    WeakOrdOn P (fun a b => match c1 a b with | .eq => c2 a b | r => r) := by
  refine ⟨?_, ?_, ?_⟩
  · intro a b ha hb
    have s1 := h1.swap a b ha hb
    have s2 := h2.swap a b ha hb
    cases h : c1 a b <;> simp_all [Ordering.swap]
  · intro a b d ha hb hd hab hbd
    have sab := h1.swap a b ha hb
    have sad := h1.swap a d ha hd
    cases e1 : c1 a b <;> cases e2 : c1 b d <;> simp only [e1, e2] at hab hbd
    · -- lt, lt
      simp [h1.trans_lt a b d ha hb hd e1 e2]
    · -- lt, eq : c1 b a = gt, c1 b x = c1 d x
      have hc := h1.eq_congr b d a hb hd ha e2
      rw [sab, e1] at hc
      have hda : c1 d a = .gt := by simpa [Ordering.swap] using hc.symm
      have : c1 a d = .lt := by
        rw [hda] at sad
        generalize c1 a d = o at sad ⊢
        cases o <;> simp [Ordering.swap] at sad ⊢
      simp [this]
    · cases hbd
    · -- eq, lt
      have := h1.eq_congr a b d ha hb hd e1
      simp [this, e2]
    · -- eq, eq
      have := h1.eq_congr a b d ha hb hd e1
      simp only [this, e2]
      exact h2.trans_lt a b d ha hb hd hab hbd
    · cases hbd
    · cases hab
    · cases hab
    · cases hab
  · intro a b d ha hb hd hab
    cases e1 : c1 a b <;> simp only [e1] at hab
    · cases hab
    · have := h1.eq_congr a b d ha hb hd e1
      have := h2.eq_congr a b d ha hb hd hab
      simp_all
    · cases hab

theorem weakOrd_chain {ρ : Type} {P : ρ → Prop} (cs : List (Cmp ρ)) (h : ∀ c ∈ cs, WeakOrdOn P c) :
    WeakOrdOn P (chain cs) := by
  induction cs with
  | nil => exact weakOrd_const P
  | cons c rest ih =>
    have := weakOrd_lex (h c (List.mem_cons_self ..)) (ih fun c' hc' => h c' (List.mem_cons_of_mem _ hc'))
    exact this

/-- flipping the direction keeps a weak order -/
theorem weakOrd_dir {ρ : Type} {P : ρ → Prop} {c : Cmp ρ} (fwd : Bool) (h : WeakOrdOn P c) :
    WeakOrdOn P (fun a b => dir fwd (c a b)) := by
  cases fwd
  · refine ⟨?_, ?_, ?_⟩
    · intro a b ha hb; simp [dir, h.swap a b ha hb]
    · intro a b d ha hb hd hab hbd
      simp only [dir, Bool.false_eq_true, if_false] at *
      have e1 : c b a = .lt := by rw [h.swap a b ha hb]; cases hc : c a b <;> simp_all [Ordering.swap]
      have e2 : c d b = .lt := by rw [h.swap b d hb hd]; cases hc : c b d <;> simp_all [Ordering.swap]
      have := h.trans_lt d b a hd hb ha e2 e1
      rw [h.swap d a hd ha, this]; rfl
    · intro a b d ha hb hd hab
      simp only [dir, Bool.false_eq_true, if_false] at *
      have : c a b = .eq := by cases hc : c a b <;> simp_all [Ordering.swap]
      rw [h.eq_congr a b d ha hb hd this]
  · simpa [dir] using h

/-- a comparator that only looks at a key inherits the key comparator's properties -/
theorem weakOrd_pullback {ρ κ : Type} {Q : κ → Prop} {base : κ → κ → Ordering} (k : ρ → κ)
    (h : WeakOrdOn Q base) : WeakOrdOn (fun a => Q (k a)) (fun a b => base (k a) (k b)) :=
  ⟨fun _ _ ha hb => h.swap _ _ ha hb, fun _ _ _ ha hb hd => h.trans_lt _ _ _ ha hb hd,
   fun _ _ _ ha hb hd => h.eq_congr _ _ _ ha hb hd⟩

/-- nil before non-nil keeps a weak order -/
theorem weakOrd_nullsFirst {κ : Type} {Q : κ → Prop} {base : κ → κ → Ordering} (h : WeakOrdOn Q base) :
    WeakOrdOn (fun o : Option κ => ∀ v, o = some v → Q v) (nullsFirst base) := by
  refine ⟨?_, ?_, ?_⟩
  · intro a b ha hb
    cases a <;> cases b <;> simp only [nullsFirst, Ordering.swap]
    exact h.swap _ _ (ha _ rfl) (hb _ rfl)
  · intro a b d ha hb hd hab hbd
    cases a <;> cases b <;> cases d <;> simp only [nullsFirst] at hab hbd ⊢ <;> try contradiction
    exact h.trans_lt _ _ _ (ha _ rfl) (hb _ rfl) (hd _ rfl) hab hbd
  · intro a b d ha hb hd hab
    cases a <;> cases b <;> cases d <;> simp only [nullsFirst] at hab ⊢ <;> try contradiction
    exact h.eq_congr _ _ _ (ha _ rfl) (hb _ rfl) (hd _ rfl) hab

/-- integer comparison as every numeric comparator writes it (`<` → -1, `>` → 1, else 0) -/
def cmpInt (a b : Int) : Ordering := if a < b then .lt else if a > b then .gt else .eq

theorem cmpInt_strict : StrictTotalOn (fun _ => True) cmpInt := by
  refine ⟨⟨?_, ?_, ?_⟩, ?_⟩
  · intro a b _ _; unfold cmpInt; split <;> split <;> simp_all [Ordering.swap] <;> omega
  · intro a b d _ _ _; unfold cmpInt; repeat' split
    all_goals simp_all
    all_goals omega
  · intro a b d _ _ _ h
    have : a = b := by unfold cmpInt at h; repeat' split at h
                       all_goals simp_all
                       omega
    rw [this]
  · intro a b _ _ h; unfold cmpInt at h; repeat' split at h
    all_goals simp_all
    omega

end StorageModel.Query
