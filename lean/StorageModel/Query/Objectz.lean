import StorageModel.Query.Bolt
/-
  Model of objectz: `ObjectCursor.Eval*` / `IsNil` (symbol functions return typed pointers, which
  travel inside an `any`), `newRowComparator`, `memSortingScanner.Scan`, `QueryEntitiesC`.

  An object is modelled by the values its symbol functions return, held as a `Row` (name ↦ value);
  the symbol of declared type T applied to the object yields the typed pointer `FieldToT` of that
  value — so "an object store holding the same field values as a bolt store" is literally the same
  list of rows, in whatever order the iterator yields them.
-/
namespace StorageModel.Query
open StorageModel

/-- a Go `any` holding what an `ObjectSymbol.Eval` returned: always a typed pointer, possibly nil -/
inductive Iface where
  | untypedNil
  | boolPtr (p : Option Bool)
  | stringPtr (p : Option Bytes)
  | int64Ptr (p : Option Int)
  | float64Ptr (p : Option Nat)
  | timePtr (p : Option Int)
  deriving Repr, DecidableEq, Inhabited

structure ObjStore where
  /-- `store.symbols`: name ↦ declared type (Add*Symbol) -/
  symbols : List (String × SymType)
  /-- what `iteratorF()` yields, in its order (arbitrary: `IterateMap` ranges over a Go map);
      `none` = a nil iterator -/
  objs : Option (List Row)

inductive ObjOutcome (α : Type) where
  | ok (a : α)
  | err (e : SortErr)
  | panic
  deriving Repr

/-- `symbol.Eval(entity)` for the symbol registered under `name`; `none` = no such symbol (the Go
    code then calls a method on a nil interface: panic) -/
def objEval (st : ObjStore) (name : String) (r : Row) : Option Iface :=
  match st.symbols.lookup name with
  | none => none
  | some .bool => some (.boolPtr (fieldToBool (evalSym name r)))
  | some .string => some (.stringPtr (fieldToString (evalSym name r)))
  | some .int64 => some (.int64Ptr (fieldToInt64 (evalSym name r)))
  | some .float64 => some (.float64Ptr (fieldToFloat64 (evalSym name r)))
  | some .datetime => some (.timePtr (fieldToDatetime (evalSym name r)))
  | some .other => none

/-- `ObjectCursor.IsNil` as it is now: a typed nil pointer inside the interface counts as nil -/
def ifaceIsNil : Iface → Bool
  | .untypedNil => true
  | .boolPtr p | .stringPtr p | .int64Ptr p | .float64Ptr p | .timePtr p => p.isNone

/-- `ObjectCursor.IsNil` of the pinned tree: `nil == self.eval(name)` -/
def ifaceIsNilPinned : Iface → Bool
  | .untypedNil => true
  | _ => false

/-- `ObjectCursor` positioned on an object (`eval` of a registered symbol) -/
def objSymbols (st : ObjStore) (r : Row) : Symbols where
  evalBool name := match objEval st name r with | some (.boolPtr p) => p | _ => none
  evalString name := match objEval st name r with | some (.stringPtr p) => p | _ => none
  evalInt64 name := match objEval st name r with | some (.int64Ptr p) => p | _ => none
  evalFloat64 name := match objEval st name r with | some (.float64Ptr p) => p | _ => none
  evalDatetime name := match objEval st name r with | some (.timePtr p) => p | _ => none
  isNil name := match objEval st name r with | some i => ifaceIsNil i | none => true

def ObjStore.schema (st : ObjStore) : Schema := st.symbols.map fun (n, t) => (n, ⟨t, false⟩)

def ObjStore.env (st : ObjStore) (f : Filter) : ScanEnv Row :=
  { pred := fun r => evalFilter (objSymbols st r) f }

/-- `QueryEntitiesC` = `memSortingScanner.Scan`: always the sorting scheme -/
def objQuery (pf : PagingFacts) (st : ObjStore) (q : Query) : ObjOutcome (List Row × Int) :=
  match newRowComparator st.schema q.sort with
  | .error e => .err e
  | .ok c =>
    match st.objs with
    | none => .ok ([], 0)     -- `if cursor == nil { return nil, 0, nil }` (since bbcb51c before the cursor is used)
    | some objs => .ok (sortScan pf c (st.env q.filter) q.paging (some objs))

/-- `QueryEntitiesC` for an arbitrary filter node, given by its evaluation on `ast.Symbols` -/
def objQueryP (pf : PagingFacts) (st : ObjStore) (ev : Symbols → Bool) (sort : List SortField) (paging : Paging) :
    ObjOutcome (List Row × Int) :=
  match newRowComparator st.schema sort with
  | .error e => .err e
  | .ok c =>
    match st.objs with
    | none => .ok ([], 0)
    | some objs => .ok (sortScan pf c { pred := fun r => ev (objSymbols st r) } paging (some objs))

theorem objQuery_eq_P (pf : PagingFacts) (st : ObjStore) (q : Query) :
    objQuery pf st q = objQueryP pf st (fun s => evalFilter s q.filter) q.sort q.paging := rfl

end StorageModel.Query
