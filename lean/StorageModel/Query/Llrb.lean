import StorageModel.Query.Paging
/-
  A port of github.com/biogo/store/llrb (the tree the sorting scanners keep their rows in), mode
  BU23 (`const Mode = BU23`): `Tree.Insert`, `Tree.DeleteMax`, `Tree.Do` — node by node, rotation
  by rotation.

  The theorems of C02 / C19 see the tree through its in-order walk, a strictly sorted list
  (Query/Sorted.lean: `tins`, `dropLast`).  That view is exact when the row comparator is a strict
  total order: `insert_inorder` below proves it for `Insert` (no balance invariant needed), and the
  drivers re-check `sortScanT = sortScan` on every generated case.  When the comparator is NOT an
  order — a NaN sort key makes float comparison tie with everything — the result depends on the
  shape of the tree and therefore on the insertion order; this port follows the code there, which
  is what makes the NaN counter-example of C19 a statement about the code.
-/
namespace StorageModel.Query

variable {ρ : Type}

/-- `llrb.Node`; `black = false` is Red (the zero value: new nodes are red) -/
inductive LL (ρ : Type) where
  | nil
  | node (black : Bool) (l : LL ρ) (x : ρ) (r : LL ρ)
  deriving Repr

namespace LL

/-- `n.color() == Red` (a nil node is black) -/
def isRed : LL ρ → Bool
  | node false _ _ _ => true
  | _ => false

def left : LL ρ → LL ρ
  | node _ l _ _ => l
  | nil => nil

def right : LL ρ → LL ρ
  | node _ _ _ r => r
  | nil => nil

/-- `(a,c)b -rotL-> ((a,)b,)c`: the new root takes n's colour, n becomes red -/
def rotateLeft : LL ρ → LL ρ
  | node c l x (node _ rl rx rr) => node c (node false l x rl) rx rr
  | t => t

def rotateRight : LL ρ → LL ρ
  | node c (node _ ll lx lr) x r => node c ll lx (node false lr x r)
  | t => t

def flip1 : LL ρ → LL ρ
  | node c l x r => node (!c) l x r
  | nil => nil

/-- `flipColors`: n and both children change colour -/
def flipColors : LL ρ → LL ρ
  | node c l x r => node (!c) (flip1 l) x (flip1 r)
  | nil => nil

/-- the three rebalancing steps at the end of `Node.insert` (BU23) -/
def balanceInsert (n : LL ρ) : LL ρ :=
  let n := if isRed n.right && !isRed n.left then rotateLeft n else n
  let n := if isRed n.left && isRed n.left.left then rotateRight n else n
  if isRed n.left && isRed n.right then flipColors n else n

/-- `Node.insert`: `e.Compare(n.Elem)` = 0 replaces the element, < 0 goes left, > 0 goes right -/
def insert (c : Cmp ρ) (e : ρ) : LL ρ → LL ρ
  | nil => node false nil e nil
  | node col l x r =>
    balanceInsert (match c e x with
      | .eq => node col l e r
      | .lt => node col (insert c e l) x r
      | .gt => node col l x (insert c e r))

def setBlack : LL ρ → LL ρ
  | node _ l x r => node true l x r
  | nil => nil

/-- `Tree.Insert`: insert, then colour the root black -/
def Insert (c : Cmp ρ) (e : ρ) (t : LL ρ) : LL ρ := setBlack (insert c e t)

def moveRedRight (n : LL ρ) : LL ρ :=
  let n := flipColors n
  if isRed n.left.left then flipColors (rotateRight n) else n

def fixUp (n : LL ρ) : LL ρ :=
  let n := if isRed n.right then rotateLeft n else n
  let n := if isRed n.left && isRed n.left.left then rotateRight n else n
  if isRed n.left && isRed n.right then flipColors n else n

def size : LL ρ → Nat
  | nil => 0
  | node _ l _ r => size l + size r + 1

/-- `Node.deleteMax` (fuel: an upper bound of the recursion depth) -/
def deleteMax : Nat → LL ρ → LL ρ
  | 0, t => t
  | fuel + 1, n =>
    let n := if isRed n.left then rotateRight n else n
    match n with
    | nil => nil
    | node _ _ _ nil => nil
    | node col l x (node rc rl rx rr) =>
      let n := if !isRed (node rc rl rx rr) && !isRed rl then moveRedRight (node col l x (node rc rl rx rr))
               else node col l x (node rc rl rx rr)
      match n with
      | node col' l' x' r' => fixUp (node col' l' x' (deleteMax fuel r'))
      | nil => nil

/-- `Tree.DeleteMax` -/
def DeleteMax (t : LL ρ) : LL ρ := setBlack (deleteMax (size t + 1) t)

/-- `Tree.Do`: the in-order walk -/
def inorder : LL ρ → List ρ
  | nil => []
  | node _ l x r => inorder l ++ x :: inorder r

end LL

/-! ### the sorting scanners over the real tree -/

structure SortStT (ρ : Type) where
  tree : LL ρ := .nil
  count : Int := 0

def sortBodyT (pf : PagingFacts) (c : Cmp ρ) (maxResults : Int) (st : SortStT ρ) (x : ρ) : SortStT ρ :=
  let tree := LL.Insert c x st.tree
  let count := add64 st.count 1
  let evict := if pf.evictStrict then decide (count > maxResults) else decide (count ≥ maxResults)
  if evict then ⟨LL.DeleteMax tree, count⟩ else ⟨tree, count⟩

def sortLoopT (pf : PagingFacts) (c : Cmp ρ) (env : ScanEnv ρ) (maxResults : Int) (st : SortStT ρ) : List ρ → SortStT ρ
  | [] => st
  | x :: rest =>
    if env.admits x then sortLoopT pf c env maxResults (sortBodyT pf c maxResults st x) rest
    else sortLoopT pf c env maxResults st rest

/-- `sortingScanner.ScanCursor` / `memSortingScanner.Scan` with the llrb tree itself -/
def sortScanT (pf : PagingFacts) (c : Cmp ρ) (env : ScanEnv ρ) (q : Paging) (cur : Option (List ρ)) : List ρ × Int :=
  let tg := (setPaging pf q).2
  match cur with
  | none => ([], 0)
  | some cur =>
    let st := sortLoopT pf c env (maxResultsOf pf tg) {} cur
    (walk tg.offset 0 st.tree.inorder, st.count)

/-! ### `Insert` seen through the in-order walk -/

namespace LL

theorem inorder_rotateLeft (t : LL ρ) : inorder (rotateLeft t) = inorder t := by
  cases t with
  | nil => rfl
  | node c l x r =>
    cases r with
    | nil => rfl
    | node rc rl rx rr => simp [rotateLeft, inorder, List.append_assoc]

theorem inorder_rotateRight (t : LL ρ) : inorder (rotateRight t) = inorder t := by
  cases t with
  | nil => rfl
  | node c l x r =>
    cases l with
    | nil => rfl
    | node lc ll lx lr => simp [rotateRight, inorder, List.append_assoc]

theorem inorder_flip1 (t : LL ρ) : inorder (flip1 t) = inorder t := by cases t <;> rfl

theorem inorder_flipColors (t : LL ρ) : inorder (flipColors t) = inorder t := by
  cases t with
  | nil => rfl
  | node c l x r => simp [flipColors, inorder, inorder_flip1]

theorem inorder_setBlack (t : LL ρ) : inorder (setBlack t) = inorder t := by cases t <;> rfl

theorem inorder_balanceInsert (t : LL ρ) : inorder (balanceInsert t) = inorder t := by
  unfold balanceInsert
  simp only
  split <;> split <;> split <;>
    simp only [inorder_flipColors, inorder_rotateRight, inorder_rotateLeft]

/-- inserting into a list that continues after the insertion point -/
theorem tins_append_lt (c : Cmp ρ) (e x : ρ) (l r : List ρ) (h : c e x = .lt) :
    tins c e (l ++ x :: r) = tins c e l ++ x :: r := by
  induction l with
  | nil => simp [tins, h]
  | cons y t ih =>
    simp only [List.cons_append, tins]
    cases c e y <;> simp [ih]

theorem tins_append_gt (c : Cmp ρ) (e x : ρ) (l r : List ρ) (hl : ∀ y ∈ l, c e y = .gt) (h : c e x = .gt) :
    tins c e (l ++ x :: r) = l ++ x :: tins c e r := by
  induction l with
  | nil => simp [tins, h]
  | cons y t ih =>
    simp only [List.cons_append, tins, hl y (List.mem_cons_self ..)]
    rw [ih (fun z hz => hl z (List.mem_cons_of_mem _ hz))]

theorem tins_append_eq (c : Cmp ρ) (e x : ρ) (l r : List ρ) (hl : ∀ y ∈ l, c e y = .gt) (h : c e x = .eq) :
    tins c e (l ++ x :: r) = l ++ e :: r := by
  induction l with
  | nil => simp [tins, h]
  | cons y t ih =>
    simp only [List.cons_append, tins, hl y (List.mem_cons_self ..)]
    rw [ih (fun z hz => hl z (List.mem_cons_of_mem _ hz))]

/-- **`Tree.Insert` = sorted-list insert**: when the comparator is a strict total order on the rows
    involved and the tree's walk is sorted, the walk after `Insert` is `tins` of the walk before —
    replace-on-equal included.  (Only the search path matters; no colour or balance invariant.) -/
theorem insert_inorder {P : ρ → Prop} {c : Cmp ρ} (hc : StrictTotalOn P c) (e : ρ) (he : P e) :
    ∀ t : LL ρ, (∀ y ∈ inorder t, P y) → Sorted c (inorder t) → inorder (insert c e t) = tins c e (inorder t) := by
  intro t
  induction t with
  | nil => intro _ _; rfl
  | node col l x r ihl ihr =>
    intro hP hs
    have hx : P x := hP x (by simp [inorder])
    have hPl : ∀ y ∈ inorder l, P y := fun y hy => hP y (by simp [inorder, hy])
    have hPr : ∀ y ∈ inorder r, P y := fun y hy => hP y (by simp [inorder, hy])
    simp only [inorder] at hs
    have hsl : Sorted c (inorder l) := (List.pairwise_append.1 hs).1
    have hsr : Sorted c (inorder r) := (List.pairwise_cons.1 (List.pairwise_append.1 hs).2.1).2
    have hlx : ∀ y ∈ inorder l, c y x = .lt := fun y hy => (List.pairwise_append.1 hs).2.2 y hy x (List.mem_cons_self ..)
    -- everything left of x is below e as soon as e is not below x
    have hbelow : c e x ≠ .lt → ∀ y ∈ inorder l, c e y = .gt := by
      intro hne y hy
      have hyx := hlx y hy
      have hy' := hPl y hy
      cases hex : c e x with
      | lt => exact absurd hex hne
      | eq =>
        -- e ties with x, so it compares with y as x does
        have h1 := hc.eq_congr e x y he hx hy' hex
        rw [h1, hc.swap y x hy' hx, hyx]; rfl
      | gt =>
        have hxe : c x e = .lt := by rw [hc.swap e x he hx, hex]; rfl
        have := hc.trans_lt y x e hy' hx he hyx hxe
        rw [hc.swap y e hy' he, this]; rfl
    simp only [insert, inorder_balanceInsert, inorder]
    cases hex : c e x with
    | lt =>
      simp only [inorder, ihl hPl hsl]
      exact (tins_append_lt c e x _ _ hex).symm
    | eq =>
      simp only [inorder]
      exact (tins_append_eq c e x _ _ (hbelow (by rw [hex]; decide)) hex).symm
    | gt =>
      simp only [inorder, ihr hPr hsr]
      exact (tins_append_gt c e x _ _ (hbelow (by rw [hex]; decide)) hex).symm

theorem Insert_inorder {P : ρ → Prop} {c : Cmp ρ} (hc : StrictTotalOn P c) (e : ρ) (he : P e) (t : LL ρ)
    (hP : ∀ y ∈ inorder t, P y) (hs : Sorted c (inorder t)) : inorder (Insert c e t) = tins c e (inorder t) := by
  unfold Insert; rw [inorder_setBlack]; exact insert_inorder hc e he t hP hs

end LL

end StorageModel.Query
