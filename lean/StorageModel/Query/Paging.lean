import StorageModel.Query.I64
import StorageModel.Query.Sorted
import StorageModel.Query.PagingFacts
/-
  Model of boltz/query_scanners.go (and of the same scheme in objectz/object_store.go):

    setPaging                          scanner.setPaging
    idxScan   (idxBody, idxLoop)       uniqueIndexScanner.ScanCursor   (nextUnpaged + loop body)
    PagedCursor.next / seek / drain    uniqueIndexScanner.Next / Seek, iterated by the caller
    sortScan  (sortBody, walk)         sortingScanner.ScanCursor / memSortingScanner.Scan

  Rows are an arbitrary type `ρ`; the underlying set cursor is the list of rows it will yield, in
  the order it yields them.  All counters are Go int64 values (`add64` wraps).  The paging
  arithmetic is parameterised by `PagingFacts` (regenerated from the source).
-/
namespace StorageModel.Query

variable {ρ : Type}

/-- the paging part of the compiled query object (`queryNode.Skip`, `queryNode.Limit`); `limit
    none` reaches it as the marker value -1 -/
structure Paging where
  skip : Option Int
  limit : Option Int
  deriving Repr, DecidableEq, Inhabited

/-- `scanner.targetOffset`, `scanner.targetLimit` -/
structure Target where
  offset : Int
  limit : Int
  deriving Repr, DecidableEq, Inhabited

/-- `scanner.setPaging(query)`: returns the query object as it is left behind (defaults written
    back with SetSkip / SetLimit) and the scanner's targets -/
def setPaging (pf : PagingFacts) (q : Paging) : Paging × Target :=
  -- if query.GetSkip() == nil { query.SetSkip(0) }
  let q1 : Paging := match q.skip with
    | none => { q with skip := some 0 }
    | some _ => q
  -- s.targetOffset = *query.GetSkip()
  let off0 : Int := q1.skip.getD 0
  -- if s.targetOffset < 0 { s.targetOffset = 0 }
  let off : Int := if pf.clampNegativeSkip && decide (off0 < 0) then 0 else off0
  -- if query.GetLimit() == nil || *query.GetLimit() < 0 { query.SetLimit(math.MaxInt64) }
  let q2 : Paging := match q1.limit with
    | none => { q1 with limit := some maxI64 }
    | some l => if l < 0 then { q1 with limit := some maxI64 } else q1
  -- s.targetLimit = *query.GetLimit()
  (q2, ⟨off, q2.limit.getD 0⟩)

/-- which rows a scan admits: the child-store presence test and the query predicate -/
structure ScanEnv (ρ : Type) where
  /-- `store.IsChildStore() && !store.IsEntityPresent(tx, id) && !store.IsExtended()` -/
  childSkip : ρ → Bool := fun _ => false
  /-- `query.EvalBool(rowCursor)` -/
  pred : ρ → Bool

def ScanEnv.admits (env : ScanEnv ρ) (x : ρ) : Bool := !env.childSkip x && env.pred x

/-- the rows the query matches, in cursor order -/
def matching (env : ScanEnv ρ) (cur : List ρ) : List ρ := cur.filter env.admits

/-! ### uniqueIndexScanner.ScanCursor -/

structure IdxSt (ρ : Type) where
  offset : Int := 0
  collected : Int := 0
  count : Int := 0
  result : List ρ := []

/-- the body of `for scanner.IsValid() { ... }` for the current row `x` -/
def idxBody (tg : Target) (st : IdxSt ρ) (x : ρ) : IdxSt ρ :=
  let st1 : IdxSt ρ :=
    if st.offset < tg.offset then { st with offset := add64 st.offset 1 }
    else if st.collected < tg.limit then { st with result := st.result ++ [x], collected := add64 st.collected 1 }
    else st
  { st1 with count := add64 st1.count 1 }

/-- `nextUnpaged` walks the cursor to the next admitted row, then the body runs for it -/
def idxLoop (tg : Target) (env : ScanEnv ρ) (st : IdxSt ρ) : List ρ → IdxSt ρ
  | [] => st
  | x :: rest => if env.admits x then idxLoop tg env (idxBody tg st x) rest else idxLoop tg env st rest

/-- `uniqueIndexScanner.ScanCursor`; `cur = none` is a nil cursor from the provider -/
def idxScan (pf : PagingFacts) (env : ScanEnv ρ) (q : Paging) (cur : Option (List ρ)) : List ρ × Int :=
  let tg := (setPaging pf q).2
  match cur with
  | none => ([], 0)
  | some cur =>
    let st := idxLoop tg env {} cur
    (st.result, st.count)

/-! ### uniqueIndexScanner as a cursor: Next / Seek -/

structure PagedCursor (ρ : Type) where
  /-- every row of the underlying cursor (needed by Seek, which is absolute) -/
  all : List ρ
  /-- rows the underlying cursor has not yielded yet -/
  rest : List ρ
  offset : Int := 0
  collected : Int := 0
  current : Option ρ := none

/-- `uniqueIndexScanner.Next` -/
def nextGo (tg : Target) (env : ScanEnv ρ) (all : List ρ) : List ρ → Int → Int → PagedCursor ρ
  | [], off, col => ⟨all, [], off, col, none⟩                       -- !cursor.IsValid()
  | x :: rest, off, col =>
    if col ≥ tg.limit then ⟨all, x :: rest, off, col, none⟩         -- collected >= targetLimit
    else if env.admits x then
      if off < tg.offset then nextGo tg env all rest (add64 off 1) col
      else ⟨all, rest, off, add64 col 1, some x⟩
    else nextGo tg env all rest off col

def PagedCursor.next (tg : Target) (env : ScanEnv ρ) (c : PagedCursor ρ) : PagedCursor ρ :=
  nextGo tg env c.all c.rest c.offset c.collected

/-- `newFilteredCursor` / `newCursorScanner`: set the paging, then `Next()` once -/
def openPaged (pf : PagingFacts) (env : ScanEnv ρ) (q : Option Paging) (cur : List ρ) : Target × PagedCursor ρ :=
  let tg : Target := match q with
    | none => ⟨0, maxI64⟩                    -- filter is not a Query: targetOffset 0, targetLimit MaxInt64
    | some q => (setPaging pf q).2
  (tg, PagedCursor.next tg env ⟨cur, cur, 0, 0, none⟩)

/-- the caller's loop `for c.IsValid() { use(c.Current()); c.Next() }` (fuel = an upper bound of the
    number of rounds) -/
def drain (tg : Target) (env : ScanEnv ρ) : Nat → PagedCursor ρ → List ρ
  | 0, _ => []
  | fuel + 1, c =>
    match c.current with
    | none => []
    | some x => x :: drain tg env fuel (c.next tg env)

def iterate (pf : PagingFacts) (env : ScanEnv ρ) (q : Option Paging) (cur : List ρ) : List ρ :=
  let (tg, c) := openPaged pf env q cur
  drain tg env (cur.length + 1) c

/-- `uniqueIndexScanner.Seek` over a seekable forward cursor (`ForwardBoltCursor.Seek` positions
    the bolt cursor at the first key ≥ val): seek the underlying cursor, then `Next()` -/
def PagedCursor.seek (tg : Target) (env : ScanEnv ρ) (before : ρ → Bool) (c : PagedCursor ρ) : PagedCursor ρ :=
  PagedCursor.next tg env { c with rest := c.all.dropWhile before }

/-! ### sortingScanner.ScanCursor / memSortingScanner.Scan -/

structure SortSt (ρ : Type) where
  tree : List ρ := []
  count : Int := 0

/-- `maxResults := targetOffset + targetLimit` (+ the overflow guard when the source has it) -/
def maxResultsOf (pf : PagingFacts) (tg : Target) : Int :=
  let m := add64 tg.offset tg.limit
  if pf.overflowGuard && decide (m < 0) then maxI64 else m

/-- `results.Insert(row); scanner.count++; if scanner.count > maxResults { results.DeleteMax() }` -/
def sortBody (pf : PagingFacts) (c : Cmp ρ) (maxResults : Int) (st : SortSt ρ) (x : ρ) : SortSt ρ :=
  let tree := tins c x st.tree
  let count := add64 st.count 1
  let evict := if pf.evictStrict then decide (count > maxResults) else decide (count ≥ maxResults)
  if evict then ⟨tree.dropLast, count⟩ else ⟨tree, count⟩

def sortLoop (pf : PagingFacts) (c : Cmp ρ) (env : ScanEnv ρ) (maxResults : Int) (st : SortSt ρ) : List ρ → SortSt ρ
  | [] => st
  | x :: rest =>
    if env.admits x then sortLoop pf c env maxResults (sortBody pf c maxResults st x) rest
    else sortLoop pf c env maxResults st rest

/-- the final `results.Do(...)`: skip while `offset < targetOffset`, then collect -/
def walk (tOff : Int) : Int → List ρ → List ρ
  | _, [] => []
  | off, x :: t => if off < tOff then walk tOff (add64 off 1) t else x :: walk tOff off t

def sortScan (pf : PagingFacts) (c : Cmp ρ) (env : ScanEnv ρ) (q : Paging) (cur : Option (List ρ)) : List ρ × Int :=
  let tg := (setPaging pf q).2
  match cur with
  | none => ([], 0)
  | some cur =>
    let st := sortLoop pf c env (maxResultsOf pf tg) {} cur
    (walk tg.offset 0 st.tree, st.count)

end StorageModel.Query
