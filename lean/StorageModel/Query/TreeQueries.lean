import StorageModel.Query.Llrb
import StorageModel.Query.Objectz
/-
  The query entry points of both stores with the sorting scanners run over the llrb tree port
  (Query/Llrb.lean) instead of its sorted-list view.  Used by the drivers as a cross-check of the
  sorted-list model on every case, and by the examples that keep the pre-1532996 NaN behaviour on
  record (a comparator that is no order: the result depends on the shape of the tree).
-/
namespace StorageModel.Query
open StorageModel

def scanCursorT (pf : PagingFacts) (st : BoltStore) (q : Query) (provider : Bool → Option (List Row)) :
    Except SortErr (List Row × Int) :=
  match newScanner q.sort with
  | .index fwd => .ok (idxScan pf (st.env q.filter) q.paging (provider fwd))
  | .sorting =>
    match newRowComparator st.schema q.sort with
    | .error e => .error e
    | .ok c => .ok (sortScanT pf c (st.env q.filter) q.paging (provider true))

def queryIdsCT (pf : PagingFacts) (st : BoltStore) (q : Query) : Except SortErr (List Row × Int) :=
  match st.bucket with
  | none => .ok ([], 0)
  | some rows => scanCursorT pf st q (fun fwd => some (bucketCursor rows fwd))

def objQueryT (pf : PagingFacts) (st : ObjStore) (q : Query) : ObjOutcome (List Row × Int) :=
  match newRowComparator st.schema q.sort with
  | .error e => .err e
  | .ok c =>
    match st.objs with
    | none => .ok ([], 0)
    | some objs => .ok (sortScanT pf c (st.env q.filter) q.paging (some objs))

end StorageModel.Query
