import StorageModel.Query.Order
/-
  The llrb result tree of the sorting scanners, seen through its in-order walk: a list that is
  strictly sorted under the row comparator.

    tins     = llrb.Tree.Insert   (insert in order, *replace* an element that compares equal)
    dropLast = llrb.Tree.DeleteMax

  and the specification-side sort (`sort`, plain insertion sort that never drops anything)
  together with the facts the scanner theorems need:

    tins_take        (tins x (l.take k)).take k = (tins x l).take k         -- the core lemma
    bounded_fold     inserting and cutting to k while streaming = cutting the full result to k
    sort_unique      a strictly sorted permutation of xs *is* `sort c xs`
    foldl_tins_eq_sort
-/
namespace StorageModel.Query

variable {ρ : Type}

/-- llrb `Insert` on the in-order list -/
def tins (c : Cmp ρ) (x : ρ) : List ρ → List ρ
  | [] => [x]
  | y :: t =>
    match c x y with
    | .lt => x :: y :: t
    | .eq => x :: t
    | .gt => y :: tins c x t

/-- specification-side ordered insert: never replaces -/
def oins (c : Cmp ρ) (x : ρ) : List ρ → List ρ
  | [] => [x]
  | y :: t =>
    match c x y with
    | .gt => y :: oins c x t
    | _ => x :: y :: t

/-- specification-side sort -/
def sort (c : Cmp ρ) (xs : List ρ) : List ρ := xs.foldr (oins c) []

def Sorted (c : Cmp ρ) (l : List ρ) : Prop := l.Pairwise (fun a b => c a b = .lt)

/-! ### the core lemma of the bounded tree -/

theorem tins_take (c : Cmp ρ) (x : ρ) (l : List ρ) (k : Nat) :
    (tins c x (l.take k)).take k = (tins c x l).take k := by
  induction l generalizing k with
  | nil => simp
  | cons y t ih =>
    cases k with
    | zero => simp
    | succ k =>
      simp only [List.take_succ_cons, tins]
      cases c x y with
      | lt =>
        simp only [List.take_succ_cons]
        congr 1
        cases k with
        | zero => simp
        | succ k => simp [List.take_take]
      | eq => simp [List.take_take]
      | gt => simp only [List.take_succ_cons, ih]

/-- cutting after every insertion = cutting once at the end -/
theorem bounded_fold (c : Cmp ρ) (K : Nat) (t : List ρ) (xs : List ρ) :
    xs.foldl (fun t x => (tins c x t).take K) (t.take K) = (xs.foldl (fun t x => tins c x t) t).take K := by
  induction xs generalizing t with
  | nil => rfl
  | cons x xs ih =>
    simp only [List.foldl_cons]
    rw [tins_take, ih]

/-! ### membership, length, permutation -/

theorem mem_tins {c : Cmp ρ} {x z : ρ} {l : List ρ} (h : z ∈ tins c x l) : z = x ∨ z ∈ l := by
  induction l with
  | nil => simp [tins] at h; exact .inl h
  | cons y t ih =>
    simp only [tins] at h
    split at h
    · simp only [List.mem_cons] at h ⊢; exact h
    · simp only [List.mem_cons] at h ⊢; rcases h with h | h
      · exact .inl h
      · exact .inr (.inr h)
    · simp only [List.mem_cons] at h ⊢; rcases h with h | h
      · exact .inr (.inl h)
      · rcases ih h with h | h
        · exact .inl h
        · exact .inr (.inr h)

theorem tins_eq_oins {c : Cmp ρ} {x : ρ} {l : List ρ} (h : ∀ y ∈ l, c x y ≠ .eq) : tins c x l = oins c x l := by
  induction l with
  | nil => rfl
  | cons y t ih =>
    have hy := h y (List.mem_cons_self ..)
    simp only [tins, oins]
    cases hc : c x y with
    | lt => rfl
    | eq => exact absurd hc hy
    | gt => simp only; rw [ih fun z hz => h z (List.mem_cons_of_mem _ hz)]

theorem oins_perm (c : Cmp ρ) (x : ρ) (l : List ρ) : (oins c x l).Perm (x :: l) := by
  induction l with
  | nil => exact .refl _
  | cons y t ih =>
    simp only [oins]
    split
    · exact ((List.Perm.cons y ih).trans (List.Perm.swap x y t))
    · exact .refl _

theorem sort_perm (c : Cmp ρ) (xs : List ρ) : (sort c xs).Perm xs := by
  induction xs with
  | nil => exact .refl _
  | cons x xs ih =>
    show (oins c x (sort c xs)).Perm (x :: xs)
    exact (oins_perm c x _).trans (List.Perm.cons x ih)

theorem length_sort (c : Cmp ρ) (xs : List ρ) : (sort c xs).length = xs.length := (sort_perm c xs).length_eq

/-! ### sortedness -/

theorem oins_sorted {P : ρ → Prop} {c : Cmp ρ} (hc : WeakOrdOn P c) {x : ρ} {l : List ρ}
    (hx : P x) (hl : ∀ y ∈ l, P y) (hne : ∀ y ∈ l, c x y ≠ .eq) (hs : Sorted c l) : Sorted c (oins c x l) := by
  induction l with
  | nil => simp [oins, Sorted]
  | cons y t ih =>
    have hy := hl y (List.mem_cons_self ..)
    have hs' : Sorted c t := (List.pairwise_cons.1 hs).2
    have hyt : ∀ z ∈ t, c y z = .lt := (List.pairwise_cons.1 hs).1
    simp only [oins]
    cases hxy : c x y with
    | eq => exact absurd hxy (hne y (List.mem_cons_self ..))
    | lt =>
      simp only
      refine List.pairwise_cons.2 ⟨?_, hs⟩
      intro z hz
      rcases List.mem_cons.1 hz with rfl | hz
      · exact hxy
      · exact hc.trans_lt x y z hx hy (hl z (List.mem_cons_of_mem _ hz)) hxy (hyt z hz)
    | gt =>
      simp only
      refine List.pairwise_cons.2 ⟨?_, ih (fun z hz => hl z (List.mem_cons_of_mem _ hz))
        (fun z hz => hne z (List.mem_cons_of_mem _ hz)) hs'⟩
      intro z hz
      have := (oins_perm c x t).subset hz
      rcases List.mem_cons.1 this with rfl | hz
      · rw [hc.swap z y hx hy, hxy]; rfl
      · exact hyt z hz

/-- on pairwise different rows the specification sort is strictly sorted -/
theorem sort_sorted {P : ρ → Prop} {c : Cmp ρ} (hc : StrictTotalOn P c) {xs : List ρ}
    (hP : ∀ a ∈ xs, P a) (hnd : xs.Nodup) : Sorted c (sort c xs) := by
  induction xs with
  | nil => simp [sort, Sorted]
  | cons x xs ih =>
    have hnd' := List.nodup_cons.1 hnd
    show Sorted c (oins c x (sort c xs))
    refine oins_sorted hc.toWeakOrdOn (hP x (List.mem_cons_self ..))
      (fun y hy => hP y (List.mem_cons_of_mem _ ((sort_perm c xs).subset hy))) ?_
      (ih (fun a ha => hP a (List.mem_cons_of_mem _ ha)) hnd'.2)
    intro y hy heq
    have hy' := (sort_perm c xs).subset hy
    have := hc.eq_imp x y (hP x (List.mem_cons_self ..)) (hP y (List.mem_cons_of_mem _ hy')) heq
    exact hnd'.1 (this ▸ hy')

/-- **uniqueness**: a strictly sorted permutation of `xs` is `sort c xs` — the specification does
    not depend on how the sorting is done -/
theorem sort_unique {P : ρ → Prop} {c : Cmp ρ} (hc : StrictTotalOn P c) {xs l : List ρ}
    (hP : ∀ a ∈ xs, P a) (hnd : xs.Nodup) (hperm : l.Perm xs) (hs : Sorted c l) : l = sort c xs := by
  refine List.Perm.eq_of_pairwise (le := fun a b => c a b = .lt) ?_ hs (sort_sorted hc hP hnd)
    (hperm.trans (sort_perm c xs).symm)
  intro a b ha hb hab hba
  have hPa := hP a (hperm.subset ha)
  have hPb := hP b ((sort_perm c xs).subset hb)
  have := hc.swap a b hPa hPb
  rw [hab, hba] at this
  cases this

/-- the unbounded tree after inserting every row, walked in order, is the sorted input -/
theorem foldl_tins_eq_sort {P : ρ → Prop} {c : Cmp ρ} (hc : StrictTotalOn P c) {xs : List ρ}
    (hP : ∀ a ∈ xs, P a) (hnd : xs.Nodup) :
    xs.foldl (fun t x => tins c x t) [] = sort c xs ∧
    (xs.foldl (fun t x => tins c x t) []).length = xs.length := by
  -- generalise: the accumulator is a sorted permutation of the rows seen so far
  suffices h : ∀ (seen : List ρ) (t : List ρ), t.Perm seen → Sorted c t → (seen ++ xs).Nodup →
      (∀ a ∈ seen ++ xs, P a) →
      (xs.foldl (fun t x => tins c x t) t).Perm (seen ++ xs) ∧ Sorted c (xs.foldl (fun t x => tins c x t) t) by
    have := h [] [] (.refl _) (by simp [Sorted]) (by simpa using hnd) (by simpa using hP)
    simp only [List.nil_append] at this
    exact ⟨sort_unique hc hP hnd this.1 this.2, this.1.length_eq⟩
  clear hP hnd
  intro seen t
  induction xs generalizing seen t with
  | nil => intro hp hs _ _; simpa using ⟨hp, hs⟩
  | cons x xs ih =>
    intro hp hs hnd hP
    simp only [List.foldl_cons]
    have hx : P x := hP x (by simp)
    have ht : ∀ y ∈ t, P y := fun y hy => hP y (List.mem_append_left _ (hp.subset hy))
    have hne : ∀ y ∈ t, c x y ≠ .eq := by
      intro y hy heq
      have := hc.eq_imp x y hx (ht y hy) heq
      subst this
      have hmem := hp.subset hy
      have := (List.nodup_append.1 hnd).2.2 x hmem x (List.mem_cons_self ..)
      exact this rfl
    rw [tins_eq_oins hne]
    have := ih (seen ++ [x]) (oins c x t)
      (((oins_perm c x t).trans (List.Perm.cons x hp)).trans (List.perm_append_comm (l₁ := [x])))
      (oins_sorted hc.toWeakOrdOn hx ht hne hs) (by simpa using hnd) (by simpa using hP)
    simpa using this

end StorageModel.Query
