import StorageModel.Query.TreeQueries
/-
  objectz over objects whose datetime fields are Go `time.Time` VALUES, not bare instants.

  A `time.Time` is a struct (wall, ext, loc): besides the instant it carries the `*Location` pointer and, when
  it stems from `time.Now()`, a monotonic clock reading.  One instant has many representations: the same moment
  in UTC / in a `FixedZone` / in `time.Local`, with or without the monotonic reading (`t.Round(0)`, or a round
  trip through any serialised form, strips it).  A bolt store keeps the instant only (`SetTime`); an object
  store hands the struct itself to `objectDatetimeSymbolComparator.compare`, which uses `Before` / `After`.

  `TObj` = the row (the field values, datetime fields as instants: exactly what the bolt store holds) plus the
  representation details of its datetime fields.  `objSymCmpT` / `objNewRowComparatorT` / `objQueryTP` are the
  objectz comparators and `QueryEntitiesC` over such objects; `objQueryTP_map_row` shows that the
  representation is invisible.
-/
namespace StorageModel.Query
open StorageModel

/-- what a `time.Time` carries besides its instant -/
structure TimeRep where
  /-- the monotonic clock reading, when `wall&hasMonotonic != 0` -/
  mono : Option Int := none
  /-- identity of the `*Location` pointer (0 = nil = UTC) -/
  loc : Nat := 0
  deriving Repr, DecidableEq, Inhabited

/-- a Go `time.Time` value -/
structure GoTime where
  /-- the instant: nanoseconds since the Unix epoch -/
  ns : Int
  mono : Option Int
  loc : Nat
  deriving Repr, DecidableEq, Inhabited

/-- `t.Before(u)`: `if t.wall&u.wall&hasMonotonic != 0 { return t.ext < u.ext }`, else by instant -/
def GoTime.before (t u : GoTime) : Bool :=
  match t.mono, u.mono with
  | some a, some b => decide (a < b)
  | _, _ => decide (t.ns < u.ns)

/-- `t.After(u)` -/
def GoTime.after (t u : GoTime) : Bool :=
  match t.mono, u.mono with
  | some a, some b => decide (b < a)
  | _, _ => decide (u.ns < t.ns)

/-- `objectDatetimeSymbolComparator.compare` on two non-nil keys:
    `else if s1.Before(*s2) { -1 } else if s1.After(*s2) { 1 }` -/
def objCmpTimeVal (t u : GoTime) : Ordering :=
  if t.before u then .lt else if t.after u then .gt else .eq

/-- the same with equality of the keys decided by Go's `==` on the struct (`*s1 != *s2`) and a single
    `Before` call: NOT what the code does; kept for the counter-example below -/
def objCmpTimeValStructEq (t u : GoTime) : Ordering :=
  if t ≠ u then (if t.before u then .lt else .gt) else .eq

/-- an object: its field values (what a bolt store holding the same values keeps) and, per datetime symbol,
    how the `time.Time` the symbol function returns represents the instant -/
structure TObj where
  row : Row
  rep : String → TimeRep

/-- `symbol.EvalDatetime(entity)` -/
def objTime (name : String) (o : TObj) : Option GoTime :=
  (fieldToDatetime (evalSym name o.row)).map fun ns => ⟨ns, (o.rep name).mono, (o.rep name).loc⟩

/-- one objectz `objectXxxSymbolComparator.compare` including the direction flip; `tcmp` = the comparison of
    two non-nil datetime keys -/
def objSymCmpTW (tcmp : GoTime → GoTime → Ordering) (ty : SymType) (name : String) (fwd : Bool) : Cmp TObj := fun a b =>
  match ty with
  | .datetime => dir fwd (nullsFirst tcmp (objTime name a) (objTime name b))
  | _ => symCmp ty name fwd a.row b.row

def objSymCmpT := objSymCmpTW objCmpTimeVal

/-- objectz `newRowComparator` over such objects (same resolution as `resolveSort`) -/
def objResolveSortTW (tcmp : GoTime → GoTime → Ordering) (schema : Schema) : List SortField → Except SortErr (List (Cmp TObj))
  | [] => .ok []
  | f :: rest =>
    match schema.lookup f.name with
    | none => .error .noSuchField
    | some info =>
      if info.isSet then .error .invalidSetField
      else if info.ty = .other then .error .unsupportedType
      else match objResolveSortTW tcmp schema rest with
        | .error e => .error e
        | .ok cs => .ok (objSymCmpTW tcmp info.ty f.name f.asc :: cs)

def objNewRowComparatorTW (tcmp : GoTime → GoTime → Ordering) (schema : Schema) (sort : List SortField) :
    Except SortErr (Cmp TObj) :=
  match objResolveSortTW tcmp schema (sort ++ [⟨"id", true⟩]) with
  | .error e => .error e
  | .ok cs => .ok (chain cs)

def objNewRowComparatorT := objNewRowComparatorTW objCmpTimeVal

def ObjOutcome.mapRows {α β : Type} (f : α → β) : ObjOutcome (List α × Int) → ObjOutcome (List β × Int)
  | .ok (l, n) => .ok (l.map f, n)
  | .err e => .err e
  | .panic => .panic

/-- `QueryEntitiesC` over objects holding `time.Time` values; the filter is any node given by its evaluation on
    the object cursor (filter nodes use `Equal` / `Before` / `After` against constants without monotonic reading:
    they see the instant only) -/
def objQueryTPW (tcmp : GoTime → GoTime → Ordering) (scan : Cmp TObj → ScanEnv TObj → Paging → Option (List TObj) → List TObj × Int)
    (symbols : List (String × SymType)) (objs : Option (List TObj))
    (ev : Symbols → Bool) (sort : List SortField) (paging : Paging) : ObjOutcome (List TObj × Int) :=
  let st : ObjStore := ⟨symbols, none⟩
  match objNewRowComparatorTW tcmp st.schema sort with
  | .error e => .err e
  | .ok c =>
    match objs with
    | none => .ok ([], 0)
    | some objs => .ok (scan c { pred := fun o => ev (objSymbols st o.row) } paging (some objs))

def objQueryTP (pf : PagingFacts) := objQueryTPW objCmpTimeVal (sortScan pf)

/-- the same over the llrb port (cross-check in the driver) -/
def objQueryTPT (pf : PagingFacts) := objQueryTPW objCmpTimeVal (sortScanT pf)

/-! ### the representation is invisible -/

/-- two `time.Time` values whose monotonic readings (if both have one) order like their instants: true of any
    two readings of one process unless the wall clock was stepped between them -/
def MonoAgrees (t u : GoTime) : Prop :=
  ∀ x y, t.mono = some x → u.mono = some y → ((x < y ↔ t.ns < u.ns) ∧ (y < x ↔ u.ns < t.ns))

def MonoConsistent (objs : List TObj) : Prop :=
  ∀ a ∈ objs, ∀ b ∈ objs, ∀ n t u, objTime n a = some t → objTime n b = some u → MonoAgrees t u

/-- `Before` / `After` decide by instant -/
theorem objCmpTimeVal_eq_instant {t u : GoTime} (h : MonoAgrees t u) : objCmpTimeVal t u = cmpTimeVal t.ns u.ns := by
  unfold objCmpTimeVal GoTime.before GoTime.after cmpTimeVal cmpInt
  cases ht : t.mono with
  | none => simp
  | some x =>
    cases hu : u.mono with
    | none => simp
    | some y =>
      obtain ⟨h1, h2⟩ := h x y ht hu
      by_cases hlt : t.ns < u.ns
      · simp [hlt, h1.2 hlt]
      · by_cases hgt : u.ns < t.ns
        · have : ¬ x < y := fun hx => hlt (h1.1 hx)
          simp [hlt, hgt, this, h2.2 hgt]
        · have a1 : ¬ x < y := fun hx => hlt (h1.1 hx)
          have a2 : ¬ y < x := fun hx => hgt (h2.1 hx)
          simp [hlt, hgt, a1, a2]

theorem objSymCmpT_eq_row {a b : TObj} (h : ∀ n t u, objTime n a = some t → objTime n b = some u → MonoAgrees t u)
    (ty : SymType) (name : String) (fwd : Bool) :
    objSymCmpT ty name fwd a b = symCmp ty name fwd a.row b.row := by
  cases ty <;> try rfl
  simp only [objSymCmpT, objSymCmpTW, symCmp]
  congr 1
  have h' := h name
  unfold objTime at h' ⊢
  cases ha : fieldToDatetime (evalSym name a.row) <;> cases hb : fieldToDatetime (evalSym name b.row) <;>
    simp only [Option.map, nullsFirst]
  rw [ha, hb] at h'
  exact objCmpTimeVal_eq_instant (h' _ _ rfl rfl)

/-- objectz `newRowComparator` over `time.Time`-holding objects fails exactly when it fails over the rows, and
    otherwise compares two objects as the row comparator compares their rows -/
theorem objResolveSortT_agree (S : TObj → Prop)
    (hS : ∀ a b, S a → S b → ∀ ty name fwd, objSymCmpT ty name fwd a b = symCmp ty name fwd a.row b.row)
    (schema : Schema) (fs : List SortField) :
    match objResolveSortTW objCmpTimeVal schema fs, resolveSort schema fs with
    | .ok cs', .ok cs => ∀ a b, S a → S b → chain cs' a b = chain cs a.row b.row
    | .error e', .error e => e' = e
    | _, _ => False := by
  induction fs with
  | nil => simp [objResolveSortTW, resolveSort, chain]
  | cons f rest ih =>
    simp only [objResolveSortTW, resolveSort]
    cases hl : schema.lookup f.name with
    | none => simp
    | some info =>
      simp only
      by_cases h1 : info.isSet = true
      · simp [h1]
      · by_cases h2 : info.ty = .other
        · simp [h1, h2]
        · simp only [h1, h2, if_false, Bool.false_eq_true]
          cases hr' : objResolveSortTW objCmpTimeVal schema rest <;> cases hr : resolveSort schema rest <;>
            simp only [hr', hr] at ih ⊢
          · exact ih
          · intro a b ha hb
            have := hS a b ha hb info.ty f.name f.asc
            simp only [objSymCmpT] at this
            simp only [chain, this, ih a b ha hb]

theorem objNewRowComparatorT_agree (S : TObj → Prop)
    (hS : ∀ a b, S a → S b → ∀ ty name fwd, objSymCmpT ty name fwd a b = symCmp ty name fwd a.row b.row)
    (schema : Schema) (sort : List SortField) :
    match objNewRowComparatorT schema sort, newRowComparator schema sort with
    | .ok c', .ok c => ∀ a b, S a → S b → c' a b = c a.row b.row
    | .error e', .error e => e' = e
    | _, _ => False := by
  have := objResolveSortT_agree S hS schema (sort ++ [⟨"id", true⟩])
  unfold objNewRowComparatorT objNewRowComparatorTW newRowComparator
  cases hr' : objResolveSortTW objCmpTimeVal schema (sort ++ [⟨"id", true⟩]) <;>
    cases hr : resolveSort schema (sort ++ [⟨"id", true⟩]) <;> simp only [hr', hr] at this ⊢ <;> exact this

/-! #### the bounded-tree scan commutes with a map that respects the comparator -/

section scanMap
variable {σ ρ : Type} (f : σ → ρ) (c' : Cmp σ) (c : Cmp ρ) (S : σ → Prop)

def evictOf (pf : PagingFacts) (count mr : Int) : Bool :=
  if pf.evictStrict then decide (count > mr) else decide (count ≥ mr)

theorem sortBody_def {τ : Type} (pf : PagingFacts) (c : Cmp τ) (mr : Int) (st : SortSt τ) (x : τ) :
    sortBody pf c mr st x =
      if evictOf pf (add64 st.count 1) mr then ⟨(tins c x st.tree).dropLast, add64 st.count 1⟩
      else ⟨tins c x st.tree, add64 st.count 1⟩ := rfl

theorem tins_map (h : ∀ a b, S a → S b → c' a b = c (f a) (f b)) {x : σ} {l : List σ} (hx : S x) (hl : ∀ y ∈ l, S y) :
    (tins c' x l).map f = tins c (f x) (l.map f) := by
  induction l with
  | nil => rfl
  | cons y t ih =>
    have hy := hl y (List.mem_cons_self ..)
    simp only [tins, List.map_cons, ← h x y hx hy]
    cases c' x y <;> simp only [List.map_cons]
    rw [ih fun z hz => hl z (List.mem_cons_of_mem _ hz)]

theorem tins_mem_S {x : σ} {l : List σ} (hx : S x) (hl : ∀ y ∈ l, S y) : ∀ z ∈ tins c' x l, S z := by
  intro z hz
  rcases mem_tins hz with rfl | hz
  · exact hx
  · exact hl z hz

theorem walk_map (tOff : Int) (off : Int) (l : List σ) : (walk tOff off l).map f = walk tOff off (l.map f) := by
  induction l generalizing off with
  | nil => rfl
  | cons x t ih =>
    simp only [walk, List.map_cons]
    split
    · exact ih _
    · simp only [List.map_cons, ih]

theorem sortLoop_map (pf : PagingFacts) (h : ∀ a b, S a → S b → c' a b = c (f a) (f b)) (env : ScanEnv ρ) (mr : Int)
    (st : SortSt σ) (cur : List σ) (hst : ∀ y ∈ st.tree, S y) (hcur : ∀ y ∈ cur, S y) :
    let r := sortLoop pf c' { childSkip := fun o => env.childSkip (f o), pred := fun o => env.pred (f o) } mr st cur
    let r0 := sortLoop pf c env mr ⟨st.tree.map f, st.count⟩ (cur.map f)
    r.tree.map f = r0.tree ∧ r.count = r0.count := by
  induction cur generalizing st with
  | nil => simp [sortLoop]
  | cons x rest ih =>
    have hx := hcur x (List.mem_cons_self ..)
    have hrest : ∀ y ∈ rest, S y := fun y hy => hcur y (List.mem_cons_of_mem _ hy)
    simp only [sortLoop, List.map_cons, ScanEnv.admits]
    by_cases ha : (!env.childSkip (f x) && env.pred (f x)) = true
    · simp only [ha, if_true]
      have hbody : sortBody pf c mr ⟨st.tree.map f, st.count⟩ (f x) =
          ⟨(sortBody pf c' mr st x).tree.map f, (sortBody pf c' mr st x).count⟩ := by
        simp only [sortBody_def, ← tins_map f c' c S h hx hst]
        cases evictOf pf (add64 st.count 1) mr <;> simp [List.map_dropLast]
      rw [hbody]
      apply ih
      · intro y hy
        have hm := tins_mem_S c' S hx hst
        rw [sortBody_def] at hy
        cases he : evictOf pf (add64 st.count 1) mr <;> simp only [he, if_true, if_false, Bool.false_eq_true] at hy
        · exact hm y hy
        · exact hm y (List.dropLast_subset _ hy)
      · exact hrest
    · simp only [ha, if_false, Bool.false_eq_true]
      exact ih st hst hrest

theorem sortScan_map (pf : PagingFacts) (h : ∀ a b, S a → S b → c' a b = c (f a) (f b)) (env : ScanEnv ρ) (q : Paging)
    (cur : List σ) (hcur : ∀ y ∈ cur, S y) :
    let r := sortScan pf c' { childSkip := fun o => env.childSkip (f o), pred := fun o => env.pred (f o) } q (some cur)
    (r.1.map f, r.2) = sortScan pf c env q (some (cur.map f)) := by
  have := sortLoop_map f c' c S pf h env (maxResultsOf pf (setPaging pf q).2) {} cur (by simp) hcur
  simp only [sortScan, walk_map]
  simp only [List.map_nil] at this
  rw [this.1, this.2]

end scanMap

/-- **the representation of a datetime field is invisible**: `QueryEntitiesC` over objects holding `time.Time`
    values in any mix of locations, with or without monotonic readings (readings that order like the instants),
    returns — object for object, in order, with the count, or with the same error — what it returns over the
    bare field values, for every filter node, sort list, skip and limit and every iteration order. -/
theorem objQueryTP_map_row (pf : PagingFacts) (symbols : List (String × SymType)) (objs : List TObj)
    (ev : Symbols → Bool) (sort : List SortField) (paging : Paging) (hm : MonoConsistent objs) :
    (objQueryTP pf symbols (some objs) ev sort paging).mapRows (·.row) =
      objQueryP pf ⟨symbols, some (objs.map (·.row))⟩ ev sort paging := by
  have hS : ∀ a b, a ∈ objs → b ∈ objs → ∀ ty name fwd, objSymCmpT ty name fwd a b = symCmp ty name fwd a.row b.row :=
    fun a b ha hb => objSymCmpT_eq_row (fun n t u => hm a ha b hb n t u)
  have hag := objNewRowComparatorT_agree (fun o => o ∈ objs) hS (ObjStore.schema ⟨symbols, none⟩) sort
  unfold objQueryTP objQueryTPW objQueryP
  have hsch : ObjStore.schema ⟨symbols, some (objs.map (·.row))⟩ = ObjStore.schema ⟨symbols, none⟩ := rfl
  simp only [hsch]
  simp only [objNewRowComparatorT] at hag
  cases hc' : objNewRowComparatorTW objCmpTimeVal (ObjStore.schema ⟨symbols, none⟩) sort <;>
    cases hc : newRowComparator (ObjStore.schema ⟨symbols, none⟩) sort <;> simp only [hc', hc] at hag ⊢
  · simp only [ObjOutcome.mapRows, hag]
  · next c' c =>
    have := sortScan_map (·.row) c' c (fun o => o ∈ objs) pf hag
      { pred := fun r => ev (objSymbols ⟨symbols, some (objs.map (·.row))⟩ r) } paging objs (fun _ h => h)
    simp only at this
    simp only [ObjOutcome.mapRows]
    have hsym : ∀ r, objSymbols ⟨symbols, none⟩ r = objSymbols ⟨symbols, some (objs.map (·.row))⟩ r := fun _ => rfl
    simp only [hsym]
    rw [← this]

end StorageModel.Query
