import StorageModel.Query.Compare
/-
  `float64(int64)` (Query/Compare.lean `intToF64Bits`: round to nearest, ties to even) never inverts
  an order: the float64 keys of integers a ≤ b compare ≤.  So a float64 symbol over int-stored
  fields sorts them numerically; integers that round to the same float64 tie and fall to the next
  sort field / the id.
-/
namespace StorageModel.Query

theorem log2_bounds {n : Nat} (h : n ≠ 0) : 2 ^ n.log2 ≤ n ∧ n < 2 ^ (n.log2 + 1) :=
  ⟨Nat.log2_self_le h, Nat.lt_log2_self⟩

theorem log2_mono {a b : Nat} (ha : a ≠ 0) (h : a ≤ b) : a.log2 ≤ b.log2 := by
  have hb : b ≠ 0 := by omega
  have h1 := (log2_bounds ha).1
  have h2 := (log2_bounds hb).2
  have : 2 ^ a.log2 < 2 ^ (b.log2 + 1) := by omega
  have := (Nat.pow_lt_pow_iff_right (by decide : 1 < 2)).1 this
  omega

/-- the mantissa (with the hidden bit, in [2^52, 2^53]) the conversion gives `n` -/
def mant (n : Nat) : Nat :=
  let e := n.log2
  if e ≤ 52 then n * 2 ^ (52 - e)
  else
    let sh := e - 52
    let q := n / 2 ^ sh
    let rem := n % 2 ^ sh
    let half := 2 ^ (sh - 1)
    if rem > half ∨ (rem = half ∧ q % 2 = 1) then q + 1 else q

theorem mant_range {n : Nat} (h : n ≠ 0) : 2 ^ 52 ≤ mant n ∧ mant n ≤ 2 ^ 53 := by
  obtain ⟨h1, h2⟩ := log2_bounds h
  unfold mant
  simp only
  split
  · next he =>
    have e1 : 2 ^ n.log2 * 2 ^ (52 - n.log2) = 2 ^ 52 := by rw [← Nat.pow_add]; congr 1; omega
    have e2 : 2 ^ (n.log2 + 1) * 2 ^ (52 - n.log2) = 2 ^ 53 := by rw [← Nat.pow_add]; congr 1; omega
    constructor
    · rw [← e1]; exact Nat.mul_le_mul_right _ h1
    · rw [← e2]; exact Nat.le_of_lt (Nat.mul_lt_mul_of_pos_right h2 (Nat.pow_pos (by decide)))
  · next he =>
    have he' : 52 < n.log2 := by omega
    have e1 : 2 ^ 52 * 2 ^ (n.log2 - 52) = 2 ^ n.log2 := by rw [← Nat.pow_add]; congr 1; omega
    have e2 : 2 ^ 53 * 2 ^ (n.log2 - 52) = 2 ^ (n.log2 + 1) := by rw [← Nat.pow_add]; congr 1; omega
    have hp : 0 < 2 ^ (n.log2 - 52) := Nat.pow_pos (by decide)
    have q1 : 2 ^ 52 ≤ n / 2 ^ (n.log2 - 52) := by
      rw [Nat.le_div_iff_mul_le hp, e1]; exact h1
    have q2 : n / 2 ^ (n.log2 - 52) < 2 ^ 53 := by
      rw [Nat.div_lt_iff_lt_mul hp, e2]; exact h2
    split <;> omega

theorem natToF64Mag_eq {n : Nat} (h : n ≠ 0) : natToF64Mag n = (n.log2 + 1022) * 2 ^ 52 + mant n := by
  have hm := mant_range h
  unfold natToF64Mag mant at *
  simp only [h, if_false] at *
  split
  · next he => simp only [he, if_true] at hm ⊢; omega
  · next he => simp only [he, if_false] at hm ⊢; split at hm <;> rename_i hc <;> simp only [hc, if_true, if_false] <;> omega


/-- within one binade the mantissa is monotone (rounding to nearest even never inverts) -/
theorem mant_mono_same {a b : Nat} (he : a.log2 = b.log2) (h : a ≤ b) : mant a ≤ mant b := by
  unfold mant
  simp only [he]
  split
  · exact Nat.mul_le_mul_right _ h
  · next hne =>
    have hp : 0 < 2 ^ (b.log2 - 52) := Nat.pow_pos (by decide)
    generalize 2 ^ (b.log2 - 52) = d at hp
    generalize 2 ^ (b.log2 - 52 - 1) = half
    have hq : a / d ≤ b / d := Nat.div_le_div_right h
    have ha := Nat.div_add_mod a d
    have hb := Nat.div_add_mod b d
    have hra : a % d < d := Nat.mod_lt _ hp
    have hrb : b % d < d := Nat.mod_lt _ hp
    by_cases hqq : a / d = b / d
    · -- same quotient: the remainders are ordered
      have hr : a % d ≤ b % d := by
        rw [hqq] at ha
        have : d * (b / d) + a % d ≤ d * (b / d) + b % d := by omega
        omega
      rw [hqq]
      split <;> split <;> omega
    · have : a / d + 1 ≤ b / d := by omega
      split <;> split <;> omega

theorem natToF64Mag_mono {a b : Nat} (h : a ≤ b) : natToF64Mag a ≤ natToF64Mag b := by
  by_cases ha : a = 0
  · subst ha; simp [natToF64Mag]
  · have hb : b ≠ 0 := by omega
    rw [natToF64Mag_eq ha, natToF64Mag_eq hb]
    have hl := log2_mono ha h
    have ra := mant_range ha
    have rb := mant_range hb
    by_cases he : a.log2 = b.log2
    · have := mant_mono_same he h
      rw [he]; omega
    · have hlt : a.log2 + 1 ≤ b.log2 := by omega
      omega

theorem clampInf_mono {a b : Nat} (h : a ≤ b) : clampInf a ≤ clampInf b := by
  unfold clampInf f64Inf; split <;> split <;> omega

/-- **`float64(int64)` never inverts an order**: for integers `a ≤ b` the float64 keys compare `≤`
    — a float64 symbol over int-stored fields sorts them numerically, rows whose integers round to the
    same float64 tying (and then ordered by id) -/
theorem intToF64Bits_mono {a b : Int} (h : a ≤ b) : fOrd (intToF64Bits a) ≤ fOrd (intToF64Bits b) := by
  have hc : ∀ n : Nat, clampInf (natToF64Mag n) ≤ 9218868437227405312 := by
    intro n; unfold clampInf f64Inf; split <;> omega
  unfold intToF64Bits fOrd
  by_cases ha : a < 0
  · by_cases hb : b < 0
    · have hm := clampInf_mono (natToF64Mag_mono (show b.natAbs ≤ a.natAbs by omega))
      have h1 := hc a.natAbs
      have h2 := hc b.natAbs
      simp only [ha, hb, if_true]
      split <;> split <;> omega
    · have h1 := hc a.natAbs
      have h2 := hc b.natAbs
      simp only [ha, hb, if_true, if_false]
      split <;> split <;> omega
  · have hb : ¬ b < 0 := by omega
    have hm := clampInf_mono (natToF64Mag_mono (show a.natAbs ≤ b.natAbs by omega))
    have h1 := hc a.natAbs
    have h2 := hc b.natAbs
    simp only [ha, hb, if_false]
    split <;> split <;> omega

end StorageModel.Query
