import StorageModel.Query.Bolt
import StorageModel.Query.Spec
/-
  Histories on ONE compiled query object (ast/node_query.go `queryNode`: Predicate, SortBy, Skip, Limit).

  A caller may keep a parsed `ast.Query` and, between executions, change it through the methods of the
  `ast.Query` interface:

    AdoptSortFields(other)   node.SortBy = other.SortBy          (the other query's sort clause, nil included)
    SetSkip(v) / SetLimit(v) node.Skip / node.Limit = &…{value}
    SetPredicate(p)          node.Predicate = p
    GetSortFields()          node.SortBy.getSortFields()         (recomputed from SortBy on every call)

  and every execution mutates it too: `scanner.setPaging` writes the paging defaults back with
  SetSkip / SetLimit (`QueryIdsC`, `QueryWithCursorC`, `IterateIds`; not when `Scan` / `IterateIds`
  return early because the entities bucket does not exist).

  `stepOp` is the model of one such call on the object (mechanism: the object's fields as the code leaves
  them); `specHistory` is the specification: the REQUEST is what the caller's own calls make of the
  query (executions do not change what is asked for), and each execution answers the page of the
  request as it stands at that moment.
-/
namespace StorageModel.Query
open StorageModel

/-- one call on / with the query object -/
inductive QOp where
  | run                               -- store.QueryIdsC(tx, q)
  | cur                               -- store.QueryWithCursorC(tx, entitiesBucket.OpenCursor, q)
  | iter                              -- store.IterateIds(tx, q), drained
  | getSort                           -- q.GetSortFields()
  | adopt (sort : List SortField)     -- q.AdoptSortFields(other), `sort` = other's sort clause
  | setSkip (v : Int)                 -- q.SetSkip(v)
  | setLimit (v : Int)                -- q.SetLimit(v)
  | setPredicate (f : Filter)         -- q.SetPredicate(p)
  deriving Repr, Inhabited

/-- what the caller sees of one call -/
inductive QObs where
  | answer (r : Except SortErr (List Row × Int))
  | rows (l : List Row)
  | sort (l : List SortField)
  | noBucket                          -- `cur` without entities bucket: there is no bucket cursor to pass
  | done

/-- the query object after an execution went through `scanner.setPaging` -/
def wroteBack (pf : PagingFacts) (q : Query) : Query := { q with paging := (setPaging pf q.paging).1 }

/-- **model**: one call; returns the object as the code leaves it and the observation -/
def stepOp (pf : PagingFacts) (st : BoltStore) (q : Query) : QOp → Query × QObs
  | .run => (if st.bucket.isNone then q else wroteBack pf q, .answer (queryIdsC pf st q))
  | .cur =>
    match st.bucket with
    | none => (q, .noBucket)
    | some rows => (wroteBack pf q, .answer (queryWithCursorC pf st q fun fwd => some (bucketCursor rows fwd)))
  | .iter => (if st.bucket.isNone then q else wroteBack pf q, .rows (iterateIds pf st q))
  | .getSort => (q, .sort q.sort)
  | .adopt s => ({ q with sort := s }, .done)
  | .setSkip v => ({ q with paging := { q.paging with skip := some v } }, .done)
  | .setLimit v => ({ q with paging := { q.paging with limit := some v } }, .done)
  | .setPredicate f => ({ q with filter := f }, .done)

def runHistory (pf : PagingFacts) (st : BoltStore) : Query → List QOp → List QObs
  | _, [] => []
  | q, op :: ops => (stepOp pf st q op).2 :: runHistory pf st (stepOp pf st q op).1 ops

/-! ### specification -/

/-- what the caller's own calls make of the request; an execution or a read changes nothing -/
def applyRequest (q : Query) : QOp → Query
  | .adopt s => { q with sort := s }
  | .setSkip v => { q with paging := { q.paging with skip := some v } }
  | .setLimit v => { q with paging := { q.paging with limit := some v } }
  | .setPredicate f => { q with filter := f }
  | _ => q

/-- the order a sort list asks for: none = id ascending (the comparator's trailing `id asc`); with `id`
    first the later fields can never decide (ids are unique) -/
def effSort : List SortField → List SortField
  | [] => []
  | f :: rest => if f.name = "id" then [f] else f :: rest

/-- the entities of the queried store that satisfy the request's filter -/
def requested (st : BoltStore) (rows : List Row) (q : Query) : List Row :=
  rows.filter fun r => !st.childSkip r && sat r q.filter

/-- the answer the property demands for request `q`: the page of the matching rows in the requested
    order and their number; a sort list the store cannot order by is refused with that field's error -/
def specAnswer (st : BoltStore) (rows : List Row) (q : Query) : Except SortErr (List Row × Int) :=
  match newRowComparator st.schema (effSort q.sort) with
  | .error e => .error e
  | .ok c => .ok (page c q.paging.skip q.paging.limit (requested st rows q), total (requested st rows q))

/-- cursor-style iteration: the page in id order -/
def specIter (st : BoltStore) (rows : List Row) (q : Query) : List Row :=
  match newRowComparator st.schema [] with
  | .error _ => []
  | .ok c => page c q.paging.skip q.paging.limit (requested st rows q)

def specObs (st : BoltStore) (q : Query) : QOp → QObs
  | .run => match st.bucket with
    | none => .answer (.ok ([], 0))
    | some rows => .answer (specAnswer st rows q)
  | .cur => match st.bucket with
    | none => .noBucket
    | some rows => .answer (specAnswer st rows q)
  | .iter => match st.bucket with
    | none => .rows []
    | some rows => .rows (specIter st rows q)
  | .getSort => .sort q.sort
  | _ => .done

def specHistory (st : BoltStore) : Query → List QOp → List QObs
  | _, [] => []
  | q, op :: ops => specObs st q op :: specHistory st (applyRequest q op) ops

/-- the values handed to SetSkip / SetLimit are int64 values -/
def QOp.InRange : QOp → Prop
  | .setSkip v => InI64 v
  | .setLimit v => InI64 v
  | _ => True

end StorageModel.Query
