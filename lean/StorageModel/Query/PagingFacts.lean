/-
  What the `paging` extractor (/verif/extract/paging.go) reads out of `scanner.setPaging` and the
  sorting scanners' `maxResults` computation, for boltz and for objectz.  The model's paging
  arithmetic is parameterised by these facts, and `Generated/PagingFacts.lean` (rewritten from
  /repo on every run) instantiates them, so the theorems are about the arithmetic that is in the
  source *now*.
-/
namespace StorageModel.Query

structure PagingFacts where
  /-- every statement of `setPaging`, the `maxResults` computation and the eviction test had one
      of the shapes the model has a reading for -/
  recognised : Bool
  /-- `if s.targetOffset < 0 { s.targetOffset = 0 }` is present -/
  clampNegativeSkip : Bool
  /-- `if maxResults < 0 { maxResults = math.MaxInt64 }` follows `targetOffset + targetLimit` -/
  overflowGuard : Bool
  /-- the eviction test is `count > maxResults` (true) or `count >= maxResults` (false) -/
  evictStrict : Bool
  deriving Repr, DecidableEq, Inhabited

/-- what the extractor reads out of `float64SymbolComparator.Compare` (boltz/query_sort.go) and
    `objectFloat64SymbolComparator.compare` (objectz/object_store_sort.go): the if / else-if chain on
    the two keys -/
structure FloatCmpFacts where
  /-- the chain is `s1 == nil`, `s2 == nil`, [the NaN branch], `*s1 < *s2`, `*s1 > *s2` with the expected bodies -/
  recognised : Bool
  /-- the branch `*s1 != *s1 || *s2 != *s2` (NaN before every number, NaNs tie) is present -/
  nanFirst : Bool
  deriving Repr, DecidableEq, Inhabited

/-- the comparator shape the theorems are proved for (`cmpFloatVal = cmpFloatValWith true`) -/
def expectedFloatCmp : FloatCmpFacts := ⟨true, true⟩

/-- the arithmetic the C02/C19 theorems are proved for -/
def expectedPaging : PagingFacts := ⟨true, true, true, true⟩

/-- the arithmetic of the pinned tree (before e51f293): no clamp, no overflow guard -/
def pinnedPaging : PagingFacts := ⟨true, false, false, true⟩

end StorageModel.Query
