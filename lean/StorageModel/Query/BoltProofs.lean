import StorageModel.Query.PagingProofs
import StorageModel.Query.Objectz
/-
  Lemmas connecting the store-level entry points (Query/Bolt.lean, Query/Objectz.lean) with the
  scanner refinement lemmas (Query/PagingProofs.lean).
-/
namespace StorageModel.Query
open StorageModel

/-- bbolt keeps the entities bucket in ascending key order -/
def BucketOrdered (rows : List Row) : Prop := rows.Pairwise (fun a b => cmpBytes a.id b.id = .lt)

theorem BucketOrdered.distinct {rows : List Row} (h : BucketOrdered rows) : DistinctIds rows := by
  refine List.Pairwise.imp ?_ h
  intro a b hab heq
  rw [heq, cmpBytes_refl] at hab
  cases hab

theorem symCmp_id (fwd : Bool) (a b : Row) : symCmp .string "id" fwd a b = dir fwd (cmpBytes a.id b.id) := by
  simp [symCmp, evalSym, fieldToString, nullsFirst, cmpStrVal]

theorem chain_head_lt {ρ : Type} {c : Cmp ρ} {cs : List (Cmp ρ)} {a b : ρ} (h : c a b = .lt) :
    chain (c :: cs) a b = .lt := by simp [chain, h]

/-- when `NewScanner` picks the index scanner, the row comparator of the same sort fields orders two
    rows with different ids by id alone, in the scanner's direction -/
theorem index_strategy_cmp {schema : Schema} {sort : List SortField} {c : Cmp Row} {fwd : Bool}
    (hid : HasIdSymbol schema) (hs : newScanner sort = .index fwd) (hc : newRowComparator schema sort = .ok c)
    {a b : Row} (hab : cmpBytes a.id b.id = .lt) : if fwd then c a b = .lt else c b a = .lt := by
  unfold HasIdSymbol at hid
  cases sort with
  | nil =>
    simp only [newScanner, sortMax, List.length_nil, Nat.not_lt_zero, if_false, Strategy.index.injEq] at hs
    subst hs
    simp only [newRowComparator, List.nil_append, resolveSort, hid] at hc
    simp only [if_true]
    simp at hc
    subst hc
    exact chain_head_lt (by rw [symCmp_id]; simpa [dir] using hab)
  | cons f rest =>
    have hhead : (if (f :: rest).length > sortMax then (f :: rest).take sortMax else f :: rest) =
        f :: (if (f :: rest).length > sortMax then rest.take (sortMax - 1) else rest) := by
      split <;> simp [sortMax]
    simp only [newScanner, hhead] at hs
    by_cases hn : f.name = "id"
    · simp only [hn, if_true] at hs
      have hfwd : fwd = f.asc := by
        cases hasc : f.asc <;> simp [hasc] at hs <;> exact hs
      simp only [newRowComparator, List.cons_append, resolveSort, hn, hid] at hc
      cases hrs : resolveSort schema (rest ++ [{ name := "id", asc := true }]) with
      | error e => simp [hrs] at hc
      | ok cs =>
        simp [hrs] at hc
        subst hc
        rw [hfwd]
        cases hasc : f.asc
        · simp only [Bool.false_eq_true, if_false]
          refine chain_head_lt ?_
          rw [symCmp_id, cmpBytes_swap, hab]; rfl
        · simp only [if_true]
          refine chain_head_lt ?_
          rw [symCmp_id, hab]; rfl
    · simp [hn] at hs

/-- the declared type of a symbol (`other` when the store does not know it) -/
def tyOf (schema : Schema) (name : String) : SymType := ((schema.lookup name).map (·.ty)).getD .other

theorem resolveSort_closed {schema : Schema} {fs : List SortField} {cs : List (Cmp Row)}
    (h : resolveSort schema fs = .ok cs) : cs = fs.map fun f => symCmp (tyOf schema f.name) f.name f.asc := by
  induction fs generalizing cs with
  | nil => simp [resolveSort] at h; subst h; rfl
  | cons f rest ih =>
    simp only [resolveSort] at h
    split at h
    · cases h
    · next info hinfo =>
      split at h
      · cases h
      · split at h
        · cases h
        · split at h
          · cases h
          · next cs' hcs =>
            simp only [Except.ok.injEq] at h
            subst h
            simp [ih hcs, tyOf, hinfo]

/-- closed form of `newRowComparator`: one symbol comparator per requested sort field, in order,
    then `id` ascending; the first one that does not tie decides -/
theorem newRowComparator_closed {schema : Schema} {sort : List SortField} {c : Cmp Row} (hid : HasIdSymbol schema)
    (h : newRowComparator schema sort = .ok c) :
    c = chain ((sort.map fun f => symCmp (tyOf schema f.name) f.name f.asc) ++ [symCmp .string "id" true]) := by
  unfold newRowComparator at h
  split at h
  · cases h
  · next cs hcs =>
    simp only [Except.ok.injEq] at h
    subst h
    rw [resolveSort_closed hcs]
    unfold HasIdSymbol at hid
    simp [tyOf, hid]

theorem chain_lt_iff {ρ : Type} (cs : List (Cmp ρ)) (a b : ρ) (o : Ordering) (ho : o ≠ .eq) :
    chain cs a b = o ↔ ∃ pre c post, cs = pre ++ c :: post ∧ (∀ d ∈ pre, d a b = .eq) ∧ c a b = o := by
  induction cs with
  | nil => simp [chain]; exact fun h => ho h.symm
  | cons c rest ih =>
    simp only [chain]
    cases hc : c a b with
    | eq =>
      simp only
      rw [ih]
      constructor
      · rintro ⟨pre, d, post, h1, h2, h3⟩
        refine ⟨c :: pre, d, post, by simp [h1], ?_, h3⟩
        intro e he
        rcases List.mem_cons.1 he with rfl | he
        · exact hc
        · exact h2 e he
      · rintro ⟨pre, d, post, h1, h2, h3⟩
        cases pre with
        | nil =>
          simp only [List.nil_append, List.cons.injEq] at h1
          rw [← h1.1, hc] at h3
          exact absurd h3.symm ho
        | cons e pre =>
          simp only [List.cons_append, List.cons.injEq] at h1
          exact ⟨pre, d, post, h1.2, fun x hx => h2 x (List.mem_cons_of_mem _ hx), h3⟩
    | lt =>
      simp only
      constructor
      · intro h; exact ⟨[], c, rest, rfl, by simp, by rw [hc]; exact h⟩
      · rintro ⟨pre, d, post, h1, h2, h3⟩
        cases pre with
        | nil => simp only [List.nil_append, List.cons.injEq] at h1; rw [← h1.1, hc] at h3; exact h3
        | cons e pre =>
          simp only [List.cons_append, List.cons.injEq] at h1
          have := h2 e (List.mem_cons_self ..)
          rw [← h1.1, hc] at this; cases this
    | gt =>
      simp only
      constructor
      · intro h; exact ⟨[], c, rest, rfl, by simp, by rw [hc]; exact h⟩
      · rintro ⟨pre, d, post, h1, h2, h3⟩
        cases pre with
        | nil => simp only [List.nil_append, List.cons.injEq] at h1; rw [← h1.1, hc] at h3; exact h3
        | cons e pre =>
          simp only [List.cons_append, List.cons.injEq] at h1
          have := h2 e (List.mem_cons_self ..)
          rw [← h1.1, hc] at this; cases this

theorem chain_all_eq {ρ : Type} (cs : List (Cmp ρ)) (c : Cmp ρ) (a b : ρ) (h : ∀ d ∈ cs, d a b = .eq) :
    chain (cs ++ [c]) a b = c a b := by
  induction cs with
  | nil => simp only [List.nil_append, chain]; cases c a b <;> rfl
  | cons d rest ih =>
    simp only [List.cons_append, chain, h d (List.mem_cons_self ..)]
    exact ih fun e he => h e (List.mem_cons_of_mem _ he)

/-- the count of the sorting scan never depends on the comparator (nor on NaN keys) -/
theorem sortLoop_count {ρ : Type} (pf : PagingFacts) (c : Cmp ρ) (env : ScanEnv ρ) (mr : Int) :
    ∀ (cur : List ρ) (st : SortSt ρ), 0 ≤ st.count → st.count + ((matching env cur).length : Int) ≤ maxI64 →
      (sortLoop pf c env mr st cur).count = st.count + (matching env cur).length := by
  simp only [maxI64]
  intro cur
  induction cur with
  | nil => intro st _ _; simp [sortLoop, matching]
  | cons x rest ih =>
    intro st h0 hl
    by_cases hx : env.admits x
    · have hm : matching env (x :: rest) = x :: matching env rest := by simp [matching, hx]
      rw [hm] at hl ⊢
      simp only [List.length_cons, Int.natCast_add, Int.natCast_one] at hl ⊢
      simp only [sortLoop, hx, if_true]
      have hadd : add64 st.count 1 = st.count + 1 := add64_succ h0 (by omega)
      have hc : (sortBody pf c mr st x).count = st.count + 1 := by
        simp only [sortBody, hadd]; split <;> (split <;> rfl)
      rw [ih _ (by rw [hc]; omega) (by rw [hc]; omega), hc]; omega
    · have hm : matching env (x :: rest) = matching env rest := by simp [matching, hx]
      rw [hm] at hl ⊢
      simp only [sortLoop, hx]
      exact ih st h0 hl

theorem matching_reverse {ρ : Type} (env : ScanEnv ρ) (l : List ρ) :
    matching env l.reverse = (matching env l).reverse := by
  simp [matching, List.filter_reverse]

/-- the rows an index scan walks, in walking order, are sorted under the row comparator -/
theorem index_cursor_sorted {schema : Schema} {sort : List SortField} {c : Cmp Row} {fwd : Bool}
    (hid : HasIdSymbol schema) (hs : newScanner sort = .index fwd) (hc : newRowComparator schema sort = .ok c)
    {rows : List Row} (hord : BucketOrdered rows) (env : ScanEnv Row) :
    Sorted c (matching env (bucketCursor rows fwd)) := by
  have hm : BucketOrdered (matching env rows) := List.Pairwise.sublist List.filter_sublist hord
  cases fwd with
  | true =>
    simp only [bucketCursor, if_true]
    refine List.Pairwise.imp ?_ hm
    intro a b hab
    simpa using index_strategy_cmp hid hs hc hab
  | false =>
    simp only [bucketCursor, Bool.false_eq_true, if_false, matching_reverse]
    unfold Sorted
    rw [List.pairwise_reverse]
    refine List.Pairwise.imp ?_ hm
    intro a b hab
    simpa using index_strategy_cmp hid hs hc hab

theorem bucketCursor_perm (rows : List Row) (fwd : Bool) : (bucketCursor rows fwd).Perm rows := by
  cases fwd <;> simp [bucketCursor, List.reverse_perm]

theorem matching_perm {ρ : Type} (env : ScanEnv ρ) {l l' : List ρ} (h : l.Perm l') :
    (matching env l).Perm (matching env l') := h.filter _

/-- on a well-typed object the typed pointer an objectz symbol returns is nil exactly when the bolt
    field is TypeNil, and the typed reads agree -/
def WellTypedAt (symbols : List (String × SymType)) (r : Row) (name : String) : Prop :=
  match symbols.lookup name, evalSym name r with
  | some .bool, .bool _ | some .bool, .nil => True
  | some .string, .string _ | some .string, .nil => True
  | some .int64, .int64 _ | some .int64, .int32 _ | some .int64, .nil => True
  | some .float64, .float64 _ _ | some .float64, .nil => True
  | some .datetime, .time _ | some .datetime, .nil => True
  | _, _ => False

/-- every atom of the filter compares a symbol with a constant of the symbol's declared type (or
    tests a symbol of a scalar type for null) -/
def FilterTyped (symbols : List (String × SymType)) : Filter → Prop
  | .tt => True
  | .cmpBool n _ _ => symbols.lookup n = some .bool
  | .cmpInt n _ _ => symbols.lookup n = some .int64
  | .cmpFloat n _ _ => symbols.lookup n = some .float64
  | .cmpStr n _ _ => symbols.lookup n = some .string
  | .cmpTime n _ _ => symbols.lookup n = some .datetime
  | .isNull n | .notNull n => ∃ t, symbols.lookup n = some t ∧ t ≠ .other
  | .and a b | .or a b => FilterTyped symbols a ∧ FilterTyped symbols b
  | .not a => FilterTyped symbols a

/-- **objectz evaluates the filter fragment like the bolt row cursor** (typed nil pointers inside
    the interface included) -/
theorem obj_eval_eq_bolt (st : ObjStore) (r : Row) (f : Filter) (hf : FilterTyped st.symbols f)
    (hw : ∀ n ∈ f.symbols, WellTypedAt st.symbols r n) :
    evalFilter (objSymbols st r) f = evalFilter (boltSymbols r) f := by
  induction f with
  | and a b iha ihb =>
    simp only [evalFilter]
    rw [iha hf.1 (fun n hn => hw n (List.mem_append_left _ hn)), ihb hf.2 (fun n hn => hw n (List.mem_append_right _ hn))]
  | or a b iha ihb =>
    simp only [evalFilter]
    rw [iha hf.1 (fun n hn => hw n (List.mem_append_left _ hn)), ihb hf.2 (fun n hn => hw n (List.mem_append_right _ hn))]
  | not a iha =>
    simp only [evalFilter]
    rw [iha hf hw]
  | tt => rfl
  | cmpBool n op v =>
    simp only [FilterTyped] at hf
    simp [evalFilter, objSymbols, boltSymbols, objEval, hf]
  | cmpInt n op v =>
    simp only [FilterTyped] at hf
    simp [evalFilter, objSymbols, boltSymbols, objEval, hf]
  | cmpFloat n op v =>
    simp only [FilterTyped] at hf
    simp [evalFilter, objSymbols, boltSymbols, objEval, hf]
  | cmpStr n op v =>
    simp only [FilterTyped] at hf
    simp [evalFilter, objSymbols, boltSymbols, objEval, hf]
  | cmpTime n op v =>
    simp only [FilterTyped] at hf
    simp [evalFilter, objSymbols, boltSymbols, objEval, hf]
  | isNull n =>
    obtain ⟨t, ht, hne⟩ := hf
    have hw := hw n (by simp [Filter.symbols])
    simp only [WellTypedAt, ht] at hw
    simp only [evalFilter, objSymbols, boltSymbols, objEval, ht]
    cases t <;> cases hv : evalSym n r <;> simp_all [ifaceIsNil, fieldToBool, fieldToString, fieldToInt64,
      fieldToFloat64, fieldToDatetime]
  | notNull n =>
    obtain ⟨t, ht, hne⟩ := hf
    have hw := hw n (by simp [Filter.symbols])
    simp only [WellTypedAt, ht] at hw
    simp only [evalFilter, objSymbols, boltSymbols, objEval, ht]
    cases t <;> cases hv : evalSym n r <;> simp_all [ifaceIsNil, fieldToBool, fieldToString, fieldToInt64,
      fieldToFloat64, fieldToDatetime]

/-! ### any filter that reads symbols through their declared type -/

/-- what an `ast` node learns about a symbol from an `ast.Symbols` when it calls the accessor of the
    symbol's declared type — as `BoolSymbolNode`, `StringSymbolNode`, `Int64SymbolNode` (also for its
    `EvalString`), `Float64SymbolNode`, `DatetimeSymbolNode` all do — and `IsNil` -/
inductive TypedVal where
  | bool (v : Option Bool) | str (v : Option Bytes) | int (v : Option Int) | float (v : Option Nat) | time (v : Option Int)
  | none
  deriving DecidableEq

def typedView (decl : List (String × SymType)) (s : Symbols) (n : String) : TypedVal × Bool :=
  (match decl.lookup n with
   | some .bool => .bool (s.evalBool n)
   | some .string => .str (s.evalString n)
   | some .int64 => .int (s.evalInt64 n)
   | some .float64 => .float (s.evalFloat64 n)
   | some .datetime => .time (s.evalDatetime n)
   | _ => .none,
   s.isNil n)

/-- the evaluation of a filter is a function of the typed views of the symbols in `N` — true of every
    filter built from typed symbol nodes over those symbols (set functions, which open set cursors,
    are not of this kind) -/
def TypedLocal (decl : List (String × SymType)) (N : List String) (ev : Symbols → Bool) : Prop :=
  ∀ s1 s2, (∀ n ∈ N, typedView decl s1 n = typedView decl s2 n) → ev s1 = ev s2

/-- on a well-typed object the object cursor and the bolt row cursor present the same typed view -/
theorem typedView_obj_eq_bolt (st : ObjStore) (r : Row) (n : String) (hw : WellTypedAt st.symbols r n) :
    typedView st.symbols (objSymbols st r) n = typedView st.symbols (boltSymbols r) n := by
  unfold WellTypedAt at hw
  unfold typedView
  cases ht : st.symbols.lookup n with
  | none => simp [ht] at hw
  | some t =>
    simp only [ht] at hw
    cases t <;> cases hv : evalSym n r <;> simp_all [objSymbols, boltSymbols, objEval, ifaceIsNil, fieldToBool,
      fieldToString, fieldToInt64, fieldToFloat64, fieldToDatetime]

/-- the filters of the fragment are typed-local in their symbols -/
theorem evalFilter_typedLocal (decl : List (String × SymType)) (f : Filter) (hf : FilterTyped decl f) :
    TypedLocal decl f.symbols (fun s => evalFilter s f) := by
  induction f with
  | and a b iha ihb =>
    intro s1 s2 h
    have e1 : evalFilter s1 a = evalFilter s2 a := iha hf.1 s1 s2 (fun n hn => h n (List.mem_append_left _ hn))
    have e2 : evalFilter s1 b = evalFilter s2 b := ihb hf.2 s1 s2 (fun n hn => h n (List.mem_append_right _ hn))
    simp only [evalFilter, e1, e2]
  | or a b iha ihb =>
    intro s1 s2 h
    have e1 : evalFilter s1 a = evalFilter s2 a := iha hf.1 s1 s2 (fun n hn => h n (List.mem_append_left _ hn))
    have e2 : evalFilter s1 b = evalFilter s2 b := ihb hf.2 s1 s2 (fun n hn => h n (List.mem_append_right _ hn))
    simp only [evalFilter, e1, e2]
  | not a iha =>
    intro s1 s2 h
    have e1 : evalFilter s1 a = evalFilter s2 a := iha hf s1 s2 h
    simp only [evalFilter, e1]
  | tt => intro _ _ _; rfl
  | cmpBool n op v =>
    intro s1 s2 h
    have := h n (by simp [Filter.symbols])
    simp only [FilterTyped] at hf
    simp only [typedView, hf, Prod.mk.injEq, TypedVal.bool.injEq] at this
    simp only [evalFilter, this.1]
  | cmpInt n op v =>
    intro s1 s2 h
    have := h n (by simp [Filter.symbols])
    simp only [FilterTyped] at hf
    simp only [typedView, hf, Prod.mk.injEq, TypedVal.int.injEq] at this
    simp only [evalFilter, this.1]
  | cmpFloat n op v =>
    intro s1 s2 h
    have := h n (by simp [Filter.symbols])
    simp only [FilterTyped] at hf
    simp only [typedView, hf, Prod.mk.injEq, TypedVal.float.injEq] at this
    simp only [evalFilter, this.1]
  | cmpStr n op v =>
    intro s1 s2 h
    have := h n (by simp [Filter.symbols])
    simp only [FilterTyped] at hf
    simp only [typedView, hf, Prod.mk.injEq, TypedVal.str.injEq] at this
    simp only [evalFilter, this.1]
  | cmpTime n op v =>
    intro s1 s2 h
    have := h n (by simp [Filter.symbols])
    simp only [FilterTyped] at hf
    simp only [typedView, hf, Prod.mk.injEq, TypedVal.time.injEq] at this
    simp only [evalFilter, this.1]
  | isNull n =>
    intro s1 s2 h
    have := h n (by simp [Filter.symbols])
    simp only [typedView, Prod.mk.injEq] at this
    simp only [evalFilter, this.2]
  | notNull n =>
    intro s1 s2 h
    have := h n (by simp [Filter.symbols])
    simp only [typedView, Prod.mk.injEq] at this
    simp only [evalFilter, this.2]

end StorageModel.Query
