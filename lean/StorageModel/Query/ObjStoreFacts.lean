/-
  What the `objstore` extractor (/verif/extract/objstore.go) reads out of package objectz about the state an
  `ObjectStore` object (and the package) keeps BETWEEN calls:

    fields            the fields of `struct ObjectStore`
    pkgVars           the package-level variables of objectz
    writes            every place outside `NewObjectStore` / `Add…Symbol` (the set-up of a store) where a function of the
                      package assigns to a store field or a package variable, or calls a method on one
                      (`self.cache.Store(..)`, `self.symbols[k] = ..`, `self.hits++`, `clear(self.symbols)`)
    entryRecognised   `QueryEntities` is "parse the text; on error return it; return QueryEntitiesC(query)" and
                      `QueryEntitiesC` is "a fresh memSortingScanner; return s.Scan(self, query)"

  The history model of Query/ObjectzHistory.lean threads NO state of the store object from one call to the next;
  `Generated/ObjectzStore.lean` (rewritten from /repo on every run) must say that the source has none.
-/
namespace StorageModel.Query

structure ObjStoreFacts where
  fields : List String
  pkgVars : List String
  writes : List String
  entryRecognised : Bool
  deriving Repr, DecidableEq, Inhabited

/-- the store object the history theorems are proved for: a symbol table and an iterator function, both fixed once the
    store is set up; nothing else, nothing written by a query -/
def expectedObjStore : ObjStoreFacts := ⟨["symbols", "iteratorF"], [], [], true⟩

end StorageModel.Query
