import StorageModel.Query.Sorted
/-
  Specification of C02 / C19: what a query answers.

    page c skip limit xs = sort the matching rows, drop max(skip,0), keep at most limit
                           (absent / negative / `none` limit = unbounded)
    total xs             = number of matching rows, whatever skip and limit are
-/
namespace StorageModel.Query

variable {ρ : Type}

/-- rows to drop: an absent skip is 0, a negative skip is 0 -/
def skipRows (skip : Option Int) : Nat := (max (skip.getD 0) 0).toNat

/-- rows to keep: `none` = unbounded (absent, negative, or `limit none` which the parser turns into -1) -/
def limitRows (limit : Option Int) : Option Nat :=
  match limit with
  | none => none
  | some n => if n < 0 then none else some n.toNat

def page (c : Cmp ρ) (skip limit : Option Int) (xs : List ρ) : List ρ :=
  let s := (sort c xs).drop (skipRows skip)
  match limitRows limit with
  | none => s
  | some n => s.take n

def total (xs : List ρ) : Int := xs.length

end StorageModel.Query
