import StorageModel.Base.Bytes
import StorageModel.Query.Order
/-
  Stored field values, the `FieldTo*` coercions the comparators read them through
  (boltz/typed_bucket.go), the five symbol comparators of boltz/query_sort.go (identical, line by
  line, to objectz/object_store_sort.go) and `newRowComparator` (boltz/store_query.go,
  objectz/object_store.go).
-/
namespace StorageModel.Query
open StorageModel

/-! ### byte strings: Go's `<` / `>` on strings is bytewise lexicographic -/

def cmpBytes : Bytes → Bytes → Ordering
  | [], [] => .eq
  | [], _ :: _ => .lt
  | _ :: _, [] => .gt
  | a :: s, b :: t => if a < b then .lt else if b < a then .gt else cmpBytes s t

theorem cmpBytes_swap (a b : Bytes) : cmpBytes b a = (cmpBytes a b).swap := by
  induction a generalizing b with
  | nil => cases b <;> rfl
  | cons x s ih =>
    cases b with
    | nil => rfl
    | cons y t =>
      simp only [cmpBytes]
      by_cases h1 : x < y
      · have : ¬ y < x := by simp only [UInt8.lt_iff_toNat_lt] at *; omega
        simp [h1, this, Ordering.swap]
      · by_cases h2 : y < x
        · simp [h1, h2, Ordering.swap]
        · simp [h1, h2, ih]

theorem cmpBytes_eq {a b : Bytes} (h : cmpBytes a b = .eq) : a = b := by
  induction a generalizing b with
  | nil => cases b <;> simp_all [cmpBytes]
  | cons x s ih =>
    cases b with
    | nil => simp [cmpBytes] at h
    | cons y t =>
      simp only [cmpBytes] at h
      by_cases h1 : x < y
      · simp [h1] at h
      · by_cases h2 : y < x
        · simp [h1, h2] at h
        · simp only [h1, h2, if_false] at h
          have : x = y := by
            apply UInt8.toNat_inj.1
            simp only [UInt8.lt_iff_toNat_lt] at h1 h2; omega
          rw [this, ih h]

theorem cmpBytes_refl (a : Bytes) : cmpBytes a a = .eq := by
  induction a with
  | nil => rfl
  | cons x s ih => simp [cmpBytes, ih, UInt8.lt_irrefl]

theorem cmpBytes_trans {a b d : Bytes} (h1 : cmpBytes a b = .lt) (h2 : cmpBytes b d = .lt) : cmpBytes a d = .lt := by
  induction a generalizing b d with
  | nil => cases b <;> cases d <;> simp_all [cmpBytes]
  | cons x s ih =>
    cases b with
    | nil => simp [cmpBytes] at h1
    | cons y t =>
      cases d with
      | nil => simp [cmpBytes] at h2
      | cons z u =>
        simp only [cmpBytes] at h1 h2 ⊢
        simp only [UInt8.lt_iff_toNat_lt] at *
        by_cases e1 : x.toNat < y.toNat
        · by_cases e2 : y.toNat < z.toNat
          · have : x.toNat < z.toNat := by omega
            simp [this]
          · by_cases e3 : z.toNat < y.toNat
            · simp [e2, e3] at h2
            · have : x.toNat < z.toNat := by omega
              simp [this]
        · by_cases e1' : y.toNat < x.toNat
          · simp [e1, e1'] at h1
          · simp only [e1, e1', if_false] at h1
            by_cases e2 : y.toNat < z.toNat
            · have : x.toNat < z.toNat := by omega
              simp [this]
            · by_cases e3 : z.toNat < y.toNat
              · simp [e2, e3] at h2
              · simp only [e2, e3, if_false] at h2
                have a1 : ¬ x.toNat < z.toNat := by omega
                have a2 : ¬ z.toNat < x.toNat := by omega
                simp only [a1, a2, if_false]
                exact ih h1 h2

/-- a comparator with swap, transitivity and "tie = same value" is a strict total order -/
theorem StrictTotalOn.of {κ : Type} {c : κ → κ → Ordering}
    (swap : ∀ a b, c b a = (c a b).swap) (trans : ∀ a b d, c a b = .lt → c b d = .lt → c a d = .lt)
    (eq_imp : ∀ a b, c a b = .eq → a = b) : StrictTotalOn (fun _ => True) c :=
  ⟨⟨fun a b _ _ => swap a b, fun a b d _ _ _ => trans a b d,
    fun a b d _ _ _ h => by rw [eq_imp a b h]⟩, fun a b _ _ => eq_imp a b⟩

theorem cmpBytes_strict : StrictTotalOn (fun _ => True) cmpBytes :=
  StrictTotalOn.of cmpBytes_swap (fun _ _ _ => cmpBytes_trans) (fun _ _ => cmpBytes_eq)

/-! ### stored values and the coercions -/

/-- a field as it sits in the entity bucket: type byte + payload (boltz `FieldType`) -/
inductive Stored where
  | nil
  | bool (b : Bool)
  | int32 (v : Int)
  | int64 (v : Int)
  /-- IEEE 754 binary64 bit pattern, and the text `strconv.FormatFloat(x, 'f', -1, 64)` prints for it
      (shortest round-trip decimal: data that travels with the value — the harness supplies it; it is
      read only by `FieldToString`, and every theorem holds whatever it is) -/
  | float64 (bits : Nat) (text : Bytes)
  | string (s : Bytes)
  | time (ns : Int)           -- instant, nanoseconds since the Unix epoch
  deriving Repr, DecidableEq, Inhabited

/-- `ast.NodeType` of a symbol, restricted to the sortable ones plus "other" (set / any / unknown) -/
inductive SymType where
  | bool | datetime | float64 | int64 | string | other
  deriving Repr, DecidableEq, Inhabited

def fieldToBool : Stored → Option Bool
  | .bool b => some b
  | _ => none

def fieldToInt64 : Stored → Option Int
  | .int32 v => some v
  | .int64 v => some v
  | _ => none

/-! #### Go's `float64(int64)`: round to nearest, ties to even -/

def f64Inf : Nat := 0x7FF0000000000000

/-- magnitude bits (sign bit clear) of the float64 nearest to the natural number `n` -/
def natToF64Mag (n : Nat) : Nat :=
  if n = 0 then 0 else
  let e := n.log2
  if e ≤ 52 then (e + 1023) * 2 ^ 52 + (n * 2 ^ (52 - e) - 2 ^ 52)
  else
    let sh := e - 52
    let q := n / 2 ^ sh
    let rem := n % 2 ^ sh
    let half := 2 ^ (sh - 1)
    let q' := if rem > half ∨ (rem = half ∧ q % 2 = 1) then q + 1 else q
    -- a mantissa that rounds up to 2^53 carries into the exponent by itself
    (e + 1023) * 2 ^ 52 + (q' - 2 ^ 52)

/-- `float64(v)` as a bit pattern (a magnitude beyond the float64 range would be +-Inf; an int64 never is) -/
def clampInf (m : Nat) : Nat := if m ≤ f64Inf then m else f64Inf

def intToF64Bits (v : Int) : Nat :=
  if v < 0 then 9223372036854775808 + clampInf (natToF64Mag v.natAbs) else clampInf (natToF64Mag v.natAbs)

/-- `FieldToFloat64`: a float64 field as it is, an int32 / int64 field converted with `float64(int64)`,
    anything else nil -/
def fieldToFloat64 : Stored → Option Nat
  | .float64 b _ => some b
  | .int32 v => some (intToF64Bits v)
  | .int64 v => some (intToF64Bits v)
  | _ => none

def fieldToDatetime : Stored → Option Int
  | .time ns => some ns
  | _ => none

def boolText (b : Bool) : Bytes := if b then Bytes.ofString "true" else Bytes.ofString "false"

def natDigits (fuel n : Nat) (acc : Bytes) : Bytes :=
  match fuel with
  | 0 => acc
  | fuel + 1 => if n < 10 then (UInt8.ofNat (48 + n)) :: acc else natDigits fuel (n / 10) (UInt8.ofNat (48 + n % 10) :: acc)

/-- `strconv.Itoa` -/
def intText (v : Int) : Bytes :=
  if v < 0 then 45 :: natDigits 25 v.natAbs [] else natDigits 25 v.natAbs []

/-! #### `time.Time.MarshalText` of a UTC instant (RFC 3339 with nanoseconds, trailing zeros trimmed) -/

def pad (w : Nat) (n : Nat) : Bytes :=
  let d := natDigits 25 n []
  List.replicate (w - d.length) 48 ++ d

/-- proleptic Gregorian (year, month, day) of a day number counted from 1970-01-01 -/
def civilFromDays (days : Int) : Int × Nat × Nat :=
  let z := days + 719468
  let era := z / 146097
  let doe := (z - era * 146097).toNat
  let yoe := (doe - doe / 1460 + doe / 36524 - doe / 146096) / 365
  let doy := doe - (365 * yoe + yoe / 4 - yoe / 100)
  let mp := (5 * doy + 2) / 153
  let d := doy - (153 * mp + 2) / 5 + 1
  let m := if mp < 10 then mp + 3 else mp - 9
  let y : Int := (yoe : Int) + era * 400
  (if m ≤ 2 then y + 1 else y, m, d)

def trimZeros (b : Bytes) : Bytes := (b.reverse.dropWhile (· == 48)).reverse

/-- `MarshalText`: `none` when the year is outside [0, 9999] (the Go function returns an error and
    `FieldToString` then yields nil) -/
def timeText (ns : Int) : Option Bytes :=
  let secs := ns / 1000000000
  let frac := (ns % 1000000000).toNat
  let days := secs / 86400
  let sod := (secs % 86400).toNat
  let (y, m, d) := civilFromDays days
  if y < 0 ∨ y > 9999 then none else
  let fracPart : Bytes := if frac = 0 then [] else 46 :: trimZeros (pad 9 frac)
  some (pad 4 y.toNat ++ [45] ++ pad 2 m ++ [45] ++ pad 2 d ++ [84] ++ pad 2 (sod / 3600) ++ [58] ++
    pad 2 (sod % 3600 / 60) ++ [58] ++ pad 2 (sod % 60) ++ fracPart ++ [90])

/-- `FieldToString`: strings as they are; bool, ints, floats and instants formatted
    (`strconv.FormatBool`, `strconv.Itoa`, `strconv.FormatFloat(x,'f',-1,64)`, `MarshalText`) -/
def fieldToString : Stored → Option Bytes
  | .string s => some s
  | .bool b => some (boolText b)
  | .int32 v => some (intText v)
  | .int64 v => some (intText v)
  | .float64 _ text => some text
  | .time ns => timeText ns
  | .nil => none

/-! ### float64 `<` through the bit pattern -/

def fIsNaN (bits : Nat) : Bool := bits % 9223372036854775808 > 9218868437227405312

/-- monotone image of a non-NaN float64 in the integers (−0 and +0 both map to 0) -/
def fOrd (bits : Nat) : Int :=
  if bits ≥ 9223372036854775808 then - ((bits % 9223372036854775808 : Nat) : Int) else ((bits % 9223372036854775808 : Nat) : Int)

/-- Go's `a < b` on float64: false as soon as one side is NaN -/
def fLt (a b : Nat) : Bool := !fIsNaN a && !fIsNaN b && decide (fOrd a < fOrd b)

/-! ### the five symbol comparators (before the direction flip) -/

def cmpBoolVal (a b : Bool) : Ordering := if !a && b then .lt else if a && !b then .gt else .eq
def cmpStrVal (a b : Bytes) : Ordering := cmpBytes a b
/-- `float64SymbolComparator.Compare` on two non-nil keys.  `nanFirst` = the branch
    `else if *s1 != *s1 || *s2 != *s2 { if *s1 == *s1 { 1 } else if *s2 == *s2 { -1 } }` is present (since
    1532996): NaN before every number, NaNs tie.  Without it (`nanFirst = false`, the comparator before
    1532996) NaN ties with everything, because `<` and `>` are both false. -/
def cmpFloatValWith (nanFirst : Bool) (a b : Nat) : Ordering :=
  if nanFirst && (fIsNaN a || fIsNaN b) then
    (if !fIsNaN a then .gt else if !fIsNaN b then .lt else .eq)
  else if fLt a b then .lt else if fLt b a then .gt else .eq

/-- the comparator of the code as it is (the `float_comparator_facts_expected` obligation pins the NaN branch) -/
def cmpFloatVal (a b : Nat) : Ordering := cmpFloatValWith true a b

/-- monotone integer image of EVERY float64: NaN below everything (fOrd is within ±2^63) -/
def fKey (bits : Nat) : Int := if fIsNaN bits then -18446744073709551616 else fOrd bits
/-- `Before` / `After` on instants -/
def cmpTimeVal (a b : Int) : Ordering := cmpInt a b

theorem cmpBoolVal_eq (a b : Bool) : cmpBoolVal a b = cmpInt (if a then 1 else 0) (if b then 1 else 0) := by
  cases a <;> cases b <;> decide

theorem cmpFloatVal_eq {a b : Nat} (ha : fIsNaN a = false) (hb : fIsNaN b = false) :
    cmpFloatVal a b = cmpInt (fOrd a) (fOrd b) := by
  simp only [cmpFloatVal, cmpFloatValWith, fLt, ha, hb, cmpInt]
  by_cases h1 : fOrd a < fOrd b
  · simp [h1]
  · by_cases h2 : fOrd b < fOrd a
    · simp [h1, h2]
    · simp [h1, h2]

theorem fOrd_gt (bits : Nat) : -18446744073709551616 < fOrd bits := by
  unfold fOrd; split <;> omega

/-- the float64 comparator IS integer comparison of the keys, NaN included -/
theorem cmpFloatVal_eq_key (a b : Nat) : cmpFloatVal a b = cmpInt (fKey a) (fKey b) := by
  have ga := fOrd_gt a
  have gb := fOrd_gt b
  cases ha : fIsNaN a <;> cases hb : fIsNaN b
  · rw [cmpFloatVal_eq ha hb]; simp [fKey, ha, hb]
  · simp only [cmpFloatVal, cmpFloatValWith, fKey, ha, hb, cmpInt]
    have h1 : ¬ fOrd a < -18446744073709551616 := by omega
    simp [h1, ga]
  · simp only [cmpFloatVal, cmpFloatValWith, fKey, ha, hb, cmpInt]
    simp [gb]
  · simp [cmpFloatVal, cmpFloatValWith, fKey, ha, hb, cmpInt]

theorem weakOrd_int_image {κ : Type} {Q : κ → Prop} {c : κ → κ → Ordering} (f : κ → Int)
    (h : ∀ a b, Q a → Q b → c a b = cmpInt (f a) (f b)) : WeakOrdOn Q c := by
  have base := cmpInt_strict.toWeakOrdOn
  refine ⟨?_, ?_, ?_⟩
  · intro a b ha hb; rw [h b a hb ha, h a b ha hb]; exact base.swap _ _ trivial trivial
  · intro a b d ha hb hd; rw [h a b ha hb, h b d hb hd, h a d ha hd]; exact base.trans_lt _ _ _ trivial trivial trivial
  · intro a b d ha hb hd; rw [h a b ha hb, h a d ha hd, h b d hb hd]; exact base.eq_congr _ _ _ trivial trivial trivial

theorem cmpBoolVal_weak : WeakOrdOn (fun _ => True) cmpBoolVal :=
  weakOrd_int_image (fun b => if b then 1 else 0) (fun a b _ _ => cmpBoolVal_eq a b)

theorem cmpFloatVal_weak : WeakOrdOn (fun _ => True) cmpFloatVal :=
  weakOrd_int_image fKey (fun a b _ _ => cmpFloatVal_eq_key a b)

/-! ### rows, schema, `newRowComparator` -/

/-- a row: the id (the bucket key / the object's id symbol) and its stored fields by name -/
structure Row where
  id : Bytes
  fields : List (String × Stored)
  deriving Repr, DecidableEq, Inhabited

def Row.get (r : Row) (name : String) : Stored := (r.fields.lookup name).getD .nil

/-- what the store knows about a symbol name -/
structure SymInfo where
  ty : SymType
  isSet : Bool := false
  deriving Repr, DecidableEq, Inhabited

abbrev Schema := List (String × SymInfo)

/-- `symbol.Eval(tx, rowId)`: the id symbol yields the row id as a string, any other symbol
    the stored field -/
def evalSym (name : String) (r : Row) : Stored := if name = "id" then .string r.id else r.get name

/-- one `xxxSymbolComparator.Compare` including the direction flip -/
def symCmp (ty : SymType) (name : String) (fwd : Bool) : Cmp Row := fun a b =>
  dir fwd <| match ty with
    | .bool => nullsFirst cmpBoolVal (fieldToBool (evalSym name a)) (fieldToBool (evalSym name b))
    | .datetime => nullsFirst cmpTimeVal (fieldToDatetime (evalSym name a)) (fieldToDatetime (evalSym name b))
    | .float64 => nullsFirst cmpFloatVal (fieldToFloat64 (evalSym name a)) (fieldToFloat64 (evalSym name b))
    | .int64 => nullsFirst cmpInt (fieldToInt64 (evalSym name a)) (fieldToInt64 (evalSym name b))
    | .string => nullsFirst cmpStrVal (fieldToString (evalSym name a)) (fieldToString (evalSym name b))
    | .other => .eq

structure SortField where
  name : String
  asc : Bool
  deriving Repr, DecidableEq, Inhabited

inductive SortErr where
  | noSuchField | invalidSetField | unsupportedType
  deriving Repr, DecidableEq

/-- `newRowComparator`: `id asc` appended, every field resolved, first failure returned -/
def resolveSort (schema : Schema) : List SortField → Except SortErr (List (Cmp Row))
  | [] => .ok []
  | f :: rest =>
    match schema.lookup f.name with
    | none => .error .noSuchField
    | some info =>
      if info.isSet then .error .invalidSetField
      else if info.ty = .other then .error .unsupportedType
      else match resolveSort schema rest with
        | .error e => .error e
        | .ok cs => .ok (symCmp info.ty f.name f.asc :: cs)

def newRowComparator (schema : Schema) (sort : List SortField) : Except SortErr (Cmp Row) :=
  match resolveSort schema (sort ++ [⟨"id", true⟩]) with
  | .error e => .error e
  | .ok cs => .ok (chain cs)

/-- `float64(int64)` is never NaN -/
theorem intToF64Bits_not_nan (v : Int) : fIsNaN (intToF64Bits v) = false := by
  have hc : clampInf (natToF64Mag v.natAbs) ≤ 9218868437227405312 := by
    unfold clampInf f64Inf; split <;> omega
  unfold fIsNaN intToF64Bits
  by_cases hv : v < 0
  · simp only [hv, if_true, decide_eq_false_iff_not]; omega
  · simp only [hv, if_false, decide_eq_false_iff_not]; omega

theorem symCmp_weak (ty : SymType) (name : String) (fwd : Bool) : WeakOrdOn (fun _ => True) (symCmp ty name fwd) := by
  unfold symCmp
  apply weakOrd_dir
  cases ty with
  | bool =>
    exact (weakOrd_pullback (fun r => fieldToBool (evalSym name r)) (weakOrd_nullsFirst cmpBoolVal_weak)).mono
      (fun _ _ _ _ => trivial)
  | datetime =>
    exact (weakOrd_pullback (fun r => fieldToDatetime (evalSym name r))
      (weakOrd_nullsFirst (base := cmpTimeVal) cmpInt_strict.toWeakOrdOn)).mono (fun _ _ _ _ => trivial)
  | float64 =>
    exact (weakOrd_pullback (fun r => fieldToFloat64 (evalSym name r)) (weakOrd_nullsFirst cmpFloatVal_weak)).mono
      (fun _ _ _ _ => trivial)
  | int64 =>
    exact (weakOrd_pullback (fun r => fieldToInt64 (evalSym name r))
      (weakOrd_nullsFirst cmpInt_strict.toWeakOrdOn)).mono (fun _ _ _ _ => trivial)
  | string =>
    exact (weakOrd_pullback (fun r => fieldToString (evalSym name r))
      (weakOrd_nullsFirst (base := cmpStrVal) cmpBytes_strict.toWeakOrdOn)).mono (fun _ _ _ _ => trivial)
  | other => exact weakOrd_const _

theorem resolveSort_weak {schema : Schema} {fs : List SortField} {cs : List (Cmp Row)}
    (h : resolveSort schema fs = .ok cs) : ∀ c ∈ cs, WeakOrdOn (fun _ => True) c := by
  induction fs generalizing cs with
  | nil => simp [resolveSort] at h; subst h; simp
  | cons f rest ih =>
    simp only [resolveSort] at h
    split at h
    · cases h
    · split at h
      · cases h
      · split at h
        · cases h
        · split at h
          · cases h
          · next cs' hcs =>
            simp only [Except.ok.injEq] at h
            subst h
            intro c hc
            rcases List.mem_cons.1 hc with rfl | hc
            · exact symCmp_weak _ _ _
            · exact ih hcs c hc

theorem chain_eq_all {ρ : Type} {cs : List (Cmp ρ)} {a b : ρ} (h : chain cs a b = .eq) : ∀ c ∈ cs, c a b = .eq := by
  induction cs with
  | nil => simp
  | cons c rest ih =>
    simp only [chain] at h
    intro c' hc'
    cases hc : c a b <;> simp only [hc] at h <;> try contradiction
    rcases List.mem_cons.1 hc' with rfl | hc'
    · exact hc
    · exact ih h c' hc'

theorem resolveSort_last {schema : Schema} {fs : List SortField} {g : SortField} {cs : List (Cmp Row)}
    (h : resolveSort schema (fs ++ [g]) = .ok cs) :
    ∃ info, schema.lookup g.name = some info ∧ symCmp info.ty g.name g.asc ∈ cs := by
  induction fs generalizing cs with
  | nil =>
    simp only [List.nil_append, resolveSort] at h
    split at h
    · cases h
    · next info hinfo =>
      split at h
      · cases h
      · split at h
        · cases h
        · simp only [Except.ok.injEq] at h
          subst h
          exact ⟨info, hinfo, List.mem_cons_self ..⟩
  | cons f rest ih =>
    simp only [List.cons_append, resolveSort] at h
    split at h
    · cases h
    · split at h
      · cases h
      · split at h
        · cases h
        · split at h
          · cases h
          · next cs' hcs =>
            simp only [Except.ok.injEq] at h
            subst h
            obtain ⟨info, h1, h2⟩ := ih hcs
            exact ⟨info, h1, List.mem_cons_of_mem _ h2⟩

/-- the store declares the id symbol as a plain string symbol (`AddIdSymbol("id", NodeTypeString)`) -/
def HasIdSymbol (schema : Schema) : Prop := schema.lookup "id" = some ⟨.string, false⟩

/-- rows of a bucket / collection have pairwise different ids -/
def DistinctIds (ds : List Row) : Prop := ds.Pairwise (fun a b => a.id ≠ b.id)

theorem eq_of_id_eq {ds : List Row} (hd : DistinctIds ds) {a b : Row} (ha : a ∈ ds) (hb : b ∈ ds)
    (h : a.id = b.id) : a = b := by
  induction ds with
  | nil => cases ha
  | cons x t ih =>
    have hx := (List.pairwise_cons.1 hd).1
    have ht := (List.pairwise_cons.1 hd).2
    rcases List.mem_cons.1 ha with ha | ha <;> rcases List.mem_cons.1 hb with hb | hb
    · rw [ha, hb]
    · rw [ha] at h; exact absurd h (hx b hb)
    · rw [hb] at h; exact absurd h.symm (hx a ha)
    · exact ih ht ha hb

theorem DistinctIds.nodup {ds : List Row} (hd : DistinctIds ds) : ds.Nodup :=
  List.Pairwise.imp (fun h e => h (congrArg Row.id e)) hd

/-- **comparator_strict_total** (generic form): the comparator `newRowComparator` builds orders any
    collection with distinct ids — NaN float keys included — strictly and totally: nulls first, NaN
    before every number, direction per field, ties broken by id ascending. -/
theorem newRowComparator_strict {schema : Schema} {sort : List SortField} {c : Cmp Row} {ds : List Row}
    (hid : HasIdSymbol schema) (h : newRowComparator schema sort = .ok c)
    (hd : DistinctIds ds) : StrictTotalOn (fun r => r ∈ ds) c := by
  unfold newRowComparator at h
  split at h
  · cases h
  · next cs hcs =>
    simp only [Except.ok.injEq] at h
    subst h
    refine ⟨(weakOrd_chain cs (resolveSort_weak hcs)).mono (fun _ _ => trivial), ?_⟩
    intro a b ha hb heq
    obtain ⟨info, h1, h2⟩ := resolveSort_last hcs
    have h1' : info = ⟨.string, false⟩ := by
      have : schema.lookup "id" = some info := h1
      rw [hid] at this
      exact (Option.some.inj this).symm
    subst h1'
    have := chain_eq_all heq _ h2
    simp only [symCmp, dir, evalSym, if_true, fieldToString, nullsFirst, cmpStrVal] at this
    exact eq_of_id_eq hd ha hb (cmpBytes_eq this)

end StorageModel.Query
