import StorageModel.Query.BoltProofs
/-
  C19 — HISTORIES of calls on one `objectz.ObjectStore` object (and one bolt store).

  Until now every theorem of C19 spoke about ONE query on a store.  A store object lives long: the same
  `*ObjectStore` answers `QueryEntities(text)` again and again, callers keep a parsed `ast.Query` and hand it to
  `QueryEntitiesC` / `QueryIdsC` of one store after the other, with `SetSkip` / `SetLimit` in between, and the collection
  behind the iterator function changes.  This file brings such histories inside the model.

  What the code keeps between calls (objectz/object_store.go, pinned by the `objstore` extractor, see
  Query/ObjStoreFacts.lean):

    * the `ObjectStore` object: `symbols` and `iteratorF`, both fixed after set-up; NOTHING is written by a query
      (no cache of parsed queries, no memoised scanner — `QueryEntitiesC` makes a fresh `memSortingScanner` per call —,
      no reused result buffer);
    * the collection the iterator function walks (the caller's; it may change between calls);
    * a parsed `ast.Query` object the caller holds: every execution writes the paging defaults back into it
      (`scanner.setPaging`: `SetSkip(0)` when absent, `SetLimit(MaxInt64)` when absent or negative) — in objectz always, in
      boltz whenever the entities bucket exists.

  `step` / `history` follow exactly that.  `specStep` / `objSpecHistory` are the specification of "no call depends on an
  earlier one": the only things that evolve are what the CALLER changed (the collection, the text parsed into a slot, the
  skip / limit set on it), and every answer is the STAND-ALONE answer (`standAlone`) of the call's request on the
  collection as it is now.

  `Text` and `parse` are arbitrary: the theorems hold for every way of turning a text into a query object (`ast.Parse` is the
  subject of C10 / C12); a call's answer depends on its text only through `parse` of THAT text.
-/
namespace StorageModel.Query
open StorageModel

/-! ### filters with the string functions `contains` / `icontains` (C19 only; the base fragment is Query/Filter.lean) -/

inductive StrFn where
  | contains | icontains
  deriving Repr, DecidableEq, Inhabited

inductive XFilter where
  | base (f : Filter)
  /-- `name [not] contains "v"` / `name [not] icontains "v"` over a string symbol -/
  | strFn (name : String) (fn : StrFn) (neg : Bool) (v : Bytes)
  | and (a b : XFilter)
  | or (a b : XFilter)
  | not (a : XFilter)
  deriving Repr, Inhabited

/-- `strings.ToUpper` on ASCII text -/
def upperAscii (b : Bytes) : Bytes := b.map fun c => if 97 ≤ c.toNat ∧ c.toNat ≤ 122 then c - 32 else c

/-- `strings.Contains(hay, needle)` -/
def containsBytes : Bytes → Bytes → Bool
  | [], needle => needle.isEmpty
  | h :: t, needle => needle.isPrefixOf (h :: t) || containsBytes t needle

/-- `BinaryStringExprNode.EvalBool` for the (not) contains operators with a constant on the right: a nil left operand
    answers true exactly for the negated forms; `icontains` was rewritten by `handleCaseInsensitive` into `contains` over
    `toUpper(left)` (a `StringFuncNode`: nil stays nil) and the upper-cased constant -/
def strFnOn (fn : StrFn) (neg : Bool) (l : Option Bytes) (v : Bytes) : Bool :=
  match l with
  | none => neg
  | some l =>
    match fn with
    | .contains => containsBytes l v != neg
    | .icontains => containsBytes (upperAscii l) (upperAscii v) != neg

def evalX (s : Symbols) : XFilter → Bool
  | .base f => evalFilter s f
  | .strFn name fn neg v => strFnOn fn neg (s.evalString name) v
  | .and a b => evalX s a && evalX s b
  | .or a b => evalX s a || evalX s b
  | .not a => !evalX s a

/-- **specification**: the row satisfies the filter -/
def satX (r : Row) : XFilter → Bool
  | .base f => sat r f
  | .strFn name fn neg v => strFnOn fn neg (fieldToString (evalSym name r)) v
  | .and a b => satX r a && satX r b
  | .or a b => satX r a || satX r b
  | .not a => !satX r a

theorem bolt_evalX_sat (r : Row) (f : XFilter) : evalX (boltSymbols r) f = satX r f := by
  induction f with
  | base f => exact bolt_eval_sat r f
  | strFn n fn neg v => rfl
  | and a b iha ihb => simp only [evalX, satX, iha, ihb]
  | or a b iha ihb => simp only [evalX, satX, iha, ihb]
  | not a iha => simp only [evalX, satX, iha]

def XFilter.symbols : XFilter → List String
  | .base f => f.symbols
  | .strFn n _ _ _ => [n]
  | .and a b | .or a b => a.symbols ++ b.symbols
  | .not a => a.symbols

/-- what `ast.Parse` guarantees: base atoms typed as in `FilterTyped`, string functions over string symbols -/
def XTyped (decl : List (String × SymType)) : XFilter → Prop
  | .base f => FilterTyped decl f
  | .strFn n _ _ _ => decl.lookup n = some .string
  | .and a b | .or a b => XTyped decl a ∧ XTyped decl b
  | .not a => XTyped decl a

/-- the extended filters read every symbol through the accessor of its declared type: they are inside the class
    `objectz_eq_bolt_any_filter` speaks about -/
theorem evalX_typedLocal (decl : List (String × SymType)) (f : XFilter) (hf : XTyped decl f) :
    TypedLocal decl f.symbols (fun s => evalX s f) := by
  induction f with
  | base f => exact evalFilter_typedLocal decl f hf
  | strFn n fn neg v =>
    intro s1 s2 h
    have := h n (by simp [XFilter.symbols])
    simp only [XTyped] at hf
    simp only [typedView, hf, Prod.mk.injEq, TypedVal.str.injEq] at this
    simp only [evalX, this.1]
  | and a b iha ihb =>
    intro s1 s2 h
    have e1 : evalX s1 a = evalX s2 a := iha hf.1 s1 s2 (fun n hn => h n (List.mem_append_left _ hn))
    have e2 : evalX s1 b = evalX s2 b := ihb hf.2 s1 s2 (fun n hn => h n (List.mem_append_right _ hn))
    simp only [evalX, e1, e2]
  | or a b iha ihb =>
    intro s1 s2 h
    have e1 : evalX s1 a = evalX s2 a := iha hf.1 s1 s2 (fun n hn => h n (List.mem_append_left _ hn))
    have e2 : evalX s1 b = evalX s2 b := ihb hf.2 s1 s2 (fun n hn => h n (List.mem_append_right _ hn))
    simp only [evalX, e1, e2]
  | not a iha =>
    intro s1 s2 h
    have e1 : evalX s1 a = evalX s2 a := iha hf s1 s2 h
    simp only [evalX, e1]

/-! ### the objects of a history -/

/-- a compiled query object (`ast.queryNode`: Predicate, SortBy, Skip, Limit); the predicate is given by its evaluation
    on an `ast.Symbols` -/
structure CQuery where
  ev : Symbols → Bool
  sort : List SortField
  paging : Paging

/-- which store object a call goes to -/
inductive StoreRef where
  | obj (k : Nat)      -- the k-th `ObjectStore` (several stores may share one collection)
  | bolt               -- the bolt store
  deriving Repr, DecidableEq, Inhabited

/-- the fixed part: the symbol tables of the object stores and of the bolt store (a root store) -/
structure HStores where
  osyms : Nat → List (String × SymType)
  schema : Schema

/-- one call of a history -/
inductive Call (Text : Type) where
  /-- the collection changes: what the object stores' iterator yields from now on (`none` = a nil iterator), and the
      entities bucket of the bolt store (`none` = no bucket) -/
  | setData (objs : Option (List Row)) (bucket : Option (List Row))
  /-- `store.QueryEntities(text)` / `store.QueryIds(tx, text)` -/
  | text (t : StoreRef) (s : Text)
  /-- the caller parses a text and keeps the `ast.Query` in slot `k` -/
  | parse (k : Nat) (s : Text)
  /-- `store.QueryEntitiesC(q)` / `store.QueryIdsC(tx, q)` with the query object kept in slot `k` -/
  | exec (k : Nat) (t : StoreRef)
  /-- `q.SetSkip(v)` / `q.SetLimit(v)` on the object in slot `k` -/
  | setSkip (k : Nat) (v : Int)
  | setLimit (k : Nat) (v : Int)

inductive Answer where
  | obj (r : ObjOutcome (List Row × Int))
  | bolt (r : Except SortErr (List Row × Int))
  | parseError
  | noQuery            -- the slot holds no query object
  | done

/-- everything that exists between two calls.  There is no component for the `ObjectStore` object: its fields are
    fixed after set-up (`Generated.objectzStore = expectedObjStore`). -/
structure HState where
  objs : Option (List Row)
  bucket : Option (List Row)
  /-- the query objects the caller holds, as the code left them -/
  slots : Nat → Option CQuery

def setSlot (slots : Nat → Option CQuery) (k : Nat) (q : Option CQuery) : Nat → Option CQuery :=
  fun j => if j = k then q else slots j

def HStores.ostore (W : HStores) (k : Nat) (objs : Option (List Row)) : ObjStore := ⟨W.osyms k, objs⟩
def HStores.bstore (W : HStores) (bucket : Option (List Row)) : BoltStore := { schema := W.schema, bucket := bucket }

/-- one execution of a query object against a store: the answer, and the object as the execution leaves it
    (`setPaging` is the first statement of `memSortingScanner.Scan`; the boltz scanners run it unless `Scan` returned
    early because there is no entities bucket) -/
def runOn (opf bpf : PagingFacts) (W : HStores) (objs bucket : Option (List Row)) (t : StoreRef) (q : CQuery) :
    Answer × CQuery :=
  match t with
  | .obj k => (.obj (objQueryP opf (W.ostore k objs) q.ev q.sort q.paging), { q with paging := (setPaging opf q.paging).1 })
  | .bolt => (.bolt (queryIdsCP bpf (W.bstore bucket) q.ev q.sort q.paging),
              if bucket.isNone then q else { q with paging := (setPaging bpf q.paging).1 })

def withSkip (q : CQuery) (v : Int) : CQuery := { q with paging := { q.paging with skip := some v } }
def withLimit (q : CQuery) (v : Int) : CQuery := { q with paging := { q.paging with limit := some v } }

/-- **model**: one call, as the code performs it -/
def step {Text : Type} (parse : Text → Option CQuery) (opf bpf : PagingFacts) (W : HStores) (st : HState) :
    Call Text → HState × Answer
  | .setData o b => ({ st with objs := o, bucket := b }, .done)
  | .text t s =>
    match parse s with
    | none => (st, .parseError)
    | some q => (st, (runOn opf bpf W st.objs st.bucket t q).1)      -- the query object is dropped after the call
  | .parse k s =>
    match parse s with
    | none => ({ st with slots := setSlot st.slots k none }, .parseError)
    | some q => ({ st with slots := setSlot st.slots k (some q) }, .done)
  | .exec k t =>
    match st.slots k with
    | none => (st, .noQuery)
    | some q =>
      ({ st with slots := setSlot st.slots k (some (runOn opf bpf W st.objs st.bucket t q).2) },
       (runOn opf bpf W st.objs st.bucket t q).1)
  | .setSkip k v => ({ st with slots := setSlot st.slots k ((st.slots k).map (withSkip · v)) }, .done)
  | .setLimit k v => ({ st with slots := setSlot st.slots k ((st.slots k).map (withLimit · v)) }, .done)

def history {Text : Type} (parse : Text → Option CQuery) (opf bpf : PagingFacts) (W : HStores) :
    HState → List (Call Text) → List Answer
  | _, [] => []
  | st, c :: cs => (step parse opf bpf W st c).2 :: history parse opf bpf W (step parse opf bpf W st c).1 cs

/-! ### specification: every call on its own -/

/-- the answer of ONE call on stores that hold the given collection and have never been used -/
def standAlone (opf bpf : PagingFacts) (W : HStores) (objs bucket : Option (List Row)) (t : StoreRef) (q : CQuery) : Answer :=
  (runOn opf bpf W objs bucket t q).1

/-- what the caller's own calls make of the world: the collection, and in the slots the REQUESTS (the text parsed last,
    the skip / limit set last); an execution changes nothing -/
def specStep {Text : Type} (parse : Text → Option CQuery) (opf bpf : PagingFacts) (W : HStores) (st : HState) :
    Call Text → HState × Answer
  | .setData o b => ({ st with objs := o, bucket := b }, .done)
  | .text t s =>
    match parse s with
    | none => (st, .parseError)
    | some q => (st, standAlone opf bpf W st.objs st.bucket t q)
  | .parse k s =>
    match parse s with
    | none => ({ st with slots := setSlot st.slots k none }, .parseError)
    | some q => ({ st with slots := setSlot st.slots k (some q) }, .done)
  | .exec k t =>
    match st.slots k with
    | none => (st, .noQuery)
    | some q => (st, standAlone opf bpf W st.objs st.bucket t q)
  | .setSkip k v => ({ st with slots := setSlot st.slots k ((st.slots k).map (withSkip · v)) }, .done)
  | .setLimit k v => ({ st with slots := setSlot st.slots k ((st.slots k).map (withLimit · v)) }, .done)

def objSpecHistory {Text : Type} (parse : Text → Option CQuery) (opf bpf : PagingFacts) (W : HStores) :
    HState → List (Call Text) → List Answer
  | _, [] => []
  | st, c :: cs => (specStep parse opf bpf W st c).2 :: objSpecHistory parse opf bpf W (specStep parse opf bpf W st c).1 cs

/-! ### the invariant: a query object and its request mean the same targets -/

/-- same predicate, same sort clause, pagings that `setPaging` turns into the same targets -/
structure Agrees (qm qs : CQuery) : Prop where
  ev : qm.ev = qs.ev
  sort : qm.sort = qs.sort
  target : (setPaging expectedPaging qm.paging).2 = (setPaging expectedPaging qs.paging).2

def AgreesOpt : Option CQuery → Option CQuery → Prop
  | none, none => True
  | some a, some b => Agrees a b
  | _, _ => False

theorem Agrees.refl (q : CQuery) : Agrees q q := ⟨rfl, rfl, rfl⟩

theorem agreesOpt_refl (q : Option CQuery) : AgreesOpt q q := by
  cases q with
  | none => trivial
  | some q => exact Agrees.refl q

/-- an execution answers through the targets only -/
theorem runOn_answer_congr (W : HStores) (objs bucket : Option (List Row)) (t : StoreRef) {qm qs : CQuery}
    (h : Agrees qm qs) :
    (runOn expectedPaging expectedPaging W objs bucket t qm).1 = (runOn expectedPaging expectedPaging W objs bucket t qs).1 := by
  obtain ⟨hev, hs, ht⟩ := h
  rcases qm with ⟨ev, sort, p⟩
  rcases qs with ⟨ev', sort', p'⟩
  simp only at hev hs ht
  subst hev hs
  cases t with
  | obj k =>
    simp only [runOn, objQueryP, sortScan, ht]
  | bolt =>
    simp only [runOn, queryIdsCP, scanCursorP, idxScan, sortScan, ht]

/-- the write-back of an execution keeps the targets -/
theorem agrees_writeback (W : HStores) (objs bucket : Option (List Row)) (t : StoreRef) {qm qs : CQuery} (h : Agrees qm qs) :
    Agrees (runOn expectedPaging expectedPaging W objs bucket t qm).2 qs := by
  obtain ⟨hev, hs, ht⟩ := h
  cases t with
  | obj k =>
    refine ⟨hev, hs, ?_⟩
    simp only [runOn]
    rw [setPaging_idempotent]; exact ht
  | bolt =>
    simp only [runOn]
    split
    · exact ⟨hev, hs, ht⟩
    · refine ⟨hev, hs, ?_⟩
      simp only
      rw [setPaging_idempotent]; exact ht

theorem agrees_withSkip {qm qs : CQuery} (h : Agrees qm qs) (v : Int) : Agrees (withSkip qm v) (withSkip qs v) := by
  obtain ⟨hev, hs, ht⟩ := h
  refine ⟨hev, hs, ?_⟩
  simp only [setPaging_target, targetOf, Target.mk.injEq] at ht ⊢
  simp only [withSkip]
  exact ⟨trivial, ht.2⟩

theorem agrees_withLimit {qm qs : CQuery} (h : Agrees qm qs) (v : Int) : Agrees (withLimit qm v) (withLimit qs v) := by
  obtain ⟨hev, hs, ht⟩ := h
  refine ⟨hev, hs, ?_⟩
  simp only [setPaging_target, targetOf, Target.mk.injEq] at ht ⊢
  simp only [withLimit]
  exact ⟨ht.1, trivial⟩

/-- model state and request state: same collection, slots that agree -/
structure StateAgrees (sm ss : HState) : Prop where
  objs : sm.objs = ss.objs
  bucket : sm.bucket = ss.bucket
  slots : ∀ k, AgreesOpt (sm.slots k) (ss.slots k)

theorem agreesOpt_setSlot {s1 s2 : Nat → Option CQuery} (h : ∀ k, AgreesOpt (s1 k) (s2 k)) (k : Nat) {q1 q2 : Option CQuery}
    (hq : AgreesOpt q1 q2) : ∀ j, AgreesOpt (setSlot s1 k q1 j) (setSlot s2 k q2 j) := by
  intro j
  simp only [setSlot]
  split
  · exact hq
  · exact h j

theorem agreesOpt_map {q1 q2 : Option CQuery} (h : AgreesOpt q1 q2) (f : CQuery → CQuery)
    (hf : ∀ a b, Agrees a b → Agrees (f a) (f b)) : AgreesOpt (q1.map f) (q2.map f) := by
  cases q1 <;> cases q2 <;> simp only [AgreesOpt, Option.map] at h ⊢
  exact hf _ _ h

/-- one call: same answer, and the states agree again -/
theorem step_spec {Text : Type} (parse : Text → Option CQuery) (W : HStores) {sm ss : HState} (h : StateAgrees sm ss)
    (c : Call Text) :
    (step parse expectedPaging expectedPaging W sm c).2 = (specStep parse expectedPaging expectedPaging W ss c).2 ∧
    StateAgrees (step parse expectedPaging expectedPaging W sm c).1 (specStep parse expectedPaging expectedPaging W ss c).1 := by
  obtain ⟨ho, hb, hs⟩ := h
  cases c with
  | setData o b => exact ⟨rfl, ⟨rfl, rfl, hs⟩⟩
  | text t s =>
    simp only [step, specStep]
    cases parse s with
    | none => exact ⟨rfl, ⟨ho, hb, hs⟩⟩
    | some q => exact ⟨by simp only [standAlone, ho, hb], ⟨ho, hb, hs⟩⟩
  | parse k s =>
    simp only [step, specStep]
    cases parse s with
    | none => exact ⟨rfl, ⟨ho, hb, agreesOpt_setSlot hs k (by trivial)⟩⟩
    | some q => exact ⟨rfl, ⟨ho, hb, agreesOpt_setSlot hs k (Agrees.refl q)⟩⟩
  | exec k t =>
    simp only [step, specStep]
    have hk := hs k
    cases hm : sm.slots k with
    | none =>
      cases hsp : ss.slots k with
      | none => exact ⟨rfl, ⟨ho, hb, hs⟩⟩
      | some q => rw [hm, hsp] at hk; exact hk.elim
    | some qm =>
      cases hsp : ss.slots k with
      | none => rw [hm, hsp] at hk; exact hk.elim
      | some qs =>
        rw [hm, hsp] at hk
        have hk' : Agrees qm qs := hk
        refine ⟨?_, ⟨ho, hb, ?_⟩⟩
        · simp only [standAlone, ← ho, ← hb]
          exact runOn_answer_congr W sm.objs sm.bucket t hk'
        · intro j
          simp only [setSlot]
          split
          · next hj =>
            subst hj
            rw [hsp]
            exact agrees_writeback W sm.objs sm.bucket t hk'
          · exact hs j
  | setSkip k v =>
    exact ⟨rfl, ⟨ho, hb, agreesOpt_setSlot hs k (agreesOpt_map (hs k) _ fun _ _ h => agrees_withSkip h v)⟩⟩
  | setLimit k v =>
    exact ⟨rfl, ⟨ho, hb, agreesOpt_setSlot hs k (agreesOpt_map (hs k) _ fun _ _ h => agrees_withLimit h v)⟩⟩

theorem stateAgrees_refl (st : HState) : StateAgrees st st := ⟨rfl, rfl, fun _ => agreesOpt_refl _⟩

/-- **every answer of a history is the stand-alone answer of its call** (with the arithmetic the theorems are proved for;
    `Properties/C19.lean` states it for the regenerated facts) -/
theorem history_eq_spec {Text : Type} (parse : Text → Option CQuery) (W : HStores) (calls : List (Call Text)) :
    ∀ sm ss : HState, StateAgrees sm ss →
      history parse expectedPaging expectedPaging W sm calls = objSpecHistory parse expectedPaging expectedPaging W ss calls := by
  induction calls with
  | nil => intros; rfl
  | cons c cs ih =>
    intro sm ss h
    simp only [history, objSpecHistory]
    have := step_spec parse W h c
    rw [this.1, ih _ _ this.2]

/-! ### lifting `objectz = bolt` to histories -/

/-- the bolt store's answer as an object-store answer -/
def liftBolt (r : Except SortErr (List Row × Int)) : ObjOutcome (List Row × Int) :=
  match r with
  | .ok r => .ok r
  | .error e => .err e

/-- forget which kind of store answered -/
def Answer.norm : Answer → Answer
  | .bolt r => .obj (liftBolt r)
  | a => a

/-- the same call, sent to the bolt store -/
def Call.toBolt {Text : Type} : Call Text → Call Text
  | .text _ s => .text StoreRef.bolt s
  | .exec k _ => .exec k StoreRef.bolt
  | c => c

/-- the hypotheses of `objectz_eq_bolt_any_filter` for one execution of `q` on the `k`-th object store: both stores hold
    the same rows (the object store in any iteration order), the sort symbols are declared alike, the comparator exists,
    the predicate reads its symbols through their declared types, the objects are well typed -/
def GoodExec (W : HStores) (st : HState) (k : Nat) (q : CQuery) : Prop :=
  ∃ (objs rows : List Row) (N : List String) (c : Cmp Row),
    st.objs = some objs ∧ st.bucket = some rows ∧ objs.Perm rows ∧ BucketOrdered rows ∧
    (W.osyms k).lookup "id" = some .string ∧
    (∀ f ∈ q.sort ++ [⟨"id", true⟩], W.schema.lookup f.name = (W.ostore k st.objs).schema.lookup f.name) ∧
    newRowComparator (W.ostore k st.objs).schema q.sort = .ok c ∧
    TypedLocal (W.osyms k) N q.ev ∧ (∀ r ∈ objs, ∀ n ∈ N, WellTypedAt (W.osyms k) r n) ∧
    q.paging.InRange ∧ (rows.length : Int) ≤ maxI64

/-- a call that executes a query on an object store does so under `GoodExec` (the request as it stands) -/
def GoodCall {Text : Type} (parse : Text → Option CQuery) (W : HStores) (st : HState) : Call Text → Prop
  | .text (.obj k) s => ∀ q, parse s = some q → GoodExec W st k q
  | .exec j (.obj k) => ∀ q, st.slots j = some q → GoodExec W st k q
  | _ => True

def GoodFrom {Text : Type} (parse : Text → Option CQuery) (opf bpf : PagingFacts) (W : HStores) :
    HState → List (Call Text) → Prop
  | _, [] => True
  | st, c :: cs => GoodCall parse W st c ∧ GoodFrom parse opf bpf W (specStep parse opf bpf W st c).1 cs

/-- what the caller's calls make of the world does not depend on which store a query is sent to -/
theorem specStep_toBolt_state {Text : Type} (parse : Text → Option CQuery) (opf bpf : PagingFacts) (W : HStores) (st : HState)
    (c : Call Text) : (specStep parse opf bpf W st c.toBolt).1 = (specStep parse opf bpf W st c).1 := by
  cases c with
  | text t s => simp only [Call.toBolt, specStep]; cases parse s <;> rfl
  | exec k t => simp only [Call.toBolt, specStep]; cases st.slots k <;> rfl
  | setData o b => rfl
  | parse k s => rfl
  | setSkip k v => rfl
  | setLimit k v => rfl

end StorageModel.Query
