import StorageModel.Query.Paging
import StorageModel.Query.Filter
/-
  The query entry points of a bolt-backed store (boltz/store_query.go): `NewScanner`'s choice of
  strategy, `QueryIdsC` / `QueryWithCursorC` / `IterateIds`, and the part of the listener that turns
  `skip N` / `limit N|none` into the query's paging fields (ast/bolt_listener.go).
-/
namespace StorageModel.Query
open StorageModel

/-! ### skip / limit as the listener reads them -/

/-- a NUMBER token after `skip` / `limit`: `strconv.ParseInt` succeeded (int) or not (the token then
    becomes a float node) -/
inductive NumTok where
  | int (v : Int)
  | nonInt
  deriving Repr, DecidableEq, Inhabited

inductive LimitTok where
  | num (n : NumTok)
  | none_        -- `limit none` is pushed as Int64ConstNode{-1}
  deriving Repr, DecidableEq, Inhabited

inductive ParseErr where
  | skipNotInteger | limitNotInteger
  deriving Repr, DecidableEq

/-- ExitSkipExpr / ExitLimitExpr / ExitQueryStmt -/
def parsePaging (skip : Option NumTok) (limit : Option LimitTok) : Except ParseErr Paging :=
  match skip with
  | some .nonInt => .error .skipNotInteger
  | _ =>
    let s : Option Int := match skip with | some (.int v) => some v | _ => none
    match limit with
    | some (.num .nonInt) => .error .limitNotInteger
    | some (.num (.int v)) => .ok ⟨s, some v⟩
    | some .none_ => .ok ⟨s, some (-1)⟩
    | none => .ok ⟨s, none⟩

/-- what the query text asks for, read directly off the tokens: `skip N` / nothing, and `limit N`
    / `limit none` / nothing (`none` = no limit) -/
def tokSkip (skip : Option NumTok) : Option Int := match skip with | some (.int v) => some v | _ => none
def tokLimit (limit : Option LimitTok) : Option Int := match limit with | some (.num (.int v)) => some v | _ => none

/-! ### NewScanner -/

inductive Strategy where
  | index (forward : Bool)     -- uniqueIndexScanner
  | sorting                    -- sortingScanner
  deriving Repr, DecidableEq, Inhabited

def sortMax : Nat := 5

def newScanner (sort : List SortField) : Strategy :=
  let sort := if sort.length > sortMax then sort.take sortMax else sort
  match sort with
  | [] => .index true
  | f :: _ =>
    if f.name = "id" then (if f.asc then .index true else .index false)
    else .sorting

/-! ### the store -/

structure BoltStore where
  schema : Schema
  /-- the entities bucket: `none` = the bucket does not exist yet; otherwise its rows in key order -/
  bucket : Option (List Row)
  /-- the child-store test of the scanners (false everywhere for a root store) -/
  childSkip : Row → Bool := fun _ => false

structure Query where
  filter : Filter
  sort : List SortField
  paging : Paging
  deriving Repr, Inhabited

def BoltStore.env (st : BoltStore) (f : Filter) : ScanEnv Row :=
  { childSkip := st.childSkip, pred := fun r => evalFilter (boltSymbols r) f }

/-- `TypedBucket.OpenCursor(tx, forward)` -/
def bucketCursor (rows : List Row) (forward : Bool) : List Row := if forward then rows else rows.reverse

/-- `scanner.ScanCursor(tx, cursorProvider, query)` for the scanner `NewScanner` returned -/
def scanCursor (pf : PagingFacts) (st : BoltStore) (q : Query) (provider : Bool → Option (List Row)) :
    Except SortErr (List Row × Int) :=
  match newScanner q.sort with
  | .index fwd => .ok (idxScan pf (st.env q.filter) q.paging (provider fwd))
  | .sorting =>
    match newRowComparator st.schema q.sort with
    | .error e => .error e
    | .ok c => .ok (sortScan pf c (st.env q.filter) q.paging (provider true))

/-- `QueryIdsC`: `scanner.Scan` returns nothing when the entities bucket does not exist -/
def queryIdsC (pf : PagingFacts) (st : BoltStore) (q : Query) : Except SortErr (List Row × Int) :=
  match st.bucket with
  | none => .ok ([], 0)
  | some rows => scanCursor pf st q (fun fwd => some (bucketCursor rows fwd))

/-- `QueryWithCursorC` -/
def queryWithCursorC (pf : PagingFacts) (st : BoltStore) (q : Query) (provider : Bool → Option (List Row)) :
    Except SortErr (List Row × Int) := scanCursor pf st q provider

/-! ### the same entry points for an arbitrary filter node, given by its evaluation on `ast.Symbols` -/

def BoltStore.envP (st : BoltStore) (ev : Symbols → Bool) : ScanEnv Row :=
  { childSkip := st.childSkip, pred := fun r => ev (boltSymbols r) }

def scanCursorP (pf : PagingFacts) (st : BoltStore) (ev : Symbols → Bool) (sort : List SortField) (paging : Paging)
    (provider : Bool → Option (List Row)) : Except SortErr (List Row × Int) :=
  match newScanner sort with
  | .index fwd => .ok (idxScan pf (st.envP ev) paging (provider fwd))
  | .sorting =>
    match newRowComparator st.schema sort with
    | .error e => .error e
    | .ok c => .ok (sortScan pf c (st.envP ev) paging (provider true))

def queryIdsCP (pf : PagingFacts) (st : BoltStore) (ev : Symbols → Bool) (sort : List SortField) (paging : Paging) :
    Except SortErr (List Row × Int) :=
  match st.bucket with
  | none => .ok ([], 0)
  | some rows => scanCursorP pf st ev sort paging (fun fwd => some (bucketCursor rows fwd))

theorem queryIdsC_eq_P (pf : PagingFacts) (st : BoltStore) (q : Query) :
    queryIdsC pf st q = queryIdsCP pf st (fun s => evalFilter s q.filter) q.sort q.paging := rfl

/-- `IterateIds(tx, query)` drained by the caller; the sort fields play no role -/
def iterateIds (pf : PagingFacts) (st : BoltStore) (q : Query) : List Row :=
  match st.bucket with
  | none => []                         -- ast.EmptyCursor
  | some rows => iterate pf (st.env q.filter) (some q.paging) rows

end StorageModel.Query
