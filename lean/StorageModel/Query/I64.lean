/-
  Go `int64` arithmetic for the paging counters (C02 / C19).

  A Go int64 value is modelled as an `Int` in [minI64, maxI64]; `+` is `add64`, which wraps
  around exactly as two's complement addition does.  Nothing here saturates by itself: the
  overflow guard the scanners apply after `targetOffset + targetLimit` is part of the scanner
  model, so that the arithmetic the code performs is what the theorems talk about.
-/
namespace StorageModel.Query

def maxI64 : Int := 9223372036854775807
def minI64 : Int := -9223372036854775808

/-- two's complement wrap into [-2^63, 2^63) -/
def wrap64 (x : Int) : Int := (x + 9223372036854775808) % 18446744073709551616 - 9223372036854775808

/-- Go's `a + b` on int64 -/
def add64 (a b : Int) : Int := wrap64 (a + b)

def InI64 (x : Int) : Prop := minI64 ≤ x ∧ x ≤ maxI64

theorem wrap64_id {x : Int} (h : InI64 x) : wrap64 x = x := by
  unfold InI64 minI64 maxI64 at h; unfold wrap64; omega

theorem add64_noOverflow {a b : Int} (h : InI64 (a + b)) : add64 a b = a + b := wrap64_id h

theorem wrap64_inRange (x : Int) : InI64 (wrap64 x) := by
  unfold InI64 minI64 maxI64 wrap64; omega

/-- the sum of two non-negative int64 values is negative after wrapping iff it overflowed -/
theorem add64_nonneg_overflow {a b : Int} (ha : 0 ≤ a) (hb : 0 ≤ b) (ha' : a ≤ maxI64) (hb' : b ≤ maxI64) :
    (add64 a b < 0 ↔ maxI64 < a + b) ∧ (¬ add64 a b < 0 → add64 a b = a + b) := by
  unfold maxI64 at *; unfold add64 wrap64; omega

/-- `x++` on a counter that is below MaxInt64 -/
theorem add64_succ {a : Int} (h0 : 0 ≤ a) (h1 : a < 9223372036854775807) : add64 a 1 = a + 1 := by
  unfold add64 wrap64; omega

example : add64 maxI64 2 = minI64 + 1 := by decide
example : add64 2 maxI64 < 0 := by decide

end StorageModel.Query
