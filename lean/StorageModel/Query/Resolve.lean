import StorageModel.Query.BoltProofs
/-
  Which sort fields a bolt store accepts, and with which error it refuses the others.

  Two different symbol tables are consulted on the way of a sort field:

    * `ast.Parse` types the field through `Store.GetSymbolType` = `BaseStore.GetSymbol(name)`, which
      resolves registered symbols, **map elements** (`tags.k`, any depth) and **composite symbols
      through linked stores** (`owner.label`, `owner.id`) — `getSymbol` below;
    * `newRowComparator` looks the field up in `store.symbols` alone (`resolveSort`,
      Query/Compare.lean), where a dotted name is never found.

  So `sort by tags.k` and `sort by owner.label` parse, and then fail in the sorting scanner with
  "no such sort field" — unless `id` is the first sort field: `NewScanner` then picks the index
  scanner, which never builds a comparator (`index_scanner_needs_no_comparator`).
-/
namespace StorageModel.Query
open StorageModel

/-- a store's symbol tables as `GetSymbol` consults them -/
structure SymTables where
  /-- `store.symbols`: what `AddSymbol`, `AddFkSymbol`, `AddSetSymbol`, `AddIdSymbol`, `GrantSymbols` registered -/
  symbols : Schema
  /-- `store.mapSymbols` (`AddMapSymbol`): key ↦ declared element type -/
  maps : List (String × SymType)
  /-- symbols with a linked store (`AddFkSymbol`, `AddFkSetSymbol`): symbol name ↦ name of that store -/
  links : List (String × String)
  deriving Inhabited

abbrev Stores := List (String × SymTables)

def dotted (parts : List String) : String := ".".intercalate parts

/-- `strings.Split(name, ".")` (structural, so that closed instances reduce) -/
def splitDotsAux : List Char → List Char → List (List Char)
  | acc, [] => [acc.reverse]
  | acc, c :: t => if c = '.' then acc.reverse :: splitDotsAux [] t else splitDotsAux (c :: acc) t

def splitDots (name : String) : List String := (splitDotsAux [] name.toList).map String.ofList

/-- `BaseStore.GetSymbol(name)` for `name = parts` joined by dots: type and set-ness of the symbol it
    returns.  A registered name wins; otherwise a map key in front makes an element symbol of the
    map's type, and a linked symbol in front makes a composite symbol of the type of the rest (set
    as soon as one link is a set). -/
def getSymbol (stores : Stores) : String → List String → Option SymInfo
  | _, [] => none
  | sn, p :: rest =>
    match stores.lookup sn with
    | none => none
    | some st =>
      match st.symbols.lookup (dotted (p :: rest)) with
      | some info => some info
      | none =>
        match rest with
        | [] => none
        | _ :: _ =>
          match st.maps.lookup p with
          | some ty => some ⟨ty, false⟩                    -- mapSymbol.createElementSymbol
          | none =>
            match st.symbols.lookup p, st.links.lookup p with
            | some first, some linked =>
              (getSymbol stores linked rest).map fun r => ⟨r.ty, first.isSet || r.isSet⟩
            | _, _ => none

/-- the symbol validation `ast.Parse` applies to a sort field: the symbol must resolve and must not
    be a set -/
def sortFieldParses (stores : Stores) (store : String) (f : SortField) : Bool :=
  match getSymbol stores store (splitDots f.name) with
  | some info => !info.isSet
  | none => false

/-- what `newRowComparator` says about one field (`none` = accepted) -/
def fieldErr (schema : Schema) (f : SortField) : Option SortErr :=
  match schema.lookup f.name with
  | none => some .noSuchField
  | some info => if info.isSet then some .invalidSetField else if info.ty = .other then some .unsupportedType else none

theorem resolveSort_ok_iff (schema : Schema) (fs : List SortField) :
    (∃ cs, resolveSort schema fs = .ok cs) ↔ ∀ f ∈ fs, fieldErr schema f = none := by
  induction fs with
  | nil => simp [resolveSort]
  | cons f rest ih =>
    simp only [List.mem_cons, forall_eq_or_imp, ← ih]
    simp only [resolveSort, fieldErr]
    cases hl : schema.lookup f.name with
    | none => simp
    | some info =>
      by_cases h1 : info.isSet = true
      · simp [h1]
      · by_cases h2 : info.ty = .other
        · simp [h1, h2]
        · simp only [h1, h2, if_false, Bool.false_eq_true, true_and]
          cases resolveSort schema rest with
          | error e => simp
          | ok cs => simp

/-- **the exact error**: `resolveSort` fails with the error of the first field (in the order written)
    that `newRowComparator` does not accept -/
theorem resolveSort_error_iff (schema : Schema) (fs : List SortField) (e : SortErr) :
    resolveSort schema fs = .error e ↔
      ∃ pre f post, fs = pre ++ f :: post ∧ (∀ g ∈ pre, fieldErr schema g = none) ∧ fieldErr schema f = some e := by
  induction fs with
  | nil => simp [resolveSort]
  | cons f rest ih =>
    have key : ∀ {err : Option SortErr}, fieldErr schema f = err →
        ((∃ pre g post, f :: rest = pre ++ g :: post ∧ (∀ h ∈ pre, fieldErr schema h = none) ∧ fieldErr schema g = some e) ↔
          (err = some e ∨ (err = none ∧ ∃ pre g post, rest = pre ++ g :: post ∧ (∀ h ∈ pre, fieldErr schema h = none) ∧
            fieldErr schema g = some e))) := by
      intro err herr
      constructor
      · rintro ⟨pre, g, post, h1, h2, h3⟩
        cases pre with
        | nil =>
          simp only [List.nil_append, List.cons.injEq] at h1
          left; rw [← herr, h1.1]; exact h3
        | cons x pre =>
          simp only [List.cons_append, List.cons.injEq] at h1
          right
          refine ⟨by rw [← herr, h1.1]; exact h2 x (List.mem_cons_self ..), pre, g, post, h1.2,
            fun h hh => h2 h (List.mem_cons_of_mem _ hh), h3⟩
      · rintro (h | ⟨h0, pre, g, post, h1, h2, h3⟩)
        · exact ⟨[], f, rest, rfl, by simp, by rw [herr]; exact h⟩
        · refine ⟨f :: pre, g, post, by simp [h1], ?_, h3⟩
          intro h hh
          rcases List.mem_cons.1 hh with rfl | hh
          · rw [herr]; exact h0
          · exact h2 h hh
    rw [key rfl, ← ih]
    simp only [resolveSort, fieldErr]
    cases hl : schema.lookup f.name with
    | none => simp <;> exact eq_comm
    | some info =>
      by_cases h1 : info.isSet = true
      · simp [h1] <;> exact eq_comm
      · by_cases h2 : info.ty = .other
        · simp [h1, h2] <;> exact eq_comm
        · simp only [h1, h2, if_false, Bool.false_eq_true, reduceCtorEq, false_or, true_and]
          cases resolveSort schema rest with
          | error e' => simp
          | ok cs => simp

/-- no registered symbol name contains a dot (true of every store built with the `Add…Symbol` calls
    and plain names) -/
def PlainNames (schema : Schema) : Prop := ∀ p ∈ schema, (splitDots p.1).length = 1

theorem lookup_mem {schema : Schema} {n : String} {info : SymInfo} (h : schema.lookup n = some info) :
    (n, info) ∈ schema := by
  induction schema with
  | nil => simp at h
  | cons p rest ih =>
    obtain ⟨m, i⟩ := p
    simp only [List.lookup] at h
    split at h
    · next heq => cases h; have := eq_of_beq heq; subst this; exact List.mem_cons_self ..
    · exact List.mem_cons_of_mem _ (ih h)

/-- **map elements and linked symbols cannot be sorted on**: a dotted sort field — whatever
    `GetSymbol` resolves it to — is refused by `newRowComparator` with "no such sort field" -/
theorem dotted_field_unsupported {schema : Schema} (hp : PlainNames schema) (f : SortField)
    (hd : (splitDots f.name).length ≠ 1) : fieldErr schema f = some .noSuchField := by
  unfold fieldErr
  cases hl : schema.lookup f.name with
  | none => rfl
  | some info => exact absurd (hp _ (lookup_mem hl)) hd

/-- `newRowComparator` on a sort list: the error of the first refused field of `sort ++ [id asc]` -/
theorem newRowComparator_error_iff (schema : Schema) (sort : List SortField) (e : SortErr) :
    newRowComparator schema sort = .error e ↔
      ∃ pre f post, sort ++ [⟨"id", true⟩] = pre ++ f :: post ∧ (∀ g ∈ pre, fieldErr schema g = none) ∧
        fieldErr schema f = some e := by
  rw [← resolveSort_error_iff]
  unfold newRowComparator
  cases resolveSort schema (sort ++ [⟨"id", true⟩]) with
  | error e' => simp
  | ok cs => simp

/-- the index scanner never asks for a comparator: with `id` first (or no sort field) the query
    is answered — in id order — whatever the remaining sort fields are -/
theorem index_scanner_needs_no_comparator (pf : PagingFacts) (st : BoltStore) (q : Query) (fwd : Bool)
    (hs : newScanner q.sort = .index fwd) (sort' : List SortField) (hs' : newScanner sort' = .index fwd) :
    queryIdsC pf st q = queryIdsC pf st { q with sort := sort' } := by
  simp only [queryIdsC, scanCursor, hs, hs']

/-! ### set functions applied to a symbol that is not a set -/

/-- `SymbolValidator` on `fn(sym)` (`VisitUntypedSymbolNode` inside the set function: not found → unknown
    symbol; `VisitSetFunctionNodeEnd`: found and not a set → "is not a set symbol"), given what
    `IsSet(sym)` answered -/
def setFunctionAccepted (isSetAnswer : Bool × Bool) : Bool := isSetAnswer.2 && isSetAnswer.1

/-- `BaseStore.IsSet(name)` -/
def boltIsSet (schema : Schema) (name : String) : Bool × Bool :=
  match schema.lookup name with
  | some info => (info.isSet, true)
  | none => (false, false)

/-- `ObjectStore.IsSet(name)`: `return false, true`, whatever the name -/
def objIsSet (_name : String) : Bool × Bool := (false, true)

/-- a set function (`anyOf`, `allOf`, `count`, `isEmpty`) applied to a non-set or unknown symbol is
    rejected by `ast.Parse` against either store; the object store rejects every set function -/
theorem set_function_rejected (schema : Schema) (name : String)
    (h : ∀ info, schema.lookup name = some info → info.isSet = false) :
    setFunctionAccepted (boltIsSet schema name) = false ∧ setFunctionAccepted (objIsSet name) = false := by
  refine ⟨?_, rfl⟩
  unfold boltIsSet setFunctionAccepted
  cases hl : schema.lookup name with
  | none => rfl
  | some info => simp [h info hl]

end StorageModel.Query
