import StorageModel.Query.Objectz
import StorageModel.Query.Spec
import StorageModel.Generated.PagingFacts
/-
  Line protocol of the C02 / C19 drivers (see /verif/harness/c02.go, c19.go, c02_c19_common.go for
  the format).  Parsing and rendering only — never used by a proof.
-/
namespace StorageModel.Query.Wire
open StorageModel StorageModel.Query

def wireSchema : Schema :=
  [("id", ⟨.string, false⟩), ("b", ⟨.bool, false⟩), ("i", ⟨.int64, false⟩), ("n", ⟨.int64, false⟩),
   ("f", ⟨.float64, false⟩), ("s", ⟨.string, false⟩), ("t", ⟨.datetime, false⟩), ("roles", ⟨.string, true⟩)]

def objSymbolsDecl : List (String × SymType) :=
  [("id", .string), ("b", .bool), ("i", .int64), ("n", .int64), ("f", .float64), ("s", .string), ("t", .datetime)]

def hexNat (s : String) : Option Nat :=
  s.toList.foldlM (fun acc c => (Bytes.hexVal c).map (fun v => acc * 16 + v)) 0

def strTok (tok : String) : Option Bytes :=   -- S<hex>
  if tok.startsWith "S" then Bytes.ofHex (let h := (tok.drop 1).toString; if h.isEmpty then "-" else h) else none

def asciiBytes (s : String) : Bytes := s.toList.map fun c => UInt8.ofNat c.toNat
def bytesAscii (b : Bytes) : String := String.ofList (b.map fun x => Char.ofNat x.toNat)

structure WRow where
  row : Row
  roles : List String
  /-- "" root only, "1" plain child data, "2" extended child data -/
  child : String := ""

def parseRow (s : String) : Option WRow :=
  let toks := s.splitOn ","
  let child := match toks with
    | [_, _, _, _, _, _, _, _, c] => (c.drop 1).toString
    | _ => ""
  match toks.take 8 with
  | [id, b, i, n, f, st, t, roles] => do
    let fb : Stored ← if b == "N" then some .nil else some (.bool (b == "1"))
    let fi : Stored ← if i == "N" then some .nil else i.toInt?.map .int64
    let fn : Stored ← if n == "N" then some .nil else n.toInt?.map .int32
    let ff : Stored ← if f == "N" then some .nil else (hexNat f).map .float64
    let fs : Stored ← if st == "N" then some .nil else (strTok st).map .string
    let ft : Stored ← if t == "N" then some .nil else t.toInt?.map .time
    let rs := if roles.length ≤ 1 then [] else ((roles.drop 1).toString).splitOn "."
    pure ⟨⟨asciiBytes id, [("b", fb), ("i", fi), ("n", fn), ("f", ff), ("s", fs), ("t", ft)]⟩, rs, child⟩
  | _ => none

/-- dataset token: `-` no bucket, `0` empty bucket -/
def parseRows (s : String) : Option (Option (List WRow)) :=
  if s == "-" then some none
  else if s == "0" then some (some [])
  else (s.splitOn ";").mapM parseRow |>.map some

def parseOp : String → Option CmpOp
  | "eq" => some .eq | "ne" => some .ne | "lt" => some .lt | "le" => some .le | "gt" => some .gt | "ge" => some .ge
  | _ => none

def parseFilter (s : String) : Option Filter :=
  match s.splitOn "." with
  | ["true"] => some .tt
  | ["null", f] => some (.isNull f)
  | ["notnull", f] => some (.notNull f)
  | ["cmp", f, op, c] => do
    let op ← parseOp op
    match f with
    | "b" => some (.cmpBool f op (c == "1"))
    | "i" | "n" => c.toInt?.map (.cmpInt f op)
    | "f" => (hexNat c).map (.cmpFloat f op)
    | "s" | "id" => (strTok c).map (.cmpStr f op)
    | "t" => c.toInt?.map (.cmpTime f op)
    | _ => none
  | _ => none

def parseSort (s : String) : Option (List SortField) :=
  if s == "-" then some []
  else (s.splitOn ",").mapM fun sf =>
    if sf.length < 2 then none
    else
      let name := (sf.dropEnd 1).toString
      let d := (sf.takeEnd 1).toString
      some ⟨name, d != "-"⟩

def parseNum (s : String) : Option (Option NumTok) :=
  if s == "-" then some none
  else if s == "x" || s == "big" then some (some .nonInt)
  else s.toInt?.map fun v => some (.int v)

def parseLimit (s : String) : Option (Option LimitTok) :=
  if s == "none" then some (some .none_)
  else (parseNum s).map fun o => o.map .num

structure Case where
  rows : Option (List WRow)
  filter : Filter
  sort : List SortField
  skip : Option NumTok
  limit : Option LimitTok
  prov : Option (Bool × List String)     -- (isAllOf, values)
  seek : Option Bytes
  /-- root | child | ext -/
  store : String := "root"

def parseProv (s : String) : Option (Option (Bool × List String)) :=
  if s == "-" then some none
  else match s.splitOn "." with
    | "all" :: vs => some (some (true, vs))
    | "any" :: vs => some (some (false, vs))
    | _ => none

def parseCase (toks : List String) : Option Case :=
  match toks with
  | [rows, filter, sort, skip, limit, prov, seek] => do
    let rows ← parseRows rows
    let filter ← parseFilter filter
    let sort ← parseSort sort
    let skip ← parseNum skip
    let limit ← parseLimit limit
    let prov ← parseProv prov
    let seek ← if seek == "-" then some none else (strTok seek).map some
    pure ⟨rows, filter, sort, skip, limit, prov, seek, "root"⟩
  | [rows, filter, sort, skip, limit, prov, seek, store] =>
    (parseCase [rows, filter, sort, skip, limit, prov, seek]).map fun c => { c with store := store }
  | _ => none

/-- what `ast.Parse` rejects in the sort clause: unknown symbols and set symbols -/
def sortParses (schema : Schema) (sort : List SortField) : Bool :=
  sort.all fun f => match schema.lookup f.name with
    | some info => !info.isSet
    | none => false

def renderIds (rows : List Row) : String := ",".intercalate (rows.map fun r => bytesAscii r.id)
def renderAnswer (r : List Row × Int) : String := renderIds r.1 ++ "#" ++ toString r.2
def renderExcept (r : Except SortErr (List Row × Int)) : String :=
  match r with
  | .ok a => renderAnswer a
  | .error _ => "err"

def renderOpt (o : Option Int) : String := match o with | none => "nil" | some v => toString v

/-- the plain child store skips parent rows without child data; the extended one skips nothing -/
def Case.childSkip (c : Case) (r : Row) : Bool :=
  c.store == "child" && !((c.rows.getD []).any fun w => w.row.id == r.id && w.child == "1")

def Case.bolt (c : Case) : BoltStore :=
  { schema := wireSchema, bucket := c.rows.map fun rs => rs.map (·.row), childSkip := c.childSkip }

def Case.inProv (c : Case) (p : Bool × List String) (id : Bytes) : Bool :=
  match (c.rows.getD []).find? (fun w => w.row.id == id) with
  | none => false
  | some w => if p.1 then p.2.all (fun v => w.roles.contains v) else p.2.any (fun v => w.roles.contains v)

/-- the spec's reading of the skip / limit tokens: `limit none` is "no limit" -/
def specSkip (skip : Option NumTok) : Option Int := tokSkip skip
def specLimit (limit : Option LimitTok) : Option Int := tokLimit limit

end StorageModel.Query.Wire
