import StorageModel.Query.Objectz
import StorageModel.Query.Spec
import StorageModel.Query.Providers
import StorageModel.Query.Resolve
import StorageModel.Query.TreeQueries
import StorageModel.Generated.PagingFacts
/-
  Line protocol of the C02 / C19 drivers (see /verif/harness/c02.go, c19.go, c02_c19_common.go for
  the format).  Parsing and rendering only — never used by a proof.
-/
namespace StorageModel.Query.Wire
open StorageModel StorageModel.Query

/-- a second set of symbol names for the six stored fields (registered with `AddSymbolWithKey` / as further map keys
    of the object stores): names that contain or end in ZitiQL keywords.  alias ↦ the field it reads. -/
def aliasTable : List (String × String) :=
  [("shortDesc", "s"), ("sortBy", "s"), ("nota", "s"), ("'desc'", "s"), ("ShortDESC", "s"), ("containsx", "s"), ("idx", "i"), ("inx", "i"), ("limitX", "i"), ("android", "i"), ("iDesc", "i"), ("skipper", "n"), ("basc", "n"), ("ore", "n"), ("byB", "b"), ("nullable", "b"), ("isEmptyB", "b"), ("trueish", "b"), ("fdesc", "f"), ("ascending", "f"), ("noneF", "f"), ("betweenx", "f"), ("descT", "t"), ("fromT", "t"), ("whereabouts", "t"), ("t_desc", "t")]

def baseOf (name : String) : String := (aliasTable.lookup name).getD name

def baseType (base : String) : SymType :=
  if base == "b" then .bool else if base == "i" || base == "n" then .int64 else if base == "f" then .float64
  else if base == "t" then .datetime else .string

/-- `store.symbols` of the harness store "things": the six typed fields, the set symbol `roles`, the
    fk symbol `owner` (a plain string symbol holding the owner's id) and `a`, registered with
    `NodeTypeAnyType` (a type `newRowComparator` has no comparator for) -/
def wireSchema : Schema :=
  [("id", ⟨.string, false⟩), ("b", ⟨.bool, false⟩), ("i", ⟨.int64, false⟩), ("n", ⟨.int64, false⟩),
   ("f", ⟨.float64, false⟩), ("s", ⟨.string, false⟩), ("t", ⟨.datetime, false⟩), ("roles", ⟨.string, true⟩),
   ("owner", ⟨.string, false⟩), ("a", ⟨.other, false⟩)] ++
  aliasTable.map fun (a, b) => (a, ⟨baseType b, false⟩)

/-- the child stores were granted the parent's symbols and add their own `code` -/
def childSchema : Schema := wireSchema ++ [("code", ⟨.string, false⟩)]

def schemaOf (store : String) : Schema := if store == "root" then wireSchema else childSchema

/-- the symbol tables `GetSymbol` walks: "things" (root / child / ext) with the map symbol `tags` and the
    link `owner` → "owners"; "owners" with `label` and the fk set symbol `things` → "things" -/
def wireStores : Stores :=
  let things (sch : Schema) : SymTables := { symbols := sch, maps := [("tags", .other)], links := [("owner", "owners")] }
  [("root", things wireSchema), ("child", things childSchema), ("ext", things childSchema),
   ("owners", { symbols := [("id", ⟨.string, false⟩), ("label", ⟨.string, false⟩), ("things", ⟨.string, true⟩)],
                maps := [], links := [("things", "root")] })]

def objSymbolsDecl : List (String × SymType) :=
  [("id", .string), ("b", .bool), ("i", .int64), ("n", .int64), ("f", .float64), ("s", .string), ("t", .datetime)] ++
  aliasTable.map fun (a, b) => (a, baseType b)

/-- the object stores the harness builds over one collection: `full` (every Add…Symbol kind), `sub` (only id, s, i),
    `noid` (everything but the id symbol) -/
def objDeclOf (variant : String) : List (String × SymType) :=
  if variant == "sub" then [("id", .string), ("s", .string), ("i", .int64)]
  else if variant == "noid" then objSymbolsDecl.filter (·.1 != "id")
  else objSymbolsDecl

/-- the typing `ast.Parse` imposes on an atom of the fragment: the symbol is known and the constant has its type -/
def atomTyped (decl : List (String × SymType)) : Filter → Bool
  | .tt => true
  | .cmpBool n _ _ => decl.lookup n == some .bool
  | .cmpInt n _ _ => decl.lookup n == some .int64
  | .cmpFloat n _ _ => decl.lookup n == some .float64
  | .cmpStr n _ _ => decl.lookup n == some .string
  | .cmpTime n _ _ => decl.lookup n == some .datetime
  | .isNull n | .notNull n => match decl.lookup n with | some t => t != .other | none => false
  | .and a b | .or a b => atomTyped decl a && atomTyped decl b
  | .not a => atomTyped decl a

def hexNat (s : String) : Option Nat :=
  s.toList.foldlM (fun acc c => (Bytes.hexVal c).map (fun v => acc * 16 + v)) 0

def strTok (tok : String) : Option Bytes :=   -- S<hex>
  if tok.startsWith "S" then Bytes.ofHex (let h := (tok.drop 1).toString; if h.isEmpty then "-" else h) else none

def asciiBytes (s : String) : Bytes := s.toList.map fun c => UInt8.ofNat c.toNat
def bytesAscii (b : Bytes) : String := String.ofList (b.map fun x => Char.ofNat x.toNat)

structure WRow where
  row : Row
  roles : List String
  /-- "" root only, "1" plain child data, "2" extended child data -/
  child : String := ""
  /-- id of the owner the row's fk `owner` points to ("" = none) -/
  owner : String := ""

/-- a typed field token: `N` | `B0`/`B1` | `I<int64>` | `J<int32>` | `F<16 hex>x<hex of the FormatFloat text>` |
    `S<hex>` | `T<unix ns>` — the stored type travels with the value, whatever column it sits in -/
def typedTok (tok : String) : Option Stored :=
  let body := (tok.drop 1).toString
  if tok == "N" then some .nil
  else if tok.startsWith "B" then some (.bool (body == "1"))
  else if tok.startsWith "I" then body.toInt?.map .int64
  else if tok.startsWith "J" then body.toInt?.map .int32
  else if tok.startsWith "F" then
    match body.splitOn "x" with
    | [bits, text] => do
      let b ← hexNat bits
      let t ← Bytes.ofHex (if text.isEmpty then "-" else text)
      pure (.float64 b t)
    | _ => none
  else if tok.startsWith "S" then (strTok tok).map .string
  else if tok.startsWith "T" then body.toInt?.map .time
  else none

/-- a column token: the positional (untyped) form of the column, or a typed token -/
def colTok (positional : String → Option Stored) (tok : String) : Option Stored :=
  match tok.toList.head? with
  | some c => if c == 'N' || c == 'B' || c == 'I' || c == 'J' || c == 'F' || c == 'S' || c == 'T' then typedTok tok
              else positional tok
  | none => none

def parseRow (s : String) : Option WRow :=
  let toks := s.splitOn ","
  let child := match toks[8]? with
    | some c => (c.drop 1).toString
    | none => ""
  let owner := match toks[9]? with
    | some o => (o.drop 1).toString
    | none => ""
  match toks.take 8 with
  | [id, b, i, n, f, st, t, roles] => do
    let fb : Stored ← colTok (fun b => some (.bool (b == "1"))) b
    let fi : Stored ← colTok (fun i => i.toInt?.map .int64) i
    let fn : Stored ← colTok (fun n => n.toInt?.map .int32) n
    let ff : Stored ← colTok (fun f => (hexNat f).map (.float64 · [])) f
    let fs : Stored ← colTok (fun _ => none) st
    let ft : Stored ← colTok (fun t => t.toInt?.map .time) t
    let rs := if roles.length ≤ 1 then [] else ((roles.drop 1).toString).splitOn "."
    let base : List (String × Stored) := [("b", fb), ("i", fi), ("n", fn), ("f", ff), ("s", fs), ("t", ft)]
    -- an alias reads the same stored field
    let aliases := aliasTable.map fun (a, b) => (a, (base.lookup b).getD .nil)
    pure ⟨⟨asciiBytes id, base ++ aliases⟩, rs, child, owner⟩
  | _ => none

/-- dataset token: `-` no bucket, `0` empty bucket -/
def parseRows (s : String) : Option (Option (List WRow)) :=
  if s == "-" then some none
  else if s == "0" then some (some [])
  else (s.splitOn ";").mapM parseRow |>.map some

def parseOp : String → Option CmpOp
  | "eq" => some .eq | "ne" => some .ne | "lt" => some .lt | "le" => some .le | "gt" => some .gt | "ge" => some .ge
  | _ => none

/-- an atom token: `true` | `null.<f>` | `notnull.<f>` | `cmp.<f>.<op>.<const>` (the constant is read with the
    type of the harness field `f`; an unknown field name takes a string constant) -/
def parseAtom (s : String) : Option Filter :=
  match s.splitOn "." with
  | ["true"] => some .tt
  | ["null", f] => some (.isNull f)
  | ["notnull", f] => some (.notNull f)
  | ["cmp", f, op, c] => do
    let op ← parseOp op
    match baseOf f with
    | "b" => some (.cmpBool f op (c == "1"))
    | "i" | "n" => c.toInt?.map (.cmpInt f op)
    | "f" => (hexNat c).map (.cmpFloat f op)
    | "t" => c.toInt?.map (.cmpTime f op)
    | _ => (strTok c).map (.cmpStr f op)
  | _ => none

/-- prefix notation over `~`-separated tokens: `and~A~B`, `or~A~B`, `not~A`, atoms -/
def parsePrefix : Nat → List String → Option (Filter × List String)
  | 0, _ => none
  | _, [] => none
  | fuel + 1, tok :: rest =>
    if tok == "and" || tok == "or" then do
      let (a, r1) ← parsePrefix fuel rest
      let (b, r2) ← parsePrefix fuel r1
      pure (if tok == "and" then .and a b else .or a b, r2)
    else if tok == "not" then do
      let (a, r1) ← parsePrefix fuel rest
      pure (.not a, r1)
    else (parseAtom tok).map fun a => (a, rest)

/-- a filter token; `setfn.<fn>.<symbol>` (a set function applied to a symbol: `anyOf(s) = "a"`, `count(s) > 0`,
    `isEmpty(s)`, …) is kept aside: it is no filter of the fragment -/
def parseFilter (s : String) : Option Filter :=
  let toks := s.splitOn "~"
  match parsePrefix (toks.length + 1) toks with
  | some (f, []) => some f
  | _ => none

def parseSetFn (s : String) : Option (String × String) :=
  match s.splitOn "." with
  | ["setfn", fn, sym] => some (fn, sym)
  | _ => none

def parseSort (s : String) : Option (List SortField) :=
  if s == "-" then some []
  else (s.splitOn ",").mapM fun sf =>
    if sf.length < 2 then none
    else
      let name := (sf.dropEnd 1).toString
      let d := (sf.takeEnd 1).toString
      -- + ASC, ~ no keyword, ^ asc  |  - DESC, * desc, ! DeSc
      some ⟨name, d != "-" && d != "*" && d != "!"⟩

def parseNum (s : String) : Option (Option NumTok) :=
  if s == "-" then some none
  else if s == "x" || s == "big" then some (some .nonInt)
  else s.toInt?.map fun v => some (.int v)

def parseLimit (s : String) : Option (Option LimitTok) :=
  if s == "none" then some (some .none_)
  else (parseNum s).map fun o => o.map .num

/-- cursor provider token: `all.<v>..` / `any.<v>..` (0, 1 or more values, duplicates allowed),
    `val.<v>` (setIndex.OpenValueCursor), `rel.<owner>` (GetRelatedEntitiesCursor over the owner's
    back-reference list), `nil` (a provider returning nil) -/
inductive ProvTok where
  | all (vs : List String)
  | any (vs : List String)
  | val (v : String)
  | rel (o : String)
  | nil
  deriving Repr, Inhabited

structure Case where
  rows : Option (List WRow)
  filter : Filter
  sort : List SortField
  skip : Option NumTok
  limit : Option LimitTok
  prov : Option ProvTok
  seek : Option Bytes
  /-- root | child | ext -/
  store : String := "root"
  /-- the filter is a set function applied to this symbol (then `filter` is `tt`) -/
  setFn : Option (String × String) := none

def parseProv (s : String) : Option (Option ProvTok) :=
  if s == "-" then some none
  else match s.splitOn "." with
    | "all" :: vs => some (some (.all vs))
    | "any" :: vs => some (some (.any vs))
    | ["val", v] => some (some (.val v))
    | ["rel", o] => some (some (.rel o))
    | ["nil"] => some (some .nil)
    | _ => none

def parseCase (toks : List String) : Option Case :=
  match toks with
  | [rows, filter, sort, skip, limit, prov, seek] => do
    let rows ← parseRows rows
    let setFn := parseSetFn filter
    let filter ← if setFn.isSome then some .tt else parseFilter filter
    let sort ← parseSort sort
    let skip ← parseNum skip
    let limit ← parseLimit limit
    let prov ← parseProv prov
    let seek ← if seek == "-" then some none else (strTok seek).map some
    pure ⟨rows, filter, sort, skip, limit, prov, seek, "root", setFn⟩
  | [rows, filter, sort, skip, limit, prov, seek, store] =>
    (parseCase [rows, filter, sort, skip, limit, prov, seek]).map fun c => { c with store := store }
  | _ => none

/-- what `ast.Parse` rejects in the sort clause: symbols `GetSymbol` does not resolve, and set symbols -/
def sortParses (store : String) (sort : List SortField) : Bool :=
  sort.all (sortFieldParses wireStores store)

def errKind : SortErr → String
  | .noSuchField => "err:nosuch"
  | .invalidSetField => "err:set"
  | .unsupportedType => "err:type"

def renderIds (rows : List Row) : String := ",".intercalate (rows.map fun r => bytesAscii r.id)
def renderAnswer (r : List Row × Int) : String := renderIds r.1 ++ "#" ++ toString r.2
def renderExcept (r : Except SortErr (List Row × Int)) : String :=
  match r with
  | .ok a => renderAnswer a
  | .error e => errKind e

def renderOpt (o : Option Int) : String := match o with | none => "nil" | some v => toString v

/-- the plain child store skips parent rows without child data; the extended one skips nothing -/
def Case.childSkip (c : Case) (r : Row) : Bool :=
  c.store == "child" && !((c.rows.getD []).any fun w => w.row.id == r.id && w.child == "1")

/-- the row as the queried store's symbols read it: the six typed fields, the fk `owner`, and — through
    a child store — the child's own `code` ("c" in the plain child bucket, "x" in the extended one) -/
def Case.rowOfW (c : Case) (w : WRow) : Row :=
  let owner : Stored := if w.owner.isEmpty then .nil else .string (asciiBytes w.owner)
  let code : Stored :=
    if c.store == "child" && w.child == "1" then .string (asciiBytes "c")
    else if c.store == "ext" && w.child == "2" then .string (asciiBytes "x")
    else .nil
  { w.row with fields := w.row.fields ++ [("owner", owner), ("code", code)] }

def Case.modelRows (c : Case) : List Row := (c.rows.getD []).map c.rowOfW

def Case.bolt (c : Case) : BoltStore :=
  { schema := schemaOf c.store, bucket := c.rows.map fun rs => rs.map c.rowOfW, childSkip := c.childSkip }

/-- **specification side**: the entities a provider token selects, read directly off the rows -/
def Case.inProv (c : Case) (p : ProvTok) (id : Bytes) : Bool :=
  match (c.rows.getD []).find? (fun w => w.row.id == id) with
  | none => false
  | some w =>
    match p with
    | .all vs => !vs.isEmpty && vs.all (fun v => w.roles.contains v)
    | .any vs => vs.any (fun v => w.roles.contains v)
    | .val v => w.roles.contains v
    | .rel o => w.owner == o
    | .nil => false

/-- the owners the harness creates -/
def ownerIds : List String := ["o1", "o2", "o3"]

/-- **model side**: the index tables as the stores keep them for these rows — the set index of
    `roles` (one bucket per value that occurs) and the back-reference list `things` of every owner -/
def Case.indexes (c : Case) : Indexes :=
  let ws := c.rows.getD []
  let values := (ws.flatMap (·.roles)).eraseDups
  { valuesOf := fun id => match ws.find? (fun w => w.row.id == id) with
      | some w => w.roles.map asciiBytes
      | none => []
    index := values.map fun v => (asciiBytes v, (ws.filter (·.roles.contains v)).map (·.row.id))
    related := ownerIds.map fun o => ((asciiBytes o, "things"), (ws.filter (·.owner == o)).map (·.row.id)) }

def ProvTok.provider : ProvTok → Provider
  | .all vs => iteratorMatchingAllOf (vs.map asciiBytes)
  | .any vs => iteratorMatchingAnyOf (vs.map asciiBytes)
  | .val v => .value (asciiBytes v)
  | .rel o => .related (asciiBytes o) "things"
  | .nil => .nilCursor

/-- the spec's reading of the skip / limit tokens: `limit none` is "no limit" -/
def specSkip (skip : Option NumTok) : Option Int := tokSkip skip
def specLimit (limit : Option LimitTok) : Option Int := tokLimit limit

end StorageModel.Query.Wire
