import StorageModel.C04.Model
/-
  C04 — invariants and the generic lemmas about one back-reference index.

  `SetExact f P as m`: the back-reference map `m` lists, under target `t`, exactly the entities of
  table `as` whose fk field `f` evaluates to `t` — except the *pending* entities `P` (an entity is
  pending between the moment `ProcessBeforeDelete` / the first half of `ProcessAfterUpdate` removed
  its back-reference and the moment its bucket is deleted / its new back-reference is written).
  With `P = ∅` this is the property's "back-reference set = exactly the referrers, both directions".
-/
namespace StorageModel.C04
open StorageModel

def SetExact (f : EntA → FV) (P : Bytes → Prop) (as : Map EntA) (m : Map (List Bytes)) : Prop :=
  ∀ t k, k ∈ (m.lookup t).getD [] ↔ ∃ e, as.lookup k = some e ∧ evalVal (f e) = t ∧ t ≠ [] ∧ ¬ P k

def Targets (f : EntA → FV) (as : Map EntA) (tgt : Bytes → Bool) : Prop :=
  ∀ k e, as.lookup k = some e → evalVal (f e) ≠ [] → tgt (evalVal (f e)) = true

def NonNull (f : EntA → FV) (as : Map EntA) : Prop :=
  ∀ k e, as.lookup k = some e → evalVal (f e) ≠ []

def none' : Bytes → Prop := fun _ => False
def plus (P : Bytes → Prop) (id : Bytes) : Bytes → Prop := fun k => P k ∨ k = id

/-- `DeleteListEntry` of `id` under its current fk value `o` makes `id` pending -/
theorem SetExact.del {f : EntA → FV} {P : Bytes → Prop} {as : Map EntA} {m : Map (List Bytes)} {id o : Bytes}
    (h : SetExact f P as m) (ho : ∀ e, as.lookup id = some e → evalVal (f e) = o) :
    SetExact f (plus P id) as (m.insert o (setDel id ((m.lookup o).getD []))) := by
  intro t k
  have ht := h t k
  simp only [Map.lookup_insert, plus]
  by_cases hto : t = o
  · subst hto
    simp only [if_true, Option.getD_some, mem_setDel]
    constructor
    · rintro ⟨hk, hm⟩
      obtain ⟨e, he, h1, h2, h3⟩ := ht.1 hm
      exact ⟨e, he, h1, h2, fun hc => hc.elim h3 hk⟩
    · rintro ⟨e, he, h1, h2, h3⟩
      exact ⟨fun hc => h3 (Or.inr hc), ht.2 ⟨e, he, h1, h2, fun hc => h3 (Or.inl hc)⟩⟩
  · simp only [hto, if_false]
    constructor
    · intro hm
      obtain ⟨e, he, h1, h2, h3⟩ := ht.1 hm
      refine ⟨e, he, h1, h2, fun hc => hc.elim h3 ?_⟩
      intro hk; subst hk
      exact hto ((ho e he).symm.trans h1).symm
    · rintro ⟨e, he, h1, h2, h3⟩
      exact ht.2 ⟨e, he, h1, h2, fun hc => h3 (Or.inl hc)⟩

/-- nothing to delete when the current fk value is null/empty -/
theorem SetExact.del_null {f : EntA → FV} {P : Bytes → Prop} {as : Map EntA} {m : Map (List Bytes)} {id : Bytes}
    (h : SetExact f P as m) (ho : ∀ e, as.lookup id = some e → evalVal (f e) = []) :
    SetExact f (plus P id) as m := by
  intro t k
  have ht := h t k
  simp only [plus]
  constructor
  · intro hm
    obtain ⟨e, he, h1, h2, h3⟩ := ht.1 hm
    refine ⟨e, he, h1, h2, fun hc => hc.elim h3 ?_⟩
    intro hk; subst hk
    exact h2 ((ho e he).symm.trans h1).symm
  · rintro ⟨e, he, h1, h2, h3⟩
    exact ht.2 ⟨e, he, h1, h2, fun hc => h3 (Or.inl hc)⟩

/-- the table entry of a pending entity may change freely -/
theorem SetExact.insert_pending {f : EntA → FV} {Q : Bytes → Prop} {as : Map EntA} {m : Map (List Bytes)} {id : Bytes}
    (h : SetExact f Q as m) (hq : Q id) (e' : EntA) : SetExact f Q (as.insert id e') m := by
  intro t k
  rw [h t k]
  simp only [Map.lookup_insert]
  by_cases hk : k = id
  · subst hk
    constructor
    · rintro ⟨e, _, _, _, h3⟩; exact absurd hq h3
    · rintro ⟨e, _, _, _, h3⟩; exact absurd hq h3
  · simp [hk]

theorem SetExact.erase_pending {f : EntA → FV} {Q : Bytes → Prop} {as : Map EntA} {m : Map (List Bytes)} {id : Bytes}
    (h : SetExact f Q as m) (hq : Q id) : SetExact f Q (as.erase id) m := by
  intro t k
  rw [h t k]
  simp only [Map.lookup_erase]
  by_cases hk : k = id
  · subst hk
    constructor
    · rintro ⟨e, _, _, _, h3⟩; exact absurd hq h3
    · rintro ⟨e, he, _⟩; simp at he
  · simp [hk]

/-- an absent entity need not be pending -/
theorem SetExact.unpend {f : EntA → FV} {P : Bytes → Prop} {as : Map EntA} {m : Map (List Bytes)} {id : Bytes}
    (h : SetExact f (plus P id) as m) (ha : as.lookup id = none) : SetExact f P as m := by
  intro t k
  rw [h t k]
  simp only [plus]
  constructor
  · rintro ⟨e, he, h1, h2, h3⟩; exact ⟨e, he, h1, h2, fun hc => h3 (Or.inl hc)⟩
  · rintro ⟨e, he, h1, h2, h3⟩
    refine ⟨e, he, h1, h2, fun hc => hc.elim h3 ?_⟩
    intro hk; subst hk; simp [ha] at he

/-- a fresh entity may be declared pending -/
theorem SetExact.pend_absent {f : EntA → FV} {P : Bytes → Prop} {as : Map EntA} {m : Map (List Bytes)} {id : Bytes}
    (h : SetExact f P as m) (ha : as.lookup id = none) : SetExact f (plus P id) as m := by
  intro t k
  rw [h t k]
  simp only [plus]
  constructor
  · rintro ⟨e, he, h1, h2, h3⟩
    refine ⟨e, he, h1, h2, fun hc => hc.elim h3 ?_⟩
    intro hk; subst hk; simp [ha] at he
  · rintro ⟨e, he, h1, h2, h3⟩; exact ⟨e, he, h1, h2, fun hc => h3 (Or.inl hc)⟩

/-- `SetListEntry` of the pending `id` under its new fk value `n` completes the index -/
theorem SetExact.add {f : EntA → FV} {as : Map EntA} {m : Map (List Bytes)} {id n : Bytes} {e : EntA}
    (h : SetExact f (plus none' id) as m) (he : as.lookup id = some e) (hn : evalVal (f e) = n) (hne : n ≠ []) :
    SetExact f none' as (m.insert n (setIns id ((m.lookup n).getD []))) := by
  intro t k
  have ht := h t k
  simp only [Map.lookup_insert, none', not_false_eq_true, and_true]
  simp only [plus, none', false_or] at ht
  by_cases htn : t = n
  · subst htn
    simp only [if_true, Option.getD_some, mem_setIns]
    constructor
    · rintro (hk | hm)
      · subst hk; exact ⟨e, he, hn, hne⟩
      · obtain ⟨e', he', h1, h2, _⟩ := ht.1 hm; exact ⟨e', he', h1, h2⟩
    · rintro ⟨e', he', h1, h2⟩
      by_cases hk : k = id
      · exact Or.inl hk
      · exact Or.inr (ht.2 ⟨e', he', h1, h2, hk⟩)
  · simp only [htn, if_false]
    constructor
    · intro hm; obtain ⟨e', he', h1, h2, _⟩ := ht.1 hm; exact ⟨e', he', h1, h2⟩
    · rintro ⟨e', he', h1, h2⟩
      refine ht.2 ⟨e', he', h1, h2, ?_⟩
      intro hk; subst hk
      rw [he] at he'; cases he'
      exact htn (h1.symm.trans hn)

/-- … and a null/empty new value needs no entry -/
theorem SetExact.add_null {f : EntA → FV} {as : Map EntA} {m : Map (List Bytes)} {id : Bytes}
    (h : SetExact f (plus none' id) as m) (hn : ∀ e, as.lookup id = some e → evalVal (f e) = []) :
    SetExact f none' as m := by
  intro t k
  rw [h t k]
  simp only [plus, none', false_or, not_false_eq_true, and_true]
  constructor
  · rintro ⟨e, he, h1, h2, _⟩; exact ⟨e, he, h1, h2⟩
  · rintro ⟨e, he, h1, h2⟩
    refine ⟨e, he, h1, h2, ?_⟩
    intro hk; subst hk
    exact h2 ((hn e he).symm.trans h1).symm

/-- an update that keeps the fk value keeps the index exact -/
theorem SetExact.same_value {f : EntA → FV} {P : Bytes → Prop} {as : Map EntA} {m : Map (List Bytes)} {id : Bytes}
    {cur e' : EntA} (h : SetExact f P as m) (hc : as.lookup id = some cur) (hv : evalVal (f cur) = evalVal (f e')) :
    SetExact f P (as.insert id e') m := by
  intro t k
  rw [h t k]
  simp only [Map.lookup_insert]
  by_cases hk : k = id
  · subst hk
    simp only [if_true]
    constructor
    · rintro ⟨e, he, h1, h2, h3⟩
      rw [hc] at he; cases he
      exact ⟨e', rfl, hv ▸ h1, h2, h3⟩
    · rintro ⟨e, he, h1, h2, h3⟩
      cases he
      exact ⟨cur, hc, hv ▸ h1, h2, h3⟩
  · simp [hk]

/-! ### the whole invariant -/

structure GInv (σ : Schema) (P : Bytes → Prop) (s : St) : Prop where
  things : SetExact (·.owner) P s.as s.things
  minions : SetExact (·.boss) P s.as s.minions
  ownerT : Targets (·.owner) s.as s.bs.contains
  /-- a pending entity may (transiently) refer to a boss that is already gone: its own bucket is
      about to be deleted by the `DeleteById` call that made it pending -/
  bossT : ∀ k e, s.as.lookup k = some e → ¬ P k → evalVal e.boss ≠ [] → s.as.contains (evalVal e.boss) = true
  depT : Targets (·.dep) s.as s.bs.contains
  bossNN : NonNull (·.boss) s.as
  depNN : σ.depNullable = false → NonNull (·.dep) s.as
  thingsK : ∀ t, s.things.lookup t ≠ none → s.bs.contains t = true
  minionsK : ∀ t, s.minions.lookup t ≠ none → s.as.contains t = true
  nonEmpty : s.as.lookup [] = none
  nonEmptyB : s.bs.lookup [] = none

/-- **the C04 invariant**: both back-reference indexes are exact, every stored reference names an
    existing target, null only where the field is nullable -/
abbrev Inv (σ : Schema) (s : St) : Prop := GInv σ none' s

theorem GInv.bossTargets {σ : Schema} {s : St} (h : GInv σ none' s) : Targets (·.boss) s.as s.as.contains :=
  fun k e he hne => h.bossT k e he (fun hp => hp) hne

/-! ### the fks declared by the child stores -/

/-- the part of the invariant that speaks about the fks DECLARED BY the child stores C (`.c1`) and C2 (`.c2`):
    the back-reference sets `mentees1` / `mentees2` are exact for the declared mentor indexes (with a pending set
    per index: an entity is pending for index `c` between `c`'s `ProcessBeforeDelete` and the removal of its
    bucket), declared mentor / guard values name existing B entities, set buckets only under existing B entities.
    `mentorOf` / `guardOf` are `none` for a child store that does not declare the fk, so the statements are
    uniform in the schema. -/
structure MInv (σ : Schema) (P : Child → Bytes → Prop) (s : St) : Prop where
  men : ∀ c, SetExact (mentorOf σ c) (P c) s.as (s.mentees c)
  menT : ∀ c, Targets (mentorOf σ c) s.as s.bs.contains
  guardT : ∀ c, Targets (guardOf σ c) s.as s.bs.contains
  menK : ∀ c t, (s.mentees c).lookup t ≠ none → s.bs.contains t = true

abbrev CInv (σ : Schema) (s : St) : Prop := MInv σ (fun _ => none') s

/-- **the whole C04 invariant**: A's fks (`Inv`) and the child-declared fks (`CInv`) -/
def FullInv (σ : Schema) (s : St) : Prop := Inv σ s ∧ CInv σ s

/-- `st` holds a sub-table of `s` -/
def Sub (st s : St) : Prop := ∀ k e, st.as.lookup k = some e → s.as.lookup k = some e

theorem Sub.refl (s : St) : Sub s s := fun _ _ h => h
theorem Sub.trans {a b c : St} (h1 : Sub a b) (h2 : Sub b c) : Sub a c := fun k e h => h2 k e (h1 k e h)

end StorageModel.C04
