import StorageModel.C04.Exact
import StorageModel.C04.Spec
/-
  C04 — the executable spec (`Spec.lean`, the run-time oracle of the check) is tied to the declarative
  statements of the property theorems:

    * `closure` (bounded fixpoint iteration) computes exactly "the seeds and everything that refers to
      them transitively" (`Reach`) — needs a counting argument for the bound;
    * whenever the model's operation succeeds from a state satisfying the invariant, the spec's
      operation succeeds on the entity tables and produces the same tables.
-/
namespace StorageModel.C04
open StorageModel

/-! ### `closure` = `Reach` -/

def bossIn (as : Map EntA) (d : List Bytes) (k : Bytes) : Bool :=
  match as.lookup k with
  | some e => (match e.boss with | some v => decide (v ∈ d) | none => false)
  | none => false

theorem grow_eq (as : Map EntA) (d : List Bytes) :
    grow as d = d ++ as.keys.filter (fun k => decide (k ∉ d) && bossIn as d k) := rfl

theorem mem_grow (as : Map EntA) (d : List Bytes) (k : Bytes) :
    k ∈ grow as d ↔ k ∈ d ∨ (k ∈ as.keys ∧ bossIn as d k = true) := by
  rw [grow_eq, List.mem_append, List.mem_filter]
  constructor
  · rintro (h | ⟨h1, h2⟩)
    · exact Or.inl h
    · simp only [Bool.and_eq_true, decide_eq_true_eq] at h2; exact Or.inr ⟨h1, h2.2⟩
  · rintro (h | ⟨h1, h2⟩)
    · exact Or.inl h
    · by_cases hk : k ∈ d
      · exact Or.inl hk
      · exact Or.inr ⟨h1, by simp [hk, h2]⟩

theorem bossIn_iff (as : Map EntA) (d : List Bytes) (k : Bytes) :
    bossIn as d k = true ↔ ∃ e y, as.lookup k = some e ∧ e.boss = some y ∧ y ∈ d := by
  unfold bossIn
  cases hl : as.lookup k with
  | none => simp
  | some e =>
    cases hb : e.boss with
    | none => simp [hb]
    | some v => simp [hb]

/-- `d` is closed under "refers to a member" -/
def Closed (as : Map EntA) (d : List Bytes) : Prop :=
  ∀ k e y, as.lookup k = some e → e.boss = some y → y ∈ d → k ∈ d

theorem mem_keys_of_lookup {V : Type} {m : Map V} {k : Bytes} {v : V} (h : m.lookup k = some v) : k ∈ m.keys :=
  (Map.mem_keys_iff m k).2 (by simp [h])

/-- number of table keys still outside `d` -/
def outside (as : Map EntA) (d : List Bytes) : Nat := (as.keys.filter (fun k => decide (k ∉ d))).length

theorem filter_length_lt {α : Type} (p q : α → Bool) (hpq : ∀ x, q x = true → p x = true) :
    ∀ (l : List α), (∃ x ∈ l, p x = true ∧ q x = false) → (l.filter q).length < (l.filter p).length := by
  intro l
  induction l with
  | nil => rintro ⟨x, hx, _⟩; cases hx
  | cons a t ih =>
    rintro ⟨x, hx, hp, hq⟩
    have hle : (t.filter q).length ≤ (t.filter p).length := by
      clear ih hx
      induction t with
      | nil => simp
      | cons b u ihu =>
        simp only [List.filter_cons]
        by_cases hqb : q b = true
        · simp [hqb, hpq b hqb]; exact ihu
        · by_cases hpb : p b = true
          · simp [hqb, hpb]; omega
          · simp [hqb, hpb]; exact ihu
    simp only [List.filter_cons]
    rcases List.mem_cons.1 hx with rfl | hxt
    · simp [hp, hq]; omega
    · have := ih ⟨x, hxt, hp, hq⟩
      by_cases hqa : q a = true
      · simp [hqa, hpq a hqa]; exact this
      · by_cases hpa : p a = true
        · simp [hqa, hpa]; omega
        · simp [hqa, hpa]; exact this

theorem grow_stable_closed (as : Map EntA) (d : List Bytes)
    (h : as.keys.filter (fun k => decide (k ∉ d) && bossIn as d k) = []) : Closed as d := by
  intro k e y he hb hy
  cases hk : decide (k ∈ d) with
  | true => exact of_decide_eq_true hk
  | false =>
    have hk' : k ∉ d := of_decide_eq_false hk
    have : k ∈ as.keys.filter (fun k => decide (k ∉ d) && bossIn as d k) := by
      rw [List.mem_filter]
      exact ⟨mem_keys_of_lookup he, by simp [hk', (bossIn_iff as d k).2 ⟨e, y, he, hb, hy⟩]⟩
    rw [h] at this; cases this

theorem growN_of_closed (as : Map EntA) : ∀ (n : Nat) (d : List Bytes), Closed as d → growN as n d = d := by
  intro n
  induction n with
  | zero => intro d _; rfl
  | succ n ih =>
    intro d hc
    have hnil : as.keys.filter (fun k => decide (k ∉ d) && bossIn as d k) = [] := by
      rw [List.filter_eq_nil_iff]
      intro k _ hk
      simp only [Bool.and_eq_true, decide_eq_true_eq] at hk
      obtain ⟨e, y, he, hb, hy⟩ := (bossIn_iff as d k).1 hk.2
      exact hk.1 (hc k e y he hb hy)
    have : grow as d = d := by rw [grow_eq, hnil, List.append_nil]
    simp only [growN, this]; exact ih d hc

/-- after as many rounds as there are keys outside, the set is closed (each round that changes
    anything captures at least one more key) -/
theorem growN_closed (as : Map EntA) : ∀ (n : Nat) (d : List Bytes), outside as d ≤ n → Closed as (growN as n d) := by
  intro n
  induction n with
  | zero =>
    intro d h
    simp only [growN]
    apply grow_stable_closed
    have h0 : as.keys.filter (fun k => decide (k ∉ d)) = [] := by
      apply List.eq_nil_of_length_eq_zero; unfold outside at h; omega
    rw [List.filter_eq_nil_iff] at h0 ⊢
    intro k hk hp
    simp only [Bool.and_eq_true] at hp
    exact h0 k hk hp.1
  | succ n ih =>
    intro d h
    simp only [growN]
    by_cases hnil : as.keys.filter (fun k => decide (k ∉ d) && bossIn as d k) = []
    · have hc := grow_stable_closed as d hnil
      have : grow as d = d := by rw [grow_eq, hnil, List.append_nil]
      rw [this, growN_of_closed as n d hc]; exact hc
    · apply ih
      obtain ⟨k, hk⟩ := List.exists_mem_of_ne_nil _ hnil
      rw [List.mem_filter] at hk
      simp only [Bool.and_eq_true, decide_eq_true_eq] at hk
      have hlt : outside as (grow as d) < outside as d := by
        unfold outside
        apply filter_length_lt
        · intro x hx
          simp only [decide_eq_true_eq] at hx ⊢
          exact fun hxd => hx ((mem_grow as d x).2 (Or.inl hxd))
        · refine ⟨k, hk.1, by simp [hk.2.1], ?_⟩
          simp only [decide_eq_false_iff_not]
          exact fun hn => hn ((mem_grow as d k).2 (Or.inr ⟨hk.1, hk.2.2⟩))
      omega

theorem subset_growN (as : Map EntA) : ∀ (n : Nat) (d : List Bytes) (k : Bytes), k ∈ d → k ∈ growN as n d := by
  intro n
  induction n with
  | zero => intro d k h; exact h
  | succ n ih => intro d k h; exact ih _ k ((mem_grow as d k).2 (Or.inl h))

theorem growN_sound (as : Map EntA) : ∀ (n : Nat) (d : List Bytes) (k : Bytes), k ∈ growN as n d →
    k ∈ d ∨ ∃ x ∈ d, Reach as x k := by
  intro n
  induction n with
  | zero => intro d k h; exact Or.inl h
  | succ n ih =>
    intro d k h
    rcases ih (grow as d) k h with h1 | ⟨x, hx, hr⟩
    · rcases (mem_grow as d k).1 h1 with h2 | ⟨_, h2⟩
      · exact Or.inl h2
      · obtain ⟨e, y, he, hb, hy⟩ := (bossIn_iff as d k).1 h2
        exact Or.inr ⟨y, hy, .direct he hb⟩
    · rcases (mem_grow as d x).1 hx with h2 | ⟨_, h2⟩
      · exact Or.inr ⟨x, h2, hr⟩
      · obtain ⟨e, y, he, hb, hy⟩ := (bossIn_iff as d x).1 h2
        exact Or.inr ⟨y, hy, Reach.under he hb hr⟩

theorem outside_le (as : Map EntA) (d : List Bytes) : outside as d ≤ as.length := by
  unfold outside
  have := List.length_filter_le (fun k => decide (k ∉ d)) as.keys
  simpa [Map.keys] using this

/-- **the spec's closure is exactly the seeds plus their transitive referrers** -/
theorem mem_closure (as : Map EntA) (seeds : List Bytes) (k : Bytes) :
    k ∈ closure as seeds ↔ k ∈ seeds ∨ ∃ x ∈ seeds, Reach as x k := by
  constructor
  · exact growN_sound as _ seeds k
  · have hcl : Closed as (closure as seeds) := growN_closed as _ seeds (outside_le as seeds)
    rintro (h | ⟨x, hx, hr⟩)
    · exact subset_growN as _ seeds k h
    · have hx' : x ∈ closure as seeds := subset_growN as _ seeds x hx
      induction hr with
      | direct he hb => exact hcl _ _ _ he hb hx'
      | step _ he hb ih => exact hcl _ _ _ he hb ih

theorem lookup_removeAll (as : Map EntA) (d : List Bytes) (k : Bytes) :
    (removeAll as d).lookup k = if k ∈ d then none else as.lookup k := by
  induction as with
  | nil => simp [removeAll, Map.lookup]
  | cons p t ih =>
    obtain ⟨a, b⟩ := p
    simp only [removeAll, List.filter_cons] at ih ⊢
    by_cases had : a ∈ d
    · simp only [had, not_true_eq_false, decide_false, Bool.false_eq_true, if_false]
      rw [ih]
      by_cases hk : k ∈ d
      · simp [hk]
      · have : ¬ a = k := fun h => hk (h ▸ had)
        simp [hk, Map.lookup, this]
    · simp only [had, not_false_eq_true, decide_true, if_true, Map.lookup]
      by_cases hak : a = k
      · subst hak; simp [had]
      · simp only [hak, if_false]; exact ih

/-! ### the spec agrees with the model whenever the model's operation succeeds -/

/-- the entity tables of a model state -/
def absSt (s : St) : SSt := { as := s.as, bs := s.bs }

def TEq {V : Type} (a b : Map V) : Prop := ∀ k, a.lookup k = b.lookup k

theorem specReferrers_nil_iff (as : Map EntA) (f : EntA → FV) (id : Bytes) :
    specReferrers as f id = [] ↔ ∀ k e, as.lookup k = some e → f e ≠ some id := by
  unfold specReferrers
  rw [List.filter_eq_nil_iff]
  constructor
  · intro h k e he hf
    have := h k (mem_keys_of_lookup he)
    simp only [he, referrerMatch, evalString, hf, beq_self_eq_true, not_true_eq_false] at this
  · intro h k _ hk
    cases hl : as.lookup k with
    | none => simp [hl] at hk
    | some e =>
      simp only [hl, referrerMatch, evalString] at hk
      cases hf : f e with
      | none => simp [hf] at hk
      | some v =>
        simp only [hf, beq_iff_eq] at hk
        exact h k e hl (hk ▸ hf)

theorem mem_specReferrers (as : Map EntA) (f : EntA → FV) (id x : Bytes) :
    x ∈ specReferrers as f id ↔ ∃ e, as.lookup x = some e ∧ f e = some id := by
  unfold specReferrers
  rw [List.mem_filter]
  constructor
  · rintro ⟨_, h⟩
    cases hl : as.lookup x with
    | none => simp [hl] at h
    | some e =>
      simp only [hl, referrerMatch, evalString] at h
      cases hf : f e with
      | none => simp [hf] at h
      | some v => simp only [hf, beq_iff_eq] at h; exact ⟨e, rfl, by rw [← h]; exact hf⟩
  · rintro ⟨e, he, hf⟩
    exact ⟨mem_keys_of_lookup he, by simp [he, referrerMatch, evalString, hf]⟩

theorem findSome_none {α β : Type} (f : α → Option β) (l : List α) (h : ∀ c, f c = none) : l.findSome? f = none := by
  induction l with
  | nil => rfl
  | cons a t ih => simp [List.findSome?, h a, ih]

/-- a written entity that satisfies the invariant passes every rule of the spec -/
theorem specCheck_none {σ : Schema} {s' : St} {id : Bytes} {e : EntA} (ic : Bool) (old : Olds)
    (hI' : Inv σ s') (he : s'.as.lookup id = some e) (c : CA) :
    specCheck σ ic old (absSt s') e c = none := by
  have ho : ∀ h : evalVal e.owner ≠ [], s'.bs.contains (evalVal e.owner) = true := hI'.ownerT id e he
  have hb1 : evalVal e.boss ≠ [] := hI'.bossNN id e he
  have hb2 : s'.as.contains (evalVal e.boss) = true := hI'.bossT id e he (fun hp => hp) hb1
  have hd : ∀ h : evalVal e.dep ≠ [], s'.bs.contains (evalVal e.dep) = true := hI'.depT id e he
  cases c with
  | ownerIdx =>
    simp only [specCheck, absSt]
    by_cases h1 : ¬ ic = true ∧ old.owner = evalVal e.owner
    · rw [if_pos h1]
    · rw [if_neg h1]
      by_cases h2 : evalVal e.owner = []
      · simp [h2]
      · simp [h2, ho h2]
  | bossIdx =>
    simp only [specCheck, absSt]
    by_cases h1 : ¬ ic = true ∧ old.boss = evalVal e.boss
    · rw [if_pos h1]
    · rw [if_neg h1]; simp [hb1, hb2]
  | bossCascade => rfl
  | depFk =>
    simp only [specCheck, absSt]
    by_cases h1 : ¬ ic = true ∧ old.dep = evalVal e.dep
    · rw [if_pos h1]
    · rw [if_neg h1]
      by_cases h2 : evalVal e.dep = []
      · have : σ.depNullable = true := by
          cases hn : σ.depNullable with
          | true => rfl
          | false => exact absurd h2 (hI'.depNN hn id e he)
        simp [h2, this]
      · simp [h2, hd h2]

theorem specWrite_ok {σ : Schema} {s s' : St} {id : Bytes} {e : EntA} (ic : Bool) (old : Olds)
    (hI' : Inv σ s') (has : s'.as = s.as.insert id e) (hbs : s'.bs = s.bs) :
    specWrite σ ic old (absSt s) id e = .ok (absSt s') := by
  have habs : ({ absSt s with as := (absSt s).as.insert id e } : SSt) = absSt s' := by
    simp only [absSt, has, hbs]
  unfold specWrite
  simp only [habs]
  have hlk : s'.as.lookup id = some e := by rw [has, Map.lookup_insert]; simp only [if_true]
  rw [findSome_none _ _ (specCheck_none ic old hI' hlk)]

/-- an entity that satisfies the child-declared part of the invariant passes the rules of the fks declared
    by child store `c` -/
theorem specCheckChild_none {σ : Schema} {s' : St} {id : Bytes} {e : EntA} (c : Child) (ic : Bool) (om og : Bytes)
    (hM' : CInv σ s') (he : s'.as.lookup id = some e) : specCheckChild σ c ic om og (absSt s') e = none := by
  have hm : evalVal (mentorOf σ c e) ≠ [] → s'.bs.contains (evalVal (mentorOf σ c e)) = true := hM'.menT c id e he
  have hg : evalVal (guardOf σ c e) ≠ [] → s'.bs.contains (evalVal (guardOf σ c e)) = true := hM'.guardT c id e he
  have h1 : ¬ (σ.idx c = true ∧ ¬ (¬ ic = true ∧ om = evalVal (mentorOf σ c e)) ∧ evalVal (mentorOf σ c e) ≠ [] ∧
      ¬ (absSt s').bs.contains (evalVal (mentorOf σ c e)) = true) := by
    rintro ⟨_, _, h3, h4⟩; exact h4 (hm h3)
  have h2 : ¬ (σ.fk c = true ∧ ¬ (¬ ic = true ∧ og = evalVal (guardOf σ c e)) ∧ evalVal (guardOf σ c e) ≠ [] ∧
      ¬ (absSt s').bs.contains (evalVal (guardOf σ c e)) = true) := by
    rintro ⟨_, _, h3, h4⟩; exact h4 (hg h3)
  unfold specCheckChild
  simp only
  rw [if_neg h1, if_neg h2]

theorem specWriteC_ok {σ : Schema} {s s' : St} {id : Bytes} {e : EntA} (c : Child) (ic : Bool) (old : Olds) (om og : Bytes)
    (hI' : Inv σ s') (hM' : CInv σ s') (has : s'.as = s.as.insert id e) (hbs : s'.bs = s.bs) :
    specWriteC σ c ic old om og (absSt s) id e = .ok (absSt s') := by
  unfold specWriteC
  rw [specWrite_ok ic old hI' has hbs]
  have hlk : s'.as.lookup id = some e := by rw [has, Map.lookup_insert]; simp only [if_true]
  simp only [specCheckChild_none c ic om og hM' hlk]

/-- the protected entity is outside what a successful delete of `id` removes -/
theorem not_protectedIn_of_ok {σ : Schema} {s s' : St} {id : Bytes} (hI : Inv σ s)
    (h : deleteA σ (fuelOf s) [] s id = .ok s') : σ.protectedIn (closure s.as [id]) = false := by
  unfold Schema.protectedIn
  cases hv : σ.protect with
  | none => rfl
  | some v =>
    simp only [decide_eq_false_iff_not]
    intro hm
    obtain ⟨_, _, hiff⟩ := deleteA_exact σ s s' id hI h
    obtain ⟨_, _, _, _, _, hne⟩ := deleteA_succ_ok (n := s.as.length) h
    rw [mem_closure] at hm
    rcases hm with hm | ⟨x, hx, hr⟩
    · simp only [List.mem_singleton] at hm; subst hm; exact hne hv
    · simp only [List.mem_singleton] at hx; subst hx
      obtain ⟨e, he⟩ := hr.exists_entry
      have := deleteA_keeps_protected σ hv _ _ _ _ _ h he
      rw [(hiff v).2 (Or.inr (Or.inr hr))] at this; cases this

theorem spec_agrees_deleteA {σ : Schema} {s s' : St} {id : Bytes} (hI : Inv σ s)
    (h : deleteA σ (fuelOf s) [] s id = .ok s') :
    ∃ ss', specDeleteA σ (absSt s) id = .ok ss' ∧ TEq ss'.as s'.as ∧ TEq ss'.bs s'.bs := by
  obtain ⟨hbs, hsub, hiff⟩ := deleteA_exact σ s s' id hI h
  have hc : s.as.contains id = true := (deleteA_succ_ok (n := s.as.length) h).1
  refine ⟨{ absSt s with as := removeAll s.as (closure s.as [id]) }, ?_, ?_, fun k => by simp [absSt, hbs]⟩
  · simp only [specDeleteA, absSt, hc, if_true, not_protectedIn_of_ok hI h, Bool.false_eq_true, if_false]
  · intro k
    simp only [lookup_removeAll]
    have hmc : k ∈ closure s.as [id] ↔ (k = id ∨ Reach s.as id k) := by
      rw [mem_closure]; simp
    by_cases hk : k = id ∨ Reach s.as id k
    · rw [if_pos (hmc.2 hk)]; exact ((hiff k).2 (Or.inr hk)).symm
    · rw [if_neg (fun h => hk (hmc.1 h))]
      cases hs : s.as.lookup k with
      | none => exact ((hiff k).2 (Or.inl hs)).symm
      | some e =>
        cases hs' : s'.as.lookup k with
        | none =>
          rcases (hiff k).1 hs' with h1 | h1
          · rw [hs] at h1; cases h1
          · exact absurd h1 hk
        | some e' => have := hsub k e' hs'; rw [hs] at this; exact this

theorem spec_agrees_deleteB {σ : Schema} {s s' : St} {b : Bytes} (hF : FullInv σ s)
    (h : deleteB σ s b = .ok s') :
    ∃ ss', specDeleteBTop σ (absSt s) b = .ok ss' ∧ TEq ss'.as s'.as ∧ TEq ss'.bs s'.bs := by
  have hI : Inv σ s := hF.1
  have hF' : FullInv σ s' := apply_full (.deleteB b) hF h
  obtain ⟨hbs, hsub, hiff⟩ := deleteB_exact σ s s' b hI h
  obtain ⟨hb, _⟩ := deleteB_succ_ok hI h
  have hbne : b ≠ [] := by
    intro hb0; subst hb0
    obtain ⟨v, hv⟩ := (Map.contains_iff _ _).1 hb
    rw [hI.nonEmptyB] at hv; cases hv
  have hstep : step σ s (.deleteB b) = (s', none) := by simp only [step, apply, h]
  -- no dep referrer unless the schema cascades
  have hnodep : σ.depCascade = false → specReferrers s.as (·.dep) b = [] := by
    intro hc
    rw [specReferrers_nil_iff]
    intro k e he hf
    have hord : ¬ (σ.depFirst = true ∧ σ.depCascade = true) := by rw [hc]; simp
    have := deleteB_refuses σ s b hI hb (Or.inr ⟨hc, k, e, he, hf⟩) hord
    rw [hstep] at this; cases this
  -- no owner referrer survives; none at all when the restrict check runs first
  have hnoown' : specReferrers s'.as (·.owner) b = [] := by
    rw [specReferrers_nil_iff]
    intro k e he hf
    have hv : evalVal e.owner = b := by simp [evalVal, hf]
    exact (deleteB_no_orphans σ s s' b hI h k e he).1 (hv ▸ hbne) hv
  have hnoown : σ.depFirst = false → specReferrers s.as (·.owner) b = [] := by
    intro hdf
    rw [specReferrers_nil_iff]
    intro k e he hf
    have hord : ¬ (σ.depFirst = true ∧ σ.depCascade = true) := by rw [hdf]; simp
    have hv : evalVal e.owner = b := by simp [evalVal, hf]
    have := deleteB_refuses σ s b hI hb (Or.inl ⟨k, e, he, hv, hbne⟩) hord
    rw [hstep] at this; cases this
  -- the table after the dep step of the spec
  let T1 : Map EntA := if σ.depCascade then removeAll s.as (closure s.as (specReferrers s.as (·.dep) b)) else s.as
  have hT1 : TEq T1 s'.as := by
    intro k
    have hremoved : RemovedVia (·.dep) s.as b k ↔ k ∈ closure s.as (specReferrers s.as (·.dep) b) := by
      rw [mem_closure]
      constructor
      · rintro ⟨x, ex, hx, hfx, hk | hk⟩
        · exact Or.inl (hk ▸ (mem_specReferrers _ _ _ _).2 ⟨ex, hx, hfx⟩)
        · exact Or.inr ⟨x, (mem_specReferrers _ _ _ _).2 ⟨ex, hx, hfx⟩, hk⟩
      · rintro (hk | ⟨x, hx, hk⟩)
        · obtain ⟨ex, hx', hfx⟩ := (mem_specReferrers _ _ _ _).1 hk
          exact ⟨k, ex, hx', hfx, Or.inl rfl⟩
        · obtain ⟨ex, hx', hfx⟩ := (mem_specReferrers _ _ _ _).1 hx
          exact ⟨x, ex, hx', hfx, Or.inr hk⟩
    have hkeep : ¬ RemovedVia (·.dep) s.as b k → s.as.lookup k = s'.as.lookup k := by
      intro hnr
      cases hs : s.as.lookup k with
      | none => exact ((hiff k).2 (Or.inl hs)).symm
      | some e =>
        cases hs' : s'.as.lookup k with
        | none =>
          rcases (hiff k).1 hs' with h1 | h1
          · rw [hs] at h1; cases h1
          · exact absurd h1 hnr
        | some e' => have := hsub k e' hs'; rw [hs] at this; exact this
    cases hcas : σ.depCascade
    case true =>
      simp only [T1, hcas, if_true, lookup_removeAll]
      by_cases hk : k ∈ closure s.as (specReferrers s.as (·.dep) b)
      · rw [if_pos hk]; exact ((hiff k).2 (Or.inr (hremoved.2 hk))).symm
      · rw [if_neg hk]; exact hkeep (fun h => hk (hremoved.1 h))
    case false =>
      simp only [T1, hcas, Bool.false_eq_true, if_false]
      refine hkeep ?_
      rintro ⟨x, ex, hx, hfx, _⟩
      exact ((specReferrers_nil_iff _ _ _).1 (hnodep hcas)) x ex hx hfx
  have hownT1 : specReferrers T1 (·.owner) b = [] := by
    rw [specReferrers_nil_iff]
    intro k e he
    rw [hT1 k] at he
    exact (specReferrers_nil_iff _ _ _).1 hnoown' k e he
  -- the protected entity is outside what the cascade removed
  have hnotprot : σ.protectedIn (closure s.as (specReferrers s.as (·.dep) b)) = false := by
    unfold Schema.protectedIn
    cases hv : σ.protect with
    | none => rfl
    | some v =>
      simp only [decide_eq_false_iff_not]
      intro hm
      rw [mem_closure] at hm
      have hrem : RemovedVia (·.dep) s.as b v ∧ ∃ e, s.as.lookup v = some e := by
        rcases hm with hk | ⟨x, hx, hk⟩
        · obtain ⟨ex, hx', hfx⟩ := (mem_specReferrers _ _ _ _).1 hk
          exact ⟨⟨v, ex, hx', hfx, Or.inl rfl⟩, ex, hx'⟩
        · obtain ⟨ex, hx', hfx⟩ := (mem_specReferrers _ _ _ _).1 hx
          exact ⟨⟨x, ex, hx', hfx, Or.inr hk⟩, hk.exists_entry⟩
      obtain ⟨hr, e, he⟩ := hrem
      have := deleteB_keeps_protected hv hI h he
      rw [(hiff v).2 (Or.inr hr)] at this; cases this
  have hdepstep : ∀ ss : SSt, ss.as = s.as → specDeleteB σ b ss .depCascade = .ok { ss with as := T1 } := by
    intro ss hss
    simp only [specDeleteB, hss]
    cases hcas : σ.depCascade
    case true => simp only [T1, hcas, if_true, hnotprot, Bool.false_eq_true, if_false]
    case false =>
      simp only [T1, hcas, Bool.false_eq_true, if_false, hnodep hcas, ne_eq, not_true_eq_false]
      cases ss; simp_all
  have hownstep : ∀ ss : SSt, specReferrers ss.as (·.owner) b = [] → specDeleteB σ b ss .thingsRestrict = .ok ss := by
    intro ss hss
    simp only [specDeleteB, hss, ne_eq, not_true_eq_false, if_false]
  have okb : ∀ (a : SSt) (f : SSt → SRes), (Except.ok a >>= f) = f a := fun _ _ => rfl
  -- after the delete `b` is gone, so (targets exist) nothing refers to it through a child-declared fk
  have hbgone : s'.bs.contains b = false := by
    cases hc : s'.bs.contains b with
    | false => rfl
    | true =>
      obtain ⟨v, hv⟩ := (Map.contains_iff _ _).1 hc
      rw [hbs] at hv; simp at hv
  have hnochild : (specChildRestrict σ T1 b .c1 || specChildRestrict σ T1 b .c2) = false := by
    have key : ∀ c, specChildRestrict σ T1 b c = false := by
      intro c
      have h1 : specReferrers T1 (mentorOf σ c) b = [] := by
        rw [specReferrers_nil_iff]
        intro k e he hf
        rw [hT1 k] at he
        have := hF'.2.menT c k e he (by simp [evalVal, hf, hbne])
        simp only [evalVal, hf, Option.getD_some] at this
        rw [hbgone] at this; cases this
      have h2 : specReferrers T1 (guardOf σ c) b = [] := by
        rw [specReferrers_nil_iff]
        intro k e he hf
        rw [hT1 k] at he
        have := hF'.2.guardT c k e he (by simp [evalVal, hf, hbne])
        simp only [evalVal, hf, Option.getD_some] at this
        rw [hbgone] at this; cases this
      simp [specChildRestrict, h1, h2]
    simp [key]
  refine ⟨{ as := T1, bs := s.bs.erase b }, ?_, hT1, fun k => by simp [hbs]⟩
  unfold specDeleteBTop
  have hcb : (absSt s).bs.contains b = true := hb
  rw [if_pos hcb]
  unfold orderB
  cases hdf : σ.depFirst
  case true =>
    simp only [if_true, List.foldlM_cons, List.foldlM_nil]
    rw [hdepstep (absSt s) rfl, okb, hownstep _ hownT1, okb]
    simp only [pure, Except.pure, bind, Except.bind, hnochild, Bool.false_eq_true, if_false, absSt]
  case false =>
    simp only [Bool.false_eq_true, if_false, List.foldlM_cons, List.foldlM_nil]
    rw [hownstep (absSt s) (hnoown hdf), okb, hdepstep (absSt s) rfl, okb]
    simp only [pure, Except.pure, bind, Except.bind, hnochild, Bool.false_eq_true, if_false, absSt]


/-- **refinement on success**: from a state satisfying the invariant, whenever the model's operation
    succeeds the spec's operation succeeds too and yields the same entity tables (same `lookup`s) -/
theorem spec_agrees_on_success {σ : Schema} {s s' : St} (op : Op) (hF : FullInv σ s) (h : apply σ s op = .ok s') :
    ∃ ss', specApply σ (absSt s) op = .ok ss' ∧ TEq ss'.as s'.as ∧ TEq ss'.bs s'.bs := by
  have hI : Inv σ s := hF.1
  have hF' : FullInv σ s' := apply_full op hF h
  cases op with
  | createB id =>
    simp only [apply, createB] at h
    split at h
    · cases h
    · next hid =>
      split at h
      · cases h
      · next hc =>
        cases h
        refine ⟨{ absSt s with bs := s.bs.insert id () }, ?_, fun _ => rfl, fun _ => rfl⟩
        simp [specApply, absSt, hid, hc]
  | createA id e =>
    obtain ⟨hI', has, hbs, _⟩ := createA_inv hI h
    simp only [apply, createA] at h
    split at h
    · cases h
    · next hid =>
      split at h
      · cases h
      · next hc =>
        refine ⟨absSt s', ?_, fun _ => rfl, fun _ => rfl⟩
        simp only [specApply]
        have : ¬ (id = [] ∨ (absSt s).as.contains id = true) := by
          rintro (h1 | h1)
          · exact hid h1
          · exact hc h1
        rw [if_neg this]
        exact specWrite_ok true {} hI' has hbs
  | updateA id e mo mb md =>
    obtain ⟨hI', hbs, cur, hcur, has, _⟩ := updateA_inv hI h
    simp only [apply, updateA] at h
    split at h
    · cases h
    · next hid =>
      refine ⟨absSt s', ?_, fun _ => rfl, fun _ => rfl⟩
      simp only [specApply, if_neg hid]
      have : (absSt s).as.lookup id = some cur := hcur
      rw [this]
      exact specWrite_ok false _ hI' has hbs
  | deleteA id => exact spec_agrees_deleteA hI h
  | deleteC id => exact spec_agrees_deleteA (id := id) hI h
  | createC c id e x =>
    obtain ⟨hI', has, hbs, hid, hnoext, _⟩ := createC_inv hI h
    refine ⟨absSt s', ?_, fun _ => rfl, fun _ => rfl⟩
    simp only [specApply, if_neg hid]
    cases hl : s.as.lookup id with
    | none =>
      have : (absSt s).as.lookup id = none := hl
      rw [this]
      simp only [createdEnt, hl] at has
      exact specWriteC_ok c true {} [] [] hI' hF'.2 has hbs
    | some cur =>
      have : (absSt s).as.lookup id = some cur := hl
      rw [this]
      simp only [hnoext cur hl, Option.isSome_none, Bool.false_eq_true, if_false]
      simp only [createdEnt, hl] at has
      exact specWriteC_ok c true {} [] [] hI' hF'.2 has hbs
  | updateC c id e x mo mb md mt mm mg =>
    obtain ⟨hI', hbs, hid, cur, cx, hcur, hx, has, _⟩ := updateC_inv hI h
    refine ⟨absSt s', ?_, fun _ => rfl, fun _ => rfl⟩
    simp only [specApply, if_neg hid]
    have : (absSt s).as.lookup id = some cur := hcur
    rw [this]
    simp only [hx]
    exact specWriteC_ok c false _ _ _ hI' hF'.2 has hbs
  | deleteB b => exact spec_agrees_deleteB hF h
  | deleteAV id v =>
    exact spec_agrees_deleteA (σ := σ.withProtect v) (hI.of_schema rfl) h
  | deleteBV id v =>
    exact spec_agrees_deleteB (σ := σ.withProtect v) ⟨hI.of_schema rfl, (MInv.withProtect v).2 hF.2⟩ h

end StorageModel.C04
