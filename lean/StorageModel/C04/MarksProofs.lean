import StorageModel.C04.Marks
import StorageModel.C04.Proofs
/-
  C04 — the in-progress map of the mutate context is balanced: every operation, successful or failed, leaves
  it exactly as it found it; therefore the state-passing model (`Marks.lean`) computes what `Model.lean`
  computes, on a fresh context and on a context that has been through any number of earlier operations and
  transactions.
-/
namespace StorageModel.C04
open StorageModel

theorem filter_ne_self (l : List Bytes) (id : Bytes) (h : id ∉ l) : l.filter (fun k => decide (k ≠ id)) = l := by
  rw [List.filter_eq_self]
  intro k hk
  simp only [ne_eq, decide_eq_true_eq]
  intro hki; exact h (hki ▸ hk)

theorem foldlM_error {α : Type} (f : St → α → Res) (e : Err) (l : List α) :
    l.foldlM (fun st a => f st a) (m := Except Err) = fun s => l.foldlM f s := rfl

theorem foldlM_cons_ok {α : Type} (f : St → α → Res) (a : α) (l : List α) (s s' : St) (h : f s a = .ok s') :
    (a :: l).foldlM f s = l.foldlM f s' := by
  simp only [List.foldlM_cons, h]; rfl

theorem foldlM_cons_err {α : Type} (f : St → α → Res) (a : α) (l : List α) (s : St) (e : Err) (h : f s a = .error e) :
    (a :: l).foldlM f s = .error e := by
  simp only [List.foldlM_cons, h]; rfl

/-- the loop, given that the delete function it calls is balanced and agrees with its reader-style counterpart -/
theorem cascadeOverM_eq {del : Ctx → St → Bytes → ResM} {delR : List Bytes → St → Bytes → Res} {f : EntA → FV} {id : Bytes}
    (hdel : ∀ m st x, del m st x = (delR m.a st x, m)) :
    ∀ (cands : List Bytes) (s : St) (m : Ctx),
      cascadeOverM del f id cands s m = (cascadeOver (delR m.a) f id m.a cands s, m) := by
  intro cands
  induction cands with
  | nil => intro s m; rfl
  | cons x rest ih =>
    intro s m
    unfold cascadeOverM cascadeOver
    by_cases hx : x ∈ m.a
    · rw [if_pos hx, ih s m]
      rw [foldlM_cons_ok _ x rest s s (by simp [hx])]
      rfl
    · rw [if_neg hx]
      by_cases hr : isReferrer s f id x = true
      · rw [if_pos hr, hdel m s x]
        cases hd : delR m.a s x with
        | ok s' =>
          simp only
          rw [ih s' m, foldlM_cons_ok _ x rest s s' (by simp [hx, hr, hd])]
          rfl
        | error e =>
          simp only
          rw [foldlM_cons_err _ x rest s e (by simp [hx, hr, hd])]
      · rw [if_neg hr, ih s m, foldlM_cons_ok _ x rest s s (by simp [hx, hr])]
        rfl

theorem Ctx.eta_a (m : Ctx) : ({ m with a := m.a } : Ctx) = m := by cases m; rfl
theorem Ctx.eta_b (m : Ctx) : ({ m with b := m.b } : Ctx) = m := by cases m; rfl

theorem beforeDeleteAM_eq {del : Ctx → St → Bytes → ResM} {delR : List Bytes → St → Bytes → Res}
    (hdel : ∀ m st x, del m st x = (delR m.a st x, m)) (id : Bytes) (s : St) (m : Ctx) (c : CA) :
    beforeDeleteAM del id s m c = (beforeDeleteA delR m.a id s c, m) := by
  cases c with
  | ownerIdx => rfl
  | bossIdx => rfl
  | depFk => rfl
  | bossCascade =>
    simp only [beforeDeleteAM, beforeDeleteA]
    by_cases hn : id ∈ m.a
    · have hmark : mark m.a id = m.a := by simp [mark, hn]
      simp only [hn, decide_true, if_true]
      rw [cascadeOverM_eq hdel, hmark]
    · have hmark : mark m.a id = id :: m.a := by simp [mark, hn]
      simp only [hn, decide_false, Bool.false_eq_true, if_false]
      rw [cascadeOverM_eq hdel, hmark]
      simp only
      have : (id :: m.a).filter (fun k => decide (k ≠ id)) = m.a := by
        simp only [List.filter_cons, ne_eq, not_true_eq_false, decide_false, Bool.false_eq_true, if_false]
        exact filter_ne_self m.a id hn
      rw [this]

theorem passAM_eq {σ : Schema} {del : Ctx → St → Bytes → ResM} {delR : List Bytes → St → Bytes → Res}
    (hdel : ∀ m st x, del m st x = (delR m.a st x, m)) (id : Bytes) :
    ∀ (l : List CA) (s : St) (m : Ctx), passAM σ del id l s m = (l.foldlM (beforeDeleteA delR m.a id) s, m) := by
  intro l
  induction l with
  | nil => intro s m; rfl
  | cons c rest ih =>
    intro s m
    unfold passAM
    rw [beforeDeleteAM_eq hdel]
    cases hb : beforeDeleteA delR m.a id s c with
    | ok s' => simp only; rw [ih s' m, foldlM_cons_ok _ c rest s s' hb]
    | error e => simp only; rw [foldlM_cons_err _ c rest s e hb]

theorem roundsAM_eq {σ : Schema} {del : Ctx → St → Bytes → ResM} {delR : List Bytes → St → Bytes → Res}
    (hdel : ∀ m st x, del m st x = (delR m.a st x, m)) (id : Bytes) :
    ∀ (l : List (Option Child)) (s : St) (m : Ctx),
      roundsAM σ del id l s m = (l.foldlM (roundA σ delR m.a id) s, m) := by
  intro l
  induction l with
  | nil => intro s m; rfl
  | cons r rest ih =>
    intro s m
    unfold roundsAM
    rw [passAM_eq hdel]
    cases hp : (orderA σ).foldlM (beforeDeleteA delR m.a id) s with
    | ok s1 =>
      simp only
      rw [ih _ m, foldlM_cons_ok _ r rest s (afterRound σ id s1 r) (by unfold roundA passA; rw [hp])]
    | error e =>
      simp only
      rw [foldlM_cons_err _ r rest s e (by unfold roundA passA; rw [hp])]

/-- **`DeleteById` on A is balanced and is the reader-style model**: whatever the in-progress map `m` of the
    context is when the call starts, it is `m` again when the call returns — successfully or with any error —
    and the result is what `Model.deleteA` computes with `m` passed down as a parameter -/
theorem deleteAM_eq (σ : Schema) : ∀ (n : Nat) (m : Ctx) (s : St) (id : Bytes),
    deleteAM σ n m s id = (deleteA σ n m.a s id, m) := by
  intro n
  induction n with
  | zero => intro m s id; rfl
  | succ n ih =>
    intro m s id
    unfold deleteAM deleteA
    by_cases hc : s.as.contains id = true
    · simp only [hc, if_true]
      rw [roundsAM_eq (delR := deleteA σ n) ih]
      cases hr : (roundsOf σ s id).foldlM (roundA σ (deleteA σ n) m.a id) s with
      | ok s1 =>
        simp only
        by_cases hc1 : s1.as.contains id = true
        · simp only [hc1, if_true]
          by_cases hv : σ.protect = some id
          · simp only [hv, if_true]
          · simp only [hv, if_false]
        · simp only [hc1, Bool.false_eq_true, if_false]
      | error e => simp only
    · simp only [hc, Bool.false_eq_true, if_false]

/-! ### B: reader-style with the A-part of the map as a parameter (`Model.deleteB` is the case `prog = []`) -/

def beforeDeleteBR (σ : Schema) (n : Nat) (prog : List Bytes) (id : Bytes) (s : St) (c : CB) : Res :=
  match c with
  | .thingsRestrict => if (s.things.lookup id).getD [] ≠ [] then .error .refExists else .ok s
  | .depCascade =>
    let refs := referrers s (·.dep) id
    if σ.depCascade then cascadeOver (deleteA σ n prog) (·.dep) id prog refs s
    else if refs ≠ [] then .error .refExists else .ok s

def deleteBR (σ : Schema) (prog : List Bytes) (s : St) (id : Bytes) : Res :=
  if s.bs.contains id then
    match (orderB σ).foldlM (beforeDeleteBR σ (fuelOf s) prog id) s with
    | .ok s1 =>
      if childRestrict σ s1 id .c1 || childRestrict σ s1 id .c2 then .error .refExists
      else if s1.bs.contains id then
        .ok { s1 with bs := s1.bs.erase id, things := s1.things.erase id,
                      mentees1 := s1.mentees1.erase id, mentees2 := s1.mentees2.erase id }
      else .error .other
    | .error e => .error e
  else .error .notFound

theorem deleteBR_nil (σ : Schema) (s : St) (id : Bytes) : deleteBR σ [] s id = deleteB σ s id := rfl

theorem beforeDeleteBM_eq (σ : Schema) (n : Nat) (id : Bytes) (s : St) (m : Ctx) (c : CB) :
    beforeDeleteBM σ n id s m c = (beforeDeleteBR σ n m.a id s c, m) := by
  cases c with
  | thingsRestrict => rfl
  | depCascade =>
    simp only [beforeDeleteBM, beforeDeleteBR]
    by_cases hcas : σ.depCascade = true
    · simp only [hcas, if_true]
      by_cases hn : id ∈ m.b
      · simp only [hn, decide_true, if_true]
        rw [cascadeOverM_eq (delR := deleteA σ n) (deleteAM_eq σ n)]
      · simp only [hn, decide_false, Bool.false_eq_true, if_false]
        rw [cascadeOverM_eq (delR := deleteA σ n) (deleteAM_eq σ n)]
        simp only
        have : (id :: m.b).filter (fun k => decide (k ≠ id)) = m.b := by
          simp only [List.filter_cons, ne_eq, not_true_eq_false, decide_false, Bool.false_eq_true, if_false]
          exact filter_ne_self m.b id hn
        rw [this]
    · simp only [hcas, Bool.false_eq_true, if_false, beforeDeleteB]

theorem passBM_eq (σ : Schema) (n : Nat) (id : Bytes) :
    ∀ (l : List CB) (s : St) (m : Ctx), passBM σ n id l s m = (l.foldlM (beforeDeleteBR σ n m.a id) s, m) := by
  intro l
  induction l with
  | nil => intro s m; rfl
  | cons c rest ih =>
    intro s m
    unfold passBM
    rw [beforeDeleteBM_eq]
    cases hb : beforeDeleteBR σ n m.a id s c with
    | ok s' => simp only; rw [ih s' m, foldlM_cons_ok _ c rest s s' hb]
    | error e => simp only; rw [foldlM_cons_err _ c rest s e hb]

theorem deleteBM_eq (σ : Schema) (m : Ctx) (s : St) (id : Bytes) : deleteBM σ m s id = (deleteBR σ m.a s id, m) := by
  unfold deleteBM deleteBR
  by_cases hc : s.bs.contains id = true
  · simp only [hc, if_true]
    rw [passBM_eq]
    cases hr : (orderB σ).foldlM (beforeDeleteBR σ (fuelOf s) m.a id) s with
    | ok s1 =>
      simp only
      by_cases h1 : (childRestrict σ s1 id .c1 || childRestrict σ s1 id .c2) = true
      · simp only [h1, if_true]
      · simp only [h1, Bool.false_eq_true, if_false]
        by_cases h2 : s1.bs.contains id = true
        · simp only [h2, if_true]
        · simp only [h2, Bool.false_eq_true, if_false]
    | error e => simp only
  · simp only [hc, Bool.false_eq_true, if_false]

/-! ### operations, transactions, histories -/

/-- **`cascade_marks_balanced`**: after ANY operation — successful or failed, whatever the state and whatever the
    context's in-progress map was — the map is what it was before -/
theorem applyM_balanced (σ : Schema) (m : Ctx) (s : St) (op : Op) : (applyM σ m s op).2 = m := by
  cases op <;> simp only [applyM, deleteAM_eq, deleteBM_eq]

/-- on a context whose map holds no A entry (in particular a fresh or a balanced one) the state-passing model
    is `Model.apply` -/
theorem applyM_apply (σ : Schema) (m : Ctx) (s : St) (op : Op) (hm : m.a = []) : (applyM σ m s op).1 = apply σ s op := by
  cases op <;> simp only [applyM, deleteAM_eq, deleteBM_eq, hm, apply, deleteBR_nil]

theorem runTxMFrom_eq (σ : Schema) (s0 : St) : ∀ (ops : List Op) (i : Nat) (m : Ctx) (s : St), m.a = [] →
    runTxMFrom σ s0 i m s ops = (runTxFrom σ s0 i s ops, m) := by
  intro ops
  induction ops with
  | nil => intro i m s _; rfl
  | cons op rest ih =>
    intro i m s hm
    unfold runTxMFrom runTxFrom
    have h1 := applyM_apply σ m s op hm
    have h2 := applyM_balanced σ m s op
    cases hr : applyM σ m s op with
    | mk r m' =>
      rw [hr] at h1 h2
      simp only at h1 h2
      subst h2
      rw [← h1]
      cases r with
      | ok s' => simp only; exact ih (i + 1) m' s' hm
      | error e => rfl

/-- **a reused context changes nothing**: a history run with one `MutateContext` for all its transactions — failed
    operations and rolled-back transactions included — reaches the state of the same history run with a fresh
    context per transaction (`Model.runHistory`), and the context's in-progress map is empty at the end -/
theorem runHistoryM_eq (σ : Schema) (reuse : Bool) (txs : List (List Op)) :
    runHistoryM σ reuse txs = (runHistory σ txs, {}) := by
  unfold runHistoryM runHistory
  suffices h : ∀ (acc : St) , txs.foldl (fun (acc : St × Ctx) tx =>
      let r := runTxM σ (if reuse then acc.2 else {}) acc.1 tx
      (r.1.1, r.2)) (acc, ({} : Ctx)) = (txs.foldl (fun s tx => (runTx σ s tx).1) acc, {}) from h {}
  induction txs with
  | nil => intro acc; rfl
  | cons tx rest ih =>
    intro acc
    simp only [List.foldl_cons]
    have hm : (if reuse then ({} : Ctx) else {}) = {} := by cases reuse <;> rfl
    have := runTxMFrom_eq σ acc tx 0 {} acc rfl
    simp only [runTxM, hm, this, runTx]
    exact ih _

end StorageModel.C04
