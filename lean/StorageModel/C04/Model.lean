import StorageModel.C04.Map
/-
  C04 — executable model of the foreign-key machinery of boltz, following the Go code branch by
  branch (boltz/indexes.go: fkIndex, fkConstraint, fkDeleteConstraint, fkDeleteCascadeConstraint,
  fkReferrerFilter; boltz/store_crud.go: Create, Update, DeleteById, processDeleteConstraints).

  Two stores, wired as in /verif/harness/c04.go:

    A ("things")  owner : *string  AddNullableFkIndex      -> B.things   (back-reference set on B)
                  boss  : string   AddFkIndexCascadeDelete -> A.minions  (self reference, cascades)
                  dep   : *string  AddFkConstraint(nullable?, CascadeNone | CascadeDelete) -> B
    B ("owners")  no fields
    C             plain child store of A (its data lives in `<A entity bucket>/ext1`): tag : *string,
                  no constraints of its own.  Every operation through C runs A's constraints through the
                  parent `IndexingContext`; `DeleteById` on an entity with child data runs A's
                  `ProcessBeforeDelete` constraints twice (`passA`).

  State = the two entity tables (child data is part of the A entry: `EntA.ext`, it goes with the entity
  bucket) + the two back-reference maps (key present ⇔ the set bucket
  exists under the target's entity bucket; `GetOrCreatePath` creates it on first use and it stays,
  possibly empty).  A failed operation leaves the state unchanged (bbolt rollback — assumed).
-/
namespace StorageModel.C04
open StorageModel

/-- a stored typed field value: `none` = `[TypeNil]`, `some v` = `[TypeString] ++ v` -/
abbrev FV := Option Bytes

/-- the value part of `symbol.Eval` (`GetTypeAndValue`): nil for TypeNil *and* for an empty
    payload; the Go code only ever tests `len(v) > 0` and `bytes.Equal`, for which nil = empty -/
def evalVal (v : FV) : Bytes := v.getD []

/-- `rowCursor.EvalString` (`FieldToString`): nil pointer for TypeNil, otherwise the payload
    (an empty payload gives a pointer to "") -/
def evalString (v : FV) : Option Bytes := v

structure EntA where
  owner : FV
  boss : FV
  dep : FV
  /-- child-store data: `none` = no bucket `ext1` under the entity bucket, `some t` = the bucket exists
      and holds `tag = t` -/
  ext : Option FV := none
deriving DecidableEq, Repr

structure St where
  as : Map EntA := []
  bs : Map Unit := []
  /-- B id ↦ keys of the bucket `<b>/things` -/
  things : Map (List Bytes) := []
  /-- A id ↦ keys of the bucket `<a>/minions` -/
  minions : Map (List Bytes) := []

inductive Err
  | notFound | refExists | nullNotAllowed | other
  /-- the DeleteById recursion does not come back (fuel exhausted, see `deleteA`); provably never
      returned with the fuel `step` supplies (`cascade_terminates`), but it is what the harness reports
      for a tree whose recursion is unbounded (the code before bda5470) -/
  | diverge
deriving DecidableEq, Repr

abbrev Res := Except Err St

/-- schema variant -/
structure Schema where
  /-- `AddFkConstraint(dep, _, CascadeDelete)` (otherwise `CascadeNone`) -/
  depCascade : Bool
  depNullable : Bool
  /-- the dep constraint is registered before the two fk indexes -/
  depFirst : Bool
deriving DecidableEq, Repr

/-- constraints of store A / store B, in `Indexer.constraints` order -/
inductive CA | ownerIdx | bossIdx | bossCascade | depFk
deriving DecidableEq, Repr
inductive CB | thingsRestrict | depCascade
deriving DecidableEq, Repr

def orderA (σ : Schema) : List CA :=
  if σ.depFirst then [.depFk, .ownerIdx, .bossIdx, .bossCascade] else [.ownerIdx, .bossIdx, .bossCascade, .depFk]

def orderB (σ : Schema) : List CB :=
  if σ.depFirst then [.depCascade, .thingsRestrict] else [.thingsRestrict, .depCascade]

/-- `symbol.Eval(tx, rowId)` for a field of A (missing entity bucket: nil) -/
def fieldOf (s : St) (id : Bytes) (f : EntA → FV) : Bytes :=
  match s.as.lookup id with
  | some e => evalVal (f e)
  | none => []

/-! ### `fkIndex.getIndexBucket` + `SetListEntry` / `DeleteListEntry` -/

def thingsAdd (s : St) (t id : Bytes) : Res :=
  if s.bs.contains t then .ok { s with things := s.things.insert t (setIns id ((s.things.lookup t).getD [])) }
  else .error .notFound

def thingsDel (s : St) (t id : Bytes) : Res :=
  if s.bs.contains t then .ok { s with things := s.things.insert t (setDel id ((s.things.lookup t).getD [])) }
  else .error .notFound

def minionsAdd (s : St) (t id : Bytes) : Res :=
  if s.as.contains t then .ok { s with minions := s.minions.insert t (setIns id ((s.minions.lookup t).getD [])) }
  else .error .notFound

def minionsDel (s : St) (t id : Bytes) : Res :=
  if s.as.contains t then .ok { s with minions := s.minions.insert t (setDel id ((s.minions.lookup t).getD [])) }
  else .error .notFound

/-- `AtomStates` captured by `ProcessBeforeUpdate` -/
structure Olds where
  owner : Bytes := []
  boss : Bytes := []
  dep : Bytes := []

/-- `ProcessAfterUpdate` of one constraint of A.  The error holder keeps the first error and
    every later step is skipped or irrelevant (the transaction is rolled back): `Except` bind. -/
def afterUpdateA (σ : Schema) (isCreate : Bool) (old : Olds) (id : Bytes) (s : St) (c : CA) : Res :=
  match c with
  | .ownerIdx =>
    let new := fieldOf s id (·.owner)
    if ¬ isCreate ∧ old.owner = new then .ok s else
      match (if old.owner ≠ [] then thingsDel s old.owner id else .ok s) with
      | .ok s1 => if new ≠ [] then thingsAdd s1 new id else .ok s1          -- nullable
      | .error e => .error e
  | .bossIdx =>
    let new := fieldOf s id (·.boss)
    if ¬ isCreate ∧ old.boss = new then .ok s else
      match (if old.boss ≠ [] then minionsDel s old.boss id else .ok s) with
      | .ok s1 => if new ≠ [] then minionsAdd s1 new id else .error .nullNotAllowed
      | .error e => .error e
  | .bossCascade => .ok s
  | .depFk =>
    let new := fieldOf s id (·.dep)
    if ¬ isCreate ∧ old.dep = new then .ok s
    else if new ≠ [] then (if s.bs.contains new then .ok s else .error .notFound)
    else if σ.depNullable then .ok s else .error .nullNotAllowed

def processAfterUpdateA (σ : Schema) (isCreate : Bool) (old : Olds) (id : Bytes) (s : St) : Res :=
  (orderA σ).foldlM (afterUpdateA σ isCreate old id) s

/-- `BaseStore.Create` on A -/
def createA (σ : Schema) (s : St) (id : Bytes) (e : EntA) : Res :=
  if id = [] then .error .other                         -- blank id
  else if s.as.contains id then .error .other           -- already exists
  else processAfterUpdateA σ true {} id { s with as := s.as.insert id e }

/-- `BaseStore.Create` on B (its constraints do nothing on create) -/
def createB (s : St) (id : Bytes) : Res :=
  if id = [] then .error .other
  else if s.bs.contains id then .error .other
  else .ok { s with bs := s.bs.insert id () }

/-- `IndexingContext.ProcessBeforeUpdate`: the fk values of the stored entity -/
def oldsOf (cur : EntA) : Olds := { owner := evalVal cur.owner, boss := evalVal cur.boss, dep := evalVal cur.dep }

/-- `BaseStore.Update` on A with a field checker (`m*` = field is in the checker).  When the entity has
    child data the registered `ChildStoreUpdateHandler` hands the update to the child store (new parent
    values, stored tag): `C.Update` runs `ProcessBeforeUpdate` / `ProcessAfterUpdate` of A's constraints
    through the parent indexing context with `IsCreate = false` and persists the same fields under the
    same checker — the same effect; the child data stays as it is. -/
def updateA (σ : Schema) (s : St) (id : Bytes) (e : EntA) (mOwner mBoss mDep : Bool) : Res :=
  if id = [] then .error .other
  else match s.as.lookup id with
    | none => .error .notFound
    | some cur =>
      let e' : EntA := { owner := if mOwner then e.owner else cur.owner,
                         boss := if mBoss then e.boss else cur.boss,
                         dep := if mDep then e.dep else cur.dep,
                         ext := cur.ext }
      processAfterUpdateA σ false (oldsOf cur) id { s with as := s.as.insert id e' }

/-- `BaseStore.Create` on the child store C: only C's own data is looked at for "already exists"; the
    parent entity may exist already — then (since /repo 8269ce9) `Parent.ProcessBeforeUpdate` captures
    its stored fk values, every parent field is overwritten (no field checker on create) and
    `ProcessAfterUpdate` runs with `IsCreate = true` and those old values: the "unchanged" shortcut is off,
    the old back-reference is removed and the new one written even when both name the same target. -/
def createC (σ : Schema) (s : St) (id : Bytes) (e : EntA) (tag : FV) : Res :=
  if id = [] then .error .other
  else
    let e' : EntA := { owner := e.owner, boss := e.boss, dep := e.dep, ext := some tag }
    match s.as.lookup id with
    | none => processAfterUpdateA σ true {} id { s with as := s.as.insert id e' }
    | some cur =>
      if cur.ext.isSome then .error .other                                   -- child data exists already
      else processAfterUpdateA σ true (oldsOf cur) id { s with as := s.as.insert id e' }

/-- `BaseStore.Update` on the child store C (`FindById` through C: not found without child data) -/
def updateC (σ : Schema) (s : St) (id : Bytes) (e : EntA) (tag : FV) (mOwner mBoss mDep mTag : Bool) : Res :=
  if id = [] then .error .other
  else match s.as.lookup id with
    | none => .error .notFound
    | some cur =>
      match cur.ext with
      | none => .error .notFound
      | some curTag =>
        let e' : EntA := { owner := if mOwner then e.owner else cur.owner,
                           boss := if mBoss then e.boss else cur.boss,
                           dep := if mDep then e.dep else cur.dep,
                           ext := some (if mTag then tag else curTag) }
        processAfterUpdateA σ false (oldsOf cur) id { s with as := s.as.insert id e' }

/-! ### referrer lookup: `IterateValidIds(tx, &fkReferrerFilter{symbol, id})` -/

/-- `fkReferrerFilter.EvalBool`: `val != nil && *val == id` -/
def referrerMatch (f : EntA → FV) (id : Bytes) (e : EntA) : Bool :=
  match evalString (f e) with
  | some v => v == id
  | none => false

def isReferrer (s : St) (f : EntA → FV) (id x : Bytes) : Bool :=
  match s.as.lookup x with
  | some e => referrerMatch f id e
  | none => false

/-- the ids the filtered cursor yields, in key order -/
def referrers (s : St) (f : EntA → FV) (id : Bytes) : List Bytes :=
  sortB (s.as.keys.filter (isReferrer s f id))

/-- the cascade loop:

        for cursor.IsValid() {
            if inProgress[cursor.Current()] { cursor.Next(); continue }
            DeleteById(cursor.Current()); cursor.Seek(cursor.Current())
        }

    The cursor re-seeks after every delete, so it yields the rows that still exist and still match;
    deletes never add referrers, so those are the members of the initial candidate list that are
    still referrers when their turn comes.  `skip` = the entities whose cascading delete is in
    progress (`cascadeDeletesInProgress`): the loop steps over them. -/
def cascadeOver (del : St → Bytes → Res) (f : EntA → FV) (id : Bytes) (skip : List Bytes) (cands : List Bytes)
    (s : St) : Res :=
  cands.foldlM (fun st x => if x ∈ skip then .ok st else if isReferrer st f id x then del st x else .ok st) s

/-- `inProgress[self] = struct{}{}` unless it is there already -/
def mark (prog : List Bytes) (id : Bytes) : List Bytes := if id ∈ prog then prog else id :: prog

/-- `ProcessBeforeDelete` of one constraint of A (`prog` = A entities whose cascade is in progress) -/
def beforeDeleteA (del : List Bytes → St → Bytes → Res) (prog : List Bytes) (id : Bytes) (s : St) (c : CA) : Res :=
  match c with
  | .ownerIdx =>
    -- since /repo 001d2d2: the removal is skipped when the referenced entity is already gone
    -- (`IsEntityPresent`): its back-reference set went with it
    let v := fieldOf s id (·.owner)
    if v ≠ [] then (if s.bs.contains v then thingsDel s v id else .ok s) else .ok s
  | .bossIdx =>
    let v := fieldOf s id (·.boss)
    if v ≠ [] then (if s.as.contains v then minionsDel s v id else .ok s) else .ok s
  | .bossCascade => cascadeOver (del (mark prog id)) (·.boss) id (mark prog id) (referrers s (·.boss) id) s
  | .depFk => .ok s

/-- `processDeleteConstraints` of one store level: `ProcessBeforeDelete` of every constraint of A in order -/
def passA (σ : Schema) (del : List Bytes → St → Bytes → Res) (prog : List Bytes) (id : Bytes) (s : St) : Res :=
  (orderA σ).foldlM (beforeDeleteA del prog id) s

/-- the child store finds the entity (`C.FindById`): its bucket `ext1` exists -/
def hasExt (s : St) (id : Bytes) : Bool :=
  match s.as.lookup id with
  | some e => e.ext.isSome
  | none => false

/-- `BaseStore.DeleteById` on A (`C.DeleteById` goes straight here).  For every registered child store
    whose `FindById` finds the entity, `processDeleteConstraints` of the child store runs first — its
    indexing context starts with the parent's constraints — and then A's own `processDeleteConstraints`
    runs the same constraints a SECOND time (`passA` twice for an entity with child data; the first round's
    cascade may already have deleted the boss — a reference cycle through the entity — which is why, since
    001d2d2, `fkIndex.ProcessBeforeDelete` skips a target that is gone).  Between the two
    rounds the entity still exists (`pass_keeps_id`: a round never removes an entity that is in progress),
    so the second `FindById` always finds it.

    The Go function recurses through
    `fkDeleteCascadeConstraint.ProcessBeforeDelete` *before* the entity bucket is removed; since
    commit bda5470 the entities whose cascade has started are remembered in the mutate context and
    the loop steps over them, so every nested call is about an entity that is not yet in progress:
    the in-progress set grows strictly along the recursion and stays inside the table, which bounds
    the depth by |A| (`deleteA_terminates`).  The model still takes fuel (structural recursion) and
    reports `diverge` when it runs out; `step` supplies |A| + 1, which is never exhausted. -/
def deleteA (σ : Schema) : Nat → List Bytes → St → Bytes → Res
  | 0, _, _, _ => .error .diverge
  | n + 1, prog, s, id =>
    if s.as.contains id then                                                    -- FindById
      match (if hasExt s id then passA σ (deleteA σ n) prog id s else .ok s) with   -- child store's round
      | .ok s0 =>
        match passA σ (deleteA σ n) prog id s0 with                             -- A's own processDeleteConstraints
        | .ok s1 =>
          if s1.as.contains id then                                             -- bucket.DeleteEntity(id)
            .ok { s1 with as := s1.as.erase id, minions := s1.minions.erase id }
          else .error .other
        | .error e => .error e
      | .error e => .error e
    else .error .notFound

def fuelOf (s : St) : Nat := s.as.length + 1

/-- `ProcessBeforeDelete` of one constraint of B -/
def beforeDeleteB (σ : Schema) (delA : St → Bytes → Res) (id : Bytes) (s : St) (c : CB) : Res :=
  match c with
  | .thingsRestrict =>                                     -- fkDeleteConstraint
    if (s.things.lookup id).getD [] ≠ [] then .error .refExists else .ok s
  | .depCascade =>                                         -- fkDeleteCascadeConstraint
    let refs := referrers s (·.dep) id
    if σ.depCascade then cascadeOver delA (·.dep) id [] refs s     -- no A entity is in progress here
    else if refs ≠ [] then .error .refExists else .ok s

/-- `BaseStore.DeleteById` on B -/
def deleteB (σ : Schema) (s : St) (id : Bytes) : Res :=
  if s.bs.contains id then
    match (orderB σ).foldlM (beforeDeleteB σ (deleteA σ (fuelOf s) []) id) s with
    | .ok s1 =>
      if s1.bs.contains id then .ok { s1 with bs := s1.bs.erase id, things := s1.things.erase id }
      else .error .other
    | .error e => .error e
  else .error .notFound

/-! ### operations, transactions, histories -/

inductive Op
  | createB (id : Bytes)
  | createA (id : Bytes) (e : EntA)
  | updateA (id : Bytes) (e : EntA) (mOwner mBoss mDep : Bool)
  | deleteA (id : Bytes)
  | deleteB (id : Bytes)
  /-- through the child store -/
  | createC (id : Bytes) (e : EntA) (tag : FV)
  | updateC (id : Bytes) (e : EntA) (tag : FV) (mOwner mBoss mDep mTag : Bool)
  | deleteC (id : Bytes)
deriving Repr

def apply (σ : Schema) (s : St) : Op → Res
  | .createB id => createB s id
  | .createA id e => createA σ s id e
  | .updateA id e mo mb md => updateA σ s id e mo mb md
  | .deleteA id => deleteA σ (fuelOf s) [] s id
  | .deleteB id => deleteB σ s id
  | .createC id e tag => createC σ s id e tag
  | .updateC id e tag mo mb md mt => updateC σ s id e tag mo mb md mt
  | .deleteC id => deleteA σ (fuelOf s) [] s id                 -- `store.parent.DeleteById`

/-- one operation in its own transaction: an error rolls back -/
def step (σ : Schema) (s : St) (op : Op) : St × Option Err :=
  match apply σ s op with
  | .ok s' => (s', none)
  | .error e => (s, some e)

/-- a transaction: the first failing operation (index, error) aborts and rolls back everything -/
def runTxFrom (σ : Schema) (s0 : St) : Nat → St → List Op → St × Option (Nat × Err)
  | _, s, [] => (s, none)
  | i, s, op :: rest =>
    match apply σ s op with
    | .ok s' => runTxFrom σ s0 (i + 1) s' rest
    | .error e => (s0, some (i, e))

def runTx (σ : Schema) (s : St) (ops : List Op) : St × Option (Nat × Err) := runTxFrom σ s 0 s ops

/-- state after a history of transactions -/
def runHistory (σ : Schema) (txs : List (List Op)) : St :=
  txs.foldl (fun s tx => (runTx σ s tx).1) {}

end StorageModel.C04
