import StorageModel.C04.Map
/-
  C04 — executable model of the foreign-key machinery of boltz, following the Go code branch by
  branch (boltz/indexes.go: fkIndex, fkConstraint, fkDeleteConstraint, fkDeleteCascadeConstraint,
  fkReferrerFilter; boltz/store_crud.go: Create, Update, DeleteById, processDeleteConstraints).

  Two stores, wired as in /verif/harness/c04.go:

    A ("things")  owner : *string  AddNullableFkIndex      -> B.things   (back-reference set on B)
                  boss  : string   AddFkIndexCascadeDelete -> A.minions  (self reference, cascades)
                  dep   : *string  AddFkConstraint(nullable?, CascadeNone | CascadeDelete) -> B
    B ("owners")  no fields
    C, C2         two plain sibling child stores of A (data in `<A entity bucket>/ext1`, `/ext2`), each with
                  tag : *string, mentor : *string (fk -> B), guard : *string (fk -> B).  Per schema variant a
                  child store DECLARES a nullable fk index on its mentor (-> B.mentees1 / B.mentees2) and / or a
                  nullable fk constraint (CascadeNone) on its guard — or neither (then the field is plain data).
                  Every operation through a child store runs A's constraints through the parent
                  `IndexingContext` and then the child store's own; `DeleteById` fans out over the registered
                  child stores in registration order (`Schema.c2First`): for each one holding data for the
                  entity a full round of A's `ProcessBeforeDelete` constraints plus that child store's, then
                  A's own round (`roundsOf`).

  State = the two entity tables (child data is part of the A entry: `EntA.ext`, it goes with the entity
  bucket) + the two back-reference maps (key present ⇔ the set bucket
  exists under the target's entity bucket; `GetOrCreatePath` creates it on first use and it stays,
  possibly empty).  A failed operation leaves the state unchanged (bbolt rollback — assumed).
-/
namespace StorageModel.C04
open StorageModel

/-- a stored typed field value: `none` = `[TypeNil]`, `some v` = `[TypeString] ++ v` -/
abbrev FV := Option Bytes

/-- the value part of `symbol.Eval` (`GetTypeAndValue`): nil for TypeNil *and* for an empty
    payload; the Go code only ever tests `len(v) > 0` and `bytes.Equal`, for which nil = empty -/
def evalVal (v : FV) : Bytes := v.getD []

/-- `rowCursor.EvalString` (`FieldToString`): nil pointer for TypeNil, otherwise the payload
    (an empty payload gives a pointer to "") -/
def evalString (v : FV) : Option Bytes := v

/-- the data a child store holds for an entity (bucket `ext1` / `ext2` under the entity bucket) -/
structure Ext where
  tag : FV
  /-- mentor: fk value -> B (indexed when the child store declares the fk index) -/
  m : FV := none
  /-- guard: fk value -> B (checked when the child store declares the fk constraint) -/
  g : FV := none
deriving DecidableEq, Repr

inductive Child | c1 | c2
deriving DecidableEq, Repr

structure EntA where
  owner : FV
  boss : FV
  dep : FV
  /-- child-store data: `none` = no bucket `ext1` under the entity bucket -/
  ext1 : Option Ext := none
  ext2 : Option Ext := none
deriving DecidableEq, Repr

/-- the fields store A itself persists -/
def EntA.plain (e : EntA) : EntA := { owner := e.owner, boss := e.boss, dep := e.dep }

def EntA.extOf (e : EntA) : Child → Option Ext
  | .c1 => e.ext1
  | .c2 => e.ext2

def EntA.setExt (e : EntA) (c : Child) (x : Option Ext) : EntA :=
  match c with
  | .c1 => { e with ext1 := x }
  | .c2 => { e with ext2 := x }

structure St where
  as : Map EntA := []
  bs : Map Unit := []
  /-- B id ↦ keys of the bucket `<b>/things` -/
  things : Map (List Bytes) := []
  /-- A id ↦ keys of the bucket `<a>/minions` -/
  minions : Map (List Bytes) := []
  /-- B id ↦ keys of the bucket `<b>/mentees1` (back-references of C.mentor) -/
  mentees1 : Map (List Bytes) := []
  /-- B id ↦ keys of the bucket `<b>/mentees2` (back-references of C2.mentor) -/
  mentees2 : Map (List Bytes) := []

def St.mentees (s : St) : Child → Map (List Bytes)
  | .c1 => s.mentees1
  | .c2 => s.mentees2

def St.setMentees (s : St) (c : Child) (m : Map (List Bytes)) : St :=
  match c with
  | .c1 => { s with mentees1 := m }
  | .c2 => { s with mentees2 := m }

inductive Err
  | notFound | refExists | nullNotAllowed | other
  /-- the DeleteById recursion does not come back (fuel exhausted, see `deleteA`); provably never
      returned with the fuel `step` supplies (`cascade_terminates`), but it is what the harness reports
      for a tree whose recursion is unbounded (the code before bda5470) -/
  | diverge
  /-- an entity constraint of the caller (`EntityConstraint.ProcessPreCommit` on store A) refused the delete of
      the protected entity (`Schema.protect`) -/
  | veto
deriving DecidableEq, Repr

abbrev Res := Except Err St

/-- how the fk fields owner, boss, dep, mentor, guard are named: each has a symbol name `f` (what queries and
    the constraints use), a stored key (what the entity strategy persists under: `AddFkSymbolWithKey`) and a
    caller-side name (what the `FieldChecker` of an update is asked for: `PersistContext.WithFieldOverrides`) -/
inductive Naming
  /-- all three are `f` -/
  | same
  /-- key = caller-side name = `fId` -/
  | keyed
  /-- key = `fId`, caller-side name = `f` (an override) -/
  | overridden
  /-- key = `fId`, caller-side name = `fRef` -/
  | allDifferent
deriving DecidableEq, Repr

/-- `TypedBucket.ProceedWithSet(key, checker)` under `MappedFieldChecker`: does a checker that lists the field's
    caller-side name (`chk`), its stored key (`key`), its symbol name (`sym`) select the field?  Only the
    caller-side name does — the other two only where the naming makes them the same string.  (The constraints
    never consult the checker: what a selected field's new value means for the indexes does not depend on any
    of these names.) -/
def Naming.selects : Naming → (chk key sym : Bool) → Bool
  | .same, c, k, y => c || k || y
  | .keyed, c, k, _ => c || k
  | .overridden, c, _, y => c || y
  | .allDifferent, c, _, _ => c

/-- schema variant -/
structure Schema where
  /-- `AddFkConstraint(dep, _, CascadeDelete)` (otherwise `CascadeNone`) -/
  depCascade : Bool
  depNullable : Bool
  /-- the dep constraint is registered before the two fk indexes -/
  depFirst : Bool
  /-- child store C / C2 declares `AddNullableFkIndex(mentor, B.mentees1 / mentees2)` -/
  idx1 : Bool := false
  idx2 : Bool := false
  /-- child store C / C2 declares `AddFkConstraint(guard, nullable, CascadeNone)` -/
  fk1 : Bool := false
  fk2 : Bool := false
  /-- `RegisterChildStoreStrategy` was called for C2 before C -/
  c2First : Bool := false
  naming : Naming := .same
  /-- an A entity whose delete an `EntityConstraint` registered on store A refuses (`ProcessPreCommit` returns an
      error for `EntityDeleted` of this id) while the current operation runs; `none`: no such constraint is active.
      It is how a cascading delete can FAIL part-way in this universe (a transitive referrer refuses to go). -/
  protect : Option Bytes := none
deriving DecidableEq, Repr

def Schema.withProtect (σ : Schema) (v : Bytes) : Schema := { σ with protect := some v }

def Schema.idx (σ : Schema) : Child → Bool
  | .c1 => σ.idx1
  | .c2 => σ.idx2

def Schema.fk (σ : Schema) : Child → Bool
  | .c1 => σ.fk1
  | .c2 => σ.fk2

/-- the child stores in `childStoreStrategies` order -/
def childOrder (σ : Schema) : List Child := if σ.c2First then [.c2, .c1] else [.c1, .c2]

/-- constraints of store A / store B, in `Indexer.constraints` order -/
inductive CA | ownerIdx | bossIdx | bossCascade | depFk
deriving DecidableEq, Repr
inductive CB | thingsRestrict | depCascade
deriving DecidableEq, Repr

def orderA (σ : Schema) : List CA :=
  if σ.depFirst then [.depFk, .ownerIdx, .bossIdx, .bossCascade] else [.ownerIdx, .bossIdx, .bossCascade, .depFk]

def orderB (σ : Schema) : List CB :=
  if σ.depFirst then [.depCascade, .thingsRestrict] else [.thingsRestrict, .depCascade]

/-- `symbol.Eval(tx, rowId)` for a field of A (missing entity bucket: nil) -/
def fieldOf (s : St) (id : Bytes) (f : EntA → FV) : Bytes :=
  match s.as.lookup id with
  | some e => evalVal (f e)
  | none => []

/-! ### `fkIndex.getIndexBucket` + `SetListEntry` / `DeleteListEntry` -/

def thingsAdd (s : St) (t id : Bytes) : Res :=
  if s.bs.contains t then .ok { s with things := s.things.insert t (setIns id ((s.things.lookup t).getD [])) }
  else .error .notFound

def thingsDel (s : St) (t id : Bytes) : Res :=
  if s.bs.contains t then .ok { s with things := s.things.insert t (setDel id ((s.things.lookup t).getD [])) }
  else .error .notFound

def minionsAdd (s : St) (t id : Bytes) : Res :=
  if s.as.contains t then .ok { s with minions := s.minions.insert t (setIns id ((s.minions.lookup t).getD [])) }
  else .error .notFound

def minionsDel (s : St) (t id : Bytes) : Res :=
  if s.as.contains t then .ok { s with minions := s.minions.insert t (setDel id ((s.minions.lookup t).getD [])) }
  else .error .notFound

/-! ### one fk index on its back-reference map alone (used literally for the child-declared index; the
    handlers of A's two indexes below are proved equal to these in Proofs.lean) -/

/-- old entry removal inside `fkIndex.ProcessAfterUpdate` (`getIndexBucket`: not-found if the target is gone) -/
def idxDel (tgt : Bytes → Bool) (v id : Bytes) (m : Map (List Bytes)) : Except Err (Map (List Bytes)) :=
  if v ≠ [] then
    (if tgt v then .ok (m.insert v (setDel id ((m.lookup v).getD []))) else .error .notFound)
  else .ok m

def idxAdd (nullable : Bool) (tgt : Bytes → Bool) (new id : Bytes) (m1 : Map (List Bytes)) :
    Except Err (Map (List Bytes)) :=
  if new ≠ [] then
    (if tgt new then .ok (m1.insert new (setIns id ((m1.lookup new).getD []))) else .error .notFound)
  else if nullable then .ok m1 else .error .nullNotAllowed

/-- `fkIndex.ProcessAfterUpdate` on the back-reference map alone -/
def idxWrite (nullable : Bool) (tgt : Bytes → Bool) (ic : Bool) (old new id : Bytes) (m : Map (List Bytes)) :
    Except Err (Map (List Bytes)) :=
  if ¬ ic ∧ old = new then .ok m else
    match idxDel tgt old id m with
    | .ok m1 => idxAdd nullable tgt new id m1
    | .error e => .error e

/-- `fkIndex.ProcessBeforeDelete` on the back-reference map alone (since 001d2d2: a target that is gone is
    skipped, so this step never fails) -/
def idxDelB (tgt : Bytes → Bool) (v id : Bytes) (m : Map (List Bytes)) : Map (List Bytes) :=
  if v ≠ [] then (if tgt v then m.insert v (setDel id ((m.lookup v).getD [])) else m) else m

/-- `AtomStates` captured by `ProcessBeforeUpdate` -/
structure Olds where
  owner : Bytes := []
  boss : Bytes := []
  dep : Bytes := []

/-- `ProcessAfterUpdate` of one constraint of A.  The error holder keeps the first error and
    every later step is skipped or irrelevant (the transaction is rolled back): `Except` bind. -/
def afterUpdateA (σ : Schema) (isCreate : Bool) (old : Olds) (id : Bytes) (s : St) (c : CA) : Res :=
  match c with
  | .ownerIdx =>
    let new := fieldOf s id (·.owner)
    if ¬ isCreate ∧ old.owner = new then .ok s else
      match (if old.owner ≠ [] then thingsDel s old.owner id else .ok s) with
      | .ok s1 => if new ≠ [] then thingsAdd s1 new id else .ok s1          -- nullable
      | .error e => .error e
  | .bossIdx =>
    let new := fieldOf s id (·.boss)
    if ¬ isCreate ∧ old.boss = new then .ok s else
      match (if old.boss ≠ [] then minionsDel s old.boss id else .ok s) with
      | .ok s1 => if new ≠ [] then minionsAdd s1 new id else .error .nullNotAllowed
      | .error e => .error e
  | .bossCascade => .ok s
  | .depFk =>
    let new := fieldOf s id (·.dep)
    if ¬ isCreate ∧ old.dep = new then .ok s
    else if new ≠ [] then (if s.bs.contains new then .ok s else .error .notFound)
    else if σ.depNullable then .ok s else .error .nullNotAllowed

def processAfterUpdateA (σ : Schema) (isCreate : Bool) (old : Olds) (id : Bytes) (s : St) : Res :=
  (orderA σ).foldlM (afterUpdateA σ isCreate old id) s

/-- `BaseStore.Create` on A -/
def createA (σ : Schema) (s : St) (id : Bytes) (e : EntA) : Res :=
  if id = [] then .error .other                         -- blank id
  else if s.as.contains id then .error .other           -- already exists
  else processAfterUpdateA σ true {} id { s with as := s.as.insert id e.plain }   -- A writes no child data

/-- `BaseStore.Create` on B (its constraints do nothing on create) -/
def createB (s : St) (id : Bytes) : Res :=
  if id = [] then .error .other
  else if s.bs.contains id then .error .other
  else .ok { s with bs := s.bs.insert id () }

/-- `IndexingContext.ProcessBeforeUpdate`: the fk values of the stored entity -/
def oldsOf (cur : EntA) : Olds := { owner := evalVal cur.owner, boss := evalVal cur.boss, dep := evalVal cur.dep }

/-! ### the constraints a child store declares -/

/-- `symbol.Eval` of a field of child store `c` (nil without child data) -/
def childField (s : St) (id : Bytes) (c : Child) (f : Ext → FV) : Bytes :=
  match s.as.lookup id with
  | some e => (match e.extOf c with | some x => evalVal (f x) | none => [])
  | none => []

/-- `fkIndex.ProcessAfterUpdate` of the nullable mentor index child store `c` declares (if it does) -/
def childIdxStep (σ : Schema) (c : Child) (ic : Bool) (oldM : Bytes) (id : Bytes) (s : St) : Res :=
  if σ.idx c then
    match idxWrite true s.bs.contains ic oldM (childField s id c (·.m)) id (s.mentees c) with
    | .ok m => .ok (s.setMentees c m)
    | .error e => .error e
  else .ok s

/-- `fkConstraint.ProcessAfterUpdate` of the nullable guard constraint child store `c` declares (if it does) -/
def childFkStep (σ : Schema) (c : Child) (ic : Bool) (oldG : Bytes) (id : Bytes) (s : St) : Res :=
  if σ.fk c then
    let new := childField s id c (·.g)
    if ¬ ic ∧ oldG = new then .ok s
    else if new ≠ [] then (if s.bs.contains new then .ok s else .error .notFound)
    else .ok s                                                             -- nullable
  else .ok s

/-- `ProcessAfterUpdate` of child store `c`'s constraints, in declaration order: the nullable fk index on
    `mentor`, then the nullable fk constraint on `guard` — each only if the schema declares it -/
def childAfterUpdate (σ : Schema) (c : Child) (ic : Bool) (oldM oldG : Bytes) (id : Bytes) (s : St) : Res :=
  childIdxStep σ c ic oldM id s >>= childFkStep σ c ic oldG id

/-- `ProcessBeforeDelete` of child store `c`'s constraints (only the fk index does anything; never fails) -/
def childBeforeDelete (σ : Schema) (c : Child) (id : Bytes) (s : St) : St :=
  if σ.idx c then s.setMentees c (idxDelB s.bs.contains (childField s id c (·.m)) id (s.mentees c)) else s

/-- `BaseStore.Update` on A with a field checker (`m*` = field is in the checker).  When the entity has
    child data the first registered `ChildStoreUpdateHandler` whose store holds data for it hands the update
    to that child store (new parent values, stored child fields): `Update` there runs `ProcessBeforeUpdate` /
    `ProcessAfterUpdate` of A's constraints through the parent indexing context with `IsCreate = false`,
    persists the same parent fields under the same checker, and the child store's own constraints see
    unchanged values — the same effect whichever store carries it out; the child data stays as it is. -/
def updateA (σ : Schema) (s : St) (id : Bytes) (e : EntA) (mOwner mBoss mDep : Bool) : Res :=
  if id = [] then .error .other
  else match s.as.lookup id with
    | none => .error .notFound
    | some cur =>
      let e' : EntA := { owner := if mOwner then e.owner else cur.owner,
                         boss := if mBoss then e.boss else cur.boss,
                         dep := if mDep then e.dep else cur.dep,
                         ext1 := cur.ext1, ext2 := cur.ext2 }
      processAfterUpdateA σ false (oldsOf cur) id { s with as := s.as.insert id e' }

/-- `BaseStore.Create` on child store `c`: only `c`'s own data is looked at for "already exists"; the
    parent entity may exist already (possibly with data of the sibling child store, which stays) — then
    (since /repo 8269ce9) `Parent.ProcessBeforeUpdate` captures its stored fk values, every parent field is
    overwritten (no field checker on create) and `ProcessAfterUpdate` runs with `IsCreate = true` and those
    old values: the "unchanged" shortcut is off, the old back-reference is removed and the new one written
    even when both name the same target.  Then `c`'s own constraints, with no old values. -/
def createC (σ : Schema) (c : Child) (s : St) (id : Bytes) (e : EntA) (x : Ext) : Res :=
  if id = [] then .error .other
  else
    match s.as.lookup id with
    | none =>
      let e' : EntA := ({ owner := e.owner, boss := e.boss, dep := e.dep } : EntA).setExt c (some x)
      processAfterUpdateA σ true {} id { s with as := s.as.insert id e' } >>= childAfterUpdate σ c true [] [] id
    | some cur =>
      if (cur.extOf c).isSome then .error .other                             -- child data exists already
      else
        let e' : EntA := ({ owner := e.owner, boss := e.boss, dep := e.dep, ext1 := cur.ext1, ext2 := cur.ext2 } : EntA).setExt c (some x)
        processAfterUpdateA σ true (oldsOf cur) id { s with as := s.as.insert id e' } >>=
          childAfterUpdate σ c true [] [] id

/-- `BaseStore.Update` on child store `c` (`FindById` through `c`: not found without child data);
    `mTag mM mG` = the child fields in the checker -/
def updateC (σ : Schema) (c : Child) (s : St) (id : Bytes) (e : EntA) (x : Ext)
    (mOwner mBoss mDep mTag mM mG : Bool) : Res :=
  if id = [] then .error .other
  else match s.as.lookup id with
    | none => .error .notFound
    | some cur =>
      match cur.extOf c with
      | none => .error .notFound
      | some cx =>
        let x' : Ext := { tag := if mTag then x.tag else cx.tag, m := if mM then x.m else cx.m,
                          g := if mG then x.g else cx.g }
        let e' : EntA := ({ owner := if mOwner then e.owner else cur.owner,
                            boss := if mBoss then e.boss else cur.boss,
                            dep := if mDep then e.dep else cur.dep,
                            ext1 := cur.ext1, ext2 := cur.ext2 } : EntA).setExt c (some x')
        processAfterUpdateA σ false (oldsOf cur) id { s with as := s.as.insert id e' } >>=
          childAfterUpdate σ c false (evalVal cx.m) (evalVal cx.g) id

/-! ### referrer lookup: `IterateValidIds(tx, &fkReferrerFilter{symbol, id})` -/

/-- `fkReferrerFilter.EvalBool`: `val != nil && *val == id` -/
def referrerMatch (f : EntA → FV) (id : Bytes) (e : EntA) : Bool :=
  match evalString (f e) with
  | some v => v == id
  | none => false

def isReferrer (s : St) (f : EntA → FV) (id x : Bytes) : Bool :=
  match s.as.lookup x with
  | some e => referrerMatch f id e
  | none => false

/-- the ids the filtered cursor yields, in key order -/
def referrers (s : St) (f : EntA → FV) (id : Bytes) : List Bytes :=
  sortB (s.as.keys.filter (isReferrer s f id))

/-- the cascade loop:

        for cursor.IsValid() {
            if inProgress[cursor.Current()] { cursor.Next(); continue }
            DeleteById(cursor.Current()); cursor.Seek(cursor.Current())
        }

    The cursor re-seeks after every delete, so it yields the rows that still exist and still match;
    deletes never add referrers, so those are the members of the initial candidate list that are
    still referrers when their turn comes.  `skip` = the entities whose cascading delete is in
    progress (`cascadeDeletesInProgress`): the loop steps over them. -/
def cascadeOver (del : St → Bytes → Res) (f : EntA → FV) (id : Bytes) (skip : List Bytes) (cands : List Bytes)
    (s : St) : Res :=
  cands.foldlM (fun st x => if x ∈ skip then .ok st else if isReferrer st f id x then del st x else .ok st) s

/-- `inProgress[self] = struct{}{}` unless it is there already -/
def mark (prog : List Bytes) (id : Bytes) : List Bytes := if id ∈ prog then prog else id :: prog

/-- `ProcessBeforeDelete` of one constraint of A (`prog` = A entities whose cascade is in progress) -/
def beforeDeleteA (del : List Bytes → St → Bytes → Res) (prog : List Bytes) (id : Bytes) (s : St) (c : CA) : Res :=
  match c with
  | .ownerIdx =>
    -- since /repo 001d2d2: the removal is skipped when the referenced entity is already gone
    -- (`IsEntityPresent`): its back-reference set went with it
    let v := fieldOf s id (·.owner)
    if v ≠ [] then (if s.bs.contains v then thingsDel s v id else .ok s) else .ok s
  | .bossIdx =>
    let v := fieldOf s id (·.boss)
    if v ≠ [] then (if s.as.contains v then minionsDel s v id else .ok s) else .ok s
  | .bossCascade => cascadeOver (del (mark prog id)) (·.boss) id (mark prog id) (referrers s (·.boss) id) s
  | .depFk => .ok s

/-- `processDeleteConstraints` of one store level: `ProcessBeforeDelete` of every constraint of A in order -/
def passA (σ : Schema) (del : List Bytes → St → Bytes → Res) (prog : List Bytes) (id : Bytes) (s : St) : Res :=
  (orderA σ).foldlM (beforeDeleteA del prog id) s

/-- child store `c` finds the entity (`FindById` through it): its bucket `ext1` / `ext2` exists -/
def hasExt (s : St) (id : Bytes) (c : Child) : Bool :=
  match s.as.lookup id with
  | some e => (e.extOf c).isSome
  | none => false

/-- the `processDeleteConstraints` rounds of one `DeleteById`: one per registered child store that holds
    data for the entity (`some c`), in registration order, then A's own (`none`) -/
def roundsOf (σ : Schema) (s : St) (id : Bytes) : List (Option Child) :=
  ((childOrder σ).filter (hasExt s id)).map some ++ [none]

/-- one round: A's constraints (a child store's indexing context starts with its parent's), then the
    child store's own -/
def afterRound (σ : Schema) (id : Bytes) (s1 : St) : Option Child → St
  | some c => childBeforeDelete σ c id s1
  | none => s1

def roundA (σ : Schema) (del : List Bytes → St → Bytes → Res) (prog : List Bytes) (id : Bytes) (s : St)
    (r : Option Child) : Res :=
  match passA σ del prog id s with
  | .ok s1 => .ok (afterRound σ id s1 r)
  | .error e => .error e

/-- `BaseStore.DeleteById` on A (`DeleteById` on a child store goes straight here).  For every registered
    child store whose `FindById` finds the entity, `processDeleteConstraints` of that child store runs — its
    indexing context starts with the parent's constraints, so A's `ProcessBeforeDelete` constraints run in
    every round — and then A's own `processDeleteConstraints` (`roundsOf`; an earlier round's cascade may
    already have deleted the boss — a reference cycle through the entity — which is why, since 001d2d2,
    `fkIndex.ProcessBeforeDelete` skips a target that is gone).  Between the rounds the entity and its child
    data still exist (`pass_keeps_id`: a round never removes an entity that is in progress), so which child
    stores find it can be read off the initial state and A's own `FindById` always finds it.

    The Go function recurses through
    `fkDeleteCascadeConstraint.ProcessBeforeDelete` *before* the entity bucket is removed; since
    commit bda5470 the entities whose cascade has started are remembered in the mutate context and
    the loop steps over them, so every nested call is about an entity that is not yet in progress:
    the in-progress set grows strictly along the recursion and stays inside the table, which bounds
    the depth by |A| (`deleteA_terminates`).  The model still takes fuel (structural recursion) and
    reports `diverge` when it runs out; `step` supplies |A| + 1, which is never exhausted. -/
def deleteA (σ : Schema) : Nat → List Bytes → St → Bytes → Res
  | 0, _, _, _ => .error .diverge
  | n + 1, prog, s, id =>
    if s.as.contains id then                                                    -- FindById
      match (roundsOf σ s id).foldlM (roundA σ (deleteA σ n) prog id) s with    -- the rounds
      | .ok s1 =>
        if s1.as.contains id then                                               -- bucket.DeleteEntity(id)
          if σ.protect = some id then .error .veto                              -- changeFlow.fireEvents: pre-commit veto
          else .ok { s1 with as := s1.as.erase id, minions := s1.minions.erase id }
        else .error .other
      | .error e => .error e
    else .error .notFound

def fuelOf (s : St) : Nat := s.as.length + 1

/-- `ProcessBeforeDelete` of one constraint of B -/
def beforeDeleteB (σ : Schema) (delA : St → Bytes → Res) (id : Bytes) (s : St) (c : CB) : Res :=
  match c with
  | .thingsRestrict =>                                     -- fkDeleteConstraint
    if (s.things.lookup id).getD [] ≠ [] then .error .refExists else .ok s
  | .depCascade =>                                         -- fkDeleteCascadeConstraint
    let refs := referrers s (·.dep) id
    if σ.depCascade then cascadeOver delA (·.dep) id [] refs s     -- no A entity is in progress here
    else if refs ≠ [] then .error .refExists else .ok s

/-- the restrict checks the child-declared fks register on B (after A's, in the harness' wiring order:
    C's index, C's constraint, C2's index, C2's constraint): `fkDeleteConstraint` (back-reference set
    non-empty) and `fkDeleteCascadeConstraint` with CascadeNone (a row of the child store whose guard is
    the id) -/
def guardOf (σ : Schema) (c : Child) (e : EntA) : FV :=
  if σ.fk c then (match e.extOf c with | some x => x.g | none => none) else none

def mentorOf (σ : Schema) (c : Child) (e : EntA) : FV :=
  if σ.idx c then (match e.extOf c with | some x => x.m | none => none) else none

def childRestrict (σ : Schema) (s : St) (id : Bytes) : Child → Bool
  | c => (σ.idx c && decide (((s.mentees c).lookup id).getD [] ≠ [])) ||
         decide (referrers s (guardOf σ c) id ≠ [])

/-- `BaseStore.DeleteById` on B -/
def deleteB (σ : Schema) (s : St) (id : Bytes) : Res :=
  if s.bs.contains id then
    match (orderB σ).foldlM (beforeDeleteB σ (deleteA σ (fuelOf s) []) id) s with
    | .ok s1 =>
      if childRestrict σ s1 id .c1 || childRestrict σ s1 id .c2 then .error .refExists
      else if s1.bs.contains id then
        .ok { s1 with bs := s1.bs.erase id, things := s1.things.erase id,
                      mentees1 := s1.mentees1.erase id, mentees2 := s1.mentees2.erase id }
      else .error .other
    | .error e => .error e
  else .error .notFound

/-! ### operations, transactions, histories -/

inductive Op
  | createB (id : Bytes)
  | createA (id : Bytes) (e : EntA)
  | updateA (id : Bytes) (e : EntA) (mOwner mBoss mDep : Bool)
  | deleteA (id : Bytes)
  | deleteB (id : Bytes)
  /-- through a child store -/
  | createC (c : Child) (id : Bytes) (e : EntA) (x : Ext)
  | updateC (c : Child) (id : Bytes) (e : EntA) (x : Ext) (mOwner mBoss mDep mTag mM mG : Bool)
  | deleteC (id : Bytes)
  /-- `DeleteById` on A / on B while the caller's entity constraint protects A entity `v` -/
  | deleteAV (id v : Bytes)
  | deleteBV (id v : Bytes)
deriving Repr

def apply (σ : Schema) (s : St) : Op → Res
  | .createB id => createB s id
  | .createA id e => createA σ s id e
  | .updateA id e mo mb md => updateA σ s id e mo mb md
  | .deleteA id => deleteA σ (fuelOf s) [] s id
  | .deleteB id => deleteB σ s id
  | .createC c id e x => createC σ c s id e x
  | .updateC c id e x mo mb md mt mm mg => updateC σ c s id e x mo mb md mt mm mg
  | .deleteC id => deleteA σ (fuelOf s) [] s id                 -- `store.parent.DeleteById`
  | .deleteAV id v => deleteA (σ.withProtect v) (fuelOf s) [] s id
  | .deleteBV id v => deleteB (σ.withProtect v) s id

/-- one operation in its own transaction: an error rolls back -/
def step (σ : Schema) (s : St) (op : Op) : St × Option Err :=
  match apply σ s op with
  | .ok s' => (s', none)
  | .error e => (s, some e)

/-- a transaction: the first failing operation (index, error) aborts and rolls back everything -/
def runTxFrom (σ : Schema) (s0 : St) : Nat → St → List Op → St × Option (Nat × Err)
  | _, s, [] => (s, none)
  | i, s, op :: rest =>
    match apply σ s op with
    | .ok s' => runTxFrom σ s0 (i + 1) s' rest
    | .error e => (s0, some (i, e))

def runTx (σ : Schema) (s : St) (ops : List Op) : St × Option (Nat × Err) := runTxFrom σ s 0 s ops

/-- state after a history of transactions -/
def runHistory (σ : Schema) (txs : List (List Op)) : St :=
  txs.foldl (fun s tx => (runTx σ s tx).1) {}

end StorageModel.C04
