import StorageModel.C04.GenInv
/-
  C04, round 14 — a delete only REMOVES rows, for every schema: after a successful `DeleteById` (any cascade, any
  nesting, any map) every row of every store is either exactly as it was or gone; no row appears, no stored fk value
  changes ("… and nothing else").
-/
namespace StorageModel.C04
open StorageModel

def GOnlyRemoves (s s' : GSt) : Prop := ∀ t x, s'.ent t x = s.ent t x ∨ s'.ent t x = none

theorem GOnlyRemoves.refl (s : GSt) : GOnlyRemoves s s := fun _ _ => Or.inl rfl

theorem GOnlyRemoves.trans {a b c : GSt} (h1 : GOnlyRemoves a b) (h2 : GOnlyRemoves b c) : GOnlyRemoves a c := by
  intro t x
  rcases h2 t x with h | h
  · rcases h1 t x with h' | h'
    · exact Or.inl (h.trans h')
    · exact Or.inr (h.trans h')
  · exact Or.inr h

theorem GOnlyRemoves.setBack (s : GSt) (i : Nat) (y : Bytes) (l : List Bytes) : GOnlyRemoves s (s.setBack i y l) :=
  fun _ _ => Or.inl rfl

theorem GOnlyRemoves.dropEnt (σ : GSchema) (s : GSt) (t : Nat) (id : Bytes) : GOnlyRemoves s (s.dropEnt σ t id) := by
  intro t' x
  simp only [GSt.dropEnt]
  split
  · exact Or.inr rfl
  · exact Or.inl rfl

abbrev GDelOk (del : GMarks → GSt → Nat → Bytes → GResM) : Prop :=
  ∀ m s t x s' m', del m s t x = (.ok s', m') → GOnlyRemoves s s'

theorem gLoop_onlyRemoves (del : GMarks → GSt → Nat → Bytes → GResM) (hdel : GDelOk del) (i : Nat) (d : GDecl)
    (id : Bytes) : ∀ (l : List Bytes) (s : GSt) (m : GMarks) (s' : GSt) (m' : GMarks),
      gLoop del i d id l s m = (.ok s', m') → GOnlyRemoves s s' := by
  intro l
  induction l with
  | nil => intro s m s' m' h; simp only [gLoop] at h; cases h; exact GOnlyRemoves.refl _
  | cons x rest ih =>
    intro s m s' m' h
    simp only [gLoop] at h
    split at h
    · exact ih s m s' m' h
    · split at h
      · split at h
        · next s1 m1 heq => exact (hdel m s d.src x s1 m1 heq).trans (ih s1 m1 s' m' h)
        · cases h
      · exact ih s m s' m' h

theorem gBefore1_onlyRemoves (del : GMarks → GSt → Nat → Bytes → GResM) (hdel : GDelOk del) (t : Nat) (id : Bytes)
    (s : GSt) (m : GMarks) (c : GC) (s' : GSt) (m' : GMarks) (h : gBefore1 del t id s m c = (.ok s', m')) :
    GOnlyRemoves s s' := by
  cases c with
  | own i d =>
    simp only [gBefore1] at h
    split at h
    · split at h
      · split at h
        · cases h; exact GOnlyRemoves.setBack _ _ _ _
        · cases h; exact GOnlyRemoves.refl _
      · cases h; exact GOnlyRemoves.refl _
    · cases h; exact GOnlyRemoves.refl _
  | del i d =>
    simp only [gBefore1] at h
    split at h
    · have : (gLoop del i d id (gReferrers s i d id) s (if decide ((t, id) ∈ m) = true then m else (t, id) :: m)).1 = .ok s' :=
        congrArg Prod.fst h
      exact gLoop_onlyRemoves del hdel i d id _ s _ s' _ (Prod.ext this rfl)
    · split at h
      · split at h
        · cases h
        · cases h; exact GOnlyRemoves.refl _
      · split at h
        · cases h
        · cases h; exact GOnlyRemoves.refl _

theorem gPass_onlyRemoves (del : GMarks → GSt → Nat → Bytes → GResM) (hdel : GDelOk del) (t : Nat) (id : Bytes) :
    ∀ (l : List GC) (s : GSt) (m : GMarks) (s' : GSt) (m' : GMarks),
      gPass del t id l s m = (.ok s', m') → GOnlyRemoves s s' := by
  intro l
  induction l with
  | nil => intro s m s' m' h; simp only [gPass] at h; cases h; exact GOnlyRemoves.refl _
  | cons c rest ih =>
    intro s m s' m' h
    simp only [gPass] at h
    split at h
    · next s1 m1 heq => exact (gBefore1_onlyRemoves del hdel t id s m c s1 m1 heq).trans (ih s1 m1 s' m' h)
    · cases h

theorem gDelete_onlyRemoves (σ : GSchema) : ∀ (n : Nat), GDelOk (gDelete σ n) := by
  intro n
  induction n with
  | zero => intro m s t x s' m' h; simp only [gDelete] at h; cases h
  | succ n ih =>
    intro m s t x s' m' h
    simp only [gDelete] at h
    split at h
    · cases h
    · split at h
      · next s1 m1 heq =>
        split at h
        · cases h
          exact (gPass_onlyRemoves (gDelete σ n) ih t x _ s m s1 _ heq).trans (GOnlyRemoves.dropEnt σ s1 t x)
        · cases h
      · cases h

/-- and the deleted entity itself is gone -/
theorem gDelete_removes_self (σ : GSchema) (n : Nat) (m : GMarks) (s : GSt) (t : Nat) (id : Bytes) (s' : GSt) (m' : GMarks)
    (h : gDelete σ n m s t id = (.ok s', m')) : s'.ent t id = none := by
  cases n with
  | zero => simp only [gDelete] at h; cases h
  | succ n =>
    simp only [gDelete] at h
    split at h
    · cases h
    · split at h
      · split at h
        · cases h; simp [GSt.dropEnt]
        · cases h
      · cases h

end StorageModel.C04
