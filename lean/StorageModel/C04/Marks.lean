import StorageModel.C04.Model
/-
  C04 — the "cascading delete in progress" set as what it is in the code: STATE of the `MutateContext`
  (`cascadeDeletesInProgress(ctx)`: a map stored in the context's `context.Context`), not a parameter.  It
  outlives the operation and — when the caller reuses the context object for several `Db.Update` calls — the
  transaction; a rolled-back transaction does not roll it back.

  `Model.lean` passes the set DOWN the recursion (`prog`), which is only right if every
  `fkDeleteCascadeConstraint.ProcessBeforeDelete` leaves the map as it found it — on every exit, also when a
  referrer's delete fails and the loop returns early (`defer delete(inProgress, self)`).  Here the same functions
  are written state-passing, branch by branch as the code mutates the map: the entry is added unless present,
  the loop consults the CURRENT map, the entry is removed on the way out iff this call added it.
  `MarksProofs.lean` proves that the map always comes back unchanged (`cascade_marks_balanced`) and that this
  model computes exactly what `Model.lean` computes — so a failed cascade leaves nothing behind in the context
  and later cascades, in the same transaction or in a later one on the same context, are exact.
-/
namespace StorageModel.C04
open StorageModel

/-- the in-progress map of one `MutateContext`: keys `"things\x00" ++ id` (`a`) and `"owners\x00" ++ id` (`b`) -/
structure Ctx where
  a : List Bytes := []
  b : List Bytes := []
deriving DecidableEq, Repr

abbrev ResM := Res × Ctx

/-- the cascade loop over the current map -/
def cascadeOverM (del : Ctx → St → Bytes → ResM) (f : EntA → FV) (id : Bytes) :
    List Bytes → St → Ctx → ResM
  | [], s, m => (.ok s, m)
  | x :: rest, s, m =>
    if x ∈ m.a then cascadeOverM del f id rest s m                     -- busy: cursor.Next()
    else if isReferrer s f id x then
      match del m s x with
      | (.ok s', m') => cascadeOverM del f id rest s' m'
      | (.error e, m') => (.error e, m')                               -- SetError … return (the deferred delete still runs)
    else cascadeOverM del f id rest s m

/-- `ProcessBeforeDelete` of one constraint of A -/
def beforeDeleteAM (del : Ctx → St → Bytes → ResM) (id : Bytes) (s : St) (m : Ctx) (c : CA) : ResM :=
  match c with
  | .bossCascade =>
    let nested := decide (id ∈ m.a)
    let m1 : Ctx := if nested then m else { m with a := id :: m.a }    -- inProgress[self] = struct{}{}
    let r := cascadeOverM del (·.boss) id (referrers s (·.boss) id) s m1
    (r.1, if nested then r.2 else { r.2 with a := r.2.a.filter (fun k => decide (k ≠ id)) })   -- defer delete(inProgress, self)
  | c => (beforeDeleteA (fun _ _ _ => .error .other) [] id s c, m)       -- the index steps do not touch the map

def passAM (σ : Schema) (del : Ctx → St → Bytes → ResM) (id : Bytes) : List CA → St → Ctx → ResM
  | [], s, m => (.ok s, m)
  | c :: rest, s, m =>
    match beforeDeleteAM del id s m c with
    | (.ok s', m') => passAM σ del id rest s' m'
    | (.error e, m') => (.error e, m')

def roundsAM (σ : Schema) (del : Ctx → St → Bytes → ResM) (id : Bytes) : List (Option Child) → St → Ctx → ResM
  | [], s, m => (.ok s, m)
  | r :: rest, s, m =>
    match passAM σ del id (orderA σ) s m with
    | (.ok s1, m') => roundsAM σ del id rest (afterRound σ id s1 r) m'
    | (.error e, m') => (.error e, m')

/-- `BaseStore.DeleteById` on A, the in-progress map threaded through -/
def deleteAM (σ : Schema) : Nat → Ctx → St → Bytes → ResM
  | 0, m, _, _ => (.error .diverge, m)
  | n + 1, m, s, id =>
    if s.as.contains id then
      match roundsAM σ (deleteAM σ n) id (roundsOf σ s id) s m with
      | (.ok s1, m') =>
        if s1.as.contains id then
          if σ.protect = some id then (.error .veto, m')
          else (.ok { s1 with as := s1.as.erase id, minions := s1.minions.erase id }, m')
        else (.error .other, m')
      | (.error e, m') => (.error e, m')
    else (.error .notFound, m)

/-- `ProcessBeforeDelete` of one constraint of B -/
def beforeDeleteBM (σ : Schema) (n : Nat) (id : Bytes) (s : St) (m : Ctx) (c : CB) : ResM :=
  match c with
  | .depCascade =>
    if σ.depCascade then
      let nested := decide (id ∈ m.b)
      let m1 : Ctx := if nested then m else { m with b := id :: m.b }
      let r := cascadeOverM (deleteAM σ n) (·.dep) id (referrers s (·.dep) id) s m1
      (r.1, if nested then r.2 else { r.2 with b := r.2.b.filter (fun k => decide (k ≠ id)) })
    else (beforeDeleteB σ (fun _ _ => .error .other) id s .depCascade, m)      -- CascadeNone: no map access
  | .thingsRestrict => (beforeDeleteB σ (fun _ _ => .error .other) id s .thingsRestrict, m)

def passBM (σ : Schema) (n : Nat) (id : Bytes) : List CB → St → Ctx → ResM
  | [], s, m => (.ok s, m)
  | c :: rest, s, m =>
    match beforeDeleteBM σ n id s m c with
    | (.ok s', m') => passBM σ n id rest s' m'
    | (.error e, m') => (.error e, m')

def deleteBM (σ : Schema) (m : Ctx) (s : St) (id : Bytes) : ResM :=
  if s.bs.contains id then
    match passBM σ (fuelOf s) id (orderB σ) s m with
    | (.ok s1, m') =>
      if childRestrict σ s1 id .c1 || childRestrict σ s1 id .c2 then (.error .refExists, m')
      else if s1.bs.contains id then
        (.ok { s1 with bs := s1.bs.erase id, things := s1.things.erase id,
                       mentees1 := s1.mentees1.erase id, mentees2 := s1.mentees2.erase id }, m')
      else (.error .other, m')
    | (.error e, m') => (.error e, m')
  else (.error .notFound, m)

/-- one operation on a mutate context whose in-progress map is `m` -/
def applyM (σ : Schema) (m : Ctx) (s : St) : Op → ResM
  | .deleteA id => deleteAM σ (fuelOf s) m s id
  | .deleteC id => deleteAM σ (fuelOf s) m s id
  | .deleteAV id v => deleteAM (σ.withProtect v) (fuelOf s) m s id
  | .deleteB id => deleteBM σ m s id
  | .deleteBV id v => deleteBM (σ.withProtect v) m s id
  | op => (apply σ s op, m)

/-- a transaction on context map `m`: the first failing operation rolls the DATABASE back — not the context -/
def runTxMFrom (σ : Schema) (s0 : St) : Nat → Ctx → St → List Op → (St × Option (Nat × Err)) × Ctx
  | _, m, s, [] => ((s, none), m)
  | i, m, s, op :: rest =>
    match applyM σ m s op with
    | (.ok s', m') => runTxMFrom σ s0 (i + 1) m' s' rest
    | (.error e, m') => ((s0, some (i, e)), m')

def runTxM (σ : Schema) (m : Ctx) (s : St) (ops : List Op) : (St × Option (Nat × Err)) × Ctx := runTxMFrom σ s 0 m s ops

/-- a history; `reuse`: the caller passes ONE `MutateContext` to every `Db.Update` (otherwise a fresh one each time) -/
def runHistoryM (σ : Schema) (reuse : Bool) (txs : List (List Op)) : St × Ctx :=
  txs.foldl (fun (acc : St × Ctx) tx =>
    let r := runTxM σ (if reuse then acc.2 else {}) acc.1 tx
    (r.1.1, r.2)) ({}, {})

end StorageModel.C04
