import StorageModel.C04.GenProofs
/-
  C04, round 14 — restrict over the schema-parametric model, for EVERY schema:
  a store `t` that no cascading declaration targets, a restrict declaration `i` targeting it and a referrer `r`
  that remains (through the back-reference set of an fk index: `r ≠ id`; through an fk constraint: any row)
  ⇒ `DeleteById(t, id)` = reference-exists, whatever the other declarations, their order and the map are.
-/
namespace StorageModel.C04
open StorageModel

def GC.noCascade : GC → Bool
  | .own _ _ => true
  | .del _ d => !d.cascade

/-- `r` blocks the delete of `(tgt, id)` through declaration `i`: listed in the back-reference set (fk index; a
    self reference does not block — the own-side entry takes it out first), or a referring row (fk constraint) -/
def GBlocks (s : GSt) (i : Nat) (d : GDecl) (id r : Bytes) : Prop :=
  if d.index then r ∈ s.back i id ∧ r ≠ id else (gIsRef s i d id r = true ∧ (d.src, r) ∈ s.ids)

theorem GBlocks_setBack (s : GSt) (i : Nat) (d : GDecl) (id r : Bytes) (j : Nat) (v : Bytes)
    (h : GBlocks s i d id r) : GBlocks (s.setBack j v (setDel id (s.back j v))) i d id r := by
  unfold GBlocks at *
  split
  · next hi =>
    simp only [hi, if_true] at h
    refine ⟨?_, h.2⟩
    simp only [GSt.setBack]
    split
    · next hc =>
      obtain ⟨hj, hv⟩ := hc
      subst hj; subst hv
      exact (mem_setDel id r _).mpr ⟨h.2, h.1⟩
    · exact h.1
  · next hi =>
    simp only [hi] at h
    exact h

theorem gBefore1_noCascade (del : GMarks → GSt → Nat → Bytes → GResM) (t : Nat) (id : Bytes) (s : GSt) (m : GMarks)
    (c : GC) (hc : c.noCascade = true) (i : Nat) (d : GDecl) (r : Bytes) (hb : GBlocks s i d id r) :
    (∃ s', gBefore1 del t id s m c = (.ok s', m) ∧ GBlocks s' i d id r) ∨
      gBefore1 del t id s m c = (.error .refExists, m) := by
  cases c with
  | own j e =>
    left
    simp only [gBefore1]
    split
    · split
      · split
        · exact ⟨_, rfl, GBlocks_setBack s i d id r j _ hb⟩
        · exact ⟨_, rfl, hb⟩
      · exact ⟨_, rfl, hb⟩
    · exact ⟨_, rfl, hb⟩
  | del j e =>
    have he : e.cascade = false := by simpa [GC.noCascade] using hc
    simp only [gBefore1, he, Bool.false_eq_true, if_false]
    split
    · split
      · right; rfl
      · left; exact ⟨_, rfl, hb⟩
    · split
      · right; rfl
      · left; exact ⟨_, rfl, hb⟩

theorem gBefore1_blocked (del : GMarks → GSt → Nat → Bytes → GResM) (t : Nat) (id : Bytes) (s : GSt) (m : GMarks)
    (i : Nat) (d : GDecl) (r : Bytes) (hd : d.cascade = false) (hb : GBlocks s i d id r) :
    gBefore1 del t id s m (.del i d) = (.error .refExists, m) := by
  unfold GBlocks at hb
  simp only [gBefore1, hd, Bool.false_eq_true, if_false]
  split
  · next hi =>
    simp only [hi, if_true] at hb
    have : s.back i id ≠ [] := List.ne_nil_of_mem hb.1
    simp [this]
  · next hi =>
    simp only [hi] at hb
    have hm : r ∈ gReferrers s i d id := by
      simp only [gReferrers, mem_sortB, List.mem_map, List.mem_filter]
      exact ⟨(d.src, r), ⟨hb.2, by simp [hb.1]⟩, rfl⟩
    have : gReferrers s i d id ≠ [] := List.ne_nil_of_mem hm
    simp [this]

theorem gPass_blocked (del : GMarks → GSt → Nat → Bytes → GResM) (t : Nat) (id : Bytes) (m : GMarks)
    (i : Nat) (d : GDecl) (r : Bytes) (hd : d.cascade = false) :
    ∀ (l : List GC) (s : GSt), (∀ c ∈ l, c.noCascade = true) → GC.del i d ∈ l → GBlocks s i d id r →
      gPass del t id l s m = (.error .refExists, m) := by
  intro l
  induction l with
  | nil => intro s _ hm _; cases hm
  | cons c rest ih =>
    intro s hall hm hb
    simp only [gPass]
    rcases gBefore1_noCascade del t id s m c (hall c (List.mem_cons_self ..)) i d r hb with ⟨s', hs', hb'⟩ | he
    · rw [hs']
      simp only
      rcases List.mem_cons.mp hm with hc | hr
      · subst hc
        rw [gBefore1_blocked del t id s m i d r hd hb] at hs'
        cases hs'
      · exact ih s' (fun c hc => hall c (List.mem_cons_of_mem _ hc)) hr hb'
    · rw [he]

theorem mem_gConstraints_del (σ : GSchema) (t i : Nat) (d : GDecl) (h : (i, d) ∈ gDecls σ) (ht : d.tgt = t) :
    GC.del i d ∈ gConstraints σ t := by
  simp only [gConstraints, List.mem_flatMap]
  refine ⟨(i, d), h, ?_⟩
  simp [ht]

theorem gConstraints_noCascade (σ : GSchema) (t : Nat)
    (h : ∀ p ∈ gDecls σ, p.2.tgt = t → p.2.cascade = false) : ∀ c ∈ gConstraints σ t, c.noCascade = true := by
  intro c hc
  simp only [gConstraints, List.mem_flatMap] at hc
  obtain ⟨p, hp, hc⟩ := hc
  rcases List.mem_append.mp hc with h1 | h2
  · split at h1
    · simp only [List.mem_singleton] at h1; subst h1; rfl
    · cases h1
  · split at h2
    · next ht => simp only [List.mem_singleton] at h2; subst h2; simp [GC.noCascade, h p hp ht]
    · cases h2

/-- restrict refuses: every schema, every registration order, every map -/
theorem gDelete_restrict_refuses (σ : GSchema) (n : Nat) (m : GMarks) (s : GSt) (t : Nat) (id : Bytes)
    (i : Nat) (d : GDecl) (r : Bytes) (hlive : s.live t id = true)
    (hdecl : (i, d) ∈ gDecls σ) (ht : d.tgt = t) (hd : d.cascade = false)
    (hnone : ∀ p ∈ gDecls σ, p.2.tgt = t → p.2.cascade = false)
    (hb : GBlocks s i d id r) :
    gDelete σ (n + 1) m s t id = (.error .refExists, m) := by
  simp only [gDelete, hlive, Bool.not_true, Bool.false_eq_true, if_false]
  rw [gPass_blocked (gDelete σ n) t id m i d r hd (gConstraints σ t) s (gConstraints_noCascade σ t hnone)
    (mem_gConstraints_del σ t i d hdecl ht) hb]

end StorageModel.C04

namespace StorageModel.C04
open StorageModel

/-! ### writes: a successful create / update leaves every (re)written reference pointing at an existing entity -/

theorem gAfter1_ent (i : Nat) (d : GDecl) (t : Nat) (id : Bytes) (c : Bool) (old new : Bytes) (s s' : GSt)
    (h : gAfter1 i d t id c old new s = .ok s') : s'.ent = s.ent := by
  unfold gAfter1 at h
  split at h
  · cases h; rfl
  · split at h
    · cases h; rfl
    · split at h
      · split at h
        · cases h
        · next s1 hs1 =>
          have e1 : s1.ent = s.ent := by
            split at hs1
            · split at hs1
              · cases hs1; rfl
              · cases hs1
            · cases hs1; rfl
          split at h
          · split at h
            · cases h; exact e1
            · cases h
          · split at h
            · cases h; exact e1
            · cases h
      · split at h
        · split at h
          · cases h; rfl
          · cases h
        · split at h
          · cases h; rfl
          · cases h

theorem gAfter1_target (i : Nat) (d : GDecl) (t : Nat) (id : Bytes) (c : Bool) (old new : Bytes) (s s' : GSt)
    (h : gAfter1 i d t id c old new s = .ok s') (hs : d.src = t) (hc : c = true ∨ old ≠ new) (hn : new ≠ []) :
    s.live d.tgt new = true := by
  unfold gAfter1 at h
  split at h
  · next h1 => exact absurd hs h1
  · split at h
    · next h2 =>
      rcases hc with hc | hc
      · subst hc; simp at h2
      · exact absurd h2.2 hc
    · split at h
      · split at h
        · cases h
        · next s1 hs1 =>
          have e1 : s1.ent = s.ent := by
            split at hs1
            · split at hs1
              · cases hs1; rfl
              · cases hs1
            · cases hs1; rfl
          split at h
          · next hl => simpa [GSt.live, e1] using hl
          · cases h
      · split at h
        · next hl => exact hl
        · cases h

theorem gAfterAll_target (t : Nat) (id : Bytes) (c : Bool) (oldRow newRow : GRow) :
    ∀ (l : List (Nat × GDecl)) (s s' : GSt), gAfterAll t id c oldRow newRow l s = .ok s' →
      s'.ent = s.ent ∧ ∀ p ∈ l, p.2.src = t → (c = true ∨ evalVal (oldRow p.1) ≠ evalVal (newRow p.1)) →
        evalVal (newRow p.1) ≠ [] → s.live p.2.tgt (evalVal (newRow p.1)) = true := by
  intro l
  induction l with
  | nil => intro s s' h; cases h; exact ⟨rfl, fun p hp => by cases hp⟩
  | cons q rest ih =>
    intro s s' h
    obtain ⟨i, d⟩ := q
    simp only [gAfterAll] at h
    split at h
    · next s1 h1 =>
      have e1 := gAfter1_ent i d t id c _ _ s s1 h1
      obtain ⟨e2, h2⟩ := ih s1 s' h
      refine ⟨e2.trans e1, ?_⟩
      intro p hp hsrc hch hn
      rcases List.mem_cons.mp hp with rfl | hr
      · exact gAfter1_target i d t id c _ _ s s1 h1 hsrc hch hn
      · have := h2 p hr hsrc hch hn
        simpa [GSt.live, e1] using this
    · cases h

end StorageModel.C04

namespace StorageModel.C04
open StorageModel

/-- every stored non-empty fk value names an existing entity of the declared target store -/
def GTargetInv (σ : GSchema) (s : GSt) : Prop :=
  ∀ t x row, s.ent t x = some row → ∀ p ∈ gDecls σ, p.2.src = t → evalVal (row p.1) ≠ [] →
    s.live p.2.tgt (evalVal (row p.1)) = true

theorem live_setEnt_mono (s : GSt) (t : Nat) (id : Bytes) (row : GRow) (a : Nat) (b : Bytes)
    (h : s.live a b = true) : (s.setEnt t id (some row)).live a b = true := by
  simp only [GSt.live, GSt.setEnt] at h ⊢
  split
  · rfl
  · exact h

theorem gCreate_targetInv (σ : GSchema) (s : GSt) (t : Nat) (id : Bytes) (row : GRow) (s' : GSt)
    (h : gCreate σ s t id row = .ok s') (hinv : GTargetInv σ s) : GTargetInv σ s' := by
  unfold gCreate at h
  split at h
  · cases h
  · split at h
    · cases h
    · obtain ⟨he, ht⟩ := gAfterAll_target t id true (fun _ => none) row (gDecls σ) _ s' h
      intro t' x row' hrow p hp hsrc hn
      have hl : ∀ a b, s'.live a b = (s.setEnt t id (some row)).live a b := by intro a b; simp [GSt.live, he]
      rw [hl]
      rw [he] at hrow
      simp only [GSt.setEnt] at hrow
      split at hrow
      · next hc =>
        obtain ⟨h1, h2⟩ := hc
        subst h1; subst h2
        cases hrow
        exact ht p hp hsrc (Or.inl rfl) hn
      · exact live_setEnt_mono s t id row _ _ (hinv t' x row' hrow p hp hsrc hn)

theorem gUpdate_targetInv (σ : GSchema) (s : GSt) (t : Nat) (id : Bytes) (sel : Nat → Bool) (row : GRow) (s' : GSt)
    (h : gUpdate σ s t id sel row = .ok s') (hinv : GTargetInv σ s) : GTargetInv σ s' := by
  unfold gUpdate at h
  split at h
  · cases h
  · split at h
    · cases h
    · next cur hcur =>
      simp only at h
      obtain ⟨he, ht⟩ := gAfterAll_target t id false cur _ (gDecls σ) _ s' h
      intro t' x row' hrow p hp hsrc hn
      have hl : ∀ a b, s'.live a b = (s.setEnt t id (some fun i => if sel i = true then row i else cur i)).live a b := by
        intro a b; simp [GSt.live, he]
      rw [hl]
      rw [he] at hrow
      simp only [GSt.setEnt] at hrow
      split at hrow
      · next hc =>
        obtain ⟨h1, h2⟩ := hc
        subst h1; subst h2
        cases hrow
        by_cases hch : evalVal (cur p.1) = evalVal (if sel p.1 = true then row p.1 else cur p.1)
        · rw [← hch] at hn ⊢
          exact live_setEnt_mono s _ _ _ _ _ (hinv _ _ cur hcur p hp hsrc hn)
        · exact ht p hp hsrc (Or.inr hch) hn
      · exact live_setEnt_mono s t id _ _ _ (hinv t' x row' hrow p hp hsrc hn)

theorem GTargetInv_empty (σ : GSchema) : GTargetInv σ GSt.empty := by
  intro t x row h; cases h

end StorageModel.C04

namespace StorageModel.C04
open StorageModel

theorem gCreate_targets (σ : GSchema) (s : GSt) (t : Nat) (id : Bytes) (row : GRow) (s' : GSt)
    (h : gCreate σ s t id row = .ok s') :
    ∀ p ∈ gDecls σ, p.2.src = t → evalVal (row p.1) ≠ [] → s'.live p.2.tgt (evalVal (row p.1)) = true := by
  unfold gCreate at h
  split at h
  · cases h
  · split at h
    · cases h
    · obtain ⟨he, ht⟩ := gAfterAll_target t id true (fun _ => none) row (gDecls σ) _ s' h
      intro p hp hsrc hn
      have := ht p hp hsrc (Or.inl rfl) hn
      simpa [GSt.live, he] using this

end StorageModel.C04
