import StorageModel.C04.Child
/-
  C04 — exactness of restrict and cascade (statements re-exported as property theorems in
  Properties/C04.lean; kept here so that SpecProofs.lean can use them too).
-/
namespace StorageModel.C04
open StorageModel

/-- **Restrict refuses**: while an A entity refers to `b` through `owner` — or through `dep` in the
    restrict variant — deleting `b` returns the reference-exists error and changes nothing.
    (Excluded: the variant in which the dep *cascade* is registered before the restrict check; there
    the cascade runs first, see `deleteB_no_orphans`.) -/
theorem deleteB_refuses (σ : Schema) (s : St) (b : Bytes) (hI : Inv σ s) (hb : s.bs.contains b = true)
    (href : (∃ k e, s.as.lookup k = some e ∧ evalVal e.owner = b ∧ b ≠ []) ∨
            (σ.depCascade = false ∧ ∃ k e, s.as.lookup k = some e ∧ e.dep = some b))
    (hord : ¬ (σ.depFirst = true ∧ σ.depCascade = true)) :
    step σ s (.deleteB b) = (s, some .refExists) := by
  have hthings : (∃ k e, s.as.lookup k = some e ∧ evalVal e.owner = b ∧ b ≠ []) →
      ∀ delA, beforeDeleteB σ delA b s .thingsRestrict = .error .refExists := by
    rintro ⟨k, e, he, hv, hne⟩ delA
    have hm : k ∈ (s.things.lookup b).getD [] := (hI.things b k).2 ⟨e, he, hv, hne, fun h => h⟩
    simp only [beforeDeleteB]
    split
    · rfl
    · next hemp =>
      have : (s.things.lookup b).getD [] = [] := by simpa using hemp
      rw [this] at hm; cases hm
  have hdep : σ.depCascade = false → (∃ k e, s.as.lookup k = some e ∧ e.dep = some b) →
      ∀ delA, beforeDeleteB σ delA b s .depCascade = .error .refExists := by
    rintro hc ⟨k, e, he, hv⟩ delA
    have hm : k ∈ referrers s (·.dep) b := (mem_referrers s _ b k).2 ((isReferrer_iff s _ b k).2 ⟨e, he, hv⟩)
    simp only [beforeDeleteB, hc, Bool.false_eq_true, if_false]
    split
    · rfl
    · next hemp =>
      have : referrers s (·.dep) b = [] := by simpa using hemp
      rw [this] at hm; cases hm
  have hrestrict_ok : ∀ delA, beforeDeleteB σ delA b s .thingsRestrict = .ok s ∨
      beforeDeleteB σ delA b s .thingsRestrict = .error .refExists := by
    intro delA; simp only [beforeDeleteB]; split <;> simp
  have hdep_ok : σ.depCascade = false → ∀ delA, beforeDeleteB σ delA b s .depCascade = .ok s ∨
      beforeDeleteB σ delA b s .depCascade = .error .refExists := by
    intro hc delA; simp only [beforeDeleteB, hc, Bool.false_eq_true, if_false]; split <;> simp
  unfold step apply deleteB
  simp only [hb, if_true]
  unfold orderB
  cases hdf : σ.depFirst
  case false =>
    simp only [Bool.false_eq_true, if_false, List.foldlM_cons, List.foldlM_nil]
    rcases href with h | ⟨hc, h⟩
    · rw [hthings h]; rfl
    · rcases hrestrict_ok (deleteA σ (fuelOf s) []) with h1 | h1
      · rw [h1]; simp only [bind, Except.bind]; rw [hdep hc h]
      · rw [h1]; rfl
  case true =>
    have hc : σ.depCascade = false := by
      cases hcc : σ.depCascade with
      | false => rfl
      | true => exact absurd ⟨hdf, hcc⟩ hord
    simp only [if_true, List.foldlM_cons, List.foldlM_nil]
    rcases href with h | ⟨_, h⟩
    · rcases hdep_ok hc (deleteA σ (fuelOf s) []) with h1 | h1
      · rw [h1]; simp only [bind, Except.bind]; rw [hthings h]
      · rw [h1]; rfl
    · rw [hdep hc h]; rfl

/-- in *every* variant a successful delete of `b` leaves no entity referring to `b` -/
theorem deleteB_no_orphans (σ : Schema) (s s' : St) (b : Bytes) (hI : Inv σ s)
    (h : apply σ s (.deleteB b) = .ok s') (k : Bytes) (e : EntA) (he : s'.as.lookup k = some e) :
    (evalVal e.owner ≠ [] → evalVal e.owner ≠ b) ∧ (evalVal e.dep ≠ [] → evalVal e.dep ≠ b) := by
  obtain ⟨hI', _, hbs⟩ := deleteB_inv hI h
  have hgone : s'.bs.contains b = false := by
    cases hc : s'.bs.contains b with
    | false => rfl
    | true =>
      obtain ⟨v, hv⟩ := (Map.contains_iff _ _).1 hc
      rw [hbs] at hv; simp at hv
  constructor
  · intro hne hv
    have := hI'.ownerT k e he hne
    rw [hv, hgone] at this; cases this
  · intro hne hv
    have := hI'.depT k e he hne
    rw [hv, hgone] at this; cases this

/-- **Cascade on A is exact**, for every id: a successful `DeleteById` removes the target and exactly
    the entities that refer to it transitively through `boss`; every other entity keeps its stored
    values, table B is untouched. -/
theorem deleteA_exact (σ : Schema) (s s' : St) (id : Bytes) (hI : Inv σ s)
    (h : apply σ s (.deleteA id) = .ok s') :
    s'.bs = s.bs ∧
    (∀ k e, s'.as.lookup k = some e → s.as.lookup k = some e) ∧
    (∀ k, s'.as.lookup k = none ↔ (s.as.lookup k = none ∨ k = id ∨ Reach s.as id k)) := by
  obtain ⟨hI', hsub, hid, hbs⟩ := deleteA_inv σ _ none' [] s id s' hI (fun _ h => by cases h) h
  obtain ⟨_, hrem⟩ := deleteA_removed σ _ [] s id s' h
  refine ⟨hbs, hsub, ?_⟩
  intro k
  constructor
  · intro hn
    cases hk : s.as.lookup k with
    | none => exact Or.inl rfl
    | some e => exact Or.inr ((hrem k e hk hn).imp (fun h => h) (·.2))
  · rintro (hn | rfl | hr)
    · cases hk : s'.as.lookup k with
      | none => rfl
      | some e => have := hsub k e hk; rw [hn] at this; cases this
    · exact hid
    · exact reach_removed hI' hsub hid hr

/-- **Cascade on B is exact**, for every id: a successful `DeleteById` on B removes `b` from B and from A
    exactly the entities that refer to `b` through `dep` together with their transitive `boss`
    referrers (none in the restrict variant, where a successful delete means there were none). -/
theorem deleteB_exact (σ : Schema) (s s' : St) (b : Bytes) (hI : Inv σ s)
    (h : apply σ s (.deleteB b) = .ok s') :
    s'.bs = s.bs.erase b ∧
    (∀ k e, s'.as.lookup k = some e → s.as.lookup k = some e) ∧
    (∀ k, s'.as.lookup k = none ↔ (s.as.lookup k = none ∨ RemovedVia (·.dep) s.as b k)) := by
  obtain ⟨hI', hsub, hbs⟩ := deleteB_inv hI h
  obtain ⟨_, hrem⟩ := deleteB_removed h
  obtain ⟨hb, _⟩ := deleteB_succ_ok hI h
  have hbne : b ≠ [] := by
    intro hb0; subst hb0
    obtain ⟨v, hv⟩ := (Map.contains_iff _ _).1 hb
    rw [hI.nonEmptyB] at hv; cases hv
  refine ⟨hbs, hsub, ?_⟩
  intro k
  constructor
  · intro hn
    cases hk : s.as.lookup k with
    | none => exact Or.inl rfl
    | some e => exact Or.inr (hrem k e hk hn)
  · rintro (hn | ⟨x, ex, hx, hfx, hkx⟩)
    · cases hk : s'.as.lookup k with
      | none => rfl
      | some e => have := hsub k e hk; rw [hn] at this; cases this
    · have hxgone : s'.as.lookup x = none := by
        cases hx' : s'.as.lookup x with
        | none => rfl
        | some e' =>
          have := hsub x e' hx'
          rw [hx] at this; cases this
          have hv : evalVal ex.dep = b := by simp [evalVal, hfx]
          exact ((deleteB_no_orphans σ s s' b hI h x ex hx').2 (hv ▸ hbne) hv).elim
      rcases hkx with rfl | hr
      · exact hxgone
      · exact reach_removed hI' hsub hxgone hr

/-! ### which errors `DeleteById` on A can return at all -/

theorem cascadeOver_error {del : St → Bytes → Res} {f : EntA → FV} {id : Bytes} {skip : List Bytes} {e : Err} :
    ∀ (cands : List Bytes) (st : St), cascadeOver del f id skip cands st = .error e → ∃ st' x, del st' x = .error e := by
  intro cands
  induction cands with
  | nil => intro st h; simp [cascadeOver, List.foldlM_nil, pure, Except.pure] at h
  | cons c rest ih =>
    intro st h
    simp only [cascadeOver, List.foldlM_cons, bind_error] at h
    rcases h with h1 | ⟨st1, _, h2⟩
    · split at h1
      · cases h1
      · split at h1
        · exact ⟨st, c, h1⟩
        · cases h1
    · exact ih st1 h2

theorem passA_error {σ : Schema} {del : List Bytes → St → Bytes → Res} {prog : List Bytes} {s : St} {id : Bytes} {e : Err}
    (hF : passA σ del prog id s = .error e) : e = .notFound ∨ ∃ st x, del (mark prog id) st x = .error e := by
  have hown : ∀ st, beforeDeleteA del prog id st .ownerIdx = .error e → e = .notFound := by
    intro st h; rw [ownerDel_eq] at h; cases h
  have hboss : ∀ st, beforeDeleteA del prog id st .bossIdx = .error e → e = .notFound := by
    intro st h; rw [bossDel_eq] at h; cases h
  have hcas : ∀ st, beforeDeleteA del prog id st .bossCascade = .error e → ∃ st x, del (mark prog id) st x = .error e :=
    fun st h => cascadeOver_error _ st h
  unfold passA orderA at hF
  cases hdf : σ.depFirst
  case true =>
    simp only [hdf, if_true, List.foldlM_cons, List.foldlM_nil, bind_error] at hF
    rcases hF with h0 | ⟨s0, h0, hF⟩
    · simp [beforeDeleteA] at h0
    · rcases hF with h1 | ⟨s1, h1, hF⟩
      · exact Or.inl (hown _ h1)
      · rcases hF with h2 | ⟨s2, h2, hF⟩
        · exact Or.inl (hboss _ h2)
        · rcases hF with h3 | ⟨s3, h3, hF⟩
          · exact Or.inr (hcas _ h3)
          · cases hF
  case false =>
    simp only [hdf, Bool.false_eq_true, if_false, List.foldlM_cons, List.foldlM_nil, bind_error] at hF
    rcases hF with h1 | ⟨s1, h1, hF⟩
    · exact Or.inl (hown _ h1)
    · rcases hF with h2 | ⟨s2, h2, hF⟩
      · exact Or.inl (hboss _ h2)
      · rcases hF with h3 | ⟨s3, h3, hF⟩
        · exact Or.inr (hcas _ h3)
        · rcases hF with h4 | ⟨s4, h4, hF⟩
          · simp [beforeDeleteA] at h4
          · cases hF

/-- `DeleteById` on A never returns the reference-exists error (nor null-not-allowed); a veto only while the
    caller's entity constraint protects an entity -/
theorem deleteA_error (σ : Schema) : ∀ (n : Nat) (prog : List Bytes) (s : St) (id : Bytes) (e : Err),
    deleteA σ n prog s id = .error e → e = .notFound ∨ e = .other ∨ e = .diverge ∨ (e = .veto ∧ σ.protect ≠ none) := by
  intro n
  induction n with
  | zero => intro prog s id e h; simp only [deleteA] at h; cases h; exact Or.inr (Or.inr (Or.inl rfl))
  | succ n ih =>
    intro prog s id e h
    have hpass : ∀ st, passA σ (deleteA σ n) prog id st = .error e → e = .notFound ∨ e = .other ∨ e = .diverge ∨ (e = .veto ∧ σ.protect ≠ none) := by
      intro st hp
      rcases passA_error hp with h1 | ⟨st', x, h1⟩
      · exact Or.inl h1
      · exact ih _ _ _ _ h1
    have hrounds : ∀ (l : List (Option Child)) (st : St), l.foldlM (roundA σ (deleteA σ n) prog id) st = .error e →
        e = .notFound ∨ e = .other ∨ e = .diverge ∨ (e = .veto ∧ σ.protect ≠ none) := by
      intro l
      induction l with
      | nil => intro st hl; simp [List.foldlM_nil, pure, Except.pure] at hl
      | cons r rest ihl =>
        intro st hl
        simp only [List.foldlM_cons, bind_error] at hl
        rcases hl with h1 | ⟨st1, _, h2⟩
        · unfold roundA at h1
          split at h1
          · cases h1
          · next e' hp => cases h1; exact hpass _ hp
        · exact ihl st1 h2
    unfold deleteA at h
    split at h
    · split at h
      · split at h
        · split at h
          · next hv => cases h; exact Or.inr (Or.inr (Or.inr ⟨rfl, by rw [hv]; simp⟩))
          · cases h
        · cases h; exact Or.inr (Or.inl rfl)
      · next e' hF => cases h; exact hrounds _ _ hF
    · cases h; exact Or.inl rfl

/-! ### a successful delete never removed the protected entity -/

theorem Reach.exists_entry {as : Map EntA} {id k : Bytes} (h : Reach as id k) : ∃ e, as.lookup k = some e := by
  cases h with
  | direct he _ => exact ⟨_, he⟩
  | step _ he _ => exact ⟨_, he⟩

theorem deleteA_keeps_protected (σ : Schema) {v : Bytes} (hv : σ.protect = some v) {e : EntA} :
    ∀ (n : Nat) (prog : List Bytes) (s : St) (id : Bytes) (s' : St),
      deleteA σ n prog s id = .ok s' → s.as.lookup v = some e → s'.as.lookup v = some e := by
  intro n
  induction n with
  | zero => intro prog s id s' h; simp [deleteA] at h
  | succ n ih =>
    intro prog s id s' h he
    obtain ⟨_, s3, hF, _, rfl, hne⟩ := deleteA_succ_ok h
    have hvid : v ≠ id := by intro hh; subst hh; exact hne hv
    have h3 : s3.as.lookup v = some e := by
      refine foldlM_pres (R := fun st => st.as.lookup v = some e) ?_ _ s s3 he hF
      intro st r st' hst hr
      obtain ⟨sp, ⟨s1, s2, h1, h2, hc⟩, _, rfl⟩ := roundA_ok hr
      have g := roundA_geq (σ := σ) (s3 := sp) (id := id) r
      rw [g.1]
      refine cascadeOver_pres (R := fun st => st.as.lookup v = some e)
        (fun st x st' a b => ih (mark prog id) st x st' b a) _ s2 sp ?_ hc
      rw [bossDel_as h2, ownerDel_as h1]; exact hst
    simp only [Map.lookup_erase, hvid, if_false]
    exact h3

theorem deleteB_keeps_protected {σ : Schema} {v : Bytes} (hv : σ.protect = some v) {e : EntA} {s s' : St} {id : Bytes}
    (hI : Inv σ s) (h : deleteB σ s id = .ok s') (he : s.as.lookup v = some e) : s'.as.lookup v = some e := by
  obtain ⟨_, s2, _, _, _, _, _, hF, _, _, rfl⟩ := deleteB_succ_ok hI h
  show s2.as.lookup v = some e
  refine foldlM_pres (R := fun st => st.as.lookup v = some e) ?_ _ s s2 he hF
  intro st cb st' hst hstep
  cases cb with
  | thingsRestrict =>
    simp only [beforeDeleteB] at hstep
    split at hstep
    · cases hstep
    · cases hstep; exact hst
  | depCascade =>
    simp only [beforeDeleteB] at hstep
    split at hstep
    · exact cascadeOver_pres (R := fun st => st.as.lookup v = some e)
        (fun st x st' a b => deleteA_keeps_protected σ hv _ _ st x st' b a) _ _ st' hst hstep
    · split at hstep
      · cases hstep
      · cases hstep; exact hst

/-- a reference-exists refusal has a reason: some entity refers to `b` through `owner`, or — restrict
    variant — through `dep` -/
theorem deleteB_refExists_inv {σ : Schema} {s : St} {b : Bytes} (hI : Inv σ s) (hM : CInv σ s)
    (h : deleteB σ s b = .error .refExists) :
    (∃ k e, s.as.lookup k = some e ∧ evalVal e.owner = b ∧ b ≠ []) ∨
    (σ.depCascade = false ∧ ∃ k e, s.as.lookup k = some e ∧ e.dep = some b) ∨
    (∃ c k e, s.as.lookup k = some e ∧ (mentorOf σ c e = some b ∨ guardOf σ c e = some b)) := by
  have hR : ∀ st, Inv σ st → Sub st s →
      beforeDeleteB σ (deleteA σ (fuelOf s) []) b st .thingsRestrict = .error .refExists →
      ∃ k e, s.as.lookup k = some e ∧ evalVal e.owner = b ∧ b ≠ [] := by
    intro st hst hsub hr
    simp only [beforeDeleteB] at hr
    split at hr
    · next hne =>
      obtain ⟨k, hk⟩ := List.exists_mem_of_ne_nil _ hne
      obtain ⟨e, he, hv, hb, _⟩ := (hst.things b k).1 hk
      exact ⟨k, e, hsub k e he, hv, hb⟩
    · cases hr
  have hC : ∀ st, Inv σ st → st.as = s.as →
      beforeDeleteB σ (deleteA σ (fuelOf s) []) b st .depCascade = .error .refExists →
      σ.depCascade = false ∧ ∃ k e, s.as.lookup k = some e ∧ e.dep = some b := by
    intro st hst has hr
    simp only [beforeDeleteB] at hr
    split at hr
    · exfalso
      obtain ⟨st', x, hx⟩ := cascadeOver_error _ st hr
      rcases deleteA_error σ _ _ _ _ _ hx with h' | h' | h' | ⟨h', _⟩ <;> cases h'
    · next hnc =>
      split at hr
      · next hne =>
        obtain ⟨k, hk⟩ := List.exists_mem_of_ne_nil _ hne
        obtain ⟨e, he, hf⟩ := (isReferrer_iff st _ b k).1 ((mem_referrers st _ b k).1 hk)
        exact ⟨by simpa using hnc, k, e, has ▸ he, hf⟩
      · cases hr
  unfold deleteB at h
  split at h
  · next hb =>
    split at h
    · next sF hF =>
      split at h
      · next hcr =>
        -- refused by a restrict check of a child-declared fk
        right; right
        obtain ⟨_, hsub, _, _, _⟩ := deleteB_fold_ok hI hF
        have hMF : CInv σ sF := deleteB_fold_cinv hM hF
        have hbne : b ≠ [] := by
          intro hb0; subst hb0
          obtain ⟨v, hv⟩ := (Map.contains_iff _ _).1 hb
          rw [hI.nonEmptyB] at hv; cases hv
        have key : ∀ c, childRestrict σ sF b c = true →
            ∃ k e, s.as.lookup k = some e ∧ (mentorOf σ c e = some b ∨ guardOf σ c e = some b) := by
          intro c hc
          simp only [childRestrict, Bool.or_eq_true, Bool.and_eq_true, decide_eq_true_eq] at hc
          rcases hc with ⟨_, hne⟩ | hne
          · obtain ⟨k, hk⟩ := List.exists_mem_of_ne_nil _ hne
            obtain ⟨e, he, hv, _, _⟩ := ((hMF.men c) b k).1 hk
            exact ⟨k, e, hsub k e he, Or.inl (evalVal_eq_some hv hbne)⟩
          · obtain ⟨k, hk⟩ := List.exists_mem_of_ne_nil _ hne
            obtain ⟨e, he, hf⟩ := (isReferrer_iff sF _ b k).1 ((mem_referrers sF _ b k).1 hk)
            exact ⟨k, e, hsub k e he, Or.inr hf⟩
        rcases Bool.or_eq_true_iff.1 hcr with h1 | h1
        · obtain ⟨k, e, he, hx⟩ := key .c1 h1; exact ⟨.c1, k, e, he, hx⟩
        · obtain ⟨k, e, he, hx⟩ := key .c2 h1; exact ⟨.c2, k, e, he, hx⟩
      · split at h
        · cases h
        · cases h
    · next e hF =>
      cases h
      unfold orderB at hF
      cases hdf : σ.depFirst
      case true =>
        simp only [hdf, if_true, List.foldlM_cons, List.foldlM_nil, bind_error] at hF
        rcases hF with h1 | ⟨s1, h1, hF⟩
        · exact Or.inr (Or.inl (hC s hI rfl h1))
        · obtain ⟨a, b', _, _⟩ := depCascadeStep hI h1
          rcases hF with h2 | ⟨s2, h2, hF⟩
          · exact Or.inl (hR s1 a b' h2)
          · cases hF
      case false =>
        simp only [hdf, Bool.false_eq_true, if_false, List.foldlM_cons, List.foldlM_nil, bind_error] at hF
        rcases hF with h1 | ⟨s1, h1, hF⟩
        · exact Or.inl (hR s hI (Sub.refl _) h1)
        · obtain ⟨rfl, _⟩ := restrictStep hI h1
          rcases hF with h2 | ⟨s2, h2, hF⟩
          · exact Or.inr (Or.inl (hC s1 hI rfl h2))
          · cases hF
  · cases h

/-- **Restrict refuses for the child-declared fks too**: while an entity refers to `b` through a mentor index or
    a guard constraint that one of the child stores declares, deleting `b` returns the reference-exists error and
    changes nothing — in the variants where no cascade runs before these checks (`dep` restricts). -/
theorem deleteB_refuses_child (σ : Schema) (s : St) (b : Bytes) (hI : Inv σ s) (hM : CInv σ s)
    (hb : s.bs.contains b = true) (hnc : σ.depCascade = false)
    (href : ∃ c k e, s.as.lookup k = some e ∧ (mentorOf σ c e = some b ∨ guardOf σ c e = some b)) :
    step σ s (.deleteB b) = (s, some .refExists) := by
  have hbne : b ≠ [] := by
    intro hb0; subst hb0
    obtain ⟨v, hv⟩ := (Map.contains_iff _ _).1 hb
    rw [hI.nonEmptyB] at hv; cases hv
  have hrestrict_ok : ∀ delA st, beforeDeleteB σ delA b st .thingsRestrict = .ok st ∨
      beforeDeleteB σ delA b st .thingsRestrict = .error .refExists := by
    intro delA st; simp only [beforeDeleteB]; split <;> simp
  have hdep_ok : ∀ delA st, beforeDeleteB σ delA b st .depCascade = .ok st ∨
      beforeDeleteB σ delA b st .depCascade = .error .refExists := by
    intro delA st; simp only [beforeDeleteB, hnc, Bool.false_eq_true, if_false]; split <;> simp
  have okb : ∀ (a : St) (f : St → Res), (Except.ok a >>= f) = f a := fun _ _ => rfl
  have errb : ∀ (e : Err) (f : St → Res), ((Except.error e : Res) >>= f) = .error e := fun _ _ => rfl
  have hfold : (orderB σ).foldlM (beforeDeleteB σ (deleteA σ (fuelOf s) []) b) s = .ok s ∨
      (orderB σ).foldlM (beforeDeleteB σ (deleteA σ (fuelOf s) []) b) s = .error .refExists := by
    unfold orderB
    cases hdf : σ.depFirst
    case true =>
      simp only [if_true, List.foldlM_cons, List.foldlM_nil]
      rcases hdep_ok (deleteA σ (fuelOf s) []) s with h1 | h1
      · rw [h1, okb]
        rcases hrestrict_ok (deleteA σ (fuelOf s) []) s with h2 | h2
        · rw [h2, okb]; exact Or.inl rfl
        · rw [h2, errb]; exact Or.inr rfl
      · rw [h1, errb]; exact Or.inr rfl
    case false =>
      simp only [Bool.false_eq_true, if_false, List.foldlM_cons, List.foldlM_nil]
      rcases hrestrict_ok (deleteA σ (fuelOf s) []) s with h1 | h1
      · rw [h1, okb]
        rcases hdep_ok (deleteA σ (fuelOf s) []) s with h2 | h2
        · rw [h2, okb]; exact Or.inl rfl
        · rw [h2, errb]; exact Or.inr rfl
      · rw [h1, errb]; exact Or.inr rfl
  have hcr : (childRestrict σ s b .c1 || childRestrict σ s b .c2) = true := by
    obtain ⟨c, k, e, he, hx⟩ := href
    have hc : childRestrict σ s b c = true := by
      simp only [childRestrict, Bool.or_eq_true, Bool.and_eq_true, decide_eq_true_eq]
      rcases hx with hm | hg
      · left
        have hidx : σ.idx c = true := by
          cases hi : σ.idx c with
          | true => rfl
          | false => rw [mentorOf_undeclared hi] at hm; cases hm
        refine ⟨hidx, ?_⟩
        have hk : k ∈ ((s.mentees c).lookup b).getD [] :=
          ((hM.men c) b k).2 ⟨e, he, by simp [evalVal, hm], hbne, fun h => h⟩
        intro hn; rw [hn] at hk; cases hk
      · right
        have hk : k ∈ referrers s (guardOf σ c) b := (mem_referrers s _ b k).2 ((isReferrer_iff s _ b k).2 ⟨e, he, hg⟩)
        intro hn; rw [hn] at hk; cases hk
    cases c
    · simp [hc]
    · simp [hc]
  unfold step apply deleteB
  simp only [hb, if_true]
  rcases hfold with h1 | h1
  · rw [h1]; simp only [hcr, if_true]
  · rw [h1]

end StorageModel.C04
