import StorageModel.C04.Model
/-
  C04, round 14 — ONE schema-parametric model of the fk machinery of boltz/indexes.go + store_crud.go for ROOT stores:

    a schema is a finite list of fk DECLARATIONS over stores 0, 1, 2, …; declaration number `i` (registration
    order = list order) is

        (declaring store `src`, its field number `i`, target store `tgt`,
         kind: fk INDEX with a back-reference set on the target | fk CONSTRAINT, nullable?, delete rule: restrict | cascade)

      index,  restrict  =  AddFkIndex / AddNullableFkIndex      → `fkIndex` on src, `fkDeleteConstraint` on tgt
      index,  cascade   =  AddFkIndexCascadeDelete (never nullable) → `fkIndex` on src, `fkDeleteCascadeConstraint{CascadeDelete}` on tgt
      constr, restrict  =  AddFkConstraint(.., CascadeNone)     → `fkConstraint` on src, `fkDeleteCascadeConstraint{CascadeNone}` on tgt
      constr, cascade   =  AddFkConstraint(.., CascadeDelete)   → `fkConstraint` on src, `fkDeleteCascadeConstraint{CascadeDelete}` on tgt

    self references (src = tgt), cycles across stores and several declarations between the same two stores are
    just lists.  `Indexer.constraints` of store `t` = for every declaration in order: its own-side entry if
    `src = t`, then its delete-side entry if `tgt = t` (`gConstraints`).

  Followed branch by branch: `Create` / `Update` with a field checker (`ProcessBeforeUpdate` captures, persist of the
  selected fields, `ProcessAfterUpdate` of every constraint, first error wins), `fkIndex.ProcessAfterUpdate` (unchanged
  shortcut, remove-old through `getIndexBucket` — not-found when the old target is gone —, add-new, null check),
  `fkConstraint.ProcessAfterUpdate`, `DeleteById` = `processDeleteConstraints` in registration order then `DeleteEntity`,
  `fkIndex.ProcessBeforeDelete` (skipped when the target is gone, 001d2d2), `fkDeleteConstraint` (set non-empty →
  reference-exists), `fkDeleteCascadeConstraint` (CascadeNone: a referrer row → reference-exists; CascadeDelete: the
  in-progress map of the MutateContext — STATE, threaded through everything —, the loop over the referrers stepping over
  busy ones, nested `DeleteById` which runs the referrer store's whole constraint list, a refusal inside the loop
  propagates).  The first model (stores A/B) and the chain of round 9 are the schemas `schemaAB` / `schemaChain`.

  State: functions (store, id) ↦ row and (declaration, target id) ↦ member list, plus the list of every key ever
  created (iteration order is never part of the state: cursors are sorted explicitly).
-/
namespace StorageModel.C04
open StorageModel

structure GDecl where
  src : Nat
  tgt : Nat
  /-- fk index with a back-reference set (otherwise: fk constraint) -/
  index : Bool
  nullable : Bool
  /-- delete rule: cascade-delete (otherwise restrict) -/
  cascade : Bool
deriving DecidableEq, Repr

/-- `AddFkIndexCascadeDelete` builds its `fkIndex` with `nullable: false` -/
def GDecl.nullOk (d : GDecl) : Bool := d.nullable && !(d.index && d.cascade)

abbrev GSchema := List GDecl
abbrev GKey := Nat × Bytes
/-- declaration number ↦ stored value of that field -/
abbrev GRow := Nat → FV

structure GSt where
  ent : Nat → Bytes → Option GRow
  back : Nat → Bytes → List Bytes
  ids : List GKey

def GSt.empty : GSt := ⟨fun _ _ => none, fun _ _ => [], []⟩

def GSt.live (s : GSt) (t : Nat) (id : Bytes) : Bool := (s.ent t id).isSome

def GSt.setEnt (s : GSt) (t : Nat) (id : Bytes) (r : Option GRow) : GSt :=
  { s with ent := fun t' x => if t' = t ∧ x = id then r else s.ent t' x,
           ids := if (t, id) ∈ s.ids then s.ids else (t, id) :: s.ids }

def GSt.setBack (s : GSt) (i : Nat) (y : Bytes) (l : List Bytes) : GSt :=
  { s with back := fun i' y' => if i' = i ∧ y' = y then l else s.back i' y' }

/-- numbered declarations -/
def gDecls (σ : GSchema) : List (Nat × GDecl) := (List.range σ.length).zip σ

/-! ### create / update -/

/-- `ProcessAfterUpdate` of the own-side entry of declaration `i` for row `id` of store `t` -/
def gAfter1 (i : Nat) (d : GDecl) (t : Nat) (id : Bytes) (isCreate : Bool) (old new : Bytes) (s : GSt) : Except Err GSt :=
  if d.src ≠ t then .ok s
  else if !isCreate ∧ old = new then .ok s
  else if d.index then
    match (if old ≠ [] then
             (if s.live d.tgt old then Except.ok (s.setBack i old (setDel id (s.back i old))) else .error Err.notFound)
           else .ok s) with
    | .error e => .error e
    | .ok s1 =>
      if new ≠ [] then
        (if s1.live d.tgt new then .ok (s1.setBack i new (setIns id (s1.back i new))) else .error .notFound)
      else if d.nullOk then .ok s1 else .error .nullNotAllowed
  else
    if new ≠ [] then (if s.live d.tgt new then .ok s else .error .notFound)
    else if d.nullOk then .ok s else .error .nullNotAllowed

def gAfterAll (t : Nat) (id : Bytes) (isCreate : Bool) (oldRow newRow : GRow) : List (Nat × GDecl) → GSt → Except Err GSt
  | [], s => .ok s
  | (i, d) :: rest, s =>
    match gAfter1 i d t id isCreate (evalVal (oldRow i)) (evalVal (newRow i)) s with
    | .ok s' => gAfterAll t id isCreate oldRow newRow rest s'
    | .error e => .error e

def gCreate (σ : GSchema) (s : GSt) (t : Nat) (id : Bytes) (row : GRow) : Except Err GSt :=
  if id = [] then .error .other
  else if s.live t id then .error .other
  else gAfterAll t id true (fun _ => none) row (gDecls σ) (s.setEnt t id (some row))

/-- `Update` with a field checker: `sel i` = the checker lets field `i` through (nil checker: every field) -/
def gUpdate (σ : GSchema) (s : GSt) (t : Nat) (id : Bytes) (sel : Nat → Bool) (row : GRow) : Except Err GSt :=
  if id = [] then .error .other
  else match s.ent t id with
    | none => .error .notFound
    | some cur =>
      let new : GRow := fun i => if sel i then row i else cur i
      gAfterAll t id false cur new (gDecls σ) (s.setEnt t id (some new))

/-! ### delete -/

/-- the in-progress map of the MutateContext: keys `<entity type> \0 <id>` -/
abbrev GMarks := List GKey
abbrev GResM := Except Err GSt × GMarks

/-- `fkReferrerFilter.EvalBool` on row `x` of the declaring store: `val != nil && *val == id` -/
def gIsRef (s : GSt) (i : Nat) (d : GDecl) (id x : Bytes) : Bool :=
  match s.ent d.src x with
  | some r => (match r i with | some v => v == id | none => false)
  | none => false

/-- the ids `IterateValidIds(tx, &fkReferrerFilter{…})` yields, in key order -/
def gReferrers (s : GSt) (i : Nat) (d : GDecl) (id : Bytes) : List Bytes :=
  sortB ((s.ids.filter (fun k => k.1 == d.src && gIsRef s i d id k.2)).map (·.2))

/-- the entries of `Indexer.constraints` of one store -/
inductive GC
  | own (i : Nat) (d : GDecl)
  | del (i : Nat) (d : GDecl)

def gConstraints (σ : GSchema) (t : Nat) : List GC :=
  (gDecls σ).flatMap fun p =>
    (if p.2.src = t then [GC.own p.1 p.2] else []) ++ (if p.2.tgt = t then [GC.del p.1 p.2] else [])

/-- the cascade loop over the CURRENT in-progress map -/
def gLoop (del : GMarks → GSt → Nat → Bytes → GResM) (i : Nat) (d : GDecl) (id : Bytes) :
    List Bytes → GSt → GMarks → GResM
  | [], s, m => (.ok s, m)
  | x :: rest, s, m =>
    if (d.src, x) ∈ m then gLoop del i d id rest s m                       -- busy: cursor.Next()
    else if gIsRef s i d id x then
      match del m s d.src x with
      | (.ok s', m') => gLoop del i d id rest s' m'
      | (.error e, m') => (.error e, m')                                   -- SetError … return
    else gLoop del i d id rest s m

/-- `ProcessBeforeDelete` of one constraint entry of store `t` for row `id` -/
def gBefore1 (del : GMarks → GSt → Nat → Bytes → GResM) (t : Nat) (id : Bytes) (s : GSt) (m : GMarks) : GC → GResM
  | .own i d =>
    if d.index then
      match s.ent t id with
      | some row =>
        let v := evalVal (row i)
        if v ≠ [] ∧ s.live d.tgt v then (.ok (s.setBack i v (setDel id (s.back i v))), m) else (.ok s, m)
      | none => (.ok s, m)
    else (.ok s, m)                                                        -- fkConstraint.ProcessBeforeDelete: nothing
  | .del i d =>
    if d.cascade then
      let nested := decide ((t, id) ∈ m)
      let m1 := if nested then m else (t, id) :: m                         -- inProgress[self] = struct{}{}
      let r := gLoop del i d id (gReferrers s i d id) s m1
      (r.1, if nested then r.2 else r.2.filter (fun k => decide (k ≠ (t, id))))   -- defer delete(inProgress, self)
    else if d.index then
      (if s.back i id ≠ [] then (.error .refExists, m) else (.ok s, m))    -- fkDeleteConstraint
    else
      (if gReferrers s i d id ≠ [] then (.error .refExists, m) else (.ok s, m))   -- CascadeNone

def gPass (del : GMarks → GSt → Nat → Bytes → GResM) (t : Nat) (id : Bytes) : List GC → GSt → GMarks → GResM
  | [], s, m => (.ok s, m)
  | c :: rest, s, m =>
    match gBefore1 del t id s m c with
    | (.ok s', m') => gPass del t id rest s' m'
    | (.error e, m') => (.error e, m')

/-- `DeleteEntity`: the entity bucket goes, with every back-reference set below it -/
def GSt.dropEnt (σ : GSchema) (s : GSt) (t : Nat) (id : Bytes) : GSt :=
  { s with ent := fun t' x => if t' = t ∧ x = id then none else s.ent t' x,
           back := fun i y => if y = id ∧ (σ[i]?.map (·.tgt)) = some t then [] else s.back i y }

/-- `DeleteById` (fuel = nesting depth; `gFuel` is enough: every nesting level holds another live entity in the map) -/
def gDelete (σ : GSchema) : Nat → GMarks → GSt → Nat → Bytes → GResM
  | 0, m, _, _, _ => (.error .diverge, m)
  | n + 1, m, s, t, id =>
    if !s.live t id then (.error .notFound, m)
    else match gPass (gDelete σ n) t id (gConstraints σ t) s m with
      | (.ok s1, m1) => if s1.live t id then (.ok (s1.dropEnt σ t id), m1) else (.error .other, m1)
      | (.error e, m1) => (.error e, m1)

def gFuel (s : GSt) : Nat := s.ids.length + 1

/-! ### operations, transactions, histories -/

inductive GOp
  | create (t : Nat) (id : Bytes) (row : GRow)
  | update (t : Nat) (id : Bytes) (sel : Nat → Bool) (row : GRow)
  | delete (t : Nat) (id : Bytes)

def gApply (σ : GSchema) (m : GMarks) (s : GSt) : GOp → GResM
  | .create t id row => (gCreate σ s t id row, m)
  | .update t id sel row => (gUpdate σ s t id sel row, m)
  | .delete t id => gDelete σ (gFuel s) m s t id

/-- a transaction: the first failing operation rolls the state back — the map of the context is NOT rolled back -/
def gRunOps (σ : GSchema) : Nat → List GOp → GSt → GMarks → (Option (Nat × Err) × GSt × GMarks)
  | _, [], s, m => (none, s, m)
  | k, op :: rest, s, m =>
    match gApply σ m s op with
    | (.ok s', m') => gRunOps σ (k + 1) rest s' m'
    | (.error e, m') => (some (k, e), s, m')

def gRunTx (σ : GSchema) (m : GMarks) (s : GSt) (tx : List GOp) : (GSt × Option (Nat × Err)) × GMarks :=
  match gRunOps σ 0 tx s m with
  | (none, s', m') => ((s', none), m')
  | (some e, _, m') => ((s, some e), m')

/-- a history of transactions; `reuse` = one MutateContext object for all of them -/
def gRunHistory (σ : GSchema) (reuse : Bool) : List (List GOp) → GSt → GMarks → GSt × GMarks
  | [], s, m => (s, m)
  | tx :: rest, s, m =>
    let r := gRunTx σ (if reuse then m else []) s tx
    gRunHistory σ reuse rest r.1.1 (if reuse then r.2 else [])

/-! ### the spec side: entity tables only -/

/-- one round of the cascade closure: everything that refers, through a cascading declaration, to a member -/
def gGrow (σ : GSchema) (s : GSt) (c : List GKey) : List GKey :=
  c ++ s.ids.filter (fun k => !c.contains k && s.live k.1 k.2 &&
    (gDecls σ).any (fun p => p.2.cascade && p.2.src == k.1 && c.any (fun y => y.1 == p.2.tgt && gIsRef s p.1 p.2 y.2 k.2)))

def gClosure (σ : GSchema) (s : GSt) (t : Nat) (id : Bytes) : List GKey :=
  (List.range (s.ids.length + 1)).foldl (fun c _ => gGrow σ s c) [(t, id)]

/-- live rows outside `c` that refer to a member of `c` through a RESTRICT declaration -/
def gBlockers (σ : GSchema) (s : GSt) (c : List GKey) (inside : Bool) : Bool :=
  s.ids.any fun k => s.live k.1 k.2 && (c.contains k == inside) &&
    (gDecls σ).any (fun p => !p.2.cascade && p.2.src == k.1 && c.any (fun y => y.1 == p.2.tgt && gIsRef s p.1 p.2 y.2 k.2))

/-- back-reference sets as the property defines them: the referrers -/
def gDerive (σ : GSchema) (s : GSt) : GSt :=
  { s with back := fun i y => match σ[i]? with
      | some d => if d.index then (s.ids.filter (fun k => k.1 == d.src && gIsRef s i d y k.2)).map (·.2) else []
      | none => [] }

def gSpecWrite (σ : GSchema) (s : GSt) (t : Nat) (id : Bytes) (isCreate : Bool) (old new : GRow) : Except Err GSt :=
  let s1 := s.setEnt t id (some new)
  match (gDecls σ).filterMap (fun p =>
      if p.2.src ≠ t then none
      else if !isCreate ∧ evalVal (old p.1) = evalVal (new p.1) then none
      else if evalVal (new p.1) ≠ [] then (if s1.live p.2.tgt (evalVal (new p.1)) then none else some Err.notFound)
      else if p.2.nullOk then none else some Err.nullNotAllowed) with
  | [] => .ok s1
  | e :: _ => .error e

/-- the spec of one operation on entity tables.  For a delete whose only restrict referrers lie INSIDE the removal
    set the property allows both outcomes (refused, or everything removed — "restrict refuses when referrers REMAIN"):
    `tie` selects one of them; `gSpecOutcomes` lists every allowed outcome, the oracle accepts either. -/
def gSpecApply (σ : GSchema) (s : GSt) (tie : Bool) : GOp → Except Err GSt
  | .create t id row =>
    if id = [] then .error .other else if s.live t id then .error .other
    else gSpecWrite σ s t id true (fun _ => none) row
  | .update t id sel row =>
    if id = [] then .error .other
    else match s.ent t id with
      | none => .error .notFound
      | some cur => gSpecWrite σ s t id false cur (fun i => if sel i then row i else cur i)
  | .delete t id =>
    if !s.live t id then .error .notFound
    else
      let c := gClosure σ s t id
      if gBlockers σ s c false then .error .refExists
      else if gBlockers σ s c true ∧ !tie then .error .refExists
      else .ok { s with ent := fun t' x => if c.contains (t', x) then none else s.ent t' x }

/-- every outcome the property allows for one operation (two only for the delete described above) -/
def gSpecOutcomes (σ : GSchema) (s : GSt) (op : GOp) : List (Except Err GSt) :=
  match gSpecApply σ s false op, gSpecApply σ s true op with
  | .error e, .ok s' => [.error e, .ok s']
  | r, _ => [r]

/-! ### the two earlier models as schemas -/

/-- stores A = 0 ("things"), B = 1 ("owners"): owner (nullable index → B), boss (cascading index → A, self
    reference), dep (constraint → B, variant) in the registration order dep-last -/
def schemaAB (depCascade depNullable : Bool) : GSchema :=
  [⟨0, 1, true, true, false⟩, ⟨0, 0, true, false, true⟩, ⟨0, 1, false, depNullable, depCascade⟩]

/-- the chain owners = 0 ← items = 1 ← notes = 2 of round 9 -/
def schemaChain (casc1 null1 casc2 null2 : Bool) : GSchema :=
  [⟨1, 0, false, null1, casc1⟩, ⟨2, 1, false, null2, casc2⟩]

end StorageModel.C04
