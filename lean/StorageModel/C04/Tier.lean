import StorageModel.C04.Model
/-
  C04, round 9 — fk constraints over a CHAIN of three stores, every combination of restrict / cascade on
  the two links (a restrict-protected entity can be REACHED BY A CASCADE that started one store further up):

      T0 ("zowners")  <-- ref --  T1 ("zitems")  <-- ref --  T2 ("znotes")

  wired as in /verif/harness/c04_tier.go:
      items.AddFkConstraint(items.ref -> owners, null1, casc1 ? CascadeDelete : CascadeNone)
      notes.AddFkConstraint(notes.ref -> items,  null2, casc2 ? CascadeDelete : CascadeNone)

  so `Indexer.AddFkConstraint` puts an `fkConstraint` on the referring store (existence check on
  create / update) and an `fkDeleteCascadeConstraint` on the TARGET store (`ProcessBeforeDelete`: restrict
  check or cascade loop).  Followed branch by branch: `BaseStore.Create` / `Update` (nil checker) /
  `DeleteById`, `fkConstraint.ProcessAfterUpdate`, `fkDeleteCascadeConstraint.ProcessBeforeDelete` with
  `fkReferrerFilter.EvalBool`, the nested `DeleteById` of every referrer INSIDE the loop — which runs the
  referrer store's own `ProcessBeforeDelete` constraints, so a restrict constraint of a lower link is
  consulted for every entity a cascade reaches — the first-error-wins error holder, transactions.

  The in-progress map of the mutate context is keyed by `<entity type> \0 <id>`; the loop of a link only asks
  about entities of the REFERRING store, a cascade only ever marks entities of stores further up the chain,
  the three entity types are distinct and contain no NUL: no referrer is ever stepped over here (the
  correspondence exercises it with one id naming an entity in all three stores).  State = the three tables.
-/
namespace StorageModel.C04
open StorageModel

structure TSchema where
  /-- `AddFkConstraint(items.ref, _, CascadeDelete)` (otherwise `CascadeNone`) -/
  casc1 : Bool
  null1 : Bool
  /-- `AddFkConstraint(notes.ref, _, CascadeDelete)` (otherwise `CascadeNone`) -/
  casc2 : Bool
  null2 : Bool
deriving DecidableEq, Repr

structure TSt where
  t0 : Map Unit := []
  t1 : Map FV := []
  t2 : Map FV := []

abbrev TRes := Except Err TSt

/-- `fkReferrerFilter.EvalBool` on row `x` of a table: `val != nil && *val == id` -/
def tIsRef (m : Map FV) (id x : Bytes) : Bool :=
  match m.lookup x with
  | some (some v) => v == id
  | _ => false

/-- the ids `IterateValidIds(tx, &fkReferrerFilter{ref, id})` yields, in key order -/
def tReferrers (m : Map FV) (id : Bytes) : List Bytes := sortB (m.keys.filter (tIsRef m id))

/-- `fkConstraint.ProcessAfterUpdate` -/
def tFkCheck (nullable : Bool) (tgt : Bytes → Bool) (isCreate : Bool) (old new : Bytes) : Option Err :=
  if ¬ isCreate ∧ old = new then none
  else if new ≠ [] then (if tgt new then none else some .notFound)
  else if nullable then none else some .nullNotAllowed

def tCreate0 (s : TSt) (id : Bytes) : TRes :=
  if id = [] then .error .other
  else if s.t0.contains id then .error .other
  else .ok { s with t0 := s.t0.insert id () }

def tCreate1 (σ : TSchema) (s : TSt) (id : Bytes) (r : FV) : TRes :=
  if id = [] then .error .other
  else if s.t1.contains id then .error .other
  else match tFkCheck σ.null1 s.t0.contains true [] (evalVal r) with
    | none => .ok { s with t1 := s.t1.insert id r }
    | some e => .error e

def tCreate2 (σ : TSchema) (s : TSt) (id : Bytes) (r : FV) : TRes :=
  if id = [] then .error .other
  else if s.t2.contains id then .error .other
  else match tFkCheck σ.null2 s.t1.contains true [] (evalVal r) with
    | none => .ok { s with t2 := s.t2.insert id r }
    | some e => .error e

/-- `BaseStore.Update` with a nil checker -/
def tUpdate1 (σ : TSchema) (s : TSt) (id : Bytes) (r : FV) : TRes :=
  if id = [] then .error .other
  else match s.t1.lookup id with
    | none => .error .notFound
    | some cur =>
      match tFkCheck σ.null1 s.t0.contains false (evalVal cur) (evalVal r) with
      | none => .ok { s with t1 := s.t1.insert id r }
      | some e => .error e

def tUpdate2 (σ : TSchema) (s : TSt) (id : Bytes) (r : FV) : TRes :=
  if id = [] then .error .other
  else match s.t2.lookup id with
    | none => .error .notFound
    | some cur =>
      match tFkCheck σ.null2 s.t1.contains false (evalVal cur) (evalVal r) with
      | none => .ok { s with t2 := s.t2.insert id r }
      | some e => .error e

/-- the cascade loop (`for cursor.IsValid() { DeleteById(cursor.Current()); cursor.Seek(...) }`): the sorted
    initial candidates, each re-checked at its turn (see `cascadeOver` in Model.lean) -/
def tCascade (del : TSt → Bytes → TRes) (isRef : TSt → Bytes → Bool) (cands : List Bytes) (s : TSt) : TRes :=
  cands.foldlM (fun st x => if isRef st x then del st x else .ok st) s

/-- `DeleteById` on notes: nothing refers to a note -/
def tDelete2 (s : TSt) (id : Bytes) : TRes :=
  if s.t2.contains id then .ok { s with t2 := s.t2.erase id } else .error .notFound

/-- `fkDeleteCascadeConstraint{notes.ref}.ProcessBeforeDelete` for item `id` -/
def tBefore1 (σ : TSchema) (s : TSt) (id : Bytes) : TRes :=
  let refs := tReferrers s.t2 id
  if σ.casc2 then tCascade tDelete2 (fun st x => tIsRef st.t2 id x) refs s
  else if refs ≠ [] then .error .refExists else .ok s

/-- `DeleteById` on items -/
def tDelete1 (σ : TSchema) (s : TSt) (id : Bytes) : TRes :=
  if s.t1.contains id then
    match tBefore1 σ s id with
    | .ok s1 => if s1.t1.contains id then .ok { s1 with t1 := s1.t1.erase id } else .error .other
    | .error e => .error e
  else .error .notFound

/-- `fkDeleteCascadeConstraint{items.ref}.ProcessBeforeDelete` for owner `id`: the nested `DeleteById` of a
    referring item runs the items store's own constraints (`tDelete1`), the restrict check included -/
def tBefore0 (σ : TSchema) (s : TSt) (id : Bytes) : TRes :=
  let refs := tReferrers s.t1 id
  if σ.casc1 then tCascade (tDelete1 σ) (fun st x => tIsRef st.t1 id x) refs s
  else if refs ≠ [] then .error .refExists else .ok s

/-- `DeleteById` on owners -/
def tDelete0 (σ : TSchema) (s : TSt) (id : Bytes) : TRes :=
  if s.t0.contains id then
    match tBefore0 σ s id with
    | .ok s1 => if s1.t0.contains id then .ok { s1 with t0 := s1.t0.erase id } else .error .other
    | .error e => .error e
  else .error .notFound

inductive TOp
  | create0 (id : Bytes)
  | create1 (id : Bytes) (r : FV)
  | create2 (id : Bytes) (r : FV)
  | update1 (id : Bytes) (r : FV)
  | update2 (id : Bytes) (r : FV)
  | delete0 (id : Bytes)
  | delete1 (id : Bytes)
  | delete2 (id : Bytes)
deriving Repr

def tApply (σ : TSchema) (s : TSt) : TOp → TRes
  | .create0 id => tCreate0 s id
  | .create1 id r => tCreate1 σ s id r
  | .create2 id r => tCreate2 σ s id r
  | .update1 id r => tUpdate1 σ s id r
  | .update2 id r => tUpdate2 σ s id r
  | .delete0 id => tDelete0 σ s id
  | .delete1 id => tDelete1 σ s id
  | .delete2 id => tDelete2 s id

/-- a transaction: the first failing operation (index, error) aborts and rolls back everything -/
def tRunTxFrom (σ : TSchema) (s0 : TSt) : Nat → TSt → List TOp → TSt × Option (Nat × Err)
  | _, s, [] => (s, none)
  | i, s, op :: rest =>
    match tApply σ s op with
    | .ok s' => tRunTxFrom σ s0 (i + 1) s' rest
    | .error e => (s0, some (i, e))

def tRunTx (σ : TSchema) (s : TSt) (ops : List TOp) : TSt × Option (Nat × Err) := tRunTxFrom σ s 0 s ops

def tRunHistory (σ : TSchema) (txs : List (List TOp)) : TSt :=
  txs.foldl (fun s tx => (tRunTx σ s tx).1) {}

/-! ### the specification (what the property text says, over the three tables; no loops, no nesting)

    * a write is accepted iff the reference it newly carries names an existing target, or is null / empty and
      the link is nullable;
    * deleting an entity: the removal set is the entity and everything that refers to it through CASCADE links,
      transitively (`specItems`, `specNotes`).  If an entity of the removal set is referred to through a
      RESTRICT link — by anything: an entity that refers through a restrict link is never in a removal set
      here — the delete is refused with reference-exists and nothing changes; otherwise exactly the removal
      set goes. -/

/-- drop every key satisfying `p` -/
def dropKeys {V : Type} (m : Map V) (p : Bytes → Bool) : Map V := m.filter (fun kv => !p kv.1)

/-- some row of the table refers to `id` -/
def tReferred (m : Map FV) (id : Bytes) : Bool := m.keys.any (tIsRef m id)

def specDelete2 (s : TSt) (id : Bytes) : TRes :=
  if s.t2.contains id then .ok { s with t2 := dropKeys s.t2 (· == id) } else .error .notFound

def specDelete1 (σ : TSchema) (s : TSt) (id : Bytes) : TRes :=
  if ¬ s.t1.contains id then .error .notFound
  else if σ.casc2 then
    .ok { s with t1 := dropKeys s.t1 (· == id), t2 := dropKeys s.t2 (tIsRef s.t2 id) }
  else if tReferred s.t2 id then .error .refExists
  else .ok { s with t1 := dropKeys s.t1 (· == id) }

/-- note `n` refers to an item that refers to owner `id` -/
def specNoteOf (s : TSt) (id n : Bytes) : Bool := s.t1.keys.any (fun i => tIsRef s.t1 id i && tIsRef s.t2 i n)

def specDelete0 (σ : TSchema) (s : TSt) (id : Bytes) : TRes :=
  if ¬ s.t0.contains id then .error .notFound
  else if ¬ tReferred s.t1 id then .ok { s with t0 := dropKeys s.t0 (· == id) }
  else if ¬ σ.casc1 then .error .refExists
  else if σ.casc2 then
    .ok { t0 := dropKeys s.t0 (· == id), t1 := dropKeys s.t1 (tIsRef s.t1 id), t2 := dropKeys s.t2 (specNoteOf s id) }
  else if s.t2.keys.any (specNoteOf s id) then .error .refExists        -- a restrict-protected item in the removal set
  else .ok { s with t0 := dropKeys s.t0 (· == id), t1 := dropKeys s.t1 (tIsRef s.t1 id) }

def tSpecWrite (nullable : Bool) (tgt : Bytes → Bool) (isCreate : Bool) (old new : Bytes) : Option Err :=
  if ¬ isCreate ∧ old = new then none                    -- the reference is not newly carried
  else if new = [] then (if nullable then none else some .nullNotAllowed)
  else if tgt new then none else some .notFound

def tSpecApply (σ : TSchema) (s : TSt) : TOp → TRes
  | .create0 id => tCreate0 s id
  | .create1 id r =>
    if id = [] ∨ s.t1.contains id then .error .other
    else match tSpecWrite σ.null1 s.t0.contains true [] (evalVal r) with
      | none => .ok { s with t1 := s.t1.insert id r }
      | some e => .error e
  | .create2 id r =>
    if id = [] ∨ s.t2.contains id then .error .other
    else match tSpecWrite σ.null2 s.t1.contains true [] (evalVal r) with
      | none => .ok { s with t2 := s.t2.insert id r }
      | some e => .error e
  | .update1 id r =>
    if id = [] then .error .other
    else match s.t1.lookup id with
      | none => .error .notFound
      | some cur =>
        match tSpecWrite σ.null1 s.t0.contains false (evalVal cur) (evalVal r) with
        | none => .ok { s with t1 := s.t1.insert id r }
        | some e => .error e
  | .update2 id r =>
    if id = [] then .error .other
    else match s.t2.lookup id with
      | none => .error .notFound
      | some cur =>
        match tSpecWrite σ.null2 s.t1.contains false (evalVal cur) (evalVal r) with
        | none => .ok { s with t2 := s.t2.insert id r }
        | some e => .error e
  | .delete0 id => specDelete0 σ s id
  | .delete1 id => specDelete1 σ s id
  | .delete2 id => specDelete2 s id

def tSpecRunTxFrom (σ : TSchema) (s0 : TSt) : Nat → TSt → List TOp → TSt × Option (Nat × Err)
  | _, s, [] => (s, none)
  | i, s, op :: rest =>
    match tSpecApply σ s op with
    | .ok s' => tSpecRunTxFrom σ s0 (i + 1) s' rest
    | .error e => (s0, some (i, e))

def tSpecRunTx (σ : TSchema) (s : TSt) (ops : List TOp) : TSt × Option (Nat × Err) := tSpecRunTxFrom σ s 0 s ops

end StorageModel.C04
