import StorageModel.C04.Model
/-
  C04 — the specification: what the property text says, over the entity tables alone (no
  back-reference maps, no cursors, no fuel).  Back-reference sets are *derived* from the tables.

    * an A entity may be written only if each fk value it (newly) carries names an existing target
      — or is null/empty and the field is nullable; this holds whichever store the write goes through
      (A itself, or its child store C — a create through C over an existing A entity is a write of
      that entity and judged like a create: every reference it carries must be valid);
    * the back-reference set of a target is, by definition, the set of entities referencing it;
    * deleting an A entity removes it together with everything that transitively refers to it
      through `boss` (cascade) and nothing else;
    * deleting a B entity is refused while an A entity refers to it through `owner` (restrict), through a
      mentor / guard fk declared by one of the child stores (restrict) or,
      in the restrict variant, through `dep`; in the cascade variant the `dep` referrers go, with
      their transitive `boss` referrers, and nothing else.

  The order in which several violated rules are reported is taken from the schema (constraint
  registration order), as is the order restrict-check / cascade on B.
-/
namespace StorageModel.C04
open StorageModel

structure SSt where
  as : Map EntA := []
  bs : Map Unit := []

/-- the rules the fks DECLARED BY a child store impose on a write through it (mentor index, guard
    constraint: both nullable): a newly carried value must name an existing B entity -/
def specCheckChild (σ : Schema) (c : Child) (isCreate : Bool) (oldM oldG : Bytes) (s : SSt) (e : EntA) : Option Err :=
  let vm := evalVal (mentorOf σ c e)
  let vg := evalVal (guardOf σ c e)
  if σ.idx c ∧ ¬ (¬ isCreate ∧ oldM = vm) ∧ vm ≠ [] ∧ ¬ s.bs.contains vm then some .notFound
  else if σ.fk c ∧ ¬ (¬ isCreate ∧ oldG = vg) ∧ vg ≠ [] ∧ ¬ s.bs.contains vg then some .notFound
  else none

abbrev SRes := Except Err SSt

/-- the rule one constraint imposes on a write of A entity `id` (old values `old`, new entity `e`),
    judged against the tables that already contain the new entity -/
def specCheck (σ : Schema) (isCreate : Bool) (old : Olds) (s : SSt) (e : EntA) : CA → Option Err
  | .ownerIdx =>
    let v := evalVal e.owner
    if ¬ isCreate ∧ old.owner = v then none
    else if v ≠ [] ∧ ¬ s.bs.contains v then some .notFound else none
  | .bossIdx =>
    let v := evalVal e.boss
    if ¬ isCreate ∧ old.boss = v then none
    else if v = [] then some .nullNotAllowed
    else if ¬ s.as.contains v then some .notFound else none
  | .bossCascade => none
  | .depFk =>
    let v := evalVal e.dep
    if ¬ isCreate ∧ old.dep = v then none
    else if v = [] then (if σ.depNullable then none else some .nullNotAllowed)
    else if ¬ s.bs.contains v then some .notFound else none

def specWrite (σ : Schema) (isCreate : Bool) (old : Olds) (s : SSt) (id : Bytes) (e : EntA) : SRes :=
  let s' : SSt := { s with as := s.as.insert id e }
  match (orderA σ).findSome? (specCheck σ isCreate old s' e) with
  | some err => .error err
  | none => .ok s'

/-- a write through child store `c`: A's rules, then the rules of the fks `c` declares -/
def specWriteC (σ : Schema) (c : Child) (isCreate : Bool) (old : Olds) (oldM oldG : Bytes) (s : SSt) (id : Bytes)
    (e : EntA) : SRes :=
  match specWrite σ isCreate old s id e with
  | .ok s' =>
    (match specCheckChild σ c isCreate oldM oldG s' e with
     | some err => .error err
     | none => .ok s')
  | .error err => .error err

/-- one round of "add everything whose boss is already in the set" -/
def grow (as : Map EntA) (d : List Bytes) : List Bytes :=
  d ++ as.keys.filter (fun k => decide (k ∉ d) && (match as.lookup k with
    | some e => (match e.boss with | some v => decide (v ∈ d) | none => false)
    | none => false))

def growN (as : Map EntA) : Nat → List Bytes → List Bytes
  | 0, d => d
  | n + 1, d => growN as n (grow as d)

/-- `seeds` plus everything that refers to them transitively through `boss` -/
def closure (as : Map EntA) (seeds : List Bytes) : List Bytes := growN as as.length seeds

def removeAll (as : Map EntA) (d : List Bytes) : Map EntA := as.filter (fun p => decide (p.1 ∉ d))

def specReferrers (as : Map EntA) (f : EntA → FV) (id : Bytes) : List Bytes :=
  as.keys.filter (fun k => match as.lookup k with
    | some e => referrerMatch f id e
    | none => false)

/-- restrict through the child-declared fks: some entity refers to `id` through a declared mentor / guard -/
def specChildRestrict (σ : Schema) (as : Map EntA) (id : Bytes) (c : Child) : Bool :=
  decide (specReferrers as (mentorOf σ c) id ≠ []) || decide (specReferrers as (guardOf σ c) id ≠ [])

/-- the caller's entity constraint protects one of the entities a cascade would have to remove: the whole
    delete is refused with its error (no cascade is ever carried out in part) -/
def Schema.protectedIn (σ : Schema) (d : List Bytes) : Bool :=
  match σ.protect with
  | some v => decide (v ∈ d)
  | none => false

def specDeleteB (σ : Schema) (id : Bytes) (s : SSt) : CB → SRes
  | .thingsRestrict => if specReferrers s.as (·.owner) id ≠ [] then .error .refExists else .ok s
  | .depCascade =>
    let refs := specReferrers s.as (·.dep) id
    if σ.depCascade then
      (if σ.protectedIn (closure s.as refs) then .error .veto
       else .ok { s with as := removeAll s.as (closure s.as refs) })
    else if refs ≠ [] then .error .refExists else .ok s

/-- deleting an A entity removes it together with everything that transitively refers to it — or nothing at
    all when that set contains the protected entity -/
def specDeleteA (σ : Schema) (s : SSt) (id : Bytes) : SRes :=
  if s.as.contains id then
    (if σ.protectedIn (closure s.as [id]) then .error .veto
     else .ok { s with as := removeAll s.as (closure s.as [id]) })
  else .error .notFound

def specDeleteBTop (σ : Schema) (s : SSt) (id : Bytes) : SRes :=
  if s.bs.contains id then do
    let s1 ← (orderB σ).foldlM (specDeleteB σ id) s
    if specChildRestrict σ s1.as id .c1 || specChildRestrict σ s1.as id .c2 then .error .refExists
    else pure { s1 with bs := s1.bs.erase id }
  else .error .notFound

def specApply (σ : Schema) (s : SSt) : Op → SRes
  | .createB id =>
    if id = [] ∨ s.bs.contains id then .error .other else .ok { s with bs := s.bs.insert id () }
  | .createA id e =>
    if id = [] ∨ s.as.contains id then .error .other else specWrite σ true {} s id e.plain
  | .updateA id e mo mb md =>
    if id = [] then .error .other
    else match s.as.lookup id with
      | none => .error .notFound
      | some cur =>
        specWrite σ false { owner := evalVal cur.owner, boss := evalVal cur.boss, dep := evalVal cur.dep } s id
          { owner := if mo then e.owner else cur.owner, boss := if mb then e.boss else cur.boss,
            dep := if md then e.dep else cur.dep, ext1 := cur.ext1, ext2 := cur.ext2 }
  | .deleteA id => specDeleteA σ s id
  | .deleteAV id v => specDeleteA (σ.withProtect v) s id
  | .deleteBV id v => specDeleteBTop (σ.withProtect v) s id
  | .createC c id e x =>
    -- the child store refuses only an id for which it holds data already
    if id = [] then .error .other
    else match s.as.lookup id with
      | none =>
        specWriteC σ c true {} [] [] s id (({ owner := e.owner, boss := e.boss, dep := e.dep } : EntA).setExt c (some x))
      | some cur =>
        if (cur.extOf c).isSome then .error .other
        else specWriteC σ c true {} [] [] s id
          (({ owner := e.owner, boss := e.boss, dep := e.dep, ext1 := cur.ext1, ext2 := cur.ext2 } : EntA).setExt c (some x))
  | .updateC c id e x mo mb md mt mm mg =>
    if id = [] then .error .other
    else match s.as.lookup id with
      | none => .error .notFound
      | some cur =>
        match cur.extOf c with
        | none => .error .notFound                              -- not an entity of the child store
        | some cx =>
          specWriteC σ c false { owner := evalVal cur.owner, boss := evalVal cur.boss, dep := evalVal cur.dep }
            (evalVal cx.m) (evalVal cx.g) s id
            (({ owner := if mo then e.owner else cur.owner, boss := if mb then e.boss else cur.boss,
                dep := if md then e.dep else cur.dep, ext1 := cur.ext1, ext2 := cur.ext2 } : EntA).setExt c
              (some { tag := if mt then x.tag else cx.tag, m := if mm then x.m else cx.m, g := if mg then x.g else cx.g }))
  | .deleteC id => specDeleteA σ s id      -- a delete through a child store is a delete of the entity
  | .deleteB id => specDeleteBTop σ s id

def specRunTxFrom (σ : Schema) (s0 : SSt) : Nat → SSt → List Op → SSt × Option (Nat × Err)
  | _, s, [] => (s, none)
  | i, s, op :: rest =>
    match specApply σ s op with
    | .ok s' => specRunTxFrom σ s0 (i + 1) s' rest
    | .error e => (s0, some (i, e))

def specRunTx (σ : Schema) (s : SSt) (ops : List Op) : SSt × Option (Nat × Err) := specRunTxFrom σ s 0 s ops

/-- the back-reference maps the property prescribes for given tables (for the observation) -/
def derive (s : SSt) : St :=
  { as := s.as, bs := s.bs,
    things := s.bs.keys.map (fun b => (b, specReferrers s.as (·.owner) b)),
    minions := s.as.keys.map (fun a => (a, specReferrers s.as (·.boss) a)) }

/-- … including the sets of the child-declared fk indexes (schema dependent) -/
def deriveσ (σ : Schema) (s : SSt) : St :=
  { derive s with
    mentees1 := s.bs.keys.map (fun b => (b, specReferrers s.as (mentorOf σ .c1) b)),
    mentees2 := s.bs.keys.map (fun b => (b, specReferrers s.as (mentorOf σ .c2) b)) }

end StorageModel.C04
