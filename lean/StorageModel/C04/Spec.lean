import StorageModel.C04.Model
/-
  C04 — the specification: what the property text says, over the entity tables alone (no
  back-reference maps, no cursors, no fuel).  Back-reference sets are *derived* from the tables.

    * an A entity may be written only if each fk value it (newly) carries names an existing target
      — or is null/empty and the field is nullable; this holds whichever store the write goes through
      (A itself, or its child store C — a create through C over an existing A entity is a write of
      that entity and judged like a create: every reference it carries must be valid);
    * the back-reference set of a target is, by definition, the set of entities referencing it;
    * deleting an A entity removes it together with everything that transitively refers to it
      through `boss` (cascade) and nothing else;
    * deleting a B entity is refused while an A entity refers to it through `owner` (restrict) or,
      in the restrict variant, through `dep`; in the cascade variant the `dep` referrers go, with
      their transitive `boss` referrers, and nothing else.

  The order in which several violated rules are reported is taken from the schema (constraint
  registration order), as is the order restrict-check / cascade on B.
-/
namespace StorageModel.C04
open StorageModel

structure SSt where
  as : Map EntA := []
  bs : Map Unit := []

abbrev SRes := Except Err SSt

/-- the rule one constraint imposes on a write of A entity `id` (old values `old`, new entity `e`),
    judged against the tables that already contain the new entity -/
def specCheck (σ : Schema) (isCreate : Bool) (old : Olds) (s : SSt) (e : EntA) : CA → Option Err
  | .ownerIdx =>
    let v := evalVal e.owner
    if ¬ isCreate ∧ old.owner = v then none
    else if v ≠ [] ∧ ¬ s.bs.contains v then some .notFound else none
  | .bossIdx =>
    let v := evalVal e.boss
    if ¬ isCreate ∧ old.boss = v then none
    else if v = [] then some .nullNotAllowed
    else if ¬ s.as.contains v then some .notFound else none
  | .bossCascade => none
  | .depFk =>
    let v := evalVal e.dep
    if ¬ isCreate ∧ old.dep = v then none
    else if v = [] then (if σ.depNullable then none else some .nullNotAllowed)
    else if ¬ s.bs.contains v then some .notFound else none

def specWrite (σ : Schema) (isCreate : Bool) (old : Olds) (s : SSt) (id : Bytes) (e : EntA) : SRes :=
  let s' : SSt := { s with as := s.as.insert id e }
  match (orderA σ).findSome? (specCheck σ isCreate old s' e) with
  | some err => .error err
  | none => .ok s'

/-- one round of "add everything whose boss is already in the set" -/
def grow (as : Map EntA) (d : List Bytes) : List Bytes :=
  d ++ as.keys.filter (fun k => decide (k ∉ d) && (match as.lookup k with
    | some e => (match e.boss with | some v => decide (v ∈ d) | none => false)
    | none => false))

def growN (as : Map EntA) : Nat → List Bytes → List Bytes
  | 0, d => d
  | n + 1, d => growN as n (grow as d)

/-- `seeds` plus everything that refers to them transitively through `boss` -/
def closure (as : Map EntA) (seeds : List Bytes) : List Bytes := growN as as.length seeds

def removeAll (as : Map EntA) (d : List Bytes) : Map EntA := as.filter (fun p => decide (p.1 ∉ d))

def specReferrers (as : Map EntA) (f : EntA → FV) (id : Bytes) : List Bytes :=
  as.keys.filter (fun k => match as.lookup k with
    | some e => referrerMatch f id e
    | none => false)

def specDeleteB (σ : Schema) (id : Bytes) (s : SSt) : CB → SRes
  | .thingsRestrict => if specReferrers s.as (·.owner) id ≠ [] then .error .refExists else .ok s
  | .depCascade =>
    let refs := specReferrers s.as (·.dep) id
    if σ.depCascade then .ok { s with as := removeAll s.as (closure s.as refs) }
    else if refs ≠ [] then .error .refExists else .ok s

def hasChild (as : Map EntA) (id : Bytes) : Bool :=
  match as.lookup id with
  | some e => e.ext.isSome
  | none => false

def specApply (σ : Schema) (s : SSt) : Op → SRes
  | .createB id =>
    if id = [] ∨ s.bs.contains id then .error .other else .ok { s with bs := s.bs.insert id () }
  | .createA id e =>
    if id = [] ∨ s.as.contains id then .error .other else specWrite σ true {} s id e
  | .updateA id e mo mb md =>
    if id = [] then .error .other
    else match s.as.lookup id with
      | none => .error .notFound
      | some cur =>
        specWrite σ false { owner := evalVal cur.owner, boss := evalVal cur.boss, dep := evalVal cur.dep } s id
          { owner := if mo then e.owner else cur.owner, boss := if mb then e.boss else cur.boss,
            dep := if md then e.dep else cur.dep, ext := cur.ext }
  | .deleteA id =>
    if s.as.contains id then .ok { s with as := removeAll s.as (closure s.as [id]) } else .error .notFound
  | .createC id e tag =>
    -- the child store refuses only an id for which child data exists already
    if id = [] ∨ hasChild s.as id then .error .other
    else specWrite σ true {} s id { owner := e.owner, boss := e.boss, dep := e.dep, ext := some tag }
  | .updateC id e tag mo mb md mt =>
    if id = [] then .error .other
    else match s.as.lookup id with
      | none => .error .notFound
      | some cur =>
        match cur.ext with
        | none => .error .notFound                              -- not an entity of the child store
        | some curTag =>
          specWrite σ false { owner := evalVal cur.owner, boss := evalVal cur.boss, dep := evalVal cur.dep } s id
            { owner := if mo then e.owner else cur.owner, boss := if mb then e.boss else cur.boss,
              dep := if md then e.dep else cur.dep, ext := some (if mt then tag else curTag) }
  | .deleteC id =>
    -- a delete through the child store is a delete of the entity
    if s.as.contains id then .ok { s with as := removeAll s.as (closure s.as [id]) } else .error .notFound
  | .deleteB id =>
    if s.bs.contains id then do
      let s1 ← (orderB σ).foldlM (specDeleteB σ id) s
      pure { s1 with bs := s1.bs.erase id }
    else .error .notFound

def specRunTxFrom (σ : Schema) (s0 : SSt) : Nat → SSt → List Op → SSt × Option (Nat × Err)
  | _, s, [] => (s, none)
  | i, s, op :: rest =>
    match specApply σ s op with
    | .ok s' => specRunTxFrom σ s0 (i + 1) s' rest
    | .error e => (s0, some (i, e))

def specRunTx (σ : Schema) (s : SSt) (ops : List Op) : SSt × Option (Nat × Err) := specRunTxFrom σ s 0 s ops

/-- the back-reference maps the property prescribes for given tables (for the observation) -/
def derive (s : SSt) : St :=
  { as := s.as, bs := s.bs,
    things := s.bs.keys.map (fun b => (b, specReferrers s.as (·.owner) b)),
    minions := s.as.keys.map (fun a => (a, specReferrers s.as (·.boss) a)) }

end StorageModel.C04
