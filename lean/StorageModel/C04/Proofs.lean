import StorageModel.C04.Inv
/-
  C04 — proofs that every operation of the model preserves the invariant, and the effect of the
  cascading delete.  (Helper lemmas; the property theorems are in Properties/C04.lean.)
-/
namespace StorageModel.C04
open StorageModel

/-! ### one fk index, generically -/

theorem idxDel_spec {f : EntA → FV} {P : Bytes → Prop} {as : Map EntA} {m m' : Map (List Bytes)}
    {tgt : Bytes → Bool} {v id : Bytes}
    (hS : SetExact f P as m) (hv : ∀ e, as.lookup id = some e → evalVal (f e) = v)
    (hK : ∀ t, m.lookup t ≠ none → tgt t = true)
    (hres : idxDel tgt v id m = .ok m') :
    SetExact f (plus P id) as m' ∧ (∀ t, m'.lookup t ≠ none → tgt t = true) := by
  unfold idxDel at hres
  split at hres
  · split at hres
    · next htv =>
      cases hres
      refine ⟨hS.del hv, ?_⟩
      intro t ht
      rw [Map.lookup_insert] at ht
      by_cases h : t = v
      · subst h; exact htv
      · simp only [h, if_false] at ht; exact hK t ht
    · cases hres
  · next hv0 =>
    cases hres
    have hv0' : v = [] := by simpa using hv0
    subst hv0'
    exact ⟨hS.del_null hv, hK⟩

theorem idxDelB_spec {f : EntA → FV} {P : Bytes → Prop} {as : Map EntA} {m : Map (List Bytes)}
    {tgt : Bytes → Bool} {v id : Bytes}
    (hS : SetExact f P as m) (hv : ∀ e, as.lookup id = some e → evalVal (f e) = v)
    (hK : ∀ t, m.lookup t ≠ none → tgt t = true) :
    SetExact f (plus P id) as (idxDelB tgt v id m) ∧ (∀ t, (idxDelB tgt v id m).lookup t ≠ none → tgt t = true) := by
  unfold idxDelB
  split
  · split
    · next htv =>
      refine ⟨hS.del hv, ?_⟩
      intro t ht
      rw [Map.lookup_insert] at ht
      by_cases h : t = v
      · subst h; exact htv
      · simp only [h, if_false] at ht; exact hK t ht
    · next hv0 htv =>
      -- the target is gone: no set lists `id` (a listed key has an existing target)
      refine ⟨?_, hK⟩
      intro t k
      rw [hS t k]
      simp only [plus]
      constructor
      · rintro ⟨e, he, h1, h2, h3⟩
        refine ⟨e, he, h1, h2, fun hc => hc.elim h3 ?_⟩
        intro hk; subst hk
        have htv' : t = v := h1.symm.trans (hv e he)
        have hm : k ∈ (m.lookup t).getD [] := (hS t k).2 ⟨e, he, h1, h2, h3⟩
        have hne : m.lookup t ≠ none := by
          intro hn; rw [hn] at hm; cases hm
        exact htv (htv' ▸ hK t hne)
      · rintro ⟨e, he, h1, h2, h3⟩
        exact ⟨e, he, h1, h2, fun hc => h3 (Or.inl hc)⟩
  · next hv0 =>
    have hv0' : v = [] := by simpa using hv0
    subst hv0'
    exact ⟨hS.del_null hv, hK⟩

/-- how the written entity relates to the table before the write -/
inductive WriteKind (f : EntA → FV) (as0 : Map EntA) (id : Bytes) (ic : Bool) (old : Bytes) : Prop
  | create : ic = true → as0.lookup id = none → old = [] → WriteKind f as0 id ic old
  /-- the row exists and `old` is its stored value — an update (`ic = false`), or a create through the
      child store over an existing parent entity (`ic = true`: the "unchanged" shortcut is off) -/
  | update (cur : EntA) : as0.lookup id = some cur → old = evalVal (f cur) → WriteKind f as0 id ic old

theorem idxWrite_spec {f : EntA → FV} {as0 : Map EntA} {m m' : Map (List Bytes)} {nullable ic : Bool}
    {tgt0 tgt : Bytes → Bool} {old id : Bytes} {e' : EntA}
    (hS : SetExact f none' as0 m) (hk : WriteKind f as0 id ic old)
    (hT0 : Targets f as0 tgt0) (htgt : ∀ t, tgt0 t = true → tgt t = true)
    (hK : ∀ t, m.lookup t ≠ none → tgt0 t = true)
    (hres : idxWrite nullable tgt ic old (evalVal (f e')) id m = .ok m') :
    SetExact f none' (as0.insert id e') m' ∧ Targets f (as0.insert id e') tgt ∧
    (∀ t, m'.lookup t ≠ none → tgt t = true) ∧
    (nullable = false → NonNull f as0 → NonNull f (as0.insert id e')) := by
  have hlk : (as0.insert id e').lookup id = some e' := by simp
  -- targets of the other entities
  have hTo : ∀ k e, k ≠ id → (as0.insert id e').lookup k = some e → evalVal (f e) ≠ [] → tgt (evalVal (f e)) = true := by
    intro k e hkid he hne
    rw [Map.lookup_insert] at he; simp only [hkid, if_false] at he
    exact htgt _ (hT0 k e he hne)
  have hNNo : ∀ k e, k ≠ id → NonNull f as0 → (as0.insert id e').lookup k = some e → evalVal (f e) ≠ [] := by
    intro k e hkid hnn he
    rw [Map.lookup_insert] at he; simp only [hkid, if_false] at he
    exact hnn k e he
  unfold idxWrite at hres
  split at hres
  · -- unchanged value on update
    next hskip =>
    cases hres
    obtain ⟨hic, hov⟩ := hskip
    cases hk with
    | create h1 _ _ => simp [h1] at hic
    | update cur hc ho =>
      refine ⟨hS.same_value hc (ho ▸ hov), ?_, fun t ht => htgt t (hK t ht), ?_⟩
      · intro k e he hne
        by_cases hkid : k = id
        · subst hkid; rw [hlk] at he; cases he
          have : evalVal (f cur) = evalVal (f e') := ho ▸ hov
          rw [← this] at hne ⊢
          exact htgt _ (hT0 k cur hc hne)
        · exact hTo k e hkid he hne
      · intro _ hnn k e he
        by_cases hkid : k = id
        · subst hkid; rw [hlk] at he; cases he
          have : evalVal (f cur) = evalVal (f e') := ho ▸ hov
          rw [← this]; exact hnn k cur hc
        · exact hNNo k e hkid hnn he
  · -- index maintenance
    have hv : ∀ e, as0.lookup id = some e → evalVal (f e) = old := by
      intro e he
      cases hk with
      | create _ hnone _ => rw [hnone] at he; cases he
      | update cur hc ho => rw [hc] at he; cases he; exact ho.symm
    cases hm1 : idxDel tgt old id m with
    | error err => rw [hm1] at hres; cases hres
    | ok m1 =>
      rw [hm1] at hres
      have h1 := idxDel_spec (tgt := tgt) hS hv (fun t ht => htgt t (hK t ht)) hm1
      have hS1 := h1.1.insert_pending (Or.inr rfl) e'
      have hK1 := h1.2
      simp only at hres
      unfold idxAdd at hres
      split at hres
      · next hnew =>
        split at hres
        · next htn =>
          cases hres
          refine ⟨hS1.add hlk rfl hnew, ?_, ?_, ?_⟩
          · intro k e he hne
            by_cases hkid : k = id
            · subst hkid; rw [hlk] at he; cases he; exact htn
            · exact hTo k e hkid he hne
          · intro t ht
            rw [Map.lookup_insert] at ht
            by_cases h : t = evalVal (f e')
            · subst h; exact htn
            · simp only [h, if_false] at ht; exact hK1 t ht
          · intro _ hnn k e he
            by_cases hkid : k = id
            · subst hkid; rw [hlk] at he; cases he; exact hnew
            · exact hNNo k e hkid hnn he
        · cases hres
      · next hnew =>
        have hnew' : evalVal (f e') = [] := by simpa using hnew
        split at hres
        · next hnl =>
          cases hres
          refine ⟨hS1.add_null (fun e he => by rw [hlk] at he; cases he; exact hnew'), ?_, hK1, ?_⟩
          · intro k e he hne
            by_cases hkid : k = id
            · subst hkid; rw [hlk] at he; cases he; exact absurd hnew' hne
            · exact hTo k e hkid he hne
          · intro hc; simp [hnl] at hc
        · cases hres

/-! ### the handlers of the model are these generic index operations -/

def liftThings (s : St) : Except Err (Map (List Bytes)) → Res
  | .ok m => .ok { s with things := m }
  | .error e => .error e

def liftMinions (s : St) : Except Err (Map (List Bytes)) → Res
  | .ok m => .ok { s with minions := m }
  | .error e => .error e

theorem ownerIdx_eq (σ : Schema) (ic : Bool) (old : Olds) (id : Bytes) (s : St) :
    afterUpdateA σ ic old id s .ownerIdx =
      liftThings s (idxWrite true s.bs.contains ic old.owner (fieldOf s id (·.owner)) id s.things) := by
  simp only [afterUpdateA]
  generalize fieldOf s id (fun x => x.owner) = new
  simp only [idxWrite, idxDel, idxAdd, thingsDel, thingsAdd]
  by_cases h1 : ¬ ic = true ∧ old.owner = new
  · rw [if_pos h1, if_pos h1]; rfl
  · rw [if_neg h1, if_neg h1]
    by_cases h2 : old.owner = [] <;> by_cases h3 : new = [] <;>
      by_cases h4 : s.bs.contains old.owner = true <;>
      by_cases h5 : s.bs.contains new = true <;>
      simp [h2, h3, h4, h5, liftThings]

theorem bossIdx_eq (σ : Schema) (ic : Bool) (old : Olds) (id : Bytes) (s : St) :
    afterUpdateA σ ic old id s .bossIdx =
      liftMinions s (idxWrite false s.as.contains ic old.boss (fieldOf s id (·.boss)) id s.minions) := by
  simp only [afterUpdateA]
  generalize fieldOf s id (fun x => x.boss) = new
  simp only [idxWrite, idxDel, idxAdd, minionsDel, minionsAdd]
  by_cases h1 : ¬ ic = true ∧ old.boss = new
  · rw [if_pos h1, if_pos h1]; rfl
  · rw [if_neg h1, if_neg h1]
    by_cases h2 : old.boss = [] <;> by_cases h3 : new = [] <;>
      by_cases h4 : s.as.contains old.boss = true <;>
      by_cases h5 : s.as.contains new = true <;>
      simp [h2, h3, h4, h5, liftMinions]

theorem ownerDel_eq (del : List Bytes → St → Bytes → Res) (prog : List Bytes) (id : Bytes) (s : St) :
    beforeDeleteA del prog id s .ownerIdx =
      .ok { s with things := idxDelB s.bs.contains (fieldOf s id (·.owner)) id s.things } := by
  simp only [beforeDeleteA]
  generalize fieldOf s id (fun x => x.owner) = v
  simp only [idxDelB, thingsDel]
  by_cases h2 : v = [] <;> by_cases h4 : s.bs.contains v = true <;> simp [h2, h4]

theorem bossDel_eq (del : List Bytes → St → Bytes → Res) (prog : List Bytes) (id : Bytes) (s : St) :
    beforeDeleteA del prog id s .bossIdx =
      .ok { s with minions := idxDelB s.as.contains (fieldOf s id (·.boss)) id s.minions } := by
  simp only [beforeDeleteA]
  generalize fieldOf s id (fun x => x.boss) = v
  simp only [idxDelB, minionsDel]
  by_cases h2 : v = [] <;> by_cases h4 : s.as.contains v = true <;> simp [h2, h4]

theorem bind_ok {α β : Type} {x : Except Err α} {f : α → Except Err β} {b : β} :
    (x >>= f) = .ok b ↔ ∃ a, x = .ok a ∧ f a = .ok b := by
  cases x with
  | error e => simp [bind, Except.bind]
  | ok a => simp [bind, Except.bind]

/-! ### writes (Create / Update of an A entity) -/

/-- what `ProcessBeforeUpdate` captured, relative to the table before the write -/
inductive OpKind (as0 : Map EntA) (id : Bytes) (ic : Bool) (old : Olds) : Prop
  | create : ic = true → as0.lookup id = none → old.owner = [] → old.boss = [] → old.dep = [] → OpKind as0 id ic old
  | update (cur : EntA) : as0.lookup id = some cur → old.owner = evalVal cur.owner →
      old.boss = evalVal cur.boss → old.dep = evalVal cur.dep → OpKind as0 id ic old

theorem OpKind.owner {as0 id ic old} (h : OpKind as0 id ic old) : WriteKind (·.owner) as0 id ic old.owner := by
  cases h with
  | create a b c d e => exact .create a b c
  | update cur b c d e => exact .update cur b c

theorem OpKind.boss {as0 id ic old} (h : OpKind as0 id ic old) : WriteKind (·.boss) as0 id ic old.boss := by
  cases h with
  | create a b c d e => exact .create a b d
  | update cur b c d e => exact .update cur b d

theorem OpKind.dep {as0 id ic old} (h : OpKind as0 id ic old) : WriteKind (·.dep) as0 id ic old.dep := by
  cases h with
  | create a b c d e => exact .create a b e
  | update cur b c d e => exact .update cur b e

theorem fieldOf_insert (s : St) (as0 : Map EntA) (id : Bytes) (e' : EntA) (f : EntA → FV)
    (has : s.as = as0.insert id e') : fieldOf s id f = evalVal (f e') := by
  simp [fieldOf, has]

structure ThingsDone (s0 : St) (id : Bytes) (e' : EntA) (s' : St) : Prop where
  exact : SetExact (·.owner) none' (s0.as.insert id e') s'.things
  tgt : Targets (·.owner) (s0.as.insert id e') s0.bs.contains
  keys : ∀ t, s'.things.lookup t ≠ none → s0.bs.contains t = true

structure MinionsDone (s0 : St) (id : Bytes) (e' : EntA) (s' : St) : Prop where
  exact : SetExact (·.boss) none' (s0.as.insert id e') s'.minions
  tgt : Targets (·.boss) (s0.as.insert id e') (s0.as.insert id e').contains
  keys : ∀ t, s'.minions.lookup t ≠ none → (s0.as.insert id e').contains t = true
  nn : NonNull (·.boss) (s0.as.insert id e')

theorem ownerStep {σ : Schema} {s0 s s' : St} {id : Bytes} {ic : Bool} {old : Olds} {e' : EntA}
    (hI : Inv σ s0) (hk : OpKind s0.as id ic old) (has : s.as = s0.as.insert id e') (hbs : s.bs = s0.bs)
    (hth : s.things = s0.things) (h : afterUpdateA σ ic old id s .ownerIdx = .ok s') :
    s'.as = s.as ∧ s'.bs = s.bs ∧ s'.minions = s.minions ∧ ThingsDone s0 id e' s' := by
  rw [ownerIdx_eq, fieldOf_insert s s0.as id e' _ has, hbs, hth] at h
  cases hw : idxWrite true s0.bs.contains ic old.owner (evalVal e'.owner) id s0.things with
  | error err => rw [hw] at h; cases h
  | ok m =>
    rw [hw] at h; simp only [liftThings] at h; cases h
    have := idxWrite_spec (f := (·.owner)) (e' := e') hI.things hk.owner hI.ownerT (fun _ h => h) hI.thingsK hw
    exact ⟨rfl, rfl, rfl, ⟨this.1, this.2.1, this.2.2.1⟩⟩

theorem bossStep {σ : Schema} {s0 s s' : St} {id : Bytes} {ic : Bool} {old : Olds} {e' : EntA}
    (hI : Inv σ s0) (hk : OpKind s0.as id ic old) (has : s.as = s0.as.insert id e')
    (hmi : s.minions = s0.minions) (h : afterUpdateA σ ic old id s .bossIdx = .ok s') :
    s'.as = s.as ∧ s'.bs = s.bs ∧ s'.things = s.things ∧ MinionsDone s0 id e' s' := by
  rw [bossIdx_eq, fieldOf_insert s s0.as id e' _ has, has, hmi] at h
  cases hw : idxWrite false (s0.as.insert id e').contains ic old.boss (evalVal e'.boss) id s0.minions with
  | error err => rw [hw] at h; cases h
  | ok m =>
    rw [hw] at h; simp only [liftMinions] at h; cases h
    have hmono : ∀ t, s0.as.contains t = true → (s0.as.insert id e').contains t = true := by
      intro t ht
      simp only [Map.contains_iff, Map.lookup_insert] at ht ⊢
      by_cases htid : t = id
      · exact ⟨e', by simp [htid]⟩
      · simpa [htid] using ht
    have := idxWrite_spec (f := (·.boss)) (e' := e') hI.minions hk.boss hI.bossTargets hmono hI.minionsK hw
    exact ⟨rfl, rfl, rfl, ⟨this.1, this.2.1, this.2.2.1, this.2.2.2 rfl hI.bossNN⟩⟩

structure DepDone (σ : Schema) (s0 : St) (id : Bytes) (e' : EntA) : Prop where
  tgt : Targets (·.dep) (s0.as.insert id e') s0.bs.contains
  nn : σ.depNullable = false → NonNull (·.dep) (s0.as.insert id e')

theorem depStep {σ : Schema} {s0 s s' : St} {id : Bytes} {ic : Bool} {old : Olds} {e' : EntA}
    (hI : Inv σ s0) (hk : OpKind s0.as id ic old) (has : s.as = s0.as.insert id e') (hbs : s.bs = s0.bs)
    (h : afterUpdateA σ ic old id s .depFk = .ok s') : s' = s ∧ DepDone σ s0 id e' := by
  simp only [afterUpdateA] at h
  rw [fieldOf_insert s s0.as id e' _ has, hbs] at h
  have hlk : (s0.as.insert id e').lookup id = some e' := by simp
  have hother : ∀ k e, k ≠ id → (s0.as.insert id e').lookup k = some e → s0.as.lookup k = some e := by
    intro k e hkid he; rw [Map.lookup_insert] at he; simpa [hkid] using he
  split at h
  · next hskip =>
    cases h
    obtain ⟨hic, hov⟩ := hskip
    cases hk with
    | create h1 _ _ _ _ => simp [h1] at hic
    | update cur hc _ _ hd =>
      have hcv : evalVal cur.dep = evalVal e'.dep := hd ▸ hov
      refine ⟨rfl, ?_, ?_⟩
      · intro k e he hne
        by_cases hkid : k = id
        · subst hkid; rw [hlk] at he; cases he
          rw [← hcv] at hne ⊢; exact hI.depT k cur hc hne
        · exact hI.depT k e (hother k e hkid he) hne
      · intro hn k e he
        by_cases hkid : k = id
        · subst hkid; rw [hlk] at he; cases he
          rw [← hcv]; exact hI.depNN hn k cur hc
        · exact hI.depNN hn k e (hother k e hkid he)
  · split at h
    · next hnew =>
      split at h
      · next htn =>
        cases h
        refine ⟨rfl, ?_, ?_⟩
        · intro k e he hne
          by_cases hkid : k = id
          · subst hkid; rw [hlk] at he; cases he; exact htn
          · exact hI.depT k e (hother k e hkid he) hne
        · intro hn k e he
          by_cases hkid : k = id
          · subst hkid; rw [hlk] at he; cases he; exact hnew
          · exact hI.depNN hn k e (hother k e hkid he)
      · cases h
    · next hnew =>
      have hnew' : evalVal e'.dep = [] := by simpa using hnew
      split at h
      · next hnl =>
        cases h
        refine ⟨rfl, ?_, ?_⟩
        · intro k e he hne
          by_cases hkid : k = id
          · subst hkid; rw [hlk] at he; cases he; exact absurd hnew' hne
          · exact hI.depT k e (hother k e hkid he) hne
        · intro hn; simp [hnl] at hn
      · cases h

theorem cascadeStep_after {σ : Schema} {s s' : St} {id : Bytes} {ic : Bool} {old : Olds}
    (h : afterUpdateA σ ic old id s .bossCascade = .ok s') : s' = s := by
  simp only [afterUpdateA] at h; cases h; rfl

theorem assemble {σ : Schema} {s0 s' : St} {id : Bytes} {e' : EntA}
    (hI : Inv σ s0) (hid : id ≠ [])
    (has : s'.as = s0.as.insert id e') (hbs : s'.bs = s0.bs)
    (hT : ThingsDone s0 id e' s') (hM : MinionsDone s0 id e' s') (hD : DepDone σ s0 id e') : Inv σ s' where
  things := has ▸ hT.exact
  minions := has ▸ hM.exact
  ownerT := by rw [has, hbs]; exact hT.tgt
  bossT := by rw [has]; exact fun k e he _ hne => hM.tgt k e he hne
  depT := by rw [has, hbs]; exact hD.tgt
  bossNN := by rw [has]; exact hM.nn
  depNN := by rw [has]; exact hD.nn
  thingsK := by rw [hbs]; exact hT.keys
  minionsK := by rw [has]; exact hM.keys
  nonEmpty := by
    rw [has, Map.lookup_insert]
    have : ¬ ([] : Bytes) = id := fun h => hid h.symm
    simp only [this, if_false]; exact hI.nonEmpty
  nonEmptyB := by rw [hbs]; exact hI.nonEmptyB

theorem afterUpdateA_mentees {σ : Schema} {ic : Bool} {old : Olds} {id : Bytes} {s s' : St} {c : CA}
    (h : afterUpdateA σ ic old id s c = .ok s') : s'.mentees1 = s.mentees1 ∧ s'.mentees2 = s.mentees2 := by
  cases c with
  | ownerIdx =>
    rw [ownerIdx_eq] at h
    cases hr : idxWrite true s.bs.contains ic old.owner (fieldOf s id (·.owner)) id s.things with
    | ok m => rw [hr] at h; simp only [liftThings] at h; cases h; exact ⟨rfl, rfl⟩
    | error e => rw [hr] at h; cases h
  | bossIdx =>
    rw [bossIdx_eq] at h
    cases hr : idxWrite false s.as.contains ic old.boss (fieldOf s id (·.boss)) id s.minions with
    | ok m => rw [hr] at h; simp only [liftMinions] at h; cases h; exact ⟨rfl, rfl⟩
    | error e => rw [hr] at h; cases h
  | bossCascade => simp only [afterUpdateA] at h; cases h; exact ⟨rfl, rfl⟩
  | depFk =>
    simp only [afterUpdateA] at h
    split at h
    · cases h; exact ⟨rfl, rfl⟩
    · split at h
      · split at h
        · cases h; exact ⟨rfl, rfl⟩
        · cases h
      · split at h
        · cases h; exact ⟨rfl, rfl⟩
        · cases h

theorem processAfterUpdateA_mentees {σ : Schema} {ic : Bool} {old : Olds} {id : Bytes} {s s' : St}
    (h : processAfterUpdateA σ ic old id s = .ok s') : s'.mentees1 = s.mentees1 ∧ s'.mentees2 = s.mentees2 := by
  unfold processAfterUpdateA at h
  generalize orderA σ = l at h
  induction l generalizing s with
  | nil => simp only [List.foldlM_nil, pure, Except.pure] at h; cases h; exact ⟨rfl, rfl⟩
  | cons c rest ih =>
    simp only [List.foldlM_cons, bind_ok] at h
    obtain ⟨s1, h1, h2⟩ := h
    obtain ⟨a, b⟩ := afterUpdateA_mentees h1
    obtain ⟨a', b'⟩ := ih h2
    exact ⟨a'.trans a, b'.trans b⟩

theorem processAfterUpdateA_inv {σ : Schema} {s0 s s' : St} {id : Bytes} {ic : Bool} {old : Olds} {e' : EntA}
    (hI : Inv σ s0) (hid : id ≠ []) (hk : OpKind s0.as id ic old)
    (hs : s = { s0 with as := s0.as.insert id e' })
    (h : processAfterUpdateA σ ic old id s = .ok s') :
    Inv σ s' ∧ s'.as = s0.as.insert id e' ∧ s'.bs = s0.bs ∧ s'.mentees1 = s0.mentees1 ∧ s'.mentees2 = s0.mentees2 := by
  have hmen : s'.mentees1 = s0.mentees1 ∧ s'.mentees2 = s0.mentees2 := by
    have := processAfterUpdateA_mentees h
    rw [hs] at this; exact this
  have has : s.as = s0.as.insert id e' := by rw [hs]
  have hbs : s.bs = s0.bs := by rw [hs]
  have hth : s.things = s0.things := by rw [hs]
  have hmi : s.minions = s0.minions := by rw [hs]
  unfold processAfterUpdateA orderA at h
  cases hdf : σ.depFirst
  case true =>
    simp only [hdf, if_true, List.foldlM_cons, List.foldlM_nil, bind_ok] at h
    obtain ⟨s1, h1, s2, h2, s3, h3, s4, h4, h5⟩ := h
    cases h5
    obtain ⟨rfl, hD⟩ := depStep hI hk has hbs h1
    obtain ⟨e1, e2, e3, hT⟩ := ownerStep hI hk has hbs hth h2
    obtain ⟨f1, f2, f3, hM⟩ := bossStep hI hk (e1.trans has) (e3.trans hmi) h3
    cases cascadeStep_after h4
    refine ⟨assemble hI hid (f1.trans (e1.trans has)) (f2.trans (e2.trans hbs)) ?_ hM hD,
      f1.trans (e1.trans has), f2.trans (e2.trans hbs), hmen.1, hmen.2⟩
    exact ⟨f3 ▸ hT.exact, hT.tgt, f3 ▸ hT.keys⟩
  case false =>
    simp only [hdf, Bool.false_eq_true, if_false, List.foldlM_cons, List.foldlM_nil, bind_ok] at h
    obtain ⟨s1, h1, s2, h2, s3, h3, s4, h4, h5⟩ := h
    cases h5
    obtain ⟨e1, e2, e3, hT⟩ := ownerStep hI hk has hbs hth h1
    obtain ⟨f1, f2, f3, hM⟩ := bossStep hI hk (e1.trans has) (e3.trans hmi) h2
    cases cascadeStep_after h3
    obtain ⟨rfl, hD⟩ := depStep hI hk (f1.trans (e1.trans has)) (f2.trans (e2.trans hbs)) h4
    refine ⟨assemble hI hid (f1.trans (e1.trans has)) (f2.trans (e2.trans hbs)) ?_ hM hD,
      f1.trans (e1.trans has), f2.trans (e2.trans hbs), hmen.1, hmen.2⟩
    exact ⟨f3 ▸ hT.exact, hT.tgt, f3 ▸ hT.keys⟩

theorem createA_inv {σ : Schema} {s s' : St} {id : Bytes} {e : EntA}
    (hI : Inv σ s) (h : createA σ s id e = .ok s') :
    Inv σ s' ∧ s'.as = s.as.insert id e.plain ∧ s'.bs = s.bs ∧ s.as.lookup id = none ∧
      s'.mentees1 = s.mentees1 ∧ s'.mentees2 = s.mentees2 := by
  unfold createA at h
  split at h
  · cases h
  · next hid =>
    split at h
    · cases h
    · next hc =>
      have hnone : s.as.lookup id = none := by
        cases hl : s.as.lookup id with
        | none => rfl
        | some v => exact absurd ((Map.contains_iff _ _).2 ⟨v, hl⟩) hc
      have := processAfterUpdateA_inv hI hid (.create rfl hnone rfl rfl rfl) rfl h
      exact ⟨this.1, this.2.1, this.2.2.1, hnone, this.2.2.2⟩

theorem updateA_inv {σ : Schema} {s s' : St} {id : Bytes} {e : EntA} {mo mb md : Bool}
    (hI : Inv σ s) (h : updateA σ s id e mo mb md = .ok s') :
    Inv σ s' ∧ s'.bs = s.bs ∧ ∃ cur, s.as.lookup id = some cur ∧
      s'.as = s.as.insert id { owner := if mo then e.owner else cur.owner, boss := if mb then e.boss else cur.boss,
                               dep := if md then e.dep else cur.dep, ext1 := cur.ext1, ext2 := cur.ext2 } ∧
      s'.mentees1 = s.mentees1 ∧ s'.mentees2 = s.mentees2 := by
  unfold updateA at h
  split at h
  · cases h
  · next hid =>
    split at h
    · cases h
    · next cur hc =>
      have := processAfterUpdateA_inv hI hid (.update cur hc rfl rfl rfl) rfl h
      exact ⟨this.1, this.2.2.1, cur, hc, this.2.1, this.2.2.2⟩

/-! ### writes through a child store: A's constraints, then the child store's own -/

/-- same tables and same A-declared index maps — everything `GInv` speaks about -/
def GEq (s s' : St) : Prop := s'.as = s.as ∧ s'.bs = s.bs ∧ s'.things = s.things ∧ s'.minions = s.minions

theorem GEq.refl (s : St) : GEq s s := ⟨rfl, rfl, rfl, rfl⟩

theorem GEq.trans {a b c : St} (h1 : GEq a b) (h2 : GEq b c) : GEq a c :=
  ⟨h2.1.trans h1.1, h2.2.1.trans h1.2.1, h2.2.2.1.trans h1.2.2.1, h2.2.2.2.trans h1.2.2.2⟩

theorem GInv.of_geq {σ : Schema} {P : Bytes → Prop} {s s' : St} (h : GInv σ P s) (e : GEq s s') : GInv σ P s' := by
  obtain ⟨as', bs', th', mi', m1', m2'⟩ := s'
  obtain ⟨as, bs, th, mi, m1, m2⟩ := s
  obtain ⟨a, b, c, d⟩ := e
  simp only at a b c d
  subst a b c d
  exact ⟨h.things, h.minions, h.ownerT, h.bossT, h.depT, h.bossNN, h.depNN, h.thingsK, h.minionsK, h.nonEmpty, h.nonEmptyB⟩

theorem setMentees_geq (s : St) (c : Child) (m : Map (List Bytes)) : GEq s (s.setMentees c m) := by
  cases c <;> exact ⟨rfl, rfl, rfl, rfl⟩

theorem childIdxStep_geq {σ : Schema} {c : Child} {ic : Bool} {om id : Bytes} {s s' : St}
    (h : childIdxStep σ c ic om id s = .ok s') : GEq s s' := by
  unfold childIdxStep at h
  split at h
  · split at h
    · cases h; exact setMentees_geq _ _ _
    · cases h
  · cases h; exact GEq.refl _

theorem childFkStep_eq {σ : Schema} {c : Child} {ic : Bool} {og id : Bytes} {s s' : St}
    (h : childFkStep σ c ic og id s = .ok s') : s' = s := by
  unfold childFkStep at h
  split at h
  · simp only at h
    split at h
    · cases h; rfl
    · split at h
      · split at h
        · cases h; rfl
        · cases h
      · cases h; rfl
  · cases h; rfl

theorem childAfterUpdate_geq {σ : Schema} {c : Child} {ic : Bool} {om og id : Bytes} {s s' : St}
    (h : childAfterUpdate σ c ic om og id s = .ok s') : GEq s s' := by
  unfold childAfterUpdate at h
  obtain ⟨s1, h1, h2⟩ := bind_ok.1 h
  cases childFkStep_eq h2
  exact childIdxStep_geq h1

theorem childBeforeDelete_geq (σ : Schema) (c : Child) (id : Bytes) (s : St) : GEq s (childBeforeDelete σ c id s) := by
  unfold childBeforeDelete
  split
  · exact setMentees_geq _ _ _
  · exact GEq.refl _

/-- the entity a create through child store `c` writes: the given parent fields, `x` as `c`'s data, the
    sibling child store's data (if the parent entity exists) kept -/
def createdEnt (s : St) (c : Child) (id : Bytes) (e : EntA) (x : Ext) : EntA :=
  match s.as.lookup id with
  | none => ({ owner := e.owner, boss := e.boss, dep := e.dep } : EntA).setExt c (some x)
  | some cur => ({ owner := e.owner, boss := e.boss, dep := e.dep, ext1 := cur.ext1, ext2 := cur.ext2 } : EntA).setExt c (some x)

theorem setExt_fields (e : EntA) (c : Child) (x : Option Ext) :
    (e.setExt c x).owner = e.owner ∧ (e.setExt c x).boss = e.boss ∧ (e.setExt c x).dep = e.dep ∧
    (e.setExt c x).extOf c = x := by
  cases c <;> exact ⟨rfl, rfl, rfl, rfl⟩

/-- Create through a child store — also over an existing parent entity, whatever its stored values.
    `s1` = the state after A's constraints, before the child store's own. -/
theorem createC_inv {σ : Schema} {c : Child} {s s' : St} {id : Bytes} {e : EntA} {x : Ext}
    (hI : Inv σ s) (h : createC σ c s id e x = .ok s') :
    Inv σ s' ∧ s'.as = s.as.insert id (createdEnt s c id e x) ∧
      s'.bs = s.bs ∧ id ≠ [] ∧ (∀ cur, s.as.lookup id = some cur → cur.extOf c = none) ∧
      ∃ s1, s1.as = s'.as ∧ s1.bs = s.bs ∧ s1.mentees1 = s.mentees1 ∧ s1.mentees2 = s.mentees2 ∧
        childAfterUpdate σ c true [] [] id s1 = .ok s' := by
  unfold createC at h
  split at h
  · cases h
  · next hid =>
    split at h
    · next hnone =>
      obtain ⟨s1, h1, h2⟩ := bind_ok.1 h
      have := processAfterUpdateA_inv hI hid (.create rfl hnone rfl rfl rfl) rfl h1
      have g := childAfterUpdate_geq h2
      refine ⟨this.1.of_geq g, ?_, g.2.1.trans this.2.2.1, hid, (fun cur hc => by rw [hnone] at hc; cases hc),
        s1, g.1.symm, this.2.2.1, this.2.2.2.1, this.2.2.2.2, h2⟩
      rw [g.1, this.2.1]; simp only [createdEnt, hnone]
    · next cur hc =>
      split at h
      · cases h
      · next hext =>
        obtain ⟨s1, h1, h2⟩ := bind_ok.1 h
        have := processAfterUpdateA_inv hI hid (.update cur hc rfl rfl rfl) rfl h1
        have g := childAfterUpdate_geq h2
        refine ⟨this.1.of_geq g, ?_, g.2.1.trans this.2.2.1, hid, fun cur' hc' => ?_,
          s1, g.1.symm, this.2.2.1, this.2.2.2.1, this.2.2.2.2, h2⟩
        · rw [g.1, this.2.1]; simp only [createdEnt, hc]
        · rw [hc] at hc'; cases hc'
          cases hx : cur.extOf c with
          | none => rfl
          | some v => simp [hx] at hext

/-- the entity an update through child store `c` writes -/
def updatedEnt (cur : EntA) (cx : Ext) (c : Child) (e : EntA) (x : Ext) (mo mb md mt mm mg : Bool) : EntA :=
  ({ owner := if mo then e.owner else cur.owner, boss := if mb then e.boss else cur.boss,
     dep := if md then e.dep else cur.dep, ext1 := cur.ext1, ext2 := cur.ext2 } : EntA).setExt c
    (some { tag := if mt then x.tag else cx.tag, m := if mm then x.m else cx.m, g := if mg then x.g else cx.g })

theorem updateC_inv {σ : Schema} {c : Child} {s s' : St} {id : Bytes} {e : EntA} {x : Ext} {mo mb md mt mm mg : Bool}
    (hI : Inv σ s) (h : updateC σ c s id e x mo mb md mt mm mg = .ok s') :
    Inv σ s' ∧ s'.bs = s.bs ∧ id ≠ [] ∧ ∃ cur cx, s.as.lookup id = some cur ∧ cur.extOf c = some cx ∧
      s'.as = s.as.insert id (updatedEnt cur cx c e x mo mb md mt mm mg) ∧
      ∃ s1, s1.as = s'.as ∧ s1.bs = s.bs ∧ s1.mentees1 = s.mentees1 ∧ s1.mentees2 = s.mentees2 ∧
        childAfterUpdate σ c false (evalVal cx.m) (evalVal cx.g) id s1 = .ok s' := by
  unfold updateC at h
  split at h
  · cases h
  · next hid =>
    split at h
    · cases h
    · next cur hc =>
      split at h
      · cases h
      · next cx hx =>
        obtain ⟨s1, h1, h2⟩ := bind_ok.1 h
        have := processAfterUpdateA_inv hI hid (.update cur hc rfl rfl rfl) rfl h1
        have g := childAfterUpdate_geq h2
        refine ⟨this.1.of_geq g, g.2.1.trans this.2.2.1, hid, cur, cx, hc, hx, ?_,
          s1, g.1.symm, this.2.2.1, this.2.2.2.1, this.2.2.2.2, h2⟩
        rw [g.1, this.2.1]; rfl

theorem createB_inv {σ : Schema} {s s' : St} {id : Bytes}
    (hI : Inv σ s) (h : createB s id = .ok s') : Inv σ s' ∧ s'.as = s.as ∧ s'.bs = s.bs.insert id () := by
  unfold createB at h
  split at h
  · cases h
  · next hidne =>
    split at h
    · cases h
    · cases h
      have hmono : ∀ t, s.bs.contains t = true → (s.bs.insert id ()).contains t = true := by
        intro t ht
        simp only [Map.contains_iff, Map.lookup_insert] at ht ⊢
        by_cases htid : t = id
        · exact ⟨(), by simp [htid]⟩
        · simpa [htid] using ht
      refine ⟨⟨hI.things, hI.minions, ?_, hI.bossT, ?_, hI.bossNN, hI.depNN, ?_, hI.minionsK, hI.nonEmpty, ?_⟩, rfl, rfl⟩
      · intro k e he hne; exact hmono _ (hI.ownerT k e he hne)
      · intro k e he hne; exact hmono _ (hI.depT k e he hne)
      · intro t ht; exact hmono _ (hI.thingsK t ht)
      · rw [Map.lookup_insert]
        have : ¬ ([] : Bytes) = id := fun h => hidne h.symm
        simp only [this, if_false]; exact hI.nonEmptyB

/-! ### deletes -/

theorem isReferrer_iff (s : St) (f : EntA → FV) (id x : Bytes) :
    isReferrer s f id x = true ↔ ∃ e, s.as.lookup x = some e ∧ f e = some id := by
  unfold isReferrer referrerMatch evalString
  cases hl : s.as.lookup x with
  | none => simp
  | some e =>
    cases hf : f e with
    | none => simp [hf]
    | some v => simp [hf]

theorem isReferrer_false_of_sub {st' st : St} (h : Sub st' st) (f : EntA → FV) (id x : Bytes)
    (hx : isReferrer st f id x = false) : isReferrer st' f id x = false := by
  cases hr : isReferrer st' f id x with
  | false => rfl
  | true =>
    obtain ⟨e, he, hf⟩ := (isReferrer_iff st' f id x).1 hr
    have := (isReferrer_iff st f id x).2 ⟨e, h x e he, hf⟩
    rw [hx] at this; cases this

theorem mem_referrers (s : St) (f : EntA → FV) (id x : Bytes) :
    x ∈ referrers s f id ↔ isReferrer s f id x = true := by
  unfold referrers
  rw [mem_sortB, List.mem_filter]
  constructor
  · exact fun h => h.2
  · intro h
    refine ⟨?_, h⟩
    obtain ⟨e, he, _⟩ := (isReferrer_iff s f id x).1 h
    exact (Map.mem_keys_iff _ _).2 (by simp [he])

theorem evalVal_eq_some {v : FV} {id : Bytes} (h : evalVal v = id) (hid : id ≠ []) : v = some id := by
  cases v with
  | none => exact absurd h.symm hid
  | some w => simp [evalVal] at h; rw [h]

/-- the cascade loop, for any delete function that preserves the invariant and removes its argument:
    afterwards no candidate outside the in-progress set `skip` is a referrer any more -/
theorem cascadeOver_spec {σ : Schema} {Q : Bytes → Prop} {del : St → Bytes → Res} {f : EntA → FV} {id : Bytes}
    {skip : List Bytes}
    (hdel : ∀ st x st', GInv σ Q st → del st x = .ok st' →
      GInv σ Q st' ∧ Sub st' st ∧ st'.as.lookup x = none ∧ st'.bs = st.bs) :
    ∀ (cands : List Bytes) (st st' : St), GInv σ Q st → cascadeOver del f id skip cands st = .ok st' →
      GInv σ Q st' ∧ Sub st' st ∧ st'.bs = st.bs ∧ ∀ x ∈ cands, x ∉ skip → isReferrer st' f id x = false := by
  intro cands
  induction cands with
  | nil =>
    intro st st' hI h
    simp only [cascadeOver, List.foldlM_nil, pure, Except.pure] at h
    cases h
    exact ⟨hI, Sub.refl _, rfl, fun x hx => by cases hx⟩
  | cons c rest ih =>
    intro st st' hI h
    simp only [cascadeOver, List.foldlM_cons, bind_ok] at h
    obtain ⟨st1, h1, h2⟩ := h
    have hstep : GInv σ Q st1 ∧ Sub st1 st ∧ st1.bs = st.bs ∧ (c ∉ skip → isReferrer st1 f id c = false) := by
      split at h1
      · cases h1
        exact ⟨hI, Sub.refl _, rfl, fun hc => absurd ‹c ∈ skip› hc⟩
      · split at h1
        · next hr =>
          obtain ⟨a, b, c', d⟩ := hdel st c st1 hI h1
          refine ⟨a, b, d, fun _ => ?_⟩
          cases hr' : isReferrer st1 f id c with
          | false => rfl
          | true =>
            obtain ⟨e, he, _⟩ := (isReferrer_iff st1 f id c).1 hr'
            rw [c'] at he; cases he
        · next hr =>
          cases h1
          exact ⟨hI, Sub.refl _, rfl, fun _ => by simpa using hr⟩
    obtain ⟨hI1, hsub1, hbs1, hc⟩ := hstep
    obtain ⟨hI', hsub', hbs', hrest⟩ := ih st1 st' hI1 h2
    refine ⟨hI', hsub'.trans hsub1, hbs'.trans hbs1, ?_⟩
    intro x hx hns
    cases hx with
    | head => exact isReferrer_false_of_sub hsub' f id c (hc hns)
    | tail _ hx' => exact hrest x hx' hns

theorem SetExact.erase_key {f : EntA → FV} {P : Bytes → Prop} {as : Map EntA} {m : Map (List Bytes)} {id : Bytes}
    (h : SetExact f P as m)
    (hno : ∀ k e, as.lookup k = some e → ¬ P k → evalVal (f e) ≠ [] → evalVal (f e) ≠ id) :
    SetExact f P as (m.erase id) := by
  intro t k
  rw [Map.lookup_erase]
  by_cases ht : t = id
  · subst ht
    simp only [if_true, Option.getD_none, List.not_mem_nil, false_iff]
    rintro ⟨e, he, h1, h2, h3⟩
    exact hno k e he h3 (h1 ▸ h2) h1
  · simp only [ht, if_false]; exact h t k

theorem lift_ok_things {s s1 : St} {r : Except Err (Map (List Bytes))} (h : liftThings s r = .ok s1) :
    ∃ m, r = .ok m ∧ s1 = { s with things := m } := by
  cases r with
  | error e => cases h
  | ok m => cases h; exact ⟨m, rfl, rfl⟩

theorem lift_ok_minions {s s1 : St} {r : Except Err (Map (List Bytes))} (h : liftMinions s r = .ok s1) :
    ∃ m, r = .ok m ∧ s1 = { s with minions := m } := by
  cases r with
  | error e => cases h
  | ok m => cases h; exact ⟨m, rfl, rfl⟩

theorem fieldOf_of_lookup {s : St} {id : Bytes} {f : EntA → FV} :
    ∀ e, s.as.lookup id = some e → evalVal (f e) = fieldOf s id f := by
  intro e he; simp [fieldOf, he]

/-- the two `ProcessBeforeDelete` index steps make `id` pending -/
theorem preDelete_inv {σ : Schema} {P : Bytes → Prop} {del : List Bytes → St → Bytes → Res} {prog : List Bytes}
    {s s1 s2 : St} {id : Bytes} (hI : GInv σ P s)
    (h1 : beforeDeleteA del prog id s .ownerIdx = .ok s1) (h2 : beforeDeleteA del prog id s1 .bossIdx = .ok s2) :
    GInv σ (plus P id) s2 ∧ s2.as = s.as ∧ s2.bs = s.bs := by
  rw [ownerDel_eq] at h1
  cases h1
  rw [bossDel_eq] at h2
  cases h2
  have a := idxDelB_spec (tgt := s.bs.contains) (v := fieldOf s id (·.owner)) hI.things
    (fun e he => fieldOf_of_lookup e he) hI.thingsK
  have b := idxDelB_spec (f := (·.boss)) (P := P) (as := s.as) (tgt := s.as.contains)
    (v := fieldOf s id (·.boss)) hI.minions (fun e he => fieldOf_of_lookup e he) hI.minionsK
  exact ⟨⟨a.1, b.1, hI.ownerT, fun k e he hp => hI.bossT k e he (fun h => hp (Or.inl h)), hI.depT, hI.bossNN, hI.depNN,
    a.2, b.2, hI.nonEmpty, hI.nonEmptyB⟩, rfl, rfl⟩

/-- `bucket.DeleteEntity(id)` once only pending entities still refer to `id` -/
theorem erase_inv {σ : Schema} {P : Bytes → Prop} {s : St} {id : Bytes}
    (hI : GInv σ (plus P id) s) (hno : ∀ x, isReferrer s (·.boss) id x = true → P x ∨ x = id)
    (hid : s.as.contains id = true) :
    GInv σ P { s with as := s.as.erase id, minions := s.minions.erase id } := by
  have hidne : id ≠ [] := by
    intro h; subst h
    obtain ⟨v, hv⟩ := (Map.contains_iff _ _).1 hid
    rw [hI.nonEmpty] at hv; cases hv
  have hnoref : ∀ k e, s.as.lookup k = some e → k ≠ id → ¬ P k → evalVal e.boss ≠ id := by
    intro k e he hk hp hb
    rcases hno k ((isReferrer_iff s (·.boss) id k).2 ⟨e, he, evalVal_eq_some hb hidne⟩) with h | h
    · exact hp h
    · exact hk h
  have hlk : ∀ k e, (s.as.erase id).lookup k = some e → k ≠ id ∧ s.as.lookup k = some e := by
    intro k e he
    rw [Map.lookup_erase] at he
    by_cases hk : k = id
    · simp [hk] at he
    · simp only [hk, if_false] at he; exact ⟨hk, he⟩
  have hself : (s.as.erase id).lookup id = none := by simp
  refine ⟨(hI.things.erase_pending (Or.inr rfl)).unpend hself, ?_, ?_, ?_, ?_, ?_, ?_, hI.thingsK, ?_, ?_, hI.nonEmptyB⟩
  · refine ((hI.minions.erase_pending (Or.inr rfl)).unpend hself).erase_key ?_
    intro k e he hp _; exact hnoref k e (hlk k e he).2 (hlk k e he).1 hp
  · intro k e he hne; exact hI.ownerT k e (hlk k e he).2 hne
  · intro k e he hp hne
    obtain ⟨hk, he'⟩ := hlk k e he
    have hc := hI.bossT k e he' (fun h => h.elim hp hk) hne
    obtain ⟨v, hv⟩ := (Map.contains_iff _ _).1 hc
    refine (Map.contains_iff _ _).2 ⟨v, ?_⟩
    rw [Map.lookup_erase]
    have : evalVal e.boss ≠ id := hnoref k e he' hk hp
    simp only [this, if_false]; exact hv
  · intro k e he hne; exact hI.depT k e (hlk k e he).2 hne
  · intro k e he; exact hI.bossNN k e (hlk k e he).2
  · intro hn k e he; exact hI.depNN hn k e (hlk k e he).2
  · intro t ht
    rw [Map.lookup_erase] at ht
    by_cases htid : t = id
    · simp [htid] at ht
    · simp only [htid, if_false] at ht
      obtain ⟨v, hv⟩ := (Map.contains_iff _ _).1 (hI.minionsK t ht)
      refine (Map.contains_iff _ _).2 ⟨v, ?_⟩
      rw [Map.lookup_erase]; simp only [htid, if_false]; exact hv
  · rw [Map.lookup_erase]
    by_cases h : ([] : Bytes) = id
    · simp [h]
    · simp only [h, if_false]; exact hI.nonEmpty

/-- the shape of a successful round of A's `ProcessBeforeDelete` constraints (`passA`), whatever the
    constraint order: the two index steps, then the cascade loop -/
def PassOk (del : List Bytes → St → Bytes → Res) (prog : List Bytes) (id : Bytes) (s s3 : St) : Prop :=
  ∃ s1 s2,
    beforeDeleteA del prog id s .ownerIdx = .ok s1 ∧
    beforeDeleteA del prog id s1 .bossIdx = .ok s2 ∧
    cascadeOver (del (mark prog id)) (·.boss) id (mark prog id) (referrers s2 (·.boss) id) s2 = .ok s3

theorem passA_ok {σ : Schema} {del : List Bytes → St → Bytes → Res} {prog : List Bytes} {s s3 : St} {id : Bytes}
    (hF : passA σ del prog id s = .ok s3) : PassOk del prog id s s3 := by
  unfold passA orderA at hF
  cases hdf : σ.depFirst
  case true =>
    simp only [hdf, if_true, List.foldlM_cons, List.foldlM_nil, bind_ok] at hF
    obtain ⟨s0, h0, s1, h1, s2, h2, s3', h3, h4⟩ := hF
    have e4 : s3' = s3 := by cases h4; rfl
    subst e4
    simp only [beforeDeleteA] at h0; cases h0
    exact ⟨s1, s2, h1, h2, h3⟩
  case false =>
    simp only [hdf, Bool.false_eq_true, if_false, List.foldlM_cons, List.foldlM_nil, bind_ok] at hF
    obtain ⟨s1, h1, s2, h2, s3', h3, s4, h4, h5⟩ := hF
    have e5 : s4 = s3 := by cases h5; rfl
    subst e5
    simp only [beforeDeleteA] at h4; cases h4
    exact ⟨s1, s2, h1, h2, h3⟩

/-- a successful round: A's pass, then (for a child store's round) that child store's own step -/
theorem roundA_ok {σ : Schema} {del : List Bytes → St → Bytes → Res} {prog : List Bytes} {id : Bytes} {s s' : St}
    {r : Option Child} (h : roundA σ del prog id s r = .ok s') :
    ∃ s3, PassOk del prog id s s3 ∧ passA σ del prog id s = .ok s3 ∧
      s' = afterRound σ id s3 r := by
  unfold roundA at h
  split at h
  · next s3 h3 => cases h; exact ⟨s3, passA_ok h3, h3, rfl⟩
  · cases h

theorem roundA_geq {σ : Schema} {s3 : St} {id : Bytes} (r : Option Child) :
    GEq s3 (afterRound σ id s3 r) := by
  cases r with
  | none => exact GEq.refl _
  | some c => exact childBeforeDelete_geq σ c id s3

/-- the shape of a successful `DeleteById` on A: the rounds, then the entity bucket goes -/
theorem deleteA_succ_ok {σ : Schema} {n : Nat} {prog : List Bytes} {s s' : St} {id : Bytes}
    (h : deleteA σ (n + 1) prog s id = .ok s') :
    s.as.contains id = true ∧ ∃ s3,
      (roundsOf σ s id).foldlM (roundA σ (deleteA σ n) prog id) s = .ok s3 ∧
      s3.as.contains id = true ∧
      s' = { s3 with as := s3.as.erase id, minions := s3.minions.erase id } ∧ σ.protect ≠ some id := by
  unfold deleteA at h
  split at h
  · next hc =>
    refine ⟨hc, ?_⟩
    split at h
    · next sF hF =>
      split at h
      · next hcF =>
        split at h
        · cases h
        · next hv => cases h; exact ⟨sF, hF, hcF, rfl, hv⟩
      · cases h
    · cases h
  · cases h

theorem roundsOf_ne_nil (σ : Schema) (s : St) (id : Bytes) : roundsOf σ s id ≠ [] := by
  unfold roundsOf; simp

theorem mem_mark (prog : List Bytes) (id x : Bytes) : x ∈ mark prog id ↔ x = id ∨ x ∈ prog := by
  unfold mark
  split
  · next h => constructor
              · exact Or.inr
              · rintro (rfl | h'); exact h; exact h'
  · simp

/-- one round preserves the (generalised) invariant, makes `id` pending, only shrinks the table, and
    leaves no referrer of `id` outside the pending set -/
theorem pass_inv {σ : Schema} {del : List Bytes → St → Bytes → Res} {P : Bytes → Prop} {prog : List Bytes}
    {s s3 : St} {id : Bytes}
    (hdel : ∀ st x st', GInv σ (plus P id) st → del (mark prog id) st x = .ok st' →
      GInv σ (plus P id) st' ∧ Sub st' st ∧ st'.as.lookup x = none ∧ st'.bs = st.bs)
    (hI : GInv σ P s) (hprog : ∀ x ∈ prog, P x) (h : PassOk del prog id s s3) :
    GInv σ (plus P id) s3 ∧ Sub s3 s ∧ s3.bs = s.bs ∧
      (∀ x, isReferrer s3 (·.boss) id x = true → P x ∨ x = id) := by
  obtain ⟨s1, s2, h1, h2, h3⟩ := h
  obtain ⟨hI2, has2, hbs2⟩ := preDelete_inv hI h1 h2
  obtain ⟨hI3, hsub3, hbs3, hdone⟩ := cascadeOver_spec hdel _ s2 s3 hI2 h3
  refine ⟨hI3, ?_, hbs3.trans hbs2, ?_⟩
  · intro k e he
    have := hsub3 k e he
    rw [has2] at this; exact this
  · intro x hr
    obtain ⟨e, he, hf⟩ := (isReferrer_iff s3 _ id x).1 hr
    have hx2 : isReferrer s2 (·.boss) id x = true := (isReferrer_iff s2 _ id x).2 ⟨e, hsub3 x e he, hf⟩
    by_cases hxs : x ∈ mark prog id
    · rcases (mem_mark prog id x).1 hxs with rfl | hx'
      · exact Or.inr rfl
      · exact Or.inl (hprog x hx')
    · have := hdone x ((mem_referrers s2 _ id x).2 hx2) hxs
      rw [hr] at this; cases this

theorem plus_plus (P : Bytes → Prop) (id k : Bytes) : plus (plus P id) id k ↔ plus P id k := by
  unfold plus
  constructor
  · rintro ((h | h) | h)
    · exact Or.inl h
    · exact Or.inr h
    · exact Or.inr h
  · rintro (h | h)
    · exact Or.inl (Or.inl h)
    · exact Or.inr h

theorem SetExact.congr {f : EntA → FV} {P Q : Bytes → Prop} {as : Map EntA} {m : Map (List Bytes)}
    (hpq : ∀ k, P k ↔ Q k) (h : SetExact f P as m) : SetExact f Q as m := by
  intro t k
  rw [h t k]
  constructor
  · rintro ⟨e, he, h1, h2, h3⟩; exact ⟨e, he, h1, h2, fun hq => h3 ((hpq k).2 hq)⟩
  · rintro ⟨e, he, h1, h2, h3⟩; exact ⟨e, he, h1, h2, fun hp => h3 ((hpq k).1 hp)⟩

theorem GInv.congr {σ : Schema} {P Q : Bytes → Prop} {s : St} (hpq : ∀ k, P k ↔ Q k) (h : GInv σ P s) : GInv σ Q s :=
  ⟨h.things.congr hpq, h.minions.congr hpq, h.ownerT, fun k e he hq => h.bossT k e he (fun hp => hq ((hpq k).1 hp)),
    h.depT, h.bossNN, h.depNN, h.thingsK, h.minionsK, h.nonEmpty, h.nonEmptyB⟩

theorem isReferrer_as {s s' : St} (h : s'.as = s.as) (f : EntA → FV) (id x : Bytes) :
    isReferrer s' f id x = isReferrer s f id x := by
  unfold isReferrer; rw [h]

theorem Sub.of_as {s s' : St} (h : s'.as = s.as) : Sub s' s := fun k e he => h ▸ he

/-- all rounds of one delete: from the invariant with `id` live or already pending to the invariant with `id`
    pending, a sub-table, and — once at least one round has run — no live referrer of `id` -/
theorem rounds_inv {σ : Schema} {del : List Bytes → St → Bytes → Res} {P : Bytes → Prop} {prog : List Bytes}
    {s : St} {id : Bytes}
    (hdel : ∀ (Q : Bytes → Prop), (∀ x ∈ prog, Q x) → ∀ st x st', GInv σ (plus Q id) st →
      del (mark prog id) st x = .ok st' →
      GInv σ (plus Q id) st' ∧ Sub st' st ∧ st'.as.lookup x = none ∧ st'.bs = st.bs)
    (hprog : ∀ x ∈ prog, P x) :
    ∀ (l : List (Option Child)) (st s' : St), (GInv σ P st ∨ GInv σ (plus P id) st) → Sub st s → st.bs = s.bs →
      l.foldlM (roundA σ del prog id) st = .ok s' →
      Sub s' s ∧ s'.bs = s.bs ∧
      (l ≠ [] → GInv σ (plus P id) s' ∧ ∀ x, isReferrer s' (·.boss) id x = true → P x ∨ x = id) := by
  intro l
  induction l with
  | nil =>
    intro st s' _ hsub hbs h
    simp only [List.foldlM_nil, pure, Except.pure] at h
    cases h
    exact ⟨hsub, hbs, fun hne => absurd rfl hne⟩
  | cons r rest ih =>
    intro st s' hI hsub hbs h
    simp only [List.foldlM_cons, bind_ok] at h
    obtain ⟨st1, h1, h2⟩ := h
    obtain ⟨s3, hp, _, rfl⟩ := roundA_ok h1
    have hprog2 : ∀ x ∈ prog, plus P id x := fun x hx => Or.inl (hprog x hx)
    have h3 : GInv σ (plus P id) s3 ∧ Sub s3 st ∧ s3.bs = st.bs ∧
        (∀ x, isReferrer s3 (·.boss) id x = true → P x ∨ x = id) := by
      rcases hI with hI | hI
      · exact pass_inv (hdel P hprog) hI hprog hp
      · obtain ⟨a, b, c, d⟩ := pass_inv (hdel (plus P id) hprog2) hI hprog2 hp
        refine ⟨a.congr (plus_plus P id), b, c, ?_⟩
        intro x hr
        rcases d x hr with (h1 | h1) | h1
        · exact Or.inl h1
        · exact Or.inr h1
        · exact Or.inr h1
    obtain ⟨hI3, hsub3, hbs3, hno3⟩ := h3
    have g := roundA_geq (σ := σ) (s3 := s3) (id := id) r
    have hI1 := hI3.of_geq g
    have hsub1 : Sub (afterRound σ id s3 r) s :=
      (Sub.of_as g.1).trans (hsub3.trans hsub)
    have hbs1 := g.2.1.trans (hbs3.trans hbs)
    obtain ⟨a, b, c⟩ := ih _ s' (Or.inr hI1) hsub1 hbs1 h2
    refine ⟨a, b, fun _ => ?_⟩
    by_cases hrest : rest = []
    · subst hrest
      simp only [List.foldlM_nil, pure, Except.pure] at h2
      cases h2
      refine ⟨hI1, fun x hr => hno3 x ?_⟩
      rw [← isReferrer_as g.1]; exact hr
    · exact c hrest

/-- **DeleteById on A preserves the (generalised) invariant**, removes its argument, and only shrinks the
    table — with one round or several.  `prog` (in progress) ⊆ `P` (pending). -/
theorem deleteA_inv (σ : Schema) : ∀ (n : Nat) (P : Bytes → Prop) (prog : List Bytes) (s : St) (id : Bytes) (s' : St),
    GInv σ P s → (∀ x ∈ prog, P x) → deleteA σ n prog s id = .ok s' →
    GInv σ P s' ∧ Sub s' s ∧ s'.as.lookup id = none ∧ s'.bs = s.bs := by
  intro n
  induction n with
  | zero => intro P prog s id s' _ _ h; simp [deleteA] at h
  | succ n ih =>
    intro P prog s id s' hI hprog h
    obtain ⟨hc, s3, hF, hc3, rfl, _⟩ := deleteA_succ_ok h
    have hprog' : ∀ (Q : Bytes → Prop), (∀ x ∈ prog, Q x) → ∀ x ∈ mark prog id, plus Q id x := by
      intro Q hQ x hx
      rcases (mem_mark prog id x).1 hx with rfl | hx'
      · exact Or.inr rfl
      · exact Or.inl (hQ x hx')
    have hdel : ∀ (Q : Bytes → Prop), (∀ x ∈ prog, Q x) → ∀ st x st', GInv σ (plus Q id) st →
        deleteA σ n (mark prog id) st x = .ok st' →
        GInv σ (plus Q id) st' ∧ Sub st' st ∧ st'.as.lookup x = none ∧ st'.bs = st.bs :=
      fun Q hQ st x st' a b => ih (plus Q id) (mark prog id) st x st' a (hprog' Q hQ) b
    obtain ⟨hsub3, hbs3, hfin⟩ := rounds_inv hdel hprog _ s s3 (Or.inl hI) (Sub.refl s) rfl hF
    obtain ⟨hI3, hno⟩ := hfin (roundsOf_ne_nil σ s id)
    refine ⟨erase_inv hI3 hno hc3, ?_, by simp, hbs3⟩
    intro k e he
    simp only [Map.lookup_erase] at he
    by_cases hk : k = id
    · simp [hk] at he
    · simp only [hk, if_false] at he
      exact hsub3 k e he

/-! ### DeleteById on B -/

theorem restrictStep {σ : Schema} {delA : St → Bytes → Res} {id : Bytes} {st st' : St}
    (hI : Inv σ st) (h : beforeDeleteB σ delA id st .thingsRestrict = .ok st') :
    st' = st ∧ ∀ k e, st.as.lookup k = some e → evalVal e.owner ≠ [] → evalVal e.owner ≠ id := by
  simp only [beforeDeleteB] at h
  split at h
  · cases h
  · next hemp =>
    cases h
    refine ⟨rfl, ?_⟩
    intro k e he hne hv
    have hemp' : (st.things.lookup id).getD [] = [] := by simpa using hemp
    have : k ∈ (st.things.lookup id).getD [] := (hI.things id k).2 ⟨e, he, hv, hv ▸ hne, fun h => h⟩
    rw [hemp'] at this; cases this

theorem depCascadeStep {σ : Schema} {n : Nat} {id : Bytes} {st st' : St}
    (hI : Inv σ st) (h : beforeDeleteB σ (deleteA σ n []) id st .depCascade = .ok st') :
    Inv σ st' ∧ Sub st' st ∧ st'.bs = st.bs ∧ ∀ x, isReferrer st' (·.dep) id x = false := by
  simp only [beforeDeleteB] at h
  split at h
  · obtain ⟨a, b, c, d⟩ := cascadeOver_spec
      (fun st x st' a b => deleteA_inv σ n none' [] st x st' a (fun _ h => by cases h) b) _ st st' hI h
    refine ⟨a, b, c, ?_⟩
    intro x
    cases hr : isReferrer st' (·.dep) id x with
    | false => rfl
    | true =>
      obtain ⟨e, he, hf⟩ := (isReferrer_iff st' _ id x).1 hr
      have hx : isReferrer st (·.dep) id x = true := (isReferrer_iff st _ id x).2 ⟨e, b x e he, hf⟩
      have := d x ((mem_referrers st _ id x).2 hx) (by simp)
      rw [hr] at this; cases this
  · split at h
    · cases h
    · next hemp =>
      cases h
      refine ⟨hI, Sub.refl _, rfl, ?_⟩
      intro x
      cases hr : isReferrer st (·.dep) id x with
      | false => rfl
      | true =>
        have hm := (mem_referrers st (·.dep) id x).2 hr
        have hemp' : referrers st (·.dep) id = [] := by simpa using hemp
        rw [hemp'] at hm; cases hm

/-- deleting the B entity bucket (with its back-reference bucket) once nothing refers to it -/
theorem eraseB_inv {σ : Schema} {s : St} {id : Bytes} (hI : Inv σ s)
    (hown : ∀ k e, s.as.lookup k = some e → evalVal e.owner ≠ [] → evalVal e.owner ≠ id)
    (hdep : ∀ x, isReferrer s (·.dep) id x = false) :
    Inv σ { s with bs := s.bs.erase id, things := s.things.erase id } := by
  have hkeep : ∀ t, t ≠ id → s.bs.contains t = true → (s.bs.erase id).contains t = true := by
    intro t ht hc
    obtain ⟨v, hv⟩ := (Map.contains_iff _ _).1 hc
    refine (Map.contains_iff _ _).2 ⟨v, ?_⟩
    rw [Map.lookup_erase]; simp only [ht, if_false]; exact hv
  refine ⟨?_, hI.minions, ?_, hI.bossT, ?_, hI.bossNN, hI.depNN, ?_, hI.minionsK, hI.nonEmpty, ?_⟩
  · exact hI.things.erase_key (fun k e he _ hne => hown k e he hne)
  · intro k e he hne; exact hkeep _ (hown k e he hne) (hI.ownerT k e he hne)
  · intro k e he hne
    refine hkeep _ ?_ (hI.depT k e he hne)
    intro hv
    have := (isReferrer_iff s (·.dep) id k).2 ⟨e, he, evalVal_eq_some hv (hv ▸ hne)⟩
    rw [hdep k] at this; cases this
  · intro t ht
    rw [Map.lookup_erase] at ht
    by_cases htid : t = id
    · simp [htid] at ht
    · simp only [htid, if_false] at ht; exact hkeep t htid (hI.thingsK t ht)
  · rw [Map.lookup_erase]
    by_cases h : ([] : Bytes) = id
    · simp [h]
    · simp only [h, if_false]; exact hI.nonEmptyB

/-- B's constraints registered for A's fks, whatever their order: an intermediate state `s2` that
    satisfies the invariant, is a sub-table of `s`, and in which nothing refers to `id` through A's fks -/
theorem deleteB_fold_ok {σ : Schema} {s sF : St} {id : Bytes} (hI : Inv σ s)
    (hF : (orderB σ).foldlM (beforeDeleteB σ (deleteA σ (fuelOf s) []) id) s = .ok sF) :
    Inv σ sF ∧ Sub sF s ∧ sF.bs = s.bs ∧
      (∀ k e, sF.as.lookup k = some e → evalVal e.owner ≠ [] → evalVal e.owner ≠ id) ∧
      (∀ x, isReferrer sF (·.dep) id x = false) := by
  unfold orderB at hF
  cases hdf : σ.depFirst
  case true =>
    simp only [hdf, if_true, List.foldlM_cons, List.foldlM_nil, bind_ok] at hF
    obtain ⟨s1, h1, s2, h2, h3⟩ := hF
    have e3 : s2 = sF := by cases h3; rfl
    subst e3
    obtain ⟨a, b, c, d⟩ := depCascadeStep hI h1
    obtain ⟨rfl, hown⟩ := restrictStep a h2
    exact ⟨a, b, c, hown, d⟩
  case false =>
    simp only [hdf, Bool.false_eq_true, if_false, List.foldlM_cons, List.foldlM_nil, bind_ok] at hF
    obtain ⟨s1, h1, s2, h2, h3⟩ := hF
    have e3 : s2 = sF := by cases h3; rfl
    subst e3
    obtain ⟨rfl, hown⟩ := restrictStep hI h1
    obtain ⟨a, b, c, d⟩ := depCascadeStep hI h2
    exact ⟨a, b, c, fun k e he => hown k e (b k e he), d⟩

/-- the shape of a successful `DeleteById` on B: the state `s2` after A's constraints, the restrict checks
    of the child-declared fks passed on `s2`, then the entity bucket (with its back-reference buckets) goes -/
theorem deleteB_succ_ok {σ : Schema} {s s' : St} {id : Bytes} (hI : Inv σ s) (h : deleteB σ s id = .ok s') :
    s.bs.contains id = true ∧ ∃ s2, Inv σ s2 ∧ Sub s2 s ∧ s2.bs = s.bs ∧
      (∀ k e, s2.as.lookup k = some e → evalVal e.owner ≠ [] → evalVal e.owner ≠ id) ∧
      (∀ x, isReferrer s2 (·.dep) id x = false) ∧
      (orderB σ).foldlM (beforeDeleteB σ (deleteA σ (fuelOf s) []) id) s = .ok s2 ∧
      childRestrict σ s2 id .c1 = false ∧ childRestrict σ s2 id .c2 = false ∧
      s' = { s2 with bs := s2.bs.erase id, things := s2.things.erase id,
                     mentees1 := s2.mentees1.erase id, mentees2 := s2.mentees2.erase id } := by
  unfold deleteB at h
  split at h
  · next hc =>
    refine ⟨hc, ?_⟩
    split at h
    · next sF hF =>
      split at h
      · cases h
      · next hcr =>
        split at h
        · cases h
          obtain ⟨a, b, c, d, e⟩ := deleteB_fold_ok hI hF
          have hcr' : childRestrict σ sF id .c1 = false ∧ childRestrict σ sF id .c2 = false := by
            cases h1 : childRestrict σ sF id .c1 <;> cases h2 : childRestrict σ sF id .c2 <;> simp [h1, h2] at hcr ⊢
          exact ⟨sF, a, b, c, d, e, hF, hcr'.1, hcr'.2, rfl⟩
        · cases h
    · cases h
  · cases h

theorem deleteB_inv {σ : Schema} {s s' : St} {id : Bytes} (hI : Inv σ s) (h : deleteB σ s id = .ok s') :
    Inv σ s' ∧ Sub s' s ∧ s'.bs = s.bs.erase id := by
  obtain ⟨_, s2, a, b, c, hown, hdep, _, _, _, rfl⟩ := deleteB_succ_ok hI h
  exact ⟨(eraseB_inv a hown hdep).of_geq ⟨rfl, rfl, rfl, rfl⟩, b, by rw [← c]⟩

/-! ### every operation, every transaction, every history -/

theorem inv_empty (σ : Schema) : Inv σ {} := by
  refine ⟨?_, ?_, ?_, ?_, ?_, ?_, ?_, ?_, ?_, rfl, rfl⟩
  · intro t k; simp [Map.lookup]
  · intro t k; simp [Map.lookup]
  all_goals (intros; simp_all [Map.lookup, Targets, NonNull])

/-- `GInv` depends on the schema only through `depNullable` -/
theorem GInv.of_schema {σ σ' : Schema} {P : Bytes → Prop} {s : St} (h : GInv σ' P s)
    (hn : σ'.depNullable = σ.depNullable) : GInv σ P s :=
  ⟨h.things, h.minions, h.ownerT, h.bossT, h.depT, h.bossNN, fun hf => h.depNN (hn.trans hf), h.thingsK, h.minionsK,
    h.nonEmpty, h.nonEmptyB⟩

theorem apply_inv {σ : Schema} {s s' : St} (op : Op) (hI : Inv σ s) (h : apply σ s op = .ok s') : Inv σ s' := by
  cases op with
  | createB id => exact (createB_inv hI h).1
  | createA id e => exact (createA_inv hI h).1
  | updateA id e mo mb md => exact (updateA_inv hI h).1
  | deleteA id => exact (deleteA_inv σ _ none' [] s id s' hI (fun _ h => by cases h) h).1
  | deleteB id => exact (deleteB_inv hI h).1
  | createC c id e x => exact (createC_inv hI h).1
  | updateC c id e x mo mb md mt mm mg => exact (updateC_inv hI h).1
  | deleteC id => exact (deleteA_inv σ _ none' [] s id s' hI (fun _ h => by cases h) h).1
  | deleteAV id v =>
    exact ((deleteA_inv (σ.withProtect v) _ none' [] s id s' (hI.of_schema rfl) (fun _ h => by cases h) h).1).of_schema rfl
  | deleteBV id v =>
    exact ((deleteB_inv (σ := σ.withProtect v) (hI.of_schema rfl) h).1).of_schema rfl

theorem runTxFrom_inv {σ : Schema} {s0 : St} (h0 : Inv σ s0) :
    ∀ (ops : List Op) (i : Nat) (s : St), Inv σ s → Inv σ (runTxFrom σ s0 i s ops).1 := by
  intro ops
  induction ops with
  | nil => intro i s hs; exact hs
  | cons op rest ih =>
    intro i s hs
    unfold runTxFrom
    cases ha : apply σ s op with
    | ok s' => simp only; exact ih (i + 1) s' (apply_inv op hs ha)
    | error e => exact h0

theorem runTx_inv {σ : Schema} {s : St} (h : Inv σ s) (ops : List Op) : Inv σ (runTx σ s ops).1 :=
  runTxFrom_inv h ops 0 s h

theorem foldl_inv {σ : Schema} (txs : List (List Op)) : ∀ s, Inv σ s →
    Inv σ (txs.foldl (fun s tx => (runTx σ s tx).1) s) := by
  induction txs with
  | nil => intro s h; exact h
  | cons tx rest ih => intro s h; exact ih _ (runTx_inv h tx)

end StorageModel.C04
