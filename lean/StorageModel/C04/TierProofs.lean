import StorageModel.C04.Tier
/-
  C04, round 9 — proofs about the three-store chain (`Tier.lean`): what `DeleteById` does at every level, for every
  schema, state and id (no invariant needed), phrased through `lookup`.
-/
namespace StorageModel.C04
open StorageModel

theorem lookup_dropKeys {V : Type} (m : Map V) (p : Bytes → Bool) (x : Bytes) :
    (dropKeys m p).lookup x = if p x then none else m.lookup x := by
  induction m with
  | nil => simp [dropKeys, Map.lookup]
  | cons kv t ih =>
    obtain ⟨a, b⟩ := kv
    simp only [dropKeys, List.filter] at ih ⊢
    by_cases hp : p a = true
    · simp only [hp, Bool.not_true]
      rw [ih]
      by_cases hx : a = x
      · subst hx; simp [hp]
      · simp [Map.lookup, hx]
    · have hp' : p a = false := by simpa using hp
      simp only [hp', Bool.not_false, Map.lookup]
      rw [ih]
      by_cases hx : a = x
      · subst hx; simp [hp']
      · simp [hx]

/-- `tIsRef` only looks at the row -/
theorem tIsRef_eq (m : Map FV) (id x : Bytes) :
    tIsRef m id x = true ↔ m.lookup x = some (some id) := by
  unfold tIsRef
  split
  · next v h => rw [h]; simp
  · next h =>
    constructor
    · intro h'; cases h'
    · intro h'; exact absurd h' (by intro e; exact h id e)

theorem tIsRef_congr (m m' : Map FV) (id x : Bytes) (h : m'.lookup x = m.lookup x) : tIsRef m' id x = tIsRef m id x := by
  unfold tIsRef; rw [h]

theorem tIsRef_contains (m : Map FV) (id x : Bytes) (h : tIsRef m id x = true) : m.contains x = true := by
  rw [tIsRef_eq] at h; simp [Map.contains, h]

theorem mem_tReferrers (m : Map FV) (id x : Bytes) : x ∈ tReferrers m id ↔ tIsRef m id x = true := by
  unfold tReferrers
  rw [mem_sortB, List.mem_filter, Map.mem_keys_iff]
  constructor
  · exact fun h => h.2
  · intro h; exact ⟨by have := tIsRef_contains m id x h; simpa [Map.contains] using this, h⟩

theorem tReferred_iff (m : Map FV) (id : Bytes) : tReferred m id = true ↔ ∃ x, tIsRef m id x = true := by
  unfold tReferred
  rw [List.any_eq_true]
  constructor
  · rintro ⟨x, _, h⟩; exact ⟨x, h⟩
  · rintro ⟨x, h⟩
    refine ⟨x, ?_, h⟩
    rw [Map.mem_keys_iff]
    have := tIsRef_contains m id x h; simpa [Map.contains] using this

theorem tReferrers_ne_nil (m : Map FV) (id : Bytes) : tReferrers m id ≠ [] ↔ tReferred m id = true := by
  rw [tReferred_iff]
  constructor
  · intro h
    cases hl : tReferrers m id with
    | nil => exact absurd hl h
    | cons x t => exact ⟨x, (mem_tReferrers m id x).1 (by rw [hl]; simp)⟩
  · rintro ⟨x, hx⟩ hnil
    have := (mem_tReferrers m id x).2 hx
    rw [hnil] at this; cases this

theorem tCascade_nil (del : TSt → Bytes → TRes) (isRef : TSt → Bytes → Bool) (s : TSt) :
    tCascade del isRef [] s = .ok s := rfl

theorem tCascade_cons (del : TSt → Bytes → TRes) (isRef : TSt → Bytes → Bool) (x : Bytes) (rest : List Bytes) (s : TSt) :
    tCascade del isRef (x :: rest) s =
      (match (if isRef s x = true then del s x else .ok s) with
       | .ok s1 => tCascade del isRef rest s1
       | .error e => .error e) := by
  unfold tCascade
  rw [List.foldlM_cons]
  cases (if isRef s x = true then del s x else Except.ok s) <;> rfl

/-! ### the cascade of the lower link (notes of an item) never fails and removes exactly the referring notes -/

theorem tCascade2_char (id : Bytes) (cands : List Bytes) (s : TSt) :
    ∃ s', tCascade tDelete2 (fun st x => tIsRef st.t2 id x) cands s = .ok s' ∧ s'.t0 = s.t0 ∧ s'.t1 = s.t1 ∧
      ∀ y, s'.t2.lookup y = if y ∈ cands ∧ tIsRef s.t2 id y = true then none else s.t2.lookup y := by
  induction cands generalizing s with
  | nil => exact ⟨s, tCascade_nil _ _ _, rfl, rfl, by simp⟩
  | cons x rest ih =>
    rw [tCascade_cons]
    by_cases hx : tIsRef s.t2 id x = true
    · have hc : s.t2.contains x = true := tIsRef_contains _ _ _ hx
      simp only [hx, if_true, tDelete2, hc]
      obtain ⟨s', h1, h2, h3, h4⟩ := ih { s with t2 := s.t2.erase x }
      refine ⟨s', h1, h2, h3, ?_⟩
      · intro y
        rw [h4]
        have e : tIsRef (s.t2.erase x) id y = (decide (y ≠ x) && tIsRef s.t2 id y) := by
          by_cases hyx : y = x
          · subst hyx; simp [tIsRef]
          · rw [tIsRef_congr s.t2 _ id y (by simp [hyx])]; simp [hyx]
        simp only [e, Map.lookup_erase, List.mem_cons]
        by_cases hyx : y = x
        · subst hyx; simp [hx]
        · simp [hyx]
    · have hx' : tIsRef s.t2 id x = false := by simpa using hx
      simp only [hx', Bool.false_eq_true, if_false]
      obtain ⟨s', h1, h2, h3, h4⟩ := ih s
      refine ⟨s', h1, h2, h3, ?_⟩
      · intro y
        rw [h4]
        by_cases hyx : y = x
        · subst hyx; simp [hx']
        · simp [hyx]

theorem tBefore1_char (σ : TSchema) (s : TSt) (id : Bytes) :
    match tBefore1 σ s id with
    | .ok s' => (σ.casc2 = false → tReferred s.t2 id = false) ∧ s'.t0 = s.t0 ∧ s'.t1 = s.t1 ∧
        (∀ y, s'.t2.lookup y = if tIsRef s.t2 id y = true then none else s.t2.lookup y)
    | .error e => e = .refExists ∧ σ.casc2 = false ∧ tReferred s.t2 id = true := by
  by_cases hm : σ.casc2 = true
  · have e : tBefore1 σ s id = tCascade tDelete2 (fun st x => tIsRef st.t2 id x) (tReferrers s.t2 id) s := by
      simp [tBefore1, hm]
    obtain ⟨s', h1, h2, h3, h4⟩ := tCascade2_char id (tReferrers s.t2 id) s
    rw [e, h1]
    refine ⟨by simp [hm], h2, h3, ?_⟩
    intro y
    rw [h4]
    by_cases hy : tIsRef s.t2 id y = true
    · simp [hy, mem_tReferrers]
    · simp [hy]
  · have hm' : σ.casc2 = false := by simpa using hm
    by_cases hr : tReferrers s.t2 id ≠ []
    · have e : tBefore1 σ s id = .error .refExists := by simp [tBefore1, hm', hr]
      rw [e]
      exact ⟨rfl, hm', (tReferrers_ne_nil _ _).1 hr⟩
    · have e : tBefore1 σ s id = .ok s := by
        have : tReferrers s.t2 id = [] := by simpa using hr
        simp [tBefore1, hm', this]
      rw [e]
      have hnone : tReferred s.t2 id = false := by
        cases h : tReferred s.t2 id with
        | false => rfl
        | true => exact absurd ((tReferrers_ne_nil _ _).2 h) hr
      refine ⟨fun _ => hnone, rfl, rfl, ?_⟩
      intro y
      have : tIsRef s.t2 id y = false := by
        cases h : tIsRef s.t2 id y with
        | false => rfl
        | true => have := (tReferred_iff s.t2 id).2 ⟨y, h⟩; rw [hnone] at this; cases this
      simp [this]

/-- what `DeleteById` on items does, in every state: the outcome is decided by the restrict rule of the lower
    link, and on success exactly the item and the notes referring to it are gone -/
theorem tDelete1_char (σ : TSchema) (s : TSt) (id : Bytes) :
    match tDelete1 σ s id with
    | .ok s' => s.t1.contains id = true ∧ (σ.casc2 = false → tReferred s.t2 id = false) ∧ s'.t0 = s.t0 ∧
        (∀ y, s'.t1.lookup y = if y = id then none else s.t1.lookup y) ∧
        (∀ y, s'.t2.lookup y = if tIsRef s.t2 id y = true then none else s.t2.lookup y)
    | .error e => (e = .notFound ∧ s.t1.contains id = false) ∨
        (e = .refExists ∧ s.t1.contains id = true ∧ σ.casc2 = false ∧ tReferred s.t2 id = true) := by
  by_cases hc : s.t1.contains id = true
  · have hb := tBefore1_char σ s id
    unfold tDelete1
    rw [if_pos hc]
    cases hbe : tBefore1 σ s id with
    | error e =>
      rw [hbe] at hb
      exact Or.inr ⟨hb.1, hc, hb.2.1, hb.2.2⟩
    | ok s1 =>
      rw [hbe] at hb
      obtain ⟨a, b, c, d⟩ := hb
      have hc1 : s1.t1.contains id = true := by rw [c]; exact hc
      dsimp only
      rw [if_pos hc1]
      refine ⟨hc, a, b, ?_, d⟩
      intro y
      simp [c]
  · have hc' : s.t1.contains id = false := by
      cases h : s.t1.contains id with
      | false => rfl
      | true => exact absurd h hc
    have e : tDelete1 σ s id = .error .notFound := by simp [tDelete1, hc']
    rw [e]
    exact Or.inl ⟨rfl, hc'⟩

/-- note `n` is reached from owner `id` through one of the candidate items -/
def ReachedNote (s : TSt) (id : Bytes) (cands : List Bytes) (n : Bytes) : Prop :=
  ∃ i, i ∈ cands ∧ tIsRef s.t1 id i = true ∧ tIsRef s.t2 i n = true

/-- the cascade loop of the UPPER link (items of an owner), whose nested `DeleteById` runs the restrict / cascade
    rule of the LOWER link for every item it reaches -/
theorem tCascade1_char (σ : TSchema) (id : Bytes) (cands : List Bytes) (s : TSt) :
    match tCascade (tDelete1 σ) (fun st x => tIsRef st.t1 id x) cands s with
    | .ok s' => s'.t0 = s.t0 ∧
        (∀ y, s'.t1.lookup y = if y ∈ cands ∧ tIsRef s.t1 id y = true then none else s.t1.lookup y) ∧
        (∀ n, (ReachedNote s id cands n → s'.t2.lookup n = none) ∧
              (¬ ReachedNote s id cands n → s'.t2.lookup n = s.t2.lookup n)) ∧
        (σ.casc2 = false → ∀ i, i ∈ cands → tIsRef s.t1 id i = true → tReferred s.t2 i = false)
    | .error e => e = .refExists ∧ σ.casc2 = false ∧
        ∃ i, i ∈ cands ∧ tIsRef s.t1 id i = true ∧ tReferred s.t2 i = true := by
  induction cands generalizing s with
  | nil =>
    rw [tCascade_nil]
    refine ⟨rfl, by simp, ?_, by simp⟩
    intro n
    exact ⟨fun h => (by obtain ⟨i, hi, _⟩ := h; cases hi), fun _ => rfl⟩
  | cons x rest ih =>
    rw [tCascade_cons]
    by_cases hx : tIsRef s.t1 id x = true
    · rw [if_pos hx]
      have hd := tDelete1_char σ s x
      cases hdel : tDelete1 σ s x with
      | error e =>
        rw [hdel] at hd
        dsimp only
        rcases hd with ⟨_, hnc⟩ | ⟨he, _, hm, hr⟩
        · rw [tIsRef_contains _ _ _ hx] at hnc; cases hnc
        · exact ⟨he, hm, x, by simp, hx, hr⟩
      | ok s1 =>
        rw [hdel] at hd
        obtain ⟨_, hrestr, h0, h1, h2⟩ := hd
        have ih' := ih s1
        have e1 : ∀ y, tIsRef s1.t1 id y = (decide (y ≠ x) && tIsRef s.t1 id y) := by
          intro y
          by_cases hyx : y = x
          · subst hyx; simp [tIsRef, h1]
          · rw [tIsRef_congr s.t1 _ id y (by rw [h1]; simp [hyx])]; simp [hyx]
        have e2 : ∀ i n, tIsRef s1.t2 i n = (!tIsRef s.t2 x n && tIsRef s.t2 i n) := by
          intro i n
          by_cases hxn : tIsRef s.t2 x n = true
          · have hl : s1.t2.lookup n = none := by rw [h2]; simp [hxn]
            have hf : tIsRef s1.t2 i n = false := by unfold tIsRef; rw [hl]
            rw [hf, hxn]; rfl
          · have hxn' : tIsRef s.t2 x n = false := by simpa using hxn
            rw [tIsRef_congr s.t2 _ i n (by rw [h2]; simp [hxn'])]; simp [hxn']
        dsimp only
        cases hres : tCascade (tDelete1 σ) (fun st x => tIsRef st.t1 id x) rest s1 with
        | error e =>
          rw [hres] at ih'
          obtain ⟨he, hm, i, hi, hri, hrr⟩ := ih'
          refine ⟨he, hm, i, List.mem_cons_of_mem _ hi, ?_, ?_⟩
          · rw [e1] at hri; simp at hri; exact hri.2
          · obtain ⟨n, hn⟩ := (tReferred_iff _ _).1 hrr
            rw [e2] at hn
            simp at hn
            exact (tReferred_iff _ _).2 ⟨n, hn.2⟩
        | ok s' =>
          rw [hres] at ih'
          obtain ⟨g0, g1, g2, g3⟩ := ih'
          refine ⟨g0.trans h0, ?_, ?_, ?_⟩
          · intro y
            rw [g1, e1, h1]
            by_cases hyx : y = x
            · subst hyx; simp [hx]
            · simp [hyx]
          · intro n
            have key : ReachedNote s id (x :: rest) n ↔ (tIsRef s.t2 x n = true ∨ ReachedNote s1 id rest n) := by
              constructor
              · intro h
                obtain ⟨i, hi, hri, hrn⟩ := h
                by_cases hxn : tIsRef s.t2 x n = true
                · exact Or.inl hxn
                · right
                  have hxn' : tIsRef s.t2 x n = false := by simpa using hxn
                  rcases List.mem_cons.1 hi with rfl | hi'
                  · exact absurd hrn hxn
                  · have hix : i ≠ x := by rintro rfl; exact hxn hrn
                    refine ⟨i, hi', ?_, ?_⟩
                    · rw [e1]; simp [hix, hri]
                    · rw [e2]; simp [hrn, hxn']
              · rintro (hxn | h)
                · exact ⟨x, by simp, hx, hxn⟩
                · obtain ⟨i, hi, hri, hrn⟩ := h
                  rw [e1] at hri; rw [e2] at hrn
                  simp at hri hrn
                  exact ⟨i, List.mem_cons_of_mem _ hi, hri.2, hrn.2⟩
            constructor
            · intro hr
              rcases key.1 hr with hxn | hr1
              · by_cases hr1 : ReachedNote s1 id rest n
                · exact (g2 n).1 hr1
                · rw [(g2 n).2 hr1, h2]; simp [hxn]
              · exact (g2 n).1 hr1
            · intro hnr
              have hxn : ¬ tIsRef s.t2 x n = true := fun h => hnr (key.2 (Or.inl h))
              have hr1 : ¬ ReachedNote s1 id rest n := fun h => hnr (key.2 (Or.inr h))
              rw [(g2 n).2 hr1, h2]; simp [hxn]
          · intro hm i hi hri
            rcases List.mem_cons.1 hi with rfl | hi'
            · exact hrestr hm
            · by_cases hix : i = x
              · subst hix; exact hrestr hm
              · have hg := g3 hm i hi' (by rw [e1]; simp [hix, hri])
                cases hh : tReferred s.t2 i with
                | false => rfl
                | true =>
                  obtain ⟨n, hn⟩ := (tReferred_iff _ _).1 hh
                  have hxn : tIsRef s.t2 x n = false := by
                    cases h : tIsRef s.t2 x n with
                    | false => rfl
                    | true => have := (tReferred_iff s.t2 x).2 ⟨n, h⟩; rw [hrestr hm] at this; cases this
                  have : tReferred s1.t2 i = true := (tReferred_iff _ _).2 ⟨n, by rw [e2]; simp [hxn, hn]⟩
                  rw [hg] at this; cases this
    · rw [if_neg hx]
      have hx' : tIsRef s.t1 id x = false := by simpa using hx
      have ih' := ih s
      dsimp only
      have key : ∀ n, ReachedNote s id (x :: rest) n ↔ ReachedNote s id rest n := by
        intro n
        constructor
        · intro h
          obtain ⟨i, hi, hri, hrn⟩ := h
          rcases List.mem_cons.1 hi with rfl | hi'
          · rw [hx'] at hri; cases hri
          · exact ⟨i, hi', hri, hrn⟩
        · intro h
          obtain ⟨i, hi, hri, hrn⟩ := h
          exact ⟨i, List.mem_cons_of_mem _ hi, hri, hrn⟩
      cases hres : tCascade (tDelete1 σ) (fun st x => tIsRef st.t1 id x) rest s with
      | error e =>
        rw [hres] at ih'
        obtain ⟨he, hm, i, hi, hri, hrr⟩ := ih'
        exact ⟨he, hm, i, List.mem_cons_of_mem _ hi, hri, hrr⟩
      | ok s' =>
        rw [hres] at ih'
        obtain ⟨g0, g1, g2, g3⟩ := ih'
        refine ⟨g0, ?_, ?_, ?_⟩
        · intro y
          rw [g1]
          by_cases hyx : y = x
          · subst hyx; simp [hx']
          · simp [hyx]
        · intro n; rw [key]; exact g2 n
        · intro hm i hi hri
          rcases List.mem_cons.1 hi with rfl | hi'
          · rw [hx'] at hri; cases hri
          · exact g3 hm i hi' hri

/-- what `DeleteById` on owners does, in every state and schema: refused exactly when the upper link restricts and
    an item refers to the owner, or the upper link cascades and the lower link restricts and a note refers to one of
    the items the cascade would remove; otherwise exactly the owner, the items referring to it and the notes
    referring to those are gone -/
theorem tDelete0_char (σ : TSchema) (s : TSt) (id : Bytes) :
    match tDelete0 σ s id with
    | .ok s' => s.t0.contains id = true ∧ (σ.casc1 = false → tReferred s.t1 id = false) ∧
        (σ.casc2 = false → ∀ i, tIsRef s.t1 id i = true → tReferred s.t2 i = false) ∧
        (∀ y, s'.t0.lookup y = if y = id then none else s.t0.lookup y) ∧
        (∀ y, s'.t1.lookup y = if tIsRef s.t1 id y = true then none else s.t1.lookup y) ∧
        (∀ n, ((∃ i, tIsRef s.t1 id i = true ∧ tIsRef s.t2 i n = true) → s'.t2.lookup n = none) ∧
              ((¬ ∃ i, tIsRef s.t1 id i = true ∧ tIsRef s.t2 i n = true) → s'.t2.lookup n = s.t2.lookup n))
    | .error e => (e = .notFound ∧ s.t0.contains id = false) ∨
        (e = .refExists ∧ s.t0.contains id = true ∧
          ((σ.casc1 = false ∧ tReferred s.t1 id = true) ∨
           (σ.casc1 = true ∧ σ.casc2 = false ∧ ∃ i, tIsRef s.t1 id i = true ∧ tReferred s.t2 i = true))) := by
  by_cases hc : s.t0.contains id = true
  · unfold tDelete0
    rw [if_pos hc]
    by_cases hm : σ.casc1 = true
    · have e : tBefore0 σ s id = tCascade (tDelete1 σ) (fun st x => tIsRef st.t1 id x) (tReferrers s.t1 id) s := by
        simp [tBefore0, hm]
      have hch := tCascade1_char σ id (tReferrers s.t1 id) s
      rw [e]
      cases hres : tCascade (tDelete1 σ) (fun st x => tIsRef st.t1 id x) (tReferrers s.t1 id) s with
      | error err =>
        rw [hres] at hch
        obtain ⟨he, hm2, i, _, hri, hrr⟩ := hch
        exact Or.inr ⟨he, hc, Or.inr ⟨hm, hm2, i, hri, hrr⟩⟩
      | ok s1 =>
        rw [hres] at hch
        obtain ⟨g0, g1, g2, g3⟩ := hch
        have hc1 : s1.t0.contains id = true := by rw [g0]; exact hc
        dsimp only
        rw [if_pos hc1]
        have hreach : ∀ n, ReachedNote s id (tReferrers s.t1 id) n ↔ ∃ i, tIsRef s.t1 id i = true ∧ tIsRef s.t2 i n = true := by
          intro n
          constructor
          · intro h; obtain ⟨i, _, a, b⟩ := h; exact ⟨i, a, b⟩
          · intro h; obtain ⟨i, a, b⟩ := h; exact ⟨i, (mem_tReferrers _ _ _).2 a, a, b⟩
        refine ⟨hc, by simp [hm], ?_, ?_, ?_, ?_⟩
        · intro hm2 i hi; exact g3 hm2 i ((mem_tReferrers _ _ _).2 hi) hi
        · intro y; simp [g0]
        · intro y
          show s1.t1.lookup y = _
          rw [g1]
          by_cases hy : tIsRef s.t1 id y = true
          · simp [hy, mem_tReferrers]
          · simp [hy]
        · intro n
          show (_ → s1.t2.lookup n = none) ∧ (_ → s1.t2.lookup n = _)
          rw [← hreach]; exact g2 n
    · have hm' : σ.casc1 = false := by simpa using hm
      by_cases hr : tReferrers s.t1 id ≠ []
      · have e : tBefore0 σ s id = .error .refExists := by simp [tBefore0, hm', hr]
        rw [e]
        exact Or.inr ⟨rfl, hc, Or.inl ⟨hm', (tReferrers_ne_nil _ _).1 hr⟩⟩
      · have e : tBefore0 σ s id = .ok s := by
          have : tReferrers s.t1 id = [] := by simpa using hr
          simp [tBefore0, hm', this]
        rw [e]
        dsimp only
        rw [if_pos hc]
        have hnone : tReferred s.t1 id = false := by
          cases h : tReferred s.t1 id with
          | false => rfl
          | true => exact absurd ((tReferrers_ne_nil _ _).2 h) hr
        have hno : ∀ y, tIsRef s.t1 id y = false := by
          intro y
          cases h : tIsRef s.t1 id y with
          | false => rfl
          | true => have := (tReferred_iff s.t1 id).2 ⟨y, h⟩; rw [hnone] at this; cases this
        refine ⟨hc, fun _ => hnone, ?_, by intro y; simp, by intro y; simp [hno y], ?_⟩
        · intro _ i hi; rw [hno i] at hi; cases hi
        · intro n
          refine ⟨fun h => ?_, fun _ => rfl⟩
          obtain ⟨i, hi, _⟩ := h
          rw [hno i] at hi; cases hi
  · have hc' : s.t0.contains id = false := by
      cases h : s.t0.contains id with
      | false => rfl
      | true => exact absurd h hc
    have e : tDelete0 σ s id = .error .notFound := by simp [tDelete0, hc']
    rw [e]
    exact Or.inl ⟨rfl, hc'⟩

/-! ### targets exist: the invariant of the chain and its preservation -/

/-- every stored reference names an existing target — or is null / empty, which only a nullable link allows -/
def RowOk (nullable : Bool) (tgt : Map α) (v : FV) : Prop :=
  (evalVal v ≠ [] → tgt.contains (evalVal v) = true) ∧ (evalVal v = [] → nullable = true)

def TInv (σ : TSchema) (s : TSt) : Prop :=
  (∀ x v, s.t1.lookup x = some v → RowOk σ.null1 s.t0 v) ∧ (∀ x v, s.t2.lookup x = some v → RowOk σ.null2 s.t1 v)

theorem tFkCheck_ok {α : Type} (nullable : Bool) (tgt : Map α) (ic : Bool) (old : FV) (r : FV)
    (hold : ic = false → RowOk nullable tgt old)
    (h : tFkCheck nullable tgt.contains ic (evalVal old) (evalVal r) = none) : RowOk nullable tgt r := by
  unfold tFkCheck at h
  by_cases hsame : ¬ ic = true ∧ evalVal old = evalVal r
  · have hic : ic = false := by cases ic <;> simp_all
    have := hold hic
    unfold RowOk at this ⊢
    rw [← hsame.2]; exact this
  · rw [if_neg hsame] at h
    by_cases hne : evalVal r ≠ []
    · rw [if_pos hne] at h
      by_cases ht : tgt.contains (evalVal r) = true
      · exact ⟨fun _ => ht, fun e => absurd e hne⟩
      · rw [if_neg ht] at h; cases h
    · rw [if_neg hne] at h
      have he : evalVal r = [] := by simpa using hne
      by_cases hn : nullable = true
      · exact ⟨fun e => absurd he e, fun _ => hn⟩
      · rw [if_neg hn] at h; cases h

theorem evalVal_eq_id {v : FV} {id : Bytes} (h : evalVal v = id) (hne : id ≠ []) : v = some id := by
  cases v with
  | none => exact absurd h.symm hne
  | some w => simp [evalVal] at h; rw [h]

theorem contains_of_lookup {V : Type} (m m' : Map V) (x : Bytes) (h : m'.lookup x = m.lookup x) :
    m'.contains x = m.contains x := by simp [Map.contains, h]

/-- every operation keeps the invariant -/
theorem tInv_apply (σ : TSchema) (s s' : TSt) (op : TOp) (hi : TInv σ s) (h : tApply σ s op = .ok s') : TInv σ s' := by
  obtain ⟨i1, i2⟩ := hi
  cases op with
  | create0 id =>
    simp only [tApply, tCreate0] at h
    split at h
    · cases h
    · split at h
      · cases h
      · cases h
        refine ⟨fun x v hx => ?_, i2⟩
        obtain ⟨a, b⟩ := i1 x v hx
        refine ⟨fun hne => ?_, b⟩
        have := a hne
        simp only [Map.contains, Map.lookup_insert] at this ⊢
        split <;> simp_all
  | create1 id r =>
    simp only [tApply, tCreate1] at h
    split at h
    · cases h
    · split at h
      · cases h
      · next hid hnc =>
        split at h
        · next hchk =>
          cases h
          refine ⟨fun x v hx => ?_, fun x v hx => ?_⟩
          · simp only [Map.lookup_insert] at hx
            split at hx
            · cases hx
              exact tFkCheck_ok σ.null1 s.t0 true none _ (by simp) hchk
            · exact i1 x v hx
          · obtain ⟨a, b⟩ := i2 x v hx
            refine ⟨fun hne => ?_, b⟩
            have := a hne
            simp only [Map.contains, Map.lookup_insert] at this ⊢
            split <;> simp_all
        · cases h
  | create2 id r =>
    simp only [tApply, tCreate2] at h
    split at h
    · cases h
    · split at h
      · cases h
      · split at h
        · next hchk =>
          cases h
          refine ⟨i1, fun x v hx => ?_⟩
          simp only [Map.lookup_insert] at hx
          split at hx
          · cases hx
            exact tFkCheck_ok σ.null2 s.t1 true none _ (by simp) hchk
          · exact i2 x v hx
        · cases h
  | update1 id r =>
    simp only [tApply, tUpdate1] at h
    split at h
    · cases h
    · split at h
      · cases h
      · next cur hcur =>
        split at h
        · next hchk =>
          cases h
          refine ⟨fun x v hx => ?_, fun x v hx => ?_⟩
          · simp only [Map.lookup_insert] at hx
            split at hx
            · cases hx
              exact tFkCheck_ok σ.null1 s.t0 false cur _ (fun _ => i1 id cur hcur) hchk
            · exact i1 x v hx
          · obtain ⟨a, b⟩ := i2 x v hx
            refine ⟨fun hne => ?_, b⟩
            have := a hne
            simp only [Map.contains, Map.lookup_insert] at this ⊢
            split <;> simp_all
        · cases h
  | update2 id r =>
    simp only [tApply, tUpdate2] at h
    split at h
    · cases h
    · split at h
      · cases h
      · next cur hcur =>
        split at h
        · next hchk =>
          cases h
          refine ⟨i1, fun x v hx => ?_⟩
          simp only [Map.lookup_insert] at hx
          split at hx
          · cases hx
            exact tFkCheck_ok σ.null2 s.t1 false cur _ (fun _ => i2 id cur hcur) hchk
          · exact i2 x v hx
        · cases h
  | delete2 id =>
    simp only [tApply, tDelete2] at h
    split at h
    · cases h
      refine ⟨i1, fun x v hx => ?_⟩
      simp only [Map.lookup_erase] at hx
      split at hx
      · cases hx
      · exact i2 x v hx
    · cases h
  | delete1 id =>
    simp only [tApply] at h
    have hch := tDelete1_char σ s id
    rw [h] at hch
    obtain ⟨_, _, h0, h1, h2⟩ := hch
    refine ⟨fun x v hx => ?_, fun x v hx => ?_⟩
    · rw [h1] at hx
      split at hx
      · cases hx
      · rw [h0]; exact i1 x v hx
    · rw [h2] at hx
      split at hx
      · cases hx
      · next hnr =>
        obtain ⟨a, b⟩ := i2 x v hx
        refine ⟨fun hne => ?_, b⟩
        have hcn := a hne
        have hneq : evalVal v ≠ id := by
          intro e
          have : v = some id := evalVal_eq_id e (by rw [← e]; exact hne)
          apply hnr
          rw [tIsRef_eq, hx, this]
        rw [contains_of_lookup s.t1 s'.t1 (evalVal v) (by rw [h1]; simp [hneq])]
        exact hcn
  | delete0 id =>
    simp only [tApply] at h
    have hch := tDelete0_char σ s id
    rw [h] at hch
    obtain ⟨_, _, _, h0, h1, h2⟩ := hch
    refine ⟨fun x v hx => ?_, fun x v hx => ?_⟩
    · rw [h1] at hx
      split at hx
      · cases hx
      · next hnr =>
        obtain ⟨a, b⟩ := i1 x v hx
        refine ⟨fun hne => ?_, b⟩
        have hcn := a hne
        have hneq : evalVal v ≠ id := by
          intro e
          have : v = some id := evalVal_eq_id e (by rw [← e]; exact hne)
          apply hnr
          rw [tIsRef_eq, hx, this]
        rw [contains_of_lookup s.t0 s'.t0 (evalVal v) (by rw [h0]; simp [hneq])]
        exact hcn
    · by_cases hreach : ∃ i, tIsRef s.t1 id i = true ∧ tIsRef s.t2 i x = true
      · rw [(h2 x).1 hreach] at hx; cases hx
      · rw [(h2 x).2 hreach] at hx
        obtain ⟨a, b⟩ := i2 x v hx
        refine ⟨fun hne => ?_, b⟩
        have hcn := a hne
        have hnr : ¬ tIsRef s.t1 id (evalVal v) = true := by
          intro hr
          apply hreach
          refine ⟨evalVal v, hr, ?_⟩
          have : v = some (evalVal v) := evalVal_eq_id rfl hne
          rw [tIsRef_eq, hx, ← this]
        rw [contains_of_lookup s.t1 s'.t1 (evalVal v) (by rw [h1]; simp [hnr])]
        exact hcn

theorem tInv_runTxFrom (σ : TSchema) (s0 : TSt) (h0 : TInv σ s0) (ops : List TOp) :
    ∀ (i : Nat) (s : TSt), TInv σ s → TInv σ (tRunTxFrom σ s0 i s ops).1 := by
  induction ops with
  | nil => intro i s hs; exact hs
  | cons op rest ih =>
    intro i s hs
    unfold tRunTxFrom
    cases h : tApply σ s op with
    | ok s' => exact ih (i + 1) s' (tInv_apply σ s s' op hs h)
    | error e => exact h0

theorem tInv_history (σ : TSchema) (txs : List (List TOp)) : TInv σ (tRunHistory σ txs) := by
  unfold tRunHistory
  have : ∀ (s : TSt), TInv σ s → TInv σ (txs.foldl (fun s tx => (tRunTx σ s tx).1) s) := by
    induction txs with
    | nil => intro s hs; exact hs
    | cons tx rest ih => intro s hs; exact ih _ (tInv_runTxFrom σ s hs tx 0 s hs)
  exact this {} ⟨fun x v hx => by simp [Map.lookup] at hx, fun x v hx => by simp [Map.lookup] at hx⟩

/-! ### the executable specification (`specDelete0`) says the same as the model, for every schema, state and id -/

def TSt.Eqv (a b : TSt) : Prop :=
  (∀ x, a.t0.lookup x = b.t0.lookup x) ∧ (∀ x, a.t1.lookup x = b.t1.lookup x) ∧ (∀ x, a.t2.lookup x = b.t2.lookup x)

def TRes.Agree : TRes → TRes → Prop
  | .ok a, .ok b => a.Eqv b
  | .error e, .error e' => e = e'
  | _, _ => False

theorem specNoteOf_iff (s : TSt) (id n : Bytes) :
    specNoteOf s id n = true ↔ ∃ i, tIsRef s.t1 id i = true ∧ tIsRef s.t2 i n = true := by
  unfold specNoteOf
  rw [List.any_eq_true]
  constructor
  · rintro ⟨i, _, h⟩
    simp only [Bool.and_eq_true] at h
    exact ⟨i, h.1, h.2⟩
  · rintro ⟨i, a, b⟩
    refine ⟨i, ?_, by simp [a, b]⟩
    rw [Map.mem_keys_iff]
    have := tIsRef_contains _ _ _ a; simpa [Map.contains] using this

theorem specBlocked_iff (s : TSt) (id : Bytes) :
    s.t2.keys.any (specNoteOf s id) = true ↔ ∃ i, tIsRef s.t1 id i = true ∧ tReferred s.t2 i = true := by
  rw [List.any_eq_true]
  constructor
  · rintro ⟨n, _, h⟩
    obtain ⟨i, a, b⟩ := (specNoteOf_iff s id n).1 h
    exact ⟨i, a, (tReferred_iff _ _).2 ⟨n, b⟩⟩
  · rintro ⟨i, a, h⟩
    obtain ⟨n, b⟩ := (tReferred_iff _ _).1 h
    refine ⟨n, ?_, (specNoteOf_iff s id n).2 ⟨i, a, b⟩⟩
    rw [Map.mem_keys_iff]
    have := tIsRef_contains _ _ _ b; simpa [Map.contains] using this

theorem tDelete0_agrees_spec (σ : TSchema) (s : TSt) (id : Bytes) :
    TRes.Agree (tDelete0 σ s id) (specDelete0 σ s id) := by
  have hch := tDelete0_char σ s id
  cases hres : tDelete0 σ s id with
  | error e =>
    rw [hres] at hch
    rcases hch with ⟨he, hnc⟩ | ⟨he, hc, hwhy⟩
    · have : specDelete0 σ s id = .error .notFound := by simp [specDelete0, hnc]
      rw [this, he]; exact rfl
    · rcases hwhy with ⟨hm, hr⟩ | ⟨hm, hm2, hb⟩
      · have : specDelete0 σ s id = .error .refExists := by simp [specDelete0, hc, hr, hm]
        rw [this, he]; exact rfl
      · have hr : tReferred s.t1 id = true := by
          obtain ⟨i, a, _⟩ := hb; exact (tReferred_iff _ _).2 ⟨i, a⟩
        have hbl := (specBlocked_iff s id).2 hb
        have : specDelete0 σ s id = .error .refExists := by simp [specDelete0, hc, hr, hm, hm2, hbl]
        rw [this, he]; exact rfl
  | ok s' =>
    rw [hres] at hch
    obtain ⟨hc, hr1, hr2, h0, h1, h2⟩ := hch
    by_cases hr : tReferred s.t1 id = true
    · have hm : σ.casc1 = true := by
        cases h : σ.casc1 with
        | true => rfl
        | false => rw [hr1 h] at hr; cases hr
      by_cases hm2 : σ.casc2 = true
      · have : specDelete0 σ s id =
            .ok ⟨dropKeys s.t0 (· == id), dropKeys s.t1 (tIsRef s.t1 id), dropKeys s.t2 (specNoteOf s id)⟩ := by
          simp [specDelete0, hc, hr, hm, hm2]
        rw [this]
        refine ⟨fun x => ?_, fun x => ?_, fun n => ?_⟩
        · rw [h0, lookup_dropKeys]; simp
        · rw [h1, lookup_dropKeys]
        · rw [lookup_dropKeys]
          by_cases hn : specNoteOf s id n = true
          · rw [(h2 n).1 ((specNoteOf_iff s id n).1 hn)]; simp [hn]
          · rw [(h2 n).2 (fun h => hn ((specNoteOf_iff s id n).2 h))]; simp [hn]
      · have hm2' : σ.casc2 = false := by simpa using hm2
        have hnb : s.t2.keys.any (specNoteOf s id) = false := by
          cases h : s.t2.keys.any (specNoteOf s id) with
          | false => rfl
          | true =>
            obtain ⟨i, a, b⟩ := (specBlocked_iff s id).1 h
            rw [hr2 hm2' i a] at b; cases b
        have : specDelete0 σ s id = .ok { s with t0 := dropKeys s.t0 (· == id), t1 := dropKeys s.t1 (tIsRef s.t1 id) } := by
          simp [specDelete0, hc, hr, hm, hm2', hnb]
        rw [this]
        refine ⟨fun x => ?_, fun x => ?_, fun n => ?_⟩
        · rw [h0, lookup_dropKeys]; simp
        · rw [h1, lookup_dropKeys]
        · apply (h2 n).2
          rintro ⟨i, a, b⟩
          have := hr2 hm2' i a
          rw [(tReferred_iff _ _).2 ⟨n, b⟩] at this; cases this
    · have hr' : tReferred s.t1 id = false := by simpa using hr
      have hno : ∀ y, tIsRef s.t1 id y = false := by
        intro y
        cases h : tIsRef s.t1 id y with
        | false => rfl
        | true => have := (tReferred_iff s.t1 id).2 ⟨y, h⟩; rw [hr'] at this; cases this
      have : specDelete0 σ s id = .ok { s with t0 := dropKeys s.t0 (· == id) } := by simp [specDelete0, hc, hr']
      rw [this]
      refine ⟨fun x => ?_, fun x => ?_, fun n => ?_⟩
      · rw [h0, lookup_dropKeys]; simp
      · rw [h1]; simp [hno x]
      · apply (h2 n).2
        rintro ⟨i, a, _⟩
        rw [hno i] at a; cases a

end StorageModel.C04
