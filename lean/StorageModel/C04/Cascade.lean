import StorageModel.C04.Proofs
/-
  C04 — what a successful cascading delete removes: exactly the target and everything that refers to
  it transitively (`Reach`); why the recursion always comes back (the in-progress set); progress.
-/
namespace StorageModel.C04
open StorageModel

/-- `Reach as id k`: entity `k` refers to `id` through a non-empty chain of `boss` references -/
inductive Reach (as : Map EntA) (id : Bytes) : Bytes → Prop
  | direct {k : Bytes} {e : EntA} : as.lookup k = some e → e.boss = some id → Reach as id k
  | step {k y : Bytes} {e : EntA} : Reach as id y → as.lookup k = some e → e.boss = some y → Reach as id k

theorem Reach.mono {as as' : Map EntA} {id k : Bytes} (hsub : ∀ k e, as'.lookup k = some e → as.lookup k = some e)
    (h : Reach as' id k) : Reach as id k := by
  induction h with
  | direct he hb => exact .direct (hsub _ _ he) hb
  | step _ he hb ih => exact .step ih (hsub _ _ he) hb

/-- if `x` refers to `id` directly, everything below `x` is below `id` -/
theorem Reach.under {as : Map EntA} {id x k : Bytes} {ex : EntA} (hx : as.lookup x = some ex) (hb : ex.boss = some id)
    (h : Reach as x k) : Reach as id k := by
  induction h with
  | direct he hb' => exact .step (.direct hx hb) he hb'
  | step _ he hb' ih => exact .step ih he hb'

/-- removed by the cascade loop over the `f`-referrers of `id`: a referrer, or something below one -/
def RemovedVia (f : EntA → FV) (as : Map EntA) (id k : Bytes) : Prop :=
  ∃ x ex, as.lookup x = some ex ∧ f ex = some id ∧ (k = x ∨ Reach as x k)

theorem cascadeOver_removed {del : St → Bytes → Res} {f : EntA → FV} {id : Bytes} {skip : List Bytes}
    (hdel : ∀ st x st', x ∉ skip → del st x = .ok st' →
      Sub st' st ∧ ∀ k e, st.as.lookup k = some e → st'.as.lookup k = none → k ∉ skip ∧ (k = x ∨ Reach st.as x k)) :
    ∀ (cands : List Bytes) (st st' : St), cascadeOver del f id skip cands st = .ok st' →
      Sub st' st ∧ ∀ k e, st.as.lookup k = some e → st'.as.lookup k = none → k ∉ skip ∧ RemovedVia f st.as id k := by
  intro cands
  induction cands with
  | nil =>
    intro st st' h
    simp only [cascadeOver, List.foldlM_nil, pure, Except.pure] at h
    cases h
    exact ⟨Sub.refl _, fun k e he hn => by rw [he] at hn; cases hn⟩
  | cons c rest ih =>
    intro st st' h
    simp only [cascadeOver, List.foldlM_cons, bind_ok] at h
    obtain ⟨st1, h1, h2⟩ := h
    obtain ⟨hsub', hrem'⟩ := ih st1 st' h2
    have hstep : Sub st1 st ∧ ∀ k e, st.as.lookup k = some e → st1.as.lookup k = none →
        k ∉ skip ∧ RemovedVia f st.as id k := by
      split at h1
      · cases h1
        exact ⟨Sub.refl _, fun k e he hn => by rw [he] at hn; cases hn⟩
      · next hcs =>
        split at h1
        · next hr =>
          obtain ⟨a, b⟩ := hdel st c st1 hcs h1
          obtain ⟨ec, hec, hfc⟩ := (isReferrer_iff st f id c).1 hr
          exact ⟨a, fun k e he hn => ⟨(b k e he hn).1, c, ec, hec, hfc, (b k e he hn).2⟩⟩
        · cases h1
          exact ⟨Sub.refl _, fun k e he hn => by rw [he] at hn; cases hn⟩
    obtain ⟨hsub1, hrem1⟩ := hstep
    refine ⟨hsub'.trans hsub1, ?_⟩
    intro k e he hn
    cases h1k : st1.as.lookup k with
    | none => exact hrem1 k e he h1k
    | some e1 =>
      obtain ⟨hks, x, ex, hx, hfx, hk⟩ := hrem' k e1 h1k hn
      refine ⟨hks, x, ex, hsub1 x ex hx, hfx, ?_⟩
      cases hk with
      | inl h => exact Or.inl h
      | inr h => exact Or.inr (h.mono hsub1)

theorem ownerDel_as {del : List Bytes → St → Bytes → Res} {prog : List Bytes} {id : Bytes} {s s1 : St}
    (h : beforeDeleteA del prog id s .ownerIdx = .ok s1) : s1.as = s.as := by
  rw [ownerDel_eq] at h; cases h; rfl

theorem bossDel_as {del : List Bytes → St → Bytes → Res} {prog : List Bytes} {id : Bytes} {s s1 : St}
    (h : beforeDeleteA del prog id s .bossIdx = .ok s1) : s1.as = s.as := by
  rw [bossDel_eq] at h; cases h; rfl

/-- what one round removes: only entities outside the in-progress set that refer to `id` transitively -/
theorem pass_removed {del : List Bytes → St → Bytes → Res} {prog : List Bytes} {s s3 : St} {id : Bytes}
    (hdel : ∀ st x st', del (mark prog id) st x = .ok st' →
      Sub st' st ∧ ∀ k e, st.as.lookup k = some e → st'.as.lookup k = none →
        k = x ∨ (k ∉ mark (mark prog id) x ∧ Reach st.as x k))
    (h : PassOk del prog id s s3) :
    Sub s3 s ∧ ∀ k e, s.as.lookup k = some e → s3.as.lookup k = none → k ∉ mark prog id ∧ Reach s.as id k := by
  obtain ⟨s1, s2, h1, h2, h3⟩ := h
  have has2 : s2.as = s.as := (bossDel_as h2).trans (ownerDel_as h1)
  have hdel' : ∀ st x st', x ∉ mark prog id → del (mark prog id) st x = .ok st' →
      Sub st' st ∧ ∀ k e, st.as.lookup k = some e → st'.as.lookup k = none →
        k ∉ mark prog id ∧ (k = x ∨ Reach st.as x k) := by
    intro st x st' hx hd
    obtain ⟨a, b⟩ := hdel st x st' hd
    refine ⟨a, fun k e he hn => ?_⟩
    rcases b k e he hn with rfl | ⟨h1, h2⟩
    · exact ⟨hx, Or.inl rfl⟩
    · exact ⟨fun hk => h1 ((mem_mark _ _ _).2 (Or.inr hk)), Or.inr h2⟩
  obtain ⟨hsub3, hrem3⟩ := cascadeOver_removed (f := (·.boss)) (id := id) hdel' _ s2 s3 h3
  constructor
  · intro k e he
    have := hsub3 k e he
    rw [has2] at this; exact this
  · intro k e he hn
    rw [← has2] at he
    obtain ⟨hks, x, ex, hx, hfx, hkx⟩ := hrem3 k e he hn
    rw [has2] at hx
    refine ⟨hks, ?_⟩
    cases hkx with
    | inl h => subst h; exact .direct hx hfx
    | inr h => exact Reach.under hx hfx (has2 ▸ h)

/-- what all rounds of one delete remove -/
theorem rounds_removed {σ : Schema} {del : List Bytes → St → Bytes → Res} {prog : List Bytes} {id : Bytes}
    (hdel : ∀ st x st', del (mark prog id) st x = .ok st' →
      Sub st' st ∧ ∀ k e, st.as.lookup k = some e → st'.as.lookup k = none →
        k = x ∨ (k ∉ mark (mark prog id) x ∧ Reach st.as x k)) :
    ∀ (l : List (Option Child)) (s s' : St), l.foldlM (roundA σ del prog id) s = .ok s' →
      Sub s' s ∧ ∀ k e, s.as.lookup k = some e → s'.as.lookup k = none → k ∉ mark prog id ∧ Reach s.as id k := by
  intro l
  induction l with
  | nil =>
    intro s s' h
    simp only [List.foldlM_nil, pure, Except.pure] at h
    cases h
    exact ⟨Sub.refl _, fun k e he hn => by rw [he] at hn; cases hn⟩
  | cons r rest ih =>
    intro s s' h
    simp only [List.foldlM_cons, bind_ok] at h
    obtain ⟨s1, h1, h2⟩ := h
    obtain ⟨s3, hp, _, rfl⟩ := roundA_ok h1
    obtain ⟨hsub3, hrem3⟩ := pass_removed hdel hp
    have g := roundA_geq (σ := σ) (s3 := s3) (id := id) r
    obtain ⟨hsub', hrem'⟩ := ih _ s' h2
    have hsub1 : Sub (afterRound σ id s3 r) s := (Sub.of_as g.1).trans hsub3
    refine ⟨hsub'.trans hsub1, fun k e he hn => ?_⟩
    cases h1k : (afterRound σ id s3 r).as.lookup k with
    | none => rw [g.1] at h1k; exact hrem3 k e he h1k
    | some e1 =>
      obtain ⟨a, b⟩ := hrem' k e1 h1k hn
      exact ⟨a, b.mono hsub1⟩

/-- **soundness of the cascade**: whatever a successful `DeleteById` on A removes is the target or
    refers to it transitively — and is not in progress; every other table entry is untouched
    (no invariant needed) -/
theorem deleteA_removed (σ : Schema) : ∀ (n : Nat) (prog : List Bytes) (s : St) (id : Bytes) (s' : St),
    deleteA σ n prog s id = .ok s' →
    Sub s' s ∧ ∀ k e, s.as.lookup k = some e → s'.as.lookup k = none →
      k = id ∨ (k ∉ mark prog id ∧ Reach s.as id k) := by
  intro n
  induction n with
  | zero => intro prog s id s' h; simp [deleteA] at h
  | succ n ih =>
    intro prog s id s' h
    obtain ⟨_, s3, hF, _, rfl, _⟩ := deleteA_succ_ok h
    have hdel := fun st x st' hd => ih (mark prog id) st x st' hd
    obtain ⟨hsub3, hrem3⟩ := rounds_removed hdel _ s s3 hF
    constructor
    · intro k e he
      simp only [Map.lookup_erase] at he
      by_cases hk : k = id
      · simp [hk] at he
      · simp only [hk, if_false] at he
        exact hsub3 k e he
    · intro k e he hn
      simp only [Map.lookup_erase] at hn
      by_cases hk : k = id
      · exact Or.inl hk
      · simp only [hk, if_false] at hn
        exact Or.inr (hrem3 k e he hn)

/-- a round never removes an entity that is in progress — in particular not the entity being deleted:
    the second `FindById` of `DeleteById` (A's own `processDeleteConstraints`) always finds it -/
theorem pass_keeps_id {σ : Schema} {n : Nat} {prog : List Bytes} {s s3 : St} {id : Bytes} {e : EntA}
    (h : passA σ (deleteA σ n) prog id s = .ok s3) (he : s.as.lookup id = some e) : s3.as.lookup id = some e := by
  obtain ⟨hsub, hrem⟩ := pass_removed (fun st x st' hd => deleteA_removed σ n (mark prog id) st x st' hd) (passA_ok h)
  cases hk : s3.as.lookup id with
  | some v => have := hsub id v hk; rw [he] at this; cases this; rfl
  | none => exact absurd ((mem_mark prog id id).2 (Or.inl rfl)) (hrem id e he hk).1

/-- **completeness of the cascade**, from the invariant of the result: nothing that referred to a
    removed entity survives -/
theorem reach_removed {σ : Schema} {s s' : St} {id : Bytes} (hI' : Inv σ s') (hsub : Sub s' s)
    (hid : s'.as.lookup id = none) {k : Bytes} (h : Reach s.as id k) : s'.as.lookup k = none := by
  have key : ∀ (y k : Bytes) (e : EntA), s'.as.lookup y = none → s.as.lookup k = some e → e.boss = some y →
      s'.as.lookup k = none := by
    intro y k e hy he hb
    cases hk : s'.as.lookup k with
    | none => rfl
    | some e' =>
      have := hsub k e' hk
      rw [he] at this; cases this
      have hne : evalVal e.boss ≠ [] := hI'.bossNN k e hk
      have hc := hI'.bossT k e hk (fun hp => hp) hne
      have hv : evalVal e.boss = y := by simp [evalVal, hb]
      rw [hv] at hc
      obtain ⟨v, hv'⟩ := (Map.contains_iff _ _).1 hc
      rw [hy] at hv'; cases hv'
  induction h with
  | direct he hb => exact key id _ _ hid he hb
  | step _ he hb ih => exact key _ _ _ ih he hb

/-! ### the recursion always comes back

  Every nested `DeleteById` is about an entity that is not in the in-progress set (the loop steps over
  those), and it puts that entity into the set: the set is duplicate-free, grows by one per level and
  stays inside the keys of the table the top-level call started from — so the depth is at most the
  number of entities, and fuel > |table| − |in progress| is never exhausted. -/

theorem cascadeOver_no_diverge {del : St → Bytes → Res} {f : EntA → FV} {id : Bytes} {skip : List Bytes} {s0 : St}
    (hdel_sub : ∀ st x st', del st x = .ok st' → Sub st' st)
    (hdel : ∀ st x, Sub st s0 → x ∉ skip → isReferrer st f id x = true → del st x ≠ .error .diverge) :
    ∀ (cands : List Bytes) (st : St), Sub st s0 → cascadeOver del f id skip cands st ≠ .error .diverge := by
  intro cands
  induction cands with
  | nil => intro st _ h; simp [cascadeOver, List.foldlM_nil, pure, Except.pure] at h
  | cons c rest ih =>
    intro st hsub h
    simp only [cascadeOver, List.foldlM_cons] at h
    cases h1 : (if c ∈ skip then Except.ok st else if isReferrer st f id c = true then del st c else Except.ok st) with
    | error e =>
      rw [h1] at h
      simp only [bind, Except.bind] at h
      cases h
      split at h1
      · cases h1
      · next hcs =>
        split at h1
        · next hr => exact hdel st c hsub hcs hr h1
        · cases h1
    | ok st1 =>
      rw [h1] at h
      simp only [bind, Except.bind] at h
      have hsub1 : Sub st1 s0 := by
        split at h1
        · cases h1; exact hsub
        · split at h1
          · exact (hdel_sub st c st1 h1).trans hsub
          · cases h1; exact hsub
      exact ih st1 hsub1 h

theorem bind_error {α β : Type} {x : Except Err α} {f : α → Except Err β} {e : Err} :
    (x >>= f) = .error e ↔ x = .error e ∨ ∃ a, x = .ok a ∧ f a = .error e := by
  cases x with
  | error e' => simp [bind, Except.bind]
  | ok a => simp [bind, Except.bind]

/-- a diverging round diverges inside its cascade loop -/
theorem passA_diverge {σ : Schema} {del : List Bytes → St → Bytes → Res} {prog : List Bytes} {s : St} {id : Bytes}
    (hF : passA σ del prog id s = .error .diverge) :
    ∃ s2, s2.as = s.as ∧
      cascadeOver (del (mark prog id)) (·.boss) id (mark prog id) (referrers s2 (·.boss) id) s2 = .error .diverge := by
  have hown : ∀ st, beforeDeleteA del prog id st .ownerIdx ≠ .error .diverge := by
    intro st h; rw [ownerDel_eq] at h; cases h
  have hboss : ∀ st, beforeDeleteA del prog id st .bossIdx ≠ .error .diverge := by
    intro st h; rw [bossDel_eq] at h; cases h
  have hownas : ∀ st st', beforeDeleteA del prog id st .ownerIdx = .ok st' → st'.as = st.as :=
    fun st st' h => ownerDel_as h
  have hbossas : ∀ st st', beforeDeleteA del prog id st .bossIdx = .ok st' → st'.as = st.as :=
    fun st st' h => bossDel_as h
  unfold passA orderA at hF
  cases hdf : σ.depFirst
  case true =>
    simp only [hdf, if_true, List.foldlM_cons, List.foldlM_nil, bind_error] at hF
    rcases hF with h0 | ⟨s0, h0, hF⟩
    · simp [beforeDeleteA] at h0
    · simp only [beforeDeleteA] at h0; cases h0
      rcases hF with h1 | ⟨s1, h1, hF⟩
      · exact absurd h1 (hown _)
      · rcases hF with h2 | ⟨s2, h2, hF⟩
        · exact absurd h2 (hboss _)
        · rcases hF with h3 | ⟨s3, h3, hF⟩
          · exact ⟨s2, (hbossas _ _ h2).trans (hownas _ _ h1), h3⟩
          · cases hF
  case false =>
    simp only [hdf, Bool.false_eq_true, if_false, List.foldlM_cons, List.foldlM_nil, bind_error] at hF
    rcases hF with h1 | ⟨s1, h1, hF⟩
    · exact absurd h1 (hown _)
    · rcases hF with h2 | ⟨s2, h2, hF⟩
      · exact absurd h2 (hboss _)
      · rcases hF with h3 | ⟨s3, h3, hF⟩
        · exact ⟨s2, (hbossas _ _ h2).trans (hownas _ _ h1), h3⟩
        · rcases hF with h4 | ⟨s4, h4, hF⟩
          · simp [beforeDeleteA] at h4
          · cases hF

theorem rounds_diverge {σ : Schema} {m : Nat} {prog : List Bytes} {id : Bytes} :
    ∀ (l : List (Option Child)) (s : St), l.foldlM (roundA σ (deleteA σ m) prog id) s = .error .diverge →
      ∃ s2, Sub s2 s ∧
        cascadeOver (deleteA σ m (mark prog id)) (·.boss) id (mark prog id) (referrers s2 (·.boss) id) s2 = .error .diverge := by
  intro l
  induction l with
  | nil => intro s h; simp [List.foldlM_nil, pure, Except.pure] at h
  | cons r rest ih =>
    intro s h
    simp only [List.foldlM_cons, bind_error] at h
    rcases h with h1 | ⟨s1, h1, h2⟩
    · unfold roundA at h1
      split at h1
      · cases h1
      · next e hp =>
        cases h1
        obtain ⟨s2, has2, hd⟩ := passA_diverge hp
        exact ⟨s2, Sub.of_as has2, hd⟩
    · obtain ⟨s3, hp, _, rfl⟩ := roundA_ok h1
      have hsub3 := (pass_removed (fun st x st' hd => deleteA_removed σ m (mark prog id) st x st' hd) hp).1
      have g := roundA_geq (σ := σ) (s3 := s3) (id := id) r
      obtain ⟨s2, hs2, hd⟩ := ih _ h2
      exact ⟨s2, hs2.trans ((Sub.of_as g.1).trans hsub3), hd⟩

/-- a diverging `DeleteById` on A diverges inside the cascade loop of one of its rounds, which runs on a
    sub-table of the table the call started from -/
theorem deleteA_diverge_inv {σ : Schema} {m : Nat} {prog : List Bytes} {s : St} {id : Bytes}
    (h : deleteA σ (m + 1) prog s id = .error .diverge) :
    s.as.contains id = true ∧ ∃ s2, Sub s2 s ∧
      cascadeOver (deleteA σ m (mark prog id)) (·.boss) id (mark prog id) (referrers s2 (·.boss) id) s2 = .error .diverge := by
  unfold deleteA at h
  split at h
  · next hc =>
    refine ⟨hc, ?_⟩
    split at h
    · split at h
      · split at h
        · cases h
        · cases h
      · cases h
    · next e hF => cases h; exact rounds_diverge _ s hF
  · cases h

/-- **Termination of the cascading delete** (explicit measure: table size − in-progress set size).
    `keys0` = the ids of the table the outermost call started from. -/
theorem deleteA_terminates (σ : Schema) (keys0 : List Bytes) : ∀ (n : Nat) (prog : List Bytes) (s : St) (id : Bytes),
    prog.Nodup → (∀ x ∈ prog, x ∈ keys0) → id ∉ prog →
    (∀ k e, s.as.lookup k = some e → k ∈ keys0) → s.as.contains id = true →
    keys0.length < n + prog.length → deleteA σ n prog s id ≠ .error .diverge := by
  intro n
  induction n with
  | zero =>
    intro prog s id hnd hsub hid hkeys hc hlen _
    obtain ⟨e, he⟩ := (Map.contains_iff _ _).1 hc
    have hnd' : (id :: prog).Nodup := List.nodup_cons.2 ⟨hid, hnd⟩
    have hsub' : (id :: prog) ⊆ keys0 := by
      intro x hx
      rcases List.mem_cons.1 hx with rfl | hx'
      · exact hkeys _ e he
      · exact hsub x hx'
    have := List.Nodup.length_le_of_subset hnd' hsub'
    simp only [List.length_cons] at this
    omega
  | succ n ih =>
    intro prog s id hnd hsub hid hkeys hc hlen h
    obtain ⟨e, he⟩ := (Map.contains_iff _ _).1 hc
    obtain ⟨_, s2, hs2, hcas⟩ := deleteA_diverge_inv h
    have hmark : mark prog id = id :: prog := by simp [mark, hid]
    rw [hmark] at hcas
    refine cascadeOver_no_diverge (s0 := s2)
      (fun st x st' a => (deleteA_removed σ n (id :: prog) st x st' a).1) ?_ _ s2 (Sub.refl _) hcas
    intro st x hsubst hxs hr
    obtain ⟨ex, hex, _⟩ := (isReferrer_iff st _ id x).1 hr
    refine ih (id :: prog) st x (List.nodup_cons.2 ⟨hid, hnd⟩) ?_ hxs ?_ ((Map.contains_iff _ _).2 ⟨ex, hex⟩) ?_
    · intro y hy
      rcases List.mem_cons.1 hy with rfl | hy'
      · exact hkeys _ e he
      · exact hsub y hy'
    · intro k ek hk
      exact hkeys k ek (hs2 k ek (hsubst k ek hk))
    · simp only [List.length_cons]; omega

theorem keys_length {V : Type} (m : Map V) : m.keys.length = m.length := by simp [Map.keys]

/-- the fuel `step` supplies is never exhausted -/
theorem deleteA_top_terminates (σ : Schema) (s0 st : St) (id : Bytes) (hsub : Sub st s0) :
    deleteA σ (fuelOf s0) [] st id ≠ .error .diverge := by
  by_cases hc : st.as.contains id = true
  · refine deleteA_terminates σ s0.as.keys (fuelOf s0) [] st id List.nodup_nil (fun _ h => by cases h) (by simp)
      (fun k e he => mem_keys_of_lookup' (hsub k e he)) hc ?_
    simp [fuelOf, keys_length]
  · unfold fuelOf deleteA
    simp [hc]
where
  mem_keys_of_lookup' {m : Map EntA} {k : Bytes} {v : EntA} (h : m.lookup k = some v) : k ∈ m.keys :=
    (Map.mem_keys_iff m k).2 (by simp [h])

/-! ### progress: under the invariant a delete is never refused for a spurious reason -/

def OkOrDiverge (r : Res) : Prop := (∃ st', r = .ok st') ∨ r = .error .diverge

/-- `R` : an additional state predicate carried along the loop (e.g. "sub-table of the initial state") -/
theorem cascade_progress {σ : Schema} {Q : Bytes → Prop} {R : St → Prop} {del : St → Bytes → Res} {f : EntA → FV}
    {id : Bytes} {skip : List Bytes}
    (hprog : ∀ st x, GInv σ Q st → R st → x ∉ skip → isReferrer st f id x = true → OkOrDiverge (del st x))
    (hdel : ∀ st x st', GInv σ Q st → R st → del st x = .ok st' → GInv σ Q st' ∧ R st') :
    ∀ (cands : List Bytes) (st : St), GInv σ Q st → R st → OkOrDiverge (cascadeOver del f id skip cands st) := by
  intro cands
  induction cands with
  | nil => intro st _ _; exact Or.inl ⟨st, rfl⟩
  | cons c rest ih =>
    intro st hI hR
    simp only [cascadeOver, List.foldlM_cons]
    by_cases hcs : c ∈ skip
    · simp only [hcs, if_true]
      exact ih st hI hR
    · simp only [hcs, if_false]
      by_cases hr : isReferrer st f id c = true
      · simp only [hr, if_true]
        rcases hprog st c hI hR hcs hr with ⟨st1, h1⟩ | h1
        · rw [h1]
          obtain ⟨a, b⟩ := hdel st c st1 hI hR h1
          exact ih st1 a b
        · rw [h1]; exact Or.inr rfl
      · simp only [hr]
        exact ih st hI hR

/-- one round makes progress: the index steps cannot fail (001d2d2), the cascade loop only meets entities
    that are not in progress -/
theorem pass_progress {σ : Schema} {n : Nat} {prog : List Bytes} {Q : Bytes → Prop} {s : St} {id : Bytes}
    (hI : GInv σ Q s) (hQ : ∀ k, plus Q id k ↔ k ∈ mark prog id)
    (ih : ∀ st x, GInv σ (· ∈ mark prog id) st → x ∉ mark prog id → isReferrer st (·.boss) id x = true →
      OkOrDiverge (deleteA σ n (mark prog id) st x)) :
    (∃ s3, passA σ (deleteA σ n) prog id s = .ok s3 ∧ GInv σ (· ∈ mark prog id) s3) ∨
      passA σ (deleteA σ n) prog id s = .error .diverge := by
  let m1 := idxDelB s.bs.contains (fieldOf s id (·.owner)) id s.things
  let m2 := idxDelB s.as.contains (fieldOf s id (·.boss)) id s.minions
  have h1 : ∀ del, beforeDeleteA del prog id s .ownerIdx = .ok { s with things := m1 } := by
    intro del; rw [ownerDel_eq]
  have h2 : ∀ del, beforeDeleteA del prog id { s with things := m1 } .bossIdx = .ok { s with things := m1, minions := m2 } := by
    intro del; rw [bossDel_eq]; rfl
  obtain ⟨hI2', _, _⟩ := preDelete_inv (del := deleteA σ n) hI (h1 _) (h2 _)
  have hI2 : GInv σ (· ∈ mark prog id) { s with things := m1, minions := m2 } := hI2'.congr hQ
  have hcas := cascade_progress (R := fun _ => True) (f := (·.boss)) (id := id) (skip := mark prog id)
    (fun st x a _ hx b => ih st x a hx b)
    (fun st x st' a _ b => ⟨(deleteA_inv σ n (· ∈ mark prog id) (mark prog id) st x st' a (fun _ h => h) b).1, trivial⟩)
    (referrers { s with things := m1, minions := m2 } (·.boss) id) _ hI2 trivial
  have hdep : ∀ st, beforeDeleteA (deleteA σ n) prog id st .depFk = .ok st := fun st => rfl
  have hfold : passA σ (deleteA σ n) prog id s =
      cascadeOver (deleteA σ n (mark prog id)) (·.boss) id (mark prog id)
        (referrers { s with things := m1, minions := m2 } (·.boss) id) { s with things := m1, minions := m2 } := by
    have hcasc : ∀ st, beforeDeleteA (deleteA σ n) prog id st .bossCascade =
        cascadeOver (deleteA σ n (mark prog id)) (·.boss) id (mark prog id) (referrers st (·.boss) id) st := fun st => rfl
    have okb : ∀ (a : St) (f : St → Res), (Except.ok a >>= f) = f a := fun _ _ => rfl
    have bpure : ∀ (x : Res), (x >>= fun v => pure v) = x := by intro x; cases x <;> rfl
    unfold passA orderA
    cases hdf : σ.depFirst
    case true =>
      simp only [if_true, List.foldlM_cons, List.foldlM_nil]
      rw [hdep, okb, h1, okb, h2, okb, hcasc, bpure]
    case false =>
      simp only [Bool.false_eq_true, if_false, List.foldlM_cons, List.foldlM_nil]
      rw [h1, okb, h2, okb, hcasc]
      have : (fun s' => beforeDeleteA (deleteA σ n) prog id s' CA.depFk >>= fun s' => pure s') = fun v => pure v := by
        funext s'; rw [hdep]; rfl
      rw [this, bpure]
  rw [hfold]
  rcases hcas with ⟨s3, h3⟩ | h3
  · refine Or.inl ⟨s3, h3, ?_⟩
    exact (cascadeOver_spec (Q := (· ∈ mark prog id))
      (fun st x st' a b => deleteA_inv σ n (· ∈ mark prog id) (mark prog id) st x st' a (fun _ h => h) b)
      _ _ s3 hI2 h3).1
  · exact Or.inr h3

/-- all rounds make progress -/
theorem rounds_progress {σ : Schema} {n : Nat} {prog : List Bytes} {id : Bytes} {e : EntA}
    (hid : id ∉ prog)
    (ih : ∀ st x, GInv σ (· ∈ mark prog id) st → x ∉ mark prog id → isReferrer st (·.boss) id x = true →
      OkOrDiverge (deleteA σ n (mark prog id) st x)) :
    ∀ (l : List (Option Child)) (s : St), (GInv σ (· ∈ prog) s ∨ GInv σ (· ∈ mark prog id) s) →
      s.as.lookup id = some e →
      (∃ s3, l.foldlM (roundA σ (deleteA σ n) prog id) s = .ok s3 ∧ s3.as.lookup id = some e) ∨
        l.foldlM (roundA σ (deleteA σ n) prog id) s = .error .diverge := by
  have hmarkiff : ∀ k, plus (· ∈ prog) id k ↔ k ∈ mark prog id := by
    intro k; rw [mem_mark]; unfold plus; exact Or.comm
  have hmarkiff2 : ∀ k, plus (· ∈ mark prog id) id k ↔ k ∈ mark prog id := by
    intro k; unfold plus
    constructor
    · rintro (h | h)
      · exact h
      · exact (mem_mark prog id k).2 (Or.inl h)
    · exact Or.inl
  intro l
  induction l with
  | nil => intro s _ he; exact Or.inl ⟨s, rfl, he⟩
  | cons r rest ihl =>
    intro s hI he
    simp only [List.foldlM_cons]
    have hp : (∃ s3, passA σ (deleteA σ n) prog id s = .ok s3 ∧ GInv σ (· ∈ mark prog id) s3) ∨
        passA σ (deleteA σ n) prog id s = .error .diverge := by
      rcases hI with hI | hI
      · exact pass_progress hI hmarkiff ih
      · exact pass_progress hI hmarkiff2 ih
    rcases hp with ⟨s3, h3, hI3⟩ | h3
    · have hr : roundA σ (deleteA σ n) prog id s r = .ok (afterRound σ id s3 r) := by
        unfold roundA; rw [h3]
      rw [hr]
      have g := roundA_geq (σ := σ) (s3 := s3) (id := id) r
      have he3 : (afterRound σ id s3 r).as.lookup id = some e := by rw [g.1]; exact pass_keeps_id h3 he
      exact ihl _ (Or.inr (hI3.of_geq g)) he3
    · have hr : roundA σ (deleteA σ n) prog id s r = .error .diverge := by
        unfold roundA; rw [h3]
      rw [hr]; exact Or.inr rfl

/-- **under the invariant, `DeleteById` on an existing A entity that is not in progress succeeds or
    runs out of fuel** — never not-found, never bucket-not-found, never a reference error; whatever the
    number of rounds (one per child store holding data for the entity, then A's own; a later round may find
    the boss already deleted by an earlier round's cascade — a reference cycle through the entity; since
    001d2d2 that is skipped, before it was a not-found failure). -/
theorem deleteA_progress (σ : Schema) (hp : σ.protect = none) : ∀ (n : Nat) (prog : List Bytes) (s : St) (id : Bytes),
    GInv σ (· ∈ prog) s → id ∉ prog → s.as.contains id = true →
    OkOrDiverge (deleteA σ n prog s id) := by
  intro n
  induction n with
  | zero => intro prog s id _ _ _; exact Or.inr rfl
  | succ n ih =>
    intro prog s id hI hid hc
    obtain ⟨e, he⟩ := (Map.contains_iff _ _).1 hc
    have ihn : ∀ st x, GInv σ (· ∈ mark prog id) st → x ∉ mark prog id → isReferrer st (·.boss) id x = true →
        OkOrDiverge (deleteA σ n (mark prog id) st x) := by
      intro st x a hx hr
      obtain ⟨ex, hex, _⟩ := (isReferrer_iff st _ id x).1 hr
      exact ih (mark prog id) st x a hx ((Map.contains_iff _ _).2 ⟨ex, hex⟩)
    unfold deleteA
    simp only [hc, if_true]
    rcases rounds_progress hid ihn (roundsOf σ s id) s (Or.inl hI) he with ⟨s3, h3, he3⟩ | h3
    · rw [h3]
      have : s3.as.contains id = true := (Map.contains_iff _ _).2 ⟨e, he3⟩
      simp only [this, if_true, hp]; exact Or.inl ⟨_, rfl⟩
    · rw [h3]; exact Or.inr rfl

theorem GInv.ofInv {σ : Schema} {s : St} (h : Inv σ s) : GInv σ (· ∈ ([] : List Bytes)) s :=
  h.congr (fun k => by simp [none'])

theorem GInv.toInv {σ : Schema} {s : St} (h : GInv σ (· ∈ ([] : List Bytes)) s) : Inv σ s :=
  h.congr (fun k => by simp [none'])

/-- **`DeleteById` on an existing A entity always succeeds** in a state satisfying the invariant —
    cycles and self references included (progress + termination) -/
theorem deleteA_succeeds {σ : Schema} {s0 st : St} {id : Bytes} (hI : Inv σ st) (hsub : Sub st s0)
    (hc : st.as.contains id = true) (hp : σ.protect = none) : ∃ st', deleteA σ (fuelOf s0) [] st id = .ok st' := by
  rcases deleteA_progress σ hp (fuelOf s0) [] st id (GInv.ofInv hI) (by simp) hc with h | h
  · exact h
  · exact absurd h (deleteA_top_terminates σ s0 st id hsub)

/-- **under the invariant, `DeleteById` on an existing B entity succeeds or is refused with the
    reference-exists error** — nothing else -/
theorem deleteB_progress {σ : Schema} {s : St} {b : Bytes} (hI : Inv σ s) (hc : s.bs.contains b = true)
    (hp : σ.protect = none) :
    (∃ s', deleteB σ s b = .ok s') ∨ deleteB σ s b = .error .refExists := by
  have hR : ∀ st, beforeDeleteB σ (deleteA σ (fuelOf s) []) b st .thingsRestrict = .ok st ∨
      beforeDeleteB σ (deleteA σ (fuelOf s) []) b st .thingsRestrict = .error .refExists := by
    intro st; simp only [beforeDeleteB]; split <;> simp
  have hC : ∀ st, Inv σ st → Sub st s → (∃ st', beforeDeleteB σ (deleteA σ (fuelOf s) []) b st .depCascade = .ok st') ∨
      beforeDeleteB σ (deleteA σ (fuelOf s) []) b st .depCascade = .error .refExists := by
    intro st hst hsub
    simp only [beforeDeleteB]
    split
    · have hnd := cascadeOver_no_diverge (f := (·.dep)) (id := b) (skip := []) (s0 := s)
        (del := deleteA σ (fuelOf s) [])
        (fun st x st' a => (deleteA_removed σ _ [] st x st' a).1)
        (fun st x hs _ _ => deleteA_top_terminates σ s st x hs)
        (referrers st (·.dep) b) st hsub
      rcases cascade_progress (R := fun st => Sub st s) (f := (·.dep)) (id := b) (skip := []) (Q := none')
        (fun st x a hs _ c => by
          obtain ⟨ex, hex, _⟩ := (isReferrer_iff st _ b x).1 c
          exact deleteA_progress σ hp (fuelOf s) [] st x (GInv.ofInv a) (by simp) ((Map.contains_iff _ _).2 ⟨ex, hex⟩))
        (fun st x st' a hs c => by
          obtain ⟨i, sb, _, _⟩ := deleteA_inv σ (fuelOf s) none' [] st x st' a (fun _ h => by cases h) c
          exact ⟨i, sb.trans hs⟩)
        (referrers st (·.dep) b) st hst hsub with ⟨st', h⟩ | h
      · exact Or.inl ⟨st', h⟩
      · exact absurd h hnd
    · split
      · exact Or.inr rfl
      · exact Or.inl ⟨st, rfl⟩
  have okb : ∀ (a : St) (f : St → Res), (Except.ok a >>= f) = f a := fun _ _ => rfl
  have errb : ∀ (e : Err) (f : St → Res), ((Except.error e : Res) >>= f) = .error e := fun _ _ => rfl
  have hfold : (∃ s2, (orderB σ).foldlM (beforeDeleteB σ (deleteA σ (fuelOf s) []) b) s = .ok s2 ∧ s2.bs = s.bs) ∨
      (orderB σ).foldlM (beforeDeleteB σ (deleteA σ (fuelOf s) []) b) s = .error .refExists := by
    unfold orderB
    cases hdf : σ.depFirst
    case true =>
      simp only [if_true, List.foldlM_cons, List.foldlM_nil]
      rcases hC s hI (Sub.refl _) with ⟨s1, h1⟩ | h1
      · rw [h1, okb]
        obtain ⟨_, _, hbs1, _⟩ := depCascadeStep hI h1
        rcases hR s1 with h2 | h2
        · rw [h2, okb]; exact Or.inl ⟨s1, rfl, hbs1⟩
        · rw [h2, errb]; exact Or.inr rfl
      · rw [h1, errb]; exact Or.inr rfl
    case false =>
      simp only [Bool.false_eq_true, if_false, List.foldlM_cons, List.foldlM_nil]
      rcases hR s with h1 | h1
      · rw [h1, okb]
        rcases hC s hI (Sub.refl _) with ⟨s2, h2⟩ | h2
        · rw [h2, okb]
          obtain ⟨_, _, hbs2, _⟩ := depCascadeStep hI h2
          exact Or.inl ⟨s2, rfl, hbs2⟩
        · rw [h2, errb]; exact Or.inr rfl
      · rw [h1, errb]; exact Or.inr rfl
  unfold deleteB
  simp only [hc, if_true]
  rcases hfold with ⟨s2, h2, hbs⟩ | h2
  · rw [h2]
    have : s2.bs.contains b = true := by rw [hbs]; exact hc
    simp only [this, if_true]
    cases hcr : (childRestrict σ s2 b .c1 || childRestrict σ s2 b .c2)
    · simp only [Bool.false_eq_true, if_false]; exact Or.inl ⟨_, rfl⟩
    · exact Or.inr (by simp)
  · rw [h2]; exact Or.inr rfl

/-- soundness of the cascade on B: whatever a successful `DeleteById` on B removes from table A is a
    `dep` referrer of the target or refers to one transitively through `boss` (no invariant needed) -/
theorem deleteB_removed {σ : Schema} {s s' : St} {id : Bytes} (h : deleteB σ s id = .ok s') :
    Sub s' s ∧ ∀ k e, s.as.lookup k = some e → s'.as.lookup k = none → RemovedVia (·.dep) s.as id k := by
  have hrestrict : ∀ st st', beforeDeleteB σ (deleteA σ (fuelOf s) []) id st .thingsRestrict = .ok st' → st' = st := by
    intro st st' h
    simp only [beforeDeleteB] at h
    split at h
    · cases h
    · cases h; rfl
  have hcascade : ∀ st st', beforeDeleteB σ (deleteA σ (fuelOf s) []) id st .depCascade = .ok st' →
      Sub st' st ∧ ∀ k e, st.as.lookup k = some e → st'.as.lookup k = none → RemovedVia (·.dep) st.as id k := by
    intro st st' h
    simp only [beforeDeleteB] at h
    split at h
    · obtain ⟨a, b⟩ := cascadeOver_removed (skip := [])
        (fun st x st' _ hd => by
          obtain ⟨a, b⟩ := deleteA_removed σ _ [] st x st' hd
          refine ⟨a, fun k e he hn => ⟨by simp, ?_⟩⟩
          rcases b k e he hn with h | ⟨_, h⟩
          · exact Or.inl h
          · exact Or.inr h) _ st st' h
      exact ⟨a, fun k e he hn => (b k e he hn).2⟩
    · split at h
      · cases h
      · cases h; exact ⟨Sub.refl _, fun k e he hn => by rw [he] at hn; cases hn⟩
  unfold deleteB at h
  split at h
  · split at h
    · next sF hF =>
      split at h
      · cases h
      · split at h
        · cases h
          unfold orderB at hF
          cases hdf : σ.depFirst
          case true =>
            simp only [hdf, if_true, List.foldlM_cons, List.foldlM_nil, bind_ok] at hF
            obtain ⟨s1, h1, s2, h2, h3⟩ := hF
            have e3 : s2 = sF := by cases h3; rfl
            subst e3
            cases hrestrict _ _ h2
            exact hcascade s s1 h1
          case false =>
            simp only [hdf, Bool.false_eq_true, if_false, List.foldlM_cons, List.foldlM_nil, bind_ok] at hF
            obtain ⟨s1, h1, s2, h2, h3⟩ := hF
            have e3 : s2 = sF := by cases h3; rfl
            subst e3
            cases hrestrict _ _ h1
            exact hcascade s s2 h2
        · cases h
    · cases h
  · cases h

end StorageModel.C04
