import StorageModel.C04.Gen
/-
  C04, round 14 — proofs about the schema-parametric model (`Gen.lean`), for EVERY schema:
  the in-progress map of the MutateContext is balanced (every operation, successful or refused, from any map),
  hence a history on one reused context is the history with a fresh context per transaction;
  a refused operation changes nothing (transactions).
-/
namespace StorageModel.C04
open StorageModel

theorem filter_ne_cons_self (k : GKey) (m : GMarks) (h : k ∉ m) :
    (k :: m).filter (fun x => decide (x ≠ k)) = m := by
  simp only [List.filter, ne_eq, not_true_eq_false, decide_false]
  apply List.filter_eq_self.mpr
  intro a ha
  simp only [decide_eq_true_eq]
  intro e; subst e; exact h ha

theorem gLoop_marks (del : GMarks → GSt → Nat → Bytes → GResM) (hdel : ∀ m s t x, (del m s t x).2 = m)
    (i : Nat) (d : GDecl) (id : Bytes) : ∀ (l : List Bytes) (s : GSt) (m : GMarks), (gLoop del i d id l s m).2 = m := by
  intro l
  induction l with
  | nil => intro s m; rfl
  | cons x rest ih =>
    intro s m
    simp only [gLoop]
    split
    · exact ih s m
    · split
      · have h := hdel m s d.src x
        split
        · next s' m' heq => rw [heq] at h; simp only at h; subst h; exact ih s' _
        · next e m' heq => rw [heq] at h; simpa using h
      · exact ih s m

theorem gBefore1_marks (del : GMarks → GSt → Nat → Bytes → GResM) (hdel : ∀ m s t x, (del m s t x).2 = m)
    (t : Nat) (id : Bytes) (s : GSt) (m : GMarks) (c : GC) : (gBefore1 del t id s m c).2 = m := by
  cases c with
  | own i d =>
    simp only [gBefore1]
    split
    · split
      · split <;> rfl
      · rfl
    · rfl
  | del i d =>
    simp only [gBefore1]
    split
    · by_cases hn : (t, id) ∈ m
      · simp only [hn, decide_true, if_true]
        exact gLoop_marks del hdel i d id _ s m
      · simp only [hn, decide_false, Bool.false_eq_true, if_false]
        rw [gLoop_marks del hdel i d id _ s ((t, id) :: m)]
        exact filter_ne_cons_self (t, id) m hn
    · split
      · split <;> rfl
      · split <;> rfl

theorem gPass_marks (del : GMarks → GSt → Nat → Bytes → GResM) (hdel : ∀ m s t x, (del m s t x).2 = m)
    (t : Nat) (id : Bytes) : ∀ (l : List GC) (s : GSt) (m : GMarks), (gPass del t id l s m).2 = m := by
  intro l
  induction l with
  | nil => intro s m; rfl
  | cons c rest ih =>
    intro s m
    simp only [gPass]
    have h := gBefore1_marks del hdel t id s m c
    split
    · next s' m' heq => rw [heq] at h; simp only at h; subst h; exact ih s' _
    · next e m' heq => rw [heq] at h; simpa using h

/-- `DeleteById`, whatever it does and however it ends, leaves the in-progress map as it found it -/
theorem gDelete_marks (σ : GSchema) : ∀ (n : Nat) (m : GMarks) (s : GSt) (t : Nat) (id : Bytes),
    (gDelete σ n m s t id).2 = m := by
  intro n
  induction n with
  | zero => intro m s t id; rfl
  | succ n ih =>
    intro m s t id
    simp only [gDelete]
    split
    · rfl
    · have h := gPass_marks (gDelete σ n) ih t id (gConstraints σ t) s m
      split
      · next s1 m1 heq => rw [heq] at h; simp only at h; subst h; split <;> rfl
      · next e m1 heq => rw [heq] at h; simpa using h

theorem gApply_marks (σ : GSchema) (m : GMarks) (s : GSt) (op : GOp) : (gApply σ m s op).2 = m := by
  cases op with
  | create t id row => rfl
  | update t id sel row => rfl
  | delete t id => exact gDelete_marks σ _ m s t id

theorem gRunOps_marks (σ : GSchema) : ∀ (ops : List GOp) (k : Nat) (s : GSt) (m : GMarks),
    (gRunOps σ k ops s m).2.2 = m := by
  intro ops
  induction ops with
  | nil => intro k s m; rfl
  | cons op rest ih =>
    intro k s m
    simp only [gRunOps]
    have h := gApply_marks σ m s op
    split
    · next s' m' heq => rw [heq] at h; simp only at h; subst h; exact ih _ s' _
    · next e m' heq => rw [heq] at h; simpa using h

theorem gRunTx_marks (σ : GSchema) (m : GMarks) (s : GSt) (tx : List GOp) : (gRunTx σ m s tx).2 = m := by
  have h := gRunOps_marks σ tx 0 s m
  simp only [gRunTx]
  split
  · next s' m' heq => rw [heq] at h; simpa using h
  · next e x m' heq => rw [heq] at h; simpa using h

/-- a whole history on ONE reused context (rolled-back transactions included) = the same history with a fresh
    context per transaction, and the map is empty at the end -/
theorem gRunHistory_reuse (σ : GSchema) : ∀ (h : List (List GOp)) (s : GSt),
    gRunHistory σ true h s [] = gRunHistory σ false h s [] := by
  intro h
  induction h with
  | nil => intro s; rfl
  | cons tx rest ih =>
    intro s
    simp only [gRunHistory, if_true, Bool.false_eq_true, if_false]
    rw [gRunTx_marks σ [] s tx]
    exact ih _

theorem gRunHistory_marks_empty (σ : GSchema) (reuse : Bool) : ∀ (h : List (List GOp)) (s : GSt),
    (gRunHistory σ reuse h s []).2 = [] := by
  intro h
  induction h with
  | nil => intro s; rfl
  | cons tx rest ih =>
    intro s
    cases reuse
    · simp only [gRunHistory, Bool.false_eq_true, if_false]; exact ih _
    · simp only [gRunHistory, if_true]; rw [gRunTx_marks σ [] s tx]; exact ih _

/-- a refused transaction changes nothing -/
theorem gRunTx_refused_unchanged (σ : GSchema) (m : GMarks) (s : GSt) (tx : List GOp) (e : Nat × Err)
    (h : (gRunTx σ m s tx).1.2 = some e) : (gRunTx σ m s tx).1.1 = s := by
  simp only [gRunTx] at h ⊢
  split at h
  · simp at h
  · rfl

end StorageModel.C04
