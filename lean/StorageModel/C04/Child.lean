import StorageModel.C04.Cascade
/-
  C04 — the fks DECLARED BY the child stores (mentor index, guard constraint): every operation of the
  model preserves `MInv` (Inv.lean); together with `Inv` this is the whole invariant `FullInv`.
  `Inv` alone is proved in Proofs.lean — it does not mention `mentees1/2`, and the child stores' own
  constraint steps do not touch what it mentions (`GEq`).
-/
namespace StorageModel.C04
open StorageModel

/-! ### small facts about the accessors -/

theorem mentees_setMentees (s : St) (c c' : Child) (m : Map (List Bytes)) :
    (s.setMentees c m).mentees c' = if c' = c then m else s.mentees c' := by
  cases c <;> cases c' <;> simp [St.setMentees, St.mentees]

theorem extOf_setExt (e : EntA) (c c' : Child) (x : Option Ext) :
    (e.setExt c x).extOf c' = if c' = c then x else e.extOf c' := by
  cases c <;> cases c' <;> simp [EntA.setExt, EntA.extOf]

theorem mentorOf_congr {σ : Schema} {c : Child} {e e' : EntA} (h : e.extOf c = e'.extOf c) :
    mentorOf σ c e = mentorOf σ c e' := by
  unfold mentorOf; rw [h]

theorem guardOf_congr {σ : Schema} {c : Child} {e e' : EntA} (h : e.extOf c = e'.extOf c) :
    guardOf σ c e = guardOf σ c e' := by
  unfold guardOf; rw [h]

theorem mentorOf_noExt {σ : Schema} {c : Child} {e : EntA} (h : e.extOf c = none) : mentorOf σ c e = none := by
  unfold mentorOf; rw [h]; simp

theorem guardOf_noExt {σ : Schema} {c : Child} {e : EntA} (h : e.extOf c = none) : guardOf σ c e = none := by
  unfold guardOf; rw [h]; simp

theorem mentorOf_undeclared {σ : Schema} {c : Child} (h : σ.idx c = false) (e : EntA) : mentorOf σ c e = none := by
  unfold mentorOf; simp [h]

theorem guardOf_undeclared {σ : Schema} {c : Child} (h : σ.fk c = false) (e : EntA) : guardOf σ c e = none := by
  unfold guardOf; simp [h]

/-- `symbol.Eval` of the mentor field is the declared accessor's value -/
theorem childField_m {σ : Schema} {c : Child} {s : St} {id : Bytes} {e : EntA} (hidx : σ.idx c = true)
    (he : s.as.lookup id = some e) : childField s id c (·.m) = evalVal (mentorOf σ c e) := by
  simp only [childField, mentorOf, he, hidx, if_true]
  cases e.extOf c <;> rfl

theorem childField_g {σ : Schema} {c : Child} {s : St} {id : Bytes} {e : EntA} (hfk : σ.fk c = true)
    (he : s.as.lookup id = some e) : childField s id c (·.g) = evalVal (guardOf σ c e) := by
  simp only [childField, guardOf, he, hfk, if_true]
  cases e.extOf c <;> rfl

/-! ### generic index lemmas -/

/-- writing an entity whose `f` value is what it was (or null for a new entity) keeps the index exact -/
theorem SetExact.insert_same {f : EntA → FV} {P : Bytes → Prop} {as : Map EntA} {m : Map (List Bytes)} {id : Bytes}
    {e' : EntA} (h : SetExact f P as m)
    (hsame : ∀ cur, as.lookup id = some cur → evalVal (f cur) = evalVal (f e'))
    (hnew : as.lookup id = none → evalVal (f e') = []) : SetExact f P (as.insert id e') m := by
  intro t k
  rw [h t k]
  simp only [Map.lookup_insert]
  by_cases hk : k = id
  · subst hk
    simp only [if_true]
    constructor
    · rintro ⟨e, he, h1, h2, h3⟩
      exact ⟨e', rfl, (hsame e he) ▸ h1, h2, h3⟩
    · rintro ⟨e, he, h1, h2, h3⟩
      cases he
      cases hl : as.lookup k with
      | none => exact absurd ((hnew hl).symm.trans h1).symm h2
      | some cur => exact ⟨cur, rfl, (hsame cur hl).trans h1, h2, h3⟩
  · simp [hk]

/-- removing an entity whose `f` value is null keeps the index exact -/
theorem SetExact.erase_null {f : EntA → FV} {P : Bytes → Prop} {as : Map EntA} {m : Map (List Bytes)} {id : Bytes}
    (h : SetExact f P as m) (hnull : ∀ e, as.lookup id = some e → evalVal (f e) = []) :
    SetExact f P (as.erase id) m := by
  intro t k
  rw [h t k]
  simp only [Map.lookup_erase]
  by_cases hk : k = id
  · subst hk
    simp only [if_true]
    constructor
    · rintro ⟨e, he, h1, h2, _⟩; exact absurd ((hnull e he).symm.trans h1).symm h2
    · rintro ⟨e, he, _⟩; cases he
  · simp [hk]

theorem Targets.insert {f : EntA → FV} {as : Map EntA} {tgt : Bytes → Bool} {id : Bytes} {e' : EntA}
    (h : Targets f as tgt) (hn : evalVal (f e') ≠ [] → tgt (evalVal (f e')) = true) :
    Targets f (as.insert id e') tgt := by
  intro k e he hne
  rw [Map.lookup_insert] at he
  by_cases hk : k = id
  · simp only [hk, if_true] at he; cases he; exact hn hne
  · simp only [hk, if_false] at he; exact h k e he hne

theorem Targets.erase {f : EntA → FV} {as : Map EntA} {tgt : Bytes → Bool} {id : Bytes}
    (h : Targets f as tgt) : Targets f (as.erase id) tgt := by
  intro k e he hne
  rw [Map.lookup_erase] at he
  by_cases hk : k = id
  · simp [hk] at he
  · simp only [hk, if_false] at he; exact h k e he hne

theorem Targets.of_sub {f : EntA → FV} {as as' : Map EntA} {tgt : Bytes → Bool}
    (h : Targets f as tgt) (hsub : ∀ k e, as'.lookup k = some e → as.lookup k = some e) : Targets f as' tgt :=
  fun k e he hne => h k e (hsub k e he) hne

/-! ### transport -/

/-- `MInv` only looks at `as`, `bs` and the two mentees maps -/
theorem MInv.of_eq {σ : Schema} {P : Child → Bytes → Prop} {s s' : St} (h : MInv σ P s)
    (has : s'.as = s.as) (hbs : s'.bs = s.bs) (hm : ∀ c, s'.mentees c = s.mentees c) : MInv σ P s' :=
  ⟨fun c => by rw [has, hm c]; exact h.men c, fun c => by rw [has, hbs]; exact h.menT c,
   fun c => by rw [has, hbs]; exact h.guardT c, fun c t ht => by rw [hbs]; rw [hm c] at ht; exact h.menK c t ht⟩

theorem MInv.congr {σ : Schema} {P Q : Child → Bytes → Prop} {s : St} (hpq : ∀ c k, P c k ↔ Q c k) (h : MInv σ P s) :
    MInv σ Q s :=
  ⟨fun c => (h.men c).congr (hpq c), h.menT, h.guardT, h.menK⟩

theorem mentees_of_eqs {s s' : St} (h1 : s'.mentees1 = s.mentees1) (h2 : s'.mentees2 = s.mentees2) (c : Child) :
    s'.mentees c = s.mentees c := by
  cases c
  · exact h1
  · exact h2

/-! ### writes -/

/-- a write of A entity `id` that leaves the mentees maps alone and every child store's data as it was -/
theorem CInv.plainWrite {σ : Schema} {s s' : St} {id : Bytes} {e' : EntA} (hM : CInv σ s)
    (has : s'.as = s.as.insert id e') (hbs : s'.bs = s.bs) (hm : ∀ c, s'.mentees c = s.mentees c)
    (hsame : ∀ c cur, s.as.lookup id = some cur → cur.extOf c = e'.extOf c)
    (hnew : s.as.lookup id = none → ∀ c, e'.extOf c = none) : CInv σ s' := by
  have hvalM : ∀ c cur, s.as.lookup id = some cur → evalVal (mentorOf σ c cur) = evalVal (mentorOf σ c e') :=
    fun c cur hc => by rw [mentorOf_congr (hsame c cur hc)]
  have hvalG : ∀ c cur, s.as.lookup id = some cur → evalVal (guardOf σ c cur) = evalVal (guardOf σ c e') :=
    fun c cur hc => by rw [guardOf_congr (hsame c cur hc)]
  refine ⟨fun c => ?_, fun c => ?_, fun c => ?_, fun c t ht => ?_⟩
  · rw [has, hm c]
    exact (hM.men c).insert_same (hvalM c) (fun hn => by rw [mentorOf_noExt (hnew hn c)]; rfl)
  · rw [has, hbs]
    refine (hM.menT c).insert ?_
    intro hne
    cases hl : s.as.lookup id with
    | none => rw [mentorOf_noExt (hnew hl c)] at hne; exact absurd rfl hne
    | some cur => rw [← hvalM c cur hl] at hne ⊢; exact hM.menT c id cur hl hne
  · rw [has, hbs]
    refine (hM.guardT c).insert ?_
    intro hne
    cases hl : s.as.lookup id with
    | none => rw [guardOf_noExt (hnew hl c)] at hne; exact absurd rfl hne
    | some cur => rw [← hvalG c cur hl] at hne ⊢; exact hM.guardT c id cur hl hne
  · rw [hbs]; rw [hm c] at ht; exact hM.menK c t ht

/-- a write through child store `c`: `s1` = the state after A's constraints (table written, mentees maps
    untouched), then `c`'s own constraints -/
theorem CInv.childWrite {σ : Schema} {c : Child} {ic : Bool} {oldM oldG : Bytes} {s s1 s' : St} {id : Bytes} {e' : EntA}
    (hM : CInv σ s)
    (has : s1.as = s.as.insert id e') (hbs : s1.bs = s.bs) (hm : ∀ c', s1.mentees c' = s.mentees c')
    (hother : ∀ c', c' ≠ c → (∀ cur, s.as.lookup id = some cur → cur.extOf c' = e'.extOf c') ∧
      (s.as.lookup id = none → e'.extOf c' = none))
    (hkM : σ.idx c = true → WriteKind (mentorOf σ c) s.as id ic oldM)
    (hkG : σ.fk c = true → ic = false → ∃ cur, s.as.lookup id = some cur ∧ oldG = evalVal (guardOf σ c cur))
    (h : childAfterUpdate σ c ic oldM oldG id s1 = .ok s') : CInv σ s' := by
  have hlk : s1.as.lookup id = some e' := by rw [has]; simp
  -- the other child store's data is untouched
  have hoM : ∀ c', c' ≠ c → SetExact (mentorOf σ c') none' (s.as.insert id e') (s.mentees c') ∧
      Targets (mentorOf σ c') (s.as.insert id e') s.bs.contains ∧
      Targets (guardOf σ c') (s.as.insert id e') s.bs.contains := by
    intro c' hc'
    obtain ⟨hs, hn⟩ := hother c' hc'
    refine ⟨(hM.men c').insert_same (fun cur hc => by rw [mentorOf_congr (hs cur hc)])
      (fun hl => by rw [mentorOf_noExt (hn hl)]; rfl), (hM.menT c').insert ?_, (hM.guardT c').insert ?_⟩
    · intro hne
      cases hl : s.as.lookup id with
      | none => rw [mentorOf_noExt (hn hl)] at hne; exact absurd rfl hne
      | some cur => rw [← mentorOf_congr (hs cur hl)] at hne ⊢; exact hM.menT c' id cur hl hne
    · intro hne
      cases hl : s.as.lookup id with
      | none => rw [guardOf_noExt (hn hl)] at hne; exact absurd rfl hne
      | some cur => rw [← guardOf_congr (hs cur hl)] at hne ⊢; exact hM.guardT c' id cur hl hne
  unfold childAfterUpdate at h
  obtain ⟨s2, h2, h3⟩ := bind_ok.1 h
  -- the mentor index step
  have hstep1 : s2.as = s1.as ∧ s2.bs = s1.bs ∧ (∀ c', c' ≠ c → s2.mentees c' = s1.mentees c') ∧
      SetExact (mentorOf σ c) none' (s.as.insert id e') (s2.mentees c) ∧
      Targets (mentorOf σ c) (s.as.insert id e') s.bs.contains ∧
      (∀ t, (s2.mentees c).lookup t ≠ none → s.bs.contains t = true) := by
    unfold childIdxStep at h2
    cases hidx : σ.idx c
    · simp only [hidx, Bool.false_eq_true, if_false] at h2
      cases h2
      refine ⟨rfl, rfl, fun _ _ => rfl, ?_, ?_, ?_⟩
      · rw [hm c]
        exact (hM.men c).insert_same (fun cur _ => by rw [mentorOf_undeclared hidx, mentorOf_undeclared hidx])
          (fun _ => by rw [mentorOf_undeclared hidx]; rfl)
      · intro k e he hne; rw [mentorOf_undeclared hidx] at hne; exact absurd rfl hne
      · intro t ht; rw [hm c] at ht; exact hM.menK c t ht
    · simp only [hidx, if_true] at h2
      cases hw : idxWrite true s1.bs.contains ic oldM (childField s1 id c (·.m)) id (s1.mentees c) with
      | error err => rw [hw] at h2; cases h2
      | ok m =>
        rw [hw] at h2
        cases h2
        rw [childField_m hidx hlk, hbs, hm c] at hw
        have sp := idxWrite_spec (f := mentorOf σ c) (e' := e') (hM.men c) (hkM hidx) (hM.menT c) (fun _ h => h)
          (hM.menK c) hw
        refine ⟨?_, ?_, ?_, ?_, sp.2.1, ?_⟩
        · cases c <;> rfl
        · cases c <;> rfl
        · intro c' hc'; rw [mentees_setMentees]; simp [hc']
        · rw [mentees_setMentees]; simp only [if_true]; exact sp.1
        · rw [mentees_setMentees]; simp only [if_true]; exact sp.2.2.1
  obtain ⟨has2, hbs2, hm2, hS, hT, hK⟩ := hstep1
  -- the guard constraint step: no state change; the written guard names an existing B entity
  have hs' : s' = s2 := childFkStep_eq h3
  have hG : Targets (guardOf σ c) (s.as.insert id e') s.bs.contains := by
    refine (hM.guardT c).insert ?_
    intro hne
    cases hfk : σ.fk c
    · rw [guardOf_undeclared hfk] at hne; exact absurd rfl hne
    · have hlk2 : s2.as.lookup id = some e' := by rw [has2]; exact hlk
      unfold childFkStep at h3
      simp only [hfk, if_true, childField_g hfk hlk2] at h3
      by_cases hskip : ¬ ic = true ∧ oldG = evalVal (guardOf σ c e')
      · obtain ⟨hic, hov⟩ := hskip
        have hic' : ic = false := by cases ic <;> simp_all
        obtain ⟨cur, hc, ho⟩ := hkG hfk hic'
        rw [← hov, ho] at hne ⊢
        exact hM.guardT c id cur hc hne
      · rw [if_neg hskip, if_pos hne] at h3
        by_cases htn : s2.bs.contains (evalVal (guardOf σ c e')) = true
        · rw [hbs2, hbs] at htn; exact htn
        · rw [if_neg htn] at h3; cases h3
  subst hs'
  refine ⟨fun c' => ?_, fun c' => ?_, fun c' => ?_, fun c' t ht => ?_⟩
  · rw [has2, has]
    by_cases hc' : c' = c
    · subst hc'; exact hS
    · rw [hm2 c' hc', hm c']; exact (hoM c' hc').1
  · rw [has2, has, hbs2, hbs]
    by_cases hc' : c' = c
    · subst hc'; exact hT
    · exact (hoM c' hc').2.1
  · rw [has2, has, hbs2, hbs]
    by_cases hc' : c' = c
    · subst hc'; exact hG
    · exact (hoM c' hc').2.2
  · rw [hbs2, hbs]
    by_cases hc' : c' = c
    · subst hc'; exact hK t ht
    · rw [hm2 c' hc', hm c'] at ht; exact hM.menK c' t ht

/-! ### every write operation preserves `CInv` -/

theorem createB_cinv {σ : Schema} {s s' : St} {id : Bytes} (hM : CInv σ s) (h : createB s id = .ok s') : CInv σ s' := by
  unfold createB at h
  split at h
  · cases h
  · split at h
    · cases h
    · cases h
      have hmono : ∀ t, s.bs.contains t = true → (s.bs.insert id ()).contains t = true := by
        intro t ht
        simp only [Map.contains_iff, Map.lookup_insert] at ht ⊢
        by_cases htid : t = id
        · exact ⟨(), by simp [htid]⟩
        · simpa [htid] using ht
      exact ⟨fun c => by cases c <;> exact hM.men _, fun c k e he hne => hmono _ (hM.menT c k e he hne),
        fun c k e he hne => hmono _ (hM.guardT c k e he hne),
        fun c t ht => hmono _ (hM.menK c t (by cases c <;> exact ht))⟩

theorem plain_extOf (e : EntA) (c : Child) : e.plain.extOf c = none := by cases c <;> rfl

theorem createA_cinv {σ : Schema} {s s' : St} {id : Bytes} {e : EntA} (hI : Inv σ s) (hM : CInv σ s)
    (h : createA σ s id e = .ok s') : CInv σ s' := by
  obtain ⟨_, has, hbs, hnone, hm1, hm2⟩ := createA_inv hI h
  exact hM.plainWrite has hbs (mentees_of_eqs hm1 hm2) (fun c cur hc => by rw [hnone] at hc; cases hc)
    (fun _ c => plain_extOf e c)

theorem updateA_cinv {σ : Schema} {s s' : St} {id : Bytes} {e : EntA} {mo mb md : Bool} (hI : Inv σ s) (hM : CInv σ s)
    (h : updateA σ s id e mo mb md = .ok s') : CInv σ s' := by
  obtain ⟨_, hbs, cur, hc, has, hm1, hm2⟩ := updateA_inv hI h
  refine hM.plainWrite has hbs (mentees_of_eqs hm1 hm2) ?_ (fun hn => by rw [hc] at hn; cases hn)
  intro c cur' hc'
  rw [hc] at hc'; cases hc'
  cases c <;> rfl

theorem createC_cinv {σ : Schema} {c : Child} {s s' : St} {id : Bytes} {e : EntA} {x : Ext} (hI : Inv σ s) (hM : CInv σ s)
    (h : createC σ c s id e x = .ok s') : CInv σ s' := by
  obtain ⟨_, has, _, _, hnoext, s1, has1, hbs1, hm1, hm2, hch⟩ := createC_inv hI h
  refine hM.childWrite (e' := createdEnt s c id e x) (has1.trans has) hbs1 (mentees_of_eqs hm1 hm2) ?_ ?_ ?_ hch
  · intro c' hc'
    constructor
    · intro cur hcur
      simp only [createdEnt, hcur, extOf_setExt, hc', if_false]
      cases c' <;> rfl
    · intro hn
      simp only [createdEnt, hn, extOf_setExt, hc', if_false]
      cases c' <;> rfl
  · intro _
    cases hl : s.as.lookup id with
    | none => exact .create rfl hl rfl
    | some cur => exact .update cur hl (by rw [mentorOf_noExt (hnoext cur hl)]; rfl)
  · intro _ hic; cases hic

theorem updateC_cinv {σ : Schema} {c : Child} {s s' : St} {id : Bytes} {e : EntA} {x : Ext} {mo mb md mt mm mg : Bool}
    (hI : Inv σ s) (hM : CInv σ s) (h : updateC σ c s id e x mo mb md mt mm mg = .ok s') : CInv σ s' := by
  obtain ⟨_, _, _, cur, cx, hc, hx, has, s1, has1, hbs1, hm1, hm2, hch⟩ := updateC_inv hI h
  refine hM.childWrite (e' := updatedEnt cur cx c e x mo mb md mt mm mg) (has1.trans has) hbs1
    (mentees_of_eqs hm1 hm2) ?_ ?_ ?_ hch
  · intro c' hc'
    constructor
    · intro cur' hcur
      rw [hc] at hcur; cases hcur
      simp only [updatedEnt, extOf_setExt, hc', if_false]
      cases c' <;> rfl
    · intro hn; rw [hc] at hn; cases hn
  · intro hidx
    refine .update cur hc ?_
    simp [mentorOf, hidx, hx]
  · intro hfk _
    exact ⟨cur, hc, by simp [guardOf, hfk, hx]⟩

/-! ### deletes -/

theorem cascadeOver_pres {R : St → Prop} {del : St → Bytes → Res} {f : EntA → FV} {id : Bytes} {skip : List Bytes}
    (hdel : ∀ st x st', R st → del st x = .ok st' → R st') :
    ∀ (cands : List Bytes) (st st' : St), R st → cascadeOver del f id skip cands st = .ok st' → R st' := by
  intro cands
  induction cands with
  | nil => intro st st' hR h; simp only [cascadeOver, List.foldlM_nil, pure, Except.pure] at h; cases h; exact hR
  | cons c rest ih =>
    intro st st' hR h
    simp only [cascadeOver, List.foldlM_cons, bind_ok] at h
    obtain ⟨st1, h1, h2⟩ := h
    refine ih st1 st' ?_ h2
    split at h1
    · cases h1; exact hR
    · split at h1
      · exact hdel st c st1 hR h1
      · cases h1; exact hR

theorem foldlM_pres {α : Type} {R : St → Prop} {f : St → α → Res}
    (hstep : ∀ st a st', R st → f st a = .ok st' → R st') :
    ∀ (l : List α) (st st' : St), R st → l.foldlM f st = .ok st' → R st' := by
  intro l
  induction l with
  | nil => intro st st' hR h; simp only [List.foldlM_nil, pure, Except.pure] at h; cases h; exact hR
  | cons a rest ih =>
    intro st st' hR h
    simp only [List.foldlM_cons, bind_ok] at h
    obtain ⟨st1, h1, h2⟩ := h
    exact ih st1 st' (hstep st a st1 hR h1) h2

/-- A's round leaves the child-declared indexes to the nested deletes -/
theorem pass_minv {σ : Schema} {del : List Bytes → St → Bytes → Res} {Q : Child → Bytes → Prop} {prog : List Bytes}
    {s s3 : St} {id : Bytes}
    (hdel : ∀ st x st', MInv σ Q st → del (mark prog id) st x = .ok st' → MInv σ Q st')
    (hM : MInv σ Q s) (h : PassOk del prog id s s3) : MInv σ Q s3 := by
  obtain ⟨s1, s2, h1, h2, h3⟩ := h
  rw [ownerDel_eq] at h1; cases h1
  rw [bossDel_eq] at h2; cases h2
  refine cascadeOver_pres hdel _ _ s3 ?_ h3
  exact hM.of_eq rfl rfl (fun c => by cases c <;> rfl)

/-- pending sets after the child-store steps of the rounds `l` -/
def addAll (Q : Child → Bytes → Prop) (id : Bytes) (l : List (Option Child)) : Child → Bytes → Prop :=
  fun c k => Q c k ∨ (some c ∈ l ∧ k = id)

/-- child store `c`'s `ProcessBeforeDelete`: the entity becomes pending for `c`'s index -/
theorem childBeforeDelete_minv {σ : Schema} {Q : Child → Bytes → Prop} {c : Child} {id : Bytes} {s : St}
    (hM : MInv σ Q s) : MInv σ (fun c' k => Q c' k ∨ (c' = c ∧ k = id)) (childBeforeDelete σ c id s) := by
  have hother : ∀ c', c' ≠ c → ∀ k, Q c' k ↔ (Q c' k ∨ (c' = c ∧ k = id)) := by
    intro c' hc' k
    constructor
    · exact Or.inl
    · rintro (h | ⟨h, _⟩)
      · exact h
      · exact absurd h hc'
  have hself : ∀ k, plus (Q c) id k ↔ (Q c k ∨ (c = c ∧ k = id)) := by
    intro k; unfold plus
    constructor
    · rintro (h | h)
      · exact Or.inl h
      · exact Or.inr ⟨rfl, h⟩
    · rintro (h | ⟨_, h⟩)
      · exact Or.inl h
      · exact Or.inr h
  unfold childBeforeDelete
  cases hidx : σ.idx c
  · simp only [Bool.false_eq_true, if_false]
    refine ⟨fun c' => ?_, hM.menT, hM.guardT, hM.menK⟩
    by_cases hc' : c' = c
    · subst hc'
      refine ((hM.men c').del_null (id := id) ?_).congr (fun k => by simp [plus])
      intro e _; rw [mentorOf_undeclared hidx]; rfl
    · exact (hM.men c').congr (fun k => by simp [hc'])
  · simp only [if_true]
    have hv : ∀ e, s.as.lookup id = some e → evalVal (mentorOf σ c e) = childField s id c (·.m) :=
      fun e he => (childField_m hidx he).symm
    have sp := idxDelB_spec (tgt := s.bs.contains) (hM.men c) hv (hM.menK c)
    have has : (s.setMentees c (idxDelB s.bs.contains (childField s id c (·.m)) id (s.mentees c))).as = s.as := by
      cases c <;> rfl
    have hbs : (s.setMentees c (idxDelB s.bs.contains (childField s id c (·.m)) id (s.mentees c))).bs = s.bs := by
      cases c <;> rfl
    refine ⟨fun c' => ?_, fun c' => by rw [has, hbs]; exact hM.menT c', fun c' => by rw [has, hbs]; exact hM.guardT c',
      fun c' t ht => ?_⟩
    · rw [has, mentees_setMentees]
      by_cases hc' : c' = c
      · subst hc'; simp only [if_true]; exact sp.1.congr (fun k => by simp [plus])
      · simp only [hc', if_false]; exact (hM.men c').congr (fun k => by simp [hc'])
    · rw [hbs]
      rw [mentees_setMentees] at ht
      by_cases hc' : c' = c
      · subst hc'; simp only [if_true] at ht; exact sp.2 t ht
      · simp only [hc', if_false] at ht; exact hM.menK c' t ht

theorem rounds_minv {σ : Schema} {del : List Bytes → St → Bytes → Res} {prog : List Bytes} {id : Bytes}
    (hdel : ∀ (Q : Child → Bytes → Prop) st x st', MInv σ Q st → del (mark prog id) st x = .ok st' → MInv σ Q st') :
    ∀ (l : List (Option Child)) (Q : Child → Bytes → Prop) (st s' : St), MInv σ Q st →
      l.foldlM (roundA σ del prog id) st = .ok s' → MInv σ (addAll Q id l) s' := by
  intro l
  induction l with
  | nil =>
    intro Q st s' hM h
    simp only [List.foldlM_nil, pure, Except.pure] at h
    cases h
    exact hM.congr (fun c k => by simp [addAll])
  | cons r rest ih =>
    intro Q st s' hM h
    simp only [List.foldlM_cons, bind_ok] at h
    obtain ⟨st1, h1, h2⟩ := h
    obtain ⟨s3, hp, _, rfl⟩ := roundA_ok h1
    have hM3 := pass_minv (hdel Q) hM hp
    cases r with
    | none =>
      refine (ih Q _ s' hM3 h2).congr ?_
      intro c k
      simp [addAll]
    | some c0 =>
      have hM1 := childBeforeDelete_minv (c := c0) (id := id) hM3
      refine (ih _ _ s' hM1 h2).congr ?_
      intro c k
      simp only [addAll, List.mem_cons, Option.some.injEq]
      constructor
      · rintro ((h | ⟨h1, h2⟩) | ⟨h1, h2⟩)
        · exact Or.inl h
        · exact Or.inr ⟨Or.inl h1, h2⟩
        · exact Or.inr ⟨Or.inr h1, h2⟩
      · rintro (h | ⟨h1 | h1, h2⟩)
        · exact Or.inl (Or.inl h)
        · exact Or.inl (Or.inr ⟨h1, h2⟩)
        · exact Or.inr ⟨h1, h2⟩

theorem rounds_keeps_id {σ : Schema} {n : Nat} {prog : List Bytes} {id : Bytes} {e : EntA} :
    ∀ (l : List (Option Child)) (st s' : St), st.as.lookup id = some e →
      l.foldlM (roundA σ (deleteA σ n) prog id) st = .ok s' → s'.as.lookup id = some e := by
  intro l
  induction l with
  | nil => intro st s' he h; simp only [List.foldlM_nil, pure, Except.pure] at h; cases h; exact he
  | cons r rest ih =>
    intro st s' he h
    simp only [List.foldlM_cons, bind_ok] at h
    obtain ⟨st1, h1, h2⟩ := h
    obtain ⟨s3, _, hp, rfl⟩ := roundA_ok h1
    have g := roundA_geq (σ := σ) (s3 := s3) (id := id) r
    exact ih _ s' (by rw [g.1]; exact pass_keeps_id hp he) h2

theorem mem_roundsOf (σ : Schema) (s : St) (id : Bytes) (c : Child) :
    some c ∈ roundsOf σ s id ↔ hasExt s id c = true := by
  unfold roundsOf childOrder
  cases σ.c2First <;> cases c <;> simp

/-- **`DeleteById` on A preserves the invariant of the child-declared fks** (any pending sets `Q`) -/
theorem deleteA_minv (σ : Schema) : ∀ (n : Nat) (Q : Child → Bytes → Prop) (prog : List Bytes) (s : St) (id : Bytes)
    (s' : St), MInv σ Q s → deleteA σ n prog s id = .ok s' → MInv σ Q s' := by
  intro n
  induction n with
  | zero => intro Q prog s id s' _ h; simp [deleteA] at h
  | succ n ih =>
    intro Q prog s id s' hM h
    obtain ⟨hc, s3, hF, _, rfl, _⟩ := deleteA_succ_ok h
    obtain ⟨e, he⟩ := (Map.contains_iff _ _).1 hc
    have hM3 := rounds_minv (fun Q' st x st' a b => ih Q' (mark prog id) st x st' a b) _ Q s s3 hM hF
    have he3 : s3.as.lookup id = some e := rounds_keeps_id _ s s3 he hF
    have hself : (s3.as.erase id).lookup id = none := by simp
    refine ⟨fun c => ?_, fun c => (hM3.menT c).erase, fun c => (hM3.guardT c).erase,
      fun c t ht => hM3.menK c t (by cases c <;> exact ht)⟩
    have hmen : ({ s3 with as := s3.as.erase id, minions := s3.minions.erase id } : St).mentees c = s3.mentees c := by
      cases c <;> rfl
    rw [hmen]
    show SetExact (mentorOf σ c) (Q c) (s3.as.erase id) (s3.mentees c)
    by_cases hx : hasExt s id c = true
    · -- `c`'s round ran: `id` is pending for `c`'s index
      have hp : SetExact (mentorOf σ c) (plus (Q c) id) s3.as (s3.mentees c) := by
        refine (hM3.men c).congr ?_
        intro k; unfold plus
        simp [addAll, (mem_roundsOf σ s id c).2 hx]
      exact (hp.erase_pending (Or.inr rfl)).unpend hself
    · -- no data in `c`: the entity's mentor value there is null
      have hq : SetExact (mentorOf σ c) (Q c) s3.as (s3.mentees c) := by
        refine (hM3.men c).congr ?_
        intro k
        have hx' : hasExt s id c = false := by simpa using hx
        simp [addAll, mem_roundsOf σ s id c, hx']
      refine hq.erase_null ?_
      intro e' he'
      rw [he3] at he'; cases he'
      have : e.extOf c = none := by
        cases hxe : e.extOf c with
        | none => rfl
        | some v => exact absurd (by simp [hasExt, he, hxe]) hx
      rw [mentorOf_noExt this]; rfl

/-- A's constraints on B (the dep cascade deletes through `DeleteById` on A) preserve it -/
theorem deleteB_fold_cinv {σ : Schema} {n : Nat} {s s2 : St} {id : Bytes} (hM : CInv σ s)
    (hF : (orderB σ).foldlM (beforeDeleteB σ (deleteA σ n []) id) s = .ok s2) : CInv σ s2 := by
  refine foldlM_pres (R := CInv σ) ?_ _ s s2 hM hF
  intro st cb st' hst hstep
  cases cb with
  | thingsRestrict =>
    simp only [beforeDeleteB] at hstep
    split at hstep
    · cases hstep
    · cases hstep; exact hst
  | depCascade =>
    simp only [beforeDeleteB] at hstep
    split at hstep
    · exact cascadeOver_pres (fun st x st' a b => deleteA_minv σ _ _ [] st x st' a b) _ _ st' hst hstep
    · split at hstep
      · cases hstep
      · cases hstep; exact hst

/-- **`DeleteById` on B preserves the invariant of the child-declared fks** -/
theorem deleteB_cinv {σ : Schema} {s s' : St} {id : Bytes} (hI : Inv σ s) (hM : CInv σ s)
    (h : deleteB σ s id = .ok s') : CInv σ s' := by
  obtain ⟨hb, s2, hI2, _, hbs2, _, _, hF, hr1, hr2, rfl⟩ := deleteB_succ_ok hI h
  have hidne : id ≠ [] := by
    intro h0; subst h0
    obtain ⟨v, hv⟩ := (Map.contains_iff _ _).1 hb
    rw [hI.nonEmptyB] at hv; cases hv
  have hM2 : CInv σ s2 := deleteB_fold_cinv hM hF
  have hr : ∀ c, childRestrict σ s2 id c = false := fun c => by cases c; exact hr1; exact hr2
  -- nothing refers to `id` through a declared mentor / guard
  have hnoM : ∀ c k e, s2.as.lookup k = some e → evalVal (mentorOf σ c e) ≠ [] → evalVal (mentorOf σ c e) ≠ id := by
    intro c k e he hne hv
    cases hidx : σ.idx c
    · rw [mentorOf_undeclared hidx] at hne; exact hne rfl
    · have hm : k ∈ ((s2.mentees c).lookup id).getD [] := ((hM2.men c) id k).2 ⟨e, he, hv, hidne, fun h => h⟩
      have := hr c
      simp only [childRestrict, hidx, Bool.true_and, Bool.or_eq_false_iff, decide_eq_false_iff_not, ne_eq,
        Classical.not_not] at this
      rw [this.1] at hm; cases hm
  have hnoG : ∀ c k e, s2.as.lookup k = some e → evalVal (guardOf σ c e) ≠ [] → evalVal (guardOf σ c e) ≠ id := by
    intro c k e he hne hv
    have hm : k ∈ referrers s2 (guardOf σ c) id :=
      (mem_referrers s2 _ id k).2 ((isReferrer_iff s2 _ id k).2 ⟨e, he, evalVal_eq_some hv hidne⟩)
    have := hr c
    simp only [childRestrict, Bool.or_eq_false_iff, decide_eq_false_iff_not, ne_eq, Classical.not_not] at this
    rw [this.2] at hm; cases hm
  have hkeep : ∀ t, t ≠ id → s2.bs.contains t = true → (s2.bs.erase id).contains t = true := by
    intro t ht hc
    obtain ⟨v, hv⟩ := (Map.contains_iff _ _).1 hc
    refine (Map.contains_iff _ _).2 ⟨v, ?_⟩
    rw [Map.lookup_erase]; simp only [ht, if_false]; exact hv
  have hmen : ∀ c, St.mentees (St.mk s2.as (s2.bs.erase id) (s2.things.erase id) s2.minions (s2.mentees1.erase id)
      (s2.mentees2.erase id)) c = (s2.mentees c).erase id :=
    fun c => by cases c <;> rfl
  refine ⟨fun c => ?_, fun c k e he hne => ?_, fun c k e he hne => ?_, fun c t ht => ?_⟩
  · rw [hmen c]
    exact (hM2.men c).erase_key (fun k e he _ hne => hnoM c k e he hne)
  · exact hkeep _ (hnoM c k e he hne) (hM2.menT c k e he hne)
  · exact hkeep _ (hnoG c k e he hne) (hM2.guardT c k e he hne)
  · rw [hmen c, Map.lookup_erase] at ht
    by_cases htid : t = id
    · simp [htid] at ht
    · simp only [htid, if_false] at ht; exact hkeep t htid (hM2.menK c t ht)

/-! ### every operation, every transaction, every history: the whole invariant -/

theorem cinv_empty (σ : Schema) : CInv σ {} := by
  refine ⟨fun c => ?_, fun c => ?_, fun c => ?_, fun c t ht => ?_⟩
  · intro t k; cases c <;> simp [St.mentees, Map.lookup]
  · intro k e he; simp [Map.lookup] at he
  · intro k e he; simp [Map.lookup] at he
  · cases c <;> simp [St.mentees, Map.lookup] at ht

/-- `MInv` depends on the schema only through which child store declares which fk -/
theorem mentorOf_withProtect (σ : Schema) (v : Bytes) (c : Child) : mentorOf (σ.withProtect v) c = mentorOf σ c := by
  funext e; cases c <;> rfl

theorem guardOf_withProtect (σ : Schema) (v : Bytes) (c : Child) : guardOf (σ.withProtect v) c = guardOf σ c := by
  funext e; cases c <;> rfl

theorem MInv.withProtect {σ : Schema} {P : Child → Bytes → Prop} {s : St} (v : Bytes) :
    MInv (σ.withProtect v) P s ↔ MInv σ P s := by
  constructor
  · intro h
    exact ⟨fun c => by have := h.men c; rw [mentorOf_withProtect] at this; exact this,
      fun c => by have := h.menT c; rw [mentorOf_withProtect] at this; exact this,
      fun c => by have := h.guardT c; rw [guardOf_withProtect] at this; exact this, h.menK⟩
  · intro h
    exact ⟨fun c => by rw [mentorOf_withProtect]; exact h.men c,
      fun c => by rw [mentorOf_withProtect]; exact h.menT c,
      fun c => by rw [guardOf_withProtect]; exact h.guardT c, h.menK⟩

theorem apply_full {σ : Schema} {s s' : St} (op : Op) (hF : FullInv σ s) (h : apply σ s op = .ok s') : FullInv σ s' := by
  refine ⟨apply_inv op hF.1 h, ?_⟩
  cases op with
  | createB id => exact createB_cinv hF.2 h
  | createA id e => exact createA_cinv hF.1 hF.2 h
  | updateA id e mo mb md => exact updateA_cinv hF.1 hF.2 h
  | deleteA id => exact deleteA_minv σ _ _ [] s id s' hF.2 h
  | deleteB id => exact deleteB_cinv hF.1 hF.2 h
  | createC c id e x => exact createC_cinv hF.1 hF.2 h
  | updateC c id e x mo mb md mt mm mg => exact updateC_cinv hF.1 hF.2 h
  | deleteC id => exact deleteA_minv σ _ _ [] s id s' hF.2 h
  | deleteAV id v =>
    exact (MInv.withProtect v).1 (deleteA_minv (σ.withProtect v) _ _ [] s id s' ((MInv.withProtect v).2 hF.2) h)
  | deleteBV id v =>
    exact (MInv.withProtect v).1 (deleteB_cinv (σ := σ.withProtect v) (hF.1.of_schema rfl) ((MInv.withProtect v).2 hF.2) h)

theorem runTxFrom_full {σ : Schema} {s0 : St} (h0 : FullInv σ s0) :
    ∀ (ops : List Op) (i : Nat) (s : St), FullInv σ s → FullInv σ (runTxFrom σ s0 i s ops).1 := by
  intro ops
  induction ops with
  | nil => intro i s hs; exact hs
  | cons op rest ih =>
    intro i s hs
    unfold runTxFrom
    cases ha : apply σ s op with
    | ok s' => simp only; exact ih (i + 1) s' (apply_full op hs ha)
    | error e => exact h0

theorem runTx_full {σ : Schema} {s : St} (h : FullInv σ s) (ops : List Op) : FullInv σ (runTx σ s ops).1 :=
  runTxFrom_full h ops 0 s h

theorem foldl_full {σ : Schema} (txs : List (List Op)) : ∀ s, FullInv σ s →
    FullInv σ (txs.foldl (fun s tx => (runTx σ s tx).1) s) := by
  induction txs with
  | nil => intro s h; exact h
  | cons tx rest ih => intro s h; exact ih _ (runTx_full h tx)

theorem full_reachable (σ : Schema) (txs : List (List Op)) : FullInv σ (runHistory σ txs) :=
  foldl_full txs {} ⟨inv_empty σ, cinv_empty σ⟩

end StorageModel.C04
