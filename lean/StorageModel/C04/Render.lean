import StorageModel.C04.Model
/-
  C04 — the two observation texts of /verif/harness/c04.go, rendered from a model state
  (driver side only; never used by a proof).

    fine   : the canonicalised `boltz.Traverse` dump (sorted lines, hex fields) below the two entity
             buckets — includes which back-reference buckets exist although empty;
    coarse : surviving ids, stored field values, `GetRelatedEntitiesIdList` of every back-reference field.
-/
namespace StorageModel.C04
open StorageModel

def hexS (s : String) : String := Bytes.toHex (Bytes.ofString s)

def typedHex : FV → String
  | none => "07"
  | some v => "05" ++ Bytes.toHex v

def sortS (l : List String) : List String := l.mergeSort (fun a b => decide (a ≤ b))

def pathA : Bytes := Bytes.ofString "/u/things"
def pathB : Bytes := Bytes.ofString "/u/owners"
def slash : Bytes := Bytes.ofString "/"

def setLines (path : Bytes) (name : String) (set : Option (List Bytes)) : List String :=
  match set with
  | none => []
  | some ks =>
    ("B:" ++ Bytes.toHex path ++ ":" ++ hexS name) ::
      ks.map (fun k => "K:" ++ Bytes.toHex (path ++ slash ++ Bytes.ofString name) ++ ":05" ++ Bytes.toHex k ++ ":")

/-- the stored key of fk field `f` -/
def keyName (nm : Naming) (f : String) : String :=
  match nm with
  | .same => f
  | _ => f ++ "Id"

def extLines (nm : Naming) (p : Bytes) (name : String) : Option Ext → List String
  | none => []
  | some x =>
    let q := p ++ slash ++ Bytes.ofString name
    [ "B:" ++ Bytes.toHex p ++ ":" ++ hexS name,
      "K:" ++ Bytes.toHex q ++ ":" ++ hexS "tag" ++ ":" ++ typedHex x.tag,
      "K:" ++ Bytes.toHex q ++ ":" ++ hexS (keyName nm "mentor") ++ ":" ++ typedHex x.m,
      "K:" ++ Bytes.toHex q ++ ":" ++ hexS (keyName nm "guard") ++ ":" ++ typedHex x.g ]

def fineLines (nm : Naming) (s : St) : List String :=
  (s.as.keys.flatMap fun x =>
    match s.as.lookup x with
    | none => []
    | some e =>
      let p := pathA ++ slash ++ x
      [ "B:" ++ Bytes.toHex pathA ++ ":" ++ Bytes.toHex x,
        "K:" ++ Bytes.toHex p ++ ":" ++ hexS (keyName nm "owner") ++ ":" ++ typedHex e.owner,
        "K:" ++ Bytes.toHex p ++ ":" ++ hexS (keyName nm "boss") ++ ":" ++ typedHex e.boss,
        "K:" ++ Bytes.toHex p ++ ":" ++ hexS (keyName nm "dep") ++ ":" ++ typedHex e.dep ]
      ++ setLines p "minions" (s.minions.lookup x)
      ++ extLines nm p "ext1" e.ext1 ++ extLines nm p "ext2" e.ext2) ++
  (s.bs.keys.flatMap fun b =>
    ("B:" ++ Bytes.toHex pathB ++ ":" ++ Bytes.toHex b) :: (setLines (pathB ++ slash ++ b) "things" (s.things.lookup b)
      ++ setLines (pathB ++ slash ++ b) "mentees1" (s.mentees1.lookup b)
      ++ setLines (pathB ++ slash ++ b) "mentees2" (s.mentees2.lookup b)))

def fineText (nm : Naming) (s : St) : String := "\n".intercalate (sortS (fineLines nm s))

def wireList (l : List Bytes) : String := "[" ++ ",".intercalate ((sortB l).map Bytes.toWire) ++ "]"

def fvWire : FV → String
  | none => "~"
  | some v => Bytes.toWire v

def extWire : Option Ext → String
  | none => "!"
  | some x => fvWire x.tag ++ "/" ++ fvWire x.m ++ "/" ++ fvWire x.g

def coarseLines (s : St) : List String :=
  let aIds := sortB s.as.keys
  let bIds := sortB s.bs.keys
  ["SA:" ++ wireList aIds, "SB:" ++ wireList bIds] ++
  (aIds.filterMap fun x => (s.as.lookup x).map fun e =>
    "A:" ++ Bytes.toWire x ++ ":" ++ fvWire e.owner ++ ":" ++ fvWire e.boss ++ ":" ++ fvWire e.dep ++ ":" ++
      wireList ((s.minions.lookup x).getD []) ++ ":" ++ extWire e.ext1 ++ ":" ++ extWire e.ext2) ++
  (bIds.map fun b => "B:" ++ Bytes.toWire b ++ ":" ++ wireList ((s.things.lookup b).getD []) ++ ":" ++
    wireList ((s.mentees1.lookup b).getD []) ++ ":" ++ wireList ((s.mentees2.lookup b).getD []))

def coarseText (s : St) : String := "\n".intercalate (coarseLines s)

def fnv64 (s : String) : UInt64 :=
  s.toUTF8.foldl (fun h b => (h ^^^ b.toUInt64) * 1099511628211) 14695981039346656037

def hex16 (x : UInt64) : String :=
  String.ofList ((List.range 16).map fun i => Bytes.hexDigit ((x >>> (UInt64.ofNat (60 - 4 * i))).toNat % 16))

def errName : Err → String
  | .notFound => "notfound"
  | .refExists => "refexists"
  | .nullNotAllowed => "null-not-allowed"
  | .other => "other"
  | .diverge => "diverge"
  | .veto => "veto"

def resToken : Option (Nat × Err) → String
  | none => "ok"
  | some (i, e) => toString i ++ ":" ++ errName e

end StorageModel.C04
