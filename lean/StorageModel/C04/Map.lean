import StorageModel.Base.Bytes
/-
  C04: association-list maps keyed by byte strings (a bbolt bucket is a finite map; everything is
  phrased through `lookup`) and byte-string sets (the keys of a back-reference bucket).
  Key order is not part of the state: wherever the Go code observes bucket order (cursor walks,
  dumps) the model sorts explicitly (`sortB`).
-/
namespace StorageModel.C04
open StorageModel

abbrev Map (V : Type) := List (Bytes × V)

namespace Map
variable {V : Type}

def lookup : Map V → Bytes → Option V
  | [], _ => none
  | (k', v) :: t, k => if k' = k then some v else lookup t k

def erase (m : Map V) (k : Bytes) : Map V := m.filter (fun p => decide (p.1 ≠ k))

def insert (m : Map V) (k : Bytes) (v : V) : Map V := (k, v) :: erase m k

def keys (m : Map V) : List Bytes := m.map (·.1)

def contains (m : Map V) (k : Bytes) : Bool := (lookup m k).isSome

@[simp] theorem lookup_nil (k : Bytes) : lookup ([] : Map V) k = none := rfl

@[simp] theorem lookup_erase (m : Map V) (k k' : Bytes) :
    lookup (erase m k) k' = if k' = k then none else lookup m k' := by
  induction m with
  | nil => simp [erase, lookup]
  | cons p t ih =>
    obtain ⟨a, b⟩ := p
    simp only [erase, List.filter] at ih ⊢
    by_cases h : a = k
    · subst h
      simp only [ne_eq, not_true_eq_false, decide_false]
      rw [ih]
      by_cases h2 : k' = a
      · simp [h2]
      · have : ¬ a = k' := fun e => h2 e.symm
        simp [lookup, h2, this]
    · simp only [ne_eq, h, not_false_eq_true, decide_true, lookup]
      rw [ih]
      by_cases h2 : k' = k
      · subst h2; simp [h]
      · simp [h2]

@[simp] theorem lookup_insert (m : Map V) (k k' : Bytes) (v : V) :
    lookup (insert m k v) k' = if k' = k then some v else lookup m k' := by
  by_cases h : k' = k
  · subst h; simp [insert, lookup]
  · have : ¬ k = k' := fun e => h e.symm
    simp [insert, lookup, this, h]

theorem mem_keys_iff (m : Map V) (k : Bytes) : k ∈ keys m ↔ (lookup m k).isSome = true := by
  induction m with
  | nil => simp [keys, lookup]
  | cons p t ih =>
    obtain ⟨a, b⟩ := p
    by_cases h : a = k
    · simp [keys, lookup, h]
    · have h' : ¬ k = a := fun e => h e.symm
      simp only [keys, List.map_cons, List.mem_cons, lookup, h, if_false, h', false_or] at ih ⊢
      exact ih

@[simp] theorem contains_iff (m : Map V) (k : Bytes) : contains m k = true ↔ ∃ v, lookup m k = some v := by
  simp [contains, Option.isSome_iff_exists]

end Map

/-! ### byte order (`bytes.Compare`) and sorting — only the *membership* of a sorted list is ever
    used by a theorem; the order matters for which referrer a cursor visits first. -/

def bytesLe : Bytes → Bytes → Bool
  | [], _ => true
  | _ :: _, [] => false
  | a :: as, b :: bs => if a < b then true else if b < a then false else bytesLe as bs

/-- insertion sort (structural, so that closed examples evaluate in the kernel) -/
def insertB (a : Bytes) : List Bytes → List Bytes
  | [] => [a]
  | x :: t => if bytesLe a x then a :: x :: t else x :: insertB a t

def sortB (l : List Bytes) : List Bytes := l.foldr insertB []

@[simp] theorem mem_insertB (a x : Bytes) (l : List Bytes) : x ∈ insertB a l ↔ x = a ∨ x ∈ l := by
  induction l with
  | nil => simp [insertB]
  | cons y t ih =>
    unfold insertB
    split
    · simp
    · simp only [List.mem_cons, ih]
      constructor
      · rintro (h | h | h) <;> simp [h]
      · rintro (h | h | h) <;> simp [h]

@[simp] theorem mem_sortB (x : Bytes) (l : List Bytes) : x ∈ sortB l ↔ x ∈ l := by
  induction l with
  | nil => simp [sortB]
  | cons y t ih =>
    have : sortB (y :: t) = insertB y (sortB t) := rfl
    rw [this, mem_insertB, ih]; simp

/-- `SetListEntry`: put a key into a set bucket -/
def setIns (a : Bytes) (l : List Bytes) : List Bytes := if a ∈ l then l else a :: l

/-- `DeleteListEntry`: delete a key from a set bucket (absent key: no error, as in bbolt) -/
def setDel (a : Bytes) (l : List Bytes) : List Bytes := l.filter (fun x => decide (x ≠ a))

@[simp] theorem mem_setIns (a x : Bytes) (l : List Bytes) : x ∈ setIns a l ↔ x = a ∨ x ∈ l := by
  unfold setIns
  split
  · next h => constructor
              · intro hx; exact Or.inr hx
              · rintro (rfl | hx); exact h; exact hx
  · simp

@[simp] theorem mem_setDel (a x : Bytes) (l : List Bytes) : x ∈ setDel a l ↔ x ≠ a ∧ x ∈ l := by
  simp [setDel, and_comm]

end StorageModel.C04
