import StorageModel.C04.Model
/-
  C04 — the route the referrer lookup took *before* commit 7aca2fc, kept as documentation of why the
  fix was needed:

      filter, err := ast.Parse(store, fmt.Sprintf(`%v = "%v"`, symbol, id))

  i.e. the id travelled through the filter language.  This is a tiny model of that trip: the text is
  built by plain concatenation, lexed with the STRING / IDENTIFIER / EQ / OR / AND token rules of
  ZitiQl.g4, parsed as `cmp ((or|and) cmp)*`, string literals unescaped as `ParseZqlString` does,
  and evaluated against every row.  `none` = the parse error the Go code returned to the caller.
-/
namespace StorageModel.C04.OldRoute
open StorageModel StorageModel.C04

def DQ : UInt8 := 34
def BS : UInt8 := 92

/-- `fmt.Sprintf("%v = \"%v\"", name, id)` -/
def filterText (name id : Bytes) : Bytes := name ++ [32, 61, 32, DQ] ++ id ++ [DQ]

inductive Tok
  | ident (s : Bytes)
  | eq | ne | or | and
  | str (raw : Bytes)
deriving DecidableEq, Repr

def isLetter (c : UInt8) : Bool := (65 ≤ c && c ≤ 90) || (97 ≤ c && c ≤ 122)
def isIdentRest (c : UInt8) : Bool := isLetter c || c == 95 || c == 46 || c == 45
def isWs (c : UInt8) : Bool := c == 32 || c == 10 || c == 9 || c == 13

/-- after the opening quote: (raw body, rest after the closing quote); `none` = no STRING token here.
    `ESC: '\\' ["\\fnrt]`, `SAFECODEPOINT: ~["\\\u0000-\u001F]` -/
def lexStrAux : Bool → Bytes → Option (Bytes × Bytes)
  | _, [] => none
  | true, d :: rest =>
    if d = DQ ∨ d = BS ∨ d = 102 ∨ d = 110 ∨ d = 114 ∨ d = 116 then
      (lexStrAux false rest).map fun p => (d :: p.1, p.2)
    else none
  | false, c :: rest =>
    if c = DQ then some ([], rest)
    else if c = BS then (lexStrAux true rest).map fun p => (c :: p.1, p.2)
    else if c < 32 then none
    else (lexStrAux false rest).map fun p => (c :: p.1, p.2)

def lexStr (l : Bytes) : Option (Bytes × Bytes) := lexStrAux false l

def lower (c : UInt8) : UInt8 := if 65 ≤ c ∧ c ≤ 90 then c + 32 else c

def keyword (w : Bytes) : Tok :=
  let l := w.map lower
  if l = [111, 114] then .or else if l = [97, 110, 100] then .and else .ident w

def lex : Nat → Bytes → Option (List Tok)
  | 0, _ => none
  | _ + 1, [] => some []
  | n + 1, c :: rest =>
    if isWs c then lex n rest
    else if c = 61 then (lex n rest).map (Tok.eq :: ·)
    else if c = 33 then
      match rest with
      | 61 :: rest' => (lex n rest').map (Tok.ne :: ·)
      | _ => none
    else if c = DQ then
      match lexStr rest with
      | some (raw, rest') => (lex n rest').map (Tok.str raw :: ·)
      | none => none
    else if isLetter c then
      let w := c :: rest.takeWhile isIdentRest
      (lex n (rest.dropWhile isIdentRest)).map (keyword w :: ·)
    else none

/-- `ParseZqlString` on the body of a literal (single left-to-right pass) -/
def unescape : Bytes → Bytes
  | [] => []
  | [c] => [c]
  | c :: d :: rest =>
    if c = BS then
      (if d = 110 then 10 else if d = 116 then 9 else if d = 114 then 13 else if d = 102 then 12 else d) :: unescape rest
    else c :: unescape (d :: rest)

inductive Cmp
  | mk (sym : Bytes) (negated : Bool) (lit : Bytes)
deriving DecidableEq, Repr

inductive Q
  | cmp (c : Cmp)
  | or (a : Q) (b : Q)
  | and (a : Q) (b : Q)
deriving Repr

/-- `cmp ((or|and) cmp)*`, right-nested (the grammar's shape; precedence is irrelevant here) -/
def parse : List Tok → Option Q
  | [.ident s, .eq, .str raw] => some (.cmp (.mk s false (unescape raw)))
  | [.ident s, .ne, .str raw] => some (.cmp (.mk s true (unescape raw)))
  | .ident s :: .eq :: .str raw :: .or :: rest => (parse rest).map (Q.or (.cmp (.mk s false (unescape raw))))
  | .ident s :: .ne :: .str raw :: .or :: rest => (parse rest).map (Q.or (.cmp (.mk s true (unescape raw))))
  | .ident s :: .eq :: .str raw :: .and :: rest => (parse rest).map (Q.and (.cmp (.mk s false (unescape raw))))
  | .ident s :: .ne :: .str raw :: .and :: rest => (parse rest).map (Q.and (.cmp (.mk s true (unescape raw))))
  | _ => none

def symId : Bytes := [105, 100]
def symOwner : Bytes := [111, 119, 110, 101, 114]
def symBoss : Bytes := [98, 111, 115, 115]
def symDep : Bytes := [100, 101, 112]

/-- the symbols of store A as the filter sees them; `none` = unknown symbol (a parse-time error) -/
def symbol (name : Bytes) (id : Bytes) (e : EntA) : Option FV :=
  if name = symId then some (some id)
  else if name = symOwner then some e.owner
  else if name = symBoss then some e.boss
  else if name = symDep then some e.dep
  else none

def knownSymbols : Q → Bool
  | .cmp (.mk s _ _) => (symbol s [] { owner := none, boss := none, dep := none }).isSome
  | .or a b => knownSymbols a && knownSymbols b
  | .and a b => knownSymbols a && knownSymbols b

/-- string `=` / `!=` with the null rules of the filter language -/
def evalQ (id : Bytes) (e : EntA) : Q → Bool
  | .cmp (.mk s neg lit) =>
    match symbol s id e with
    | some (some v) => if neg then v != lit else v == lit
    | some none => neg
    | none => false
  | .or a b => evalQ id e a || evalQ id e b
  | .and a b => evalQ id e a && evalQ id e b

/-- the old referrer lookup: ids of the rows matching the *parsed text* (in table order) -/
def referrersViaFilter (as : Map EntA) (name id : Bytes) : Option (List Bytes) :=
  let text := filterText name id
  match (lex (text.length + 1) text).bind parse with
  | some q =>
    if knownSymbols q then
      some (as.keys.filter fun k => match as.lookup k with
        | some e => evalQ k e q
        | none => false)
    else none
  | none => none

end StorageModel.C04.OldRoute
