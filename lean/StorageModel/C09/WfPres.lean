import StorageModel.C09.Idem
/-
  C09 — a fix run keeps the state well-formed (distinct keys in every bucket, distinct elements in
  every list), so that the completeness theorem applies to the repaired state.
-/
namespace StorageModel.C09
open StorageModel

/-- `St.WF` phrased through the readers -/
structure St.WF' (s : St) : Prop where
  ids : ∀ st, (s.ids st).Nodup
  uniq : ∀ st f, NodupKeys (s.uniq st f)
  uniqKey : ∀ st f kv, kv ∈ s.uniq st f → kv.1 ≠ []
  setx : ∀ st f, NodupKeys (s.setx st f)
  idsNodup : ∀ st f kv l, kv ∈ s.setx st f → kv.2 = .ids l → l.Nodup
  sets : ∀ st id f, (s.setOf st id f).Nodup

theorem wf'_of_wf {s : St} (h : s.WF) : s.WF' := by
  refine ⟨fun st => h.ents st, h.uniq, h.uniqKey, h.setx, h.idsNodup, ?_⟩
  intro st id f
  unfold St.setOf
  cases he : s.ent st id with
  | none => exact List.nodup_nil
  | some e => exact h.sets st (id, e) f (mem_of_ent he)

theorem wf_of_wf' {s : St} (h : s.WF') : s.WF := by
  refine ⟨fun st => h.ids st, h.uniq, h.setx, h.uniqKey, ?_, h.idsNodup⟩
  intro st p f hp
  have : s.ent st p.1 = some p.2 := get_of_mem_nodup (h.ids st) hp
  have hs := h.sets st p.1 f
  unfold St.setOf at hs
  rw [this] at hs
  exact hs

def SetsNodup (x : St) : Prop := ∀ st id f, (x.setOf st id f).Nodup

theorem setsNodup_del {x : St} (h : SetsNodup x) (st : Name) (id : Id) (f : Name) (y : Bytes) :
    SetsNodup (x.delFromSet st id f y) := by
  intro st' id' f'
  rw [delFromSet_setOf]
  split
  · exact nodup_sdel (h ..)
  · exact h ..

theorem setsNodup_add {x : St} (h : SetsNodup x) (st : Name) (id : Id) (f : Name) (y : Bytes) :
    SetsNodup (x.addToSet st id f y) := by
  intro st' id' f'
  rw [addToSet_setOf]
  split
  · exact nodup_sins (h ..)
  · exact h ..

theorem setsNodup_nil {x : St} (h : SetsNodup x) (st : Name) (id : Id) (f : Name) :
    SetsNodup (x.modEnt st id fun e => e.setField f .nil) := by
  intro st' id' f'
  rw [setNil_setOf]; exact h ..

theorem setsNodup_of_ents {x y : St} (he : y.ents = x.ents) (h : SetsNodup x) : SetsNodup y := by
  intro st id f; rw [setOf_congr he]; exact h ..

/-! ### per procedure -/

theorem link_setsNodup (st f oSt oF : Name) (hasInv : Bool) (s : St) (h : SetsNodup s) :
    SetsNodup (linkCheck st f oSt oF hasInv true s).1 := by
  show SetsNodup (runSteps (lkStep st f oSt oF true) (s.ids st) s).1
  apply runSteps_inv _ SetsNodup _ _ _ h
  intro x a hx
  have hloop : SetsNodup (runSteps (lkInner st f oSt oF true a) (x.setOf st a f) x).1 := by
    apply runSteps_inv _ SetsNodup _ _ _ hx
    intro y b hy
    rw [lkInner_true_fst]
    split
    · exact setsNodup_add hy _ _ _ _
    · exact hy
  have hrm : ∀ (D : List Id) (y : St), SetsNodup y → SetsNodup (lkRemoveAll st f a D y) := by
    intro D
    unfold lkRemoveAll
    induction D with
    | nil => intro y hy; exact hy
    | cons c t ih => intro y hy; rw [List.foldl_cons]; exact ih _ (setsNodup_del hy _ _ _ _)
  unfold lkStep
  simp only [if_true]
  exact hrm _ _ hloop

theorem fkCons_setsNodup (st f : Name) (n : Bool) (linked : Name) (s : St) (h : SetsNodup s) :
    SetsNodup (fkConsCheck st f n linked true s).1 := by
  show SetsNodup (runSteps (fcStep st f n linked true) (s.ids st) s).1
  apply runSteps_inv _ SetsNodup _ _ _ h
  intro x a hx
  rw [fcStep_true_fst]
  split
  · exact setsNodup_nil hx _ _ _
  · exact hx

theorem fkIndex_setsNodup (st f : Name) (n : Bool) (fkSt fkF : Name) (s : St) (h : SetsNodup s) :
    SetsNodup (fkIndexCheck st f n fkSt fkF true s).1 := by
  show SetsNodup (runSteps (fkStep2 st f n fkSt fkF true) _ (runSteps (fkStep1 st f fkSt fkF true) (s.ids fkSt) s).1).1
  apply runSteps_inv _ SetsNodup
  · intro x a hx
    rw [fkStep2_true_fst]
    split
    · exact hx
    · split
      · split
        · exact setsNodup_nil hx _ _ _
        · exact hx
      · split
        · exact hx
        · exact setsNodup_add hx _ _ _ _
  · apply runSteps_inv _ SetsNodup _ _ _ h
    intro x a hx
    unfold fkStep1
    apply runSteps_inv _ SetsNodup _ _ _ hx
    intro y b hy
    rw [fkInner1_true_fst]
    split
    · exact hy
    · exact setsNodup_del hy _ _ _ _

/-- unique-index bucket: distinct, non-empty keys -/
def UniqOk (x : St) (st f : Name) : Prop := NodupKeys (x.uniq st f) ∧ ∀ kv ∈ x.uniq st f, kv.1 ≠ []

theorem unique_uniqOk (st f : Name) (n : Bool) (s : St) (h : UniqOk s st f) :
    UniqOk (uniqueCheck st f n true s).1 st f := by
  show UniqOk (runSteps (uqStep2 st f n true) _ (runSteps (uqStep1 st f true) (s.uniq st f) s).1).1 st f
  apply runSteps_inv _ (fun x => UniqOk x st f)
  · intro x a ⟨h1, h2⟩
    cases hT : x.evalT st a f with
    | nil => rw [uqStep2_true_nil hT]; exact ⟨h1, h2⟩
    | str v =>
      rw [uqStep2_true_str hT]
      split
      · unfold uqRepair
        split
        · exact ⟨h1, h2⟩
        · next hv =>
          rw [UniqOk, setUniq_uniq_self]
          refine ⟨nodupKeys_put h1, fun kv hkv => ?_⟩
          rcases mem_put_sub hkv with rfl | hkv
          · exact hv
          · exact h2 kv hkv
      · exact ⟨h1, h2⟩
  · apply runSteps_inv _ (fun x => UniqOk x st f) _ _ _ h
    intro x a ⟨h1, h2⟩
    rw [uqStep1_true_fst]
    split
    · exact ⟨h1, h2⟩
    · rw [UniqOk, setUniq_uniq_self]
      exact ⟨nodupKeys_del h1, fun kv hkv => h2 kv (mem_del.1 hkv).1⟩

/-- set-index bucket: the id lists of its value buckets have distinct elements -/
def IdsOk (x : St) (st f : Name) : Prop := ∀ kv l, kv ∈ x.setx st f → kv.2 = SVal.ids l → l.Nodup

theorem idsOk_put {x : St} {st f : Name} (h : IdsOk x st f) (k : Bytes) (l : List Id) (hl : l.Nodup) :
    IdsOk (x.setSetx st f (put k (.ids l) (x.setx st f))) st f := by
  intro kv l' hkv hl'
  rw [setSetx_self] at hkv
  rcases mem_put_sub hkv with rfl | hkv
  · cases hl'; exact hl
  · exact h kv l' hkv hl'

theorem idsOk_del {x : St} {st f : Name} (h : IdsOk x st f) (k : Bytes) :
    IdsOk (x.setSetx st f (del k (x.setx st f))) st f := by
  intro kv l' hkv hl'
  rw [setSetx_self] at hkv
  exact h kv l' (mem_del.1 hkv).1 hl'

theorem set_idsOk (st f : Name) (s : St) (h : IdsOk s st f) : IdsOk (setCheck st f true s).1 st f := by
  show IdsOk (runSteps (sxStep2 st f true) _
    (sxDeleteKeys st f (sxToDelete st f true s (s.setx st f)) (runSteps (sxStep1 st f true) (s.setx st f) s).1)).1 st f
  apply runSteps_inv _ (fun x => IdsOk x st f)
  · intro x a hx
    unfold sxStep2
    apply runSteps_inv _ (fun y => IdsOk y st f) _ _ _ hx
    intro y v hy
    rw [sxStep2Val_true_fst]
    split
    · exact hy
    · unfold St.addIdx
      split
      · next l hg => exact idsOk_put hy _ _ (nodup_sins (hy _ l (get_some_mem hg) rfl))
      · exact idsOk_put hy _ _ (List.nodup_cons.2 ⟨List.not_mem_nil, List.nodup_nil⟩)
  · -- deleting keys, after the first loop
    have h1 : IdsOk (runSteps (sxStep1 st f true) (s.setx st f) s).1 st f := by
      apply runSteps_inv _ (fun x => IdsOk x st f) _ _ _ h
      intro x kv hx
      rw [sxStep1_true_fst]
      cases kv.2 with
      | junk => exact idsOk_del hx _
      | ids l =>
        simp only
        apply runSteps_inv _ (fun y => IdsOk y st f) _ _ _ hx
        intro y id hy
        rw [sxInner_true_fst]
        split
        · exact hy
        · unfold St.delIdx
          split
          · next l' hg => exact idsOk_put hy _ _ (nodup_sdel (hy _ l' (get_some_mem hg) rfl))
          · exact hy
    generalize sxToDelete st f true s (s.setx st f) = keys
    generalize (runSteps (sxStep1 st f true) (s.setx st f) s).1 = x at h1
    unfold sxDeleteKeys
    induction keys generalizing x with
    | nil => exact h1
    | cons k t ih => rw [List.foldl_cons]; exact ih _ (idsOk_del h1 k)

/-! ### assembling -/

theorem CUnit.wf'_preserved (u : CUnit) (s : St) (hw : u.Wf) (hp : u.Pre s) (h : s.WF') : (u.run true s).1.WF' := by
  have hfr := u.frame s hw hp
  have hsets : SetsNodup s := h.sets
  cases u with
  | link lc hi =>
    have hs := link_setsNodup lc.st lc.f lc.oSt lc.oF hi s hsets
    refine ⟨fun st => by rw [hfr.ids]; exact h.ids st, ?_, ?_, ?_, ?_, hs⟩
    · intro st f; rw [hfr.uniq st f (by simp [CUnit.writes])]; exact h.uniq st f
    · intro st f; rw [hfr.uniq st f (by simp [CUnit.writes])]; exact h.uniqKey st f
    · intro st f; rw [hfr.setx st f (by simp [CUnit.writes])]; exact h.setx st f
    · intro st f; rw [hfr.setx st f (by simp [CUnit.writes])]; exact h.idsNodup st f
  | cons c =>
    cases c with
    | unique st f n =>
      obtain ⟨e1, e2, e3, _⟩ := unique_fix_post st f n s
      obtain ⟨u1, u2⟩ := unique_uniqOk st f n s ⟨h.uniq st f, h.uniqKey st f⟩
      refine ⟨fun st' => by rw [hfr.ids]; exact h.ids st', ?_, ?_, ?_, ?_, setsNodup_of_ents e1 hsets⟩
      · intro st' f'
        by_cases hc : st' = st ∧ f' = f
        · rw [hc.1, hc.2]; exact u1
        · show NodupKeys ((uniqueCheck st f n true s).1.uniq st' f')
          rw [e3 st' f' hc]; exact h.uniq st' f'
      · intro st' f'
        by_cases hc : st' = st ∧ f' = f
        · rw [hc.1, hc.2]; exact u2
        · show ∀ kv ∈ (uniqueCheck st f n true s).1.uniq st' f', _
          rw [e3 st' f' hc]; exact h.uniqKey st' f'
      · intro st' f'; show NodupKeys ((uniqueCheck st f n true s).1.setx st' f'); rw [e2]; exact h.setx st' f'
      · intro st' f'; show ∀ kv l, kv ∈ (uniqueCheck st f n true s).1.setx st' f' → _; rw [e2]; exact h.idsNodup st' f'
    | setIdx st f =>
      obtain ⟨e1, e2, e3, _⟩ := set_fix_post st f s hp
      have hi := set_idsOk st f s (h.idsNodup st f)
      refine ⟨fun st' => by rw [hfr.ids]; exact h.ids st', ?_, ?_, ?_, ?_, setsNodup_of_ents e1 hsets⟩
      · intro st' f'; rw [hfr.uniq st' f' (by simp [CUnit.writes])]; exact h.uniq st' f'
      · intro st' f'; rw [hfr.uniq st' f' (by simp [CUnit.writes])]; exact h.uniqKey st' f'
      · intro st' f'
        by_cases hc : Loc.setx st' f' ∈ [Loc.setx st f]
        · simp only [List.mem_singleton, Loc.setx.injEq] at hc
          rw [hc.1, hc.2]; exact e3
        · rw [hfr.setx st' f' hc]; exact h.setx st' f'
      · intro st' f'
        by_cases hc : Loc.setx st' f' ∈ [Loc.setx st f]
        · simp only [List.mem_singleton, Loc.setx.injEq] at hc
          rw [hc.1, hc.2]; exact hi
        · rw [hfr.setx st' f' hc]; exact h.idsNodup st' f'
    | fkIndex st f n fkSt fkF =>
      have hs := fkIndex_setsNodup st f n fkSt fkF s hsets
      refine ⟨fun st' => by rw [hfr.ids]; exact h.ids st', ?_, ?_, ?_, ?_, hs⟩
      · intro st' f'; rw [hfr.uniq st' f' (by simp [CUnit.writes])]; exact h.uniq st' f'
      · intro st' f'; rw [hfr.uniq st' f' (by simp [CUnit.writes])]; exact h.uniqKey st' f'
      · intro st' f'; rw [hfr.setx st' f' (by simp [CUnit.writes])]; exact h.setx st' f'
      · intro st' f'; rw [hfr.setx st' f' (by simp [CUnit.writes])]; exact h.idsNodup st' f'
    | fkCons st f n linked =>
      have hs := fkCons_setsNodup st f n linked s hsets
      refine ⟨fun st' => by rw [hfr.ids]; exact h.ids st', ?_, ?_, ?_, ?_, hs⟩
      · intro st' f'; rw [hfr.uniq st' f' (by simp [CUnit.writes])]; exact h.uniq st' f'
      · intro st' f'; rw [hfr.uniq st' f' (by simp [CUnit.writes])]; exact h.uniqKey st' f'
      · intro st' f'; rw [hfr.setx st' f' (by simp [CUnit.writes])]; exact h.setx st' f'
      · intro st' f'; rw [hfr.setx st' f' (by simp [CUnit.writes])]; exact h.idsNodup st' f'
    | noop => exact h

theorem units_wf' (us : List CUnit) (hok : us.Pairwise CUnit.Compat) (hwf : ∀ u ∈ us, u.Wf) (s : St)
    (hpre : ∀ u ∈ us, u.Pre s) (h : s.WF') : (seqAll (us.map (CUnit.run true)) s).1.WF' := by
  induction us generalizing s with
  | nil => exact h
  | cons u t ih =>
    obtain ⟨hut, htt⟩ := List.pairwise_cons.1 hok
    have hwu : u.Wf := hwf u (List.mem_cons_self ..)
    have hpu : u.Pre s := hpre u (List.mem_cons_self ..)
    simp only [List.map_cons, seqAll_cons, seq_fst]
    exact ih htt (fun v hv => hwf v (List.mem_cons_of_mem _ hv)) _
      (fun v hv => u.compat_pre v hwu (hut v hv) s hpu (hpre v (List.mem_cons_of_mem _ hv)))
      (u.wf'_preserved s hwu hpu h)

/-- **a fix run keeps the state well-formed** -/
theorem checkAll_fix_wf (S : Schema) (hS : SchemaOk S) (s : St) (hwf : s.WF) :
    (checkAll S true s).1.WF := by
  rw [checkAll_units]
  exact wf_of_wf' (units_wf' S.units hS.1 hS.2 s (pre_of_wf hwf) (wf'_of_wf hwf))

end StorageModel.C09
