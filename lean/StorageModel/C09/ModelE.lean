import StorageModel.C09.Model
/-
  C09 — the checker WITH its failure branches.

  `Model.lean` follows the `CheckIntegrity` functions on the paths on which they return `nil`.  The
  code has more exits: every repairing write can fail, and a failure makes `CheckIntegrity` return
  the error at once — the remaining constraints of the store are not visited and the caller's
  transaction is rolled back, so that NONE of the repairs of the run survives.  This file models
  those exits where they depend on the STATE of the database (and not merely on bbolt refusing a
  write in a read-only or closed transaction):

    uniqueIndex.processIntegrityFix → ProcessAfterUpdate
        `indexBucket.Get(newValue) != nil`  → `UniqueIndexDuplicateError`
        `len(newValue) == 0 && !nullable`   → "does not allow null or empty values"
    setIndex.CheckIntegrity, second pass, fix mode
        `getIndexBucket(tx, value)` = `GetOrCreateBucket(value)`: a plain key of that name makes
        `CreateBucketIfNotExists` fail; the `ErrBucket` that comes back holds a nil `*bbolt.Bucket`
        and the `IsKeyPresent` that follows dereferences it → panic
    fkIndex.CheckIntegrity, second pass, fix mode
        `getIndexBucket(tx, key)`: `NotFoundError` when the referenced entity has no bucket
    linkCollectionImpl.CheckIntegrity, fix mode
        `otherField.AddLink(tx, linkId, id)`: `NotFoundError` when `linkId` has no entity bucket
        `collection.RemoveLink(tx, id, linkId)` → `getFieldBucket(tx, id)`: error bucket when `id`
        has no entity bucket

  `Errors.lean` proves that none of them is reachable: for EVERY schema, mode and state — however
  many corruptions it carries and wherever they are — `checkAllE S fix s = .ok` of what the
  error-free model computes (`checkAllE_ok`).  The driver runs `checkAllE`, so the correspondence
  harness compares the error outcome too.
-/
namespace StorageModel.C09
open StorageModel

/-- why a run stops early -/
inductive Fail
  /-- `UniqueIndexDuplicateError` out of `processIntegrityFix` -/
  | dupValue
  /-- "index on … does not allow null or empty values" out of `processIntegrityFix` -/
  | nullValue
  /-- `NotFoundError` / error bucket: the entity bucket a repair wants to write into is missing -/
  | notFound
  /-- nil `*bbolt.Bucket` dereferenced (a Go panic, not an error return) -/
  | nilBucket
  deriving DecidableEq, Repr

/-- outcome of (a part of) a `CheckIntegrity` run: the state reached and the reports handed to the
    sink, or the failure together with the reports handed to the sink before it -/
inductive Out
  | ok (s : St) (reports : List Report)
  | fail (e : Fail) (reports : List Report)

instance : Inhabited Out := ⟨.fail .nilBucket []⟩

def Out.ofPair (r : St × List Report) : Out := .ok r.1 r.2

def Out.reports : Out → List Report
  | .ok _ rs => rs
  | .fail _ rs => rs

def Out.failed : Out → Bool
  | .ok .. => false
  | .fail .. => true

/-- the sink already holds `rs` -/
def Out.prepend (rs : List Report) : Out → Out
  | .ok s r => .ok s (rs ++ r)
  | .fail e r => .fail e (rs ++ r)

/-- `if err := …; err != nil { return err }` -/
def Out.bind (o : Out) (k : St → Out) : Out :=
  match o with
  | .ok s rs => (k s).prepend rs
  | .fail e rs => .fail e rs

abbrev ProcE := St → Out

/-- a cursor loop whose body may return an error -/
def runStepsE {α : Type} (step : St → α → Out) : List α → ProcE
  | [], s => .ok s []
  | a :: as, s => (step s a).bind (runStepsE step as)

def ProcE.seq (p q : ProcE) : ProcE := fun s => (p s).bind q

def seqAllE : List ProcE → ProcE
  | [] => fun s => .ok s []
  | p :: ps => p.seq (seqAllE ps)

/-! ### uniqueIndex -/

/-- `processIntegrityFix(ctx)` for row `id`: `ProcessAfterUpdate` with a fresh error holder, empty
    `AtomStates` (`oldValue = nil`) and `IsCreate = false`, statement by statement -/
def uqFixE (st f : Name) (nullable : Bool) (s : St) (id : Id) : Except Fail St :=
  let newValue := s.evalB st id f
  -- `!ctx.IsCreate && bytes.Equal(oldValue, newValue)`: nil equals exactly the empty value
  if newValue = [] then .ok s
  -- `len(oldValue) > 0` is false: nothing to delete
  else if newValue ≠ [] then
    -- `indexBucket.Get(newValue) != nil`
    if (get newValue (s.uniq st f)).isSome then .error .dupValue
    else .ok (s.setUniq st f (put newValue id (s.uniq st f)))
  else if !nullable then .error .nullValue
  else .ok s

/-- body of the second loop of `uniqueIndex.CheckIntegrity` with the `return err` after
    `processIntegrityFix` (the report is only sunk when the repair succeeded) -/
def uqStep2E (st f : Name) (nullable fix : Bool) (s : St) (id : Id) : Out :=
  match s.evalT st id f with
  | .nil => .ok s (if nullable then [] else [⟨st, f, .uqNull id, false⟩])
  | .str fv =>
    if fv = [] then .ok s (if nullable then [] else [⟨st, f, .uqNull id, false⟩])
    else
      match readU s st f fv with
      | none =>
        if fix then
          match uqFixE st f nullable s id with
          | .ok s' => .ok s' [⟨st, f, .uqMissing fv id, true⟩]
          | .error e => .fail e []
        else .ok s [⟨st, f, .uqMissing fv id, false⟩]
      | some idxId => if idxId = id then .ok s [] else .ok s [⟨st, f, .uqDup fv idxId id, false⟩]

def uniqueCheckE (st f : Name) (nullable fix : Bool) : ProcE :=
  ProcE.seq (fun s => Out.ofPair (runSteps (uqStep1 st f fix) (s.uniq st f) s))
    (fun s => runStepsE (uqStep2E st f nullable fix) (s.ids st) s)

/-! ### setIndex -/

/-- second pass, one value of one entity: in fix mode the creating `getIndexBucket` comes first and
    cannot create a bucket over a plain key -/
def sxStep2ValE (st f : Name) (fix : Bool) (id : Id) (s : St) (val : Bytes) : Out :=
  if fix ∧ get val (s.setx st f) = some .junk then .fail .nilBucket []
  else Out.ofPair (sxStep2Val st f fix id s val)

def sxStep2E (st f : Name) (fix : Bool) (s : St) (id : Id) : Out :=
  runStepsE (sxStep2ValE st f fix id) (s.setOf st id f) s

def setCheckE (st f : Name) (fix : Bool) : ProcE :=
  ProcE.seq (fun s =>
      let r := runSteps (sxStep1 st f fix) (s.setx st f) s
      .ok (sxDeleteKeys st f (sxToDelete st f fix s (s.setx st f)) r.1) r.2)
    (fun s => runStepsE (sxStep2E st f fix) (s.ids st) s)

/-! ### fkIndex -/

/-- second pass: the repair of a missing back-reference goes through the creating
    `getIndexBucket(tx, key)`, which fails when the referenced entity has no bucket -/
def fkStep2E (st f : Name) (nullable : Bool) (fkSt fkF : Name) (fix : Bool) (s : St) (id : Id) : Out :=
  if s.evalB st id f = [] then Out.ofPair (fkStep2 st f nullable fkSt fkF fix s id)
  else if !s.present fkSt (s.evalB st id f) then Out.ofPair (fkStep2 st f nullable fkSt fkF fix s id)
  else if s.hasBack fkSt (s.evalB st id f) fkF id then Out.ofPair (fkStep2 st f nullable fkSt fkF fix s id)
  else if fix ∧ !s.present fkSt (s.evalB st id f) then .fail .notFound []
  else Out.ofPair (fkStep2 st f nullable fkSt fkF fix s id)

def fkIndexCheckE (st f : Name) (nullable : Bool) (fkSt fkF : Name) (fix : Bool) : ProcE :=
  ProcE.seq (fun s => Out.ofPair (runSteps (fkStep1 st f fkSt fkF fix) (s.ids fkSt) s))
    (fun s => runStepsE (fkStep2E st f nullable fkSt fkF fix) (s.ids st) s)

/-! ### linkCollectionImpl -/

/-- one link: `otherField.AddLink(tx, linkId, id)` fails when `linkId` has no entity bucket -/
def lkInnerE (st f oSt oF : Name) (fix : Bool) (id : Id) (s : St) (linkId : Id) : Out :=
  if !s.present oSt linkId then Out.ofPair (lkInner st f oSt oF fix id s linkId)
  else if !s.hasBack oSt linkId oF id then
    if fix ∧ !s.present oSt linkId then .fail .notFound []
    else Out.ofPair (lkInner st f oSt oF fix id s linkId)
  else Out.ofPair (lkInner st f oSt oF fix id s linkId)

/-- the links of one entity, then `RemoveLink` of the queued dangling ones: `getFieldBucket(tx, id)`
    fails when `id` has no entity bucket -/
def lkStepE (st f oSt oF : Name) (fix : Bool) (s : St) (id : Id) : Out :=
  let links := s.setOf st id f
  (runStepsE (lkInnerE st f oSt oF fix id) links s).bind fun s1 =>
    let dangling := links.filter fun l => !s.present oSt l
    if fix then
      if dangling ≠ [] ∧ !s1.present st id then .fail .notFound []
      else .ok (lkRemoveAll st f id dangling s1) []
    else .ok s1 []

def linkCheckE (st f oSt oF : Name) (hasInverse fix : Bool) : ProcE :=
  ProcE.seq (fun s => .ok s (if hasInverse then [] else [⟨st, f, .lkNoInverse, false⟩]))
    (fun s => runStepsE (lkStepE st f oSt oF fix) (s.ids st) s)

/-! ### BaseStore.CheckIntegrity -/

def Constraint.checkE (fix : Bool) : Constraint → ProcE
  | .unique st f n => uniqueCheckE st f n fix
  | .setIdx st f => setCheckE st f fix
  | .fkIndex st f n fkSt fkF => fkIndexCheckE st f n fkSt fkF fix
  -- fkConstraint: its only write is `entityBucket.Put` into the bucket of the entity under the cursor
  | .fkCons st f n linked => fun s => Out.ofPair (fkConsCheck st f n linked fix s)
  | .noop => fun s => .ok s []

def LinkColl.checkE (S : Schema) (fix : Bool) (lc : LinkColl) : ProcE :=
  linkCheckE lc.st lc.f lc.oSt lc.oF (S.hasInverse lc) fix

/-- `BaseStore.CheckIntegrity`: `if err := ….CheckIntegrity(ctx, fix, errorSink); err != nil { return err }`
    over the link collections, then over the constraints -/
def StoreDef.checkE (S : Schema) (fix : Bool) (sd : StoreDef) : ProcE :=
  ProcE.seq (seqAllE (sd.links.map (LinkColl.checkE S fix))) (seqAllE (sd.constraints.map (Constraint.checkE fix)))

/-- every store in schema order inside ONE transaction: the first error ends the run -/
def checkAllE (S : Schema) (fix : Bool) : ProcE :=
  seqAllE (S.map (StoreDef.checkE S fix))

/-- what the caller's transaction holds afterwards: an error return rolls everything back -/
def Out.commit (s0 : St) : Out → St
  | .ok s _ => s
  | .fail .. => s0

end StorageModel.C09
