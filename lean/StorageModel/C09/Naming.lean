import StorageModel.C09.Layered
/-
  C09 — the integrity checker over schemas whose symbols carry a NAME and a stored KEY / PATH, and whose
  indexes, constraints and link collections may be declared by root, plain child or extended child stores.

  In boltz a symbol has three identities

    symbol.GetName()          the name the schema gives it     (`AddSymbolWithKey(name, type, key, prefix...)`)
    symbol.key / GetPath()    where its value lives inside the entity bucket: `path = prefix ++ [key]`
    symbol.GetStore()         the store whose `GetEntityBucket` leads to that entity bucket

  and the integrity checker uses each of them in fixed places:

    index bucket              `indexer.getIndexPath(symbol)` = basePath / entity type / symbol.GetName()      NAME
    report texts              `%v.%v` of `GetEntityType()` and `symbol.GetName()`                              NAME
    field reads               `symbol.Eval` → `getBucketF(entityBucket)` (the prefix) → `getTyped(symbol.key)`  PATH
    list reads / writes       `entityBucket.GetPath(symbol.GetPath()...)`, `GetOrCreatePath(symbol.GetPath()...)` PATH
    dangling-reference repair `path := symbol.GetPath(); tryFix := nullable && fix && len(path) > 0`,
                              `entityBucket.GetPath(path[:len(path)-1]...).Put([]byte(path[len(path)-1]), nil)`  PATH
                              (until the repair C09-nested-fk-repair: only for `len(path) == 1`, `Put(path[0], nil)`)
    entity bucket             `symbol.GetStore().GetEntityBucket(tx, id)`  (child store: the nested data bucket) STORE

  `C09/Model.lean` has ONE identifier `f` per symbol for all of these (every schema the first harness wires
  has name = key and one-element paths).  This file is the model with the three identities kept apart:
  the physical database `NSt` addresses entity fields and list buckets by PATH (inside the layered entity
  buckets of C09/Layered.lean), index buckets by (store, NAME); the five CheckIntegrity procedures are
  followed branch by branch once more (`checkAllN`), reading and writing under the identity the code uses.
  `C09/NamingSim.lean` proves that this run is the run of `checkAll` over the flat view that reads every
  declared symbol at its path (`nview`), for every schema of the family and every physical database.
-/
namespace StorageModel.C09
open StorageModel

/-- a symbol: the store that owns it, its name, and where it is stored (`prefix ++ [key]`) -/
structure NSym where
  store : Name
  name : Name
  path : List Name
  deriving DecidableEq, Repr

/-- an entity bucket (or a child store's data bucket): scalar values and list buckets by PATH -/
structure NEnt where
  fields : List Name → FVal
  sets : List Name → List Bytes

def NEnt.setField (e : NEnt) (p : List Name) (v : FVal) : NEnt :=
  { e with fields := fun q => if q = p then v else e.fields q }

def NEnt.setSet (e : NEnt) (p : List Name) (l : List Bytes) : NEnt :=
  { e with sets := fun q => if q = p then l else e.sets q }

/-- an entity bucket of a root store with the nested data buckets of the child stores -/
structure NPEnt where
  own : NEnt
  child : Name → Option NEnt

/-- the physical database -/
structure NSt where
  /-- ROOT store name → entities bucket -/
  ents : Name → List (Id × NPEnt)
  /-- (store, symbol NAME) → unique index bucket -/
  uniq : Name → Name → List (Bytes × Id)
  /-- (store, symbol NAME) → set index bucket -/
  setx : Name → Name → List (Bytes × SVal)

/-! ### the access paths of the code (as in C09/Layered.lean, over path-addressed entities) -/

/-- `store.GetEntitiesBucket(tx)` -/
def NSt.bucket (L : Layering) (n : NSt) (st : Name) : List (Id × NPEnt) :=
  match L.decl st with
  | none => n.ents st
  | some d => n.ents d.parent

/-- `store.GetEntityBucket(tx, id)` -/
def NSt.entityBucket (L : Layering) (n : NSt) (st : Name) (id : Id) : Option NEnt :=
  match L.decl st with
  | none => (get id (n.ents st)).map (·.own)
  | some d => (get id (n.ents d.parent)).bind (·.child st)

/-- `store.IsEntityPresent(tx, id)` -/
def NSt.present (L : Layering) (n : NSt) (st : Name) (id : Id) : Bool := (n.entityBucket L st id).isSome

/-- `store.IterateIds(tx, true)` -/
def NSt.iterateIds (L : Layering) (n : NSt) (st : Name) : List Id :=
  ((n.bucket L st).map (·.1)).filter fun id =>
    !(L.isChild st && !n.present L st id && !L.isExtended st)

/-- the ids a loop over `store.IterateValidIds(tx, true)` visits -/
def NSt.ids (L : Layering) (n : NSt) (st : Name) : List Id :=
  let rows := n.iterateIds L st
  if L.isExtended st then
    let pres := n.present L st
    let start :=
      match rows with
      | [] => []
      | x :: t => if !pres x then validNext pres (x :: t) else x :: t
    drain (validNext pres) (rows.length + 1) start
  else drain List.tail (rows.length + 1) rows

/-- `symbol.Eval(tx, id)`: `symbol.store.GetEntityBucket`, the prefix buckets, `getTyped(symbol.key)` -/
def NSt.evalT (L : Layering) (n : NSt) (y : NSym) (id : Id) : FVal :=
  match n.entityBucket L y.store id with
  | some e => e.fields y.path
  | none => .nil

def NSt.evalB (L : Layering) (n : NSt) (y : NSym) (id : Id) : Bytes := (n.evalT L y id).bytes

/-- `entityBucket.GetPath(symbol.GetPath()...)` + cursor -/
def NSt.setOf (L : Layering) (n : NSt) (y : NSym) (id : Id) : List Bytes :=
  match n.entityBucket L y.store id with
  | some e => e.sets y.path
  | none => []

def NSt.setUniq (n : NSt) (st f : Name) (b : List (Bytes × Id)) : NSt :=
  { n with uniq := fun st' f' => if st' = st ∧ f' = f then b else n.uniq st' f' }

def NSt.setSetx (n : NSt) (st f : Name) (b : List (Bytes × SVal)) : NSt :=
  { n with setx := fun st' f' => if st' = st ∧ f' = f then b else n.setx st' f' }

/-- a write into the bucket `store.GetEntityBucket(tx, id)` returns -/
def NSt.modEnt (L : Layering) (n : NSt) (st : Name) (id : Id) (g : NEnt → NEnt) : NSt :=
  match L.decl st with
  | none =>
    { n with ents := fun r =>
        if r = st then (n.ents st).map fun q => if q.1 = id then (q.1, { q.2 with own := g q.2.own }) else q
        else n.ents r }
  | some d =>
    { n with ents := fun r =>
        if r = d.parent then
          (n.ents d.parent).map fun q =>
            if q.1 = id then (q.1, { q.2 with child := fun c => if c = st then (q.2.child st).map g else q.2.child c })
            else q
        else n.ents r }

/-- `GetOrCreatePath(symbol.GetPath()...)` then `SetListEntry(TypeString, x)` -/
def NSt.addToSet (L : Layering) (n : NSt) (y : NSym) (id : Id) (x : Bytes) : NSt :=
  n.modEnt L y.store id fun e => e.setSet y.path (sins x (e.sets y.path))

def NSt.delFromSet (L : Layering) (n : NSt) (y : NSym) (id : Id) (x : Bytes) : NSt :=
  n.modEnt L y.store id fun e => e.setSet y.path (sdel x (e.sets y.path))

/-- `fieldBucket := entityBucket.GetPath(path[:len(path)-1]...)`, `fieldBucket.Put([]byte(path[len(path)-1]), nil)`: the
    value is cleared where it is stored.  (`fieldBucket == nil → return error` is not reachable: `symbol.Eval` has just
    read a non-nil value through the same prefix buckets.) -/
def NSt.putNilAtPath (L : Layering) (n : NSt) (y : NSym) (id : Id) : NSt :=
  n.modEnt L y.store id fun e => e.setField y.path .nil

/-- the code BEFORE the repair: `entityBucket.Put([]byte(symbol.GetPath()[0]), nil)`, the FIRST path element as a key of
    the entity bucket (kept for the witness `Properties.C09.old_nested_nullable_fk_not_repaired`) -/
def NSt.putNilAtHead (L : Layering) (n : NSt) (y : NSym) (id : Id) : NSt :=
  n.modEnt L y.store id fun e => e.setField [y.path.headD ""] .nil

abbrev NProc := NSt → NSt × List Report

def runStepsN {α : Type} (step : NSt → α → NSt × List Report) : List α → NProc
  | [], n => (n, [])
  | a :: as, n =>
    let r1 := step n a
    let r2 := runStepsN step as r1.1
    (r2.1, r1.2 ++ r2.2)

def NProc.seq (p q : NProc) : NProc := fun n =>
  let r1 := p n
  let r2 := q r1.1
  (r2.1, r1.2 ++ r2.2)

def NProc.skip : NProc := fun n => (n, [])

def seqAllN : List NProc → NProc
  | [] => NProc.skip
  | p :: ps => p.seq (seqAllN ps)

/-! ### uniqueIndex.CheckIntegrity -/

def readUN (n : NSt) (y : NSym) (v : Bytes) : Option Id :=
  if v = [] then none else get v (n.uniq y.store y.name)

def uqStep1N (L : Layering) (y : NSym) (fix : Bool) (n : NSt) (kv : Bytes × Id) : NSt × List Report :=
  if !n.present L y.store kv.2 then
    (if fix then n.setUniq y.store y.name (del kv.1 (n.uniq y.store y.name)) else n,
      [⟨y.store, y.name, .uqDangling kv.1 kv.2, fix⟩])
  else if kv.1 = n.evalB L y kv.2 then (n, [])
  else
    (if fix then n.setUniq y.store y.name (del kv.1 (n.uniq y.store y.name)) else n,
      [⟨y.store, y.name, .uqStale kv.1 kv.2 (n.evalB L y kv.2), fix⟩])

def uqRepairN (n : NSt) (y : NSym) (v : Bytes) (id : Id) : NSt :=
  if v = [] then n else n.setUniq y.store y.name (put v id (n.uniq y.store y.name))

def uqStep2N (L : Layering) (y : NSym) (nullable fix : Bool) (n : NSt) (id : Id) : NSt × List Report :=
  match n.evalT L y id with
  | .nil => (n, if nullable then [] else [⟨y.store, y.name, .uqNull id, false⟩])
  | .str fv =>
    if fv = [] then (n, if nullable then [] else [⟨y.store, y.name, .uqNull id, false⟩])
    else
      match readUN n y fv with
      | none => (if fix then uqRepairN n y fv id else n, [⟨y.store, y.name, .uqMissing fv id, fix⟩])
      | some idxId => if idxId = id then (n, []) else (n, [⟨y.store, y.name, .uqDup fv idxId id, false⟩])

def uniqueCheckN (L : Layering) (y : NSym) (nullable fix : Bool) : NProc :=
  NProc.seq (fun n => runStepsN (uqStep1N L y fix) (n.uniq y.store y.name) n)
    (fun n => runStepsN (uqStep2N L y nullable fix) (n.ids L y.store) n)

/-! ### setIndex.CheckIntegrity -/

def NSt.hasVal (L : Layering) (n : NSt) (y : NSym) (id : Id) (key : Bytes) : Bool := (n.setOf L y id).contains key

def NSt.delIdx (n : NSt) (y : NSym) (key : Bytes) (id : Id) : NSt :=
  match get key (n.setx y.store y.name) with
  | some (.ids l) => n.setSetx y.store y.name (put key (.ids (sdel id l)) (n.setx y.store y.name))
  | _ => n

def sxInnerN (L : Layering) (y : NSym) (fix : Bool) (key : Bytes) (n : NSt) (id : Id) : NSt × List Report :=
  if !n.present L y.store id then
    (if fix then n.delIdx y key id else n, [⟨y.store, y.name, .sxDangling key id, fix⟩])
  else if !n.hasVal L y id key then
    (if fix then n.delIdx y key id else n, [⟨y.store, y.name, .sxStale key id, fix⟩])
  else (n, [])

def sxKeptN (L : Layering) (y : NSym) (fix : Bool) (key : Bytes) (n : NSt) (l : List Id) : Nat :=
  if fix then (l.filter fun id => n.present L y.store id && n.hasVal L y id key).length else l.length

def sxStep1N (L : Layering) (y : NSym) (fix : Bool) (n : NSt) (kv : Bytes × SVal) : NSt × List Report :=
  match kv.2 with
  | .junk =>
    (if fix then n.setSetx y.store y.name (del kv.1 (n.setx y.store y.name)) else n,
      [⟨y.store, y.name, .sxJunk kv.1, fix⟩])
  | .ids l =>
    let r := runStepsN (sxInnerN L y fix kv.1) l n
    (r.1, r.2 ++ (if l = [] then [⟨y.store, y.name, .sxEmpty kv.1, fix⟩] else []))

def sxToDeleteN (L : Layering) (y : NSym) (fix : Bool) (n : NSt) : List (Bytes × SVal) → List Bytes
  | [] => []
  | kv :: t =>
    match kv.2 with
    | .junk => sxToDeleteN L y fix n t
    | .ids l =>
      if fix ∧ sxKeptN L y fix kv.1 n l = 0 then kv.1 :: sxToDeleteN L y fix n t
      else sxToDeleteN L y fix n t

def sxDeleteKeysN (y : NSym) (keys : List Bytes) (n : NSt) : NSt :=
  keys.foldl (fun n k => n.setSetx y.store y.name (del k (n.setx y.store y.name))) n

def NSt.addIdx (n : NSt) (y : NSym) (val : Bytes) (id : Id) : NSt :=
  match get val (n.setx y.store y.name) with
  | some (.ids l) => n.setSetx y.store y.name (put val (.ids (sins id l)) (n.setx y.store y.name))
  | _ => n.setSetx y.store y.name (put val (.ids [id]) (n.setx y.store y.name))

def NSt.inIdx (n : NSt) (y : NSym) (val : Bytes) (id : Id) : Bool :=
  match get val (n.setx y.store y.name) with
  | some (.ids l) => l.contains id
  | _ => false

def sxStep2ValN (y : NSym) (fix : Bool) (id : Id) (n : NSt) (val : Bytes) : NSt × List Report :=
  if n.inIdx y val id then (n, [])
  else (if fix then n.addIdx y val id else n, [⟨y.store, y.name, .sxMissing val id, fix⟩])

def sxStep2N (L : Layering) (y : NSym) (fix : Bool) (n : NSt) (id : Id) : NSt × List Report :=
  runStepsN (sxStep2ValN y fix id) (n.setOf L y id) n

def setCheckN (L : Layering) (y : NSym) (fix : Bool) : NProc :=
  NProc.seq (fun n =>
      let r := runStepsN (sxStep1N L y fix) (n.setx y.store y.name) n
      (sxDeleteKeysN y (sxToDeleteN L y fix n (n.setx y.store y.name)) r.1, r.2))
    (fun n => runStepsN (sxStep2N L y fix) (n.ids L y.store) n)

/-! ### fkIndex.CheckIntegrity (`symbol` = y, `fkSymbol` = z) -/

def fkInner1N (L : Layering) (y z : NSym) (fix : Bool) (id : Id) (n : NSt) (fkId : Id) : NSt × List Report :=
  if !n.present L y.store fkId then
    (if fix then n.delFromSet L z id fkId else n, [⟨y.store, y.name, .fkBackDangling id fkId, fix⟩])
  else if n.evalB L y fkId = [] ∨ n.evalB L y fkId ≠ id then
    (if fix then n.delFromSet L z id fkId else n,
      [⟨y.store, y.name, .fkBackStale id fkId (n.evalB L y fkId), fix⟩])
  else (n, [])

def fkStep1N (L : Layering) (y z : NSym) (fix : Bool) (n : NSt) (id : Id) : NSt × List Report :=
  runStepsN (fkInner1N L y z fix id) (n.setOf L z id) n

def NSt.hasBack (L : Layering) (n : NSt) (z : NSym) (target : Id) (id : Id) : Bool := (n.setOf L z target).contains id

/-- the dangling-reference branch of fkIndex and fkConstraint:
    `path := index.symbol.GetPath(); tryFix := index.nullable && fix && len(path) > 0`, then the value is cleared at
    `path` (`NSt.putNilAtPath`) -/
def fkDanglingStepN (L : Layering) (y : NSym) (nullable fix : Bool) (n : NSt) (id key : Id) : NSt × List Report :=
  let tryFix := nullable && fix && !y.path.isEmpty
  (if tryFix then n.putNilAtPath L y id else n, [⟨y.store, y.name, .fkDangling id key, tryFix⟩])

/-- the same branch BEFORE the repair: `tryFix := index.nullable && fix && len(index.symbol.GetPath()) == 1`,
    `entityBucket.Put([]byte(index.symbol.GetPath()[0]), nil)` -/
def fkDanglingStepNOld (L : Layering) (y : NSym) (nullable fix : Bool) (n : NSt) (id key : Id) : NSt × List Report :=
  let tryFix := nullable && fix && (y.path.length == 1)
  (if tryFix then n.putNilAtHead L y id else n, [⟨y.store, y.name, .fkDangling id key, tryFix⟩])

def fkStep2N (L : Layering) (y : NSym) (nullable : Bool) (z : NSym) (fix : Bool) (n : NSt) (id : Id) :
    NSt × List Report :=
  if n.evalB L y id = [] then
    (n, if nullable then [] else [⟨y.store, y.name, .fkNull id, false⟩])
  else if !n.present L z.store (n.evalB L y id) then fkDanglingStepN L y nullable fix n id (n.evalB L y id)
  else if n.hasBack L z (n.evalB L y id) id then (n, [])
  else
    (if fix then n.addToSet L z (n.evalB L y id) id else n,
      [⟨y.store, y.name, .fkBackMissing id (n.evalB L y id), fix⟩])

def fkIndexCheckN (L : Layering) (y : NSym) (nullable : Bool) (z : NSym) (fix : Bool) : NProc :=
  NProc.seq (fun n => runStepsN (fkStep1N L y z fix) (n.ids L z.store) n)
    (fun n => runStepsN (fkStep2N L y nullable z fix) (n.ids L y.store) n)

/-! ### fkConstraint.CheckIntegrity -/

def fcStepN (L : Layering) (y : NSym) (nullable : Bool) (linked : Name) (fix : Bool) (n : NSt) (id : Id) :
    NSt × List Report :=
  if n.evalB L y id = [] then
    (n, if nullable then [] else [⟨y.store, y.name, .fkNull id, false⟩])
  else if !n.present L linked (n.evalB L y id) then fkDanglingStepN L y nullable fix n id (n.evalB L y id)
  else (n, [])

def fkConsCheckN (L : Layering) (y : NSym) (nullable : Bool) (linked : Name) (fix : Bool) : NProc :=
  fun n => runStepsN (fcStepN L y nullable linked fix) (n.ids L y.store) n

/-! ### linkCollectionImpl.CheckIntegrity (`field` = y, `otherField` = z) -/

def lkInnerN (L : Layering) (y z : NSym) (fix : Bool) (id : Id) (n : NSt) (linkId : Id) : NSt × List Report :=
  if !n.present L z.store linkId then (n, [⟨y.store, y.name, .lkDangling id linkId, fix⟩])
  else if !n.hasBack L z linkId id then
    (if fix then n.addToSet L z linkId id else n, [⟨y.store, y.name, .lkOneSided id linkId, fix⟩])
  else (n, [])

def lkRemoveAllN (L : Layering) (y : NSym) (id : Id) (dangling : List Id) (n : NSt) : NSt :=
  dangling.foldl (fun x l => x.delFromSet L y id l) n

def lkStepN (L : Layering) (y z : NSym) (fix : Bool) (n : NSt) (id : Id) : NSt × List Report :=
  let links := n.setOf L y id
  let r := runStepsN (lkInnerN L y z fix id) links n
  (if fix then lkRemoveAllN L y id (links.filter fun l => !n.present L z.store l) r.1 else r.1, r.2)

def linkCheckN (L : Layering) (y z : NSym) (hasInverse fix : Bool) : NProc :=
  NProc.seq (fun n => (n, if hasInverse then [] else [⟨y.store, y.name, .lkNoInverse, false⟩]))
    (fun n => runStepsN (lkStepN L y z fix) (n.ids L y.store) n)

/-! ### schema and BaseStore.CheckIntegrity -/

inductive NConstraint
  | unique (y : NSym) (nullable : Bool)
  | setIdx (y : NSym)
  | fkIndex (y : NSym) (nullable : Bool) (z : NSym)
  | fkCons (y : NSym) (nullable : Bool) (linked : Name)
  | noop
  deriving DecidableEq, Repr

structure NLinkColl where
  field : NSym
  other : NSym
  deriving DecidableEq, Repr

/-- what one store DECLARES (`store.links`, `store.Indexer.constraints` in registration order); the symbols
    may belong to this store, to its parent (granted symbols) or to any other store -/
structure NStoreDef where
  name : Name
  links : List NLinkColl
  constraints : List NConstraint
  deriving Repr

structure NSchema where
  stores : List NStoreDef
  /-- `store.GetEntityType()`: a child store answers with its parent's entity type -/
  etype : Name → Name

def NConstraint.check (L : Layering) (fix : Bool) : NConstraint → NProc
  | .unique y n => uniqueCheckN L y n fix
  | .setIdx y => setCheckN L y fix
  | .fkIndex y n z => fkIndexCheckN L y n z fix
  | .fkCons y n linked => fkConsCheckN L y n linked fix
  | .noop => NProc.skip

/-- the `foundInverse` loop over `collection.otherField.GetStore().getLinks()`: symbol NAMES and ENTITY TYPES
    (not stores) are compared -/
def NSchema.hasInverse (G : NSchema) (lc : NLinkColl) : Bool :=
  G.stores.any fun sd => sd.name == lc.other.store &&
    sd.links.any fun o =>
      lc.field.name == o.other.name && G.etype lc.field.store == G.etype o.other.store &&
      lc.other.name == o.field.name && G.etype lc.other.store == G.etype o.field.store

def NLinkColl.check (G : NSchema) (L : Layering) (fix : Bool) (lc : NLinkColl) : NProc :=
  linkCheckN L lc.field lc.other (G.hasInverse lc) fix

def NStoreDef.check (G : NSchema) (L : Layering) (fix : Bool) (sd : NStoreDef) : NProc :=
  NProc.seq (seqAllN (sd.links.map (NLinkColl.check G L fix))) (seqAllN (sd.constraints.map (NConstraint.check L fix)))

/-- the checker run over every store, in the order given -/
def checkStoresN (G : NSchema) (L : Layering) (fix : Bool) (sds : List NStoreDef) : NProc :=
  seqAllN (sds.map (NStoreDef.check G L fix))

def checkAllN (G : NSchema) (L : Layering) (fix : Bool) : NProc := checkStoresN G L fix G.stores

/-! ### the flat schema and the flat view -/

def NConstraint.syms : NConstraint → List NSym
  | .unique y _ => [y]
  | .setIdx y => [y]
  | .fkIndex y _ z => [y, z]
  | .fkCons y _ _ => [y]
  | .noop => []

def NStoreDef.syms (sd : NStoreDef) : List NSym :=
  sd.links.flatMap (fun lc => [lc.field, lc.other]) ++ sd.constraints.flatMap NConstraint.syms

/-- every symbol the schema's indexes, constraints and link collections mention -/
def NSchema.syms (G : NSchema) : List NSym := G.stores.flatMap NStoreDef.syms

def NConstraint.flat : NConstraint → Constraint
  | .unique y n => .unique y.store y.name n
  | .setIdx y => .setIdx y.store y.name
  | .fkIndex y n z => .fkIndex y.store y.name n z.store z.name
  | .fkCons y n linked => .fkCons y.store y.name n linked
  | .noop => .noop

def NLinkColl.flat (lc : NLinkColl) : LinkColl := ⟨lc.field.store, lc.field.name, lc.other.store, lc.other.name⟩

def NStoreDef.flat (sd : NStoreDef) : StoreDef :=
  { name := sd.name, links := sd.links.map NLinkColl.flat, constraints := sd.constraints.map NConstraint.flat }

/-- the schema as `C09/Model.lean` sees it: every symbol identified by (store, name) -/
def NSchema.flat (G : NSchema) : Schema := G.stores.map NStoreDef.flat

/-- the path of the symbol `name` of store `st` -/
def NSchema.pathOf (G : NSchema) (st f : Name) : Option (List Name) :=
  (G.syms.find? fun y => y.store = st ∧ y.name = f).map (·.path)

/-- an entity as the schema's symbols read it: symbol `f` of store `st` has the value stored at its path -/
def NEnt.view (G : NSchema) (st : Name) (e : NEnt) : Ent :=
  { fields := fun f =>
      match G.pathOf st f with
      | some p => e.fields p
      | none => .nil
    sets := fun f =>
      match G.pathOf st f with
      | some p => e.sets p
      | none => [] }

/-- the layered database with every entity read through the schema's symbols -/
def NSt.rename (G : NSchema) (n : NSt) : PSt :=
  { ents := fun r => (n.ents r).map fun q =>
      (q.1, { own := q.2.own.view G r, child := fun c => (q.2.child c).map (NEnt.view G c) })
    uniq := n.uniq
    setx := n.setx }

/-- the flat state of `C09/Model.lean` a physical database denotes -/
def nview (G : NSchema) (L : Layering) (n : NSt) : St := (n.rename G).view L

/-- static conditions under which a schema of the family is faithfully represented by its flat form:
    within a store a name denotes one symbol, different symbols are stored at different paths (`path = prefix ++
    [key]` is never empty), and the inverse test of link collections (entity types) agrees with the one by stores -/
structure NSchema.Ok (G : NSchema) : Prop where
  nonempty : ∀ y ∈ G.syms, y.path ≠ []
  names : ∀ y ∈ G.syms, ∀ y' ∈ G.syms, y.store = y'.store → y.name = y'.name → y = y'
  paths : ∀ y ∈ G.syms, ∀ y' ∈ G.syms, y.store = y'.store → y.path = y'.path → y = y'
  inverse : ∀ sd ∈ G.stores, ∀ lc ∈ sd.links, G.hasInverse lc = G.flat.hasInverse lc.flat

instance (G : NSchema) : Decidable G.Ok :=
  if h : (∀ y ∈ G.syms, y.path ≠ []) ∧ (∀ y ∈ G.syms, ∀ y' ∈ G.syms, y.store = y'.store → y.name = y'.name → y = y') ∧
      (∀ y ∈ G.syms, ∀ y' ∈ G.syms, y.store = y'.store → y.path = y'.path → y = y') ∧
      (∀ sd ∈ G.stores, ∀ lc ∈ sd.links, G.hasInverse lc = G.flat.hasInverse lc.flat)
  then isTrue ⟨h.1, h.2.1, h.2.2.1, h.2.2.2⟩
  else isFalse fun hk => h ⟨hk.nonempty, hk.names, hk.paths, hk.inverse⟩

/-- is the symbol a nullable foreign key whose value is NOT a direct key of the entity bucket -/
def NConstraint.nestedNullableFk : NConstraint → Bool
  | .fkIndex y n _ => n && (y.path.length != 1)
  | .fkCons y n _ => n && (y.path.length != 1)
  | _ => false

/-- every nullable foreign key is stored directly in the entity bucket (`len(path) == 1`): what the code BEFORE the
    repair C09-nested-fk-repair needed for the repair of a dangling reference to be attempted; no theorem needs it now -/
def NSchema.FkFlat (G : NSchema) : Prop :=
  ∀ sd ∈ G.stores, ∀ c ∈ sd.constraints, c.nestedNullableFk = false

instance (G : NSchema) : Decidable G.FkFlat := by unfold NSchema.FkFlat; infer_instance

/-- distinct keys in every entities bucket (what bbolt gives) -/
def NSt.KeysOk (n : NSt) : Prop := ∀ r, NodupKeys (n.ents r)

end StorageModel.C09
