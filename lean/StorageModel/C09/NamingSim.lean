import StorageModel.C09.Naming
/-
  C09 — the run over a schema with names, keys / paths and declaring stores (`checkAllN`, C09/Naming.lean)
  IS the run of `checkAll` over the flat view `nview`:

      nview G L (checkAllN G L fix n).1 = (checkAll G.flat fix (nview G L n)).1
      (checkAllN G L fix n).2           = (checkAll G.flat fix (nview G L n)).2

  for every schema with `G.Ok` (a name denotes one symbol per store, different symbols live at different, non-empty
  paths), every layering and every physical database with distinct entity ids per bucket.  Proof: every read of the code's access paths is the
  corresponding read of the view (`nview_present`, `nview_ids`, `nview_evalT`, `nview_setOf`), every write is
  the corresponding write (`nview_setUniq`, `nview_setSetx`, `nview_modEnt` — the latter through the layered
  write `view_modEnt`: a write into the bucket `GetEntityBucket` returns changes exactly that store's entity
  in the view), then loop by loop.
-/
namespace StorageModel.C09
open StorageModel

/-! ### a write into the bucket `GetEntityBucket` returns, in the layered database of C09/Layered.lean -/

def PSt.modEnt (L : Layering) (p : PSt) (st : Name) (id : Id) (g : Ent → Ent) : PSt :=
  match L.decl st with
  | none =>
    { p with ents := fun r =>
        if r = st then (p.ents st).map fun q => if q.1 = id then (q.1, { q.2 with own := g q.2.own }) else q
        else p.ents r }
  | some d =>
    { p with ents := fun r =>
        if r = d.parent then
          (p.ents d.parent).map fun q =>
            if q.1 = id then (q.1, { q.2 with child := fun c => if c = st then (q.2.child st).map g else q.2.child c })
            else q
        else p.ents r }

theorem St.ext' {s t : St} (h1 : s.ents = t.ents) (h2 : s.uniq = t.uniq) (h3 : s.setx = t.setx) : s = t := by
  cases s; cases t; simp only at h1 h2 h3; subst h1; subst h2; subst h3; rfl

theorem filterMap_map_entry {A B : Type} (m : Bytes × A → Bytes × A) (g : A → Option B) (h : B → B) (id : Id)
    (l : List (Bytes × A))
    (hm1 : ∀ q, (m q).1 = q.1)
    (hm2 : ∀ q, g (m q).2 = if q.1 = id then (g q.2).map h else g q.2) :
    (l.map m).filterMap (fun q => (g q.2).map fun e => (q.1, e)) =
      (l.filterMap fun q => (g q.2).map fun e => (q.1, e)).map fun r => if r.1 = id then (r.1, h r.2) else r := by
  induction l with
  | nil => rfl
  | cons q t ih =>
    rw [List.map_cons, List.filterMap_cons, List.filterMap_cons, ih, hm2, hm1]
    by_cases hq : q.1 = id
    · rw [if_pos hq]
      cases hg : g q.2 with
      | none => simp
      | some e => simp [hq]
    · rw [if_neg hq]
      cases hg : g q.2 with
      | none => simp
      | some e => simp [hq]

/-- **a layered write is the flat write**: modifying the bucket `GetEntityBucket(st, id)` returns (a root
    entity's own bucket, or a child store's data bucket inside it) modifies exactly the entity `id` of store
    `st` in the view, and no other store's -/
theorem view_modEnt (L : Layering) (p : PSt) (st : Name) (id : Id) (g : Ent → Ent) :
    (p.modEnt L st id g).view L = (p.view L).modEnt st id g := by
  apply St.ext'
  · funext st'
    unfold PSt.modEnt
    cases hd : L.decl st with
    | none =>
      simp only [PSt.view, St.modEnt]
      cases hd' : L.decl st' with
      | none =>
        simp only
        by_cases h : st' = st
        · subst h
          simp only [if_true, hd', List.map_map]
          apply List.map_congr_left
          intro q _
          simp only [Function.comp]
          split <;> rfl
        · simp only [if_neg h]
      | some d' =>
        simp only
        have hne : st' ≠ st := fun e => by rw [e, hd] at hd'; cases hd'
        rw [if_neg hne]
        by_cases h : d'.parent = st
        · rw [if_pos h, h]
          have := filterMap_map_entry
            (fun q : Bytes × PEnt => if q.1 = id then (q.1, { q.2 with own := g q.2.own }) else q)
            (fun pe : PEnt => pe.child st') (fun e => e) id (p.ents st)
            (by intro q; split <;> rfl)
            (by intro q; split <;> simp)
          rw [this]
          have hid : (fun r : Bytes × Ent => if r.1 = id then (r.1, r.2) else r) = fun r => r := by
            funext r; split <;> rfl
          rw [hid, List.map_id']
        · rw [if_neg h]
    | some d =>
      simp only [PSt.view, St.modEnt]
      cases hd' : L.decl st' with
      | none =>
        simp only
        have hne : st' ≠ st := fun e => by rw [e, hd] at hd'; cases hd'
        rw [if_neg hne]
        by_cases h : st' = d.parent
        · rw [if_pos h, List.map_map, h]
          apply List.map_congr_left
          intro q _
          simp only [Function.comp]
          split <;> rfl
        · rw [if_neg h]
      | some d' =>
        simp only
        by_cases hs : st' = st
        · subst hs
          rw [hd] at hd'
          cases hd'
          simp only [if_true, hd]
          exact filterMap_map_entry
            (fun q : Bytes × PEnt =>
              if q.1 = id then (q.1, { q.2 with child := fun c => if c = st' then (q.2.child st').map g else q.2.child c })
              else q)
            (fun pe : PEnt => pe.child st') g id (p.ents d.parent)
            (by intro q; split <;> rfl)
            (by intro q; split <;> simp)
        · rw [if_neg hs]
          by_cases h : d'.parent = d.parent
          · rw [if_pos h]
            have := filterMap_map_entry
              (fun q : Bytes × PEnt =>
                if q.1 = id then (q.1, { q.2 with child := fun c => if c = st then (q.2.child st).map g else q.2.child c })
                else q)
              (fun pe : PEnt => pe.child st') (fun e => e) id (p.ents d.parent)
              (by intro q; split <;> rfl)
              (by intro q; split <;> simp [hs])
            rw [this, h]
            have hid : (fun r : Bytes × Ent => if r.1 = id then (r.1, r.2) else r) = fun r => r := by
              funext r; split <;> rfl
            rw [hid, List.map_id']
          · rw [if_neg h]
  · unfold PSt.modEnt; cases L.decl st <;> rfl
  · unfold PSt.modEnt; cases L.decl st <;> rfl

/-! ### reads of the physical database are reads of the view -/

theorem rename_keys (G : NSchema) (n : NSt) (r : Name) : ((n.rename G).ents r).map (·.1) = (n.ents r).map (·.1) := by
  simp only [NSt.rename, List.map_map]
  rfl

theorem rename_keysOk {G : NSchema} {n : NSt} (hk : n.KeysOk) : ∀ r, NodupKeys ((n.rename G).ents r) := by
  intro r
  unfold NodupKeys
  rw [rename_keys]
  exact hk r

theorem rename_entityBucket (G : NSchema) (L : Layering) (n : NSt) (st : Name) (id : Id) :
    (n.rename G).entityBucket L st id = (n.entityBucket L st id).map (NEnt.view G st) := by
  unfold PSt.entityBucket NSt.entityBucket
  cases hd : L.decl st with
  | none =>
    simp only [NSt.rename]
    rw [get_map_snd (fun pe : NPEnt => ({ own := pe.own.view G st, child := fun c => (pe.child c).map (NEnt.view G c) } : PEnt))]
    cases get id (n.ents st) <;> rfl
  | some d =>
    simp only [NSt.rename]
    rw [get_map_snd (fun pe : NPEnt => ({ own := pe.own.view G d.parent, child := fun c => (pe.child c).map (NEnt.view G c) } : PEnt))]
    cases get id (n.ents d.parent) <;> rfl

/-- `GetEntityBucket`, read through the schema's symbols, is the entity of the view -/
theorem nview_ent {G : NSchema} {L : Layering} {n : NSt} (hk : n.KeysOk) (st : Name) (id : Id) :
    (nview G L n).ent st id = (n.entityBucket L st id).map (NEnt.view G st) := by
  unfold nview
  rw [← entityBucket_eq_view_k L _ (rename_keysOk hk), rename_entityBucket]

theorem nview_present {G : NSchema} {L : Layering} {n : NSt} (hk : n.KeysOk) (st : Name) (id : Id) :
    (nview G L n).present st id = n.present L st id := by
  unfold St.present NSt.present
  rw [nview_ent hk]
  cases n.entityBucket L st id <;> rfl

theorem rename_present (G : NSchema) (L : Layering) (n : NSt) (st : Name) :
    (n.rename G).isEntityPresent L st = n.present L st := by
  funext id
  unfold PSt.isEntityPresent NSt.present
  rw [rename_entityBucket]
  cases n.entityBucket L st id <;> rfl

theorem rename_iterateIds (G : NSchema) (L : Layering) (n : NSt) (st : Name) :
    (n.rename G).iterateIds L st = n.iterateIds L st := by
  unfold PSt.iterateIds NSt.iterateIds
  have hb : ((n.rename G).bucket L st).map (·.1) = (n.bucket L st).map (·.1) := by
    unfold PSt.bucket NSt.bucket
    cases L.decl st <;> exact rename_keys G n _
  rw [hb, rename_present]

theorem rename_validIds (G : NSchema) (L : Layering) (n : NSt) (st : Name) :
    (n.rename G).validIds L st = n.ids L st := by
  unfold PSt.validIds NSt.ids
  rw [rename_iterateIds, rename_present]
  rfl

/-- the ids an entity scan visits -/
theorem nview_ids {G : NSchema} {L : Layering} {n : NSt} (hk : n.KeysOk) (st : Name) :
    (nview G L n).ids st = n.ids L st := by
  unfold nview
  rw [← validIds_eq_view_k L _ (rename_keysOk hk), rename_validIds]

theorem nview_uniq (G : NSchema) (L : Layering) (n : NSt) (st f : Name) : (nview G L n).uniq st f = n.uniq st f := rfl
theorem nview_setx (G : NSchema) (L : Layering) (n : NSt) (st f : Name) : (nview G L n).setx st f = n.setx st f := rfl

/-- under `G.Ok` a declared symbol is found under its name -/
theorem pathOf_of_mem {G : NSchema} (hG : G.Ok) {y : NSym} (hy : y ∈ G.syms) : G.pathOf y.store y.name = some y.path := by
  unfold NSchema.pathOf
  cases hf : G.syms.find? (fun z => z.store = y.store ∧ z.name = y.name) with
  | none =>
    have := List.find?_eq_none.1 hf y hy
    simp at this
  | some z =>
    have hz := List.find?_some hf
    have hm := List.mem_of_find?_eq_some hf
    simp only [decide_eq_true_eq] at hz
    have : z = y := hG.names z hm y hy hz.1 hz.2
    rw [this]; rfl

/-- and a name whose path is the path of a declared symbol is that symbol's name -/
theorem pathOf_eq_path {G : NSchema} (hG : G.Ok) {y : NSym} (hy : y ∈ G.syms) {f : Name}
    (h : G.pathOf y.store f = some y.path) : f = y.name := by
  unfold NSchema.pathOf at h
  cases hf : G.syms.find? (fun z => z.store = y.store ∧ z.name = f) with
  | none => rw [hf] at h; cases h
  | some z =>
    rw [hf] at h
    have hz := List.find?_some hf
    have hm := List.mem_of_find?_eq_some hf
    simp only [decide_eq_true_eq] at hz
    simp only [Option.map_some, Option.some.injEq] at h
    have : z = y := hG.paths z hm y hy hz.1 h
    rw [← hz.2, this]

theorem nview_evalT {G : NSchema} {L : Layering} {n : NSt} (hG : G.Ok) (hk : n.KeysOk) {y : NSym} (hy : y ∈ G.syms)
    (id : Id) : (nview G L n).evalT y.store id y.name = n.evalT L y id := by
  unfold St.evalT NSt.evalT
  rw [nview_ent hk]
  cases n.entityBucket L y.store id with
  | none => rfl
  | some e =>
    simp only [Option.map_some, NEnt.view, pathOf_of_mem hG hy]

theorem nview_evalB {G : NSchema} {L : Layering} {n : NSt} (hG : G.Ok) (hk : n.KeysOk) {y : NSym} (hy : y ∈ G.syms)
    (id : Id) : (nview G L n).evalB y.store id y.name = n.evalB L y id := by
  unfold St.evalB NSt.evalB
  rw [nview_evalT hG hk hy]

theorem nview_setOf {G : NSchema} {L : Layering} {n : NSt} (hG : G.Ok) (hk : n.KeysOk) {y : NSym} (hy : y ∈ G.syms)
    (id : Id) : (nview G L n).setOf y.store id y.name = n.setOf L y id := by
  unfold St.setOf NSt.setOf
  rw [nview_ent hk]
  cases n.entityBucket L y.store id with
  | none => rfl
  | some e =>
    simp only [Option.map_some, NEnt.view, pathOf_of_mem hG hy]

theorem nview_hasVal {G : NSchema} {L : Layering} {n : NSt} (hG : G.Ok) (hk : n.KeysOk) {y : NSym} (hy : y ∈ G.syms)
    (id : Id) (key : Bytes) : (nview G L n).hasVal y.store id y.name key = n.hasVal L y id key := by
  unfold St.hasVal NSt.hasVal
  rw [nview_setOf hG hk hy]

theorem nview_hasBack {G : NSchema} {L : Layering} {n : NSt} (hG : G.Ok) (hk : n.KeysOk) {z : NSym} (hz : z ∈ G.syms)
    (t id : Id) : (nview G L n).hasBack z.store t z.name id = n.hasBack L z t id := by
  unfold St.hasBack NSt.hasBack
  rw [nview_setOf hG hk hz]

/-! ### writes of the physical database are writes of the view -/

theorem nview_setUniq (G : NSchema) (L : Layering) (n : NSt) (st f : Name) (b : List (Bytes × Id)) :
    nview G L (n.setUniq st f b) = (nview G L n).setUniq st f b := rfl

theorem nview_setSetx (G : NSchema) (L : Layering) (n : NSt) (st f : Name) (b : List (Bytes × SVal)) :
    nview G L (n.setSetx st f b) = (nview G L n).setSetx st f b := rfl

theorem PSt.ext' {s t : PSt} (h1 : s.ents = t.ents) (h2 : s.uniq = t.uniq) (h3 : s.setx = t.setx) : s = t := by
  cases s; cases t; simp only at h1 h2 h3; subst h1; subst h2; subst h3; rfl

theorem rename_modEnt (G : NSchema) (L : Layering) (n : NSt) (st : Name) (id : Id) (gN : NEnt → NEnt) (g : Ent → Ent)
    (hg : ∀ e, (gN e).view G st = g (e.view G st)) :
    (n.modEnt L st id gN).rename G = (n.rename G).modEnt L st id g := by
  apply PSt.ext'
  · funext r
    unfold NSt.modEnt PSt.modEnt
    cases hd : L.decl st with
    | none =>
      simp only [NSt.rename]
      by_cases h : r = st
      · subst h
        simp only [if_true, List.map_map]
        apply List.map_congr_left
        intro q _
        simp only [Function.comp]
        split
        · simp only [hg]
        · rfl
      · simp only [if_neg h]
    | some d =>
      simp only [NSt.rename]
      by_cases h : r = d.parent
      · subst h
        simp only [if_true, List.map_map]
        apply List.map_congr_left
        intro q _
        simp only [Function.comp]
        split
        · congr 2
          funext c
          by_cases hc : c = st
          · subst hc
            simp only [if_true]
            cases q.2.child c with
            | none => rfl
            | some e => simp only [Option.map_some, hg]
          · simp only [if_neg hc]
        · rfl
      · simp only [if_neg h]
  · unfold NSt.modEnt PSt.modEnt; cases L.decl st <;> rfl
  · unfold NSt.modEnt PSt.modEnt; cases L.decl st <;> rfl

/-- **a physical write is the flat write** -/
theorem nview_modEnt (G : NSchema) (L : Layering) (n : NSt) (st : Name) (id : Id) (gN : NEnt → NEnt) (g : Ent → Ent)
    (hg : ∀ e, (gN e).view G st = g (e.view G st)) :
    nview G L (n.modEnt L st id gN) = (nview G L n).modEnt st id g := by
  unfold nview
  rw [rename_modEnt G L n st id gN g hg, view_modEnt]

theorem Ent.ext' {a b : Ent} (h1 : a.fields = b.fields) (h2 : a.sets = b.sets) : a = b := by
  cases a; cases b; simp only at h1 h2; subst h1; subst h2; rfl

/-- writing the list bucket at a declared symbol's PATH changes exactly that symbol's list in the view -/
theorem view_setSet {G : NSchema} (hG : G.Ok) {y : NSym} (hy : y ∈ G.syms) (e : NEnt) (l : List Bytes) :
    (e.setSet y.path l).view G y.store = (e.view G y.store).setSet y.name l := by
  apply Ent.ext'
  · rfl
  · funext f
    simp only [NEnt.view, NEnt.setSet, Ent.setSet]
    by_cases hf : f = y.name
    · subst hf
      simp only [pathOf_of_mem hG hy, if_true]
    · rw [if_neg hf]
      cases hp : G.pathOf y.store f with
      | none => rfl
      | some p =>
        simp only
        have : p ≠ y.path := fun e => hf (pathOf_eq_path hG hy (e ▸ hp))
        rw [if_neg this]

/-- writing a scalar at a declared symbol's PATH changes exactly that symbol's value in the view -/
theorem view_setField {G : NSchema} (hG : G.Ok) {y : NSym} (hy : y ∈ G.syms) (e : NEnt) (v : FVal) :
    (e.setField y.path v).view G y.store = (e.view G y.store).setField y.name v := by
  apply Ent.ext'
  · funext f
    simp only [NEnt.view, NEnt.setField, Ent.setField]
    by_cases hf : f = y.name
    · subst hf
      simp only [pathOf_of_mem hG hy, if_true]
    · rw [if_neg hf]
      cases hp : G.pathOf y.store f with
      | none => rfl
      | some p =>
        simp only
        have : p ≠ y.path := fun e => hf (pathOf_eq_path hG hy (e ▸ hp))
        rw [if_neg this]
  · rfl

theorem view_sets {G : NSchema} (hG : G.Ok) {y : NSym} (hy : y ∈ G.syms) (e : NEnt) :
    (e.view G y.store).sets y.name = e.sets y.path := by
  simp only [NEnt.view, pathOf_of_mem hG hy]

theorem nview_addToSet {G : NSchema} (L : Layering) (n : NSt) (hG : G.Ok) {z : NSym} (hz : z ∈ G.syms) (id : Id) (x : Bytes) :
    nview G L (n.addToSet L z id x) = (nview G L n).addToSet z.store id z.name x := by
  unfold NSt.addToSet St.addToSet
  apply nview_modEnt
  intro e
  rw [view_setSet hG hz, view_sets hG hz]

theorem nview_delFromSet {G : NSchema} (L : Layering) (n : NSt) (hG : G.Ok) {z : NSym} (hz : z ∈ G.syms) (id : Id) (x : Bytes) :
    nview G L (n.delFromSet L z id x) = (nview G L n).delFromSet z.store id z.name x := by
  unfold NSt.delFromSet St.delFromSet
  apply nview_modEnt
  intro e
  rw [view_setSet hG hz, view_sets hG hz]

/-- clearing the value at the symbol's PATH nulls that symbol -/
theorem nview_putNilAtPath {G : NSchema} (L : Layering) (n : NSt) (hG : G.Ok) {y : NSym} (hy : y ∈ G.syms) (id : Id) :
    nview G L (n.putNilAtPath L y id) = (nview G L n).modEnt y.store id fun e => e.setField y.name .nil := by
  unfold NSt.putNilAtPath
  apply nview_modEnt
  intro e
  rw [view_setField hG hy]

/-! ### distinct entity ids are kept by every write -/

theorem keysOk_setUniq {n : NSt} (hk : n.KeysOk) (st f : Name) (b : List (Bytes × Id)) : (n.setUniq st f b).KeysOk := hk
theorem keysOk_setSetx {n : NSt} (hk : n.KeysOk) (st f : Name) (b : List (Bytes × SVal)) : (n.setSetx st f b).KeysOk := hk

theorem keysOk_modEnt {n : NSt} (hk : n.KeysOk) (L : Layering) (st : Name) (id : Id) (g : NEnt → NEnt) :
    (n.modEnt L st id g).KeysOk := by
  intro r
  unfold NSt.modEnt
  cases hd : L.decl st with
  | none =>
    simp only
    by_cases h : r = st
    · rw [if_pos h]
      unfold NodupKeys
      rw [List.map_map]
      have : ((fun x : Id × NPEnt => x.1) ∘ fun q : Id × NPEnt => if q.1 = id then (q.1, { q.2 with own := g q.2.own }) else q)
          = fun x => x.1 := by
        funext q; simp only [Function.comp]; split <;> rfl
      rw [this]; exact hk st
    · rw [if_neg h]; exact hk r
  | some d =>
    simp only
    by_cases h : r = d.parent
    · rw [if_pos h]
      unfold NodupKeys
      rw [List.map_map]
      have : ((fun x : Id × NPEnt => x.1) ∘ fun q : Id × NPEnt =>
          if q.1 = id then (q.1, { q.2 with child := fun c => if c = st then (q.2.child st).map g else q.2.child c }) else q)
          = fun x => x.1 := by
        funext q; simp only [Function.comp]; split <;> rfl
      rw [this]; exact hk d.parent
    · rw [if_neg h]; exact hk r

/-! ### simulation, loop by loop -/

/-- `a` (on the physical database) is `b` (on the view): same reports, the view of the result is the result
    on the view; distinct entity ids are an invariant -/
def Sim (G : NSchema) (L : Layering) (a : NProc) (b : Proc) : Prop :=
  ∀ n : NSt, n.KeysOk → (a n).1.KeysOk ∧ nview G L (a n).1 = (b (nview G L n)).1 ∧ (a n).2 = (b (nview G L n)).2

theorem sim_skip (G : NSchema) (L : Layering) : Sim G L NProc.skip Proc.skip := fun _ hk => ⟨hk, rfl, rfl⟩

theorem sim_seq {G : NSchema} {L : Layering} {a1 a2 : NProc} {b1 b2 : Proc} (h1 : Sim G L a1 b1) (h2 : Sim G L a2 b2) :
    Sim G L (a1.seq a2) (b1.seq b2) := by
  intro n hk
  obtain ⟨k1, v1, r1⟩ := h1 n hk
  obtain ⟨k2, v2, r2⟩ := h2 _ k1
  refine ⟨k2, ?_, ?_⟩
  · show nview G L (a2 (a1 n).1).1 = (b2 (b1 (nview G L n)).1).1
    rw [v2, v1]
  · show (a1 n).2 ++ (a2 (a1 n).1).2 = (b1 (nview G L n)).2 ++ (b2 (b1 (nview G L n)).1).2
    rw [r1, r2, v1]

theorem sim_seqAll {G : NSchema} {L : Layering} {α : Type} (fa : α → NProc) (fb : α → Proc) (l : List α)
    (h : ∀ x ∈ l, Sim G L (fa x) (fb x)) : Sim G L (seqAllN (l.map fa)) (seqAll (l.map fb)) := by
  induction l with
  | nil => exact sim_skip G L
  | cons x t ih =>
    exact sim_seq (h x (List.mem_cons_self ..)) (ih fun y hy => h y (List.mem_cons_of_mem _ hy))

theorem sim_steps {G : NSchema} {L : Layering} {α : Type} (sa : NSt → α → NSt × List Report)
    (sb : St → α → St × List Report) (h : ∀ x, Sim G L (fun n => sa n x) (fun s => sb s x)) (l : List α) :
    Sim G L (runStepsN sa l) (runSteps sb l) := by
  induction l with
  | nil => exact fun _ hk => ⟨hk, rfl, rfl⟩
  | cons x t ih =>
    intro n hk
    obtain ⟨k1, v1, r1⟩ := h x n hk
    obtain ⟨k2, v2, r2⟩ := ih _ k1
    refine ⟨k2, ?_, ?_⟩
    · show nview G L (runStepsN sa t (sa n x).1).1 = (runSteps sb t (sb (nview G L n) x).1).1
      rw [v2, v1]
    · show (sa n x).2 ++ (runStepsN sa t (sa n x).1).2 = (sb (nview G L n) x).2 ++ (runSteps sb t (sb (nview G L n) x).1).2
      rw [r1, r2, v1]

/-- a loop over a list read from the state -/
theorem sim_loop {G : NSchema} {L : Layering} {α : Type} (sa : NSt → α → NSt × List Report)
    (sb : St → α → St × List Report) (la : NSt → List α) (lb : St → List α)
    (hl : ∀ n : NSt, n.KeysOk → la n = lb (nview G L n))
    (h : ∀ x, Sim G L (fun n => sa n x) (fun s => sb s x)) :
    Sim G L (fun n => runStepsN sa (la n) n) (fun s => runSteps sb (lb s) s) := by
  intro n hk
  have := sim_steps sa sb h (la n) n hk
  show (runStepsN sa (la n) n).1.KeysOk ∧ nview G L (runStepsN sa (la n) n).1 = (runSteps sb (lb (nview G L n)) (nview G L n)).1 ∧
    (runStepsN sa (la n) n).2 = (runSteps sb (lb (nview G L n)) (nview G L n)).2
  rw [← hl n hk]
  exact this

/-- a step that reads only -/
theorem sim_pure {G : NSchema} {L : Layering} {n : NSt} (hk : n.KeysOk) (rs : List Report) :
    (n, rs).1.KeysOk ∧ nview G L (n, rs).1 = ((nview G L n, rs) : St × List Report).1 ∧
      (n, rs).2 = ((nview G L n, rs) : St × List Report).2 := ⟨hk, rfl, rfl⟩

/-- a step with one write -/
theorem sim_write {G : NSchema} {L : Layering} {n' : NSt} {s' : St} (hk : n'.KeysOk) (hv : nview G L n' = s')
    (rs : List Report) :
    (n', rs).1.KeysOk ∧ nview G L (n', rs).1 = ((s', rs) : St × List Report).1 ∧
      (n', rs).2 = ((s', rs) : St × List Report).2 := ⟨hk, hv, rfl⟩

variable {G : NSchema} {L : Layering}

/-! #### uniqueIndex -/

theorem sim_uqStep1 (hG : G.Ok) {y : NSym} (hy : y ∈ G.syms) (fix : Bool) (kv : Bytes × Id) :
    Sim G L (fun n => uqStep1N L y fix n kv) (fun s => uqStep1 y.store y.name fix s kv) := by
  intro n hk
  show (uqStep1N L y fix n kv).1.KeysOk ∧ nview G L (uqStep1N L y fix n kv).1 = (uqStep1 y.store y.name fix (nview G L n) kv).1 ∧
    (uqStep1N L y fix n kv).2 = (uqStep1 y.store y.name fix (nview G L n) kv).2
  unfold uqStep1N uqStep1
  rw [nview_present hk, nview_evalB hG hk hy, nview_uniq]
  by_cases h1 : (!n.present L y.store kv.2) = true
  · rw [if_pos h1, if_pos h1]
    cases fix
    · exact sim_pure hk _
    · exact sim_write (keysOk_setUniq hk _ _ _) rfl _
  · rw [if_neg h1, if_neg h1]
    by_cases h2 : kv.1 = n.evalB L y kv.2
    · rw [if_pos h2, if_pos h2]; exact sim_pure hk _
    · rw [if_neg h2, if_neg h2]
      cases fix
      · exact sim_pure hk _
      · exact sim_write (keysOk_setUniq hk _ _ _) rfl _

theorem sim_uqStep2 (hG : G.Ok) {y : NSym} (hy : y ∈ G.syms) (nullable fix : Bool) (id : Id) :
    Sim G L (fun n => uqStep2N L y nullable fix n id) (fun s => uqStep2 y.store y.name nullable fix s id) := by
  intro n hk
  show (uqStep2N L y nullable fix n id).1.KeysOk ∧
    nview G L (uqStep2N L y nullable fix n id).1 = (uqStep2 y.store y.name nullable fix (nview G L n) id).1 ∧
    (uqStep2N L y nullable fix n id).2 = (uqStep2 y.store y.name nullable fix (nview G L n) id).2
  unfold uqStep2N uqStep2
  rw [nview_evalT hG hk hy]
  cases n.evalT L y id with
  | nil => exact sim_pure hk _
  | str fv =>
    dsimp only
    by_cases h1 : fv = []
    · rw [if_pos h1, if_pos h1]; exact sim_pure hk _
    · rw [if_neg h1, if_neg h1]
      have hr : readU (nview G L n) y.store y.name fv = readUN n y fv := rfl
      rw [hr]
      cases readUN n y fv with
      | none =>
        cases fix
        · exact sim_pure hk _
        · refine sim_write ?_ ?_ _
          · unfold uqRepairN; rw [if_neg h1]; exact keysOk_setUniq hk _ _ _
          · unfold uqRepairN uqRepair; rw [if_neg h1, if_neg h1]; rfl
      | some idx =>
        dsimp only
        by_cases h2 : idx = id
        · rw [if_pos h2, if_pos h2]; exact sim_pure hk _
        · rw [if_neg h2, if_neg h2]; exact sim_pure hk _

theorem sim_unique (hG : G.Ok) {y : NSym} (hy : y ∈ G.syms) (nullable fix : Bool) :
    Sim G L (uniqueCheckN L y nullable fix) (uniqueCheck y.store y.name nullable fix) := by
  unfold uniqueCheckN uniqueCheck
  apply sim_seq
  · exact sim_loop _ _ (fun n => n.uniq y.store y.name) (fun s => s.uniq y.store y.name) (fun n _ => rfl)
      (sim_uqStep1 hG hy fix)
  · exact sim_loop _ _ (fun n => n.ids L y.store) (fun s => s.ids y.store) (fun n hk => (nview_ids hk _).symm)
      (sim_uqStep2 hG hy nullable fix)

/-! #### setIndex -/

theorem nview_delIdx (n : NSt) (y : NSym) (key : Bytes) (id : Id) :
    nview G L (n.delIdx y key id) = (nview G L n).delIdx y.store y.name key id := by
  unfold NSt.delIdx St.delIdx
  rw [nview_setx]
  cases get key (n.setx y.store y.name) with
  | none => rfl
  | some v => cases v <;> rfl

theorem keysOk_delIdx {n : NSt} (hk : n.KeysOk) (y : NSym) (key : Bytes) (id : Id) : (n.delIdx y key id).KeysOk := by
  unfold NSt.delIdx
  cases get key (n.setx y.store y.name) with
  | none => exact hk
  | some v => cases v <;> exact hk

theorem nview_addIdx (n : NSt) (y : NSym) (val : Bytes) (id : Id) :
    nview G L (n.addIdx y val id) = (nview G L n).addIdx y.store y.name val id := by
  unfold NSt.addIdx St.addIdx
  rw [nview_setx]
  cases get val (n.setx y.store y.name) with
  | none => rfl
  | some v => cases v <;> rfl

theorem keysOk_addIdx {n : NSt} (hk : n.KeysOk) (y : NSym) (val : Bytes) (id : Id) : (n.addIdx y val id).KeysOk := by
  unfold NSt.addIdx
  cases get val (n.setx y.store y.name) with
  | none => exact hk
  | some v => cases v <;> exact hk

theorem sim_sxInner (hG : G.Ok) {y : NSym} (hy : y ∈ G.syms) (fix : Bool) (key : Bytes) (id : Id) :
    Sim G L (fun n => sxInnerN L y fix key n id) (fun s => sxInner y.store y.name fix key s id) := by
  intro n hk
  show (sxInnerN L y fix key n id).1.KeysOk ∧
    nview G L (sxInnerN L y fix key n id).1 = (sxInner y.store y.name fix key (nview G L n) id).1 ∧
    (sxInnerN L y fix key n id).2 = (sxInner y.store y.name fix key (nview G L n) id).2
  unfold sxInnerN sxInner
  rw [nview_present hk, nview_hasVal hG hk hy]
  by_cases h1 : (!n.present L y.store id) = true
  · rw [if_pos h1, if_pos h1]
    cases fix
    · exact sim_pure hk _
    · exact sim_write (keysOk_delIdx hk _ _ _) (nview_delIdx _ _ _ _) _
  · rw [if_neg h1, if_neg h1]
    by_cases h2 : (!n.hasVal L y id key) = true
    · rw [if_pos h2, if_pos h2]
      cases fix
      · exact sim_pure hk _
      · exact sim_write (keysOk_delIdx hk _ _ _) (nview_delIdx _ _ _ _) _
    · rw [if_neg h2, if_neg h2]; exact sim_pure hk _

theorem sim_sxStep1 (hG : G.Ok) {y : NSym} (hy : y ∈ G.syms) (fix : Bool) (kv : Bytes × SVal) :
    Sim G L (fun n => sxStep1N L y fix n kv) (fun s => sxStep1 y.store y.name fix s kv) := by
  intro n hk
  show (sxStep1N L y fix n kv).1.KeysOk ∧
    nview G L (sxStep1N L y fix n kv).1 = (sxStep1 y.store y.name fix (nview G L n) kv).1 ∧
    (sxStep1N L y fix n kv).2 = (sxStep1 y.store y.name fix (nview G L n) kv).2
  unfold sxStep1N sxStep1
  cases hv : kv.2 with
  | junk =>
    cases fix
    · exact sim_pure hk _
    · exact sim_write (keysOk_setSetx hk _ _ _) rfl _
  | ids l =>
    obtain ⟨k1, v1, r1⟩ := sim_steps (G := G) (L := L) _ _ (sim_sxInner hG hy fix kv.1) l n hk
    exact ⟨k1, v1, by show _ ++ _ = _ ++ _; rw [r1]⟩

theorem sxKept_eq (hG : G.Ok) {y : NSym} (hy : y ∈ G.syms) (fix : Bool) (key : Bytes) {n : NSt} (hk : n.KeysOk)
    (l : List Id) : sxKeptN L y fix key n l = sxKept y.store y.name fix key (nview G L n) l := by
  unfold sxKeptN sxKept
  cases fix
  · rfl
  · simp only [if_true]
    congr 1
    apply List.filter_congr
    intro id _
    rw [nview_present hk, nview_hasVal hG hk hy]

theorem sxToDelete_eq (hG : G.Ok) {y : NSym} (hy : y ∈ G.syms) (fix : Bool) {n : NSt} (hk : n.KeysOk)
    (l : List (Bytes × SVal)) : sxToDeleteN L y fix n l = sxToDelete y.store y.name fix (nview G L n) l := by
  induction l with
  | nil => rfl
  | cons kv t ih =>
    unfold sxToDeleteN sxToDelete
    cases hv : kv.2 with
    | junk => exact ih
    | ids l' =>
      show (if _ then _ else _) = (if _ then _ else _)
      rw [sxKept_eq hG hy fix kv.1 hk, ih]

theorem sim_sxDeleteKeys (y : NSym) (keys : List Bytes) (n : NSt) (hk : n.KeysOk) :
    (sxDeleteKeysN y keys n).KeysOk ∧
      nview G L (sxDeleteKeysN y keys n) = sxDeleteKeys y.store y.name keys (nview G L n) := by
  induction keys generalizing n with
  | nil => exact ⟨hk, rfl⟩
  | cons k t ih =>
    unfold sxDeleteKeysN sxDeleteKeys
    simp only [List.foldl_cons]
    exact ih _ (keysOk_setSetx hk _ _ _)

theorem sim_sxStep2Val (y : NSym) (fix : Bool) (id : Id) (val : Bytes) :
    Sim G L (fun n => sxStep2ValN y fix id n val) (fun s => sxStep2Val y.store y.name fix id s val) := by
  intro n hk
  show (sxStep2ValN y fix id n val).1.KeysOk ∧
    nview G L (sxStep2ValN y fix id n val).1 = (sxStep2Val y.store y.name fix id (nview G L n) val).1 ∧
    (sxStep2ValN y fix id n val).2 = (sxStep2Val y.store y.name fix id (nview G L n) val).2
  have hin : (nview G L n).inIdx y.store y.name val id = n.inIdx y val id := rfl
  unfold sxStep2ValN sxStep2Val
  rw [hin]
  by_cases h1 : n.inIdx y val id = true
  · rw [if_pos h1, if_pos h1]; exact sim_pure hk _
  · rw [if_neg h1, if_neg h1]
    cases fix
    · exact sim_pure hk _
    · exact sim_write (keysOk_addIdx hk _ _ _) (nview_addIdx _ _ _ _) _

theorem sim_sxStep2 (hG : G.Ok) {y : NSym} (hy : y ∈ G.syms) (fix : Bool) (id : Id) :
    Sim G L (fun n => sxStep2N L y fix n id) (fun s => sxStep2 y.store y.name fix s id) := by
  unfold sxStep2N sxStep2
  exact sim_loop _ _ (fun n => n.setOf L y id) (fun s => s.setOf y.store id y.name)
    (fun n hk => (nview_setOf hG hk hy id).symm) (sim_sxStep2Val y fix id)

theorem sim_set (hG : G.Ok) {y : NSym} (hy : y ∈ G.syms) (fix : Bool) :
    Sim G L (setCheckN L y fix) (setCheck y.store y.name fix) := by
  unfold setCheckN setCheck
  apply sim_seq
  · intro n hk
    obtain ⟨k1, v1, r1⟩ := sim_steps (G := G) (L := L) _ _ (sim_sxStep1 hG hy fix) (n.setx y.store y.name) n hk
    obtain ⟨k2, v2⟩ := sim_sxDeleteKeys (G := G) (L := L) y
      (sxToDeleteN L y fix n (n.setx y.store y.name)) _ k1
    refine ⟨k2, ?_, r1⟩
    show nview G L (sxDeleteKeysN y _ _) = sxDeleteKeys y.store y.name _ _
    rw [v2, v1, sxToDelete_eq hG hy fix hk]
    rfl
  · exact sim_loop _ _ (fun n => n.ids L y.store) (fun s => s.ids y.store) (fun n hk => (nview_ids hk _).symm)
      (sim_sxStep2 hG hy fix)

/-! #### fkIndex, fkConstraint -/

theorem sim_fkInner1 (hG : G.Ok) {y z : NSym} (hy : y ∈ G.syms) (hz : z ∈ G.syms) (fix : Bool) (id fkId : Id) :
    Sim G L (fun n => fkInner1N L y z fix id n fkId) (fun s => fkInner1 y.store y.name z.store z.name fix id s fkId) := by
  intro n hk
  show (fkInner1N L y z fix id n fkId).1.KeysOk ∧
    nview G L (fkInner1N L y z fix id n fkId).1 = (fkInner1 y.store y.name z.store z.name fix id (nview G L n) fkId).1 ∧
    (fkInner1N L y z fix id n fkId).2 = (fkInner1 y.store y.name z.store z.name fix id (nview G L n) fkId).2
  unfold fkInner1N fkInner1
  rw [nview_present hk, nview_evalB hG hk hy]
  by_cases h1 : (!n.present L y.store fkId) = true
  · rw [if_pos h1, if_pos h1]
    cases fix
    · exact sim_pure hk _
    · exact sim_write (keysOk_modEnt hk _ _ _ _) (nview_delFromSet L n hG hz _ _) _
  · rw [if_neg h1, if_neg h1]
    by_cases h2 : n.evalB L y fkId = [] ∨ n.evalB L y fkId ≠ id
    · rw [if_pos h2, if_pos h2]
      cases fix
      · exact sim_pure hk _
      · exact sim_write (keysOk_modEnt hk _ _ _ _) (nview_delFromSet L n hG hz _ _) _
    · rw [if_neg h2, if_neg h2]; exact sim_pure hk _

theorem sim_fkStep1 (hG : G.Ok) {y z : NSym} (hy : y ∈ G.syms) (hz : z ∈ G.syms) (fix : Bool) (id : Id) :
    Sim G L (fun n => fkStep1N L y z fix n id) (fun s => fkStep1 y.store y.name z.store z.name fix s id) := by
  unfold fkStep1N fkStep1
  exact sim_loop _ _ (fun n => n.setOf L z id) (fun s => s.setOf z.store id z.name)
    (fun n hk => (nview_setOf hG hk hz id).symm) (sim_fkInner1 hG hy hz fix id)

/-- the dangling-reference branch: attempted for every nullable symbol, wherever it is stored -/
theorem sim_fkDangling (hG : G.Ok) {y : NSym} (hy : y ∈ G.syms) (nullable fix : Bool) (id key : Id) :
    Sim G L (fun n => fkDanglingStepN L y nullable fix n id key) (fun s => fkDanglingStep y.store y.name nullable fix s id key) := by
  intro n hk
  show (fkDanglingStepN L y nullable fix n id key).1.KeysOk ∧
    nview G L (fkDanglingStepN L y nullable fix n id key).1 = (fkDanglingStep y.store y.name nullable fix (nview G L n) id key).1 ∧
    (fkDanglingStepN L y nullable fix n id key).2 = (fkDanglingStep y.store y.name nullable fix (nview G L n) id key).2
  unfold fkDanglingStepN fkDanglingStep
  have hne : (!y.path.isEmpty) = true := by
    have := hG.nonempty y hy
    cases hp : y.path with
    | nil => exact absurd hp this
    | cons a t => rfl
  rw [hne, Bool.and_true]
  cases nullable
  · exact sim_pure hk _
  · cases fix
    · exact sim_pure hk _
    · exact sim_write (keysOk_modEnt hk _ _ _ _) (nview_putNilAtPath L n hG hy id) _

theorem sim_fkStep2 (hG : G.Ok) {y z : NSym} (hy : y ∈ G.syms) (hz : z ∈ G.syms) (nullable fix : Bool) (id : Id) :
    Sim G L (fun n => fkStep2N L y nullable z fix n id) (fun s => fkStep2 y.store y.name nullable z.store z.name fix s id) := by
  intro n hk
  show (fkStep2N L y nullable z fix n id).1.KeysOk ∧
    nview G L (fkStep2N L y nullable z fix n id).1 = (fkStep2 y.store y.name nullable z.store z.name fix (nview G L n) id).1 ∧
    (fkStep2N L y nullable z fix n id).2 = (fkStep2 y.store y.name nullable z.store z.name fix (nview G L n) id).2
  unfold fkStep2N fkStep2
  rw [nview_evalB hG hk hy, nview_present hk, nview_hasBack hG hk hz]
  by_cases h1 : n.evalB L y id = []
  · rw [if_pos h1, if_pos h1]; exact sim_pure hk _
  · rw [if_neg h1, if_neg h1]
    by_cases h2 : (!n.present L z.store (n.evalB L y id)) = true
    · rw [if_pos h2, if_pos h2]
      exact sim_fkDangling hG hy nullable fix id _ n hk
    · rw [if_neg h2, if_neg h2]
      by_cases h3 : n.hasBack L z (n.evalB L y id) id = true
      · rw [if_pos h3, if_pos h3]; exact sim_pure hk _
      · rw [if_neg h3, if_neg h3]
        cases fix
        · exact sim_pure hk _
        · exact sim_write (keysOk_modEnt hk _ _ _ _) (nview_addToSet L n hG hz _ _) _

theorem sim_fkIndex (hG : G.Ok) {y z : NSym} (hy : y ∈ G.syms) (hz : z ∈ G.syms) (nullable fix : Bool) :
    Sim G L (fkIndexCheckN L y nullable z fix) (fkIndexCheck y.store y.name nullable z.store z.name fix) := by
  unfold fkIndexCheckN fkIndexCheck
  apply sim_seq
  · exact sim_loop _ _ (fun n => n.ids L z.store) (fun s => s.ids z.store) (fun n hk => (nview_ids hk _).symm)
      (sim_fkStep1 hG hy hz fix)
  · exact sim_loop _ _ (fun n => n.ids L y.store) (fun s => s.ids y.store) (fun n hk => (nview_ids hk _).symm)
      (sim_fkStep2 hG hy hz nullable fix)

theorem sim_fcStep (hG : G.Ok) {y : NSym} (hy : y ∈ G.syms) (nullable : Bool) (linked : Name) (fix : Bool) (id : Id) :
    Sim G L (fun n => fcStepN L y nullable linked fix n id) (fun s => fcStep y.store y.name nullable linked fix s id) := by
  intro n hk
  show (fcStepN L y nullable linked fix n id).1.KeysOk ∧
    nview G L (fcStepN L y nullable linked fix n id).1 = (fcStep y.store y.name nullable linked fix (nview G L n) id).1 ∧
    (fcStepN L y nullable linked fix n id).2 = (fcStep y.store y.name nullable linked fix (nview G L n) id).2
  unfold fcStepN fcStep
  rw [nview_evalB hG hk hy, nview_present hk]
  by_cases h1 : n.evalB L y id = []
  · rw [if_pos h1, if_pos h1]; exact sim_pure hk _
  · rw [if_neg h1, if_neg h1]
    by_cases h2 : (!n.present L linked (n.evalB L y id)) = true
    · rw [if_pos h2, if_pos h2]
      exact sim_fkDangling hG hy nullable fix id _ n hk
    · rw [if_neg h2, if_neg h2]; exact sim_pure hk _

theorem sim_fkCons (hG : G.Ok) {y : NSym} (hy : y ∈ G.syms) (nullable : Bool) (linked : Name) (fix : Bool) :
    Sim G L (fkConsCheckN L y nullable linked fix) (fkConsCheck y.store y.name nullable linked fix) := by
  unfold fkConsCheckN fkConsCheck
  exact sim_loop _ _ (fun n => n.ids L y.store) (fun s => s.ids y.store) (fun n hk => (nview_ids hk _).symm)
    (sim_fcStep hG hy nullable linked fix)

/-! #### link collections -/

theorem sim_lkInner (hG : G.Ok) {y z : NSym} (hz : z ∈ G.syms) (fix : Bool) (id linkId : Id) :
    Sim G L (fun n => lkInnerN L y z fix id n linkId) (fun s => lkInner y.store y.name z.store z.name fix id s linkId) := by
  intro n hk
  show (lkInnerN L y z fix id n linkId).1.KeysOk ∧
    nview G L (lkInnerN L y z fix id n linkId).1 = (lkInner y.store y.name z.store z.name fix id (nview G L n) linkId).1 ∧
    (lkInnerN L y z fix id n linkId).2 = (lkInner y.store y.name z.store z.name fix id (nview G L n) linkId).2
  unfold lkInnerN lkInner
  rw [nview_present hk, nview_hasBack hG hk hz]
  by_cases h1 : (!n.present L z.store linkId) = true
  · rw [if_pos h1, if_pos h1]; exact sim_pure hk _
  · rw [if_neg h1, if_neg h1]
    by_cases h2 : (!n.hasBack L z linkId id) = true
    · rw [if_pos h2, if_pos h2]
      cases fix
      · exact sim_pure hk _
      · exact sim_write (keysOk_modEnt hk _ _ _ _) (nview_addToSet L n hG hz _ _) _
    · rw [if_neg h2, if_neg h2]; exact sim_pure hk _

theorem sim_lkRemoveAll (hG : G.Ok) {y : NSym} (hy : y ∈ G.syms) (id : Id) (D : List Id) (n : NSt) (hk : n.KeysOk) :
    (lkRemoveAllN L y id D n).KeysOk ∧
      nview G L (lkRemoveAllN L y id D n) = lkRemoveAll y.store y.name id D (nview G L n) := by
  induction D generalizing n with
  | nil => exact ⟨hk, rfl⟩
  | cons d t ih =>
    unfold lkRemoveAllN lkRemoveAll
    simp only [List.foldl_cons]
    rw [← nview_delFromSet L n hG hy]
    exact ih _ (keysOk_modEnt hk _ _ _ _)

theorem sim_lkStep (hG : G.Ok) {y z : NSym} (hy : y ∈ G.syms) (hz : z ∈ G.syms) (fix : Bool) (id : Id) :
    Sim G L (fun n => lkStepN L y z fix n id) (fun s => lkStep y.store y.name z.store z.name fix s id) := by
  intro n hk
  show (lkStepN L y z fix n id).1.KeysOk ∧
    nview G L (lkStepN L y z fix n id).1 = (lkStep y.store y.name z.store z.name fix (nview G L n) id).1 ∧
    (lkStepN L y z fix n id).2 = (lkStep y.store y.name z.store z.name fix (nview G L n) id).2
  unfold lkStepN lkStep
  simp only [nview_setOf hG hk hy]
  obtain ⟨k1, v1, r1⟩ := sim_steps (G := G) (L := L) _ _ (sim_lkInner (y := y) hG hz fix id) (n.setOf L y id) n hk
  cases fix
  · exact ⟨k1, v1, r1⟩
  · have hf : ((n.setOf L y id).filter fun l => !(nview G L n).present z.store l) =
        (n.setOf L y id).filter fun l => !n.present L z.store l := by
      apply List.filter_congr
      intro l _
      rw [nview_present hk]
    obtain ⟨k2, v2⟩ := sim_lkRemoveAll (G := G) (L := L) hG hy id
      ((n.setOf L y id).filter fun l => !n.present L z.store l) _ k1
    refine ⟨k2, ?_, r1⟩
    show nview G L (lkRemoveAllN L y id _ _) = lkRemoveAll y.store y.name id _ _
    rw [v2, v1, hf]

theorem sim_link (hG : G.Ok) {y z : NSym} (hy : y ∈ G.syms) (hz : z ∈ G.syms) (hasInv fix : Bool) :
    Sim G L (linkCheckN L y z hasInv fix) (linkCheck y.store y.name z.store z.name hasInv fix) := by
  unfold linkCheckN linkCheck
  apply sim_seq
  · exact fun n hk => ⟨hk, rfl, rfl⟩
  · exact sim_loop _ _ (fun n => n.ids L y.store) (fun s => s.ids y.store) (fun n hk => (nview_ids hk _).symm)
      (sim_lkStep hG hy hz fix)

/-! #### constraints, stores, the whole run -/

theorem mem_syms_of_constraint {sd : NStoreDef} (hsd : sd ∈ G.stores) {c : NConstraint} (hc : c ∈ sd.constraints)
    {y : NSym} (hy : y ∈ c.syms) : y ∈ G.syms := by
  unfold NSchema.syms
  refine List.mem_flatMap.2 ⟨sd, hsd, ?_⟩
  unfold NStoreDef.syms
  exact List.mem_append_right _ (List.mem_flatMap.2 ⟨c, hc, hy⟩)

theorem mem_syms_of_link {sd : NStoreDef} (hsd : sd ∈ G.stores) {lc : NLinkColl} (hlc : lc ∈ sd.links) :
    lc.field ∈ G.syms ∧ lc.other ∈ G.syms := by
  have h : ∀ y ∈ [lc.field, lc.other], y ∈ G.syms := by
    intro y hy
    unfold NSchema.syms
    refine List.mem_flatMap.2 ⟨sd, hsd, ?_⟩
    unfold NStoreDef.syms
    exact List.mem_append_left _ (List.mem_flatMap.2 ⟨lc, hlc, hy⟩)
  exact ⟨h _ (by simp), h _ (by simp)⟩

theorem sim_constraint (hG : G.Ok) {sd : NStoreDef} (hsd : sd ∈ G.stores) {c : NConstraint}
    (hc : c ∈ sd.constraints) (fix : Bool) : Sim G L (c.check L fix) (c.flat.check fix) := by
  cases c with
  | unique y n => exact sim_unique hG (mem_syms_of_constraint hsd hc (by simp [NConstraint.syms])) n fix
  | setIdx y => exact sim_set hG (mem_syms_of_constraint hsd hc (by simp [NConstraint.syms])) fix
  | fkIndex y n z =>
    exact sim_fkIndex hG (mem_syms_of_constraint hsd hc (by simp [NConstraint.syms]))
      (mem_syms_of_constraint hsd hc (by simp [NConstraint.syms])) n fix
  | fkCons y n linked =>
    exact sim_fkCons hG (mem_syms_of_constraint hsd hc (by simp [NConstraint.syms])) n linked fix
  | noop => exact sim_skip G L

theorem sim_linkColl (hG : G.Ok) {sd : NStoreDef} (hsd : sd ∈ G.stores) {lc : NLinkColl} (hlc : lc ∈ sd.links)
    (fix : Bool) : Sim G L (lc.check G L fix) (lc.flat.check G.flat fix) := by
  unfold NLinkColl.check LinkColl.check
  rw [hG.inverse sd hsd lc hlc]
  obtain ⟨h1, h2⟩ := mem_syms_of_link hsd hlc
  exact sim_link hG h1 h2 _ fix

theorem sim_store (hG : G.Ok) {sd : NStoreDef} (hsd : sd ∈ G.stores) (fix : Bool) :
    Sim G L (sd.check G L fix) (sd.flat.check G.flat fix) := by
  unfold NStoreDef.check StoreDef.check NStoreDef.flat
  simp only [List.map_map]
  apply sim_seq
  · exact sim_seqAll _ _ _ fun lc hlc => sim_linkColl hG hsd hlc fix
  · exact sim_seqAll _ _ _ fun c hc => sim_constraint hG hsd hc fix

/-- **the run over names, keys and declaring stores is the run over the flat view** (any sublist / order of
    the schema's stores: one store in a transaction of its own, all stores, the reverse order) -/
theorem sim_stores (hG : G.Ok) (fix : Bool) (sds : List NStoreDef) (hs : ∀ sd ∈ sds, sd ∈ G.stores) :
    Sim G L (checkStoresN G L fix sds) (seqAll ((sds.map NStoreDef.flat).map (StoreDef.check G.flat fix))) := by
  unfold checkStoresN
  rw [List.map_map]
  exact sim_seqAll _ _ _ fun sd hsd => sim_store hG (hs sd hsd) fix

theorem sim_checkAll (hG : G.Ok) (fix : Bool) : Sim G L (checkAllN G L fix) (checkAll G.flat fix) :=
  sim_stores hG fix G.stores fun _ h => h

end StorageModel.C09
