import StorageModel.C09.Spec
import StorageModel.C09.Layered
/-
  The concrete schema (`uniSchema`) the C09 harness wires through the exported API (harness/c09_store.go), and
  helpers to build concrete states.  The theorems are schema-generic; this file is used by the
  driver and by the non-vacuity examples.
-/
namespace StorageModel.C09
open StorageModel

def things : Name := "things"
def owners : Name := "owners"
/-- EXTENDED child store of `things` (data bucket `ext` inside the thing's entity bucket) -/
def thingsX : Name := "things_x"
/-- PLAIN child store of `things` (data bucket `pl`) -/
def thingsP : Name := "things_p"

/-- the layering of the harness stores -/
def uniLayering : Layering := [⟨thingsX, things, true⟩, ⟨thingsP, things, false⟩]

/-- registration order = order of `BaseStore.CheckIntegrity`'s fan-out -/
def uniSchema : Schema :=
  [ { name := things
      links := [⟨things, "groups", owners, "members"⟩]
      constraints :=
        [ .unique things "name" false,
          .unique things "alias" true,
          .setIdx things "roles",
          .fkIndex things "owner" true owners "things",
          .fkIndex things "home" false owners "residents",
          .fkCons things "dep" true owners,
          .fkCons things "req" false owners,
          .fkIndex things "boss" true things "minions",
          .noop ] },
    -- the child stores carry their own constraints on their own fields; their index buckets live under
    -- the PARENT's entity type (`indexes/things/<field>`), the model names them by the child store
    { name := thingsX
      links := []
      constraints :=
        [ .unique thingsX "badge" false,
          .unique thingsX "tag" true,
          .setIdx thingsX "caps",
          .fkCons thingsX "sponsor" false owners ] },
    { name := thingsP
      links := []
      constraints :=
        [ .unique thingsP "code" false,
          .unique thingsP "nick" true,
          .setIdx thingsP "marks" ] },
    { name := owners
      links := [⟨owners, "members", things, "groups"⟩]
      constraints :=
        [ .noop, .noop, .noop, .noop,
          .unique owners "label" true ] } ]

def scalarsOf (st : Name) : List Name :=
  if st = things then ["name", "alias", "owner", "home", "dep", "req", "boss"]
  else if st = owners then ["label"]
  else if st = thingsX then ["badge", "tag", "sponsor"]
  else if st = thingsP then ["code", "nick"] else []

def setsOf (st : Name) : List Name :=
  if st = things then ["roles", "groups", "minions"]
  else if st = owners then ["things", "residents", "members"]
  else if st = thingsX then ["caps"]
  else if st = thingsP then ["marks"] else []

def storeOrder : List Name := [things, thingsX, thingsP, owners]
def uniqueIdxs : List (Name × Name) :=
  [(things, "name"), (things, "alias"), (thingsX, "badge"), (thingsX, "tag"), (thingsP, "code"), (thingsP, "nick"),
   (owners, "label")]
def setIdxs : List (Name × Name) := [(things, "roles"), (thingsX, "caps"), (thingsP, "marks")]

def assoc {V : Type} (d : V) (l : List (Name × V)) (k : Name) : V :=
  match l with
  | [] => d
  | p :: t => if k = p.1 then p.2 else assoc d t k

def mkEnt (fields : List (Name × FVal)) (sets : List (Name × List Bytes)) : Ent :=
  { fields := assoc .nil fields, sets := assoc [] sets }

def assoc2 {V : Type} (d : V) (l : List ((Name × Name) × V)) (a b : Name) : V :=
  match l with
  | [] => d
  | p :: t => if a = p.1.1 ∧ b = p.1.2 then p.2 else assoc2 d t a b

def mkSt (ents : List (Name × List (Id × Ent))) (uniq : List ((Name × Name) × List (Bytes × Id)))
    (setx : List ((Name × Name) × List (Bytes × SVal))) : St :=
  { ents := assoc [] ents, uniq := assoc2 [] uniq, setx := assoc2 [] setx }

/-! ### finite descriptions of states (driver input, examples) -/

structure EntD where
  id : Id
  fields : List (Name × FVal)
  sets : List (Name × List Bytes)
  deriving DecidableEq, Repr

structure StD where
  ents : List (Name × List EntD)
  uniq : List ((Name × Name) × List (Bytes × Id))
  setx : List ((Name × Name) × List (Bytes × SVal))
  deriving Repr

def EntD.toEnt (d : EntD) : Id × Ent := (d.id, mkEnt d.fields d.sets)

def StD.toSt (d : StD) : St :=
  mkSt (d.ents.map fun p => (p.1, p.2.map EntD.toEnt)) d.uniq d.setx

/-- the physical, layered database of a description: the records of a child store become the nested
    data buckets of the parent's entities -/
def StD.toPSt (L : Layering) (d : StD) : PSt :=
  { ents := fun r => (assoc [] d.ents r).map fun e =>
      (e.id,
        { own := mkEnt e.fields e.sets
          child := fun c =>
            match L.decl c with
            | some dc =>
              if dc.parent = r then ((assoc [] d.ents c).find? fun ce => ce.id = e.id).map fun ce => mkEnt ce.fields ce.sets
              else none
            | none => none })
    uniq := assoc2 [] d.uniq
    setx := assoc2 [] d.setx }

def nodupKeysB {V : Type} (l : List (Bytes × V)) : Bool := decide (l.map (·.1)).Nodup

/-- the finite well-formedness check of a description -/
def StD.wfB (d : StD) : Bool :=
  d.ents.all (fun p => decide ((p.2.map (·.id)).Nodup) && p.2.all fun e => e.sets.all fun q => decide q.2.Nodup)
  && d.uniq.all (fun p => nodupKeysB p.2 && p.2.all fun kv => decide (kv.1 ≠ []))
  && d.setx.all (fun p => nodupKeysB p.2 && p.2.all fun kv =>
      match kv.2 with
      | .ids l => decide l.Nodup
      | .junk => true)

theorem assoc_prop {V : Type} (P : V → Prop) (d : V) (l : List (Name × V)) (hd : P d)
    (hl : ∀ p ∈ l, P p.2) (k : Name) : P (assoc d l k) := by
  induction l with
  | nil => exact hd
  | cons p t ih =>
    unfold assoc
    split
    · exact hl p (List.mem_cons_self ..)
    · exact ih fun q hq => hl q (List.mem_cons_of_mem _ hq)

theorem assoc2_prop {V : Type} (P : V → Prop) (d : V) (l : List ((Name × Name) × V)) (hd : P d)
    (hl : ∀ p ∈ l, P p.2) (a b : Name) : P (assoc2 d l a b) := by
  induction l with
  | nil => exact hd
  | cons p t ih =>
    unfold assoc2
    split
    · exact hl p (List.mem_cons_self ..)
    · exact ih fun q hq => hl q (List.mem_cons_of_mem _ hq)

theorem StD.wf (d : StD) (h : d.wfB = true) : d.toSt.WF := by
  unfold StD.wfB at h
  simp only [Bool.and_eq_true, List.all_eq_true, decide_eq_true_eq] at h
  obtain ⟨⟨hE, hU⟩, hX⟩ := h
  refine ⟨?_, ?_, ?_, ?_, ?_, ?_⟩
  · intro st
    refine assoc_prop (fun l => NodupKeys l) [] _ (by simp [NodupKeys]) ?_ st
    intro p hp
    obtain ⟨q, hq, rfl⟩ := List.mem_map.1 hp
    have := (hE q hq).1
    simp only [NodupKeys, List.map_map]
    exact this
  · intro st f
    refine assoc2_prop (fun l => NodupKeys l) [] _ (by simp [NodupKeys]) ?_ st f
    intro p hp
    have := (hU p hp).1
    simpa [nodupKeysB, NodupKeys] using this
  · intro st f
    refine assoc2_prop (fun l => NodupKeys l) [] _ (by simp [NodupKeys]) ?_ st f
    intro p hp
    have := (hX p hp).1
    simpa [nodupKeysB, NodupKeys] using this
  · intro st f
    refine assoc2_prop (fun (l : List (Bytes × Id)) => ∀ kv ∈ l, kv.1 ≠ []) [] _ (by simp) ?_ st f
    intro p hp kv hkv
    exact (hU p hp).2 kv hkv
  · intro st
    refine assoc_prop (fun (l : List (Id × Ent)) => ∀ p f, p ∈ l → (p.2.sets f).Nodup) [] _ (by simp) ?_ st
    intro p hp q f hq
    obtain ⟨p0, hp0, rfl⟩ := List.mem_map.1 hp
    obtain ⟨e, he, rfl⟩ := List.mem_map.1 hq
    show (assoc [] e.sets f).Nodup
    refine assoc_prop (fun (l : List Bytes) => l.Nodup) [] _ List.nodup_nil ?_ f
    intro x hx
    exact (hE p0 hp0).2 e he x hx
  · intro st f
    refine assoc2_prop (fun (l : List (Bytes × SVal)) => ∀ kv l', kv ∈ l → kv.2 = SVal.ids l' → l'.Nodup) [] _ (by simp) ?_ st f
    intro p hp kv l' hkv hl'
    have := (hX p hp).2 kv hkv
    rw [hl'] at this
    simpa using this

end StorageModel.C09
