import StorageModel.C09.Model
/-
  C09 — specification side: what an inconsistency *is*, computed directly from the state as the
  symmetric difference between each index / back-reference list / link list and the image of
  the entity table.  Nothing here mentions the checker's loops.
-/
namespace StorageModel.C09
open StorageModel

/-- a discrepancy between redundant state and the entity table -/
inductive Disc
  /-- unique index holds `key → id` although entity `id` is missing or its field is not `key` -/
  | uqExtra (st f : Name) (key : Bytes) (id : Id)
  /-- entity `id` has the (non-empty) value `val` but the index does not hold `val → id` -/
  | uqMissing (st f : Name) (val : Bytes) (id : Id)
  /-- value bucket `key` lists `id` although the entity is missing or does not hold `key` -/
  | sxExtra (st f : Name) (key : Bytes) (id : Id)
  | sxMissing (st f : Name) (val : Bytes) (id : Id)
  | sxEmptyKey (st f : Name) (key : Bytes)
  | sxJunkKey (st f : Name) (key : Bytes)
  /-- `target` lists `src` as a referrer although `src` is missing or refers elsewhere -/
  | fkBackExtra (st f : Name) (target src : Id)
  | fkBackMissing (st f : Name) (src target : Id)
  /-- `src.f = target` and `target` does not exist -/
  | fkDangling (st f : Name) (src target : Id)
  /-- nil in a non-nullable field -/
  | null (st f : Name) (id : Id)
  | lkDangling (st f : Name) (id link : Id)
  | lkOneSided (st f : Name) (id link : Id)
  | lkNoInverse (st f : Name)
  deriving DecidableEq, Repr

/-- what a report is about -/
def Report.about (r : Report) : Disc :=
  match r.msg with
  | .uqDangling k id => .uqExtra r.store r.field k id
  | .uqStale k id _ => .uqExtra r.store r.field k id
  | .uqNull id => .null r.store r.field id
  | .uqMissing v id => .uqMissing r.store r.field v id
  | .uqDup v _ id => .uqMissing r.store r.field v id
  | .sxDangling k id => .sxExtra r.store r.field k id
  | .sxStale k id => .sxExtra r.store r.field k id
  | .sxEmpty k => .sxEmptyKey r.store r.field k
  | .sxJunk k => .sxJunkKey r.store r.field k
  | .sxMissing v id => .sxMissing r.store r.field v id
  | .fkBackDangling t s => .fkBackExtra r.store r.field t s
  | .fkBackStale t s _ => .fkBackExtra r.store r.field t s
  | .fkNull id => .null r.store r.field id
  | .fkDangling id t => .fkDangling r.store r.field id t
  | .fkBackMissing id t => .fkBackMissing r.store r.field id t
  | .lkDangling id l => .lkDangling r.store r.field id l
  | .lkOneSided id l => .lkOneSided r.store r.field id l
  | .lkNoInverse => .lkNoInverse r.store r.field

/-! ### images of the entity table -/

/-- `(value, id)` pairs a scalar field contributes to an index: non-nil, non-empty values
    (the CRUD path never indexes the empty string) -/
def scalarImage (s : St) (st f : Name) : List (Bytes × Id) :=
  (s.ents st).filterMap fun p =>
    match p.2.fields f with
    | .str v => if v = [] then none else some (v, p.1)
    | .nil => none

/-- `(element, id)` pairs of a list field -/
def listImage (s : St) (st f : Name) : List (Bytes × Id) :=
  (s.ents st).flatMap fun p => (p.2.sets f).map fun v => (v, p.1)

/-- `(key, id)` pairs held by a set index -/
def setxPairs (s : St) (st f : Name) : List (Bytes × Id) :=
  (s.setx st f).flatMap fun kv =>
    match kv.2 with
    | .ids l => l.map fun id => (kv.1, id)
    | .junk => []

/-- entities whose field is nil or the empty string (neither is ever indexed, and a non-nullable
    field accepts neither) -/
def nullOrEmptyIds (s : St) (st f : Name) : List Id :=
  (s.ents st).filterMap fun p => if (p.2.fields f).bytes = [] then some p.1 else none

/-! ### inconsistencies per constraint -/

def uniqueDiscs (s : St) (st f : Name) (nullable : Bool) : List Disc :=
  ((s.uniq st f).filter fun kv => !(scalarImage s st f).contains kv).map (fun kv => .uqExtra st f kv.1 kv.2)
  ++ ((scalarImage s st f).filter fun vi => !(s.uniq st f).contains vi).map (fun vi => .uqMissing st f vi.1 vi.2)
  ++ (if nullable then [] else (nullOrEmptyIds s st f).map fun id => .null st f id)

def setDiscs (s : St) (st f : Name) : List Disc :=
  ((setxPairs s st f).filter fun kv => !(listImage s st f).contains kv).map (fun kv => .sxExtra st f kv.1 kv.2)
  ++ ((listImage s st f).filter fun vi => !(setxPairs s st f).contains vi).map (fun vi => .sxMissing st f vi.1 vi.2)
  ++ (s.setx st f).filterMap fun kv =>
      match kv.2 with
      | .junk => some (.sxJunkKey st f kv.1)
      | .ids [] => some (.sxEmptyKey st f kv.1)
      | .ids _ => none

def fkIndexDiscs (s : St) (st f : Name) (nullable : Bool) (fkSt fkF : Name) : List Disc :=
  -- back-reference pairs (referrer, target) held by the targets
  (((listImage s fkSt fkF).filter fun rt => !(scalarImage s st f).contains (rt.2, rt.1)).map
      fun rt => .fkBackExtra st f rt.2 rt.1)
  ++ ((scalarImage s st f).filterMap fun ti =>
      if !s.present fkSt ti.1 then some (.fkDangling st f ti.2 ti.1)
      else if !(listImage s fkSt fkF).contains (ti.2, ti.1) then some (.fkBackMissing st f ti.2 ti.1)
      else none)
  ++ (if nullable then [] else (nullOrEmptyIds s st f).map fun id => .null st f id)

def fkConsDiscs (s : St) (st f : Name) (nullable : Bool) (linked : Name) : List Disc :=
  ((scalarImage s st f).filterMap fun ti =>
      if !s.present linked ti.1 then some (.fkDangling st f ti.2 ti.1) else none)
  ++ (if nullable then [] else (nullOrEmptyIds s st f).map fun id => .null st f id)

def linkDiscs (S : Schema) (s : St) (lc : LinkColl) : List Disc :=
  (if S.hasInverse lc then [] else [.lkNoInverse lc.st lc.f])
  ++ (listImage s lc.st lc.f).filterMap fun li =>
      if !s.present lc.oSt li.1 then some (.lkDangling lc.st lc.f li.2 li.1)
      else if !(listImage s lc.oSt lc.oF).contains (li.2, li.1) then some (.lkOneSided lc.st lc.f li.2 li.1)
      else none

def Constraint.discs (s : St) : Constraint → List Disc
  | .unique st f n => uniqueDiscs s st f n
  | .setIdx st f => setDiscs s st f
  | .fkIndex st f n fkSt fkF => fkIndexDiscs s st f n fkSt fkF
  | .fkCons st f n linked => fkConsDiscs s st f n linked
  | .noop => []

def StoreDef.discs (S : Schema) (s : St) (sd : StoreDef) : List Disc :=
  sd.links.flatMap (linkDiscs S s) ++ sd.constraints.flatMap (Constraint.discs s)

/-- **S.inconsistencies** -/
def inconsistencies (S : Schema) (s : St) : List Disc := S.flatMap (StoreDef.discs S s)

/-- the consistent states: no discrepancy at all -/
def Inv (S : Schema) (s : St) : Prop := inconsistencies S s = []

instance (S : Schema) (s : St) : Decidable (Inv S s) := by unfold Inv; infer_instance

/-! ### what a fix run may leave behind -/

def Schema.constraints (S : Schema) : List Constraint := S.flatMap (·.constraints)

/-- is `(st, f)` a non-nullable foreign key (index or constraint) -/
def Schema.nonNullFk (S : Schema) (st f : Name) : Bool :=
  S.constraints.any fun c =>
    match c with
    | .fkIndex st' f' n _ _ => st' == st && f' == f && !n
    | .fkCons st' f' n _ => st' == st && f' == f && !n
    | _ => false

/-- genuine data conflicts: duplicate unique value, null in a non-nullable field, dangling
    reference in a non-nullable foreign key (and a link collection without inverse, which is a
    property of the schema, not of the data) -/
def Unfixable (S : Schema) (r : Report) : Prop :=
  match r.msg with
  | .uqDup _ _ _ => True
  | .uqNull _ => True
  | .fkNull _ => True
  | .fkDangling _ _ => S.nonNullFk r.store r.field = true
  | .lkNoInverse => True
  | _ => False

instance (S : Schema) (r : Report) : Decidable (Unfixable S r) := by
  unfold Unfixable; split <;> infer_instance

/-- the discrepancies that are data conflicts -/
def Disc.conflict (S : Schema) (s : St) : Disc → Prop
  | .uqMissing st f v id => ∃ id', id' ≠ id ∧ (v, id') ∈ s.uniq st f
  | .null _ _ _ => True
  | .fkDangling st f _ _ => S.nonNullFk st f = true
  | .lkNoInverse _ _ => True
  | _ => False

/-- indexes mirror the entities, except for data conflicts -/
def MirrorsModuloConflicts (S : Schema) (s : St) : Prop :=
  ∀ d ∈ inconsistencies S s, d.conflict S s

/-! ### well-formedness of a state (what bbolt guarantees, plus non-empty keys) -/

def NodupKeys {V : Type} (l : List (Bytes × V)) : Prop := (l.map (·.1)).Nodup

structure St.WF (s : St) : Prop where
  ents : ∀ st, NodupKeys (s.ents st)
  uniq : ∀ st f, NodupKeys (s.uniq st f)
  setx : ∀ st f, NodupKeys (s.setx st f)
  /-- bbolt refuses empty keys -/
  uniqKey : ∀ st f kv, kv ∈ s.uniq st f → kv.1 ≠ []
  sets : ∀ st p f, p ∈ s.ents st → (p.2.sets f).Nodup
  idsNodup : ∀ st f kv l, kv ∈ s.setx st f → kv.2 = .ids l → l.Nodup

end StorageModel.C09
