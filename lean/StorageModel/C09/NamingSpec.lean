import StorageModel.C09.NamingSim
/-
  C09 — specification and transport for schemas with names, keys / paths and declaring stores.

  * what an inconsistency is: `inconsistenciesN G L n` — the symmetric difference between every index /
    back-reference list / link list and the image of the entity table, where the value of a symbol of an
    entity is what is stored at the symbol's PATH inside the bucket its STORE's `GetEntityBucket` returns, and
    an index is the bucket named by the symbol's NAME (`inconsistencies` of C09/Spec.lean over `nview`);
  * well-formedness of the physical database (`NSt.WF`: what bbolt gives) and `nview_wf`;
  * a check-only run returns the PHYSICAL database unchanged (`checkAllN_false`, proved on the physical model:
    also the keys no symbol of the schema names are untouched);
  * a fix run writes entity buckets only at paths of declared symbols (`checkAllN_frame`): whatever is stored
    under a key that is not the path of a declared symbol of that store — in particular under a symbol's NAME
    when the name is not a key — is exactly what it was.
-/
namespace StorageModel.C09
open StorageModel

def inconsistenciesN (G : NSchema) (L : Layering) (n : NSt) : List Disc := inconsistencies G.flat (nview G L n)

/-- the consistent physical databases -/
def InvN (G : NSchema) (L : Layering) (n : NSt) : Prop := inconsistenciesN G L n = []

instance (G : NSchema) (L : Layering) (n : NSt) : Decidable (InvN G L n) := by unfold InvN; infer_instance

/-- what bbolt guarantees of the physical database: distinct keys per bucket, non-empty unique-index keys,
    distinct elements per list bucket -/
structure NSt.WF (n : NSt) : Prop where
  ents : ∀ r, NodupKeys (n.ents r)
  uniq : ∀ st f, NodupKeys (n.uniq st f)
  setx : ∀ st f, NodupKeys (n.setx st f)
  uniqKey : ∀ st f kv, kv ∈ n.uniq st f → kv.1 ≠ []
  own : ∀ r q p, q ∈ n.ents r → (q.2.own.sets p).Nodup
  child : ∀ r q c e p, q ∈ n.ents r → q.2.child c = some e → (e.sets p).Nodup
  idsNodup : ∀ st f kv l, kv ∈ n.setx st f → kv.2 = .ids l → l.Nodup

theorem NSt.WF.keysOk {n : NSt} (h : n.WF) : n.KeysOk := h.ents

theorem view_sets_nodup (G : NSchema) (st : Name) (e : NEnt) (h : ∀ p, (e.sets p).Nodup) (f : Name) :
    ((e.view G st).sets f).Nodup := by
  simp only [NEnt.view]
  cases G.pathOf st f with
  | none => exact List.nodup_nil
  | some p => exact h p

theorem rename_wf (G : NSchema) {n : NSt} (h : n.WF) : (n.rename G).WF := by
  refine ⟨rename_keysOk h.keysOk, h.uniq, h.setx, h.uniqKey, ?_, ?_, h.idsNodup⟩
  · intro r q f hq
    simp only [NSt.rename] at hq
    obtain ⟨q0, hq0, rfl⟩ := List.mem_map.1 hq
    exact view_sets_nodup G r q0.2.own (fun p => h.own r q0 p hq0) f
  · intro r q c e f hq hc
    simp only [NSt.rename] at hq
    obtain ⟨q0, hq0, rfl⟩ := List.mem_map.1 hq
    simp only at hc
    cases hc0 : q0.2.child c with
    | none => rw [hc0] at hc; cases hc
    | some e0 =>
      rw [hc0] at hc
      simp only [Option.map_some, Option.some.injEq] at hc
      subst hc
      exact view_sets_nodup G c e0 (fun p => h.child r q0 c e0 p hq0 hc0) f

/-- the view of a well-formed physical database is a well-formed state -/
theorem nview_wf (G : NSchema) (L : Layering) {n : NSt} (h : n.WF) : (nview G L n).WF :=
  view_wf L _ (rename_wf G h)

/-! ### a check-only run does not write: the PHYSICAL database is returned as it was -/

def IdN (a : NProc) : Prop := ∀ n, (a n).1 = n

theorem IdN.seq {a b : NProc} (ha : IdN a) (hb : IdN b) : IdN (a.seq b) := by
  intro n
  show (b (a n).1).1 = n
  rw [ha n, hb n]

theorem IdN.seqAll {α : Type} (f : α → NProc) (l : List α) (h : ∀ x ∈ l, IdN (f x)) : IdN (seqAllN (l.map f)) := by
  induction l with
  | nil => exact fun _ => rfl
  | cons x t ih => exact IdN.seq (h x (List.mem_cons_self ..)) (ih fun y hy => h y (List.mem_cons_of_mem _ hy))

theorem runStepsN_id {α : Type} (step : NSt → α → NSt × List Report) (h : ∀ n a, (step n a).1 = n) (l : List α) (n : NSt) :
    (runStepsN step l n).1 = n := by
  induction l with
  | nil => rfl
  | cons a t ih =>
    show (runStepsN step t (step n a).1).1 = n
    rw [h, ih]

theorem uqStep1N_false (L : Layering) (y : NSym) (n : NSt) (kv : Bytes × Id) : (uqStep1N L y false n kv).1 = n := by
  unfold uqStep1N; split
  · rfl
  · split <;> rfl

theorem uqStep2N_false (L : Layering) (y : NSym) (nl : Bool) (n : NSt) (id : Id) : (uqStep2N L y nl false n id).1 = n := by
  unfold uqStep2N; split
  · rfl
  · split
    · rfl
    · split
      · rfl
      · split <;> rfl

theorem sxInnerN_false (L : Layering) (y : NSym) (key : Bytes) (n : NSt) (id : Id) : (sxInnerN L y false key n id).1 = n := by
  unfold sxInnerN; split
  · rfl
  · split <;> rfl

theorem sxStep1N_false (L : Layering) (y : NSym) (n : NSt) (kv : Bytes × SVal) : (sxStep1N L y false n kv).1 = n := by
  unfold sxStep1N
  cases kv.2 with
  | junk => rfl
  | ids l => exact runStepsN_id _ (sxInnerN_false L y kv.1) l n

theorem sxToDeleteN_false (L : Layering) (y : NSym) (n : NSt) (l : List (Bytes × SVal)) : sxToDeleteN L y false n l = [] := by
  induction l with
  | nil => rfl
  | cons kv t ih =>
    unfold sxToDeleteN
    split
    · exact ih
    · simp [ih]

theorem sxStep2ValN_false (y : NSym) (id : Id) (n : NSt) (v : Bytes) : (sxStep2ValN y false id n v).1 = n := by
  unfold sxStep2ValN; split <;> rfl

theorem fkInner1N_false (L : Layering) (y z : NSym) (id : Id) (n : NSt) (x : Id) : (fkInner1N L y z false id n x).1 = n := by
  unfold fkInner1N; split
  · rfl
  · split <;> rfl

theorem fkDanglingStepN_false (L : Layering) (y : NSym) (nl : Bool) (n : NSt) (id key : Id) :
    (fkDanglingStepN L y nl false n id key).1 = n := by
  unfold fkDanglingStepN; simp

theorem fkStep2N_false (L : Layering) (y : NSym) (nl : Bool) (z : NSym) (n : NSt) (id : Id) :
    (fkStep2N L y nl z false n id).1 = n := by
  unfold fkStep2N; split
  · rfl
  · split
    · exact fkDanglingStepN_false ..
    · split <;> rfl

theorem fcStepN_false (L : Layering) (y : NSym) (nl : Bool) (linked : Name) (n : NSt) (id : Id) :
    (fcStepN L y nl linked false n id).1 = n := by
  unfold fcStepN; split
  · rfl
  · split
    · exact fkDanglingStepN_false ..
    · rfl

theorem lkInnerN_false (L : Layering) (y z : NSym) (id : Id) (n : NSt) (l : Id) : (lkInnerN L y z false id n l).1 = n := by
  unfold lkInnerN; split
  · rfl
  · split <;> rfl

theorem constraintN_false (L : Layering) (c : NConstraint) : IdN (c.check L false) := by
  cases c with
  | unique y nl =>
    apply IdN.seq
    · exact fun n => runStepsN_id _ (uqStep1N_false L y) _ n
    · exact fun n => runStepsN_id _ (uqStep2N_false L y nl) _ n
  | setIdx y =>
    apply IdN.seq
    · intro n
      show sxDeleteKeysN y (sxToDeleteN L y false n _) (runStepsN (sxStep1N L y false) _ n).1 = n
      rw [sxToDeleteN_false, runStepsN_id _ (sxStep1N_false L y)]
      rfl
    · intro n
      refine runStepsN_id _ (fun n id => ?_) _ n
      exact runStepsN_id _ (sxStep2ValN_false y id) _ n
  | fkIndex y nl z =>
    apply IdN.seq
    · intro n
      refine runStepsN_id _ (fun n id => ?_) _ n
      exact runStepsN_id _ (fkInner1N_false L y z id) _ n
    · exact fun n => runStepsN_id _ (fkStep2N_false L y nl z) _ n
  | fkCons y nl linked => exact fun n => runStepsN_id _ (fcStepN_false L y nl linked) _ n
  | noop => exact fun _ => rfl

theorem linkN_false (G : NSchema) (L : Layering) (lc : NLinkColl) : IdN (lc.check G L false) := by
  apply IdN.seq
  · exact fun _ => rfl
  · intro n
    refine runStepsN_id _ (fun n id => ?_) _ n
    unfold lkStepN
    simp only [Bool.false_eq_true, if_false]
    exact runStepsN_id _ (lkInnerN_false L lc.field lc.other id) _ n

theorem storeN_false (G : NSchema) (L : Layering) (sd : NStoreDef) : IdN (sd.check G L false) :=
  IdN.seq (IdN.seqAll _ _ fun lc _ => linkN_false G L lc) (IdN.seqAll _ _ fun c _ => constraintN_false L c)

/-- **a check-only run returns the physical database unchanged** — every key of every bucket, also the
    ones no symbol of the schema names; no hypothesis -/
theorem checkStoresN_false (G : NSchema) (L : Layering) (sds : List NStoreDef) (n : NSt) :
    (checkStoresN G L false sds n).1 = n :=
  IdN.seqAll _ _ (fun sd _ => storeN_false G L sd) n

theorem checkAllN_false (G : NSchema) (L : Layering) (n : NSt) : (checkAllN G L false n).1 = n :=
  checkStoresN_false G L G.stores n

/-! ### a fix run writes entity buckets only at declared paths -/

/-- the paths of the symbols of store `st` the schema declares -/
def NSchema.pathsOf (G : NSchema) (st : Name) : List (List Name) :=
  (G.syms.filter fun y => y.store = st).map (·.path)

/-- `m` agrees with `n` on everything but the index buckets and the declared paths of entity buckets: the
    same ids in every entities bucket, the same child-store membership, and the same value / list under
    every path that is NOT the path of a declared symbol of the store the bucket belongs to -/
structure FrameN (G : NSchema) (n m : NSt) : Prop where
  keys : ∀ r, (m.ents r).map (·.1) = (n.ents r).map (·.1)
  own : ∀ r id q q', get id (n.ents r) = some q → get id (m.ents r) = some q' →
    (∀ p, p ∉ G.pathsOf r → q'.own.fields p = q.own.fields p ∧ q'.own.sets p = q.own.sets p) ∧
    (∀ c, (q'.child c).isSome = (q.child c).isSome) ∧
    (∀ c e e', q.child c = some e → q'.child c = some e' →
      ∀ p, p ∉ G.pathsOf c → e'.fields p = e.fields p ∧ e'.sets p = e.sets p)

theorem FrameN.refl (G : NSchema) (n : NSt) : FrameN G n n := by
  refine ⟨fun _ => rfl, ?_⟩
  intro r id q q' h h'
  rw [h] at h'
  cases h'
  refine ⟨fun _ _ => ⟨rfl, rfl⟩, fun _ => rfl, ?_⟩
  intro c e e' he he'
  rw [he] at he'
  cases he'
  exact fun _ _ => ⟨rfl, rfl⟩

theorem FrameN.trans {G : NSchema} {a b c : NSt} (hk : b.KeysOk) (h1 : FrameN G a b) (h2 : FrameN G b c) : FrameN G a c := by
  refine ⟨fun r => (h2.keys r).trans (h1.keys r), ?_⟩
  intro r id q q'' hq hq''
  -- the entry of `b`
  have hmem : (get id (b.ents r)).isSome := by
    rw [get_isSome_iff]
    have : id ∈ (a.ents r).map (·.1) := List.mem_map.2 ⟨(id, q), get_some_mem hq, rfl⟩
    rw [← h1.keys r] at this
    obtain ⟨p, hp, e⟩ := List.mem_map.1 this
    exact ⟨p, hp, e⟩
  cases hq' : get id (b.ents r) with
  | none => rw [hq'] at hmem; cases hmem
  | some q' =>
    obtain ⟨o1, c1, d1⟩ := h1.own r id q q' hq hq'
    obtain ⟨o2, c2, d2⟩ := h2.own r id q' q'' hq' hq''
    refine ⟨fun p hp => ⟨((o2 p hp).1).trans (o1 p hp).1, ((o2 p hp).2).trans (o1 p hp).2⟩,
      fun c => (c2 c).trans (c1 c), ?_⟩
    intro c e e'' he he''
    have hs : (q'.child c).isSome := by rw [c1 c, he]; rfl
    cases he' : q'.child c with
    | none => rw [he'] at hs; cases hs
    | some e' =>
      intro p hp
      exact ⟨((d2 c e' e'' he' he'' p hp).1).trans (d1 c e e' he he' p hp).1,
        ((d2 c e' e'' he' he'' p hp).2).trans (d1 c e e' he he' p hp).2⟩

/-- a write that leaves every entities bucket alone (index buckets) -/
theorem FrameN.of_ents {G : NSchema} {n m : NSt} (h : m.ents = n.ents) : FrameN G n m := by
  refine ⟨fun r => by rw [h], ?_⟩
  intro r id q q' hq hq'
  rw [h] at hq'
  exact (FrameN.refl G n).own r id q q' hq hq'

theorem frameN_setUniq (G : NSchema) (n : NSt) (st f : Name) (b : List (Bytes × Id)) : FrameN G n (n.setUniq st f b) :=
  FrameN.of_ents rfl

theorem frameN_setSetx (G : NSchema) (n : NSt) (st f : Name) (b : List (Bytes × SVal)) : FrameN G n (n.setSetx st f b) :=
  FrameN.of_ents rfl

theorem get_map_entry {A : Type} (id k : Id) (h : A → A) (l : List (Bytes × A)) :
    get k (l.map fun q => if q.1 = id then (q.1, h q.2) else q) =
      if k = id then (get k l).map h else get k l := by
  induction l with
  | nil => simp
  | cons q t ih =>
    simp only [List.map_cons, get_cons]
    by_cases hq : q.1 = id
    · simp only [if_pos hq]
      by_cases hk : k = q.1
      · have : k = id := hk.trans hq
        simp [hk, hq]
      · simp only [if_neg hk, ih]
    · simp only [if_neg hq]
      by_cases hk : k = q.1
      · have : ¬ k = id := fun e => hq (hk ▸ e)
        simp [hk, hq]
      · simp only [if_neg hk, ih]

/-- a write into the bucket of `(st, id)` that changes only the path `p0`, a declared path of `st` -/
theorem frame_modEnt (G : NSchema) (L : Layering) (n : NSt) (st : Name) (id : Id) (g : NEnt → NEnt) (p0 : List Name)
    (hp0 : p0 ∈ G.pathsOf st)
    (hg : ∀ e p, p ≠ p0 → (g e).fields p = e.fields p ∧ (g e).sets p = e.sets p) :
    FrameN G n (n.modEnt L st id g) := by
  unfold NSt.modEnt
  cases hd : L.decl st with
  | none =>
    refine ⟨?_, ?_⟩
    · intro r
      simp only
      by_cases h : r = st
      · subst h
        rw [if_pos rfl, List.map_map]
        apply List.map_congr_left
        intro q _
        simp only [Function.comp]
        split <;> rfl
      · rw [if_neg h]
    · intro r k q q' hq hq'
      simp only at hq'
      by_cases h : r = st
      · subst h
        rw [if_pos rfl, get_map_entry id k (fun pe : NPEnt => { pe with own := g pe.own })] at hq'
        by_cases hk : k = id
        · rw [if_pos hk, hq] at hq'
          simp only [Option.map_some, Option.some.injEq] at hq'
          subst hq'
          refine ⟨?_, fun _ => rfl, ?_⟩
          · intro p hp
            exact hg q.own p (fun e => hp (e ▸ hp0))
          · intro c e e' he he'
            simp only at he'
            rw [he] at he'; cases he'
            exact fun _ _ => ⟨rfl, rfl⟩
        · rw [if_neg hk, hq] at hq'
          cases hq'
          exact (FrameN.refl G n).own r k q q hq hq
      · rw [if_neg h, hq] at hq'
        cases hq'
        exact (FrameN.refl G n).own r k q q hq hq
  | some d =>
    refine ⟨?_, ?_⟩
    · intro r
      simp only
      by_cases h : r = d.parent
      · subst h
        rw [if_pos rfl, List.map_map]
        apply List.map_congr_left
        intro q _
        simp only [Function.comp]
        split <;> rfl
      · rw [if_neg h]
    · intro r k q q' hq hq'
      simp only at hq'
      by_cases h : r = d.parent
      · subst h
        rw [if_pos rfl, get_map_entry id k
          (fun pe : NPEnt => { pe with child := fun c => if c = st then (pe.child st).map g else pe.child c })] at hq'
        by_cases hk : k = id
        · rw [if_pos hk, hq] at hq'
          simp only [Option.map_some, Option.some.injEq] at hq'
          subst hq'
          refine ⟨fun _ _ => ⟨rfl, rfl⟩, ?_, ?_⟩
          · intro c
            simp only
            by_cases hc : c = st
            · subst hc; rw [if_pos rfl]; cases q.child c <;> rfl
            · rw [if_neg hc]
          · intro c e e' he he'
            simp only at he'
            by_cases hc : c = st
            · subst hc
              rw [if_pos rfl, he] at he'
              simp only [Option.map_some, Option.some.injEq] at he'
              subst he'
              intro p hp
              exact hg e p (fun e0 => hp (e0 ▸ hp0))
            · rw [if_neg hc, he] at he'
              cases he'
              exact fun _ _ => ⟨rfl, rfl⟩
        · rw [if_neg hk, hq] at hq'
          cases hq'
          exact (FrameN.refl G n).own _ k q q hq hq
      · rw [if_neg h, hq] at hq'
        cases hq'
        exact (FrameN.refl G n).own r k q q hq hq

theorem mem_pathsOf {G : NSchema} {y : NSym} (hy : y ∈ G.syms) : y.path ∈ G.pathsOf y.store := by
  unfold NSchema.pathsOf
  exact List.mem_map.2 ⟨y, List.mem_filter.2 ⟨hy, by simp⟩, rfl⟩

theorem frame_setSetAt {G : NSchema} (L : Layering) (n : NSt) {z : NSym} (hz : z ∈ G.syms) (id : Id)
    (h : List Bytes → List Bytes) :
    FrameN G n (n.modEnt L z.store id fun e => e.setSet z.path (h (e.sets z.path))) := by
  apply frame_modEnt G L n z.store id _ z.path (mem_pathsOf hz)
  intro e p hp
  exact ⟨rfl, by simp only [NEnt.setSet, if_neg hp]⟩

/-- the write of the dangling-reference repair -/
theorem frame_putNilAtPath {G : NSchema} (L : Layering) (n : NSt) {y : NSym} (hy : y ∈ G.syms) (id : Id) :
    FrameN G n (n.putNilAtPath L y id) := by
  unfold NSt.putNilAtPath
  apply frame_modEnt G L n y.store id _ y.path (mem_pathsOf hy)
  intro e p hp'
  exact ⟨by simp only [NEnt.setField, if_neg hp'], rfl⟩

/-- `a` keeps distinct ids and writes only index buckets and declared paths -/
def FrN (G : NSchema) (a : NProc) : Prop := ∀ n : NSt, n.KeysOk → (a n).1.KeysOk ∧ FrameN G n (a n).1

theorem FrN.id' (G : NSchema) (a : NProc) (h : ∀ n, (a n).1 = n) : FrN G a := by
  intro n hk
  rw [h n]
  exact ⟨hk, FrameN.refl G n⟩

theorem FrN.seq {G : NSchema} {a b : NProc} (ha : FrN G a) (hb : FrN G b) : FrN G (a.seq b) := by
  intro n hk
  obtain ⟨k1, f1⟩ := ha n hk
  obtain ⟨k2, f2⟩ := hb _ k1
  exact ⟨k2, FrameN.trans k1 f1 f2⟩

theorem FrN.seqAll {G : NSchema} {α : Type} (f : α → NProc) (l : List α) (h : ∀ x ∈ l, FrN G (f x)) :
    FrN G (seqAllN (l.map f)) := by
  induction l with
  | nil => exact fun n hk => ⟨hk, FrameN.refl G n⟩
  | cons x t ih => exact FrN.seq (h x (List.mem_cons_self ..)) (ih fun y hy => h y (List.mem_cons_of_mem _ hy))

theorem FrN.steps {G : NSchema} {α : Type} (step : NSt → α → NSt × List Report) (h : ∀ x, FrN G (fun n => step n x))
    (l : List α) : FrN G (runStepsN step l) := by
  induction l with
  | nil => exact fun n hk => ⟨hk, FrameN.refl G n⟩
  | cons x t ih =>
    intro n hk
    obtain ⟨k1, f1⟩ := h x n hk
    obtain ⟨k2, f2⟩ := ih _ k1
    exact ⟨k2, FrameN.trans k1 f1 f2⟩

theorem FrN.loop {G : NSchema} {α : Type} (step : NSt → α → NSt × List Report) (l : NSt → List α)
    (h : ∀ x, FrN G (fun n => step n x)) : FrN G (fun n => runStepsN step (l n) n) :=
  fun n hk => FrN.steps step h (l n) n hk

/-- one write, or none -/
theorem frn_ite {G : NSchema} {n m : NSt} (c : Bool) (hk : m.KeysOk) (hk0 : n.KeysOk) (hf : FrameN G n m) (rs : List Report) :
    ((if c then m else n, rs) : NSt × List Report).1.KeysOk ∧ FrameN G n ((if c then m else n, rs) : NSt × List Report).1 := by
  cases c
  · exact ⟨hk0, FrameN.refl G n⟩
  · exact ⟨hk, hf⟩

variable {G : NSchema} {L : Layering}

theorem frn_uqStep1 (y : NSym) (fix : Bool) (kv : Bytes × Id) : FrN G (fun n => uqStep1N L y fix n kv) := by
  intro n hk
  show (uqStep1N L y fix n kv).1.KeysOk ∧ FrameN G n (uqStep1N L y fix n kv).1
  unfold uqStep1N
  split
  · exact frn_ite fix (keysOk_setUniq hk _ _ _) hk (frameN_setUniq G n _ _ _) _
  · split
    · exact ⟨hk, FrameN.refl G n⟩
    · exact frn_ite fix (keysOk_setUniq hk _ _ _) hk (frameN_setUniq G n _ _ _) _

theorem frn_uqStep2 (y : NSym) (nl fix : Bool) (id : Id) : FrN G (fun n => uqStep2N L y nl fix n id) := by
  intro n hk
  show (uqStep2N L y nl fix n id).1.KeysOk ∧ FrameN G n (uqStep2N L y nl fix n id).1
  unfold uqStep2N
  split
  · exact ⟨hk, FrameN.refl G n⟩
  · split
    · exact ⟨hk, FrameN.refl G n⟩
    · split
      · refine frn_ite fix ?_ hk ?_ _
        · unfold uqRepairN; split
          · exact hk
          · exact keysOk_setUniq hk _ _ _
        · unfold uqRepairN; split
          · exact FrameN.refl G n
          · exact frameN_setUniq G n _ _ _
      · split <;> exact ⟨hk, FrameN.refl G n⟩

theorem frame_delIdx (n : NSt) (y : NSym) (key : Bytes) (id : Id) : FrameN G n (n.delIdx y key id) := by
  unfold NSt.delIdx
  cases get key (n.setx y.store y.name) with
  | none => exact FrameN.refl G n
  | some v => cases v <;> first | exact FrameN.refl G n | exact FrameN.of_ents rfl

theorem frame_addIdx (n : NSt) (y : NSym) (val : Bytes) (id : Id) : FrameN G n (n.addIdx y val id) := by
  unfold NSt.addIdx
  cases get val (n.setx y.store y.name) with
  | none => exact FrameN.of_ents rfl
  | some v => cases v <;> exact FrameN.of_ents rfl

theorem frn_sxInner (y : NSym) (fix : Bool) (key : Bytes) (id : Id) : FrN G (fun n => sxInnerN L y fix key n id) := by
  intro n hk
  show (sxInnerN L y fix key n id).1.KeysOk ∧ FrameN G n (sxInnerN L y fix key n id).1
  unfold sxInnerN
  split
  · exact frn_ite fix (keysOk_delIdx hk _ _ _) hk (frame_delIdx n _ _ _) _
  · split
    · exact frn_ite fix (keysOk_delIdx hk _ _ _) hk (frame_delIdx n _ _ _) _
    · exact ⟨hk, FrameN.refl G n⟩

theorem frn_sxStep1 (y : NSym) (fix : Bool) (kv : Bytes × SVal) : FrN G (fun n => sxStep1N L y fix n kv) := by
  intro n hk
  show (sxStep1N L y fix n kv).1.KeysOk ∧ FrameN G n (sxStep1N L y fix n kv).1
  unfold sxStep1N
  cases kv.2 with
  | junk => exact frn_ite fix (keysOk_setSetx hk _ _ _) hk (frameN_setSetx G n _ _ _) _
  | ids l => exact FrN.steps _ (frn_sxInner (G := G) (L := L) y fix kv.1) l n hk

theorem frn_sxDeleteKeys (y : NSym) (keys : List Bytes) (n : NSt) (hk : n.KeysOk) :
    (sxDeleteKeysN y keys n).KeysOk ∧ FrameN G n (sxDeleteKeysN y keys n) := by
  induction keys generalizing n with
  | nil => exact ⟨hk, FrameN.refl G n⟩
  | cons k t ih =>
    unfold sxDeleteKeysN
    simp only [List.foldl_cons]
    have k1 : (n.setSetx y.store y.name (del k (n.setx y.store y.name))).KeysOk := keysOk_setSetx hk _ _ _
    obtain ⟨k2, f2⟩ := ih _ k1
    exact ⟨k2, FrameN.trans k1 (frameN_setSetx G n _ _ _) f2⟩

theorem frn_sxStep2Val (y : NSym) (fix : Bool) (id : Id) (val : Bytes) : FrN G (fun n => sxStep2ValN y fix id n val) := by
  intro n hk
  show (sxStep2ValN y fix id n val).1.KeysOk ∧ FrameN G n (sxStep2ValN y fix id n val).1
  unfold sxStep2ValN
  split
  · exact ⟨hk, FrameN.refl G n⟩
  · exact frn_ite fix (keysOk_addIdx hk _ _ _) hk (frame_addIdx n _ _ _) _

theorem frn_fkInner1 {y z : NSym} (hz : z ∈ G.syms) (fix : Bool) (id fkId : Id) :
    FrN G (fun n => fkInner1N L y z fix id n fkId) := by
  intro n hk
  show (fkInner1N L y z fix id n fkId).1.KeysOk ∧ FrameN G n (fkInner1N L y z fix id n fkId).1
  unfold fkInner1N
  split
  · exact frn_ite fix (keysOk_modEnt hk _ _ _ _) hk (frame_setSetAt L n hz id _) _
  · split
    · exact frn_ite fix (keysOk_modEnt hk _ _ _ _) hk (frame_setSetAt L n hz id _) _
    · exact ⟨hk, FrameN.refl G n⟩

/-- the dangling-reference repair writes the symbol's own path -/
theorem frn_fkDangling {y : NSym} (hy : y ∈ G.syms) (nl fix : Bool) (id key : Id) :
    FrN G (fun n => fkDanglingStepN L y nl fix n id key) := by
  intro n hk
  show (fkDanglingStepN L y nl fix n id key).1.KeysOk ∧ FrameN G n (fkDanglingStepN L y nl fix n id key).1
  unfold fkDanglingStepN
  exact frn_ite _ (keysOk_modEnt hk _ _ _ _) hk (frame_putNilAtPath L n hy id) _

theorem frn_fkStep2 {y z : NSym} (hy : y ∈ G.syms) (hz : z ∈ G.syms) (nl fix : Bool) (id : Id) :
    FrN G (fun n => fkStep2N L y nl z fix n id) := by
  intro n hk
  show (fkStep2N L y nl z fix n id).1.KeysOk ∧ FrameN G n (fkStep2N L y nl z fix n id).1
  unfold fkStep2N
  split
  · exact ⟨hk, FrameN.refl G n⟩
  · split
    · exact frn_fkDangling hy nl fix id _ n hk
    · split
      · exact ⟨hk, FrameN.refl G n⟩
      · exact frn_ite fix (keysOk_modEnt hk _ _ _ _) hk (frame_setSetAt L n hz _ _) _

theorem frn_fcStep {y : NSym} (hy : y ∈ G.syms) (nl : Bool) (linked : Name) (fix : Bool) (id : Id) :
    FrN G (fun n => fcStepN L y nl linked fix n id) := by
  intro n hk
  show (fcStepN L y nl linked fix n id).1.KeysOk ∧ FrameN G n (fcStepN L y nl linked fix n id).1
  unfold fcStepN
  split
  · exact ⟨hk, FrameN.refl G n⟩
  · split
    · exact frn_fkDangling hy nl fix id _ n hk
    · exact ⟨hk, FrameN.refl G n⟩

theorem frn_lkInner {y z : NSym} (hz : z ∈ G.syms) (fix : Bool) (id linkId : Id) :
    FrN G (fun n => lkInnerN L y z fix id n linkId) := by
  intro n hk
  show (lkInnerN L y z fix id n linkId).1.KeysOk ∧ FrameN G n (lkInnerN L y z fix id n linkId).1
  unfold lkInnerN
  split
  · exact ⟨hk, FrameN.refl G n⟩
  · split
    · exact frn_ite fix (keysOk_modEnt hk _ _ _ _) hk (frame_setSetAt L n hz _ _) _
    · exact ⟨hk, FrameN.refl G n⟩

theorem frn_lkRemoveAll {y : NSym} (hy : y ∈ G.syms) (id : Id) (D : List Id) (n : NSt) (hk : n.KeysOk) :
    (lkRemoveAllN L y id D n).KeysOk ∧ FrameN G n (lkRemoveAllN L y id D n) := by
  induction D generalizing n with
  | nil => exact ⟨hk, FrameN.refl G n⟩
  | cons d t ih =>
    unfold lkRemoveAllN
    simp only [List.foldl_cons]
    have k1 : (n.delFromSet L y id d).KeysOk := keysOk_modEnt hk _ _ _ _
    obtain ⟨k2, f2⟩ := ih _ k1
    exact ⟨k2, FrameN.trans k1 (frame_setSetAt L n hy id _) f2⟩

theorem frn_lkStep {y z : NSym} (hy : y ∈ G.syms) (hz : z ∈ G.syms) (fix : Bool) (id : Id) :
    FrN G (fun n => lkStepN L y z fix n id) := by
  intro n hk
  show (lkStepN L y z fix n id).1.KeysOk ∧ FrameN G n (lkStepN L y z fix n id).1
  unfold lkStepN
  obtain ⟨k1, f1⟩ := FrN.steps _ (frn_lkInner (G := G) (L := L) (y := y) hz fix id) (n.setOf L y id) n hk
  cases fix
  · exact ⟨k1, f1⟩
  · obtain ⟨k2, f2⟩ := frn_lkRemoveAll (G := G) (L := L) hy id
      ((n.setOf L y id).filter fun l => !n.present L z.store l) _ k1
    exact ⟨k2, FrameN.trans k1 f1 f2⟩

theorem frn_constraint {sd : NStoreDef} (hsd : sd ∈ G.stores) {c : NConstraint} (hc : c ∈ sd.constraints) (fix : Bool) :
    FrN G (c.check L fix) := by
  cases c with
  | unique y nl =>
    exact FrN.seq (FrN.loop _ _ (frn_uqStep1 y fix)) (FrN.loop _ _ (frn_uqStep2 y nl fix))
  | setIdx y =>
    apply FrN.seq
    · intro n hk
      obtain ⟨k1, f1⟩ := FrN.steps _ (frn_sxStep1 (G := G) (L := L) y fix) (n.setx y.store y.name) n hk
      obtain ⟨k2, f2⟩ := frn_sxDeleteKeys (G := G) y (sxToDeleteN L y fix n (n.setx y.store y.name)) _ k1
      exact ⟨k2, FrameN.trans k1 f1 f2⟩
    · exact FrN.loop _ _ fun id => FrN.loop _ _ (frn_sxStep2Val y fix id)
  | fkIndex y nl z =>
    have hy : y ∈ G.syms := mem_syms_of_constraint hsd hc (by simp [NConstraint.syms])
    have hz : z ∈ G.syms := mem_syms_of_constraint hsd hc (by simp [NConstraint.syms])
    exact FrN.seq (FrN.loop _ _ fun id => FrN.loop _ _ (frn_fkInner1 hz fix id)) (FrN.loop _ _ (frn_fkStep2 hy hz nl fix))
  | fkCons y nl linked =>
    have hy : y ∈ G.syms := mem_syms_of_constraint hsd hc (by simp [NConstraint.syms])
    exact FrN.loop _ _ (frn_fcStep hy nl linked fix)
  | noop => exact fun n hk => ⟨hk, FrameN.refl G n⟩

theorem frn_linkColl {sd : NStoreDef} (hsd : sd ∈ G.stores) {lc : NLinkColl} (hlc : lc ∈ sd.links) (fix : Bool) :
    FrN G (lc.check G L fix) := by
  obtain ⟨h1, h2⟩ := mem_syms_of_link hsd hlc
  exact FrN.seq (fun n hk => ⟨hk, FrameN.refl G n⟩) (FrN.loop _ _ (frn_lkStep h1 h2 fix))

theorem frn_store {sd : NStoreDef} (hsd : sd ∈ G.stores) (fix : Bool) : FrN G (sd.check G L fix) :=
  FrN.seq (FrN.seqAll _ _ fun _ hlc => frn_linkColl hsd hlc fix) (FrN.seqAll _ _ fun _ hc => frn_constraint hsd hc fix)

/-- **a run writes entity buckets only at declared paths** (both modes, every schema, no hypothesis on the
    schema): the ids of every entities bucket, child-store membership, and every value / list stored under a
    path that is not the path of a declared symbol of that store are what they were -/
theorem checkStoresN_frame (fix : Bool) (sds : List NStoreDef) (hs : ∀ sd ∈ sds, sd ∈ G.stores) :
    FrN G (checkStoresN G L fix sds) :=
  FrN.seqAll _ _ fun sd hsd => frn_store (hs sd hsd) fix

theorem checkAllN_frame (fix : Bool) (n : NSt) (hk : n.KeysOk) : FrameN G n (checkAllN G L fix n).1 :=
  (checkStoresN_frame fix G.stores (fun _ h => h) n hk).2

end StorageModel.C09
