import StorageModel.C09.Fix
/-
  C09 — composition: the report comprehension of each constraint depends only on the locations
  it reads; a fix run of one constraint leaves the others' locations alone.
-/
namespace StorageModel.C09
open StorageModel

/-! ### report comprehensions only look at their own locations -/

theorem flatMap_congr' {α β : Type} {l : List α} {f g : α → List β} (h : ∀ a ∈ l, f a = g a) :
    l.flatMap f = l.flatMap g := by
  induction l with
  | nil => rfl
  | cons a t ih =>
    rw [List.flatMap_cons, List.flatMap_cons, h a (List.mem_cons_self ..),
      ih fun b hb => h b (List.mem_cons_of_mem _ hb)]

theorem uqStep1_rep_congr {s s' : St} {st f : Name} (kv : Bytes × Id)
    (h1 : s'.present st kv.2 = s.present st kv.2) (h2 : s'.evalB st kv.2 f = s.evalB st kv.2 f) :
    (uqStep1 st f false s' kv).2 = (uqStep1 st f false s kv).2 := by
  unfold uqStep1
  rw [h1, h2]
  simp only [apply_ite Prod.snd]

theorem uqStep2_rep_congr {s s' : St} {st f : Name} (n : Bool) (id : Id)
    (h1 : s'.evalT st id f = s.evalT st id f) (h2 : s'.uniq st f = s.uniq st f) :
    (uqStep2 st f n false s' id).2 = (uqStep2 st f n false s id).2 := by
  unfold uqStep2 readU
  rw [h1, h2]
  cases s.evalT st id f with
  | nil => rfl
  | str v =>
    simp only
    by_cases hq : v = []
    · simp only [hq, if_true]
    · simp only [hq, if_false]
      cases get v (s.uniq st f) with
      | none => rfl
      | some x => simp only [apply_ite Prod.snd]

theorem uqRep_congr {W : List Loc} {s s' : St} (h : Frame W s s') {st f : Name} (n : Bool)
    (hu : Loc.uniq st f ∉ W) (hf : Loc.field st f ∉ W) : uqRep st f n s' = uqRep st f n s := by
  unfold uqRep
  rw [h.uniq st f hu, h.ids]
  congr 1
  · apply flatMap_congr'
    intro kv _
    exact uqStep1_rep_congr kv (h.present ..) (h.evalB hf _)
  · apply flatMap_congr'
    intro id _
    exact uqStep2_rep_congr n id (h.evalT st f hf id) (h.uniq st f hu)

theorem sxInner_rep_congr {s s' : St} {st f : Name} (key : Bytes) (id : Id)
    (h1 : s'.present st id = s.present st id) (h2 : s'.setOf st id f = s.setOf st id f) :
    (sxInner st f false key s' id).2 = (sxInner st f false key s id).2 := by
  unfold sxInner St.hasVal
  rw [h1, h2]
  simp only [apply_ite Prod.snd]

theorem sxStep2Val_rep_congr {s s' : St} {st f : Name} (id : Id) (v : Bytes) (h : s'.setx st f = s.setx st f) :
    (sxStep2Val st f false id s' v).2 = (sxStep2Val st f false id s v).2 := by
  unfold sxStep2Val St.inIdx
  rw [h]
  simp only [apply_ite Prod.snd]

theorem sxRep_congr {W : List Loc} {s s' : St} (h : Frame W s s') {st f : Name}
    (hx : Loc.setx st f ∉ W) (hs : Loc.set st f ∉ W) : sxRep st f s' = sxRep st f s := by
  unfold sxRep
  rw [h.setx st f hx, h.ids]
  congr 1
  · apply flatMap_congr'
    intro kv _
    unfold sxRep1
    cases kv.2 with
    | junk => rfl
    | ids l =>
      simp only
      congr 1
      apply flatMap_congr'
      intro id _
      exact sxInner_rep_congr kv.1 id (h.present ..) (h.setOf st f hs id)
  · apply flatMap_congr'
    intro id _
    unfold sxRep2
    rw [h.setOf st f hs id]
    apply flatMap_congr'
    intro v _
    exact sxStep2Val_rep_congr id v (h.setx st f hx)

theorem fkInner1_rep_congr {s s' : St} {st f fkSt fkF : Name} (t x : Id)
    (h1 : s'.present st x = s.present st x) (h2 : s'.evalB st x f = s.evalB st x f) :
    (fkInner1 st f fkSt fkF false t s' x).2 = (fkInner1 st f fkSt fkF false t s x).2 := by
  unfold fkInner1
  rw [h1, h2]
  simp only [apply_ite Prod.snd]

theorem fkDangling_rep (st f : Name) (n fix : Bool) (s : St) (id key : Id) :
    (fkDanglingStep st f n fix s id key).2 = [⟨st, f, .fkDangling id key, n && fix⟩] := rfl

theorem fkStep2_rep_congr {s s' : St} {st f : Name} (n : Bool) {fkSt fkF : Name} (id : Id)
    (h1 : s'.evalB st id f = s.evalB st id f) (h2 : ∀ t, s'.present fkSt t = s.present fkSt t)
    (h3 : ∀ t, s'.setOf fkSt t fkF = s.setOf fkSt t fkF) :
    (fkStep2 st f n fkSt fkF false s' id).2 = (fkStep2 st f n fkSt fkF false s id).2 := by
  unfold fkStep2 St.hasBack
  rw [h1, h2, h3]
  simp only [apply_ite Prod.snd, fkDangling_rep]

theorem fkRep_congr {W : List Loc} {s s' : St} (h : Frame W s s') {st f : Name} (n : Bool) {fkSt fkF : Name}
    (hf : Loc.field st f ∉ W) (hs : Loc.set fkSt fkF ∉ W) : fkRep st f n fkSt fkF s' = fkRep st f n fkSt fkF s := by
  unfold fkRep
  rw [h.ids, h.ids]
  congr 1
  · apply flatMap_congr'
    intro t _
    unfold fkRep1
    rw [h.setOf fkSt fkF hs t]
    apply flatMap_congr'
    intro x _
    exact fkInner1_rep_congr t x (h.present ..) (h.evalB hf _)
  · apply flatMap_congr'
    intro id _
    exact fkStep2_rep_congr n id (h.evalB hf _) (fun t => h.present ..) (fun t => h.setOf fkSt fkF hs t)

theorem fcStep_rep_congr {s s' : St} {st f : Name} (n : Bool) {linked : Name} (id : Id)
    (h1 : s'.evalB st id f = s.evalB st id f) (h2 : ∀ t, s'.present linked t = s.present linked t) :
    (fcStep st f n linked false s' id).2 = (fcStep st f n linked false s id).2 := by
  unfold fcStep
  rw [h1, h2]
  simp only [apply_ite Prod.snd, fkDangling_rep]

theorem fcRep_congr {W : List Loc} {s s' : St} (h : Frame W s s') {st f : Name} (n : Bool) {linked : Name}
    (hf : Loc.field st f ∉ W) : fcRep st f n linked s' = fcRep st f n linked s := by
  unfold fcRep
  rw [h.ids]
  apply flatMap_congr'
  intro id _
  exact fcStep_rep_congr n id (h.evalB hf _) (fun t => h.present ..)

theorem allLinkOk_congr {W : List Loc} {s s' : St} (h : Frame W s s') {st f oSt oF : Name}
    (h1 : Loc.set st f ∉ W) (h2 : Loc.set oSt oF ∉ W) (hok : ∀ a b, LinkOk s st f oSt oF a b) :
    ∀ a b, LinkOk s' st f oSt oF a b := by
  intro a b hb
  rw [h.setOf st f h1] at hb
  obtain ⟨p1, p2⟩ := hok a b hb
  refine ⟨by rw [h.present]; exact p1, ?_⟩
  rw [hasBack_iff] at p2 ⊢
  rw [h.setOf oSt oF h2]; exact p2

/-! ### the inverse link collection preserves what a link collection has established -/

/-- one step of the inverse collection `(oSt.oF ↔ st.f)` at its entity `b`: it may add `b` to the
    links of an existing `a` that `b` lists -/
theorem lkInner_inverse_preserves (st f oSt oF : Name) (hd : ¬(st = oSt ∧ f = oF)) (b : Id) (x : St) (a : Id)
    (hb : x.present oSt b = true)
    (h : (∀ a' b', LinkOk x st f oSt oF a' b')) (ha : a ∈ x.setOf oSt b oF) :
    (∀ a' b', LinkOk (lkInner oSt oF st f true b x a).1 st f oSt oF a' b') ∧
    ∀ y, y ∈ x.setOf oSt b oF → y ∈ (lkInner oSt oF st f true b x a).1.setOf oSt b oF := by
  rw [lkInner_true_fst]
  split
  · -- the missing reverse link `a → b` is added
    have hother : ∀ i, (x.addToSet st a f b).setOf oSt i oF = x.setOf oSt i oF := by
      intro i
      rw [addToSet_setOf, if_neg (fun c => hd ⟨c.1.symm, c.2.2.1.symm⟩)]
    constructor
    · intro a' b' hb'
      have hpres : ∀ s' i, (x.addToSet st a f b).present s' i = x.present s' i := fun s' i => modEnt_present x _ _ _ s' i
      rw [addToSet_setOf] at hb'
      unfold LinkOk at h
      rw [hpres, hasBack_iff, hother]
      split at hb'
      · next hc =>
        rcases mem_sins.1 hb' with rfl | hb'
        · rw [hc.2.1]; exact ⟨hb, ha⟩
        · obtain ⟨p1, p2⟩ := h a' b' hb'
          exact ⟨p1, hasBack_iff.1 p2⟩
      · obtain ⟨p1, p2⟩ := h a' b' hb'
        exact ⟨p1, hasBack_iff.1 p2⟩
    · intro y hy; rw [hother]; exact hy
  · exact ⟨h, fun _ hy => hy⟩

/-- removing `b`'s links to entities that do not exist does not concern the links of `st.f` -/
theorem lkRemoveAll_inverse_preserves (st f oSt oF : Name) (hd : ¬(st = oSt ∧ f = oF)) (b : Id) (D : List Id) (x : St)
    (hD : ∀ a ∈ D, x.present st a = false) (h : ∀ a' b', LinkOk x st f oSt oF a' b') :
    ∀ a' b', LinkOk (lkRemoveAll oSt oF b D x) st f oSt oF a' b' := by
  unfold lkRemoveAll
  induction D generalizing x with
  | nil => exact h
  | cons a t ih =>
    rw [List.foldl_cons]
    apply ih
    · intro c hc
      rw [St.delFromSet, modEnt_present]; exact hD c (List.mem_cons_of_mem _ hc)
    · intro a' b' hb'
      rw [delFromSet_setOf, if_neg (fun c => hd ⟨c.1, c.2.2⟩)] at hb'
      obtain ⟨p1, p2⟩ := h a' b' hb'
      refine ⟨by rw [St.delFromSet, modEnt_present]; exact p1, ?_⟩
      rw [hasBack_iff] at p2 ⊢
      rw [delFromSet_setOf]
      split
      · refine mem_sdel.2 ⟨p2, ?_⟩
        rintro rfl
        have := hD a' (List.mem_cons_self ..)
        rw [present_of_setOf hb'] at this
        cases this
      · exact p2

/-- running the inverse collection's check in fix mode keeps every link of this collection backed -/
theorem link_inverse_preserves (st f oSt oF : Name) (hasInv : Bool) (hd : ¬(st = oSt ∧ f = oF)) (x : St)
    (h : ∀ a b, LinkOk x st f oSt oF a b) :
    ∀ a b, LinkOk (linkCheck oSt oF st f hasInv true x).1 st f oSt oF a b := by
  have hstep : ∀ y, ∀ b ∈ x.ids oSt, (∀ a' b', LinkOk y st f oSt oF a' b') ∧ (∀ i, y.present oSt i = x.present oSt i) →
      (∀ a' b', LinkOk (lkStep oSt oF st f true y b).1 st f oSt oF a' b') ∧
      (∀ i, (lkStep oSt oF st f true y b).1.present oSt i = x.present oSt i) := by
    intro y b hbid ⟨hy, hpres⟩
    have hbp : y.present oSt b = true := by
      rw [hpres]; obtain ⟨e, he⟩ := mem_ids.1 hbid; exact present_of_mem he
    have hfst : (lkStep oSt oF st f true y b).1 =
        lkRemoveAll oSt oF b ((y.setOf oSt b oF).filter fun l => !y.present st l)
          (runSteps (lkInner oSt oF st f true b) (y.setOf oSt b oF) y).1 := by
      unfold lkStep; simp
    -- the loop: links stay backed, `b`'s own list is untouched, presence is untouched
    have hloop := runSteps_inv_mem (lkInner oSt oF st f true b)
      (fun z => (∀ a' b', LinkOk z st f oSt oF a' b') ∧ (∀ w, w ∈ y.setOf oSt b oF → w ∈ z.setOf oSt b oF) ∧
        (∀ s' i, z.present s' i = y.present s' i))
      (y.setOf oSt b oF)
      (by
        intro z a ha ⟨hz, hkeep, hp⟩
        obtain ⟨r1, r2⟩ := lkInner_inverse_preserves st f oSt oF hd b z a (by rw [hp]; exact hbp) hz (hkeep a ha)
        refine ⟨r1, fun w hw => r2 w (hkeep w hw), ?_⟩
        intro s' i
        have hd' : ¬(oSt = st ∧ oF = f) := fun c => hd ⟨c.1.symm, c.2.symm⟩
        rw [(lkInner_mono oSt oF st f hd' b z a).frame.present]; exact hp s' i)
      y ⟨hy, fun _ hw => hw, fun _ _ => rfl⟩
    obtain ⟨l1, _, l3⟩ := hloop
    rw [hfst]
    constructor
    · apply lkRemoveAll_inverse_preserves st f oSt oF hd b _ _ _ l1
      intro a ha
      have := (List.mem_filter.1 ha).2
      rw [l3]; simpa using this
    · intro i
      have hd' : ¬(oSt = st ∧ oF = f) := fun c => hd ⟨c.1.symm, c.2.symm⟩
      rw [(lkRemoveAll_mono oSt oF st f hd' b _ _).frame.present, l3]; exact hpres i
  show ∀ a b, LinkOk (runSteps (lkStep oSt oF st f true) (x.ids oSt) x).1 st f oSt oF a b
  exact (runSteps_inv_mem _ (fun z => (∀ a' b', LinkOk z st f oSt oF a' b') ∧ (∀ i, z.present oSt i = x.present oSt i))
    (x.ids oSt) hstep x ⟨h, fun _ => rfl⟩).1

/-! ### units: the procedures of a schema, flattened in execution order -/

inductive CUnit
  | link (lc : LinkColl) (hasInv : Bool)
  | cons (c : Constraint)
  deriving DecidableEq, Repr

def CUnit.run (fix : Bool) : CUnit → Proc
  | .link lc hi => linkCheck lc.st lc.f lc.oSt lc.oF hi fix
  | .cons c => c.check fix

def CUnit.rep (s : St) : CUnit → List Report
  | .link lc hi => lkRep lc.st lc.f lc.oSt lc.oF hi s
  | .cons c => c.rep s

/-- the locations a unit's decisions depend on -/
def CUnit.touch : CUnit → List Loc
  | .link lc _ => [.set lc.st lc.f, .set lc.oSt lc.oF]
  | .cons (.unique st f _) => [.uniq st f, .field st f]
  | .cons (.setIdx st f) => [.setx st f, .set st f]
  | .cons (.fkIndex st f _ fkSt fkF) => [.field st f, .set fkSt fkF]
  | .cons (.fkCons st f _ _) => [.field st f]
  | .cons .noop => []

/-- the locations a unit may write in fix mode -/
def CUnit.writes : CUnit → List Loc
  | .link lc _ => [.set lc.st lc.f, .set lc.oSt lc.oF]
  | .cons (.unique st f _) => [.uniq st f]
  | .cons (.setIdx st f) => [.setx st f]
  | .cons (.fkIndex st f _ fkSt fkF) => [.field st f, .set fkSt fkF]
  | .cons (.fkCons st f _ _) => [.field st f]
  | .cons .noop => []

theorem CUnit.writes_sub_touch (u : CUnit) : ∀ l ∈ u.writes, l ∈ u.touch := by
  cases u with
  | link lc hi => intro l h; exact h
  | cons c => cases c <;> intro l h <;> simp_all [CUnit.writes, CUnit.touch]

/-- what a fix run of the unit establishes -/
def CUnit.Good (s : St) : CUnit → Prop
  | .link lc _ => ∀ a b, LinkOk s lc.st lc.f lc.oSt lc.oF a b
  | .cons (.unique st f n) => ∀ r ∈ uqRep st f n s, r.msg.conflict = true
  | .cons (.setIdx st f) => sxRep st f s = []
  | .cons (.fkIndex st f n fkSt fkF) => ∀ r ∈ fkRep st f n fkSt fkF s, FkQuiet n r
  | .cons (.fkCons st f n linked) => ∀ r ∈ fcRep st f n linked s, FkQuiet n r
  | .cons .noop => True

/-- what the unit needs before it runs -/
def CUnit.Pre (s : St) : CUnit → Prop
  | .cons (.setIdx st f) => NodupKeys (s.setx st f)
  | _ => True

/-- static sanity of a unit: the two sides of a link collection are different fields -/
def CUnit.Wf : CUnit → Prop
  | .link lc _ => ¬(lc.st = lc.oSt ∧ lc.f = lc.oF)
  | _ => True

instance (u : CUnit) : Decidable u.Wf := by
  cases u <;> unfold CUnit.Wf <;> infer_instance

/-- the two units are a link collection and its inverse -/
def CUnit.Inverse : CUnit → CUnit → Prop
  | .link a _, .link b _ => b.st = a.oSt ∧ b.f = a.oF ∧ b.oSt = a.st ∧ b.oF = a.f
  | _, _ => False

instance (u v : CUnit) : Decidable (u.Inverse v) := by
  cases u <;> cases v <;> unfold CUnit.Inverse <;> infer_instance

/-- two units do not interfere: they touch different locations, or they are mutually inverse links -/
def CUnit.Compat (u v : CUnit) : Prop :=
  ((∀ l ∈ u.touch, l ∉ v.touch) ∧ (∀ l ∈ v.touch, l ∉ u.touch)) ∨ (u.Inverse v ∧ v.Inverse u)

instance (u v : CUnit) : Decidable (u.Compat v) := by unfold CUnit.Compat; infer_instance

theorem CUnit.frame (u : CUnit) (s : St) (hw : u.Wf) (hp : u.Pre s) : Frame u.writes s (u.run true s).1 := by
  cases u with
  | link lc hi => exact (link_fix_post lc.st lc.f lc.oSt lc.oF hi hw s).1.frame
  | cons c =>
    cases c with
    | unique st f n =>
      obtain ⟨h1, h2, h3, _⟩ := unique_fix_post st f n s
      exact frame_of_ents h1 h2 st f h3
    | setIdx st f => exact (set_fix_post st f s hp).2.1
    | fkIndex st f n fkSt fkF => exact (fkIndex_fix_post st f n fkSt fkF s).1
    | fkCons st f n linked => exact (fkCons_fix_post st f n linked s).1
    | noop => exact Frame.refl _ s

theorem CUnit.post (u : CUnit) (s : St) (hw : u.Wf) (hp : u.Pre s) : u.Good (u.run true s).1 := by
  cases u with
  | link lc hi => exact (link_fix_post lc.st lc.f lc.oSt lc.oF hi hw s).2.1
  | cons c =>
    cases c with
    | unique st f n => exact (unique_fix_post st f n s).2.2.2
    | setIdx st f => exact (set_fix_post st f s hp).2.2.2
    | fkIndex st f n fkSt fkF => exact (fkIndex_fix_post st f n fkSt fkF s).2
    | fkCons st f n linked => exact (fkCons_fix_post st f n linked s).2
    | noop => trivial

/-- `Good` only depends on the locations the unit touches -/
theorem CUnit.good_congr (u : CUnit) {W : List Loc} {s s' : St} (h : Frame W s s') (hd : ∀ l ∈ u.touch, l ∉ W)
    (hg : u.Good s) : u.Good s' := by
  cases u with
  | link lc hi =>
    exact allLinkOk_congr h (hd _ (by simp [CUnit.touch])) (hd _ (by simp [CUnit.touch])) hg
  | cons c =>
    cases c with
    | unique st f n =>
      show ∀ r ∈ uqRep st f n s', _
      rw [uqRep_congr h n (hd _ (by simp [CUnit.touch])) (hd _ (by simp [CUnit.touch]))]; exact hg
    | setIdx st f =>
      show sxRep st f s' = []
      rw [sxRep_congr h (hd _ (by simp [CUnit.touch])) (hd _ (by simp [CUnit.touch]))]; exact hg
    | fkIndex st f n fkSt fkF =>
      show ∀ r ∈ fkRep st f n fkSt fkF s', _
      rw [fkRep_congr h n (hd _ (by simp [CUnit.touch])) (hd _ (by simp [CUnit.touch]))]; exact hg
    | fkCons st f n linked =>
      show ∀ r ∈ fcRep st f n linked s', _
      rw [fcRep_congr h n (hd _ (by simp [CUnit.touch]))]; exact hg
    | noop => trivial

theorem CUnit.pre_congr (u : CUnit) {W : List Loc} {s s' : St} (h : Frame W s s') (hd : ∀ l ∈ u.touch, l ∉ W)
    (hg : u.Pre s) : u.Pre s' := by
  cases u with
  | link lc hi => trivial
  | cons c =>
    cases c with
    | unique st f n => trivial
    | setIdx st f =>
      show NodupKeys (s'.setx st f)
      rw [h.setx st f (hd _ (by simp [CUnit.touch]))]; exact hg
    | fkIndex st f n fkSt fkF => trivial
    | fkCons st f n linked => trivial
    | noop => trivial

theorem CUnit.inverse_preserves (u v : CUnit) (hw : u.Wf) (hi : u.Inverse v) (s : St) (hg : u.Good s) :
    u.Good (v.run true s).1 := by
  cases u with
  | cons c => cases v <;> exact absurd hi (by simp [CUnit.Inverse])
  | link a ha =>
    cases v with
    | cons c => exact absurd hi (by simp [CUnit.Inverse])
    | link b hb =>
      obtain ⟨e1, e2, e3, e4⟩ := hi
      show ∀ x y, LinkOk (linkCheck b.st b.f b.oSt b.oF hb true s).1 a.st a.f a.oSt a.oF x y
      rw [e1, e2, e3, e4]
      exact link_inverse_preserves a.st a.f a.oSt a.oF hb hw s hg

/-- compatible units: running `v` keeps what `u` has established -/
theorem CUnit.compat_preserves (u v : CUnit) (hwu : u.Wf) (hwv : v.Wf) (hc : u.Compat v) (s : St)
    (hpv : v.Pre s) (hg : u.Good s) : u.Good (v.run true s).1 := by
  rcases hc with ⟨hd, _⟩ | ⟨hi, _⟩
  · exact u.good_congr (v.frame s hwv hpv) (fun l hl hm => hd l hl (v.writes_sub_touch l hm)) hg
  · exact u.inverse_preserves v hwu hi s hg

theorem CUnit.compat_pre (u v : CUnit) (hwu : u.Wf) (hc : u.Compat v) (s : St) (hpu : u.Pre s) (hpv : v.Pre s) :
    v.Pre (u.run true s).1 := by
  rcases hc with ⟨_, hd⟩ | ⟨_, hi⟩
  · exact v.pre_congr (u.frame s hwu hpu) (fun l hl hm => hd l hl (u.writes_sub_touch l hm)) hpv
  · cases v with
    | link lc hi' => trivial
    | cons c => cases u <;> exact absurd hi (by simp [CUnit.Inverse])

theorem CUnit.self_pre (u : CUnit) (s : St) (hw : u.Wf) (hp : u.Pre s) : u.Pre (u.run true s).1 := by
  cases u with
  | link lc hi => trivial
  | cons c =>
    cases c with
    | unique st f n => trivial
    | setIdx st f => exact (set_fix_post st f s hp).2.2.1
    | fkIndex st f n fkSt fkF => trivial
    | fkCons st f n linked => trivial
    | noop => trivial

theorem Compat.symm {u v : CUnit} (h : u.Compat v) : v.Compat u := by
  rcases h with ⟨a, b⟩ | ⟨a, b⟩
  · exact Or.inl ⟨b, a⟩
  · exact Or.inr ⟨b, a⟩

/-- the fix-mode run of a list of pairwise compatible units establishes every unit's `Good` -/
theorem units_converge (us : List CUnit) (hok : us.Pairwise CUnit.Compat) (hwf : ∀ u ∈ us, u.Wf) (s : St)
    (hpre : ∀ u ∈ us, u.Pre s) :
    (∀ u ∈ us, u.Pre (seqAll (us.map (CUnit.run true)) s).1) ∧
    ∀ u ∈ us, u.Good (seqAll (us.map (CUnit.run true)) s).1 := by
  induction us generalizing s with
  | nil => exact ⟨fun u hu => (nomatch hu), fun u hu => (nomatch hu)⟩
  | cons u t ih =>
    obtain ⟨hut, htt⟩ := List.pairwise_cons.1 hok
    have hwu : u.Wf := hwf u (List.mem_cons_self ..)
    have hpu : u.Pre s := hpre u (List.mem_cons_self ..)
    have hwt : ∀ v ∈ t, v.Wf := fun v hv => hwf v (List.mem_cons_of_mem _ hv)
    have hpt : ∀ v ∈ t, v.Pre (u.run true s).1 := fun v hv =>
      u.compat_pre v hwu (hut v hv) s hpu (hpre v (List.mem_cons_of_mem _ hv))
    obtain ⟨ihp, ihg⟩ := ih htt hwt (u.run true s).1 hpt
    simp only [List.map_cons, seqAll_cons, seq_fst]
    -- `u`'s result survives the rest of the run
    have key : ∀ (t' : List CUnit) (x : St), (∀ v ∈ t', u.Compat v) → (∀ v ∈ t', v.Wf) → t'.Pairwise CUnit.Compat →
        (∀ v ∈ t', v.Pre x) → u.Good x → (u.Wf → u.Pre x → u.Pre (seqAll (t'.map (CUnit.run true)) x).1) ∧
        u.Good (seqAll (t'.map (CUnit.run true)) x).1 := by
      intro t'
      induction t' with
      | nil => intro x _ _ _ _ hg; exact ⟨fun _ h => h, hg⟩
      | cons v t'' ih' =>
        intro x hc hw' hpw hp' hg
        obtain ⟨hvt, htt'⟩ := List.pairwise_cons.1 hpw
        have hwv := hw' v (List.mem_cons_self ..)
        have hpv := hp' v (List.mem_cons_self ..)
        have hcv := hc v (List.mem_cons_self ..)
        have hp'' : ∀ w ∈ t'', w.Pre (v.run true x).1 := fun w hw =>
          v.compat_pre w hwv (hvt w hw) x hpv (hp' w (List.mem_cons_of_mem _ hw))
        obtain ⟨r1, r2⟩ := ih' (v.run true x).1 (fun w hw => hc w (List.mem_cons_of_mem _ hw))
          (fun w hw => hw' w (List.mem_cons_of_mem _ hw)) htt' hp''
          (u.compat_preserves v hwu hwv hcv x hpv hg)
        simp only [List.map_cons, seqAll_cons, seq_fst]
        exact ⟨fun hwu' hpu' => r1 hwu' (v.compat_pre u hwv (Compat.symm hcv) x hpv hpu'), r2⟩
    obtain ⟨k1, k2⟩ := key t (u.run true s).1 hut hwt htt hpt (u.post s hwu hpu)
    constructor
    · intro v hv
      rcases List.mem_cons.1 hv with rfl | hv
      · exact k1 hwu (v.self_pre s hwu hpu)
      · exact ihp v hv
    · intro v hv
      rcases List.mem_cons.1 hv with rfl | hv
      · exact k2
      · exact ihg v hv

/-! ### `checkAll` is the run of the schema's units -/

theorem seqAll_append (l1 l2 : List Proc) (s : St) : seqAll (l1 ++ l2) s = ((seqAll l1).seq (seqAll l2)) s := by
  induction l1 generalizing s with
  | nil => simp [Proc.seq]
  | cons p t ih =>
    simp only [List.cons_append, seqAll_cons, Proc.seq, ih, List.append_assoc]

def StoreDef.units (S : Schema) (sd : StoreDef) : List CUnit :=
  sd.links.map (fun lc => CUnit.link lc (S.hasInverse lc)) ++ sd.constraints.map CUnit.cons

def Schema.units (S : Schema) : List CUnit := S.flatMap (StoreDef.units S)

theorem store_check_units (S : Schema) (fix : Bool) (sd : StoreDef) (s : St) :
    sd.check S fix s = seqAll ((sd.units S).map (CUnit.run fix)) s := by
  unfold StoreDef.check StoreDef.units
  rw [List.map_append, seqAll_append, List.map_map, List.map_map]
  rfl

theorem seqAll_flatMap {α : Type} (f : α → Proc) (g : α → List Proc) (h : ∀ a s, f a s = seqAll (g a) s)
    (l : List α) (s : St) : seqAll (l.map f) s = seqAll (l.flatMap g) s := by
  induction l generalizing s with
  | nil => rfl
  | cons a t ih =>
    simp only [List.map_cons, seqAll_cons, List.flatMap_cons, seqAll_append, Proc.seq, h, ih]

theorem checkAll_units (S : Schema) (fix : Bool) (s : St) :
    checkAll S fix s = seqAll (S.units.map (CUnit.run fix)) s := by
  unfold checkAll Schema.units
  rw [List.map_flatMap]
  exact seqAll_flatMap _ _ (fun sd s => store_check_units S fix sd s) S s

theorem checkReports_units (S : Schema) (s : St) : checkReports S s = S.units.flatMap (CUnit.rep s) := by
  unfold checkReports Schema.units
  rw [List.flatMap_assoc]
  apply flatMap_congr'
  intro sd _
  unfold StoreDef.rep StoreDef.units
  rw [List.flatMap_append, List.flatMap_map, List.flatMap_map]
  rfl

/-! ### from `Good` to the reports of the re-check -/

theorem conflict_unfixable (S : Schema) (r : Report) (h : r.msg.conflict = true) : Unfixable S r := by
  unfold Unfixable
  cases hm : r.msg <;> simp_all [Msg.conflict]

theorem lkRep_of_allLinkOk {s : St} {st f oSt oF : Name} (hasInv : Bool) (h : ∀ a b, LinkOk s st f oSt oF a b) :
    ∀ r ∈ lkRep st f oSt oF hasInv s, r.msg.conflict = true := by
  intro r hr
  unfold lkRep at hr
  rcases List.mem_append.1 hr with hr | hr
  · split at hr
    · cases hr
    · simp only [List.mem_singleton] at hr; subst hr; rfl
  · obtain ⟨a, _, hr⟩ := List.mem_flatMap.1 hr
    unfold lkRep1 at hr
    obtain ⟨b, hb, hr⟩ := List.mem_flatMap.1 hr
    obtain ⟨h1, h2⟩ := h a b hb
    unfold lkInner at hr
    simp [h1, h2] at hr

theorem fkRep_store {s : St} {st f : Name} {n : Bool} {fkSt fkF : Name} :
    ∀ r ∈ fkRep st f n fkSt fkF s, r.store = st ∧ r.field = f := by
  intro r hr
  unfold fkRep at hr
  rcases List.mem_append.1 hr with hr | hr
  · obtain ⟨t, _, hr⟩ := List.mem_flatMap.1 hr
    unfold fkRep1 at hr
    obtain ⟨x, _, hr⟩ := List.mem_flatMap.1 hr
    unfold fkInner1 at hr
    split at hr
    · simp only [List.mem_singleton] at hr; subst hr; exact ⟨rfl, rfl⟩
    · split at hr
      · simp only [List.mem_singleton] at hr; subst hr; exact ⟨rfl, rfl⟩
      · cases hr
  · obtain ⟨id, _, hr⟩ := List.mem_flatMap.1 hr
    unfold fkStep2 at hr
    split at hr
    · split at hr
      · cases hr
      · simp only [List.mem_singleton] at hr; subst hr; exact ⟨rfl, rfl⟩
    · split at hr
      · simp only [fkDanglingStep, List.mem_singleton] at hr; subst hr; exact ⟨rfl, rfl⟩
      · split at hr
        · cases hr
        · simp only [List.mem_singleton] at hr; subst hr; exact ⟨rfl, rfl⟩

theorem fcRep_store {s : St} {st f : Name} {n : Bool} {linked : Name} :
    ∀ r ∈ fcRep st f n linked s, r.store = st ∧ r.field = f := by
  intro r hr
  unfold fcRep at hr
  obtain ⟨id, _, hr⟩ := List.mem_flatMap.1 hr
  unfold fcStep at hr
  split at hr
  · split at hr
    · cases hr
    · simp only [List.mem_singleton] at hr; subst hr; exact ⟨rfl, rfl⟩
  · split at hr
    · simp only [fkDanglingStep, List.mem_singleton] at hr; subst hr; exact ⟨rfl, rfl⟩
    · cases hr

theorem mem_units_cons {S : Schema} {c : Constraint} (h : CUnit.cons c ∈ S.units) : c ∈ S.constraints := by
  unfold Schema.units at h
  obtain ⟨sd, hsd, h⟩ := List.mem_flatMap.1 h
  unfold StoreDef.units at h
  rcases List.mem_append.1 h with h | h
  · obtain ⟨lc, _, e⟩ := List.mem_map.1 h; cases e
  · obtain ⟨c', hc', e⟩ := List.mem_map.1 h
    cases e
    exact List.mem_flatMap.2 ⟨sd, hsd, hc'⟩

theorem fkQuiet_unfixable (S : Schema) {st f : Name} {n : Bool} (r : Report) (hs : r.store = st ∧ r.field = f)
    (hc : n = false → S.nonNullFk st f = true) (h : FkQuiet n r) : Unfixable S r := by
  rcases h with h | ⟨hn, id, t, hm⟩
  · exact conflict_unfixable S r h
  · unfold Unfixable
    rw [hm, hs.1, hs.2]
    exact hc hn

theorem CUnit.good_unfixable (S : Schema) (u : CUnit) (hu : u ∈ S.units) (s : St) (hg : u.Good s) :
    ∀ r ∈ u.rep s, Unfixable S r := by
  cases u with
  | link lc hi => exact fun r hr => conflict_unfixable S r (lkRep_of_allLinkOk hi hg r hr)
  | cons c =>
    have hc := mem_units_cons hu
    cases c with
    | unique st f n => exact fun r hr => conflict_unfixable S r (hg r hr)
    | setIdx st f =>
      intro r hr
      have : sxRep st f s = [] := hg
      simp only [CUnit.rep, Constraint.rep, this] at hr
      cases hr
    | fkIndex st f n fkSt fkF =>
      intro r hr
      refine fkQuiet_unfixable S r (fkRep_store r hr) ?_ (hg r hr)
      intro hn
      unfold Schema.nonNullFk
      rw [List.any_eq_true]
      exact ⟨_, hc, by simp [hn]⟩
    | fkCons st f n linked =>
      intro r hr
      refine fkQuiet_unfixable S r (fcRep_store r hr) ?_ (hg r hr)
      intro hn
      unfold Schema.nonNullFk
      rw [List.any_eq_true]
      exact ⟨_, hc, by simp [hn]⟩
    | noop => intro r hr; cases hr

/-- static conditions on a schema: constraints are declared on pairwise different locations (a link
    collection and its inverse excepted), and the two sides of a link collection differ -/
def SchemaOk (S : Schema) : Prop := S.units.Pairwise CUnit.Compat ∧ ∀ u ∈ S.units, u.Wf

instance (S : Schema) : Decidable (SchemaOk S) := by unfold SchemaOk; infer_instance

theorem pre_of_wf {S : Schema} {s : St} (hwf : s.WF) : ∀ u ∈ S.units, u.Pre s := by
  intro u hu
  cases u with
  | link lc hi => trivial
  | cons c =>
    cases c with
    | unique st f n => trivial
    | setIdx st f => exact hwf.setx st f
    | fkIndex st f n fkSt fkF => trivial
    | fkCons st f n linked => trivial
    | noop => trivial

/-- **convergence of a fix run**, for every schema satisfying `SchemaOk` and every state -/
theorem checkAll_fix_converges (S : Schema) (hS : SchemaOk S) (s : St) (hpre : ∀ u ∈ S.units, u.Pre s) :
    (∀ u ∈ S.units, u.Pre (checkAll S true s).1) ∧
    ∀ r ∈ (checkAll S false (checkAll S true s).1).2, Unfixable S r := by
  obtain ⟨hp, hg⟩ := units_converge S.units hS.1 hS.2 s hpre
  rw [← checkAll_units] at hp hg
  refine ⟨hp, ?_⟩
  rw [checkAll_false, checkReports_units]
  intro r hr
  obtain ⟨u, hu, hr⟩ := List.mem_flatMap.1 hr
  exact u.good_unfixable S hu _ (hg u hu) r hr

end StorageModel.C09
