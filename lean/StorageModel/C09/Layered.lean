import StorageModel.C09.SoundComplete
/-
  C09 — PARENT / CHILD layering of stores (boltz/store.go, boltz/store_query.go, boltz/query_scanners.go).

  A child store (`StoreDefinition.Parent != nil`) has no entities bucket of its own: its data for
  entity `id` is the nested bucket `<parent entities bucket>/<id>/<entityPath of the child>`, and an
  entity of the parent that has no such bucket is simply not a member of the child store.  A child
  store is either PLAIN or EXTENDED (`BaseStore.Extended()`).  The integrity checker reaches the
  entities of a store only through

    store.IterateValidIds(tx, true)   which ids a constraint's / link collection's entity scan visits
    store.IsEntityPresent(tx, id)     the index → entity passes, reference targets
    symbol.Eval / OpenCursor          via store.GetEntityBucket(tx, id)
    store.GetEntityBucket(tx, id)     the bucket a repair writes into

  all of the store that OWNS the symbol.  This file models the physical, layered database (`PSt`),
  these access paths literally — the shared entities bucket, the scan rule of the filtered cursor
  (`IsChildStore && !IsEntityPresent && !IsExtended → continue`), the `ValidIdsCursors` wrapper of an
  extended store with its INITIAL POSITIONING and its skipping `Next` — and proves that what they
  expose is the flat state `p.view L` (`validIds_eq_view`, `entityBucket_eq_view`, …): a root store
  is its own table, a child store is the table of the entities that have its data bucket, in the
  order of the shared bucket, wherever the parent-only ids sit (before, between, after).  The
  checker on a layered database is therefore `checkAll` on the view (`checkAllL`), and every theorem
  about `checkAll` — stated for EVERY schema, so also for schemas that name child stores — is a
  theorem about layered databases (Properties/C09.lean, section "layered stores").

  Scope: one level of layering (the parent of a child store is a root store), which is what
  `GetEntityBucket` implements (`entityBucket.GetPath(store.entityPath...)` from the ROOT entity).
-/
namespace StorageModel.C09
open StorageModel

/-- an entity bucket of a root store: its own fields / lists and the nested data buckets of the
    child stores (`none`: the entity has no data of that child store) -/
structure PEnt where
  own : Ent
  child : Name → Option Ent

/-- the physical database -/
structure PSt where
  /-- ROOT store name → entities bucket -/
  ents : Name → List (Id × PEnt)
  uniq : Name → Name → List (Bytes × Id)
  setx : Name → Name → List (Bytes × SVal)

structure ChildDecl where
  name : Name
  parent : Name
  extended : Bool
  deriving DecidableEq, Repr

/-- which store names are child stores (every other name is a root store) -/
abbrev Layering := List ChildDecl

def Layering.decl (L : Layering) (st : Name) : Option ChildDecl := L.find? fun d => d.name = st

/-! ### the access paths of the code -/

/-- `store.GetEntitiesBucket(tx)`: a child store answers with its parent's bucket -/
def PSt.bucket (L : Layering) (p : PSt) (st : Name) : List (Id × PEnt) :=
  match L.decl st with
  | none => p.ents st
  | some d => p.ents d.parent

/-- `store.GetEntityBucket(tx, id)`: `baseBucket.GetBucket(id)`, and for a child store
    `entityBucket.GetPath(store.entityPath...)` (nil when either is missing) -/
def PSt.entityBucket (L : Layering) (p : PSt) (st : Name) (id : Id) : Option Ent :=
  match L.decl st with
  | none => (get id (p.ents st)).map (·.own)
  | some d => (get id (p.ents d.parent)).bind (·.child st)

/-- `store.IsEntityPresent(tx, id)` = `nil != store.GetEntityBucket(tx, id)` -/
def PSt.isEntityPresent (L : Layering) (p : PSt) (st : Name) (id : Id) : Bool := (p.entityBucket L st id).isSome

def Layering.isChild (L : Layering) (st : Name) : Bool := (L.decl st).isSome

def Layering.isExtended (L : Layering) (st : Name) : Bool :=
  match L.decl st with
  | some d => d.extended
  | none => false

/-- `store.IterateIds(tx, true)`: the rows the filtered cursor (`uniqueIndexScanner.nextUnpaged` over the
    entities bucket, filter `true`) stops at — `if store.IsChildStore() && !store.IsEntityPresent(...) &&
    !store.IsExtended() { continue }` -/
def PSt.iterateIds (L : Layering) (p : PSt) (st : Name) : List Id :=
  ((p.bucket L st).map (·.1)).filter fun id =>
    !(L.isChild st && !p.isEntityPresent L st id && !L.isExtended st)

/-- `for cursor.IsValid() && !cursor.IsExtendedDataPresent() { cursor.wrapped.Next() }` -/
def skipInvalid (pres : Id → Bool) (l : List Id) : List Id := l.dropWhile fun x => !pres x

/-- `ValidIdsCursors.Next`: `wrapped.Next()`, then skip the ids without extension data.
    (A cursor is the list of rows from its current position on.) -/
def validNext (pres : Id → Bool) (l : List Id) : List Id := skipInvalid pres l.tail

/-- `for c := …; c.IsValid(); c.Next() { visit c.Current() }` -/
def drain (next : List Id → List Id) : Nat → List Id → List Id
  | 0, _ => []
  | _, [] => []
  | n + 1, x :: t => x :: drain next n (next (x :: t))

/-- the ids a loop over `store.IterateValidIds(tx, true)` visits -/
def PSt.validIds (L : Layering) (p : PSt) (st : Name) : List Id :=
  let rows := p.iterateIds L st
  if L.isExtended st then
    let pres := p.isEntityPresent L st
    -- `if validIdsCursor.IsValid() && !validIdsCursor.IsExtendedDataPresent() { validIdsCursor.Next() }`
    let start :=
      match rows with
      | [] => []
      | x :: t => if !pres x then validNext pres (x :: t) else x :: t
    drain (validNext pres) (rows.length + 1) start
  else drain List.tail (rows.length + 1) rows

/-! ### the flat view -/

/-- what the access paths expose: a root store's own table; for a child store the table of the
    entities of the shared bucket that have its data bucket -/
def PSt.view (L : Layering) (p : PSt) : St :=
  { ents := fun st =>
      match L.decl st with
      | none => (p.ents st).map fun q => (q.1, q.2.own)
      | some d => (p.ents d.parent).filterMap fun q => (q.2.child st).map fun e => (q.1, e)
    uniq := p.uniq
    setx := p.setx }

/-- the checker over a layered database: every access goes through the paths above, i.e. sees the view -/
def checkAllL (L : Layering) (S : Schema) (fix : Bool) (p : PSt) : St × List Report := checkAll S fix (p.view L)

/-! ### list lemmas -/

theorem filter_all {A : Type} (l : List A) : l.filter (fun _ => true) = l := by
  induction l with
  | nil => rfl
  | cons x t ih => rw [List.filter_cons]; simp [ih]

theorem get_map_snd {A B : Type} (g : A → B) (k : Bytes) (l : List (Bytes × A)) :
    get k (l.map fun q => (q.1, g q.2)) = (get k l).map g := by
  induction l with
  | nil => rfl
  | cons q t ih =>
    simp only [List.map_cons, get_cons]
    split
    · rfl
    · exact ih

theorem get_filterMap {A B : Type} (g : A → Option B) (k : Bytes) (l : List (Bytes × A)) (hn : NodupKeys l) :
    get k (l.filterMap fun q => (g q.2).map fun e => (q.1, e)) = (get k l).bind g := by
  induction l with
  | nil => rfl
  | cons q t ih =>
    have iht := ih (nodupKeys_tail hn)
    rw [List.filterMap_cons, get_cons]
    by_cases hk : k = q.1
    · rw [if_pos hk]
      cases hg : g q.2 with
      | none =>
        simp only [Option.map_none, Option.bind_some]
        rw [iht, hg]
        have : get k t = none := get_none_iff.2 fun r hr e => nodupKeys_head hn r hr (e.trans hk)
        rw [this]; rfl
      | some e =>
        simp only [Option.map_some, get_cons, if_pos hk, Option.bind_some, hg]
    · rw [if_neg hk]
      cases hg : g q.2 with
      | none => simpa using iht
      | some e => simp only [Option.map_some, get_cons, if_neg hk]; exact iht

theorem drain_tail (n : Nat) (l : List Id) (h : l.length ≤ n) : drain List.tail n l = l := by
  induction n generalizing l with
  | zero =>
    cases l with
    | nil => rfl
    | cons x t => simp at h
  | succ n ih =>
    cases l with
    | nil => rfl
    | cons x t =>
      simp only [drain, List.tail_cons]
      rw [ih t (by simpa using h)]

theorem skipInvalid_length (pres : Id → Bool) (l : List Id) : (skipInvalid pres l).length ≤ l.length := by
  unfold skipInvalid
  induction l with
  | nil => simp
  | cons x t ih =>
    rw [List.dropWhile_cons]
    split
    · exact Nat.le_succ_of_le ih
    · exact Nat.le_refl _

theorem filter_skipInvalid (pres : Id → Bool) (l : List Id) : (skipInvalid pres l).filter pres = l.filter pres := by
  unfold skipInvalid
  induction l with
  | nil => rfl
  | cons x t ih =>
    rw [List.dropWhile_cons]
    cases hx : pres x with
    | true => simp [hx]
    | false => simp [hx, ih]

theorem skipInvalid_head (pres : Id → Bool) (l : List Id) :
    skipInvalid pres l = [] ∨ ∃ x t, skipInvalid pres l = x :: t ∧ pres x = true := by
  unfold skipInvalid
  induction l with
  | nil => exact Or.inl rfl
  | cons x t ih =>
    rw [List.dropWhile_cons]
    cases hx : pres x with
    | true => exact Or.inr ⟨x, t, by simp, hx⟩
    | false => simpa [hx] using ih

/-- a `ValidIdsCursors` positioned on an id WITH extension data (or exhausted) visits exactly the
    remaining ids with extension data -/
theorem drain_valid (pres : Id → Bool) (n : Nat) (l : List Id) (h : l.length ≤ n)
    (hpos : l = [] ∨ ∃ x t, l = x :: t ∧ pres x = true) : drain (validNext pres) n l = l.filter pres := by
  induction n generalizing l with
  | zero =>
    cases l with
    | nil => rfl
    | cons x t => simp at h
  | succ n ih =>
    cases l with
    | nil => rfl
    | cons x t =>
      rcases hpos with h0 | ⟨x', t', e, hx⟩
      · cases h0
      · cases e
        simp only [drain, validNext, List.tail_cons]
        rw [ih _ (Nat.le_trans (skipInvalid_length pres _) (by simpa using h)) (skipInvalid_head pres _),
          filter_skipInvalid, List.filter_cons, hx]
        rfl

/-! ### the access paths expose the view -/

/-- well-formedness of the physical database: what bbolt gives (distinct keys per bucket, non-empty
    unique-index keys, distinct list elements) -/
structure PSt.WF (p : PSt) : Prop where
  ents : ∀ r, NodupKeys (p.ents r)
  uniq : ∀ st f, NodupKeys (p.uniq st f)
  setx : ∀ st f, NodupKeys (p.setx st f)
  uniqKey : ∀ st f kv, kv ∈ p.uniq st f → kv.1 ≠ []
  own : ∀ r q f, q ∈ p.ents r → (q.2.own.sets f).Nodup
  child : ∀ r q c e f, q ∈ p.ents r → q.2.child c = some e → (e.sets f).Nodup
  idsNodup : ∀ st f kv l, kv ∈ p.setx st f → kv.2 = .ids l → l.Nodup

/-- `GetEntityBucket` of the layered database = the entity of the view -/
theorem entityBucket_eq_view_k (L : Layering) (p : PSt) (hk : ∀ r, NodupKeys (p.ents r)) (st : Name) (id : Id) :
    p.entityBucket L st id = (p.view L).ent st id := by
  unfold PSt.entityBucket St.ent PSt.view
  cases hd : L.decl st with
  | none => simp only [hd]; rw [get_map_snd]
  | some d => simp only [hd]; exact (get_filterMap (fun pe => pe.child st) id _ (hk _)).symm

theorem entityBucket_eq_view (L : Layering) (p : PSt) (hwf : p.WF) (st : Name) (id : Id) :
    p.entityBucket L st id = (p.view L).ent st id := entityBucket_eq_view_k L p hwf.ents st id

/-- `IsEntityPresent` -/
theorem isEntityPresent_eq_view (L : Layering) (p : PSt) (hwf : p.WF) (st : Name) (id : Id) :
    p.isEntityPresent L st id = (p.view L).present st id := by
  unfold PSt.isEntityPresent St.present
  rw [entityBucket_eq_view L p hwf]

/-- `symbol.Eval(tx, id)` of a symbol owned by `st`: `GetEntityBucket`, then the field -/
def PSt.evalT (L : Layering) (p : PSt) (st : Name) (id : Id) (f : Name) : FVal :=
  match p.entityBucket L st id with
  | some e => e.fields f
  | none => .nil

theorem evalT_eq_view (L : Layering) (p : PSt) (hwf : p.WF) (st : Name) (id : Id) (f : Name) :
    p.evalT L st id f = (p.view L).evalT st id f := by
  unfold PSt.evalT St.evalT
  rw [entityBucket_eq_view L p hwf]
  cases (p.view L).ent st id <;> rfl

/-- the elements of a nested list bucket of a symbol owned by `st` -/
def PSt.setOf (L : Layering) (p : PSt) (st : Name) (id : Id) (f : Name) : List Bytes :=
  match p.entityBucket L st id with
  | some e => e.sets f
  | none => []

theorem setOf_eq_view (L : Layering) (p : PSt) (hwf : p.WF) (st : Name) (id : Id) (f : Name) :
    p.setOf L st id f = (p.view L).setOf st id f := by
  unfold PSt.setOf St.setOf
  rw [entityBucket_eq_view L p hwf]
  cases (p.view L).ent st id <;> rfl

theorem filter_present_eq {A B : Type} (g : A → Option B) (l : List (Bytes × A)) (hn : NodupKeys l) :
    (l.map (·.1)).filter (fun id => ((get id l).bind g).isSome) =
      (l.filterMap fun q => (g q.2).map fun e => (q.1, e)).map (·.1) := by
  induction l with
  | nil => rfl
  | cons q t ih =>
    have iht := ih (nodupKeys_tail hn)
    have htail : (t.map (·.1)).filter (fun id => ((get id (q :: t)).bind g).isSome) =
        (t.map (·.1)).filter (fun id => ((get id t).bind g).isSome) := by
      apply List.filter_congr
      intro id hid
      obtain ⟨r, hr, e⟩ := List.mem_map.1 hid
      have hne : ¬ id = q.1 := fun h => nodupKeys_head hn r hr (e.trans h)
      rw [get_cons, if_neg hne]
    rw [List.map_cons, List.filter_cons, htail, iht, List.filterMap_cons]
    simp only [get_cons, if_true, Option.bind_some]
    cases hg : g q.2 with
    | none => simp
    | some e => simp

/-- **the entity scan.** The ids a loop over `IterateValidIds` visits are the ids of the view's table,
    in order: for a root store all of them; for a plain child store the filtered cursor drops the
    parent-only ids; for an extended child store the filtered cursor keeps them and `ValidIdsCursors`
    — initial positioning and `Next` — drops them, wherever they sit. -/
theorem validIds_eq_view_k (L : Layering) (p : PSt) (hk : ∀ r, NodupKeys (p.ents r)) (st : Name) :
    p.validIds L st = (p.view L).ids st := by
  unfold PSt.validIds PSt.iterateIds
  cases hd : L.decl st with
  | none =>
    have hc : L.isChild st = false := by unfold Layering.isChild; rw [hd]; rfl
    have he : L.isExtended st = false := by unfold Layering.isExtended; rw [hd]
    simp only [hc, he, Bool.false_and, Bool.not_false, filter_all, Bool.false_eq_true, if_false]
    rw [drain_tail _ _ (Nat.le_succ _)]
    unfold PSt.bucket St.ids PSt.view
    simp only [hd, List.map_map]
    rfl
  | some d =>
    have hc : L.isChild st = true := by unfold Layering.isChild; rw [hd]; rfl
    have he : L.isExtended st = d.extended := by unfold Layering.isExtended; rw [hd]
    have hview : (p.view L).ids st =
        ((p.ents d.parent).map (·.1)).filter (fun id => p.isEntityPresent L st id) := by
      unfold St.ids PSt.view PSt.isEntityPresent PSt.entityBucket
      simp only [hd]
      exact (filter_present_eq (fun pe => pe.child st) _ (hk _)).symm
    have hb : (p.bucket L st).map (·.1) = (p.ents d.parent).map (·.1) := by unfold PSt.bucket; rw [hd]
    rw [hview, hb, hc, he]
    cases hext : d.extended with
    | false =>
      simp only [Bool.true_and, Bool.not_false, Bool.and_true, Bool.not_not, Bool.false_eq_true, if_false]
      rw [drain_tail _ _ (Nat.le_succ _)]
    | true =>
      simp only [Bool.not_true, Bool.and_false, Bool.not_false, filter_all, if_true]
      generalize (p.ents d.parent).map (·.1) = rows
      cases rows with
      | nil => rfl
      | cons x t =>
        simp only
        cases hx : p.isEntityPresent L st x with
        | false =>
          simp only [Bool.not_false, if_true, validNext, List.tail_cons]
          rw [drain_valid _ _ _ (Nat.le_trans (skipInvalid_length _ _) (by simp only [List.length_cons]; omega)) (skipInvalid_head _ _),
            filter_skipInvalid, List.filter_cons, hx]
          rfl
        | true =>
          simp only [Bool.not_true, Bool.false_eq_true, if_false]
          rw [drain_valid _ _ _ (Nat.le_succ _) (Or.inr ⟨x, t, rfl, hx⟩)]

theorem validIds_eq_view (L : Layering) (p : PSt) (hwf : p.WF) (st : Name) :
    p.validIds L st = (p.view L).ids st := validIds_eq_view_k L p hwf.ents st

/-- the view of a well-formed layered database is a well-formed state -/
theorem view_wf (L : Layering) (p : PSt) (hwf : p.WF) : (p.view L).WF := by
  refine ⟨?_, hwf.uniq, hwf.setx, hwf.uniqKey, ?_, hwf.idsNodup⟩
  · intro st
    unfold PSt.view NodupKeys
    cases hd : L.decl st with
    | none =>
      simp only [hd, List.map_map]
      exact hwf.ents st
    | some d =>
      simp only [hd]
      have hsub : ((p.ents d.parent).filterMap fun q => (q.2.child st).map fun e => (q.1, e)).map (·.1) =
          ((p.ents d.parent).map (·.1)).filter (fun id => ((get id (p.ents d.parent)).bind (·.child st)).isSome) :=
        (filter_present_eq (fun pe => pe.child st) _ (hwf.ents _)).symm
      rw [hsub]
      exact List.filter_sublist.nodup (hwf.ents d.parent)
  · intro st q f hq
    unfold PSt.view at hq
    cases hd : L.decl st with
    | none =>
      simp only [hd] at hq
      obtain ⟨r, hr, rfl⟩ := List.mem_map.1 hq
      exact hwf.own st r f hr
    | some d =>
      simp only [hd] at hq
      obtain ⟨r, hr, he⟩ := List.mem_filterMap.1 hq
      cases hc : r.2.child st with
      | none => rw [hc] at he; cases he
      | some e =>
        rw [hc] at he
        cases he
        exact hwf.child d.parent r st e f hr hc

end StorageModel.C09
